/-
  S2Proofs.HilbertLemmas — the Hilbert-curve part of C01.

  Part A  the lookup tables built by `initLookupCell` are characterised through the list of
          writes (`allCells`), no evaluation of the 1024-entry arrays in the kernel;
  Part B  a 2-bits-per-level recursive specification `hIJ` / `hPos` of the curve, its inverse
          and composition laws;
  Part C  `lookupIJ` / `lookupPos` are the 4-level instances of `hIJ` / `hPos`;
  Part D  `cellIDFromFaceIJ` and `faceIJOrientation` are the 30-level instances (fold over the
          8 lookup iterations), round trips, prefix property.
-/
import S2.Hilbert
import Mathlib.Tactic.Ring
import S2Proofs.CellIDLemmas
open S2 S2.CellID S2.Hilbert
namespace S2Proofs

abbrev W := Nat × Nat × Nat × Nat   -- (ij, origOrientation, pos, orientation)

def writeW (w : W) (t : Tables) : Tables :=
  (t.1.setIfInBounds ((w.1 <<< 2) + w.2.1) ((w.2.2.1 <<< 2) + w.2.2.2),
   t.2.setIfInBounds ((w.2.2.1 <<< 2) + w.2.1) ((w.1 <<< 2) + w.2.2.2))

def cellsS : Nat → Nat → Nat → Nat → Nat → Nat → Nat → List W
  | 0, _, i, j, oo, pos, o => [((i <<< lookupBits) + j, oo, pos, o)]
  | fuel+1, level, i, j, oo, pos, o =>
      if level == lookupBits then [((i <<< lookupBits) + j, oo, pos, o)]
      else
        let level := level + 1
        let i := i <<< 1
        let j := j <<< 1
        let pos := pos <<< 2
        let r := posToIJ[o]!
        cellsS fuel level (i + (r[0]! >>> 1)) (j + (r[0]! &&& 1)) oo pos (o ^^^ posToOrientation[0]!) ++
        cellsS fuel level (i + (r[1]! >>> 1)) (j + (r[1]! &&& 1)) oo (pos+1) (o ^^^ posToOrientation[1]!) ++
        cellsS fuel level (i + (r[2]! >>> 1)) (j + (r[2]! &&& 1)) oo (pos+2) (o ^^^ posToOrientation[2]!) ++
        cellsS fuel level (i + (r[3]! >>> 1)) (j + (r[3]! &&& 1)) oo (pos+3) (o ^^^ posToOrientation[3]!)

theorem init_eq_foldl : ∀ fuel level i j oo pos o t,
    initLookupCell fuel level i j oo pos o t = (cellsS fuel level i j oo pos o).foldl (fun t w => writeW w t) t := by
  intro fuel
  induction fuel with
  | zero => intro level i j oo pos o t; obtain ⟨lp, lij⟩ := t; simp [initLookupCell, cellsS, writeW]
  | succ n ih =>
    intro level i j oo pos o t
    obtain ⟨lp, lij⟩ := t
    rw [initLookupCell, cellsS]
    split
    · simp [initLookupCell, writeW]
    · simp only [ih, List.foldl_append]

def allCells : List W :=
  cellsS 5 0 0 0 0 0 0 ++ cellsS 5 0 0 0 swapMask 0 swapMask ++ cellsS 5 0 0 0 invertMask 0 invertMask ++
  cellsS 5 0 0 0 (swapMask ||| invertMask) 0 (swapMask ||| invertMask)

theorem tables_eq : tables = allCells.foldl (fun t w => writeW w t) (Array.replicate 1024 0, Array.replicate 1024 0) := by
  simp only [tables, allCells, init_eq_foldl, List.foldl_append]

/-- value of the last write to index `x` -/
def lastW (ws : List (Nat × Nat)) (x d : Nat) : Nat := ws.foldl (fun acc w => if w.1 == x then w.2 else acc) d

theorem foldl_set_get (ws : List (Nat × Nat)) : ∀ (a : Array Nat) (x : Nat), x < a.size →
    (ws.foldl (fun a w => a.setIfInBounds w.1 w.2) a)[x]! = lastW ws x a[x]! := by
  induction ws with
  | nil => intro a x hx; rfl
  | cons w ws ih =>
    intro a x hx
    simp only [List.foldl_cons, lastW]
    rw [ih _ x (by simpa using hx)]
    congr 1
    by_cases h : w.1 = x
    · subst h; simp [hx]
    · simp [h, hx]

theorem foldl_fst (ws : List W) (t : Tables) :
    (ws.foldl (fun t w => writeW w t) t).1 =
      (ws.map fun w => ((w.1 <<< 2) + w.2.1, (w.2.2.1 <<< 2) + w.2.2.2)).foldl (fun a w => a.setIfInBounds w.1 w.2) t.1 := by
  induction ws generalizing t with
  | nil => rfl
  | cons w ws ih => simp only [List.foldl_cons, List.map_cons]; rw [ih]; rfl

theorem foldl_snd (ws : List W) (t : Tables) :
    (ws.foldl (fun t w => writeW w t) t).2 =
      (ws.map fun w => ((w.2.2.1 <<< 2) + w.2.1, (w.1 <<< 2) + w.2.2.2)).foldl (fun a w => a.setIfInBounds w.1 w.2) t.2 := by
  induction ws generalizing t with
  | nil => rfl
  | cons w ws ih => simp only [List.foldl_cons, List.map_cons]; rw [ih]; rfl

def writesP : List (Nat × Nat) := allCells.map fun w => ((w.1 <<< 2) + w.2.1, (w.2.2.1 <<< 2) + w.2.2.2)
def writesI : List (Nat × Nat) := allCells.map fun w => ((w.2.2.1 <<< 2) + w.2.1, (w.1 <<< 2) + w.2.2.2)

theorem lookupPos_get (x : Nat) (hx : x < 1024) : lookupPos[x]! = lastW writesP x 0 := by
  unfold lookupPos
  rw [tables_eq, foldl_fst, foldl_set_get _ _ x (by simpa using hx)]
  simp [writesP, hx]

theorem lookupIJ_get (x : Nat) (hx : x < 1024) : lookupIJ[x]! = lastW writesI x 0 := by
  unfold lookupIJ
  rw [tables_eq, foldl_snd, foldl_set_get _ _ x (by simpa using hx)]
  simp [writesI, hx]


/-! ### Part B: the 2-bit recursion -/

/-- decode 2 bits per level: position (`2m` bits) ↦ (i, j, final orientation) -/
def hIJ : Nat → Nat → Nat → Nat × Nat × Nat
  | 0, o, _ => (0, 0, o)
  | m+1, o, p =>
    let d := p / 4^m % 4
    let ij := posToIJ[o]![d]!
    let r := hIJ m (o ^^^ posToOrientation[d]!) (p % 4^m)
    ((ij / 2) * 2^m + r.1, (ij % 2) * 2^m + r.2.1, r.2.2)

/-- encode 2 bits per level: (i, j) ↦ (position, final orientation) -/
def hPos : Nat → Nat → Nat → Nat → Nat × Nat
  | 0, o, _, _ => (0, o)
  | m+1, o, i, j =>
    let ij := 2 * (i / 2^m % 2) + (j / 2^m % 2)
    let d := ijToPos[o]![ij]!
    let r := hPos m (o ^^^ posToOrientation[d]!) (i % 2^m) (j % 2^m)
    (d * 4^m + r.1, r.2)

theorem tbl_small : ∀ o < 4, ∀ d < 4,
    posToIJ[o]![d]! < 4 ∧ ijToPos[o]![posToIJ[o]![d]!]! = d ∧ (o ^^^ posToOrientation[d]!) < 4 ∧
    ijToPos[o]![d]! < 4 ∧ posToIJ[o]![ijToPos[o]![d]!]! = d := by decide

theorem div_lem (a b X : Nat) (hb : b < X) : (a * X + b) / X = a := by
  have hX : 0 < X := by omega
  rw [Nat.add_comm, Nat.add_mul_div_right _ _ hX, Nat.div_eq_of_lt hb]; simp

theorem mod_lem (a b X : Nat) (hb : b < X) : (a * X + b) % X = b := by
  rw [Nat.add_comm, Nat.add_mul_mod_self_right, Nat.mod_eq_of_lt hb]

theorem hIJ_bounds : ∀ m o p, o < 4 → (hIJ m o p).1 < 2^m ∧ (hIJ m o p).2.1 < 2^m ∧ (hIJ m o p).2.2 < 4 := by
  intro m
  induction m with
  | zero => intro o p ho; simp [hIJ, ho]
  | succ m ih =>
    intro o p ho
    have hd : p / 4^m % 4 < 4 := Nat.mod_lt _ (by omega)
    obtain ⟨h1, _, h3, _, _⟩ := tbl_small o ho _ hd
    obtain ⟨a, b, c⟩ := ih (o ^^^ posToOrientation[p / 4^m % 4]!) (p % 4^m) h3
    simp only [hIJ]
    refine ⟨?_, ?_, c⟩
    · have : posToIJ[o]![p / 4^m % 4]! / 2 ≤ 1 := by omega
      calc _ < posToIJ[o]![p / 4^m % 4]! / 2 * 2^m + 2^m := by omega
        _ ≤ 1 * 2^m + 2^m := by apply Nat.add_le_add_right; exact Nat.mul_le_mul_right _ this
        _ = 2^(m+1) := by ring
    · have : posToIJ[o]![p / 4^m % 4]! % 2 ≤ 1 := by omega
      calc _ < posToIJ[o]![p / 4^m % 4]! % 2 * 2^m + 2^m := by omega
        _ ≤ 1 * 2^m + 2^m := by apply Nat.add_le_add_right; exact Nat.mul_le_mul_right _ this
        _ = 2^(m+1) := by ring

theorem hPos_bounds : ∀ m o i j, o < 4 → (hPos m o i j).1 < 4^m ∧ (hPos m o i j).2 < 4 := by
  intro m
  induction m with
  | zero => intro o i j ho; simp [hPos, ho]
  | succ m ih =>
    intro o i j ho
    have hd : 2 * (i / 2^m % 2) + (j / 2^m % 2) < 4 := by omega
    obtain ⟨_, _, _, h4, _⟩ := tbl_small o ho _ hd
    obtain ⟨_, _, h3, _, _⟩ := tbl_small o ho _ h4
    obtain ⟨a, b⟩ := ih (o ^^^ posToOrientation[ijToPos[o]![2 * (i / 2^m % 2) + (j / 2^m % 2)]!]!) (i % 2^m) (j % 2^m) h3
    simp only [hPos]
    refine ⟨?_, b⟩
    have : ijToPos[o]![2 * (i / 2^m % 2) + (j / 2^m % 2)]! ≤ 3 := by omega
    calc _ < ijToPos[o]![2 * (i / 2^m % 2) + (j / 2^m % 2)]! * 4^m + 4^m := by omega
      _ ≤ 3 * 4^m + 4^m := by apply Nat.add_le_add_right; exact Nat.mul_le_mul_right _ this
      _ = 4^(m+1) := by ring

theorem hPos_hIJ : ∀ m o p, o < 4 → p < 4^m →
    hPos m o (hIJ m o p).1 (hIJ m o p).2.1 = (p, (hIJ m o p).2.2) := by
  intro m
  induction m with
  | zero => intro o p ho hp; simp at hp; simp [hIJ, hPos, hp]
  | succ m ih =>
    intro o p ho hp
    have h4 : 0 < 4^m := Nat.pow_pos (by omega)
    have hdlt : p / 4^m < 4 := by
      rw [Nat.div_lt_iff_lt_mul h4]; rw [Nat.pow_succ] at hp; omega
    have hd : p / 4^m % 4 = p / 4^m := Nat.mod_eq_of_lt hdlt
    obtain ⟨h1, h2, h3, _, _⟩ := tbl_small o ho _ hdlt
    have hb := hIJ_bounds m (o ^^^ posToOrientation[p / 4^m]!) (p % 4^m) h3
    have ihh := ih (o ^^^ posToOrientation[p / 4^m]!) (p % 4^m) h3 (Nat.mod_lt _ h4)
    simp only [hIJ, hPos, hd]
    rw [div_lem _ _ _ hb.1, div_lem _ _ _ hb.2.1, mod_lem _ _ _ hb.1, mod_lem _ _ _ hb.2.1]
    have e : 2 * (posToIJ[o]![p / 4^m]! / 2 % 2) + posToIJ[o]![p / 4^m]! % 2 % 2 = posToIJ[o]![p / 4^m]! := by omega
    rw [e, h2, ihh]
    congr 1
    have := Nat.div_add_mod p (4^m)
    rw [Nat.mul_comm] at this; exact this

theorem hIJ_hPos : ∀ m o i j, o < 4 → i < 2^m → j < 2^m →
    hIJ m o (hPos m o i j).1 = (i, j, (hPos m o i j).2) := by
  intro m
  induction m with
  | zero => intro o i j ho hi hj; simp at hi hj; simp [hIJ, hPos, hi, hj]
  | succ m ih =>
    intro o i j ho hi hj
    have h2 : 0 < 2^m := Nat.pow_pos (by omega)
    have h4 : 0 < 4^m := Nat.pow_pos (by omega)
    have hi2 : i / 2^m < 2 := by rw [Nat.div_lt_iff_lt_mul h2]; rw [Nat.pow_succ] at hi; omega
    have hj2 : j / 2^m < 2 := by rw [Nat.div_lt_iff_lt_mul h2]; rw [Nat.pow_succ] at hj; omega
    have hij : 2 * (i / 2^m % 2) + (j / 2^m % 2) < 4 := by omega
    obtain ⟨_, _, _, k4, k5⟩ := tbl_small o ho _ hij
    obtain ⟨_, _, k3, _, _⟩ := tbl_small o ho _ k4
    have hb := hPos_bounds m (o ^^^ posToOrientation[ijToPos[o]![2 * (i / 2^m % 2) + (j / 2^m % 2)]!]!) (i % 2^m) (j % 2^m) k3
    have ihh := ih (o ^^^ posToOrientation[ijToPos[o]![2 * (i / 2^m % 2) + (j / 2^m % 2)]!]!) (i % 2^m) (j % 2^m) k3
      (Nat.mod_lt _ h2) (Nat.mod_lt _ h2)
    simp only [hIJ, hPos]
    rw [div_lem _ _ _ hb.1, mod_lem _ _ _ hb.1, Nat.mod_eq_of_lt k4, k5, ihh]
    have ei := Nat.div_add_mod i (2^m)
    have ej := Nat.div_add_mod j (2^m)
    have e1 : (2 * (i / 2^m % 2) + j / 2^m % 2) / 2 = i / 2^m := by
      generalize i / 2^m = a at hi2; generalize j / 2^m = b at hj2; omega
    have e2 : (2 * (i / 2^m % 2) + j / 2^m % 2) % 2 = j / 2^m := by
      generalize i / 2^m = a at hi2; generalize j / 2^m = b at hj2; omega
    rw [e1, e2]
    simp only [Prod.mk.injEq, and_true]
    constructor
    · rw [Nat.mul_comm]; exact ei
    · rw [Nat.mul_comm]; exact ej


theorem hIJ_mod (b o p : Nat) : hIJ b o (p % 4^b) = hIJ b o p := by
  cases b with
  | zero => simp [hIJ]
  | succ b =>
    simp only [hIJ]
    have e2 : p % 4^(b+1) / 4^b % 4 = p / 4^b % 4 := by
      rw [Nat.pow_succ, Nat.mod_mul_right_div_self, Nat.mod_mod]
    have e3 : p % 4^(b+1) % 4^b = p % 4^b := by
      rw [Nat.mod_mod_of_dvd]; exact Nat.pow_dvd_pow 4 (by omega)
    rw [e2, e3]

theorem hPos_mod (b o i j : Nat) : hPos b o (i % 2^b) (j % 2^b) = hPos b o i j := by
  cases b with
  | zero => simp [hPos]
  | succ b =>
    simp only [hPos]
    have e2 : ∀ x : Nat, x % 2^(b+1) / 2^b % 2 = x / 2^b % 2 := by
      intro x; rw [Nat.pow_succ, Nat.mod_mul_right_div_self, Nat.mod_mod]
    have e3 : ∀ x : Nat, x % 2^(b+1) % 2^b = x % 2^b := by
      intro x; rw [Nat.mod_mod_of_dvd]; exact Nat.pow_dvd_pow 2 (by omega)
    rw [e2, e2, e3, e3]

theorem hIJ_add (b : Nat) : ∀ a o p,
    hIJ (a + b) o p =
      ((hIJ a o (p / 4^b)).1 * 2^b + (hIJ b (hIJ a o (p / 4^b)).2.2 (p % 4^b)).1,
       (hIJ a o (p / 4^b)).2.1 * 2^b + (hIJ b (hIJ a o (p / 4^b)).2.2 (p % 4^b)).2.1,
       (hIJ b (hIJ a o (p / 4^b)).2.2 (p % 4^b)).2.2) := by
  intro a
  induction a with
  | zero => intro o p; simp [hIJ, hIJ_mod]
  | succ a ih =>
    intro o p
    have e : a + 1 + b = (a + b) + 1 := by omega
    rw [e]
    simp only [hIJ]
    have e1 : p / 4^(a+b) = p / 4^b / 4^a := by
      rw [Nat.div_div_eq_div_mul, ← Nat.pow_add, Nat.add_comm]
    have e2 : p % 4^(a+b) / 4^b = p / 4^b % 4^a := by
      rw [Nat.add_comm, Nat.pow_add, Nat.mod_mul_right_div_self]
    have e3 : p % 4^(a+b) % 4^b = p % 4^b := by
      rw [Nat.mod_mod_of_dvd]; exact Nat.pow_dvd_pow 4 (by omega)
    rw [ih, e1, e2, e3]
    simp only [Prod.mk.injEq, and_true]
    constructor <;> ring

theorem hPos_add (b : Nat) : ∀ a o i j,
    hPos (a + b) o i j =
      ((hPos a o (i / 2^b) (j / 2^b)).1 * 4^b + (hPos b (hPos a o (i / 2^b) (j / 2^b)).2 (i % 2^b) (j % 2^b)).1,
       (hPos b (hPos a o (i / 2^b) (j / 2^b)).2 (i % 2^b) (j % 2^b)).2) := by
  intro a
  induction a with
  | zero => intro o i j; simp [hPos, hPos_mod]
  | succ a ih =>
    intro o i j
    have e : a + 1 + b = (a + b) + 1 := by omega
    rw [e]
    simp only [hPos]
    have e1 : ∀ x : Nat, x / 2^(a+b) = x / 2^b / 2^a := by
      intro x; rw [Nat.div_div_eq_div_mul, ← Nat.pow_add, Nat.add_comm]
    have e2 : ∀ x : Nat, x % 2^(a+b) / 2^b = x / 2^b % 2^a := by
      intro x; rw [Nat.add_comm, Nat.pow_add, Nat.mod_mul_right_div_self]
    have e3 : ∀ x : Nat, x % 2^(a+b) % 2^b = x % 2^b := by
      intro x; rw [Nat.mod_mod_of_dvd]; exact Nat.pow_dvd_pow 2 (by omega)
    rw [ih, e1, e1, e2, e2, e3, e3]
    simp only [Prod.mk.injEq, and_true]
    ring

/-- two leading zero levels do nothing when the orientation has no invert bit -/
theorem hIJ_two_add (m o p : Nat) (ho : o < 2) (hp : p < 4^m) : hIJ (2 + m) o p = hIJ m o p := by
  rw [hIJ_add, Nat.div_eq_of_lt hp, Nat.mod_eq_of_lt hp]
  have : hIJ 2 o 0 = (0, 0, o) := by
    have : ∀ o < 2, hIJ 2 o 0 = (0, 0, o) := by decide
    exact this o ho
  rw [this]; simp

theorem hPos_two_add (m o i j : Nat) (ho : o < 2) (hi : i < 2^m) (hj : j < 2^m) :
    hPos (2 + m) o i j = hPos m o i j := by
  rw [hPos_add, Nat.div_eq_of_lt hi, Nat.div_eq_of_lt hj, Nat.mod_eq_of_lt hi, Nat.mod_eq_of_lt hj]
  have : hPos 2 o 0 0 = (0, o) := by
    have : ∀ o < 2, hPos 2 o 0 0 = (0, o) := by decide
    exact this o ho
  rw [this]; simp


/-! ### Part C: table entries -/

def wOf (oo p : Nat) : W := let r := hIJ 4 oo p; ((r.1 <<< 4) + r.2.1, oo, p, r.2.2)

theorem allCells_form : allCells.all (fun w => w == wOf w.2.1 w.2.2.1 && decide (w.2.1 < 4) && decide (w.2.2.1 < 256)) = true := by
  decide +kernel

theorem allCells_cover : allCells.map (fun w => (w.2.2.1 <<< 2) + w.2.1) =
    (List.range 4).flatMap (fun oo => (List.range 256).map (fun p => (p <<< 2) + oo)) := by
  decide +kernel

theorem allCells_mem_form {w : W} (h : w ∈ allCells) : w = wOf w.2.1 w.2.2.1 ∧ w.2.1 < 4 ∧ w.2.2.1 < 256 := by
  have := List.all_eq_true.mp allCells_form w h
  simp only [Bool.and_eq_true, beq_iff_eq, decide_eq_true_eq] at this
  exact ⟨this.1.1, this.1.2, this.2⟩

theorem wOf_mem (oo p : Nat) (hoo : oo < 4) (hp : p < 256) : wOf oo p ∈ allCells := by
  have hm : (p <<< 2) + oo ∈ allCells.map (fun w => (w.2.2.1 <<< 2) + w.2.1) := by
    rw [allCells_cover, List.mem_flatMap]
    exact ⟨oo, List.mem_range.mpr hoo, List.mem_map.mpr ⟨p, List.mem_range.mpr hp, rfl⟩⟩
  obtain ⟨w, hw, he⟩ := List.mem_map.mp hm
  obtain ⟨h1, h2, h3⟩ := allCells_mem_form hw
  simp only [Nat.shiftLeft_eq] at he
  have e1 : w.2.2.1 = p := by omega
  have e2 : w.2.1 = oo := by omega
  rw [e1, e2] at h1
  rw [← h1]; exact hw

theorem lastW_unique (ws : List (Nat × Nat)) (x v : Nat) (hcons : ∀ w' ∈ ws, w'.1 = x → w'.2 = v) :
    ∀ d, (d = v ∨ ∃ w ∈ ws, w.1 = x) → lastW ws x d = v := by
  induction ws with
  | nil => intro d h; rcases h with h | ⟨w, hw, _⟩; exact h; cases hw
  | cons w0 ws ih =>
    intro d h
    simp only [lastW, List.foldl_cons]
    have ih' := ih (fun w' hw' => hcons w' (List.mem_cons_of_mem _ hw'))
    by_cases h0 : w0.1 = x
    · have : (w0.1 == x) = true := by simp [h0]
      rw [this]; simp only [if_true]
      exact ih' _ (Or.inl (hcons w0 (List.mem_cons_self) h0))
    · have : (w0.1 == x) = false := by simp [h0]
      rw [this]; simp only [Bool.false_eq_true, if_false]
      apply ih'
      rcases h with h | ⟨w, hw, hx⟩
      · exact Or.inl h
      · right
        rcases List.mem_cons.mp hw with rfl | hw
        · exact absurd hx h0
        · exact ⟨w, hw, hx⟩

/-- `lookupIJ` is the 4-level decoder -/
theorem lookupIJ_spec (p oo : Nat) (hp : p < 256) (hoo : oo < 4) :
    lookupIJ[(p <<< 2) + oo]! = ((((hIJ 4 oo p).1 <<< 4) + (hIJ 4 oo p).2.1) <<< 2) + (hIJ 4 oo p).2.2 := by
  have hx : (p <<< 2) + oo < 1024 := by simp only [Nat.shiftLeft_eq]; omega
  rw [lookupIJ_get _ hx]
  apply lastW_unique
  · intro w' hw' hx'
    obtain ⟨c, hc, rfl⟩ := List.mem_map.mp hw'
    obtain ⟨h1, h2, h3⟩ := allCells_mem_form hc
    simp only [Nat.shiftLeft_eq] at hx'
    have e1 : c.2.2.1 = p := by omega
    have e2 : c.2.1 = oo := by omega
    rw [e1, e2] at h1
    rw [h1]; rfl
  · right
    exact ⟨_, List.mem_map.mpr ⟨wOf oo p, wOf_mem oo p hoo hp, rfl⟩, rfl⟩

/-- `lookupPos` is the 4-level encoder -/
theorem lookupPos_spec (i j oo : Nat) (hi : i < 16) (hj : j < 16) (hoo : oo < 4) :
    lookupPos[(((i <<< 4) + j) <<< 2) + oo]! = ((hPos 4 oo i j).1 <<< 2) + (hPos 4 oo i j).2 := by
  have hx : (((i <<< 4) + j) <<< 2) + oo < 1024 := by simp only [Nat.shiftLeft_eq]; omega
  rw [lookupPos_get _ hx]
  have hb := hPos_bounds 4 oo i j hoo
  have hinv := hIJ_hPos 4 oo i j hoo (by omega) (by omega)
  have hmem := wOf_mem oo (hPos 4 oo i j).1 hoo (by have := hb.1; omega)
  apply lastW_unique
  · intro w' hw' hx'
    obtain ⟨c, hc, rfl⟩ := List.mem_map.mp hw'
    obtain ⟨h1, h2, h3⟩ := allCells_mem_form hc
    have hbb := hIJ_bounds 4 c.2.1 c.2.2.1 h2
    have e0 : c.1 = ((hIJ 4 c.2.1 c.2.2.1).1 <<< 4) + (hIJ 4 c.2.1 c.2.2.1).2.1 := by
      conv => lhs; rw [h1]
      rfl
    simp only [Nat.shiftLeft_eq] at hx' e0
    have e2 : c.2.1 = oo := by omega
    rw [e2] at e0 hbb
    have e3 : (hIJ 4 oo c.2.2.1).1 = i := by omega
    have e4 : (hIJ 4 oo c.2.2.1).2.1 = j := by omega
    have hh := hPos_hIJ 4 oo c.2.2.1 hoo (by omega)
    rw [e3, e4] at hh
    have e5 : c.2.2.2 = (hIJ 4 oo c.2.2.1).2.2 := by
      conv => lhs; rw [h1]
      rw [e2]; rfl
    show (c.2.2.1 <<< 2) + c.2.2.2 = _
    rw [hh, e5]
  · right
    refine ⟨_, List.mem_map.mpr ⟨_, hmem, rfl⟩, ?_⟩
    simp only [wOf, hinv]


/-! ### Part D: the two folds over the 8 lookup iterations -/


def fstep (i j : Nat) (st : UInt64 × Nat) (k : Nat) : UInt64 × Nat :=
  let (n, bits) := st
  let mask := (1 <<< lookupBits) - 1
  let bits := bits + (((i >>> (k * lookupBits)) &&& mask) <<< (lookupBits + 2))
  let bits := bits + (((j >>> (k * lookupBits)) &&& mask) <<< 2)
  let bits := lookupPos[bits]!
  let n := n ||| (UInt64.ofNat (bits >>> 2) <<< UInt64.ofNat (k * 2 * lookupBits))
  (n, bits &&& (swapMask ||| invertMask))

theorem cellIDFromFaceIJ_fold (f i j : Nat) : cellIDFromFaceIJ f i j =
    (List.foldl (fstep i j) (UInt64.ofNat f <<< 60, f &&& swapMask) [7,6,5,4,3,2,1,0]).1 * 2 + 1 := rfl

theorem shr_and15 (x k : Nat) : (x >>> (k * 4)) &&& 15 = x / 16^k % 16 := by
  rw [Nat.shiftRight_eq_div_pow, show (15:Nat) = 2^4 - 1 from rfl, Nat.and_two_pow_sub_one_eq_mod,
      Nat.mul_comm k 4, Nat.pow_mul]

theorem fstep_spec (i j : Nat) (n : UInt64) (o k : Nat) (ho : o < 4) :
    fstep i j (n, o) k =
      (n ||| (UInt64.ofNat (hPos 4 o (i / 16^k % 16) (j / 16^k % 16)).1 <<< UInt64.ofNat (k * 2 * 4)),
       (hPos 4 o (i / 16^k % 16) (j / 16^k % 16)).2) := by
  have hi : i / 16^k % 16 < 16 := Nat.mod_lt _ (by omega)
  have hj : j / 16^k % 16 < 16 := Nat.mod_lt _ (by omega)
  have hb := hPos_bounds 4 o (i / 16^k % 16) (j / 16^k % 16) ho
  have e2 : o + ((i / 16^k % 16) <<< 6) + ((j / 16^k % 16) <<< 2)
      = ((((i / 16^k % 16) <<< 4) + (j / 16^k % 16)) <<< 2) + o := by
    simp only [Nat.shiftLeft_eq]; omega
  have e3 : (((hPos 4 o (i / 16^k % 16) (j / 16^k % 16)).1 <<< 2) + (hPos 4 o (i / 16^k % 16) (j / 16^k % 16)).2) >>> 2
      = (hPos 4 o (i / 16^k % 16) (j / 16^k % 16)).1 := by
    simp only [Nat.shiftLeft_eq, Nat.shiftRight_eq_div_pow]; omega
  have e4 : (((hPos 4 o (i / 16^k % 16) (j / 16^k % 16)).1 <<< 2) + (hPos 4 o (i / 16^k % 16) (j / 16^k % 16)).2) &&& 3
      = (hPos 4 o (i / 16^k % 16) (j / 16^k % 16)).2 := by
    rw [show (3:Nat) = 2^2 - 1 from rfl, Nat.and_two_pow_sub_one_eq_mod]
    simp only [Nat.shiftLeft_eq]; omega
  simp only [fstep, lookupBits, swapMask, invertMask, Nat.reduceShiftLeft, Nat.reduceSub, Nat.reduceAdd,
    Nat.reduceOr, shr_and15, e2, lookupPos_spec _ _ _ hi hj ho, e3, e4]

theorem or_eq_add (x y s : Nat) (hx : x % 2^s = 0) (hy : y < 2^s) : x ||| y = x + y := by
  have := Nat.shiftLeft_add_eq_or_of_lt hy (x / 2^s)
  have e : (x / 2^s) <<< s = x := by
    rw [Nat.shiftLeft_eq]
    have := Nat.div_add_mod x (2^s)
    rw [Nat.mul_comm] at this; omega
  rw [e] at this; exact this.symm

theorem shl_toNat (q s : Nat) (hs : s < 64) (hq : q * 2^s < 2^64) :
    (UInt64.ofNat q <<< UInt64.ofNat s).toNat = q * 2^s := by
  have hq' : q < 2^64 := by
    have : q ≤ q * 2^s := Nat.le_mul_of_pos_right _ (Nat.two_pow_pos s)
    omega
  rw [UInt64.toNat_shiftLeft, UInt64.toNat_ofNat', UInt64.toNat_ofNat', Nat.mod_eq_of_lt hq',
      Nat.mod_eq_of_lt (by omega : s < 2^64), Nat.mod_eq_of_lt hs, Nat.shiftLeft_eq, Nat.mod_eq_of_lt hq]

theorem or_step (k f R q nT : Nat) (hk : k ≤ 7) (_hf : f < 8) (h1 : nT = f * 2^60 + R * 256^(k+1))
    (hq : q < 256) (hbd : R * 256 + q < 4^(30 - 4*k)) :
    q * 2^(k*2*4) < 2^64 ∧ nT ||| (q * 2^(k*2*4)) = f * 2^60 + (R * 256 + q) * 256^k := by
  subst h1
  -- (omega loops on some of these goals when the irrelevant bound `hbd` is in the context)
  have h64 : q * 2^(k*2*4) < 2^64 := by
    clear hbd
    interval_cases k <;> simp only [Nat.reducePow, Nat.reduceMul] <;> omega
  refine ⟨h64, ?_⟩
  by_cases h7 : k = 7
  · subst h7
    simp only [Nat.reducePow, Nat.reduceMul, Nat.reduceAdd] at *
    have hq16 : q < 16 := by omega
    have hR : R = 0 := by omega
    subst hR
    clear hbd
    rw [or_eq_add _ _ 60 (by omega) (by omega)]; omega
  · clear hbd
    have hk6 : k ≤ 6 := by omega
    clear hk h7
    interval_cases k
    all_goals simp only [Nat.reducePow, Nat.reduceMul, Nat.reduceAdd] at *
    · rw [or_eq_add _ _ 8 (by omega) (by omega)]; omega
    · rw [or_eq_add _ _ 16 (by omega) (by omega)]; omega
    · rw [or_eq_add _ _ 24 (by omega) (by omega)]; omega
    · rw [or_eq_add _ _ 32 (by omega) (by omega)]; omega
    · rw [or_eq_add _ _ 40 (by omega) (by omega)]; omega
    · rw [or_eq_add _ _ 48 (by omega) (by omega)]; omega
    · rw [or_eq_add _ _ 56 (by omega) (by omega)]; omega

/-- state of the forward fold before processing digit `k-1` (i.e. after digits 7..k) -/
def FInv (f i j k : Nat) (st : UInt64 × Nat) : Prop :=
  st.1.toNat = f * 2^60 + (hPos (4*(8-k)) (f &&& 1) (i / 16^k) (j / 16^k)).1 * 256^k ∧
  st.2 = (hPos (4*(8-k)) (f &&& 1) (i / 16^k) (j / 16^k)).2

theorem and_one_lt (f : Nat) : f &&& 1 < 2 := by
  rw [show (1:Nat) = 2^1 - 1 from rfl, Nat.and_two_pow_sub_one_eq_mod]; omega

theorem FInv_step (f i j k : Nat) (hf : f < 8) (hi : i < 2^30) (hj : j < 2^30) (hk : k ≤ 7)
    (st : UInt64 × Nat) (h : FInv f i j (k+1) st) : FInv f i j k (fstep i j st k) := by
  obtain ⟨n, o⟩ := st
  obtain ⟨h1, h2⟩ := h
  simp only at h1 h2
  have ho0 : f &&& 1 < 4 := by have := and_one_lt f; omega
  have hR1 := hPos_bounds (4*(8-(k+1))) (f &&& 1) (i / 16^(k+1)) (j / 16^(k+1)) ho0
  have ho : o < 4 := by rw [h2]; exact hR1.2
  rw [fstep_spec i j n o k ho]
  -- decompose the new prefix
  have ea : 4*(8-k) = 4*(8-(k+1)) + 4 := by omega
  have hadd := hPos_add 4 (4*(8-(k+1))) (f &&& 1) (i / 16^k) (j / 16^k)
  rw [← ea] at hadd
  have ed : ∀ x : Nat, x / 16^k / 2^4 = x / 16^(k+1) := by
    intro x; rw [Nat.div_div_eq_div_mul, show (2:Nat)^4 = 16 from rfl, ← Nat.pow_succ]
  rw [ed, ed] at hadd
  simp only [Nat.reducePow] at hadd
  -- bound on the new prefix
  have e30 : 4*(8-k) = 2 + (30 - 4*k) := by omega
  have hIlt : ∀ x : Nat, x < 2^30 → x / 16^k < 2^(30 - 4*k) := by
    intro x hx
    rw [Nat.div_lt_iff_lt_mul (by positivity)]
    have : 2^(30-4*k) * 16^k = 2^30 := by
      rw [show (16:Nat) = 2^4 from rfl, ← Nat.pow_mul, ← Nat.pow_add]; congr 1; omega
    omega
  have htwo := hPos_two_add (30 - 4*k) (f &&& 1) (i / 16^k) (j / 16^k) (and_one_lt f) (hIlt i hi) (hIlt j hj)
  rw [← e30] at htwo
  have hbd := hPos_bounds (30 - 4*k) (f &&& 1) (i / 16^k) (j / 16^k) ho0
  rw [← htwo] at hbd
  have hq := hPos_bounds 4 o (i / 16^k % 16) (j / 16^k % 16) ho
  rw [h2] at hq ⊢
  simp only [FInv]
  rw [hadd] at hbd ⊢
  refine ⟨?_, rfl⟩
  generalize (hPos 4 (hPos (4*(8-(k+1))) (f &&& 1) (i / 16^(k+1)) (j / 16^(k+1))).2 (i / 16^k % 16) (j / 16^k % 16)).1 = q at *
  generalize (hPos (4*(8-(k+1))) (f &&& 1) (i / 16^(k+1)) (j / 16^(k+1))).1 = R at *
  have hq1 := hq.1
  have hbd1 := hbd.1
  obtain ⟨hlt, hor⟩ := or_step k f R q _ hk hf h1 hq1 hbd1
  rw [UInt64.toNat_or, shl_toNat _ _ (by omega) hlt, hor]

theorem FInv_init (f i j : Nat) (hf : f < 8) : FInv f i j 8 (UInt64.ofNat f <<< 60, f &&& swapMask) := by
  constructor
  · have := shl_toNat f 60 (by omega) (by omega)
    simp only [hPos, Nat.sub_self, Nat.mul_zero, Nat.zero_mul, Nat.add_zero]
    exact this
  · simp [hPos, swapMask]

/-- the position computed by `cellIDFromFaceIJ` is the 30-level encoder -/
theorem cellIDFromFaceIJ_toNat (f i j : Nat) (hf : f < 8) (hi : i < 2^30) (hj : j < 2^30) :
    (cellIDFromFaceIJ f i j).toNat = 2 * (f * 2^60 + (hPos 30 (f &&& 1) i j).1) + 1 := by
  rw [cellIDFromFaceIJ_fold]
  have h8 := FInv_init f i j hf
  have h7 := FInv_step f i j 7 hf hi hj (by omega) _ h8
  have h6 := FInv_step f i j 6 hf hi hj (by omega) _ h7
  have h5 := FInv_step f i j 5 hf hi hj (by omega) _ h6
  have h4 := FInv_step f i j 4 hf hi hj (by omega) _ h5
  have h3 := FInv_step f i j 3 hf hi hj (by omega) _ h4
  have h2 := FInv_step f i j 2 hf hi hj (by omega) _ h3
  have h1 := FInv_step f i j 1 hf hi hj (by omega) _ h2
  have h0 := FInv_step f i j 0 hf hi hj (by omega) _ h1
  simp only [List.foldl]
  obtain ⟨e, _⟩ := h0
  have htwo := hPos_two_add 30 (f &&& 1) i j (and_one_lt f) hi hj
  have hb := (hPos_bounds 30 (f &&& 1) i j (by have := and_one_lt f; omega)).1
  simp only [Nat.sub_zero, Nat.pow_zero, Nat.div_one, Nat.mul_one, Nat.reduceMul] at e
  rw [show (32:Nat) = 2 + 30 from rfl, htwo] at e
  rw [UInt64.toNat_add, UInt64.toNat_mul, e]
  have : (2:UInt64).toNat = 2 := rfl
  rw [this, one_toNat]
  generalize (hPos 30 (f &&& 1) i j).1 = P at *
  simp only [Nat.reducePow] at *
  omega

/-! #### backward: `faceIJOrientation` -/

def bstep (ci : CellID) (st : Nat × Nat × Nat) (k : Nat) : Nat × Nat × Nat :=
  let (i, j, orientation) := st
  let nbits := if k == 7 then maxLevel - 7 * lookupBits else lookupBits
  let orientation := orientation +
    ((((ci >>> UInt64.ofNat (k * 2 * lookupBits + 1)).toNat) &&& ((1 <<< (2 * nbits)) - 1)) <<< 2)
  let orientation := lookupIJ[orientation]!
  let i := i + ((orientation >>> (lookupBits + 2)) <<< (k * lookupBits))
  let j := j + (((orientation >>> 2) &&& ((1 <<< lookupBits) - 1)) <<< (k * lookupBits))
  (i, j, orientation &&& (swapMask ||| invertMask))

theorem faceIJOrientation_fold (ci : CellID) : faceIJOrientation ci =
    (let r := List.foldl (bstep ci) (0, 0, face ci &&& swapMask) [7,6,5,4,3,2,1,0]
     (face ci, r.1, r.2.1,
       if lsb ci &&& 0x1111111111111110 != 0 then r.2.2 ^^^ swapMask else r.2.2)) := rfl

/-- the 60 position bits of a word -/
def posBits60 (ci : CellID) : Nat := ci.toNat / 2 % 2^60

theorem digit_eq (ci : CellID) (k : Nat) (hk : k ≤ 7) :
    ((ci >>> UInt64.ofNat (k * 2 * 4 + 1)).toNat) &&& ((1 <<< (2 * (if k == 7 then 30 - 7 * 4 else 4))) - 1)
      = posBits60 ci / 256^k % 256 := by
  rw [shiftRight_lit_toNat _ _ (by omega)]
  unfold posBits60
  have hlt := ci.toNat_lt
  interval_cases k
  all_goals simp only [Nat.reduceMul, Nat.reduceAdd, Nat.reduceSub, Nat.reduceBEq, Nat.reduceShiftLeft,
    Bool.false_eq_true, if_false, if_true, Nat.reducePow]
  · rw [show (255:Nat) = 2^8 - 1 from rfl, Nat.and_two_pow_sub_one_eq_mod]; omega
  · rw [show (255:Nat) = 2^8 - 1 from rfl, Nat.and_two_pow_sub_one_eq_mod]; omega
  · rw [show (255:Nat) = 2^8 - 1 from rfl, Nat.and_two_pow_sub_one_eq_mod]; omega
  · rw [show (255:Nat) = 2^8 - 1 from rfl, Nat.and_two_pow_sub_one_eq_mod]; omega
  · rw [show (255:Nat) = 2^8 - 1 from rfl, Nat.and_two_pow_sub_one_eq_mod]; omega
  · rw [show (255:Nat) = 2^8 - 1 from rfl, Nat.and_two_pow_sub_one_eq_mod]; omega
  · rw [show (255:Nat) = 2^8 - 1 from rfl, Nat.and_two_pow_sub_one_eq_mod]; omega
  · rw [show (15:Nat) = 2^4 - 1 from rfl, Nat.and_two_pow_sub_one_eq_mod]; omega

theorem bstep_spec (ci : CellID) (i j o k : Nat) (ho : o < 4) (hk : k ≤ 7) :
    bstep ci (i, j, o) k =
      (i + (hIJ 4 o (posBits60 ci / 256^k % 256)).1 * 16^k,
       j + (hIJ 4 o (posBits60 ci / 256^k % 256)).2.1 * 16^k,
       (hIJ 4 o (posBits60 ci / 256^k % 256)).2.2) := by
  have hp : posBits60 ci / 256^k % 256 < 256 := Nat.mod_lt _ (by omega)
  have hb := hIJ_bounds 4 o (posBits60 ci / 256^k % 256) ho
  have hd := digit_eq ci k hk
  have e0 : ∀ x : Nat, o + (x <<< 2) = (x <<< 2) + o := fun x => Nat.add_comm _ _
  have e16 : ∀ x : Nat, x <<< (k * 4) = x * 16^k := by
    intro x; rw [Nat.shiftLeft_eq, Nat.mul_comm k 4, Nat.pow_mul]
  generalize hr : hIJ 4 o (posBits60 ci / 256^k % 256) = r at *
  obtain ⟨ri, rj, ro⟩ := r
  simp only at hb
  have e3 : ((((ri <<< 4) + rj) <<< 2) + ro) >>> 6 = ri := by
    simp only [Nat.shiftLeft_eq, Nat.shiftRight_eq_div_pow]; omega
  have e4 : (((((ri <<< 4) + rj) <<< 2) + ro) >>> 2) &&& 15 = rj := by
    rw [show (15:Nat) = 2^4 - 1 from rfl, Nat.and_two_pow_sub_one_eq_mod]
    simp only [Nat.shiftLeft_eq, Nat.shiftRight_eq_div_pow]; omega
  have e5 : ((((ri <<< 4) + rj) <<< 2) + ro) &&& 3 = ro := by
    rw [show (3:Nat) = 2^2 - 1 from rfl, Nat.and_two_pow_sub_one_eq_mod]
    simp only [Nat.shiftLeft_eq]; omega
  simp only [bstep, lookupBits, maxLevel, swapMask, invertMask, hd, e0, lookupIJ_spec _ _ hp ho, hr,
    Nat.reduceAdd, Nat.reduceOr, Nat.reduceShiftLeft, Nat.reduceSub, e3, e4, e5, e16]

def BInv (ci : CellID) (k : Nat) (st : Nat × Nat × Nat) : Prop :=
  st = ((hIJ (4*(8-k)) (face ci &&& 1) (posBits60 ci / 256^k)).1 * 16^k,
        (hIJ (4*(8-k)) (face ci &&& 1) (posBits60 ci / 256^k)).2.1 * 16^k,
        (hIJ (4*(8-k)) (face ci &&& 1) (posBits60 ci / 256^k)).2.2)

theorem BInv_step (ci : CellID) (k : Nat) (hk : k ≤ 7) (st : Nat × Nat × Nat)
    (h : BInv ci (k+1) st) : BInv ci k (bstep ci st k) := by
  unfold BInv at h
  subst h
  have ho0 : face ci &&& 1 < 4 := by have := and_one_lt (face ci); omega
  have hR1 := hIJ_bounds (4*(8-(k+1))) (face ci &&& 1) (posBits60 ci / 256^(k+1)) ho0
  rw [bstep_spec ci _ _ _ k hR1.2.2 hk]
  have ea : 4*(8-k) = 4*(8-(k+1)) + 4 := by omega
  have hadd := hIJ_add 4 (4*(8-(k+1))) (face ci &&& 1) (posBits60 ci / 256^k)
  rw [← ea] at hadd
  have ed : posBits60 ci / 256^k / 4^4 = posBits60 ci / 256^(k+1) := by
    rw [Nat.div_div_eq_div_mul, show (4:Nat)^4 = 256 from rfl, ← Nat.pow_succ]
  rw [ed] at hadd
  simp only [Nat.reducePow] at hadd
  unfold BInv
  rw [hadd]
  simp only [Prod.mk.injEq, and_true]
  constructor <;> (rw [Nat.pow_succ]; ring)


end S2Proofs
