/-
  C15 — concrete byte strings replayed through the regenerated decoder IR (kernel evaluation of the
  interpreter, `decide +kernel`).  Kept apart from Properties/C15.lean: these are illustrations, not
  obligations; each is cheap (< 1 s).  Do not add inputs that walk the whole compressed-polygon path:
  kernel evaluation of those costs minutes and gigabytes.
-/
import S2Proofs.Properties.C15
namespace S2Proofs.C15
open S2.DecoderIR S2.Generated.DecoderIR

-- the former failing inputs are now rejected with an error
example : run cap32G CellUnion_Decode [1, 255, 255, 255, 255, 255, 255, 255, 255] = .error 0 := by decide +kernel
example : run cap32G Polyline_Decode [1, 5, 0, 0, 0] = .error 120 := by decide +kernel
example : run cap32G Polyline_Decode [1, 0x81, 0xf0, 0xfa, 0x02] = .error 0 := by decide +kernel
example : run cap32G Polygon_Decode [4, 0, 0x80, 0x80, 0x80, 0x80, 0x80, 0x20] = .error 0 := by decide +kernel
example : run cap32G Polygon_Decode [4, 0, 0x85, 0x80, 0x80, 0x80, 0x80, 0x80, 0x80, 0x80, 0x80, 0x01]
    = .error 0 := by decide +kernel

-- D23 (off-centre vertex index >= 2^63, `04 00 01 01 06 01 80808080808080808001`): now rejected with an error.
-- Not replayed here: kernel evaluation of the whole compressed-polygon path is expensive (minutes, GBs); the input is in
-- corpus/C15/fixed.txt and is judged by the compiled interpreter on every run.

-- D20 (Cell.Decode of an invalid cell id, face 7): now rejected; a valid id still decodes.
example : run cap32G Cell_Decode [0x95, 0xe7, 0x7c, 0x2b, 0x8b, 0x33, 0x61, 0xf4] = .error 0 := by decide +kernel
example : run cap32G Cell_Decode [0, 0, 0, 0, 0, 0, 0, 0x10] = .value 0 false := by decide +kernel

/-- D3 (repaired in the query code) is NOT visible in the decoder IR: the 0-vertex loop decodes to a value (43 bytes
    `01 00000000 00 00000000 01 0…0`); the panic (integer divide by zero in `Loop.Vertex`) happens in
    the later `ContainsPoint` query and is caught by the correspondence half (`ok QPANIC:…`). -/
example : run cap32G Loop_Decode ([1, 0, 0, 0, 0, 0, 0, 0, 0, 0, 1] ++ List.replicate 32 0) = .value 0 false := by
  decide +kernel

end S2Proofs.C15
