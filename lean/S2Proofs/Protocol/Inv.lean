/-
  Helper lemmas for C14: the inductive invariant of the lazy-build protocol, for every N and every
  well-formed program.
-/
import S2.Protocol
namespace S2Proofs.ProtocolInv
open S2.Protocol

@[simp] theorem upd_same (f : Nat → Thread) (i : Nat) (t : Thread) : upd f i t i = t := by simp [upd]
theorem upd_other (f : Nat → Thread) {i j : Nat} (t : Thread) (h : j ≠ i) : upd f i t j = f j := by
  simp [upd, h]

def holds (ph : Phase) : Prop := ph = .locked0 ∨ ph = .locked1 ∨ ph = .stored
def past (ph : Phase) : Prop := ph = .locked1 ∨ ph = .stored ∨ ph = .post

/-- the inductive invariant; `p0` = were additions pending initially -/
structure Inv (N : Nat) (p0 : Bool) (c : Cfg) : Prop where
  shape : ∀ i, shapeOK (c.th i).ph (c.th i).k = true
  own : ∀ i, c.sh.owner = some i ↔ holds (c.th i).ph
  ownLt : ∀ i, c.sh.owner = some i → i < N
  npend : ∀ i, past (c.th i).ph → c.sh.pending = false
  fresh : c.sh.status = .fresh → c.sh.pending = false
  compl : c.sh.complete = !c.sh.pending
  midHead : ∀ i, (c.th i).mid = true →
      (c.th i).k.head? = some .apply ∨ (c.th i).k.head? = some .readCells
  midW : ∀ i, (c.th i).mid = true → (c.th i).k.head? = some .apply → c.sh.pending = true
  applied : c.sh.applied = if p0 && !c.sh.pending then 1 else 0
  pmono : c.sh.pending = true → p0 = true
  reads : ∀ i, (c.th i).readsOK = true
  nofault : c.sh.fault = false

theorem inv_init (N : Nat) (p : Prog) (h : WellFormed p = true) (p0 : Bool) : Inv N p0 (init p p0) := by
  constructor <;> cases p0 <;> simp_all [init, shapeOK, WellFormed, holds, past]

theorem head_apply_holds {ph : Phase} {k : Prog} (h : shapeOK ph k = true)
    (hh : k.head? = some .apply) : holds ph := by
  cases k with
  | nil => simp at hh
  | cons a t =>
    simp at hh; subst hh
    cases ph <;> simp_all [shapeOK, Start, Entered, Locked0, Locked1, Stored, Post, holds]

theorem head_read_post {ph : Phase} {k : Prog} (h : shapeOK ph k = true)
    (hh : k.head? = some .readCells) : ph = .post := by
  cases k with
  | nil => simp at hh
  | cons a t =>
    simp at hh; subst hh
    cases ph <;> simp_all [shapeOK, Start, Entered, Locked0, Locked1, Stored, Post]

set_option hygiene false in
macro "inv_fields" : tactic => `(tactic| (
      constructor
      case shape | own | ownLt | npend | midHead | midW | reads =>
        intro j
        have h1 := hinv.shape j; have h2 := hinv.own j; have h3 := hinv.ownLt j
        have h4 := hinv.npend j; have h5 := hinv.midHead j; have h6 := hinv.midW j; have h7 := hinv.reads j
        have h8 := @head_apply_holds _ _ h1; have h9 := @head_read_post _ _ h1
        have g8 := @head_apply_holds _ _ (hinv.shape i); have g9 := @head_read_post _ _ (hinv.shape i)
        by_cases hj : j = i
        · subst hj
          cases hph : (c.th j).ph <;>
            simp_all [shapeOK, Start, Entered, Locked0, Locked1, Stored, Post, nextPhase, holds, past]
        · simp_all [upd_other _ _ hj, holds, past] <;> first | done | (intro h; exact absurd h.symm hj) | (intro h; subst h; omega) | grind [holds, past]
      all_goals simp_all [past]))

set_option maxHeartbeats 4000000 in
theorem step_preserves {N : Nat} {p0 : Bool} {c c' : Cfg} {i : Nat}
    (hinv : Inv N p0 c) (hi : i < N) (hs : stepThread i c = some c') : Inv N p0 c' := by
  have hsh := hinv.shape i
  have hown := hinv.own i
  have hnp := hinv.npend i
  have hmh := hinv.midHead i
  have hmw := hinv.midW i
  have hfr := hinv.fresh
  have hco := hinv.compl
  have hap := hinv.applied
  have hpm := hinv.pmono
  have hnf := hinv.nofault
  rcases hk : (c.th i).k with _ | ⟨ins, rest⟩
  · simp [stepThread, hk] at hs
  · rw [hk] at hsh hmh hmw
    have hphases : ∀ ph, (c.th i).ph = ph → shapeOK ph (ins :: rest) = true := by
      intro ph h; rw [← h]; exact hsh
    cases ins with
    | sched n =>
      simp [stepThread, hk, adv] at hs
      subst hs
      have hmid : (c.th i).mid = false := by
        cases hm : (c.th i).mid <;> simp_all
      inv_fields
    | ifFreshSkip n =>
      have hmid : (c.th i).mid = false := by
        cases hm : (c.th i).mid <;> simp_all
      simp [stepThread, hk, adv] at hs
      split at hs <;> (simp at hs; subst hs; inv_fields)
    | lock =>
      have hmid : (c.th i).mid = false := by
        cases hm : (c.th i).mid <;> simp_all
      simp [stepThread, hk, adv] at hs
      obtain ⟨ho, hs⟩ := hs
      subst hs
      inv_fields
    | unlock =>
      have hmid : (c.th i).mid = false := by
        cases hm : (c.th i).mid <;> simp_all
      have hst : (c.th i).ph = .stored := by
        cases hph : (c.th i).ph <;> simp_all [shapeOK, Start, Entered, Locked0, Locked1, Stored, Post]
      have ho : c.sh.owner = some i := by rw [hown]; simp [holds, hst]
      simp [stepThread, hk, adv, ho] at hs
      subst hs
      inv_fields
    | apply =>
      simp [stepThread, hk, adv] at hs
      split at hs
      · simp at hs; subst hs; inv_fields
      · split at hs
        · simp at hs; subst hs; inv_fields
        · simp at hs; subst hs; inv_fields
    | storeStatus v =>
      have hmid : (c.th i).mid = false := by
        cases hm : (c.th i).mid <;> simp_all
      have hl1 : (c.th i).ph = .locked1 ∧ v = .fresh := by
        cases hph : (c.th i).ph <;> cases v <;> simp_all [shapeOK, Start, Entered, Locked0, Locked1, Stored, Post]
      obtain ⟨hl1, hv⟩ := hl1
      subst hv
      simp [stepThread, hk, adv] at hs
      subst hs
      inv_fields
    | loadStatus =>
      exfalso; cases hph : (c.th i).ph <;> simp_all [shapeOK, Start, Entered, Locked0, Locked1, Stored, Post]
    | readCells =>
      have hpost : (c.th i).ph = .post := by
        cases hph : (c.th i).ph <;> simp_all [shapeOK, Start, Entered, Locked0, Locked1, Stored, Post]
      simp [stepThread, hk, adv] at hs
      split at hs
      · simp at hs; subst hs; inv_fields
      · simp at hs; subst hs; inv_fields
    | writeShapes =>
      exfalso; cases hph : (c.th i).ph <;> simp_all [shapeOK, Start, Entered, Locked0, Locked1, Stored, Post]
    | writeCells =>
      exfalso; cases hph : (c.th i).ph <;> simp_all [shapeOK, Start, Entered, Locked0, Locked1, Stored, Post]


/-- the invariant holds in every reachable configuration of a well-formed program -/
theorem reach_inv {N : Nat} {p : Prog} (hwf : WellFormed p = true) {p0 : Bool} {c : Cfg}
    (h : Reach N (init p p0) c) : Inv N p0 c := by
  induction h with
  | refl => exact inv_init N p hwf p0
  | step _ hs ih =>
    obtain ⟨i, hi, hst⟩ := hs
    exact step_preserves ih hi hst

/-- a thread that is not finished and not waiting for a mutex held by someone else can step -/
theorem enabled_of_inv {N : Nat} {p0 : Bool} {c : Cfg} (hinv : Inv N p0 c) (i : Nat)
    (hnd : (c.th i).k ≠ []) (hfree : c.sh.owner = none ∨ c.sh.owner = some i) :
    ∃ c', stepThread i c = some c' := by
  have hsh := hinv.shape i
  have hown := hinv.own i
  rcases hk : (c.th i).k with _ | ⟨ins, rest⟩
  · exact absurd hk hnd
  · rw [hk] at hsh
    cases ins with
    | lock =>
      have : c.sh.owner = none := by
        rcases hfree with h | h
        · exact h
        · exfalso
          have := hown.mp h
          cases hph : (c.th i).ph <;> simp_all [shapeOK, Start, Entered, Locked0, Locked1, Stored, Post, holds]
      simp [stepThread, hk, adv, this]
    | _ => simp only [stepThread, hk, adv] <;> (repeat' split) <;> simp

end S2Proofs.ProtocolInv
