/-
  S2Proofs.F64Round.Carrier — consequences of the rounding specs used for the C19 carrier facts:
  finiteness criteria, exactness on representable results, order facts about `+ − ×`.
-/
import S2Proofs.F64Round.Ops

set_option linter.unusedSimpArgs false
set_option linter.unusedVariables false

namespace S2Proofs.F64Round
open S2 S2.Exact S2Proofs.F64Order S2Proofs.F64Sym S2Proofs.F64Inj S2Proofs.Codec

/-- a non-NaN float strictly inside the `ext` range is finite -/
theorem fin_of_ext_lt {r : F64} (hn : r.isNaN = false) (h1 : -(2 ^ 2098) < ext r) (h2 : ext r < 2 ^ 2098) :
    F64Order.Fin r := by
  rcases notNaN_cases hn with h | h | h
  · exact h
  · rw [h, ext_inf] at h2; simp at h2
  · rw [h, ext_inf] at h1; simp at h1

theorem natAbs_toInt (x : F64) : (toInt x).natAbs = mag x := by
  rw [toInt_eq_mag]; split <;> simp

/-- `rint` is exact on integers whose magnitude is representable and below the overflow bound -/
theorem rint_rep (s : Int) (hrep : Rep s.natAbs) (hlt : s.natAbs < 2 ^ 2098) : rint s 1 = s := by
  unfold rint rclamp
  rw [rmag_fix _ hrep, Nat.min_eq_left (by omega)]
  split <;> omega

/-- the largest finite magnitude -/
def maxMag : Nat := (2 ^ 53 - 1) * 2 ^ 2045

theorem maxMag_rep : Rep maxMag := ⟨2 ^ 53 - 1, 2045, by decide, rfl⟩
theorem maxMag_lt : maxMag < 2 ^ 2098 := by
  unfold maxMag
  have h3 : (2 : Nat) ^ 53 * 2 ^ 2045 = 2 ^ 2098 := by rw [← Nat.pow_add]
  have : (2 ^ 53 - 1) * 2 ^ 2045 < 2 ^ 53 * 2 ^ 2045 :=
    Nat.mul_lt_mul_of_pos_right (by decide) (Nat.two_pow_pos _)
  omega

/-- no overflow when the exact result is at most the largest finite float -/
theorem rint_lt_of_le_max (s : Int) (D : Nat) (hD : 0 < D) (h : s.natAbs ≤ maxMag * D) :
    -(2 ^ 2098) < rint s D ∧ rint s D < 2 ^ 2098 := by
  have h1 : rmag s.natAbs D ≤ maxMag := by
    have := rmag_mono (N1 := s.natAbs) (D1 := D) (N2 := maxMag) (D2 := 1) hD (by decide) (by simpa using h)
    rwa [rmag_fix _ maxMag_rep] at this
  have h2 := maxMag_lt
  unfold rint rclamp
  have : min (rmag s.natAbs D) (2 ^ 2098) ≤ maxMag := Nat.le_trans (Nat.min_le_left _ _) h1
  split <;> omega

/-! ### addition / subtraction -/

theorem add_fin_of_le_max {x y : F64} (hx : F64Order.Fin x) (hy : F64Order.Fin y)
    (h : (toInt x + toInt y).natAbs ≤ maxMag) : F64Order.Fin (F64.add x y) := by
  have := rint_lt_of_le_max (toInt x + toInt y) 1 (by decide) (by simpa using h)
  rw [← ext_add hx hy] at this
  exact fin_of_ext_lt (add_not_nan hx hy) this.1 this.2

/-- the sum is exact whenever the exact sum is representable -/
theorem add_exact {x y : F64} (hx : F64Order.Fin x) (hy : F64Order.Fin y)
    (hrep : Rep (toInt x + toInt y).natAbs) (hlt : (toInt x + toInt y).natAbs < 2 ^ 2098) :
    F64Order.Fin (F64.add x y) ∧ toInt (F64.add x y) = toInt x + toInt y := by
  have h := ext_add hx hy
  rw [rint_rep _ hrep hlt] at h
  have hf : F64Order.Fin (F64.add x y) :=
    fin_of_ext_lt (add_not_nan hx hy) (by rw [h]; omega) (by rw [h]; omega)
  exact ⟨hf, by rw [← ext_finite hf, h]⟩

theorem add_mono_left {a b c : F64} (ha : F64Order.Fin a) (hb : F64Order.Fin b) (hc : F64Order.Fin c)
    (h : F64.le a b = true) : F64.le (F64.add a c) (F64.add b c) = true := by
  rw [le_iff_ext (add_not_nan ha hc) (add_not_nan hb hc), ext_add ha hc, ext_add hb hc]
  have := (le_iff ha hb).1 h
  exact rint_mono (by decide) (by decide) (by omega)

theorem add_mono_right {a b c : F64} (ha : F64Order.Fin a) (hb : F64Order.Fin b) (hc : F64Order.Fin c)
    (h : F64.le a b = true) : F64.le (F64.add c a) (F64.add c b) = true := by
  rw [le_iff_ext (add_not_nan hc ha) (add_not_nan hc hb), ext_add hc ha, ext_add hc hb]
  have := (le_iff ha hb).1 h
  exact rint_mono (by decide) (by decide) (by omega)

theorem sub_mono_left {a b c : F64} (ha : F64Order.Fin a) (hb : F64Order.Fin b) (hc : F64Order.Fin c)
    (h : F64.le a b = true) : F64.le (F64.sub a c) (F64.sub b c) = true := by
  rw [le_iff_ext (sub_not_nan ha hc) (sub_not_nan hb hc), ext_sub ha hc, ext_sub hb hc]
  have := (le_iff ha hb).1 h
  exact rint_mono (by decide) (by decide) (by omega)

theorem sub_anti_right {a b c : F64} (ha : F64Order.Fin a) (hb : F64Order.Fin b) (hc : F64Order.Fin c)
    (h : F64.le a b = true) : F64.le (F64.sub c b) (F64.sub c a) = true := by
  rw [le_iff_ext (sub_not_nan hc hb) (sub_not_nan hc ha), ext_sub hc hb, ext_sub hc ha]
  have := (le_iff ha hb).1 h
  exact rint_mono (by decide) (by decide) (by omega)

/-- `a ≤ a ⊕ m` for `m ≥ 0` (also when the sum overflows to +inf) -/
theorem le_add_of_nonneg {a m : F64} (ha : F64Order.Fin a) (hm : F64Order.Fin m) (h : 0 ≤ toInt m) :
    F64.le a (F64.add a m) = true := by
  rw [le_iff_ext (isNaN_false ha) (add_not_nan ha hm), ext_add ha hm, ext_finite ha]
  have h1 : rint (toInt a) 1 = toInt a := by simpa using rint_fix a ha 1 (by decide)
  calc toInt a = rint (toInt a) 1 := h1.symm
    _ ≤ rint (toInt a + toInt m) 1 := rint_mono (by decide) (by decide) (by omega)

theorem add_le_of_nonpos {a m : F64} (ha : F64Order.Fin a) (hm : F64Order.Fin m) (h : toInt m ≤ 0) :
    F64.le (F64.add a m) a = true := by
  rw [le_iff_ext (add_not_nan ha hm) (isNaN_false ha), ext_add ha hm, ext_finite ha]
  have h1 : rint (toInt a) 1 = toInt a := by simpa using rint_fix a ha 1 (by decide)
  calc rint (toInt a + toInt m) 1 ≤ rint (toInt a) 1 := rint_mono (by decide) (by decide) (by omega)
    _ = toInt a := h1

theorem sub_le_of_nonneg {a m : F64} (ha : F64Order.Fin a) (hm : F64Order.Fin m) (h : 0 ≤ toInt m) :
    F64.le (F64.sub a m) a = true := by
  unfold F64.sub
  exact add_le_of_nonpos ha ((isFinite_neg m).2 hm) (by rw [toInt_neg]; omega)

theorem le_sub_of_nonpos {a m : F64} (ha : F64Order.Fin a) (hm : F64Order.Fin m) (h : toInt m ≤ 0) :
    F64.le a (F64.sub a m) = true := by
  unfold F64.sub
  exact le_add_of_nonneg ha ((isFinite_neg m).2 hm) (by rw [toInt_neg]; omega)

/-! ### multiplication by a non-negative constant -/

theorem mul_mono_of_nonneg {c a b : F64} (hc : F64Order.Fin c) (ha : F64Order.Fin a) (hb : F64Order.Fin b)
    (hc0 : 0 ≤ toInt c) (h : F64.le a b = true) : F64.le (F64.mul c a) (F64.mul c b) = true := by
  rw [le_iff_ext (mul_not_nan hc ha) (mul_not_nan hc hb), ext_mul hc ha, ext_mul hc hb]
  have := (le_iff ha hb).1 h
  apply rint_mono (Nat.two_pow_pos _) (Nat.two_pow_pos _)
  exact Int.mul_le_mul_of_nonneg_right (Int.mul_le_mul_of_nonneg_left this hc0) (Int.natCast_nonneg _)

theorem toInt_two : toInt F64.two = 2 * 2 ^ 1074 := by decide +kernel
theorem toInt_half : 2 * toInt F64.half = 2 ^ 1074 := by decide +kernel
theorem fin_two : F64Order.Fin F64.two := by decide
theorem fin_half : F64Order.Fin F64.half := by decide

/-- doubling is exact unless it overflows -/
theorem dbl_exact {x : F64} (hx : F64Order.Fin x) (h : 2 * mag x < 2 ^ 2098) :
    F64Order.Fin (F64.mul F64.two x) ∧ toInt (F64.mul F64.two x) = 2 * toInt x := by
  have he := ext_mul fin_two hx
  have hc : rint (toInt F64.two * toInt x) (2 ^ 1074) = rint (2 * toInt x) 1 := by
    apply rint_congr (Nat.two_pow_pos _) (by decide)
    rw [toInt_two]; push_cast; ring
  have hab : (2 * toInt x).natAbs = 2 * mag x := by rw [Int.natAbs_mul, natAbs_toInt]; rfl
  have hrep : Rep (2 * toInt x).natAbs := by
    rw [hab]
    obtain ⟨m, k, hm, hk⟩ := rep_mag x
    exact ⟨m, k + 1, hm, by rw [hk, Nat.pow_succ]; ring⟩
  rw [hc, rint_rep _ hrep (by rw [hab]; exact h)] at he
  have hlt : (2 * toInt x).natAbs < 2 ^ 2098 := by rw [hab]; exact h
  have hf : F64Order.Fin (F64.mul F64.two x) :=
    fin_of_ext_lt (mul_not_nan fin_two hx) (by rw [he]; omega) (by rw [he]; omega)
  exact ⟨hf, by rw [← ext_finite hf, he]⟩

/-- a non-NaN float with `ext = ±2^2098` is the corresponding infinity -/
theorem eq_inf_of_ext {r : F64} (hn : r.isNaN = false) (s : Bool)
    (h : ext r = if s then -(2 ^ 2098) else 2 ^ 2098) : r = F64.inf s := by
  rcases notNaN_cases hn with hf | rfl | rfl
  · exfalso
    have := toInt_bounds r hf
    rw [ext_finite hf] at h
    cases s <;> simp at h <;> omega
  · cases s
    · rfl
    · exfalso; rw [ext_inf] at h; simp at h; omega
  · cases s
    · exfalso; rw [ext_inf] at h; simp at h; omega
    · rfl

/-- doubling a float of the top binade (`|m| ≥ 2^1023`) overflows to the infinity of its sign -/
theorem dbl_overflow {x : F64} (hx : F64Order.Fin x) (h : x.expField = 2046) :
    F64.mul F64.two x = F64.inf x.signBit := by
  have he := ext_mul fin_two hx
  have hc : rint (toInt F64.two * toInt x) (2 ^ 1074) = rint (2 * toInt x) 1 := by
    apply rint_congr (Nat.two_pow_pos _) (by decide)
    rw [toInt_two]; push_cast; ring
  have hab : (2 * toInt x).natAbs = 2 * mag x := by rw [Int.natAbs_mul, natAbs_toInt]; rfl
  have hrep : Rep (2 * mag x) := by
    obtain ⟨m, k, hm, hk⟩ := rep_mag x
    exact ⟨m, k + 1, hm, by rw [hk, Nat.pow_succ]; ring⟩
  have hbig : 2 ^ 2098 ≤ 2 * mag x := by
    unfold mag F64.mant
    rw [h]
    simp only [show ((2046 : Nat) == 0) = false by decide, Bool.false_eq_true, if_false]
    have h3 : (2 : Nat) ^ 2098 = 2 * (2 ^ 52 * 2 ^ 2045) := by rw [← Nat.pow_add, ← Nat.pow_succ']
    have : 2 ^ 52 * 2 ^ 2045 ≤ (x.fracField + 4503599627370496) * 2 ^ (2046 - 1) :=
      Nat.mul_le_mul (by omega) (Nat.le_refl _)
    omega
  have hmpos : 0 < mag x := by omega
  rw [hc] at he
  apply eq_inf_of_ext (mul_not_nan fin_two hx)
  rw [he]
  unfold rint rclamp
  rw [hab, rmag_fix _ hrep, Nat.min_eq_right hbig, toInt_eq_mag]
  cases x.signBit
  · simp only [Bool.false_eq_true, if_false]
    rw [if_neg (by omega)]; omega
  · simp only [if_true]
    rw [if_pos (by omega)]; omega

/-- halving is exact unless the last bit is lost (only possible for `|x| < 2^-1021`) -/
theorem half_exact {x : F64} (hx : F64Order.Fin x) (h : mag x % 2 = 0) :
    F64Order.Fin (F64.mul F64.half x) ∧ 2 * toInt (F64.mul F64.half x) = toInt x := by
  have he := ext_mul fin_half hx
  obtain ⟨z, hz⟩ : ∃ z : Int, toInt x = 2 * z := by
    refine ⟨toInt x / 2, ?_⟩
    have : toInt x % 2 = 0 := by
      rw [toInt_eq_mag]; split <;> omega
    omega
  have hc : rint (toInt F64.half * toInt x) (2 ^ 1074) = rint z 1 := by
    apply rint_congr (Nat.two_pow_pos _) (by decide)
    have := toInt_half
    rw [hz]
    push_cast
    calc toInt F64.half * (2 * z) * 1 = (2 * toInt F64.half) * z := by ring
      _ = z * 2 ^ 1074 := by rw [this]; ring
  have hab : 2 * z.natAbs = mag x := by rw [← natAbs_toInt, hz, Int.natAbs_mul]; rfl
  have hrep : Rep z.natAbs := by
    obtain ⟨m, k, hm, hk⟩ := rep_mag x
    rcases Nat.eq_zero_or_pos k with rfl | hkpos
    · exact ⟨z.natAbs, 0, by simp at hk; omega, by simp⟩
    · refine ⟨m, k - 1, hm, ?_⟩
      have : 2 ^ k = 2 * 2 ^ (k - 1) := by rw [← Nat.pow_succ']; congr 1; omega
      rw [this] at hk
      have : 2 * z.natAbs = 2 * (m * 2 ^ (k - 1)) := by rw [hab, hk]; ring
      omega
  have hlt : z.natAbs < 2 ^ 2098 := by have := mag_lt x hx; omega
  rw [hc, rint_rep _ hrep hlt] at he
  have hf : F64Order.Fin (F64.mul F64.half x) :=
    fin_of_ext_lt (mul_not_nan fin_half hx) (by rw [he]; omega) (by rw [he]; omega)
  exact ⟨hf, by rw [← ext_finite hf, he, hz]⟩

/-- the magnitude of a float with exponent field at least 2 is even (in units of 2^-1074) -/
theorem mag_even_of_expField {x : F64} (h : 2 ≤ x.expField) : mag x % 2 = 0 := by
  unfold mag
  have : 2 ^ (x.expField - 1) = 2 * 2 ^ (x.expField - 2) := by
    rw [← Nat.pow_succ']; congr 1; omega
  rw [this, ← Nat.mul_assoc, Nat.mul_comm _ 2, Nat.mul_assoc]
  exact Nat.mul_mod_right _ _

/-! ### `math.Remainder` is exact -/

theorem natAbs_toIntAt_self (x : F64) : (x.toIntAt x.expo).natAbs = x.mant := by
  unfold F64.toIntAt
  have : (x.expo - x.expo).toNat = 0 := by omega
  rw [this]
  split <;> simp

/-- **the IEEE remainder is exact**: for finite `x`, finite non-zero `y` the result is finite and equals
    `x − n·|y|` for an integer `n` with `|x − n·|y|| ≤ |y|/2` (no rounding error at all). -/
theorem remainder_exact {x y : F64} (hx : F64Order.Fin x) (hy : F64Order.Fin y) (hy0 : y.isZero = false) :
    ∃ n : Int, F64Order.Fin (F64.remainder x y) ∧
      toInt (F64.remainder x y) = toInt x - n * (mag y : Int) ∧
      2 * (toInt x - n * (mag y : Int)) ≤ mag y ∧ -(mag y : Int) ≤ 2 * (toInt x - n * (mag y : Int)) := by
  have hmag := mag_pos_of_not_zero hy0
  have hnn := remainder_not_nan hx hy hy0
  -- it suffices to show that the exact remainder is representable
  suffices h : ∃ n : Int, ext (F64.remainder x y) = rint (toInt x - n * (mag y : Int)) 1 ∧
      2 * (toInt x - n * (mag y : Int)) ≤ mag y ∧ -(mag y : Int) ≤ 2 * (toInt x - n * (mag y : Int)) ∧
      Rep (toInt x - n * (mag y : Int)).natAbs by
    obtain ⟨n, h1, h2, h3, h4⟩ := h
    have hlt : (toInt x - n * (mag y : Int)).natAbs < 2 ^ 2098 := by have := mag_lt y hy; omega
    rw [rint_rep _ h4 hlt] at h1
    have hf : F64Order.Fin (F64.remainder x y) :=
      fin_of_ext_lt hnn (by rw [h1]; omega) (by rw [h1]; omega)
    exact ⟨n, hf, by rw [← ext_finite hf, h1], h2, h3⟩
  unfold F64.remainder
  simp only [isNaN_false hx, isNaN_false hy, isInf_false hx, isInf_false hy, hy0, Bool.or_self,
    Bool.false_eq_true, if_false]
  split
  · rename_i hz
    refine ⟨0, ?_, ?_, ?_, ?_⟩
    · rw [ext_finite hx, toInt_isZero hz]; simp [rint_zero]
    · rw [toInt_isZero hz]; omega
    · rw [toInt_isZero hz]; omega
    · rw [toInt_isZero hz]; exact ⟨0, 0, by decide, by simp⟩
  · have e1 := expo_ge x
    have e2 := expo_ge y
    have hmin1 : min x.expo y.expo ≤ x.expo := min_le_left _ _
    have hmin2 : min x.expo y.expo ≤ y.expo := min_le_right _ _
    have hmin3 : -1074 ≤ min x.expo y.expo := le_min e1 e2
    have hy' : (mag y : Int) = ((y.toIntAt (min x.expo y.expo)).natAbs : Int) *
        ((2 ^ (min x.expo y.expo + 1074).toNat : Nat) : Int) := by
      have h1 : (mag y : Int) = ((toInt y).natAbs : Int) := by rw [natAbs_toInt]
      rw [h1, toInt_scale' y _ hmin2 hmin3, Int.natAbs_mul, Int.natCast_mul, Int.natAbs_natCast]
    -- the size of the operands at the common exponent
    have hsmall : (x.toIntAt (min x.expo y.expo)).natAbs < 2 ^ 53 ∨
        (y.toIntAt (min x.expo y.expo)).natAbs < 2 ^ 53 := by
      rcases le_total x.expo y.expo with h | h
      · left; rw [min_eq_left h, natAbs_toIntAt_self]; exact mant_lt x
      · right; rw [min_eq_right h, natAbs_toIntAt_self]; exact mant_lt y
    rw [toInt_scale' x _ hmin1 hmin3, hy']
    have hY : 0 < ((y.toIntAt (min x.expo y.expo)).natAbs : Int) := by
      by_contra hc
      have : ((y.toIntAt (min x.expo y.expo)).natAbs : Int) = 0 := by omega
      rw [this, Int.zero_mul] at hy'
      omega
    generalize x.toIntAt (min x.expo y.expo) = X at *
    generalize hYdef : ((y.toIntAt (min x.expo y.expo)).natAbs : Int) = Y at *
    have hsmall' : X.natAbs < 2 ^ 53 ∨ Y < 2 ^ 53 := by
      rcases hsmall with h | h
      · exact Or.inl h
      · right; rw [← hYdef]; exact_mod_cast h
    generalize hK : ((2 ^ (min x.expo y.expo + 1074).toNat : Nat) : Int) = K at *
    generalize hKn : (min x.expo y.expo + 1074).toNat = k at *
    have hKpos : 0 < K := by rw [← hK]; exact_mod_cast Nat.two_pow_pos _
    generalize min x.expo y.expo = e at *
    obtain ⟨b1, b2⟩ := roundDivHalfEven_bound X Y hY
    -- |r| ≤ |X|
    have hrX : (X - F64.roundDivHalfEven X Y * Y).natAbs ≤ X.natAbs := by
      by_cases hs : 2 * |X| < Y
      · rw [roundDivHalfEven_small X Y hY hs]; simp
      · rw [← Int.natCast_natAbs] at hs; omega
    have hr53 : (X - F64.roundDivHalfEven X Y * Y).natAbs < 2 ^ 53 := by
      rcases hsmall' with h | h <;> omega
    have hr : X * K - F64.roundDivHalfEven X Y * (Y * K) = (X - F64.roundDivHalfEven X Y * Y) * K := by ring
    refine ⟨F64.roundDivHalfEven X Y, ?_, ?_, ?_, ?_⟩
    · rw [hr]
      generalize X - F64.roundDivHalfEven X Y * Y = r at *
      split
      · rename_i h0
        have : r = 0 := by simpa using h0
        subst this
        simp only [Int.zero_mul, rint_zero]
        cases x.signBit <;> decide
      · rw [ext_roundDyadic_units _ _ _ hmin3]
        congr 1
        rw [Int.natCast_mul, ← Int.mul_assoc, sgnI_mul_natAbs, hKn, hK]
    · rw [hr]
      generalize X - F64.roundDivHalfEven X Y * Y = r at *
      nlinarith
    · rw [hr]
      generalize X - F64.roundDivHalfEven X Y * Y = r at *
      nlinarith
    · rw [hr, Int.natAbs_mul, ← hK, Int.natAbs_natCast]
      exact ⟨_, k, hr53, rfl⟩

end S2Proofs.F64Round
