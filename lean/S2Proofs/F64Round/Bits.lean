/-
  S2Proofs.F64Round.Bits — the bit-level part: `F64.roundNE neg n d` packs the magnitude
  `rmag (n·2^1074) d` (see `RNat.lean`) with the sign `neg`, or returns `inf neg` when that magnitude is
  at least `2^2098` (= 2^1024 in units of 2^-1074).
-/
import S2Proofs.F64Round.RNat
import S2Proofs.F64Inj

set_option linter.unusedSimpArgs false
set_option linter.unusedVariables false

namespace S2Proofs.F64Round
open S2 S2.Exact S2Proofs.F64Order S2Proofs.F64Sym S2Proofs.F64Inj S2Proofs.Codec

/-! ### the quotient at a given exponent -/

theorem quotF_lt_iff (n d : Nat) (e : Int) (hd : 0 < d) (B : Nat) :
    (quotF n d e).1 < B ↔ n * 2 ^ (-e).toNat < B * (d * 2 ^ e.toNat) := by
  unfold quotF
  split
  · rename_i h
    have : (-e).toNat = 0 := by omega
    simp only [this, Nat.pow_zero, Nat.mul_one]
    exact Nat.div_lt_iff_lt_mul (Nat.mul_pos hd (Nat.two_pow_pos _))
  · rename_i h
    have : e.toNat = 0 := by omega
    simp only [this, Nat.pow_zero, Nat.mul_one]
    exact Nat.div_lt_iff_lt_mul hd

theorem quotF_ge_iff (n d : Nat) (e : Int) (hd : 0 < d) (B : Nat) :
    B ≤ (quotF n d e).1 ↔ B * (d * 2 ^ e.toNat) ≤ n * 2 ^ (-e).toNat := by
  rw [← Nat.not_lt, quotF_lt_iff n d e hd B, Nat.not_lt]

theorem quotF_succ_lt_iff (n d : Nat) (e : Int) (hd : 0 < d) (B : Nat) :
    (quotF n d (e + 1)).1 < B ↔ (quotF n d e).1 < 2 * B := by
  rw [quotF_lt_iff n d _ hd, quotF_lt_iff n d _ hd]
  by_cases h : 0 ≤ e
  · have h1 : (e + 1).toNat = e.toNat + 1 := by omega
    have h2 : (-(e + 1)).toNat = 0 := by omega
    have h3 : (-e).toNat = 0 := by omega
    rw [h1, h2, h3, Nat.pow_succ]
    have : B * (d * (2 ^ e.toNat * 2)) = 2 * B * (d * 2 ^ e.toNat) := by ring
    rw [this]
  · have h1 : (e + 1).toNat = 0 := by omega
    have h2 : e.toNat = 0 := by omega
    have h3 : (-e).toNat = (-(e + 1)).toNat + 1 := by omega
    rw [h1, h2, h3, Nat.pow_succ, Nat.pow_zero, Nat.mul_one]
    have : n * (2 ^ (-(e + 1)).toNat * 2) = 2 * (n * 2 ^ (-(e + 1)).toNat) := by ring
    rw [this, Nat.mul_assoc 2 B d]
    omega

theorem quotF_lt_mono_neg (n d : Nat) (e' e : Int) (hd : 0 < d) (B : Nat) (h : e' ≤ e) (he : e ≤ 0)
    (hq : (quotF n d e').1 < B) : (quotF n d e).1 < B := by
  rw [quotF_lt_iff n d _ hd] at hq ⊢
  have h1 : e'.toNat = 0 := by omega
  have h2 : e.toNat = 0 := by omega
  rw [h1] at hq; rw [h2]
  have : 2 ^ (-e).toNat ≤ 2 ^ (-e').toNat := Nat.pow_le_pow_right (by decide) (by omega)
  exact Nat.lt_of_le_of_lt (Nat.mul_le_mul_left _ this) hq

/-! ### the exponent selected by `roundNE` -/

/-- the exponent (of the last place) at which `roundNE` finally divides -/
def eSel (n d : Nat) : Int :=
  let e1 := adjE n d ((n.log2 : Int) - (d.log2 : Int) - 1 - 52)
  if e1 < -1074 then -1074 else e1

theorem quotF_e0_ge (n d : Nat) (hn : 0 < n) (hd : 0 < d) :
    2 ^ 52 ≤ (quotF n d ((n.log2 : Int) - (d.log2 : Int) - 1 - 52)).1 := by
  rw [quotF_ge_iff n d _ hd]
  generalize he0 : (n.log2 : Int) - (d.log2 : Int) - 1 - 52 = e0
  have h1 : 2 ^ n.log2 ≤ n := Nat.log2_self_le (by omega)
  have h2 : d < 2 ^ (d.log2 + 1) := Nat.lt_log2_self
  have hexp : 53 + d.log2 + e0.toNat = n.log2 + (-e0).toNat := by omega
  calc 2 ^ 52 * (d * 2 ^ e0.toNat) ≤ 2 ^ 52 * (2 ^ (d.log2 + 1) * 2 ^ e0.toNat) :=
        Nat.mul_le_mul_left _ (Nat.mul_le_mul_right _ (Nat.le_of_lt h2))
    _ = 2 ^ (53 + d.log2 + e0.toNat) := by rw [← Nat.pow_add, ← Nat.pow_add]; congr 1; omega
    _ = 2 ^ n.log2 * 2 ^ (-e0).toNat := by rw [hexp, Nat.pow_add]
    _ ≤ n * 2 ^ (-e0).toNat := Nat.mul_le_mul_right _ h1

theorem adjE_spec (n d : Nat) (hn : 0 < n) (hd : 0 < d) :
    let e1 := adjE n d ((n.log2 : Int) - (d.log2 : Int) - 1 - 52)
    (quotF n d e1).1 < 2 ^ 53 ∧ 2 ^ 52 ≤ (quotF n d e1).1 := by
  intro e1
  have hlo := quotF_e0_ge n d hn hd
  have hhi := quotF_lt n d ((n.log2 : Int) - (d.log2 : Int) - 1 - 52) (by omega)
  show (quotF n d (adjE n d ((n.log2 : Int) - (d.log2 : Int) - 1 - 52))).1 < 2 ^ 53 ∧
    2 ^ 52 ≤ (quotF n d (adjE n d ((n.log2 : Int) - (d.log2 : Int) - 1 - 52))).1
  generalize (n.log2 : Int) - (d.log2 : Int) - 1 - 52 = e0 at *
  unfold adjE
  simp only
  rw [if_neg (by omega)]
  split
  · rename_i h
    constructor
    · rw [quotF_succ_lt_iff n d e0 hd]; exact hhi
    · rw [← Nat.not_lt, quotF_succ_lt_iff n d e0 hd]; omega
  · rename_i h
    exact ⟨by omega, hlo⟩

theorem eSel_spec (n d : Nat) (hn : 0 < n) (hd : 0 < d) :
    -1074 ≤ eSel n d ∧ (quotF n d (eSel n d)).1 < 2 ^ 53 ∧
      (eSel n d = -1074 ∨ 2 ^ 52 ≤ (quotF n d (eSel n d)).1) := by
  have h := adjE_spec n d hn hd
  simp only at h
  unfold eSel
  simp only
  generalize adjE n d ((n.log2 : Int) - (d.log2 : Int) - 1 - 52) = e1 at *
  split
  · rename_i hlt
    refine ⟨by omega, ?_, Or.inl rfl⟩
    exact quotF_lt_mono_neg n d e1 (-1074) hd _ (by omega) (by omega) h.1
  · rename_i hge
    exact ⟨by omega, h.1, Or.inr h.2⟩

/-! ### the quotient in units of 2^-1074 -/

theorem quotF_units (n d : Nat) (e : Int) (he : -1074 ≤ e) (hd : 0 < d) :
    ∃ c, 0 < c ∧ (quotF n d e).1 = (n * 2 ^ 1074) / (d * 2 ^ (e + 1074).toNat) ∧
      (quotF n d e).2.1 * c = (n * 2 ^ 1074) % (d * 2 ^ (e + 1074).toNat) ∧
      (quotF n d e).2.2 * c = d * 2 ^ (e + 1074).toNat := by
  unfold quotF
  split
  · rename_i h
    refine ⟨2 ^ 1074, Nat.two_pow_pos _, ?_, ?_, ?_⟩
    all_goals
      have hK : (e + 1074).toNat = e.toNat + 1074 := by omega
      have hM : d * 2 ^ (e + 1074).toNat = d * 2 ^ e.toNat * 2 ^ 1074 := by
        rw [hK, Nat.pow_add, Nat.mul_assoc]
      simp only [hM]
    · rw [Nat.mul_div_mul_right _ _ (Nat.two_pow_pos _)]
    · rw [Nat.mul_mod_mul_right]
  · rename_i h
    refine ⟨2 ^ (e + 1074).toNat, Nat.two_pow_pos _, ?_, ?_, ?_⟩
    all_goals
      have hK : 1074 = (-e).toNat + (e + 1074).toNat := by omega
      have hN : n * 2 ^ 1074 = n * 2 ^ (-e).toNat * 2 ^ (e + 1074).toNat := by
        conv => lhs; rw [hK]
        rw [Nat.pow_add, Nat.mul_assoc]
      simp only [hN]
    · rw [Nat.mul_div_mul_right _ _ (Nat.two_pow_pos _)]
    · rw [Nat.mul_mod_mul_right]

/-! ### packing -/

/-- the tail of `finR` after the rounding decision -/
def finT (neg : Bool) (e : Int) (q1 : Nat) : F64 :=
  let (q, e) := if q1 ≥ 2 ^ 53 then (q1 / 2, e + 1) else (q1, e)
  if q < 2 ^ 52 then
    ⟨(if neg then (0x8000000000000000 : UInt64) else 0) ||| UInt64.ofNat q⟩
  else
    let be : Int := e + 1075
    if be ≥ 2047 then F64.inf neg
    else ⟨(if neg then (0x8000000000000000 : UInt64) else 0) ||| (UInt64.ofNat be.toNat <<< 52) |||
          UInt64.ofNat (q - 2 ^ 52)⟩

theorem finR_eq_finT (neg : Bool) (e : Int) (q r den : Nat) :
    finR neg e (q, r, den) =
      finT neg e (if 2 * r > den ∨ (2 * r = den ∧ q % 2 = 1) then q + 1 else q) := by
  unfold finR finT
  simp only
  have : (decide (2 * r > den) || (2 * r == den && q % 2 == 1)) = true ↔
      (2 * r > den ∨ (2 * r = den ∧ q % 2 = 1)) := by simp
  by_cases hc : 2 * r > den ∨ (2 * r = den ∧ q % 2 = 1)
  · rw [if_pos (this.2 hc), if_pos hc]
  · rw [if_neg (fun h => hc (this.1 h)), if_neg hc]

/-- fields of a subnormal pattern -/
theorem enc_sub (q : Nat) (hq : q < 2 ^ 52) :
    let x : F64 := ⟨(0 : UInt64) ||| UInt64.ofNat q⟩
    Fin x ∧ x.signBit = false ∧ mag x = q := by
  intro x
  have hb : x.bits.toNat = q := by
    show ((0 : UInt64) ||| UInt64.ofNat q).toNat = q
    have h0 : (0 : UInt64).toNat = 0 := by decide
    rw [UInt64.toNat_or, UInt64.toNat_ofNat', h0, Nat.zero_or]
    exact Nat.mod_eq_of_lt (by omega)
  have he : x.expField = 0 := by rw [expField_eq, hb]; omega
  have hf : x.fracField = q := by rw [fracField_eq, hb]; omega
  refine ⟨?_, ?_, ?_⟩
  · unfold F64Order.Fin; rw [he]; decide
  · rw [signBit_eq, hb]; simp; omega
  · unfold mag F64.mant; rw [he, hf]; simp

/-- fields of a normal pattern -/
theorem enc_norm (be q : Nat) (hbe1 : 1 ≤ be) (hbe2 : be ≤ 2046) (hq1 : 2 ^ 52 ≤ q) (hq2 : q < 2 ^ 53) :
    let x : F64 := ⟨(0 : UInt64) ||| (UInt64.ofNat be <<< 52) ||| UInt64.ofNat (q - 2 ^ 52)⟩
    Fin x ∧ x.signBit = false ∧ mag x = q * 2 ^ (be - 1) := by
  intro x
  have hb : x.bits.toNat = 2 ^ 52 * be + (q - 2 ^ 52) := by
    show ((0 : UInt64) ||| (UInt64.ofNat be <<< 52) ||| UInt64.ofNat (q - 2 ^ 52)).toNat = _
    simp only [UInt64.toNat_or, UInt64.toNat_shiftLeft, UInt64.toNat_ofNat']
    have h52 : (52 : UInt64).toNat % 64 = 52 := by decide
    have h0 : (0 : UInt64).toNat = 0 := by decide
    rw [h52, h0, Nat.zero_or, Nat.shiftLeft_eq, Nat.mod_eq_of_lt (a := be) (by omega),
      Nat.mod_eq_of_lt (a := be * 2 ^ 52) (by omega),
      Nat.mod_eq_of_lt (a := q - 2 ^ 52) (by omega), Nat.mul_comm]
    exact (Nat.two_pow_add_eq_or_of_lt (by omega) _).symm
  have he : x.expField = be := by rw [expField_eq, hb]; omega
  have hf : x.fracField = q - 2 ^ 52 := by rw [fracField_eq, hb]; omega
  refine ⟨?_, ?_, ?_⟩
  · unfold F64Order.Fin; rw [he]; omega
  · rw [signBit_eq, hb]; simp; omega
  · unfold mag F64.mant; rw [he, hf]
    have : (be == 0) = false := by simp; omega
    simp only [this, Bool.false_eq_true, if_false]
    congr 1; omega

theorem finT_char (e : Int) (q1 : Nat) (he : -1074 ≤ e) (hq : q1 ≤ 2 ^ 53)
    (hinv : e = -1074 ∨ 2 ^ 52 ≤ q1) :
    (q1 * 2 ^ (e + 1074).toNat < 2 ^ 2098 →
        Fin (finT false e q1) ∧ (finT false e q1).signBit = false ∧
          mag (finT false e q1) = q1 * 2 ^ (e + 1074).toNat) ∧
    (2 ^ 2098 ≤ q1 * 2 ^ (e + 1074).toNat → finT false e q1 = F64.inf false) := by
  -- normalise the pair after the carry
  have key : ∀ (q : Nat) (e' : Int), -1074 ≤ e' → q < 2 ^ 53 → (e' = -1074 ∨ 2 ^ 52 ≤ q) →
      let y : F64 := if q < 2 ^ 52 then
          ⟨(0 : UInt64) ||| UInt64.ofNat q⟩
        else if e' + 1075 ≥ 2047 then F64.inf false
        else ⟨(0 : UInt64) ||| (UInt64.ofNat (e' + 1075).toNat <<< 52) ||| UInt64.ofNat (q - 2 ^ 52)⟩
      (q * 2 ^ (e' + 1074).toNat < 2 ^ 2098 →
          Fin y ∧ y.signBit = false ∧ mag y = q * 2 ^ (e' + 1074).toNat) ∧
      (2 ^ 2098 ≤ q * 2 ^ (e' + 1074).toNat → y = F64.inf false) := by
    intro q e' he' hq' hinv' y
    by_cases hsub : q < 2 ^ 52
    · have hy : y = ⟨(0 : UInt64) ||| UInt64.ofNat q⟩ := by simp only [y, if_pos hsub]
      have he0 : e' = -1074 := by omega
      have hK : (e' + 1074).toNat = 0 := by omega
      rw [hK, Nat.pow_zero, Nat.mul_one, hy]
      exact ⟨fun _ => enc_sub q hsub, fun h => by omega⟩
    · by_cases hov : e' + 1075 ≥ 2047
      · have hy : y = F64.inf false := by simp only [y, if_neg hsub, if_pos hov]
        rw [hy]
        refine ⟨fun h => ?_, fun _ => rfl⟩
        exfalso
        have h1 : 2 ^ 2046 ≤ 2 ^ (e' + 1074).toNat := Nat.pow_le_pow_right (by decide) (by omega)
        have h2 : 2 ^ 52 * 2 ^ 2046 ≤ q * 2 ^ (e' + 1074).toNat :=
          Nat.mul_le_mul (by omega) h1
        have h3 : (2 : Nat) ^ 52 * 2 ^ 2046 = 2 ^ 2098 := by rw [← Nat.pow_add]
        omega
      · have hy : y = ⟨(0 : UInt64) ||| (UInt64.ofNat (e' + 1075).toNat <<< 52) |||
            UInt64.ofNat (q - 2 ^ 52)⟩ := by simp only [y, if_neg hsub, if_neg hov]
        rw [hy]
        have hK : (e' + 1074).toNat = (e' + 1075).toNat - 1 := by omega
        rw [hK]
        refine ⟨fun _ => enc_norm _ q (by omega) (by omega) (by omega) hq', fun h => ?_⟩
        exfalso
        have h1 : 2 ^ ((e' + 1075).toNat - 1) ≤ 2 ^ 2045 := Nat.pow_le_pow_right (by decide) (by omega)
        have h2 : q * 2 ^ ((e' + 1075).toNat - 1) < 2 ^ 53 * 2 ^ 2045 :=
          Nat.lt_of_lt_of_le (Nat.mul_lt_mul_of_pos_right hq' (Nat.two_pow_pos _))
            (Nat.mul_le_mul_left _ h1)
        have h3 : (2 : Nat) ^ 53 * 2 ^ 2045 = 2 ^ 2098 := by rw [← Nat.pow_add]
        omega
  unfold finT
  simp only [Bool.false_eq_true, if_false]
  by_cases hc : q1 ≥ 2 ^ 53
  · have hq1 : q1 = 2 ^ 53 := by omega
    rw [if_pos hc]
    have := key (q1 / 2) (e + 1) (by omega) (by omega) (Or.inr (by omega))
    simp only at this
    have hK : (e + 1 + 1074).toNat = (e + 1074).toNat + 1 := by omega
    have hR : q1 / 2 * 2 ^ ((e + 1074).toNat + 1) = q1 * 2 ^ (e + 1074).toNat := by
      have h2 : (2 : Nat) ^ 53 / 2 = 2 ^ 52 := by decide
      rw [hq1, h2, Nat.pow_add 2 _ 1]
      ring
    rw [hK, hR] at this
    exact this
  · rw [if_neg hc]
    exact key q1 e he (by omega) hinv

/-! ### the characterisation of `roundNE` -/

theorem mag_neg (x : F64) : mag (F64.neg x) = mag x := by
  unfold mag; rw [mant_neg, expField_neg]

/-- **`roundNE` packs `rmag`**: with `R = rmag (n·2^1074) d` (the correctly rounded magnitude in units of
    2^-1074), the result is the finite float of sign `neg` and magnitude `R` when `R < 2^2098`, else `inf neg`. -/
theorem roundNE_char (neg : Bool) (n d : Nat) (hn : 0 < n) (hd : 0 < d) :
    (rmag (n * 2 ^ 1074) d < 2 ^ 2098 →
        Fin (F64.roundNE neg n d) ∧ (F64.roundNE neg n d).signBit = neg ∧
          mag (F64.roundNE neg n d) = rmag (n * 2 ^ 1074) d) ∧
    (2 ^ 2098 ≤ rmag (n * 2 ^ 1074) d → F64.roundNE neg n d = F64.inf neg) := by
  -- positive sign first
  have pos : (rmag (n * 2 ^ 1074) d < 2 ^ 2098 →
        Fin (F64.roundNE false n d) ∧ (F64.roundNE false n d).signBit = false ∧
          mag (F64.roundNE false n d) = rmag (n * 2 ^ 1074) d) ∧
      (2 ^ 2098 ≤ rmag (n * 2 ^ 1074) d → F64.roundNE false n d = F64.inf false) := by
    rw [roundNE_eq]
    have hn' : (n == 0) = false := by simp; omega
    simp only [hn', Bool.false_eq_true, if_false]
    change (_ → Fin (finR false (eSel n d) (quotF n d (eSel n d))) ∧
        (finR false (eSel n d) (quotF n d (eSel n d))).signBit = false ∧
        mag (finR false (eSel n d) (quotF n d (eSel n d))) = _) ∧
      (_ → finR false (eSel n d) (quotF n d (eSel n d)) = _)
    obtain ⟨he, hq1, hq2⟩ := eSel_spec n d hn hd
    obtain ⟨c, hc, u1, u2, u3⟩ := quotF_units n d (eSel n d) he hd
    generalize eSel n d = e at *
    -- the selected exponent is `kexp`
    have hk : (e + 1074).toNat = kexp (n * 2 ^ 1074) d := by
      apply kexp_unique
      · rw [← u1]; exact hq1
      · rcases hq2 with h | h
        · left; omega
        · right; rw [← u1]; exact h
    -- the rounding decision is `rhe`
    generalize quotF n d e = qrd at *
    obtain ⟨q, r, den⟩ := qrd
    simp only at u1 u2 u3 hq1 hq2
    rw [finR_eq_finT]
    have hdec : (if 2 * r > den ∨ (2 * r = den ∧ q % 2 = 1) then q + 1 else q) =
        rhe (n * 2 ^ 1074) (d * 2 ^ (e + 1074).toNat) := by
      unfold rhe
      rw [← u1, ← u2, ← u3]
      have e1 : (2 * (r * c) > den * c) ↔ (2 * r > den) := by
        rw [← Nat.mul_assoc]
        exact ⟨fun h => Nat.lt_of_mul_lt_mul_right h, fun h => Nat.mul_lt_mul_of_pos_right h hc⟩
      have e2 : (2 * (r * c) = den * c) ↔ (2 * r = den) := by
        rw [← Nat.mul_assoc]
        exact ⟨fun h => Nat.eq_of_mul_eq_mul_right hc h, fun h => by rw [h]⟩
      simp only [e1, e2]
    rw [hdec]
    have hR : rmag (n * 2 ^ 1074) d =
        rhe (n * 2 ^ 1074) (d * 2 ^ (e + 1074).toNat) * 2 ^ (e + 1074).toNat := by
      unfold rmag; rw [← hk]
    rw [hR]
    apply finT_char e _ he
    · rw [hk]; exact rhe_kexp_le _ _
    · rcases hq2 with h | h
      · exact Or.inl h
      · right
        have := rhe_ge (n * 2 ^ 1074) (d * 2 ^ (e + 1074).toNat)
        rw [← u1] at this
        omega
  cases neg
  · exact pos
  · have hneg : F64.roundNE true n d = F64.neg (F64.roundNE false n d) := roundNE_neg false n d
    rw [hneg]
    refine ⟨fun h => ?_, fun h => ?_⟩
    · obtain ⟨h1, h2, h3⟩ := pos.1 h
      refine ⟨(isFinite_neg _).2 h1, ?_, ?_⟩
      · rw [signBit_neg, h2]; rfl
      · rw [mag_neg, h3]
    · rw [pos.2 h]; decide

end S2Proofs.F64Round
