/-
  S2Proofs.F64Round.Ext — the order embedding `ext` of the non-NaN floats into ℤ
  (finite ↦ value·2^1074, ±inf ↦ ±2^2098), the float comparisons in terms of `ext`,
  `abs` / `neg` in terms of `ext`, the bound of the round-half-even quotient, and the closed facts
  about the float constants of the interval instance `S2.IvlF64`.
-/
import Mathlib.Tactic.Ring
import Mathlib.Tactic.Linarith
import S2Proofs.F64Inj
import S2.Interval

set_option linter.unusedSimpArgs false
set_option exponentiation.threshold 2200

namespace S2Proofs.F64Round
open S2 S2.Exact S2Proofs.F64Order S2Proofs.F64Sym S2Proofs.F64Inj

/-- order embedding of the non-NaN floats into ℤ: finite ↦ value·2^1074, ±inf ↦ ±2^2098
    (= ±2^1024 in the same units) -/
def ext (x : F64) : Int :=
  if x.isInf then (if x.signBit then -(2 ^ 2098) else 2 ^ 2098) else toInt x

/-! ### bounds of finite values -/

theorem fracField_lt (x : F64) : x.fracField < 2 ^ 52 := by
  rw [fracField_eq]; exact Nat.mod_lt _ (by decide)

theorem expField_lt (x : F64) : x.expField < 2048 := by
  rw [expField_eq]; exact Nat.mod_lt _ (by decide)

theorem mant_lt (x : F64) : x.mant < 2 ^ 53 := by
  have := fracField_lt x
  unfold F64.mant
  split <;> omega

theorem mag_lt (x : F64) (hx : Fin x) : mag x < 2 ^ 2098 := by
  unfold F64Order.Fin at hx
  have he := expField_lt x
  have hm := mant_lt x
  unfold mag
  have h1 : 2 ^ (x.expField - 1) ≤ 2 ^ 2045 := Nat.pow_le_pow_right (by norm_num) (by omega)
  have hp : 0 < 2 ^ (x.expField - 1) := Nat.two_pow_pos _
  calc x.mant * 2 ^ (x.expField - 1) < 2 ^ 53 * 2 ^ (x.expField - 1) :=
        Nat.mul_lt_mul_of_pos_right hm hp
    _ ≤ 2 ^ 53 * 2 ^ 2045 := Nat.mul_le_mul_left _ h1
    _ = 2 ^ 2098 := by rw [← pow_add]

theorem toInt_bounds (x : F64) (hx : Fin x) : -(2 ^ 2098) < toInt x ∧ toInt x < 2 ^ 2098 := by
  have h := mag_lt x hx
  have h' : (mag x : Int) < 2 ^ 2098 := by exact_mod_cast h
  rw [toInt_eq_mag]
  split <;> constructor <;> omega

theorem ext_finite {x : F64} (hx : Fin x) : ext x = toInt x := by
  unfold ext; rw [isInf_false hx]; rfl

/-! ### the infinities -/

theorem inf_isInf (s : Bool) : (F64.inf s).isInf = true := by cases s <;> decide
theorem inf_isNaN (s : Bool) : (F64.inf s).isNaN = false := by cases s <;> decide
theorem inf_signBit (s : Bool) : (F64.inf s).signBit = s := by cases s <;> decide
theorem inf_expField (s : Bool) : (F64.inf s).expField = 2047 := by cases s <;> decide
theorem inf_fracField (s : Bool) : (F64.inf s).fracField = 0 := by cases s <;> decide

theorem ext_inf (s : Bool) : ext (F64.inf s) = if s then -(2 ^ 2098) else 2 ^ 2098 := by
  unfold ext; rw [inf_isInf, inf_signBit]; simp

/-- a non-NaN float is finite or one of the two infinities -/
theorem notNaN_cases {x : F64} (hx : x.isNaN = false) :
    Fin x ∨ x = F64.inf false ∨ x = F64.inf true := by
  by_cases he : x.expField = 2047
  · right
    have hf : x.fracField = 0 := by
      unfold F64.isNaN at hx
      simp [he] at hx
      exact hx
    cases hs : x.signBit
    · left
      exact bits_eq_of_fields (by rw [hs, inf_signBit]) (by rw [he, inf_expField])
        (by rw [hf, inf_fracField])
    · right
      exact bits_eq_of_fields (by rw [hs, inf_signBit]) (by rw [he, inf_expField])
        (by rw [hf, inf_fracField])
  · left; exact he

theorem ext_bounds (x : F64) (hx : x.isNaN = false) : -(2 ^ 2098) ≤ ext x ∧ ext x ≤ 2 ^ 2098 := by
  rcases notNaN_cases hx with h | h | h
  · rw [ext_finite h]
    have := toInt_bounds x h
    constructor <;> omega
  · rw [h, ext_inf]; simp
  · rw [h, ext_inf]; simp

/-! ### comparisons -/

theorem cmp_ext {x y : F64} (hx : x.isNaN = false) (hy : y.isNaN = false) :
    F64.cmp x y = some (compare (ext x) (ext y)) := by
  rcases notNaN_cases hx with h | h | h <;> rcases notNaN_cases hy with k | k | k
  · rw [cmp_finite h k, ext_finite h, ext_finite k]
  · subst k
    have b := toInt_bounds x h
    unfold F64.cmp
    simp only [isNaN_false h, isInf_false h, inf_isNaN, inf_isInf, inf_signBit, ext_finite h, ext_inf]
    simp
    exact (compare_lt_iff_lt.mpr b.2).symm
  · subst k
    have b := toInt_bounds x h
    unfold F64.cmp
    simp only [isNaN_false h, isInf_false h, inf_isNaN, inf_isInf, inf_signBit, ext_finite h, ext_inf]
    simp
    exact (compare_gt_iff_gt.mpr b.1).symm
  · subst h
    have b := toInt_bounds y k
    unfold F64.cmp
    simp only [isNaN_false k, isInf_false k, inf_isNaN, inf_isInf, inf_signBit, ext_finite k, ext_inf]
    simp
    exact (compare_gt_iff_gt.mpr b.2).symm
  · subst h; subst k; decide +kernel
  · subst h; subst k; decide +kernel
  · subst h
    have b := toInt_bounds y k
    unfold F64.cmp
    simp only [isNaN_false k, isInf_false k, inf_isNaN, inf_isInf, inf_signBit, ext_finite k, ext_inf]
    simp
    exact (compare_lt_iff_lt.mpr b.1).symm
  · subst h; subst k; decide +kernel
  · subst h; subst k; decide +kernel

theorem le_iff_ext {x y : F64} (hx : x.isNaN = false) (hy : y.isNaN = false) :
    F64.le x y = true ↔ ext x ≤ ext y := by
  unfold F64.le; rw [cmp_ext hx hy]
  rcases lt_trichotomy (ext x) (ext y) with h | h | h
  · simp [compare_lt_iff_lt.mpr h, h.le]
  · simp [h]
  · simp [compare_gt_iff_gt.mpr h, not_le.mpr h]

theorem lt_iff_ext {x y : F64} (hx : x.isNaN = false) (hy : y.isNaN = false) :
    F64.lt x y = true ↔ ext x < ext y := by
  unfold F64.lt; rw [cmp_ext hx hy]
  rcases lt_trichotomy (ext x) (ext y) with h | h | h
  · simp [compare_lt_iff_lt.mpr h, h]
  · simp [h]
  · simp [compare_gt_iff_gt.mpr h, not_lt.mpr h.le]

theorem feq_iff_ext {x y : F64} (hx : x.isNaN = false) (hy : y.isNaN = false) :
    F64.feq x y = true ↔ ext x = ext y := by
  unfold F64.feq; rw [cmp_ext hx hy]
  rcases lt_trichotomy (ext x) (ext y) with h | h | h
  · simp [compare_lt_iff_lt.mpr h, h.ne]
  · simp [h]
  · simp [compare_gt_iff_gt.mpr h, h.ne']

theorem cmp_nan_left (x y : F64) (h : x.isNaN = true) : F64.cmp x y = none := by
  unfold F64.cmp; simp [h]
theorem cmp_nan_right (x y : F64) (h : y.isNaN = true) : F64.cmp x y = none := by
  unfold F64.cmp; simp [h]

theorem le_nan_left (x y : F64) (h : x.isNaN = true) : F64.le x y = false := by
  unfold F64.le; rw [cmp_nan_left x y h]
theorem le_nan_right (x y : F64) (h : y.isNaN = true) : F64.le x y = false := by
  unfold F64.le; rw [cmp_nan_right x y h]
theorem lt_nan_left (x y : F64) (h : x.isNaN = true) : F64.lt x y = false := by
  unfold F64.lt; rw [cmp_nan_left x y h]; rfl
theorem lt_nan_right (x y : F64) (h : y.isNaN = true) : F64.lt x y = false := by
  unfold F64.lt; rw [cmp_nan_right x y h]; rfl
theorem feq_nan_left (x y : F64) (h : x.isNaN = true) : F64.feq x y = false := by
  unfold F64.feq; rw [cmp_nan_left x y h]; rfl
theorem feq_nan_right (x y : F64) (h : y.isNaN = true) : F64.feq x y = false := by
  unfold F64.feq; rw [cmp_nan_right x y h]; rfl

/-! ### abs -/

/-- clearing the top bit, on the value of the word -/
theorem and_toNat (b : UInt64) : (b &&& 0x7FFFFFFFFFFFFFFF).toNat = b.toNat % 2 ^ 63 := by
  rw [UInt64.toNat_and]
  have h : (0x7FFFFFFFFFFFFFFF : UInt64).toNat = 2 ^ 63 - 1 := by decide
  rw [h, Nat.and_two_pow_sub_one_eq_mod]

theorem expField_abs (x : F64) : (F64.abs x).expField = x.expField := by
  rw [expField_eq, expField_eq]
  show (x.bits &&& 0x7FFFFFFFFFFFFFFF).toNat / 2 ^ 52 % 2 ^ 11 = _
  rw [and_toNat]
  have hb := x.bits.toNat_lt
  omega

theorem fracField_abs (x : F64) : (F64.abs x).fracField = x.fracField := by
  rw [fracField_eq, fracField_eq]
  show (x.bits &&& 0x7FFFFFFFFFFFFFFF).toNat % 2 ^ 52 = _
  rw [and_toNat]
  have hb := x.bits.toNat_lt
  omega

theorem signBit_abs (x : F64) : (F64.abs x).signBit = false := by
  rw [signBit_eq]
  show decide (2 ^ 63 ≤ (x.bits &&& 0x7FFFFFFFFFFFFFFF).toNat) = false
  rw [and_toNat]
  have h : ¬ 2 ^ 63 ≤ x.bits.toNat % 2 ^ 63 := by omega
  exact decide_eq_false h

theorem mant_abs (x : F64) : (F64.abs x).mant = x.mant := by
  unfold F64.mant; rw [expField_abs, fracField_abs]

theorem expo_abs (x : F64) : (F64.abs x).expo = x.expo := by
  unfold F64.expo; rw [expField_abs]

theorem fin_abs (x : F64) : Fin (F64.abs x) ↔ Fin x := by
  unfold F64Order.Fin; rw [expField_abs]

theorem isNaN_abs (x : F64) : (F64.abs x).isNaN = x.isNaN := by
  unfold F64.isNaN; rw [expField_abs, fracField_abs]

theorem isInf_abs (x : F64) : (F64.abs x).isInf = x.isInf := by
  unfold F64.isInf; rw [expField_abs, fracField_abs]

theorem isZero_abs (x : F64) : (F64.abs x).isZero = x.isZero := by
  unfold F64.isZero; rw [expField_abs, fracField_abs]

theorem mag_abs (x : F64) : mag (F64.abs x) = mag x := by
  unfold mag; rw [mant_abs, expField_abs]

theorem toInt_abs (x : F64) : toInt (F64.abs x) = |toInt x| := by
  rw [toInt_eq_mag, toInt_eq_mag, signBit_abs, mag_abs]
  cases x.signBit <;> simp

theorem toInt_neg (x : F64) : toInt (F64.neg x) = - toInt x := toIntAt_neg x _

theorem ext_abs (x : F64) (hx : x.isNaN = false) : ext (F64.abs x) = |ext x| := by
  have _ := hx
  unfold ext
  rw [isInf_abs, signBit_abs, toInt_abs]
  have hp : |(2 : Int) ^ 2098| = 2 ^ 2098 := abs_of_nonneg (by positivity)
  cases x.isInf <;> cases x.signBit <;> simp [hp]

theorem ext_neg (x : F64) : ext (F64.neg x) = - ext x := by
  unfold ext
  rw [isInf_neg, signBit_neg, toInt_neg]
  cases x.isInf <;> cases x.signBit <;> simp

/-- `math.Abs(a) <= b`  ⇔  `-b <= a && a <= b` -/
theorem abs_le_iff (a b : F64) (ha : a.isNaN = false) (hb : b.isNaN = false) :
    F64.le (F64.abs a) b = true ↔ (F64.le (F64.neg b) a = true ∧ F64.le a b = true) := by
  have ha' : (F64.abs a).isNaN = false := by rw [isNaN_abs]; exact ha
  have hb' : (F64.neg b).isNaN = false := by rw [isNaN_neg]; exact hb
  rw [le_iff_ext ha' hb, le_iff_ext hb' ha, le_iff_ext ha hb, ext_abs a ha, ext_neg, abs_le]

/-! ### round-half-even quotient -/

/-- round-half-even quotient (F64Extra): the remainder is at most half the divisor -/
theorem roundDivHalfEven_bound (a b : Int) (hb : 0 < b) :
    2 * (a - F64.roundDivHalfEven a b * b) ≤ b ∧ -b ≤ 2 * (a - F64.roundDivHalfEven a b * b) := by
  have h0 : 0 ≤ a % b := Int.emod_nonneg a (by omega)
  have h1 : a % b < b := Int.emod_lt_of_pos a hb
  have hr : a - a / b * b = a % b := by rw [Int.emod_def, Int.mul_comm]
  have hq1 : (a / b + 1) * b = a / b * b + b := by ring
  unfold F64.roundDivHalfEven
  simp only [hr]
  split
  · rw [hq1]; constructor <;> omega
  · split
    · constructor <;> omega
    · split
      · constructor <;> omega
      · rw [hq1]; constructor <;> omega

theorem roundDivHalfEven_small (a b : Int) (hb : 0 < b) (h : 2 * |a| < b) :
    F64.roundDivHalfEven a b = 0 := by
  have hr : a - a / b * b = a % b := by rw [Int.emod_def, Int.mul_comm]
  have ha : -b < a ∧ a < b := by
    rcases abs_cases a with ⟨e, _⟩ | ⟨e, _⟩ <;> rw [e] at h <;> constructor <;> omega
  have h2 : -b < 2 * a ∧ 2 * a < b := by
    rcases abs_cases a with ⟨e, _⟩ | ⟨e, _⟩ <;> rw [e] at h <;> constructor <;> omega
  unfold F64.roundDivHalfEven
  simp only [hr]
  by_cases hs : 0 ≤ a
  · have hq : a / b = 0 := Int.ediv_eq_zero_of_lt hs ha.2
    have hm : a % b = a := Int.emod_eq_of_lt hs ha.2
    rw [hq, hm]
    have h3 : ¬ (2 * a > b) := by omega
    have h4 : 2 * a < b := by omega
    rw [if_neg h3, if_pos h4]
  · have hm : a % b = a + b := by
      have e : a % b = (a + b) % b := by rw [Int.add_emod_right]
      rw [e]; exact Int.emod_eq_of_lt (by omega) (by omega)
    have hq : a / b = -1 := by
      have e := Int.emod_def a b
      rw [hm] at e
      have : b * (a / b) = b * (-1) := by omega
      exact Int.eq_of_mul_eq_mul_left (by omega) this
    rw [hq, hm]
    have h3 : 2 * (a + b) > b := by omega
    rw [if_pos h3]; rfl

/-! ### the float constants of `S2.IvlF64` -/

section Consts

def cPi : F64 := ⟨0x400921fb54442d18⟩
def cNegPi : F64 := ⟨0xc00921fb54442d18⟩
def cTwoPi : F64 := ⟨0x401921fb54442d18⟩
def cHalfPi : F64 := ⟨0x3ff921fb54442d18⟩
def cNegHalfPi : F64 := ⟨0xbff921fb54442d18⟩
def cNegOne : F64 := ⟨0xbff0000000000000⟩

theorem consts_fin : Fin cPi ∧ Fin cNegPi ∧ Fin cTwoPi ∧ Fin cHalfPi ∧ Fin cNegHalfPi ∧ Fin cNegOne ∧
    Fin F64.one ∧ Fin (F64.zero false) := by decide +kernel

theorem cNegPi_eq : cNegPi = F64.neg cPi := by decide +kernel
theorem cNegHalfPi_eq : cNegHalfPi = F64.neg cHalfPi := by decide +kernel
theorem toInt_cNegPi : toInt cNegPi = - toInt cPi := by rw [cNegPi_eq]; exact toInt_neg _
theorem toInt_cNegHalfPi : toInt cNegHalfPi = - toInt cHalfPi := by
  rw [cNegHalfPi_eq]; exact toInt_neg _
theorem toInt_cTwoPi : toInt cTwoPi = 2 * toInt cPi := by decide +kernel
theorem toInt_cPi : toInt cPi = 2 * toInt cHalfPi := by decide +kernel
theorem toInt_cPi_pos : 0 < toInt cPi := by decide +kernel
theorem toInt_cHalfPi_pos : 0 < toInt cHalfPi := by decide +kernel
theorem mag_cTwoPi : mag cTwoPi = 2 * mag cPi := by decide +kernel
theorem cTwoPi_sign : cTwoPi.signBit = false := by decide +kernel
theorem cPi_sign : cPi.signBit = false := by decide +kernel
theorem toInt_zero : toInt (F64.zero false) = 0 := by decide +kernel
theorem toInt_one : toInt F64.one = 2 ^ 1074 := by decide +kernel
theorem toInt_cNegOne : toInt cNegOne = -(2 ^ 1074) := by decide +kernel
theorem negPi_lt_pi : F64.lt cNegPi cPi = true := by decide +kernel
theorem negHalfPi_lt_halfPi : F64.lt cNegHalfPi cHalfPi = true := by decide +kernel
theorem zero_lt_one : F64.lt (F64.zero false) F64.one = true := by decide +kernel
theorem negOne_lt_zero : F64.lt cNegOne (F64.zero false) = true := by decide +kernel
theorem zero_one_lat :
    F64.le cNegHalfPi (F64.zero false) = true ∧ F64.le F64.one cHalfPi = true := by decide +kernel
theorem sub_negPi_pi_neg : F64.lt (F64.sub cNegPi cPi) (F64.zero false) = true := by decide +kernel
theorem empty_len_not_pos :
    F64.lt (F64.zero false) (F64.add (F64.sub cNegPi cPi) cTwoPi) = false := by decide +kernel

open S2.IvlF64 in
theorem ivl_consts : (IvlOps.pi : F64) = cPi ∧ (IvlOps.negPi : F64) = cNegPi ∧
    (IvlOps.twoPi : F64) = cTwoPi ∧ (IvlOps.halfPi : F64) = cHalfPi ∧
    (IvlOps.negHalfPi : F64) = cNegHalfPi ∧ (IvlOps.negOne : F64) = cNegOne ∧
    (IvlOps.zero : F64) = F64.zero false ∧ (IvlOps.one : F64) = F64.one :=
  ⟨rfl, rfl, rfl, rfl, rfl, rfl, rfl, rfl⟩

end Consts

#print axioms cmp_ext
#print axioms abs_le_iff
#print axioms roundDivHalfEven_bound

end S2Proofs.F64Round
