/-
  S2Proofs.F64Round.Sqrt — `F64.isqrt` is the integer square root, and `F64.sqrt` is correctly rounded.
-/
import Mathlib.Data.Nat.Sqrt
import S2Proofs.F64Round.RInt

set_option linter.unusedSimpArgs false
set_option linter.unusedVariables false

namespace S2Proofs.F64Round
open S2 S2.Exact S2Proofs.F64Order S2Proofs.F64Sym S2Proofs.F64Inj S2Proofs.Codec

/-! ### the Newton iteration -/

/-- one Newton step from `x ≥ s = ⌊√n⌋` stays `≥ s` -/
theorem newton_ge (n s x : Nat) (hs : s * s ≤ n) (hx : 0 < x) : s ≤ (x + n / x) / 2 := by
  rw [Nat.le_div_iff_mul_le (by decide)]
  -- s*2 ≤ x + n/x  ⟸  (2s - x) ≤ n / x  ⟸  (2s - x) * x ≤ n
  have h : (2 * s - x) ≤ n / x := by
    rw [Nat.le_div_iff_mul_le hx]
    refine Nat.le_trans ?_ hs
    rcases Nat.le_total x (2 * s) with h1 | h1
    · -- (2s - x) x ≤ s²
      obtain ⟨d, hd⟩ : ∃ d, 2 * s = x + d := ⟨2 * s - x, by omega⟩
      have : 2 * s - x = d := by omega
      rw [this]
      -- d x ≤ s² with d + x = 2s
      nlinarith [sq_nonneg ((x : Int) - d), hd]
    · have : 2 * s - x = 0 := by omega
      rw [this]; simp
  omega

/-- … and at least halves the distance to `s` when `x > s` -/
theorem newton_le (n s x : Nat) (hs : n < (s + 1) * (s + 1)) (hx : s + 1 ≤ x) :
    2 * ((x + n / x) / 2) ≤ x + s := by
  have hq : n / x ≤ s := by
    rw [← Nat.lt_succ_iff, Nat.div_lt_iff_lt_mul (by omega)]
    exact Nat.lt_of_lt_of_le hs (Nat.mul_le_mul_left _ hx)
  omega

theorem isqrt_go_spec (n s : Nat) (hs0 : 0 < s) (hs1 : s * s ≤ n) (hs2 : n < (s + 1) * (s + 1)) :
    ∀ fuel x, s ≤ x → x - s < 2 ^ fuel → F64.isqrt.go n fuel x = s := by
  intro fuel
  induction fuel with
  | zero =>
    intro x h1 h2
    unfold F64.isqrt.go
    simp at h2; omega
  | succ f ih =>
    intro x h1 h2
    unfold F64.isqrt.go
    simp only
    have hge := newton_ge n s x hs1 (by omega)
    rcases Nat.eq_or_lt_of_le h1 with heq | hlt
    · -- x = s : the iteration stops
      subst heq
      rw [if_neg (by omega)]
    · have hle := newton_le n s x hs2 hlt
      rw [if_pos (by omega)]
      apply ih _ hge
      rw [Nat.pow_succ] at h2; omega

/-- **`isqrt` is the integer square root** (for arguments below `2^396`; `F64.sqrt` uses it below `2^176`) -/
theorem isqrt_spec (n : Nat) (hn : n < 2 ^ 396) : F64.isqrt n = Nat.sqrt n := by
  unfold F64.isqrt
  split
  · rename_i h
    have : n = 0 ∨ n = 1 := by omega
    rcases this with rfl | rfl <;> simp
  · rename_i h
    simp only
    have hn0 : n ≠ 0 := by omega
    have hs0 : 0 < Nat.sqrt n := Nat.sqrt_pos.2 (by omega)
    apply isqrt_go_spec n (Nat.sqrt n) hs0 (Nat.sqrt_le n) (Nat.lt_succ_sqrt n)
    · -- √n ≤ x0 : x0² > n
      rw [Nat.le_iff_lt_add_one, Nat.sqrt_lt]
      have h1 : n < 2 ^ (n.log2 + 1) := Nat.lt_log2_self
      have h2 : 2 ^ (n.log2 + 1) ≤ 2 ^ (n.log2 / 2 + 1) * 2 ^ (n.log2 / 2 + 1) := by
        rw [← Nat.pow_add]; exact Nat.pow_le_pow_right (by decide) (by omega)
      have h3 : 2 ^ (n.log2 / 2 + 1) * 2 ^ (n.log2 / 2 + 1) ≤
          (2 ^ (n.log2 / 2 + 1) + 1) * (2 ^ (n.log2 / 2 + 1) + 1) :=
        Nat.mul_le_mul (Nat.le_succ _) (Nat.le_succ _)
      omega
    · have hl : n.log2 < 396 := (Nat.log2_lt hn0).2 hn
      have : 2 ^ (n.log2 / 2 + 1) ≤ 2 ^ 199 := Nat.pow_le_pow_right (by decide) (by omega)
      have h2 : (2 : Nat) ^ 199 < 2 ^ 200 := by decide
      omega

/-! ### rounding `√M · 2^T` through the sticky approximation `(2r + σ) · 2^(T-1)` -/

/-- nearest ⇒ the midpoint of a smaller competitor is not above the value (integers) -/
theorem mid_le_of_nearest (R W Y : Nat) (hY : Y < R)
    (h : |((R : Nat) : Int) - W| ≤ |((Y : Nat) : Int) - W|) : Y + R ≤ 2 * W := by
  rw [← Int.natCast_natAbs, ← Int.natCast_natAbs] at h; omega

theorem mid_ge_of_nearest (R W Y : Nat) (hY : R < Y)
    (h : |((R : Nat) : Int) - W| ≤ |((Y : Nat) : Int) - W|) : 2 * W ≤ Y + R := by
  rw [← Int.natCast_natAbs, ← Int.natCast_natAbs] at h; omega

/-- The heart of the correctness of `F64.sqrt`: let `r = ⌊√M⌋ ≥ 2^61`, `σ = [r² ≠ M]`,
    `W = (2r+σ)·2^(T-1)` and `R = rmag W 1` (the rounding of `W`).  Then `R` is on the right side of
    every midpoint with respect to the irrational `√M·2^T`:  for representable `Y`,
    `Y < R → ((Y+R)/2)² ≤ M·2^(2T)` and `R < Y → M·2^(2T) ≤ ((Y+R)/2)²`. -/
theorem sqrt_side (M r σ T : Nat) (hr1 : r * r ≤ M) (hr2 : M < (r + 1) * (r + 1))
    (hσ : σ = if r * r = M then 0 else 1) (hr61 : 2 ^ 61 ≤ r) (hT : 1 ≤ T) (Y : Nat) (hY : Rep Y) :
    (Y < rmag ((2 * r + σ) * 2 ^ (T - 1)) 1 →
        (Y + rmag ((2 * r + σ) * 2 ^ (T - 1)) 1) * (Y + rmag ((2 * r + σ) * 2 ^ (T - 1)) 1) ≤
          4 * (M * (2 ^ T * 2 ^ T))) ∧
    (rmag ((2 * r + σ) * 2 ^ (T - 1)) 1 < Y →
        4 * (M * (2 ^ T * 2 ^ T)) ≤
          (Y + rmag ((2 * r + σ) * 2 ^ (T - 1)) 1) * (Y + rmag ((2 * r + σ) * 2 ^ (T - 1)) 1)) := by
  have hσ1 : σ ≤ 1 := by rw [hσ]; split <;> omega
  have hP : 2 ^ T = 2 * 2 ^ (T - 1) := by rw [← Nat.pow_succ']; congr 1; omega
  generalize hW : (2 * r + σ) * 2 ^ (T - 1) = W
  have h2W : 2 * W = (2 * r + σ) * 2 ^ T := by rw [← hW, hP]; ring
  -- W ≥ 2^61 · 2^T
  have hWlo : 2 ^ 61 * 2 ^ T ≤ W := by
    rw [← hW, hP]
    calc 2 ^ 61 * (2 * 2 ^ (T - 1)) = (2 * 2 ^ 61) * 2 ^ (T - 1) := by ring
      _ ≤ (2 * r + σ) * 2 ^ (T - 1) := Nat.mul_le_mul_right _ (by omega)
  -- the ulp of W is a multiple of 2^(T+1)
  have hk : T + 1 ≤ kexp W 1 := by
    unfold kexp
    rw [Nat.div_one]
    have hW0 : W ≠ 0 := by have := Nat.two_pow_pos T; have : 0 < 2 ^ 61 * 2 ^ T := Nat.mul_pos (by decide) this; omega
    have : 61 + T ≤ W.log2 := (Nat.le_log2 hW0).2 (by rw [Nat.pow_add]; exact hWlo)
    omega
  obtain ⟨b, hb⟩ : ∃ b, rmag W 1 = b * 2 ^ (T + 1) := by
    refine ⟨rhe W (1 * 2 ^ kexp W 1) * 2 ^ (kexp W 1 - (T + 1)), ?_⟩
    unfold rmag
    have : 2 ^ kexp W 1 = 2 ^ (kexp W 1 - (T + 1)) * 2 ^ (T + 1) := by
      rw [← Nat.pow_add]; congr 1; omega
    generalize rhe W (1 * 2 ^ kexp W 1) = ρ
    rw [this]; ring
  -- R ≥ 2^61·2^T (monotone + fix)
  have hRlo : 2 ^ 61 * 2 ^ T ≤ rmag W 1 := by
    have h1 := rmag_mono (N1 := 2 ^ 61 * 2 ^ T) (D1 := 1) (N2 := W) (D2 := 1) (by decide) (by decide)
      (by simpa using hWlo)
    rwa [rmag_fix _ ⟨2 ^ 52, T + 9, by decide, by rw [Nat.pow_add 2 T 9]; ring⟩] at h1
  -- coarse competitors
  have coarse : ∀ a : Nat, Rep (a * 2 ^ (T + 1)) →
      (a * 2 ^ (T + 1) < rmag W 1 →
        (a * 2 ^ (T + 1) + rmag W 1) * (a * 2 ^ (T + 1) + rmag W 1) ≤ 4 * (M * (2 ^ T * 2 ^ T))) ∧
      (rmag W 1 < a * 2 ^ (T + 1) →
        4 * (M * (2 ^ T * 2 ^ T)) ≤ (a * 2 ^ (T + 1) + rmag W 1) * (a * 2 ^ (T + 1) + rmag W 1)) := by
    intro a ha
    have hn := rmag_nearest W 1 (by decide) (a * 2 ^ (T + 1)) ha
    simp only [Nat.mul_one] at hn
    rw [hb] at hn ⊢
    have hsum : a * 2 ^ (T + 1) + b * 2 ^ (T + 1) = (a + b) * (2 * 2 ^ T) := by rw [Nat.pow_succ]; ring
    have hsq : (a + b) * (2 * 2 ^ T) * ((a + b) * (2 * 2 ^ T)) = 4 * ((a + b) * (a + b) * (2 ^ T * 2 ^ T)) := by ring
    rw [hsum, hsq]
    have hPpos : 0 < 2 ^ T := Nat.two_pow_pos _
    constructor
    · intro hlt
      have h1 := mid_le_of_nearest _ _ _ hlt hn
      rw [hsum, h2W] at h1
      have h2 : (a + b) * 2 ≤ 2 * r + σ := by
        have : (a + b) * 2 * 2 ^ T ≤ (2 * r + σ) * 2 ^ T := by
          calc (a + b) * 2 * 2 ^ T = (a + b) * (2 * 2 ^ T) := by ring
            _ ≤ _ := h1
        exact Nat.le_of_mul_le_mul_right this hPpos
      have h3 : a + b ≤ r := by omega
      have h4 : (a + b) * (a + b) ≤ M := Nat.le_trans (Nat.mul_le_mul h3 h3) hr1
      exact Nat.mul_le_mul_left _ (Nat.mul_le_mul_right _ h4)
    · intro hlt
      have h1 := mid_ge_of_nearest _ _ _ hlt hn
      rw [hsum, h2W] at h1
      have h2 : 2 * r + σ ≤ (a + b) * 2 := by
        have : (2 * r + σ) * 2 ^ T ≤ (a + b) * 2 * 2 ^ T := by
          calc (2 * r + σ) * 2 ^ T ≤ (a + b) * (2 * 2 ^ T) := h1
            _ = (a + b) * 2 * 2 ^ T := by ring
        exact Nat.le_of_mul_le_mul_right this hPpos
      have h4 : M ≤ (a + b) * (a + b) := by
        by_cases hsq : r * r = M
        · have h3 : r ≤ a + b := by omega
          rw [← hsq]; exact Nat.mul_le_mul h3 h3
        · have hσ' : σ = 1 := by rw [hσ, if_neg hsq]
          have h3 : r + 1 ≤ a + b := by omega
          exact Nat.le_trans (Nat.le_of_lt hr2) (Nat.mul_le_mul h3 h3)
      exact Nat.mul_le_mul_left _ (Nat.mul_le_mul_right _ h4)
  -- an arbitrary representable competitor
  obtain ⟨m, j, hm, rfl⟩ := hY
  rcases Nat.lt_or_ge j (T + 1) with hj | hj
  · -- fine competitor: it lies below 2^54·2^T < R; compare through the coarse point 2^54·2^T
    have hYlt : m * 2 ^ j < 2 ^ 54 * 2 ^ T := by
      calc m * 2 ^ j < 2 ^ 53 * 2 ^ j := Nat.mul_lt_mul_of_pos_right hm (Nat.two_pow_pos _)
        _ ≤ 2 ^ 53 * 2 ^ T := Nat.mul_le_mul_left _ (Nat.pow_le_pow_right (by decide) (by omega))
        _ ≤ 2 ^ 54 * 2 ^ T := Nat.mul_le_mul_right _ (by decide)
    have hc : 2 ^ 54 * 2 ^ T = 2 ^ 53 * 2 ^ (T + 1) := by rw [Nat.pow_succ]; ring
    have hlt' : 2 ^ 54 * 2 ^ T < rmag W 1 := by
      have : 2 ^ 54 * 2 ^ T < 2 ^ 61 * 2 ^ T := Nat.mul_lt_mul_of_pos_right (by decide) (Nat.two_pow_pos _)
      omega
    have hrep : Rep (2 ^ 53 * 2 ^ (T + 1)) := ⟨2 ^ 52, T + 2, by decide, by rw [Nat.pow_succ 2 (T + 1)]; ring⟩
    have hc1 := (coarse (2 ^ 53) hrep).1 (by rw [← hc]; exact hlt')
    rw [← hc] at hc1
    constructor
    · intro _
      have hle : m * 2 ^ j + rmag W 1 ≤ 2 ^ 54 * 2 ^ T + rmag W 1 := by omega
      exact Nat.le_trans (Nat.mul_le_mul hle hle) hc1
    · intro h; omega
  · have e : m * 2 ^ j = (m * 2 ^ (j - (T + 1))) * 2 ^ (T + 1) := by
      have : 2 ^ j = 2 ^ (j - (T + 1)) * 2 ^ (T + 1) := by rw [← Nat.pow_add]; congr 1; omega
      rw [this]; ring
    have hrep : Rep ((m * 2 ^ (j - (T + 1))) * 2 ^ (T + 1)) := ⟨m, j, hm, e.symm⟩
    rw [e]
    exact coarse _ hrep

/-! ### `F64.sqrt` -/

theorem expo_le (x : F64) (hx : F64Order.Fin x) : x.expo ≤ 971 := by
  have := expField_le x hx
  unfold F64.expo; split <;> omega

/-- **`sqrt_spec`** (integer form).  For a finite, positive, non-zero `x` the result of `F64.sqrt` is finite,
    positive, and a nearest float to the real `√x`: with `R = mag (sqrt x)` (units of 2^-1074) and
    `V = mag x · 2^1074` (so that `√V` is `√x` in units), every finite `y` satisfies
    `mag y < R → ((mag y + R)/2)² ≤ V` and `R < mag y → V ≤ ((mag y + R)/2)²`
    — the true root lies on the `R` side of every midpoint. -/
theorem sqrt_spec_int {x : F64} (hx : F64Order.Fin x) (hs : x.signBit = false) (h0 : x.isZero = false) :
    F64Order.Fin (F64.sqrt x) ∧ (F64.sqrt x).signBit = false ∧
    ∀ y : F64,
      (mag y < mag (F64.sqrt x) →
        (mag y + mag (F64.sqrt x)) * (mag y + mag (F64.sqrt x)) ≤ 4 * (mag x * 2 ^ 1074)) ∧
      (mag (F64.sqrt x) < mag y →
        4 * (mag x * 2 ^ 1074) ≤ (mag y + mag (F64.sqrt x)) * (mag y + mag (F64.sqrt x))) := by
  have he1 := expo_ge x
  have he2 := expo_le x hx
  have hm1 := mant_pos_of_not_zero h0
  have hm2 := F64Round.mant_lt x
  unfold F64.sqrt
  simp only [isNaN_false hx, isInf_false hx, h0, hs, Bool.false_eq_true, if_false]
  generalize hsh : (x.expo - 2 * ((x.expo - 120) / 2 - 1)).toNat = sh
  generalize ht : (x.expo - 120) / 2 - 1 = t at *
  have hsh' : sh = 122 ∨ sh = 123 := by omega
  have htlo : -598 ≤ t := by omega
  have hthi : t ≤ 424 := by omega
  generalize hM : x.mant * 2 ^ sh = M
  have hMlo : 2 ^ 122 ≤ M := by
    rw [← hM]
    calc 2 ^ 122 = 1 * 2 ^ 122 := by ring
      _ ≤ x.mant * 2 ^ sh := Nat.mul_le_mul hm1 (Nat.pow_le_pow_right (by decide) (by omega))
  have hMhi : M < 2 ^ 176 := by
    rw [← hM]
    calc x.mant * 2 ^ sh < 2 ^ 53 * 2 ^ sh := Nat.mul_lt_mul_of_pos_right hm2 (Nat.two_pow_pos _)
      _ ≤ 2 ^ 53 * 2 ^ 123 := Nat.mul_le_mul_left _ (Nat.pow_le_pow_right (by decide) (by omega))
      _ = 2 ^ 176 := by rw [← Nat.pow_add]
  rw [isqrt_spec M (Nat.lt_trans hMhi (by decide))]
  generalize hr : Nat.sqrt M = r
  have hr1 : r * r ≤ M := by rw [← hr]; exact Nat.sqrt_le M
  have hr2 : M < (r + 1) * (r + 1) := by rw [← hr]; exact Nat.lt_succ_sqrt M
  have hr61 : 2 ^ 61 ≤ r := by
    rw [← hr, Nat.le_sqrt]
    calc 2 ^ 61 * 2 ^ 61 = 2 ^ 122 := by rw [← Nat.pow_add]
      _ ≤ M := hMlo
  have hr88 : r < 2 ^ 88 := by
    by_contra hc
    have : 2 ^ 88 * 2 ^ 88 ≤ r * r := Nat.mul_le_mul (by omega) (by omega)
    have e : (2 : Nat) ^ 88 * 2 ^ 88 = 2 ^ 176 := by rw [← Nat.pow_add]
    omega
  generalize hσ : (if (r * r == M) = true then 0 else 1) = σ
  have hσ' : σ = if r * r = M then 0 else 1 := by
    rw [← hσ]; by_cases h : r * r = M <;> simp [h]
  have hσ1 : σ ≤ 1 := by rw [hσ']; split <;> omega
  -- the rounding
  have hc := roundDyadic_char false (2 * r + σ) (t - 1) (by omega)
  rw [rmag_dy_units _ _ (by omega)] at hc
  generalize hT : (t + 1074).toNat = T
  have hT1 : (t - 1 + 1074).toNat = T - 1 := by omega
  have hTlo : 1 ≤ T := by omega
  have hThi : T ≤ 1498 := by omega
  rw [hT1] at hc
  -- no overflow
  have hlt : rmag ((2 * r + σ) * 2 ^ (T - 1)) 1 < 2 ^ 2098 := by
    have h1 : (2 * r + σ) * 2 ^ (T - 1) ≤ 2 ^ 90 * 2 ^ 1497 :=
      Nat.mul_le_mul (by omega) (Nat.pow_le_pow_right (by decide) (by omega))
    have h2 := rmag_mono (N1 := (2 * r + σ) * 2 ^ (T - 1)) (D1 := 1) (N2 := 2 ^ 90 * 2 ^ 1497) (D2 := 1)
      (by decide) (by decide) (by simpa using h1)
    have hfix : rmag (2 ^ 90 * 2 ^ 1497) 1 = 2 ^ 90 * 2 ^ 1497 :=
      rmag_fix _ ⟨2 ^ 52, 1535, by decide, by rw [← Nat.pow_add, ← Nat.pow_add]⟩
    rw [hfix] at h2
    have h3 : (2 : Nat) ^ 90 * 2 ^ 1497 < 2 ^ 2098 := by rw [← Nat.pow_add]; exact Nat.pow_lt_pow_right (by decide) (by decide)
    omega
  obtain ⟨hf, hsg, hmag⟩ := hc.1 hlt
  refine ⟨hf, hsg, fun y => ?_⟩
  rw [hmag]
  -- the value in units
  have hV : mag x * 2 ^ 1074 = M * (2 ^ T * 2 ^ T) := by
    rw [mag_eq_mant, ← hM]
    have hexp : (x.expo + 1074).toNat + 1074 = sh + (T + T) := by omega
    calc x.mant * 2 ^ (x.expo + 1074).toNat * 2 ^ 1074 = x.mant * 2 ^ ((x.expo + 1074).toNat + 1074) := by
          rw [Nat.pow_add]; ring
      _ = x.mant * 2 ^ (sh + (T + T)) := by rw [hexp]
      _ = _ := by rw [Nat.pow_add, Nat.pow_add]; ring
  rw [hV]
  exact sqrt_side M r σ T hr1 hr2 hσ' hr61 hTlo (mag y) (rep_mag y)

/-- the special cases of `math.Sqrt` -/
theorem sqrt_special (x : F64) :
    (x.isNaN = true → F64.sqrt x = F64.nan) ∧
    (x.isNaN = false → x.isZero = true → F64.sqrt x = x) ∧
    (x.isNaN = false → x.isZero = false → x.signBit = true → F64.sqrt x = F64.nan) ∧
    (x.isNaN = false → x.isZero = false → x.signBit = false → x.isInf = true → F64.sqrt x = x) := by
  unfold F64.sqrt
  refine ⟨fun h => by simp [h], fun h1 h2 => by simp [h1, h2], fun h1 h2 h3 => by simp [h1, h2, h3],
    fun h1 h2 h3 h4 => by simp [h1, h2, h3, h4]⟩

/-- non-vacuity: `√2`, `√4 = 2` exactly, the square root of the smallest subnormal, of the largest float -/
example : F64.sqrt F64.two = ⟨0x3FF6A09E667F3BCD⟩ ∧ F64.sqrt F64.four = F64.two ∧
    F64.sqrt ⟨0x0000000000000001⟩ = ⟨0x1E60000000000000⟩ ∧
    F64.sqrt ⟨0x7FEFFFFFFFFFFFFF⟩ = ⟨0x5FEFFFFFFFFFFFFF⟩ := by decide +kernel

end S2Proofs.F64Round
