/-
  S2Proofs.F64Round.Spec — `roundNE` / `roundDyadic` are correctly rounded (integer form).

  Scale: `toInt x = value(x) · 2^1074`.  The exact value being rounded is `± n / d`, i.e. `± n·2^1074 / d` units.
-/
import S2Proofs.F64Round.Bits
import S2Proofs.F64Round.Ext

set_option linter.unusedSimpArgs false
set_option linter.unusedVariables false

namespace S2Proofs.F64Round
open S2 S2.Exact S2Proofs.F64Order S2Proofs.F64Sym S2Proofs.F64Inj S2Proofs.Codec

/-- the sign as an integer factor -/
def sgnI (neg : Bool) : Int := if neg then -1 else 1

theorem toInt_of_mag {x : F64} {s : Bool} {R : Nat} (hs : x.signBit = s) (hm : mag x = R) :
    toInt x = sgnI s * R := by
  rw [toInt_eq_mag, hs, hm]; unfold sgnI; cases s <;> simp

theorem toInt_sgn_mag (x : F64) : toInt x = sgnI x.signBit * mag x := toInt_of_mag rfl rfl

/-- magnitudes of finite floats are representable -/
theorem rep_mag (x : F64) : Rep (mag x) := ⟨x.mant, x.expField - 1, mant_lt x, rfl⟩

theorem expField_le (x : F64) (hx : F64Order.Fin x) : x.expField ≤ 2046 := by
  unfold F64Order.Fin at hx
  have : x.expField < 2 ^ 11 := by rw [expField_eq]; exact Nat.mod_lt _ (by decide)
  omega

theorem not_fin_inf (s : Bool) : ¬ F64Order.Fin (F64.inf s) := by cases s <;> decide

/-- sign and magnitude determine the float -/
theorem eq_of_sign_mag {x y : F64} (hs : x.signBit = y.signBit) (hm : mag x = mag y) : x = y := by
  obtain ⟨he, hf⟩ := mag_inj hm
  exact bits_eq_of_fields hs he hf

theorem nearest_signed (a b N s t : Int) (hs : s = 1 ∨ s = -1) (ht : t = 1 ∨ t = -1) (ha : 0 ≤ a)
    (hb : 0 ≤ b) (hN : 0 ≤ N) (h1 : |a - N| ≤ |b - N|) (h0 : |a - N| ≤ |0 - N|) :
    |s * a - s * N| ≤ |t * b - s * N| := by
  rw [← Int.natCast_natAbs, ← Int.natCast_natAbs] at h0 h1 ⊢
  rcases hs with rfl | rfl <;> rcases ht with rfl | rfl <;> omega

/-! ### `roundNE` -/

theorem roundNE_zero (neg : Bool) (d : Nat) : F64.roundNE neg 0 d = F64.zero neg := by
  rw [roundNE_eq]; simp

section
variable (neg : Bool) (n d : Nat)

theorem roundNE_fin_iff (hn : 0 < n) (hd : 0 < d) :
    F64Order.Fin (F64.roundNE neg n d) ↔ rmag (n * 2 ^ 1074) d < 2 ^ 2098 := by
  have h := roundNE_char neg n d hn hd
  constructor
  · intro hf
    by_contra hc
    rw [h.2 (by omega)] at hf
    exact not_fin_inf _ hf
  · intro hlt; exact (h.1 hlt).1

/-- **value of the result**: `toInt (roundNE neg n d) = ± rmag (n·2^1074) d` when finite -/
theorem roundNE_toInt (hn : 0 < n) (hd : 0 < d) (hf : F64Order.Fin (F64.roundNE neg n d)) :
    toInt (F64.roundNE neg n d) = sgnI neg * (rmag (n * 2 ^ 1074) d : Int) := by
  obtain ⟨_, h2, h3⟩ := (roundNE_char neg n d hn hd).1 ((roundNE_fin_iff neg n d hn hd).1 hf)
  exact toInt_of_mag h2 h3

theorem roundNE_signBit (hn : 0 < n) (hd : 0 < d) : (F64.roundNE neg n d).signBit = neg := by
  have h := roundNE_char neg n d hn hd
  rcases Nat.lt_or_ge (rmag (n * 2 ^ 1074) d) (2 ^ 2098) with hlt | hge
  · exact (h.1 hlt).2.1
  · rw [h.2 hge]; cases neg <;> decide

theorem roundNE_not_nan (hd : 0 < d) : (F64.roundNE neg n d).isNaN = false := by
  rcases Nat.eq_zero_or_pos n with rfl | hn
  · rw [roundNE_zero]; cases neg <;> decide
  have h := roundNE_char neg n d hn hd
  rcases Nat.lt_or_ge (rmag (n * 2 ^ 1074) d) (2 ^ 2098) with hlt | hge
  · exact isNaN_false (h.1 hlt).1
  · rw [h.2 hge]; cases neg <;> decide

/-- **nearest** (integer form): among all finite floats `y`, the result minimises `|y − (±n/d)|`
    (both sides multiplied by `d · 2^1074`). -/
theorem roundNE_nearest (hn : 0 < n) (hd : 0 < d) (hf : F64Order.Fin (F64.roundNE neg n d))
    (y : F64) :
    |toInt (F64.roundNE neg n d) * d - sgnI neg * ((n * 2 ^ 1074 : Nat) : Int)| ≤
      |toInt y * d - sgnI neg * ((n * 2 ^ 1074 : Nat) : Int)| := by
  rw [roundNE_toInt neg n d hn hd hf, toInt_sgn_mag y]
  have h1 := rmag_nearest (n * 2 ^ 1074) d hd (mag y) (rep_mag y)
  have h0 := rmag_nearest (n * 2 ^ 1074) d hd 0 ⟨0, 0, by decide, by simp⟩
  generalize rmag (n * 2 ^ 1074) d = R at *
  generalize n * 2 ^ 1074 = N at *
  push_cast at h0 h1
  rw [Int.mul_assoc, Int.mul_assoc]
  apply nearest_signed _ _ _ _ _ (by unfold sgnI; cases neg <;> simp) (by unfold sgnI; cases y.signBit <;> simp)
    (Int.mul_nonneg (Int.natCast_nonneg _) (Int.natCast_nonneg _))
    (Int.mul_nonneg (Int.natCast_nonneg _) (Int.natCast_nonneg _)) (Int.natCast_nonneg _) h1
  simpa using h0

/-- **overflow**: an infinite result means `n/d ≥ 2^1024 − 2^970` (the midpoint between the largest finite
    float and 2^1024); stated as `(2^54 − 1)·2^970·d ≤ n`. -/
theorem roundNE_inf_ge (hn : 0 < n) (hd : 0 < d) (hinf : ¬ F64Order.Fin (F64.roundNE neg n d)) :
    (2 ^ 54 - 1) * 2 ^ 970 * d ≤ n := by
  have hR : 2 ^ 2098 ≤ rmag (n * 2 ^ 1074) d := by
    by_contra hc
    exact hinf ((roundNE_fin_iff neg n d hn hd).2 (by omega))
  have h1 := rmag_nearest (n * 2 ^ 1074) d hd ((2 ^ 53 - 1) * 2 ^ 2045) ⟨2 ^ 53 - 1, 2045, by decide, rfl⟩
  have h2 : 2 ^ 2098 * d ≤ rmag (n * 2 ^ 1074) d * d := Nat.mul_le_mul_right _ hR
  generalize rmag (n * 2 ^ 1074) d * d = a at *
  rw [← Int.natCast_natAbs, ← Int.natCast_natAbs] at h1
  have e1 : (2 ^ 53 - 1) * 2 ^ 2045 * d = (2 ^ 54 - 2) * 2 ^ 2044 * d := by
    have : (2 : Nat) ^ 2045 = 2 * 2 ^ 2044 := by rw [← Nat.pow_succ']
    have h' : (2 ^ 53 - 1) * 2 = 2 ^ 54 - 2 := by decide
    rw [this, ← Nat.mul_assoc, h']
  have e2 : 2 ^ 2098 * d = 2 ^ 54 * 2 ^ 2044 * d := by rw [← Nat.pow_add]
  have e3 : n * 2 ^ 1074 = n * 2 ^ 1074 := rfl
  -- work in multiples of 2^2044 · d  resp. compare with n·2^1074
  by_contra hc
  have hc' : n < (2 ^ 54 - 1) * 2 ^ 970 * d := by omega
  have hc2 : n * 2 ^ 1074 < (2 ^ 54 - 1) * 2 ^ 2044 * d := by
    have := Nat.mul_lt_mul_of_pos_right hc' (Nat.two_pow_pos 1074)
    have e : (2 ^ 54 - 1) * 2 ^ 970 * d * 2 ^ 1074 = (2 ^ 54 - 1) * 2 ^ 2044 * d := by
      have : (2 : Nat) ^ 2044 = 2 ^ 970 * 2 ^ 1074 := by rw [← Nat.pow_add]
      rw [this]; ring
    omega
  rw [e1] at h1
  rw [e2] at h2
  generalize n * 2 ^ 1074 = N at *
  have e4 : (2 ^ 54 - 2) * 2 ^ 2044 * d = (2 ^ 54 - 2) * (2 ^ 2044 * d) := Nat.mul_assoc _ _ _
  have e5 : (2 ^ 54 - 1) * 2 ^ 2044 * d = (2 ^ 54 - 1) * (2 ^ 2044 * d) := Nat.mul_assoc _ _ _
  have e6 : 2 ^ 54 * 2 ^ 2044 * d = 2 ^ 54 * (2 ^ 2044 * d) := Nat.mul_assoc _ _ _
  rw [e4] at h1; rw [e5] at hc2; rw [e6] at h2
  generalize 2 ^ 2044 * d = u at *
  omega

/-- the result depends only on the rational `n/d` -/
theorem roundNE_congr {n1 d1 n2 d2 : Nat} (hn1 : 0 < n1) (hd1 : 0 < d1) (hn2 : 0 < n2) (hd2 : 0 < d2)
    (h : n1 * d2 = n2 * d1) : F64.roundNE neg n1 d1 = F64.roundNE neg n2 d2 := by
  have hR : rmag (n1 * 2 ^ 1074) d1 = rmag (n2 * 2 ^ 1074) d2 := by
    apply rmag_congr hd1 hd2
    calc n1 * 2 ^ 1074 * d2 = n1 * d2 * 2 ^ 1074 := by ring
      _ = n2 * d1 * 2 ^ 1074 := by rw [h]
      _ = n2 * 2 ^ 1074 * d1 := by ring
  have c1 := roundNE_char neg n1 d1 hn1 hd1
  have c2 := roundNE_char neg n2 d2 hn2 hd2
  rw [hR] at c1
  rcases Nat.lt_or_ge (rmag (n2 * 2 ^ 1074) d2) (2 ^ 2098) with hlt | hge
  · obtain ⟨_, s1, m1⟩ := c1.1 hlt
    obtain ⟨_, s2, m2⟩ := c2.1 hlt
    exact eq_of_sign_mag (by rw [s1, s2]) (by rw [m1, m2])
  · rw [c1.2 hge, c2.2 hge]

/-- **representable values are fixed**: rounding the exact value of a finite non-zero float returns it -/
theorem roundNE_fix (x : F64) (hx : F64Order.Fin x) (hn : 0 < n) (hd : 0 < d)
    (h : n * 2 ^ 1074 = mag x * d) : F64.roundNE x.signBit n d = x := by
  have hR : rmag (n * 2 ^ 1074) d = mag x := by rw [h]; exact rmag_fix' _ _ hd (rep_mag x)
  obtain ⟨_, s1, m1⟩ := (roundNE_char x.signBit n d hn hd).1 (by rw [hR]; exact mag_lt x hx)
  exact eq_of_sign_mag s1 (by rw [m1, hR])

end

/-! ### `roundDyadic` -/

/-- numerator / denominator (in units of 2^-1074) of the dyadic `m · 2^e` -/
def dyN (m : Nat) (e : Int) : Nat := m * 2 ^ e.toNat * 2 ^ 1074
def dyD (e : Int) : Nat := 2 ^ (-e).toNat

theorem roundDyadic_char (neg : Bool) (m : Nat) (e : Int) (hm : 0 < m) :
    (rmag (dyN m e) (dyD e) < 2 ^ 2098 →
        F64Order.Fin (F64.roundDyadic neg m e) ∧ (F64.roundDyadic neg m e).signBit = neg ∧
          mag (F64.roundDyadic neg m e) = rmag (dyN m e) (dyD e)) ∧
    (2 ^ 2098 ≤ rmag (dyN m e) (dyD e) → F64.roundDyadic neg m e = F64.inf neg) := by
  unfold F64.roundDyadic dyN dyD
  split
  · rename_i h
    have : (-e).toNat = 0 := by omega
    rw [this, Nat.pow_zero]
    exact roundNE_char neg _ 1 (Nat.mul_pos hm (Nat.two_pow_pos _)) (by decide)
  · rename_i h
    have : e.toNat = 0 := by omega
    rw [this, Nat.pow_zero, Nat.mul_one]
    exact roundNE_char neg m _ hm (Nat.two_pow_pos _)

/-- for exponents `e ≥ -1074` the dyadic `m·2^e` is the integer `m·2^(e+1074)` in units -/
theorem rmag_dy_units (m : Nat) (e : Int) (he : -1074 ≤ e) :
    rmag (dyN m e) (dyD e) = rmag (m * 2 ^ (e + 1074).toNat) 1 := by
  apply rmag_congr (Nat.two_pow_pos _) (by decide)
  unfold dyN
  try unfold dyD
  rw [Nat.mul_one]
  by_cases h : 0 ≤ e
  · have h1 : (-e).toNat = 0 := by omega
    have h2 : (e + 1074).toNat = e.toNat + 1074 := by omega
    rw [h1, h2, Nat.pow_zero, Nat.mul_one, Nat.pow_add, Nat.mul_assoc]
  · have h1 : e.toNat = 0 := by omega
    have h2 : 1074 = (e + 1074).toNat + (-e).toNat := by omega
    rw [h1, Nat.pow_zero, Nat.mul_one]
    conv => lhs; rw [h2]
    rw [Nat.pow_add, Nat.mul_assoc]

theorem roundDyadic_not_nan (neg : Bool) (m : Nat) (e : Int) : (F64.roundDyadic neg m e).isNaN = false := by
  unfold F64.roundDyadic
  split
  · exact roundNE_not_nan _ _ _ (by decide)
  · exact roundNE_not_nan _ _ _ (Nat.two_pow_pos _)

end S2Proofs.F64Round
