/-
  S2Proofs.F64Round.RInt — error bounds, nearest-ness and overflow threshold of the integer rounding
  function `rint` (see `Ops.lean`), and recovery of a float from its `ext` value.
-/
import S2Proofs.F64Round.Carrier
import S2Proofs.F64Round.Tie

set_option linter.unusedSimpArgs false
set_option linter.unusedVariables false

namespace S2Proofs.F64Round
open S2 S2.Exact S2Proofs.F64Order S2Proofs.F64Sym S2Proofs.F64Inj S2Proofs.Codec

/-! ### overflow threshold of `rmag` -/

/-- `rmag N D ≥ 2^2098` (overflow) forces `N/D ≥ (2^54 − 1)·2^2044` units, i.e. value ≥ 2^1024 − 2^970 -/
theorem rmag_ge_top (N D : Nat) (hD : 0 < D) (hR : 2 ^ 2098 ≤ rmag N D) : (2 ^ 54 - 1) * 2 ^ 2044 * D ≤ N := by
  have h1 := rmag_nearest N D hD ((2 ^ 53 - 1) * 2 ^ 2045) ⟨2 ^ 53 - 1, 2045, by decide, rfl⟩
  have h2 : 2 ^ 2098 * D ≤ rmag N D * D := Nat.mul_le_mul_right _ hR
  generalize rmag N D * D = a at *
  rw [← Int.natCast_natAbs, ← Int.natCast_natAbs] at h1
  have e1 : (2 ^ 53 - 1) * 2 ^ 2045 * D = (2 ^ 54 - 2) * (2 ^ 2044 * D) := by
    have : (2 : Nat) ^ 2045 = 2 * 2 ^ 2044 := by rw [← Nat.pow_succ']
    have h' : (2 ^ 53 - 1) * 2 = 2 ^ 54 - 2 := by decide
    rw [this, ← Nat.mul_assoc, h', Nat.mul_assoc]
  have e2 : 2 ^ 2098 * D = 2 ^ 54 * (2 ^ 2044 * D) := by rw [← Nat.mul_assoc, ← Nat.pow_add]
  rw [e1] at h1
  rw [e2] at h2
  rw [Nat.mul_assoc]
  generalize 2 ^ 2044 * D = u at *
  omega

/-- below the threshold there is no overflow -/
theorem rmag_lt_top (N D : Nat) (hD : 0 < D) (h : N < (2 ^ 54 - 1) * 2 ^ 2044 * D) : rmag N D < 2 ^ 2098 := by
  by_contra hc
  have := rmag_ge_top N D hD (by omega)
  omega

/-- at or above the threshold the magnitude overflows -/
theorem rmag_top_le (N D : Nat) (hD : 0 < D) (h : (2 ^ 54 - 1) * 2 ^ 2044 * D ≤ N) : 2 ^ 2098 ≤ rmag N D := by
  have h1 : rmag ((2 ^ 54 - 1) * 2 ^ 2044) 1 ≤ rmag N D :=
    rmag_mono (by decide) hD (by simpa using h)
  have h2 : rmag ((2 ^ 54 - 1) * 2 ^ 2044) 1 = 2 ^ 2098 := by decide +kernel
  omega

/-! ### `rint` -/

theorem rint_eq_of_lt (s : Int) (D : Nat) (h : rmag s.natAbs D < 2 ^ 2098) :
    rint s D = if s < 0 then -(rmag s.natAbs D : Int) else (rmag s.natAbs D : Int) := by
  unfold rint rclamp
  rw [Nat.min_eq_left (by omega)]

/-- strictly inside the range ↔ no overflow of the magnitude -/
theorem rint_lt_iff (s : Int) (D : Nat) :
    (-(2 ^ 2098) < rint s D ∧ rint s D < 2 ^ 2098) ↔ rmag s.natAbs D < 2 ^ 2098 := by
  unfold rint rclamp
  constructor
  · intro h
    by_contra hc
    rw [Nat.min_eq_right (by omega)] at h
    split at h <;> omega
  · intro h
    rw [Nat.min_eq_left (by omega)]
    split <;> omega

theorem natAbs_sign (s : Int) : (if s < 0 then -1 else 1 : Int) * (s.natAbs : Int) = s := by
  split <;> omega

/-- **nearest** -/
theorem rint_nearest (s : Int) (D : Nat) (hD : 0 < D) (h : rmag s.natAbs D < 2 ^ 2098) (y : F64) :
    |rint s D * D - s| ≤ |toInt y * D - s| := by
  rw [rint_eq_of_lt s D h, toInt_sgn_mag y]
  have h1 := rmag_nearest s.natAbs D hD (mag y) (rep_mag y)
  have h0 := rmag_nearest s.natAbs D hD 0 ⟨0, 0, by decide, by simp⟩
  generalize rmag s.natAbs D = R at *
  simp only [Int.natCast_mul, Nat.zero_mul, Int.natCast_zero] at h0 h1
  have hs := natAbs_sign s
  have key := nearest_signed ((R : Int) * D) ((mag y : Int) * D) (s.natAbs : Int)
    (if s < 0 then -1 else 1) (sgnI y.signBit)
    (by split <;> simp) (by unfold sgnI; cases y.signBit <;> simp)
    (Int.mul_nonneg (Int.natCast_nonneg _) (Int.natCast_nonneg _))
    (Int.mul_nonneg (Int.natCast_nonneg _) (Int.natCast_nonneg _)) (Int.natCast_nonneg _) h1 h0
  rw [hs] at key
  rw [Int.mul_assoc]
  have e : (if s < 0 then -(R : Int) else (R : Int)) * D = (if s < 0 then -1 else 1) * ((R : Int) * D) := by
    split <;> ring
  rw [e]
  exact key

/-- half-ulp error, relative form (normal range `|s|/D ≥ 2^52` units = 2^-1022) -/
theorem rint_rel_err (s : Int) (D : Nat) (hD : 0 < D) (h : rmag s.natAbs D < 2 ^ 2098)
    (hlow : 2 ^ 52 * D ≤ s.natAbs) : 2 ^ 53 * |rint s D * D - s| ≤ |s| := by
  rw [rint_eq_of_lt s D h]
  obtain ⟨e1, e2⟩ := rmag_rel_err s.natAbs D hD hlow
  generalize rmag s.natAbs D = R at *
  have e1' : ((2 ^ 53 * (R * D) : Nat) : Int) ≤ ((2 ^ 53 * s.natAbs + s.natAbs : Nat) : Int) := by
    exact_mod_cast e1
  have e2' : ((2 ^ 53 * s.natAbs : Nat) : Int) ≤ ((2 ^ 53 * (R * D) + s.natAbs : Nat) : Int) := by
    exact_mod_cast e2
  have e : (if s < 0 then -(R : Int) else (R : Int)) * D = (if s < 0 then -((R : Int) * D) else (R : Int) * D) := by
    split <;> ring
  rw [e]
  simp only [Int.natCast_mul, Int.natCast_add, Int.natCast_pow, Nat.cast_ofNat] at e1' e2'
  generalize (R : Int) * D = a at *
  rw [← Int.natCast_natAbs, ← Int.natCast_natAbs]
  split <;> omega

/-- half-ulp error, absolute form (subnormal range `|s|/D < 2^53` units): at most half a unit -/
theorem rint_abs_err (s : Int) (D : Nat) (hD : 0 < D) (hhi : s.natAbs < 2 ^ 53 * D) :
    2 * |rint s D * D - s| ≤ D := by
  have hk := rmag_abs_err s.natAbs D hD hhi
  have h : rmag s.natAbs D < 2 ^ 2098 := by
    apply rmag_lt_top _ _ hD
    have : 2 ^ 53 * D ≤ (2 ^ 54 - 1) * 2 ^ 2044 * D :=
      Nat.mul_le_mul_right _ (by decide +kernel)
    omega
  rw [rint_eq_of_lt s D h]
  obtain ⟨e1, e2⟩ := hk
  generalize rmag s.natAbs D = R at *
  have e1' : ((2 * (R * D) : Nat) : Int) ≤ ((2 * s.natAbs + D : Nat) : Int) := by exact_mod_cast e1
  have e2' : ((2 * s.natAbs : Nat) : Int) ≤ ((2 * (R * D) + D : Nat) : Int) := by exact_mod_cast e2
  have e : (if s < 0 then -(R : Int) else (R : Int)) * D = (if s < 0 then -((R : Int) * D) else (R : Int) * D) := by
    split <;> ring
  rw [e]
  simp only [Int.natCast_mul, Int.natCast_add, Nat.cast_ofNat] at e1' e2'
  generalize (R : Int) * D = a at *
  rw [← Int.natCast_natAbs]
  split <;> omega

/-- integers below 2^53 units are not rounded at all -/
theorem rint_small_int (s : Int) (h : s.natAbs < 2 ^ 53) : rint s 1 = s :=
  rint_rep s ⟨s.natAbs, 0, h, by simp⟩ (Nat.lt_trans h (by decide +kernel))

/-! ### recovering the float from its `ext` value -/

theorem eq_of_ext_eq {x y : F64} (hx : x.isNaN = false) (hy : y.isNaN = false) (h : ext x = ext y)
    (h0 : ext x ≠ 0) : x = y := by
  rcases notNaN_cases hx with fx | rfl | rfl <;> rcases notNaN_cases hy with fy | rfl | rfl
  · rw [ext_finite fx, ext_finite fy] at h
    rw [ext_finite fx] at h0
    apply toInt_inj h
    · rintro rfl; exact h0 (by decide)
    · rintro rfl; rw [h] at h0; exact h0 (by decide)
  · exfalso; have := toInt_bounds x fx; rw [ext_finite fx, ext_inf] at h; simp at h; omega
  · exfalso; have := toInt_bounds x fx; rw [ext_finite fx, ext_inf] at h; simp at h; omega
  · exfalso; have := toInt_bounds y fy; rw [ext_finite fy, ext_inf] at h; simp at h; omega
  · rfl
  · exfalso; rw [ext_inf, ext_inf] at h; simp at h; omega
  · exfalso; have := toInt_bounds y fy; rw [ext_finite fy, ext_inf] at h; simp at h; omega
  · exfalso; rw [ext_inf, ext_inf] at h; simp at h; omega
  · rfl

end S2Proofs.F64Round
