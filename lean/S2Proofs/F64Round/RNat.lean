/-
  S2Proofs.F64Round.RNat — the arithmetic core of round-to-nearest-even at 53 bits of precision with a
  fixed minimal exponent, on natural numbers.

  Unit: everything is measured in units of 2^-1074 (the smallest subnormal), so the magnitude of a finite
  binary64 is a natural number `m · 2^k`, `m < 2^53`.  A positive rational is `N / D` (in these units).

  * `rhe N M`   : round-half-even integer quotient of `N / M`
  * `kexp N D`  : exponent of the unit in the last place used for `N / D`  (`max 0 (⌊log2 (N/D)⌋ - 52)`)
  * `rmag N D`  : the rounded magnitude (no overflow clamp): `rhe N (D·2^k) · 2^k`
  * `Rep R`     : `R = m · 2^k` with `m < 2^53` (representable with unbounded exponent)

  Proved: `rmag` is representable, nearest among representables, ties to even, monotone, fixes
  representables, depends only on the rational `N/D`, and its error is at most half an ulp.
-/
import Mathlib.Tactic.Ring
import Mathlib.Tactic.Linarith

namespace S2Proofs.F64Round

/-! ### round-half-even integer quotient -/

/-- round-half-even integer quotient of `N / M` -/
def rhe (N M : Nat) : Nat :=
  if 2 * (N % M) > M ∨ (2 * (N % M) = M ∧ (N / M) % 2 = 1) then N / M + 1 else N / M

theorem rhe_ge (N M : Nat) : N / M ≤ rhe N M := by
  unfold rhe; split <;> omega

theorem rhe_le (N M : Nat) : rhe N M ≤ N / M + 1 := by
  unfold rhe; split <;> omega

/-- the two half-ulp error bounds, in `Nat` -/
theorem rhe_err (N M : Nat) (hM : 0 < M) :
    2 * (rhe N M * M) ≤ 2 * N + M ∧ 2 * N ≤ 2 * (rhe N M * M) + M := by
  have h1 := Nat.div_add_mod N M
  have h2 := Nat.mod_lt N hM
  unfold rhe
  split
  · rename_i h
    rw [Nat.add_mul, Nat.one_mul, Nat.mul_comm (N / M) M]
    generalize M * (N / M) = a at *
    omega
  · rename_i h
    rw [Nat.mul_comm (N / M) M]
    generalize M * (N / M) = a at *
    omega

/-- `rhe N M` is a nearest integer to `N / M` -/
theorem rhe_nearest (N M : Nat) (hM : 0 < M) (z : Nat) :
    |((rhe N M * M : Nat) : Int) - N| ≤ |((z * M : Nat) : Int) - N| := by
  have h1 := Nat.div_add_mod N M
  have h2 := Nat.mod_lt N hM
  rcases Nat.lt_or_ge (N / M) z with hz | hz
  · -- z ≥ q + 1
    have hz' : (N / M + 1) * M ≤ z * M := Nat.mul_le_mul_right _ hz
    rw [Nat.add_mul, Nat.one_mul, Nat.mul_comm (N / M) M] at hz'
    unfold rhe
    split
    · rw [Nat.add_mul, Nat.one_mul, Nat.mul_comm (N / M) M]
      generalize M * (N / M) = a at *
      generalize z * M = b at *
      rw [← Int.natCast_natAbs, ← Int.natCast_natAbs]
      omega
    · rw [Nat.mul_comm (N / M) M]
      generalize M * (N / M) = a at *
      generalize z * M = b at *
      rw [← Int.natCast_natAbs, ← Int.natCast_natAbs]
      omega
  · have hz' : z * M ≤ (N / M) * M := Nat.mul_le_mul_right _ hz
    rw [Nat.mul_comm (N / M) M] at hz'
    unfold rhe
    split
    · rw [Nat.add_mul, Nat.one_mul, Nat.mul_comm (N / M) M]
      generalize M * (N / M) = a at *
      generalize z * M = b at *
      rw [← Int.natCast_natAbs, ← Int.natCast_natAbs]
      omega
    · rw [Nat.mul_comm (N / M) M]
      generalize M * (N / M) = a at *
      generalize z * M = b at *
      rw [← Int.natCast_natAbs, ← Int.natCast_natAbs]
      omega

/-- monotone in the numerator -/
theorem rhe_mono (N1 N2 M : Nat) (hM : 0 < M) (h : N1 ≤ N2) : rhe N1 M ≤ rhe N2 M := by
  have hq : N1 / M ≤ N2 / M := Nat.div_le_div_right h
  rcases Nat.lt_or_ge (N1 / M) (N2 / M) with hlt | hge
  · exact Nat.le_trans (rhe_le N1 M) (Nat.le_trans hlt (rhe_ge N2 M))
  · have he : N1 / M = N2 / M := by omega
    have h1 := Nat.div_add_mod N1 M
    have h2 := Nat.div_add_mod N2 M
    unfold rhe
    rw [he] at h1 ⊢
    generalize M * (N2 / M) = a at *
    split <;> split <;> omega

/-- scaling numerator and denominator -/
theorem rhe_scale (N M c : Nat) (hc : 0 < c) : rhe (N * c) (M * c) = rhe N M := by
  unfold rhe
  rw [Nat.mul_div_mul_right _ _ hc, Nat.mul_mod_mul_right]
  have e1 : (2 * (N % M * c) > M * c) ↔ (2 * (N % M) > M) := by
    rw [← Nat.mul_assoc]
    exact ⟨fun h => Nat.lt_of_mul_lt_mul_right h, fun h => Nat.mul_lt_mul_of_pos_right h hc⟩
  have e2 : (2 * (N % M * c) = M * c) ↔ (2 * (N % M) = M) := by
    rw [← Nat.mul_assoc]
    exact ⟨fun h => Nat.eq_of_mul_eq_mul_right hc h, fun h => by rw [h]⟩
  simp only [e1, e2]

/-- exact quotients are not changed -/
theorem rhe_exact (z M : Nat) (hM : 0 < M) : rhe (z * M) M = z := by
  unfold rhe
  rw [Nat.mul_mod_left, Nat.mul_div_cancel _ hM]
  have : ¬ (2 * 0 > M ∨ 2 * 0 = M ∧ z % 2 = 1) := by omega
  rw [if_neg this]

/-- ties go to the even neighbour -/
theorem rhe_tie_even (N M : Nat) (h : 2 * (N % M) = M) : rhe N M % 2 = 0 := by
  unfold rhe
  by_cases hq : (N / M) % 2 = 1
  · rw [if_pos (Or.inr ⟨h, hq⟩)]; omega
  · rw [if_neg (by omega)]; omega

/-! ### exponent selection -/

/-- exponent (in units of 2^-1074) of the last place used when rounding `N / D` -/
def kexp (N D : Nat) : Nat := (N / D).log2 - 52

theorem div_mul_two_pow (N D k : Nat) : N / (D * 2 ^ k) = N / D / 2 ^ k :=
  (Nat.div_div_eq_div_mul N D (2 ^ k)).symm

theorem kexp_spec (N D : Nat) :
    N / (D * 2 ^ kexp N D) < 2 ^ 53 ∧ (kexp N D = 0 ∨ 2 ^ 52 ≤ N / (D * 2 ^ kexp N D)) := by
  rw [div_mul_two_pow]
  unfold kexp
  generalize N / D = W
  rcases Nat.eq_zero_or_pos W with rfl | hW
  · simp
  have hW0 : W ≠ 0 := by omega
  have h1 := Nat.log2_self_le hW0
  have h2 := @Nat.lt_log2_self W
  rcases Nat.lt_or_ge W.log2 53 with hl | hl
  · have : W.log2 - 52 = 0 := by omega
    rw [this]
    refine ⟨?_, Or.inl rfl⟩
    simp only [Nat.pow_zero, Nat.div_one]
    exact Nat.lt_of_lt_of_le h2 (Nat.pow_le_pow_right (by decide) (by omega))
  · constructor
    · rw [Nat.div_lt_iff_lt_mul (Nat.two_pow_pos _), ← Nat.pow_add]
      have : 53 + (W.log2 - 52) = W.log2 + 1 := by omega
      rw [this]; exact h2
    · right
      rw [Nat.le_div_iff_mul_le (Nat.two_pow_pos _), ← Nat.pow_add]
      have : 52 + (W.log2 - 52) = W.log2 := by omega
      rw [this]; exact h1

theorem kexp_unique (N D k : Nat) (h1 : N / (D * 2 ^ k) < 2 ^ 53)
    (h2 : k = 0 ∨ 2 ^ 52 ≤ N / (D * 2 ^ k)) : k = kexp N D := by
  rw [div_mul_two_pow] at h1 h2
  unfold kexp
  generalize N / D = W at *
  rcases h2 with rfl | h2
  · simp only [Nat.pow_zero, Nat.div_one] at h1
    rcases Nat.eq_zero_or_pos W with rfl | hW
    · simp
    have : W.log2 < 53 := (Nat.log2_lt (by omega)).2 h1
    omega
  · have hW : W ≠ 0 := by
      rintro rfl
      simp at h2
    rw [Nat.div_lt_iff_lt_mul (Nat.two_pow_pos _), ← Nat.pow_add] at h1
    rw [Nat.le_div_iff_mul_le (Nat.two_pow_pos _), ← Nat.pow_add] at h2
    have h3 : W.log2 < 53 + k := (Nat.log2_lt hW).2 h1
    have h4 : 52 + k ≤ W.log2 := (Nat.le_log2 hW).2 h2
    omega

theorem log2_mono {a b : Nat} (h : a ≤ b) : a.log2 ≤ b.log2 := by
  rcases Nat.eq_zero_or_pos a with rfl | ha
  · simp
  have hb : b ≠ 0 := by omega
  exact (Nat.le_log2 hb).2 (Nat.le_trans (Nat.log2_self_le (by omega)) h)

theorem div_le_div_of_cross {N1 D1 N2 D2 : Nat} (hD1 : 0 < D1) (hD2 : 0 < D2)
    (h : N1 * D2 ≤ N2 * D1) : N1 / D1 ≤ N2 / D2 := by
  rw [Nat.le_div_iff_mul_le hD2]
  have h1 : N1 / D1 * D1 ≤ N1 := Nat.div_mul_le_self N1 D1
  have h2 : N1 / D1 * D2 * D1 ≤ N2 * D1 := by
    calc N1 / D1 * D2 * D1 = N1 / D1 * D1 * D2 := by ring
      _ ≤ N1 * D2 := Nat.mul_le_mul_right _ h1
      _ ≤ N2 * D1 := h
  exact Nat.le_of_mul_le_mul_right h2 hD1

theorem kexp_mono {N1 D1 N2 D2 : Nat} (hD1 : 0 < D1) (hD2 : 0 < D2) (h : N1 * D2 ≤ N2 * D1) :
    kexp N1 D1 ≤ kexp N2 D2 := by
  unfold kexp
  have := log2_mono (div_le_div_of_cross hD1 hD2 h)
  omega

theorem kexp_scale (N D c : Nat) (hc : 0 < c) : kexp (N * c) (D * c) = kexp N D := by
  unfold kexp; rw [Nat.mul_div_mul_right _ _ hc]

/-! ### the rounded magnitude -/

/-- rounded magnitude of `N / D` (units of 2^-1074), exponent unbounded above -/
def rmag (N D : Nat) : Nat := rhe N (D * 2 ^ kexp N D) * 2 ^ kexp N D

/-- representable with unbounded exponent: `m · 2^k`, `m < 2^53` -/
def Rep (R : Nat) : Prop := ∃ m k : Nat, m < 2 ^ 53 ∧ R = m * 2 ^ k

theorem rhe_kexp_le (N D : Nat) : rhe N (D * 2 ^ kexp N D) ≤ 2 ^ 53 := by
  have := (kexp_spec N D).1
  have := rhe_le N (D * 2 ^ kexp N D)
  omega

theorem rmag_rep (N D : Nat) : Rep (rmag N D) := by
  unfold rmag
  rcases Nat.lt_or_ge (rhe N (D * 2 ^ kexp N D)) (2 ^ 53) with h | h
  · exact ⟨_, _, h, rfl⟩
  · have : rhe N (D * 2 ^ kexp N D) = 2 ^ 53 := Nat.le_antisymm (rhe_kexp_le N D) h
    refine ⟨2 ^ 52, kexp N D + 1, by decide, ?_⟩
    rw [this, Nat.pow_succ]; ring

theorem rmag_zero (D : Nat) : rmag 0 D = 0 := by
  unfold rmag rhe; simp

/-- half-ulp error bound: `2·|rmag·D − N| ≤ D·2^k` -/
theorem rmag_err (N D : Nat) (hD : 0 < D) :
    2 * (rmag N D * D) ≤ 2 * N + D * 2 ^ kexp N D ∧ 2 * N ≤ 2 * (rmag N D * D) + D * 2 ^ kexp N D := by
  have h := rhe_err N (D * 2 ^ kexp N D) (Nat.mul_pos hD (Nat.two_pow_pos _))
  have e : rmag N D * D = rhe N (D * 2 ^ kexp N D) * (D * 2 ^ kexp N D) := by unfold rmag; ring
  rw [e]; exact h

/-- in the normal range the ulp is at most `2^-52` of the value: `2^52 · (D·2^k) ≤ N` -/
theorem kexp_pos_le (N D : Nat) (hD : 0 < D) (hk : 0 < kexp N D) : 2 ^ 52 * (D * 2 ^ kexp N D) ≤ N := by
  rcases (kexp_spec N D).2 with h | h
  · omega
  · exact (Nat.le_div_iff_mul_le (Nat.mul_pos hD (Nat.two_pow_pos _))).1 h

/-- **nearest**: no representable magnitude is closer to `N / D` than `rmag N D` -/
theorem rmag_nearest (N D : Nat) (hD : 0 < D) (y : Nat) (hy : Rep y) :
    |((rmag N D * D : Nat) : Int) - N| ≤ |((y * D : Nat) : Int) - N| := by
  obtain ⟨m, j, hm, rfl⟩ := hy
  have hM : 0 < D * 2 ^ kexp N D := Nat.mul_pos hD (Nat.two_pow_pos _)
  have e : rmag N D * D = rhe N (D * 2 ^ kexp N D) * (D * 2 ^ kexp N D) := by unfold rmag; ring
  rw [e]
  rcases Nat.lt_or_ge j (kexp N D) with hj | hj
  · -- the competitor lies below the binade of the value
    have hk : 0 < kexp N D := by omega
    have hq := kexp_pos_le N D hD hk
    have h1 : m * 2 ^ j * D ≤ 2 ^ 52 * (D * 2 ^ kexp N D) := by
      have : 2 ^ (j + 1) ≤ 2 ^ kexp N D := Nat.pow_le_pow_right (by decide) hj
      calc m * 2 ^ j * D ≤ 2 ^ 53 * 2 ^ j * D :=
            Nat.mul_le_mul_right _ (Nat.mul_le_mul_right _ (Nat.le_of_lt hm))
        _ = 2 ^ 52 * (D * 2 ^ (j + 1)) := by rw [Nat.pow_succ]; ring
        _ ≤ 2 ^ 52 * (D * 2 ^ kexp N D) := Nat.mul_le_mul_left _ (Nat.mul_le_mul_left _ this)
    -- compare with the integer 2^52 (a multiple of the ulp, below the value)
    have h2 := rhe_nearest N (D * 2 ^ kexp N D) hM (2 ^ 52)
    have h3 : |((2 ^ 52 * (D * 2 ^ kexp N D) : Nat) : Int) - N| ≤ |((m * 2 ^ j * D : Nat) : Int) - N| := by
      generalize 2 ^ 52 * (D * 2 ^ kexp N D) = a at *
      generalize m * 2 ^ j * D = b at *
      rw [← Int.natCast_natAbs, ← Int.natCast_natAbs]
      omega
    exact le_trans h2 h3
  · have : m * 2 ^ j * D = (m * 2 ^ (j - kexp N D)) * (D * 2 ^ kexp N D) := by
      have : 2 ^ j = 2 ^ (j - kexp N D) * 2 ^ kexp N D := by
        rw [← Nat.pow_add]; congr 1; omega
      rw [this]; ring
    rw [this]
    exact rhe_nearest N _ hM _

/-- depends only on the rational: common factors cancel -/
theorem rmag_scale (N D c : Nat) (hc : 0 < c) : rmag (N * c) (D * c) = rmag N D := by
  unfold rmag
  rw [kexp_scale N D c hc]
  have : D * c * 2 ^ kexp N D = D * 2 ^ kexp N D * c := by ring
  rw [this, rhe_scale _ _ _ hc]

theorem rmag_congr {N1 D1 N2 D2 : Nat} (hD1 : 0 < D1) (hD2 : 0 < D2) (h : N1 * D2 = N2 * D1) :
    rmag N1 D1 = rmag N2 D2 := by
  rw [← rmag_scale N1 D1 D2 hD2, ← rmag_scale N2 D2 D1 hD1, h, Nat.mul_comm D1 D2]

/-- **monotone** -/
theorem rmag_mono {N1 D1 N2 D2 : Nat} (hD1 : 0 < D1) (hD2 : 0 < D2) (h : N1 * D2 ≤ N2 * D1) :
    rmag N1 D1 ≤ rmag N2 D2 := by
  -- common denominator
  rw [← rmag_scale N1 D1 D2 hD2, ← rmag_scale N2 D2 D1 hD1, Nat.mul_comm D2 D1]
  generalize N1 * D2 = A at *
  generalize N2 * D1 = B at *
  have hD : 0 < D1 * D2 := Nat.mul_pos hD1 hD2
  generalize D1 * D2 = D at *
  have hk : kexp A D ≤ kexp B D := kexp_mono hD hD (Nat.mul_le_mul_right _ h)
  rcases Nat.lt_or_ge (kexp A D) (kexp B D) with hlt | hge
  · -- different binades
    have hB : 0 < kexp B D := by omega
    have h1 : 2 ^ 52 ≤ rhe B (D * 2 ^ kexp B D) := by
      rcases (kexp_spec B D).2 with h' | h'
      · omega
      · exact Nat.le_trans h' (rhe_ge _ _)
    unfold rmag
    have : 2 ^ (kexp A D + 1) ≤ 2 ^ kexp B D := Nat.pow_le_pow_right (by decide) hlt
    calc rhe A (D * 2 ^ kexp A D) * 2 ^ kexp A D ≤ 2 ^ 53 * 2 ^ kexp A D :=
          Nat.mul_le_mul_right _ (rhe_kexp_le A D)
      _ = 2 ^ 52 * 2 ^ (kexp A D + 1) := by rw [Nat.pow_succ]; ring
      _ ≤ 2 ^ 52 * 2 ^ kexp B D := Nat.mul_le_mul_left _ this
      _ ≤ rhe B (D * 2 ^ kexp B D) * 2 ^ kexp B D := Nat.mul_le_mul_right _ h1
  · have he : kexp A D = kexp B D := by omega
    unfold rmag
    rw [he]
    exact Nat.mul_le_mul_right _ (rhe_mono A B _ (Nat.mul_pos hD (Nat.two_pow_pos _)) h)

/-- **fixes representables** -/
theorem rmag_fix (R : Nat) (hR : Rep R) : rmag R 1 = R := by
  obtain ⟨m, j, hm, rfl⟩ := hR
  unfold rmag
  rw [Nat.one_mul]
  generalize hk : kexp (m * 2 ^ j) 1 = k
  rcases Nat.eq_zero_or_pos k with rfl | hkpos
  · simp only [Nat.pow_zero, Nat.mul_one]
    have := rhe_exact (m * 2 ^ j) 1 (by decide)
    rwa [Nat.mul_one] at this
  · have hq := kexp_pos_le (m * 2 ^ j) 1 (by decide) (by omega)
    rw [hk, Nat.one_mul] at hq
    -- 2^(52+k) ≤ m·2^j < 2^(53+j)  ⇒  k ≤ j
    have hjk : k ≤ j := by
      by_contra hc
      have hc' : j + 1 ≤ k := by omega
      have : m * 2 ^ j < 2 ^ 52 * 2 ^ k := by
        calc m * 2 ^ j < 2 ^ 53 * 2 ^ j := Nat.mul_lt_mul_of_pos_right hm (Nat.two_pow_pos _)
          _ = 2 ^ 52 * 2 ^ (j + 1) := by rw [Nat.pow_succ]; ring
          _ ≤ 2 ^ 52 * 2 ^ k := Nat.mul_le_mul_left _ (Nat.pow_le_pow_right (by decide) hc')
      omega
    have e : m * 2 ^ j = (m * 2 ^ (j - k)) * 2 ^ k := by
      have : 2 ^ j = 2 ^ (j - k) * 2 ^ k := by rw [← Nat.pow_add]; congr 1; omega
      rw [this]; ring
    rw [e, rhe_exact _ _ (Nat.two_pow_pos _)]

theorem rmag_fix' (R D : Nat) (hD : 0 < D) (hR : Rep R) : rmag (R * D) D = R := by
  have := rmag_scale R 1 D hD
  rw [Nat.one_mul] at this
  rw [this, rmag_fix R hR]

/-- ties-to-even: on an exact tie the chosen significand `rmag / 2^k` is even -/
theorem rmag_tie_even (N D : Nat) (h : 2 * (N % (D * 2 ^ kexp N D)) = D * 2 ^ kexp N D) :
    (rmag N D / 2 ^ kexp N D) % 2 = 0 := by
  unfold rmag
  rw [Nat.mul_div_cancel _ (Nat.two_pow_pos _)]
  exact rhe_tie_even N _ h

/-- positivity: a value of at least half a unit does not round to zero … -/
theorem rmag_pos (N D : Nat) (hD : 0 < D) (h : D < 2 * N) : 0 < rmag N D := by
  have := (rmag_err N D hD).2
  rcases Nat.eq_zero_or_pos (kexp N D) with hk | hk
  · rw [hk, Nat.pow_zero, Nat.mul_one] at this
    rcases Nat.eq_zero_or_pos (rmag N D) with h0 | h0
    · rw [h0] at this; omega
    · exact h0
  · unfold rmag
    rcases (kexp_spec N D).2 with h' | h'
    · omega
    · exact Nat.mul_pos (Nat.lt_of_lt_of_le (by decide) (Nat.le_trans h' (rhe_ge _ _))) (Nat.two_pow_pos _)

/-- relative error in the normal range: `2^53·|rmag·D − N| ≤ N` whenever `N/D ≥ 2^52` units (= 2^-1022) -/
theorem rmag_rel_err (N D : Nat) (hD : 0 < D) (hN : 2 ^ 52 * D ≤ N) :
    2 ^ 53 * (rmag N D * D) ≤ 2 ^ 53 * N + N ∧ 2 ^ 53 * N ≤ 2 ^ 53 * (rmag N D * D) + N := by
  have h := rmag_err N D hD
  have hu : 2 ^ 52 * (D * 2 ^ kexp N D) ≤ N := by
    rcases Nat.eq_zero_or_pos (kexp N D) with hk | hk
    · rw [hk, Nat.pow_zero, Nat.mul_one]; exact hN
    · exact kexp_pos_le N D hD hk
  generalize rmag N D * D = a at *
  generalize D * 2 ^ kexp N D = u at *
  omega

/-- absolute error in the subnormal range: half a unit (`2^-1075`) when `N/D < 2^53` units -/
theorem rmag_abs_err (N D : Nat) (hD : 0 < D) (hN : N < 2 ^ 53 * D) :
    2 * (rmag N D * D) ≤ 2 * N + D ∧ 2 * N ≤ 2 * (rmag N D * D) + D := by
  have hk : kexp N D = 0 := by
    unfold kexp
    have : N / D < 2 ^ 53 := (Nat.div_lt_iff_lt_mul hD).2 hN
    rcases Nat.eq_zero_or_pos (N / D) with h0 | h0
    · rw [h0]; simp
    · have := (Nat.log2_lt (n := N / D) (k := 53) (by omega)).2 this
      omega
  have h := rmag_err N D hD
  rw [hk, Nat.pow_zero, Nat.mul_one] at h
  exact h

end S2Proofs.F64Round
