/-
  S2Proofs.F64Round.Tie — ties go to the even mantissa; uniqueness of the rounded value.

  If a representable `y ≠ rmag N D` is as close to `N/D` as `rmag N D`, then `N/D` is exactly half-way
  between two consecutive multiples of the ulp, and the significand chosen by `rmag` is even.
-/
import S2Proofs.F64Round.Spec

set_option linter.unusedSimpArgs false
set_option linter.unusedVariables false

namespace S2Proofs.F64Round
open S2 S2.Exact S2Proofs.F64Order S2Proofs.F64Sym S2Proofs.F64Inj S2Proofs.Codec

/-- a representable number at or above the bottom of binade `k` is a multiple of `2^k` -/
theorem rep_dvd {y k : Nat} (hy : Rep y) (h : k = 0 ∨ 2 ^ 52 * 2 ^ k ≤ y) : ∃ z, y = z * 2 ^ k := by
  obtain ⟨m, j, hm, rfl⟩ := hy
  rcases h with rfl | h
  · exact ⟨m * 2 ^ j, by simp⟩
  rcases Nat.lt_or_ge j k with hj | hj
  · exfalso
    have : m * 2 ^ j < 2 ^ 52 * 2 ^ k := by
      calc m * 2 ^ j < 2 ^ 53 * 2 ^ j := Nat.mul_lt_mul_of_pos_right hm (Nat.two_pow_pos _)
        _ = 2 ^ 52 * 2 ^ (j + 1) := by rw [Nat.pow_succ]; ring
        _ ≤ 2 ^ 52 * 2 ^ k := Nat.mul_le_mul_left _ (Nat.pow_le_pow_right (by decide) hj)
    omega
  · refine ⟨m * 2 ^ (j - k), ?_⟩
    have : 2 ^ j = 2 ^ (j - k) * 2 ^ k := by rw [← Nat.pow_add]; congr 1; omega
    rw [this]; ring

/-- two different integers `z ≠ ρ` with `|zM − N| = |ρM − N|` and `2|ρM − N| ≤ M` force an exact tie -/
theorem tie_of_equidistant (N M ρ z : Nat) (hne : z ≠ ρ)
    (herr : 2 * (ρ * M) ≤ 2 * N + M ∧ 2 * N ≤ 2 * (ρ * M) + M)
    (heq : ((z * M : Nat) : Int) - N = -(((ρ * M : Nat) : Int) - N) ∨ z * M = ρ * M) :
    2 * (ρ * M) = 2 * N + M ∨ 2 * N = 2 * (ρ * M) + M := by
  rcases Nat.lt_or_ge z ρ with h | h
  · have h1 : (z + 1) * M ≤ ρ * M := Nat.mul_le_mul_right _ h
    rw [Nat.add_mul, Nat.one_mul] at h1
    generalize z * M = b at *
    generalize ρ * M = a at *
    omega
  · have h' : ρ + 1 ≤ z := by omega
    have h1 : (ρ + 1) * M ≤ z * M := Nat.mul_le_mul_right _ h'
    rw [Nat.add_mul, Nat.one_mul] at h1
    generalize z * M = b at *
    generalize ρ * M = a at *
    omega

/-- an exact half-way case in terms of the remainder -/
theorem rhe_tie_rem (N M : Nat) (hM : 0 < M)
    (h : 2 * (rhe N M * M) = 2 * N + M ∨ 2 * N = 2 * (rhe N M * M) + M) : 2 * (N % M) = M := by
  have h1 := Nat.div_add_mod N M
  have h2 := Nat.mod_lt N hM
  unfold rhe at h
  split at h
  · rw [Nat.add_mul, Nat.one_mul, Nat.mul_comm (N / M) M] at h
    generalize M * (N / M) = a at *
    omega
  · rw [Nat.mul_comm (N / M) M] at h
    generalize M * (N / M) = a at *
    omega

/-- **ties**: a second representable at the same distance means an exact tie at the ulp -/
theorem rmag_tie (N D : Nat) (hD : 0 < D) (y : Nat) (hy : Rep y) (hne : y ≠ rmag N D)
    (heq : |((y * D : Nat) : Int) - N| = |((rmag N D * D : Nat) : Int) - N|) :
    2 * (N % (D * 2 ^ kexp N D)) = D * 2 ^ kexp N D := by
  have hM : 0 < D * 2 ^ kexp N D := Nat.mul_pos hD (Nat.two_pow_pos _)
  apply rhe_tie_rem N _ hM
  have herr := rhe_err N (D * 2 ^ kexp N D) hM
  have e : rmag N D * D = rhe N (D * 2 ^ kexp N D) * (D * 2 ^ kexp N D) := by unfold rmag; ring
  rw [e] at heq
  by_cases hlow : kexp N D = 0 ∨ 2 ^ 52 * 2 ^ kexp N D ≤ y
  · obtain ⟨z, hz⟩ := rep_dvd hy hlow
    have hzne : z ≠ rhe N (D * 2 ^ kexp N D) := by
      intro hc; apply hne; rw [hz, hc]; rfl
    have e2 : y * D = z * (D * 2 ^ kexp N D) := by rw [hz]; ring
    rw [e2] at heq
    apply tie_of_equidistant N _ _ z hzne herr
    generalize z * (D * 2 ^ kexp N D) = b at *
    generalize rhe N (D * 2 ^ kexp N D) * (D * 2 ^ kexp N D) = a at *
    rw [← Int.natCast_natAbs, ← Int.natCast_natAbs] at heq
    omega
  · -- y lies below the binade of the value: impossible
    exfalso
    have hk : 0 < kexp N D := by omega
    have hylt : y < 2 ^ 52 * 2 ^ kexp N D := by omega
    have hq := kexp_pos_le N D hD hk
    have hyD : y * D < 2 ^ 52 * (D * 2 ^ kexp N D) := by
      calc y * D < 2 ^ 52 * 2 ^ kexp N D * D := Nat.mul_lt_mul_of_pos_right hylt hD
        _ = 2 ^ 52 * (D * 2 ^ kexp N D) := by ring
    have hρ : 2 ^ 52 ≤ N / (D * 2 ^ kexp N D) := by
      rcases (kexp_spec N D).2 with h' | h'
      · omega
      · exact h'
    have h1 := Nat.div_add_mod N (D * 2 ^ kexp N D)
    have h2 := Nat.mod_lt N hM
    have hqM : 2 ^ 52 * (D * 2 ^ kexp N D) ≤ (N / (D * 2 ^ kexp N D)) * (D * 2 ^ kexp N D) :=
      Nat.mul_le_mul_right _ hρ
    rw [Nat.mul_comm (N / (D * 2 ^ kexp N D))] at hqM
    unfold rhe at heq herr
    generalize D * 2 ^ kexp N D = M at *
    split at heq
    · rename_i hc
      rw [Nat.add_mul, Nat.one_mul, Nat.mul_comm (N / M) M] at heq
      generalize M * (N / M) = a at *
      generalize y * D = b at *
      rw [← Int.natCast_natAbs, ← Int.natCast_natAbs] at heq
      omega
    · rename_i hc
      rw [Nat.mul_comm (N / M) M] at heq
      generalize M * (N / M) = a at *
      generalize y * D = b at *
      rw [← Int.natCast_natAbs, ← Int.natCast_natAbs] at heq
      omega

/-- … and then the chosen significand is even -/
theorem rmag_tie_sig_even (N D : Nat) (hD : 0 < D) (y : Nat) (hy : Rep y) (hne : y ≠ rmag N D)
    (heq : |((y * D : Nat) : Int) - N| = |((rmag N D * D : Nat) : Int) - N|) :
    rhe N (D * 2 ^ kexp N D) % 2 = 0 :=
  rhe_tie_even N _ (rmag_tie N D hD y hy hne heq)

/-! ### the mantissa of a float from its magnitude -/

theorem expField_pred_eq_kexp (x : F64) : x.expField - 1 = kexp (mag x) 1 := by
  apply kexp_unique
  · rw [Nat.one_mul]
    unfold mag
    rw [Nat.mul_div_cancel _ (Nat.two_pow_pos _)]
    exact mant_lt x
  · rw [Nat.one_mul]
    unfold mag
    rw [Nat.mul_div_cancel _ (Nat.two_pow_pos _)]
    by_cases h : x.expField = 0
    · left; omega
    · right
      unfold F64.mant
      have : (x.expField == 0) = false := by simp [h]
      simp only [this, Bool.false_eq_true, if_false]; omega

theorem mant_eq_div (x : F64) : x.mant = mag x / 2 ^ kexp (mag x) 1 := by
  rw [← expField_pred_eq_kexp]
  unfold mag
  rw [Nat.mul_div_cancel _ (Nat.two_pow_pos _)]

/-- the mantissa of the float whose magnitude is `ρ·2^k` with `ρ ≤ 2^53`, (`k = 0` or `ρ ≥ 2^52`) -/
theorem mant_of_sig (x : F64) (ρ k : Nat) (hm : mag x = ρ * 2 ^ k) (h1 : ρ ≤ 2 ^ 53)
    (h2 : k = 0 ∨ 2 ^ 52 ≤ ρ) : x.mant = if ρ = 2 ^ 53 then 2 ^ 52 else ρ := by
  rw [mant_eq_div, hm]
  by_cases hρ : ρ = 2 ^ 53
  · rw [if_pos hρ, hρ]
    have e : (2 : Nat) ^ 53 * 2 ^ k = 2 ^ 52 * 2 ^ (k + 1) := by rw [Nat.pow_succ]; ring
    have hk : k + 1 = kexp (2 ^ 52 * 2 ^ (k + 1)) 1 := by
      apply kexp_unique
      · rw [Nat.one_mul, Nat.mul_div_cancel _ (Nat.two_pow_pos _)]; decide
      · right; rw [Nat.one_mul, Nat.mul_div_cancel _ (Nat.two_pow_pos _)]
    rw [e, ← hk, Nat.mul_div_cancel _ (Nat.two_pow_pos _)]
  · rw [if_neg hρ]
    have hk : k = kexp (ρ * 2 ^ k) 1 := by
      apply kexp_unique
      · rw [Nat.one_mul, Nat.mul_div_cancel _ (Nat.two_pow_pos _)]; omega
      · rw [Nat.one_mul, Nat.mul_div_cancel _ (Nat.two_pow_pos _)]; exact h2
    rw [← hk, Nat.mul_div_cancel _ (Nat.two_pow_pos _)]

theorem tie_signed (a b N s t : Int) (hs : s = 1 ∨ s = -1) (ht : t = 1 ∨ t = -1) (ha : 0 ≤ a)
    (hb : 0 ≤ b) (hN : 0 < N) (h0 : |a - N| ≤ |0 - N|) (hne : t * b ≠ s * a)
    (heq : |t * b - s * N| = |s * a - s * N|) : b ≠ a ∧ |b - N| = |a - N| := by
  rw [← Int.natCast_natAbs, ← Int.natCast_natAbs] at h0 heq ⊢
  rcases hs with rfl | rfl <;> rcases ht with rfl | rfl <;> constructor <;> omega

/-- **ties to even** for `roundNE`: if another finite float (with a different value) is exactly as close
    to `±n/d` as the result, the result has an even mantissa. -/
theorem roundNE_tie_even (neg : Bool) (n d : Nat) (hn : 0 < n) (hd : 0 < d)
    (hf : F64Order.Fin (F64.roundNE neg n d)) (y : F64) (hyne : toInt y ≠ toInt (F64.roundNE neg n d))
    (heq : |toInt y * d - sgnI neg * ((n * 2 ^ 1074 : Nat) : Int)| =
      |toInt (F64.roundNE neg n d) * d - sgnI neg * ((n * 2 ^ 1074 : Nat) : Int)|) :
    (F64.roundNE neg n d).mant % 2 = 0 := by
  have hlt := (roundNE_fin_iff neg n d hn hd).1 hf
  obtain ⟨_, hs, hm⟩ := (roundNE_char neg n d hn hd).1 hlt
  have hti := roundNE_toInt neg n d hn hd hf
  -- a competitor of the opposite sign can only tie if ... it cannot (n > 0), unless both are 0-distance
  have hN : 0 < n * 2 ^ 1074 := Nat.mul_pos hn (Nat.two_pow_pos _)
  rw [hti, toInt_sgn_mag y] at heq
  rw [hti, toInt_sgn_mag y] at hyne
  -- reduce to magnitudes: the competitor must have the same sign as the value (or magnitude 0)
  have key : mag y ≠ rmag (n * 2 ^ 1074) d ∧
      |((mag y * d : Nat) : Int) - (n * 2 ^ 1074 : Nat)| =
        |((rmag (n * 2 ^ 1074) d * d : Nat) : Int) - (n * 2 ^ 1074 : Nat)| := by
    have h0 := rmag_nearest (n * 2 ^ 1074) d hd 0 ⟨0, 0, by decide, by simp⟩
    generalize rmag (n * 2 ^ 1074) d = R at *
    generalize n * 2 ^ 1074 = N at *
    have hdpos : (0 : Int) < d := by exact_mod_cast hd
    have hne' : sgnI y.signBit * ((mag y : Int) * d) ≠ sgnI neg * ((R : Int) * d) := by
      intro hc
      rw [← Int.mul_assoc, ← Int.mul_assoc] at hc
      exact hyne (Int.eq_of_mul_eq_mul_right (by omega) hc)
    rw [Int.mul_assoc, Int.mul_assoc] at heq
    have h0' : |(R : Int) * d - N| ≤ |0 - (N : Int)| := by
      have := h0; push_cast at this; simpa using this
    have := tie_signed ((R : Int) * d) ((mag y : Int) * d) N (sgnI neg) (sgnI y.signBit)
      (by unfold sgnI; cases neg <;> simp) (by unfold sgnI; cases y.signBit <;> simp)
      (Int.mul_nonneg (Int.natCast_nonneg _) (Int.natCast_nonneg _))
      (Int.mul_nonneg (Int.natCast_nonneg _) (Int.natCast_nonneg _)) (by exact_mod_cast hN) h0' hne' heq
    refine ⟨fun hc => this.1 (by rw [hc]), ?_⟩
    push_cast
    exact this.2
  have hev := rmag_tie_sig_even (n * 2 ^ 1074) d hd (mag y) (rep_mag y) key.1 key.2
  have hmant := mant_of_sig (F64.roundNE neg n d) (rhe (n * 2 ^ 1074) (d * 2 ^ kexp (n * 2 ^ 1074) d))
    (kexp (n * 2 ^ 1074) d) (by rw [hm]; rfl) (rhe_kexp_le _ _) (by
      rcases (kexp_spec (n * 2 ^ 1074) d).2 with h | h
      · exact Or.inl h
      · exact Or.inr (Nat.le_trans h (rhe_ge _ _)))
  rw [hmant]
  split
  · decide
  · exact hev

end S2Proofs.F64Round
