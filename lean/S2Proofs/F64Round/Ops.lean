/-
  S2Proofs.F64Round.Ops — `+ − × ÷` (and `math.Remainder`) of the soft-float are "round the exact result".

  Everything is stated through the order embedding `ext : F64 → ℤ` (finite ↦ value·2^1074, ±inf ↦ ±2^2098)
  and the integer rounding function
      `rint s D` = correctly rounded (nearest-even, 53 bits, emin = -1074), overflow-clamped image of the
                   rational `s / D` (in units of 2^-1074),
  so that the zero-sign rules disappear (`ext (+0) = ext (-0) = 0`) and the specs hold for ALL finite operands.
-/
import S2Proofs.F64Round.Spec

set_option linter.unusedSimpArgs false
set_option linter.unusedVariables false

namespace S2Proofs.F64Round
open S2 S2.Exact S2Proofs.F64Order S2Proofs.F64Sym S2Proofs.F64Inj S2Proofs.Codec

/-! ### the integer rounding function -/

/-- magnitude part of `rint` -/
def rclamp (N D : Nat) : Nat := min (rmag N D) (2 ^ 2098)

/-- correctly rounded, overflow-clamped image of `s / D` (units of 2^-1074) on the `ext` scale -/
def rint (s : Int) (D : Nat) : Int := if s < 0 then -(rclamp s.natAbs D : Int) else (rclamp s.natAbs D : Int)

theorem rclamp_mono {N1 D1 N2 D2 : Nat} (hD1 : 0 < D1) (hD2 : 0 < D2) (h : N1 * D2 ≤ N2 * D1) :
    rclamp N1 D1 ≤ rclamp N2 D2 := by
  unfold rclamp
  have := rmag_mono hD1 hD2 h
  omega

theorem rclamp_congr {N1 D1 N2 D2 : Nat} (hD1 : 0 < D1) (hD2 : 0 < D2) (h : N1 * D2 = N2 * D1) :
    rclamp N1 D1 = rclamp N2 D2 := by
  unfold rclamp; rw [rmag_congr hD1 hD2 h]

theorem rclamp_zero (D : Nat) : rclamp 0 D = 0 := by
  unfold rclamp; rw [rmag_zero]; simp

theorem rint_zero (D : Nat) : rint 0 D = 0 := by
  unfold rint; simp [rclamp_zero]

theorem rint_neg (s : Int) (D : Nat) : rint (-s) D = - rint s D := by
  unfold rint
  rw [Int.natAbs_neg]
  rcases lt_trichotomy s 0 with h | rfl | h
  · rw [if_neg (by omega), if_pos h]; omega
  · simp [rclamp_zero]
  · rw [if_pos (by omega), if_neg (by omega)]

/-- **monotone**: `s₁/D₁ ≤ s₂/D₂ → rint s₁ D₁ ≤ rint s₂ D₂` -/
theorem rint_mono {s1 s2 : Int} {D1 D2 : Nat} (hD1 : 0 < D1) (hD2 : 0 < D2) (h : s1 * D2 ≤ s2 * D1) :
    rint s1 D1 ≤ rint s2 D2 := by
  unfold rint
  by_cases h1 : s1 < 0 <;> by_cases h2 : s2 < 0
  · rw [if_pos h1, if_pos h2]
    have e1 : (s1.natAbs : Int) = -s1 := Int.ofNat_natAbs_of_nonpos (by omega)
    have e2 : (s2.natAbs : Int) = -s2 := Int.ofNat_natAbs_of_nonpos (by omega)
    have : s2.natAbs * D1 ≤ s1.natAbs * D2 := by
      have : ((s2.natAbs * D1 : Nat) : Int) ≤ ((s1.natAbs * D2 : Nat) : Int) := by
        push_cast; rw [abs_of_neg h1, abs_of_neg h2]; linarith
      exact_mod_cast this
    have := rclamp_mono hD2 hD1 this
    omega
  · rw [if_pos h1, if_neg h2]; omega
  · exfalso
    have a1 : 0 ≤ s1 * D2 := Int.mul_nonneg (by omega) (Int.natCast_nonneg _)
    have a2 : s2 * D1 < 0 := Int.mul_neg_of_neg_of_pos h2 (by exact_mod_cast hD1)
    omega
  · rw [if_neg h1, if_neg h2]
    have e1 : (s1.natAbs : Int) = s1 := Int.natAbs_of_nonneg (by omega)
    have e2 : (s2.natAbs : Int) = s2 := Int.natAbs_of_nonneg (by omega)
    have : s1.natAbs * D2 ≤ s2.natAbs * D1 := by
      have : ((s1.natAbs * D2 : Nat) : Int) ≤ ((s2.natAbs * D1 : Nat) : Int) := by
        push_cast; rw [abs_of_nonneg (by omega), abs_of_nonneg (by omega)]; exact h
      exact_mod_cast this
    have := rclamp_mono hD1 hD2 this
    omega

/-- depends only on the rational -/
theorem rint_congr {s1 s2 : Int} {D1 D2 : Nat} (hD1 : 0 < D1) (hD2 : 0 < D2) (h : s1 * D2 = s2 * D1) :
    rint s1 D1 = rint s2 D2 :=
  le_antisymm (rint_mono hD1 hD2 (le_of_eq h)) (rint_mono hD2 hD1 (le_of_eq h.symm))

/-- **fixes the finite floats** -/
theorem rint_fix (x : F64) (hx : F64Order.Fin x) (D : Nat) (hD : 0 < D) : rint (toInt x * D) D = toInt x := by
  have hc : rint (toInt x * D) D = rint (toInt x) 1 := rint_congr hD (by decide) (by simp)
  rw [hc]
  unfold rint rclamp
  have hm : (toInt x).natAbs = mag x := by
    rw [toInt_eq_mag]; split <;> simp
  rw [hm, rmag_fix _ (rep_mag x)]
  have := mag_lt x hx
  rw [Nat.min_eq_left (by omega)]
  rw [toInt_eq_mag]
  cases hs : x.signBit
  · simp
  · simp only [if_true]
    by_cases h0 : mag x = 0
    · simp [h0]
    · rw [if_pos (by omega)]

theorem rint_bounds (s : Int) (D : Nat) : -(2 ^ 2098) ≤ rint s D ∧ rint s D ≤ 2 ^ 2098 := by
  unfold rint rclamp
  have : min (rmag s.natAbs D) (2 ^ 2098) ≤ 2 ^ 2098 := Nat.min_le_right _ _
  split <;> omega

/-- sign is preserved (weakly) -/
theorem rint_nonneg {s : Int} (D : Nat) (h : 0 ≤ s) : 0 ≤ rint s D := by
  unfold rint; rw [if_neg (by omega)]; omega

theorem rint_nonpos {s : Int} (D : Nat) (h : s ≤ 0) : rint s D ≤ 0 := by
  unfold rint
  by_cases h0 : s < 0
  · rw [if_pos h0]; omega
  · have : s = 0 := by omega
    subst this; simp [rclamp_zero]

/-! ### `roundNE`, `roundDyadic` on the `ext` scale -/

theorem sgnI_mul_natAbs (s : Int) : sgnI (decide (s < 0)) * (s.natAbs : Int) = s := by
  unfold sgnI
  by_cases h : s < 0
  · simp only [h, decide_true, if_true]; omega
  · simp only [h, decide_false, Bool.false_eq_true, if_false]; omega

theorem ext_roundNE (neg : Bool) (n d : Nat) (hd : 0 < d) :
    ext (F64.roundNE neg n d) = rint (sgnI neg * ((n * 2 ^ 1074 : Nat) : Int)) d := by
  rcases Nat.eq_zero_or_pos n with rfl | hn
  · rw [roundNE_zero]
    simp only [Nat.zero_mul, Int.natCast_zero, Int.mul_zero, rint_zero]
    cases neg <;> decide
  have hN : 0 < n * 2 ^ 1074 := Nat.mul_pos hn (Nat.two_pow_pos _)
  have h := roundNE_char neg n d hn hd
  unfold rint rclamp
  generalize n * 2 ^ 1074 = N at *
  have hab : (sgnI neg * (N : Int)).natAbs = N := by
    unfold sgnI; cases neg <;> simp
  rw [hab]
  rcases Nat.lt_or_ge (rmag N d) (2 ^ 2098) with hlt | hge
  · obtain ⟨hf, hs, hm⟩ := h.1 hlt
    rw [ext_finite hf, toInt_of_mag hs hm, Nat.min_eq_left (by omega)]
    unfold sgnI
    cases neg
    · simp only [Bool.false_eq_true, if_false]
      rw [if_neg (by omega)]; omega
    · simp only [if_true]
      rw [if_pos (by omega)]; omega
  · rw [h.2 hge, ext_inf, Nat.min_eq_right hge]
    unfold sgnI
    cases neg
    · simp only [Bool.false_eq_true, if_false]
      rw [if_neg (by omega)]; omega
    · simp only [if_true]
      rw [if_pos (by omega)]; omega

theorem ext_roundDyadic (neg : Bool) (m : Nat) (e : Int) :
    ext (F64.roundDyadic neg m e) = rint (sgnI neg * (dyN m e : Int)) (dyD e) := by
  unfold F64.roundDyadic dyN dyD
  split
  · rename_i h
    have : (-e).toNat = 0 := by omega
    rw [this, Nat.pow_zero]
    exact ext_roundNE neg _ 1 (by decide)
  · rename_i h
    have : e.toNat = 0 := by omega
    rw [this, Nat.pow_zero, Nat.mul_one]
    exact ext_roundNE neg m _ (Nat.two_pow_pos _)

/-- for `e ≥ -1074` the dyadic `±m·2^e` is the integer `±m·2^(e+1074)` -/
theorem ext_roundDyadic_units (neg : Bool) (m : Nat) (e : Int) (he : -1074 ≤ e) :
    ext (F64.roundDyadic neg m e) = rint (sgnI neg * ((m * 2 ^ (e + 1074).toNat : Nat) : Int)) 1 := by
  rw [ext_roundDyadic]
  apply rint_congr (Nat.two_pow_pos _) (by decide)
  unfold dyN
  try unfold dyD
  have key : m * 2 ^ e.toNat * 2 ^ 1074 * 1 = m * 2 ^ (e + 1074).toNat * 2 ^ (-e).toNat := by
    rw [Nat.mul_one]
    by_cases h : 0 ≤ e
    · have h1 : (-e).toNat = 0 := by omega
      have h2 : (e + 1074).toNat = e.toNat + 1074 := by omega
      rw [h1, h2, Nat.pow_zero, Nat.mul_one, Nat.pow_add, Nat.mul_assoc]
    · have h1 : e.toNat = 0 := by omega
      have h2 : 1074 = (e + 1074).toNat + (-e).toNat := by omega
      rw [h1, Nat.pow_zero, Nat.mul_one]
      conv => lhs; rw [h2]
      rw [Nat.pow_add, Nat.mul_assoc]
  rw [Int.mul_assoc, Int.mul_assoc, ← Int.natCast_mul, ← Int.natCast_mul, key]

/-! ### the operands -/

theorem toInt_mant (x : F64) :
    toInt x = sgnI x.signBit * ((x.mant * 2 ^ (x.expo + 1074).toNat : Nat) : Int) := by
  unfold toInt F64.toIntAt sgnI
  have : (x.expo - -1074) = x.expo + 1074 := by omega
  rw [this]
  cases x.signBit <;> simp

theorem toInt_isZero {x : F64} (h : x.isZero = true) : toInt x = 0 := by
  unfold F64.isZero at h
  simp only [Bool.and_eq_true, beq_iff_eq] at h
  rw [toInt_mant]
  unfold F64.mant
  simp [h.1, h.2]

theorem toInt_scale' (x : F64) (e : Int) (he : e ≤ x.expo) (he' : -1074 ≤ e) :
    toInt x = x.toIntAt e * ((2 ^ (e + 1074).toNat : Nat) : Int) := by
  unfold toInt; rw [toIntAt_scale x e he he']; push_cast; rfl

/-! ### addition and subtraction -/

theorem add_not_nan {x y : F64} (hx : F64Order.Fin x) (hy : F64Order.Fin y) : (F64.add x y).isNaN = false := by
  unfold F64.add
  simp only [isNaN_false hx, isNaN_false hy, isInf_false hx, isInf_false hy, Bool.or_self,
    Bool.false_eq_true, if_false]
  split
  · cases (x.signBit && y.signBit) <;> decide
  · split
    · decide
    · exact roundDyadic_not_nan _ _ _

/-- **`add_spec`**: the sum of two finite floats is the exact sum, rounded once -/
theorem ext_add {x y : F64} (hx : F64Order.Fin x) (hy : F64Order.Fin y) :
    ext (F64.add x y) = rint (toInt x + toInt y) 1 := by
  unfold F64.add
  simp only [isNaN_false hx, isNaN_false hy, isInf_false hx, isInf_false hy, Bool.or_self,
    Bool.false_eq_true, if_false]
  split
  · rename_i hz
    simp only [Bool.and_eq_true] at hz
    rw [toInt_isZero hz.1, toInt_isZero hz.2]
    simp only [Int.add_zero, rint_zero]
    cases (x.signBit && y.signBit) <;> decide
  · have e1 := expo_ge x
    have e2 := expo_ge y
    have hmin1 : min x.expo y.expo ≤ x.expo := min_le_left _ _
    have hmin2 : min x.expo y.expo ≤ y.expo := min_le_right _ _
    have hmin3 : -1074 ≤ min x.expo y.expo := le_min e1 e2
    rw [toInt_scale' x _ hmin1 hmin3, toInt_scale' y _ hmin2 hmin3, ← Int.add_mul]
    generalize x.toIntAt (min x.expo y.expo) + y.toIntAt (min x.expo y.expo) = s
    generalize min x.expo y.expo = e at *
    split
    · rename_i hs
      have : s = 0 := by simpa using hs
      subst this
      simp only [Int.zero_mul, rint_zero]
      decide
    · rw [ext_roundDyadic_units _ _ _ hmin3]
      congr 1
      rw [Int.natCast_mul, ← Int.mul_assoc, sgnI_mul_natAbs]

theorem sub_not_nan {x y : F64} (hx : F64Order.Fin x) (hy : F64Order.Fin y) : (F64.sub x y).isNaN = false :=
  add_not_nan hx ((isFinite_neg y).2 hy)

/-- **`sub_spec`** -/
theorem ext_sub {x y : F64} (hx : F64Order.Fin x) (hy : F64Order.Fin y) :
    ext (F64.sub x y) = rint (toInt x - toInt y) 1 := by
  unfold F64.sub
  rw [ext_add hx ((isFinite_neg y).2 hy), toInt_neg, Int.sub_eq_add_neg]

/-! ### multiplication -/

theorem sgnI_bne (a b : Bool) : sgnI (a != b) = sgnI a * sgnI b := by
  unfold sgnI; cases a <;> cases b <;> decide

theorem mul_not_nan {x y : F64} (hx : F64Order.Fin x) (hy : F64Order.Fin y) : (F64.mul x y).isNaN = false := by
  unfold F64.mul
  simp only [isNaN_false hx, isNaN_false hy, isInf_false hx, isInf_false hy, Bool.or_self,
    Bool.false_eq_true, if_false]
  split
  · cases (x.signBit != y.signBit) <;> decide
  · exact roundDyadic_not_nan _ _ _

/-- **`mul_spec`**: `ext (x·y) = rint (toInt x · toInt y) 2^1074` (the exact product is
    `toInt x · toInt y / 2^1074` units) -/
theorem ext_mul {x y : F64} (hx : F64Order.Fin x) (hy : F64Order.Fin y) :
    ext (F64.mul x y) = rint (toInt x * toInt y) (2 ^ 1074) := by
  unfold F64.mul
  simp only [isNaN_false hx, isNaN_false hy, isInf_false hx, isInf_false hy, Bool.or_self,
    Bool.false_eq_true, if_false]
  split
  · rename_i hz
    have : toInt x * toInt y = 0 := by
      have hz' : x.isZero = true ∨ y.isZero = true := by simpa using hz
      rcases hz' with h | h
      · rw [toInt_isZero h]; simp
      · rw [toInt_isZero h]; simp
    rw [this, rint_zero]
    cases (x.signBit != y.signBit) <;> decide
  · rw [ext_roundDyadic]
    apply rint_congr (Nat.two_pow_pos _) (Nat.two_pow_pos _)
    rw [toInt_mant x, toInt_mant y, sgnI_bne]
    have e1 := expo_ge x
    have e2 := expo_ge y
    unfold dyN
    try unfold dyD
    generalize x.expo = ex at *
    generalize y.expo = ey at *
    generalize x.mant = mx
    generalize y.mant = my
    generalize sgnI x.signBit = sx
    generalize sgnI y.signBit = sy
    have key : mx * my * 2 ^ (ex + ey).toNat * 2 ^ 1074 * 2 ^ 1074 =
        (mx * 2 ^ (ex + 1074).toNat) * (my * 2 ^ (ey + 1074).toNat) * 2 ^ (-(ex + ey)).toNat := by
      have hexp : (ex + ey).toNat + 1074 + 1074 = (ex + 1074).toNat + (ey + 1074).toNat + (-(ex + ey)).toNat := by
        omega
      calc mx * my * 2 ^ (ex + ey).toNat * 2 ^ 1074 * 2 ^ 1074
          = mx * my * 2 ^ ((ex + ey).toNat + 1074 + 1074) := by rw [Nat.pow_add, Nat.pow_add]; ring
        _ = mx * my * 2 ^ ((ex + 1074).toNat + (ey + 1074).toNat + (-(ex + ey)).toNat) := by rw [hexp]
        _ = _ := by rw [Nat.pow_add, Nat.pow_add]; ring
    have key' : ((mx * my * 2 ^ (ex + ey).toNat * 2 ^ 1074 : Nat) : Int) * ((2 ^ 1074 : Nat) : Int) =
        ((mx * 2 ^ (ex + 1074).toNat : Nat) : Int) * ((my * 2 ^ (ey + 1074).toNat : Nat) : Int) *
          ((2 ^ (-(ex + ey)).toNat : Nat) : Int) := by
      rw [← Int.natCast_mul, ← Int.natCast_mul, ← Int.natCast_mul, key]
    generalize ((mx * my * 2 ^ (ex + ey).toNat * 2 ^ 1074 : Nat) : Int) = A at *
    generalize ((2 ^ 1074 : Nat) : Int) = T at *
    generalize ((mx * 2 ^ (ex + 1074).toNat : Nat) : Int) = B at *
    generalize ((my * 2 ^ (ey + 1074).toNat : Nat) : Int) = C at *
    generalize ((2 ^ (-(ex + ey)).toNat : Nat) : Int) = Dd at *
    calc sx * sy * A * T = sx * sy * (A * T) := by ring
      _ = sx * sy * (B * C * Dd) := by rw [key']
      _ = _ := by ring

/-! ### division -/

theorem mant_pos_of_not_zero {y : F64} (hy0 : y.isZero = false) : 0 < y.mant := by
  unfold F64.isZero at hy0
  unfold F64.mant
  by_cases h : y.expField = 0
  · simp only [h, beq_self_eq_true, Bool.true_and, beq_eq_false_iff_ne, ne_eq] at hy0
    simp only [h, beq_self_eq_true, if_true]; omega
  · have : (y.expField == 0) = false := by simp [h]
    simp only [this, Bool.false_eq_true, if_false]; omega

theorem mag_eq_mant (y : F64) : mag y = y.mant * 2 ^ (y.expo + 1074).toNat := by
  unfold mag
  congr 2
  unfold F64.expo
  by_cases h : y.expField = 0
  · simp [h]
  · have : (y.expField == 0) = false := by simp [h]
    simp only [this]; simp; omega

theorem mag_pos_of_not_zero {y : F64} (hy0 : y.isZero = false) : 0 < mag y := by
  rw [mag_eq_mant]; exact Nat.mul_pos (mant_pos_of_not_zero hy0) (Nat.two_pow_pos _)

theorem div_not_nan {x y : F64} (hx : F64Order.Fin x) (hy : F64Order.Fin y) (hy0 : y.isZero = false) :
    (F64.div x y).isNaN = false := by
  unfold F64.div
  simp only [isNaN_false hx, isNaN_false hy, isInf_false hx, isInf_false hy, hy0, Bool.or_self,
    Bool.false_eq_true, if_false]
  split
  · cases (x.signBit != y.signBit) <;> decide
  · split
    · exact roundNE_not_nan _ _ _ (mant_pos_of_not_zero hy0)
    · exact roundNE_not_nan _ _ _ (Nat.mul_pos (mant_pos_of_not_zero hy0) (Nat.two_pow_pos _))

/-- **`div_spec`**: `x / y` is the exact quotient `toInt x · 2^1074 / toInt y` (units) rounded once;
    the sign of `y` is moved to the numerator so that the denominator is the natural number `mag y`. -/
theorem ext_div {x y : F64} (hx : F64Order.Fin x) (hy : F64Order.Fin y) (hy0 : y.isZero = false) :
    ext (F64.div x y) = rint (sgnI y.signBit * toInt x * ((2 ^ 1074 : Nat) : Int)) (mag y) := by
  have hmy := mant_pos_of_not_zero hy0
  have hmag := mag_pos_of_not_zero hy0
  unfold F64.div
  simp only [isNaN_false hx, isNaN_false hy, isInf_false hx, isInf_false hy, hy0, Bool.or_self,
    Bool.false_eq_true, if_false]
  split
  · rename_i hz
    rw [toInt_isZero hz]
    simp only [Int.mul_zero, Int.zero_mul, rint_zero]
    cases (x.signBit != y.signBit) <;> decide
  · have e1 := expo_ge x
    have e2 := expo_ge y
    rw [toInt_mant x, mag_eq_mant y]
    have hsg := sgnI_bne x.signBit y.signBit
    generalize (x.signBit != y.signBit) = sg at *
    generalize x.expo = ex at *
    generalize y.expo = ey at *
    generalize x.mant = mx
    generalize y.mant = my at *
    generalize sgnI x.signBit = sx at *
    generalize sgnI y.signBit = sy at *
    split
    · rename_i he
      rw [ext_roundNE _ _ _ hmy, hsg]
      apply rint_congr hmy (Nat.mul_pos hmy (Nat.two_pow_pos _))
      have key : mx * 2 ^ (ex - ey).toNat * 2 ^ 1074 * (my * 2 ^ (ey + 1074).toNat) =
          mx * 2 ^ (ex + 1074).toNat * 2 ^ 1074 * my := by
        have hexp : (ex + 1074).toNat = (ex - ey).toNat + (ey + 1074).toNat := by omega
        rw [hexp, Nat.pow_add]; ring
      have key' : ((mx * 2 ^ (ex - ey).toNat * 2 ^ 1074 : Nat) : Int) * ((my * 2 ^ (ey + 1074).toNat : Nat) : Int) =
          ((mx * 2 ^ (ex + 1074).toNat : Nat) : Int) * ((2 ^ 1074 : Nat) : Int) * (my : Int) := by
        rw [← Int.natCast_mul, ← Int.natCast_mul, ← Int.natCast_mul, key]
      generalize ((mx * 2 ^ (ex - ey).toNat * 2 ^ 1074 : Nat) : Int) = A at *
      generalize ((my * 2 ^ (ey + 1074).toNat : Nat) : Int) = B at *
      generalize ((mx * 2 ^ (ex + 1074).toNat : Nat) : Int) = C at *
      generalize ((2 ^ 1074 : Nat) : Int) = T at *
      calc sx * sy * A * B = sx * sy * (A * B) := by ring
        _ = sx * sy * (C * T * my) := by rw [key']
        _ = _ := by ring
    · rename_i he
      have hd : 0 < my * 2 ^ (-(ex - ey)).toNat := Nat.mul_pos hmy (Nat.two_pow_pos _)
      rw [ext_roundNE _ _ _ hd, hsg]
      apply rint_congr hd (Nat.mul_pos hmy (Nat.two_pow_pos _))
      have key : mx * 2 ^ 1074 * (my * 2 ^ (ey + 1074).toNat) =
          mx * 2 ^ (ex + 1074).toNat * 2 ^ 1074 * (my * 2 ^ (-(ex - ey)).toNat) := by
        have hexp : (ey + 1074).toNat = (ex + 1074).toNat + (-(ex - ey)).toNat := by omega
        rw [hexp, Nat.pow_add]; ring
      have key' : ((mx * 2 ^ 1074 : Nat) : Int) * ((my * 2 ^ (ey + 1074).toNat : Nat) : Int) =
          ((mx * 2 ^ (ex + 1074).toNat : Nat) : Int) * ((2 ^ 1074 : Nat) : Int) *
            ((my * 2 ^ (-(ex - ey)).toNat : Nat) : Int) := by
        rw [← Int.natCast_mul, ← Int.natCast_mul, ← Int.natCast_mul, key]
      generalize ((mx * 2 ^ 1074 : Nat) : Int) = A at *
      generalize ((my * 2 ^ (ey + 1074).toNat : Nat) : Int) = B at *
      generalize ((mx * 2 ^ (ex + 1074).toNat : Nat) : Int) = C at *
      generalize ((2 ^ 1074 : Nat) : Int) = T at *
      generalize ((my * 2 ^ (-(ex - ey)).toNat : Nat) : Int) = E at *
      calc sx * sy * A * B = sx * sy * (A * B) := by ring
        _ = sx * sy * (C * T * E) := by rw [key']
        _ = _ := by ring

/-! ### `math.Remainder` -/

theorem remainder_not_nan {x y : F64} (hx : F64Order.Fin x) (hy : F64Order.Fin y) (hy0 : y.isZero = false) :
    (F64.remainder x y).isNaN = false := by
  unfold F64.remainder
  simp only [isNaN_false hx, isNaN_false hy, isInf_false hx, isInf_false hy, hy0, Bool.or_self,
    Bool.false_eq_true, if_false]
  split
  · exact isNaN_false hx
  · split
    · cases x.signBit <;> decide
    · exact roundDyadic_not_nan _ _ _

/-- **`remainder_spec`**: `math.Remainder(x, y)` is `x − n·|y|` for an integer `n` with `|x − n·|y|| ≤ |y|/2`,
    rounded once (the rounding is in fact exact, which is not needed for the range facts). -/
theorem ext_remainder {x y : F64} (hx : F64Order.Fin x) (hy : F64Order.Fin y) (hy0 : y.isZero = false) :
    ∃ n : Int, ext (F64.remainder x y) = rint (toInt x - n * (mag y : Int)) 1 ∧
      2 * (toInt x - n * (mag y : Int)) ≤ mag y ∧ -(mag y : Int) ≤ 2 * (toInt x - n * (mag y : Int)) := by
  have hmag := mag_pos_of_not_zero hy0
  unfold F64.remainder
  simp only [isNaN_false hx, isNaN_false hy, isInf_false hx, isInf_false hy, hy0, Bool.or_self,
    Bool.false_eq_true, if_false]
  split
  · rename_i hz
    refine ⟨0, ?_, ?_, ?_⟩
    · rw [ext_finite hx, toInt_isZero hz]; simp [rint_zero]
    · rw [toInt_isZero hz]; omega
    · rw [toInt_isZero hz]; omega
  · have e1 := expo_ge x
    have e2 := expo_ge y
    have hmin1 : min x.expo y.expo ≤ x.expo := min_le_left _ _
    have hmin2 : min x.expo y.expo ≤ y.expo := min_le_right _ _
    have hmin3 : -1074 ≤ min x.expo y.expo := le_min e1 e2
    have hy' : (mag y : Int) = ((y.toIntAt (min x.expo y.expo)).natAbs : Int) *
        ((2 ^ (min x.expo y.expo + 1074).toNat : Nat) : Int) := by
      have h1 : (mag y : Int) = ((toInt y).natAbs : Int) := by
        rw [toInt_eq_mag]; split <;> simp
      rw [h1, toInt_scale' y _ hmin2 hmin3, Int.natAbs_mul, Int.natCast_mul, Int.natAbs_natCast]
    rw [toInt_scale' x _ hmin1 hmin3, hy']
    have hY : 0 < ((y.toIntAt (min x.expo y.expo)).natAbs : Int) := by
      by_contra hc
      have : ((y.toIntAt (min x.expo y.expo)).natAbs : Int) = 0 := by omega
      rw [this, Int.zero_mul] at hy'
      omega
    generalize x.toIntAt (min x.expo y.expo) = X at *
    generalize ((y.toIntAt (min x.expo y.expo)).natAbs : Int) = Y at *
    generalize hK : ((2 ^ (min x.expo y.expo + 1074).toNat : Nat) : Int) = K at *
    have hKpos : 0 < K := by rw [← hK]; exact_mod_cast Nat.two_pow_pos _
    generalize min x.expo y.expo = e at *
    obtain ⟨b1, b2⟩ := roundDivHalfEven_bound X Y hY
    refine ⟨F64.roundDivHalfEven X Y, ?_, ?_, ?_⟩
    · have hr : X * K - F64.roundDivHalfEven X Y * (Y * K) = (X - F64.roundDivHalfEven X Y * Y) * K := by ring
      rw [hr]
      generalize X - F64.roundDivHalfEven X Y * Y = r at *
      split
      · rename_i h0
        have : r = 0 := by simpa using h0
        subst this
        simp only [Int.zero_mul, rint_zero]
        cases x.signBit <;> decide
      · rw [ext_roundDyadic_units _ _ _ hmin3]
        congr 1
        rw [Int.natCast_mul, ← Int.mul_assoc, sgnI_mul_natAbs, hK]
    · have hr : X * K - F64.roundDivHalfEven X Y * (Y * K) = (X - F64.roundDivHalfEven X Y * Y) * K := by ring
      rw [hr]
      generalize X - F64.roundDivHalfEven X Y * Y = r at *
      nlinarith
    · have hr : X * K - F64.roundDivHalfEven X Y * (Y * K) = (X - F64.roundDivHalfEven X Y * Y) * K := by ring
      rw [hr]
      generalize X - F64.roundDivHalfEven X Y * Y = r at *
      nlinarith

end S2Proofs.F64Round
