/-
  The cube-box incidence predicate used in the C01 theorems (`S2Proofs.cubeBox`, `S2Proofs.boxMeet`) is the same
  function as the oracle's neighbour judge (`Oracle.C01.cubeBox`, `Oracle.C01.boxMeet`).
-/
import S2Proofs.CubeAdj
import Oracle.C01
namespace S2Proofs.C01W

theorem cubeBox_eq_oracle (ci : S2.CellID) : cubeBox ci = Oracle.C01.cubeBox ci := rfl

theorem boxMeet_eq_oracle (a b : Box) : boxMeet a b = Oracle.C01.boxMeet a b := rfl

end S2Proofs.C01W
