/-
  S2Proofs.F64Sym2 — sign symmetry of the soft-float `S2.F64` on ALL bit patterns (finite, ±0, ±Inf, NaN),
  packaged as a small calculus of three relations:

    `Z x y`   x and y are the same float up to the SIGN OF A ZERO and the PAYLOAD/SIGN OF A NaN
    `N x y`   the same float up to the payload/sign of a NaN only
    `R x y`   x is the negation of y up to the sign of a zero / the payload of a NaN   (`Z x (neg y)`)

  Facts (no finiteness hypotheses):
    * `+ − × √` respect `Z`;  `+ − × ÷ √` map `N`-related operands to IDENTICAL bits (every operation returns the one NaN
      pattern `F64.nan` of the model);  the comparisons `< ≤ == …` do not see `Z`;
    * negation: `(−a)·b ~ −(a·b)`, `(−a)+(−b) ~ −(a+b)`, `b−a ~ −(a−b)`  (`~` = `Z`; an exact cancellation gives `+0` in both
      directions, which is why the relation has to forget the sign of zeros);
    * `|x|` and `x·x` forget `R`;  `a+b = b+a` bit for bit on all patterns;
    * `1·x ~ x`, `x + (+0) ~ x`.
-/
import Mathlib.Tactic.SplitIfs
import S2Proofs.F64Sym
import S2Proofs.F64Inj
import S2Proofs.F64Round
import S2Proofs.EdgeNumLemmas

set_option linter.unusedSimpArgs false
set_option linter.unusedVariables false

namespace S2Proofs.F64Sym2
open S2 S2.Exact S2Proofs.F64Order S2Proofs.F64Sym S2Proofs.F64Inj

/-! ### canonical forms and the three relations -/

/-- canonical form: one NaN, one zero -/
def cz (x : F64) : F64 := if x.isNaN then F64.nan else if x.isZero then F64.zero false else x
/-- canonical form: one NaN -/
def nz (x : F64) : F64 := if x.isNaN then F64.nan else x

/-- equal up to the sign of a zero and the payload of a NaN -/
def Z (x y : F64) : Prop := cz x = cz y
/-- equal up to the payload of a NaN -/
def N (x y : F64) : Prop := nz x = nz y
/-- `x` is `−y` up to the sign of a zero and the payload of a NaN -/
def R (x y : F64) : Prop := Z x (F64.neg y)

instance (x y : F64) : Decidable (Z x y) := by unfold Z; infer_instance
instance (x y : F64) : Decidable (N x y) := by unfold N; infer_instance
instance (x y : F64) : Decidable (R x y) := by unfold R; infer_instance

theorem Z.refl (x : F64) : Z x x := rfl
theorem Z.symm {x y : F64} (h : Z x y) : Z y x := Eq.symm h
theorem Z.trans {x y z : F64} (h : Z x y) (h' : Z y z) : Z x z := Eq.trans h h'
theorem N.refl (x : F64) : N x x := rfl
theorem N.symm {x y : F64} (h : N x y) : N y x := Eq.symm h
theorem N.trans {x y z : F64} (h : N x y) (h' : N y z) : N x z := Eq.trans h h'
theorem Z.of_eq {x y : F64} (h : x = y) : Z x y := by rw [h]; exact Z.refl _
theorem N.of_eq {x y : F64} (h : x = y) : N x y := by rw [h]; exact N.refl _

/-! ### field facts of zeros, NaNs, infinities -/

theorem zero_nan {x : F64} (h : x.isZero = true) : x.isNaN = false := by
  simp only [F64.isZero, Bool.and_eq_true, beq_iff_eq] at h
  simp [F64.isNaN, h.1]
theorem zero_inf {x : F64} (h : x.isZero = true) : x.isInf = false := by
  simp only [F64.isZero, Bool.and_eq_true, beq_iff_eq] at h
  simp [F64.isInf, h.1]
theorem zero_expo {x : F64} (h : x.isZero = true) : x.expo = -1074 := by
  simp only [F64.isZero, Bool.and_eq_true, beq_iff_eq] at h
  simp [F64.expo, h.1]
theorem zero_mant {x : F64} (h : x.isZero = true) : x.mant = 0 := by
  simp only [F64.isZero, Bool.and_eq_true, beq_iff_eq] at h
  simp [F64.mant, h.1, h.2]
theorem zero_toIntAt {x : F64} (h : x.isZero = true) (e : Int) : x.toIntAt e = 0 := by
  unfold F64.toIntAt; rw [zero_mant h]; simp
theorem nan_not_zero {x : F64} (h : x.isNaN = true) : x.isZero = false := by
  cases hz : x.isZero
  · rfl
  · rw [zero_nan hz] at h; cases h
theorem nan_not_inf {x : F64} (h : x.isNaN = true) : x.isInf = false := by
  simp only [F64.isNaN, Bool.and_eq_true, beq_iff_eq, bne_iff_ne] at h
  simp [F64.isInf, h.1, h.2]
theorem inf_not_zero {x : F64} (h : x.isInf = true) : x.isZero = false := by
  cases hz : x.isZero
  · rfl
  · rw [zero_inf hz] at h; cases h
theorem inf_not_nan {x : F64} (h : x.isInf = true) : x.isNaN = false := by
  cases hz : x.isNaN
  · rfl
  · rw [nan_not_inf hz] at h; cases h
theorem isNaN_nan : F64.nan.isNaN = true := by decide
theorem isZero_zero (s : Bool) : (F64.zero s).isZero = true := by cases s <;> decide
theorem isNaN_zero (s : Bool) : (F64.zero s).isNaN = false := by cases s <;> decide
theorem isNaN_inf (s : Bool) : (F64.inf s).isNaN = false := by cases s <;> decide
theorem isInf_inf (s : Bool) : (F64.inf s).isInf = true := by cases s <;> decide
theorem isZero_inf (s : Bool) : (F64.inf s).isZero = false := by cases s <;> decide
theorem signBit_inf (s : Bool) : (F64.inf s).signBit = s := by cases s <;> decide
theorem signBit_zero (s : Bool) : (F64.zero s).signBit = s := by cases s <;> decide

/-- a zero is determined by its sign -/
theorem eq_zero_of_isZero {x : F64} (h : x.isZero = true) : x = F64.zero x.signBit := by
  have h' := h
  simp only [F64.isZero, Bool.and_eq_true, beq_iff_eq] at h'
  have hz := isZero_zero x.signBit
  simp only [F64.isZero, Bool.and_eq_true, beq_iff_eq] at hz
  exact bits_eq_of_fields (signBit_zero _).symm (by rw [h'.1, hz.1]) (by rw [h'.2, hz.2])

/-- an infinity is determined by its sign -/
theorem eq_inf_of_isInf {x : F64} (h : x.isInf = true) : x = F64.inf x.signBit := by
  have h' := h
  simp only [F64.isInf, Bool.and_eq_true, beq_iff_eq] at h'
  have hz := isInf_inf x.signBit
  simp only [F64.isInf, Bool.and_eq_true, beq_iff_eq] at hz
  exact bits_eq_of_fields (signBit_inf _).symm (by rw [h'.1, hz.1]) (by rw [h'.2, hz.2])

/-! ### characterisations -/

theorem cz_nan {x : F64} (h : x.isNaN = true) : cz x = F64.nan := by simp [cz, h]
theorem cz_zero {x : F64} (h : x.isZero = true) : cz x = F64.zero false := by simp [cz, h, zero_nan h]
theorem cz_other {x : F64} (h1 : x.isNaN = false) (h2 : x.isZero = false) : cz x = x := by simp [cz, h1, h2]
theorem nz_nan {x : F64} (h : x.isNaN = true) : nz x = F64.nan := by simp [nz, h]
theorem nz_other {x : F64} (h1 : x.isNaN = false) : nz x = x := by simp [nz, h1]

theorem Z_of_zero {x y : F64} (hx : x.isZero = true) (hy : y.isZero = true) : Z x y := by
  unfold Z; rw [cz_zero hx, cz_zero hy]
theorem Z_of_nan {x y : F64} (hx : x.isNaN = true) (hy : y.isNaN = true) : Z x y := by
  unfold Z; rw [cz_nan hx, cz_nan hy]
theorem N_of_nan {x y : F64} (hx : x.isNaN = true) (hy : y.isNaN = true) : N x y := by
  unfold N; rw [nz_nan hx, nz_nan hy]

theorem Z_iff {x y : F64} : Z x y ↔ x = y ∨ (x.isZero = true ∧ y.isZero = true) ∨ (x.isNaN = true ∧ y.isNaN = true) := by
  constructor
  · intro h
    unfold Z at h
    by_cases hxn : x.isNaN = true
    · by_cases hyn : y.isNaN = true
      · exact Or.inr (Or.inr ⟨hxn, hyn⟩)
      · exfalso
        have hyn' : y.isNaN = false := by simpa using hyn
        rw [cz_nan hxn] at h
        by_cases hyz : y.isZero = true
        · rw [cz_zero hyz] at h; revert h; decide
        · rw [cz_other hyn' (by simpa using hyz)] at h
          rw [← h] at hyn'; revert hyn'; decide
    · have hxn' : x.isNaN = false := by simpa using hxn
      by_cases hyn : y.isNaN = true
      · exfalso
        rw [cz_nan hyn] at h
        by_cases hxz : x.isZero = true
        · rw [cz_zero hxz] at h; revert h; decide
        · rw [cz_other hxn' (by simpa using hxz)] at h
          rw [h] at hxn'; revert hxn'; decide
      · have hyn' : y.isNaN = false := by simpa using hyn
        by_cases hxz : x.isZero = true
        · by_cases hyz : y.isZero = true
          · exact Or.inr (Or.inl ⟨hxz, hyz⟩)
          · rw [cz_zero hxz, cz_other hyn' (by simpa using hyz)] at h
            rw [← h] at hyz; exact absurd (isZero_zero false) hyz
        · by_cases hyz : y.isZero = true
          · rw [cz_zero hyz, cz_other hxn' (by simpa using hxz)] at h
            rw [h] at hxz; exact absurd (isZero_zero false) hxz
          · rw [cz_other hxn' (by simpa using hxz), cz_other hyn' (by simpa using hyz)] at h
            exact Or.inl h
  · rintro (rfl | ⟨h1, h2⟩ | ⟨h1, h2⟩)
    · exact Z.refl _
    · exact Z_of_zero h1 h2
    · exact Z_of_nan h1 h2

theorem N_iff {x y : F64} : N x y ↔ x = y ∨ (x.isNaN = true ∧ y.isNaN = true) := by
  constructor
  · intro h
    unfold N at h
    by_cases hxn : x.isNaN = true
    · by_cases hyn : y.isNaN = true
      · exact Or.inr ⟨hxn, hyn⟩
      · exfalso
        have hyn' : y.isNaN = false := by simpa using hyn
        rw [nz_nan hxn, nz_other hyn'] at h
        rw [← h] at hyn'; revert hyn'; decide
    · have hxn' : x.isNaN = false := by simpa using hxn
      by_cases hyn : y.isNaN = true
      · exfalso
        rw [nz_nan hyn, nz_other hxn'] at h
        rw [h] at hxn'; revert hxn'; decide
      · rw [nz_other hxn', nz_other (by simpa using hyn)] at h
        exact Or.inl h
  · rintro (rfl | ⟨h1, h2⟩)
    · exact N.refl _
    · exact N_of_nan h1 h2

theorem N.toZ {x y : F64} (h : N x y) : Z x y := by
  rcases N_iff.mp h with rfl | ⟨h1, h2⟩
  · exact Z.refl _
  · exact Z_of_nan h1 h2

theorem Z.isNaN {x y : F64} (h : Z x y) : x.isNaN = y.isNaN := by
  rcases Z_iff.mp h with rfl | ⟨h1, h2⟩ | ⟨h1, h2⟩
  · rfl
  · rw [zero_nan h1, zero_nan h2]
  · rw [h1, h2]
theorem Z.isZero {x y : F64} (h : Z x y) : x.isZero = y.isZero := by
  rcases Z_iff.mp h with rfl | ⟨h1, h2⟩ | ⟨h1, h2⟩
  · rfl
  · rw [h1, h2]
  · rw [nan_not_zero h1, nan_not_zero h2]
theorem Z.isInf {x y : F64} (h : Z x y) : x.isInf = y.isInf := by
  rcases Z_iff.mp h with rfl | ⟨h1, h2⟩ | ⟨h1, h2⟩
  · rfl
  · rw [zero_inf h1, zero_inf h2]
  · rw [nan_not_inf h1, nan_not_inf h2]

/-! ### negation -/

theorem neg_Z {x y : F64} (h : Z x y) : Z (F64.neg x) (F64.neg y) := by
  rcases Z_iff.mp h with rfl | ⟨h1, h2⟩ | ⟨h1, h2⟩
  · exact Z.refl _
  · exact Z_of_zero (by rw [isZero_neg]; exact h1) (by rw [isZero_neg]; exact h2)
  · exact Z_of_nan (by rw [isNaN_neg]; exact h1) (by rw [isNaN_neg]; exact h2)

theorem R_neg_self (x : F64) : R (F64.neg x) x := Z.refl _
theorem R.symm {x y : F64} (h : R x y) : R y x := by
  have := neg_Z h
  rw [neg_neg] at this
  exact this.symm
theorem R.of_Z_left {x x' y : F64} (h : Z x' x) (r : R x y) : R x' y := Z.trans h r
theorem R.of_Z_right {x y y' : F64} (r : R x y) (h : Z y y') : R x y' := Z.trans r (neg_Z h)
/-- two negations cancel -/
theorem R.comp {x y z : F64} (r : R x y) (r' : R y z) : Z x z := by
  have := neg_Z r'
  rw [neg_neg] at this
  exact Z.trans r this

/-! ### addition -/

theorem add_nan_left {x : F64} (y : F64) (h : x.isNaN = true) : F64.add x y = F64.nan := by
  unfold F64.add; simp [h]
theorem add_nan_right (x : F64) {y : F64} (h : y.isNaN = true) : F64.add x y = F64.nan := by
  unfold F64.add; simp [h]

/-- `a + b = b + a`, bit for bit, on ALL patterns -/
theorem add_comm_all (x y : F64) : F64.add x y = F64.add y x := by
  by_cases hx : x.isNaN = true
  · rw [add_nan_left _ hx, add_nan_right _ hx]
  by_cases hy : y.isNaN = true
  · rw [add_nan_left _ hy, add_nan_right _ hy]
  have hx' : x.isNaN = false := by simpa using hx
  have hy' : y.isNaN = false := by simpa using hy
  unfold F64.add
  simp only [hx', hy', Bool.or_self, Bool.false_eq_true, if_false]
  by_cases hxi : x.isInf = true
  · by_cases hyi : y.isInf = true
    · simp only [hxi, hyi, if_true, Bool.true_and]
      by_cases hs : x.signBit = y.signBit
      · have : x = y := by rw [eq_inf_of_isInf hxi, eq_inf_of_isInf hyi, hs]
        subst this; rfl
      · have h1 : (x.signBit != y.signBit) = true := by simpa using hs
        have h2 : (y.signBit != x.signBit) = true := by simpa using (Ne.symm hs)
        simp [h1, h2]
    · have hyi' : y.isInf = false := by simpa using hyi
      simp [hxi, hyi']
  · have hxi' : x.isInf = false := by simpa using hxi
    by_cases hyi : y.isInf = true
    · simp [hxi', hyi]
    · have hyi' : y.isInf = false := by simpa using hyi
      simp only [hxi', hyi', Bool.false_eq_true, if_false, Bool.and_comm y.isZero, Bool.and_comm y.signBit,
        Int.min_comm y.expo, Int.add_comm (y.toIntAt _)]

theorem add_Z_left {a a' : F64} (h : Z a a') (b : F64) : Z (F64.add a b) (F64.add a' b) := by
  rcases Z_iff.mp h with rfl | ⟨h1, h2⟩ | ⟨h1, h2⟩
  · exact Z.refl _
  · unfold F64.add
    simp only [zero_nan h1, zero_nan h2, zero_inf h1, zero_inf h2, h1, h2, zero_expo h1, zero_expo h2,
      zero_toIntAt h1, zero_toIntAt h2, Bool.false_or, Bool.true_and, Bool.false_eq_true, if_false]
    split_ifs
    · exact Z.refl _
    · exact Z.refl _
    · exact Z_of_zero (isZero_zero _) (isZero_zero _)
    · exact Z.refl _
    · exact Z.refl _
  · rw [add_nan_left _ h1, add_nan_left _ h2]; exact Z.refl _

theorem add_Z {a a' b b' : F64} (ha : Z a a') (hb : Z b b') : Z (F64.add a b) (F64.add a' b') := by
  refine Z.trans (add_Z_left ha b) ?_
  rw [add_comm_all a' b, add_comm_all a' b']
  exact add_Z_left hb a'

/-- NaN operands of an addition are interchangeable: the result is the one NaN of the model -/
theorem add_N {a a' b b' : F64} (ha : N a a') (hb : N b b') : F64.add a b = F64.add a' b' := by
  rcases N_iff.mp ha with rfl | ⟨h1, h2⟩
  · rcases N_iff.mp hb with rfl | ⟨h3, h4⟩
    · rfl
    · rw [add_nan_right _ h3, add_nan_right _ h4]
  · rw [add_nan_left _ h1, add_nan_left _ h2]

/-- `(−x) + (−y) ~ −(x + y)` on ALL patterns -/
theorem add_neg_neg (x y : F64) : R (F64.add (F64.neg x) (F64.neg y)) (F64.add x y) := by
  unfold R
  by_cases hx : x.isNaN = true
  · rw [add_nan_left _ (by rw [isNaN_neg]; exact hx), add_nan_left _ hx]
    exact Z_of_nan isNaN_nan (by decide)
  by_cases hy : y.isNaN = true
  · rw [add_nan_right _ (by rw [isNaN_neg]; exact hy), add_nan_right _ hy]
    exact Z_of_nan isNaN_nan (by decide)
  have hx' : x.isNaN = false := by simpa using hx
  have hy' : y.isNaN = false := by simpa using hy
  unfold F64.add
  simp only [isNaN_neg, isInf_neg, isZero_neg, signBit_neg, expo_neg, toIntAt_neg, hx', hy', Bool.or_self,
    Bool.false_eq_true, if_false]
  have hs : ((!x.signBit) != (!y.signBit)) = (x.signBit != y.signBit) := by
    cases x.signBit <;> cases y.signBit <;> rfl
  rw [hs]
  generalize x.toIntAt (min x.expo y.expo) = a
  generalize y.toIntAt (min x.expo y.expo) = b
  by_cases hxi : x.isInf = true
  · simp only [hxi, if_true]
    by_cases c : (y.isInf && (x.signBit != y.signBit)) = true
    · simp only [c, if_true]; exact Z_of_nan isNaN_nan (by decide)
    · simp only [c, if_false]; exact Z.refl _
  · simp only [hxi, if_false]
    by_cases hyi : y.isInf = true
    · simp only [hyi, if_true]; exact Z.refl _
    · simp only [hyi, if_false]
      by_cases hz : (x.isZero && y.isZero) = true
      · simp only [hz, if_true]
        exact Z_of_zero (isZero_zero _) (by rw [isZero_neg]; exact isZero_zero _)
      · simp only [hz, if_false]
        by_cases h0 : a + b = 0
        · have h0' : -a + -b = 0 := by omega
          simp only [h0, h0', beq_self_eq_true, if_true]
          exact Z_of_zero (isZero_zero _) (by rw [isZero_neg]; exact isZero_zero _)
        · have h0' : ¬ (-a + -b = 0) := by omega
          have e1 : (a + b == 0) = false := by simpa using h0
          have e2 : (-a + -b == 0) = false := by simpa using h0'
          simp only [e1, e2, Bool.false_eq_true, if_false]
          have hn : (-a + -b).natAbs = (a + b).natAbs := by omega
          have hsg : decide (-a + -b < 0) = !decide (a + b < 0) := by
            by_cases hlt : a + b < 0
            · have : ¬ (-a + -b < 0) := by omega
              simp [hlt, this]
            · have : -a + -b < 0 := by omega
              simp [hlt, this]
          rw [hn, hsg, roundDyadic_neg]
          exact Z.refl _

theorem add_R {a a' b b' : F64} (ha : R a' a) (hb : R b' b) : R (F64.add a' b') (F64.add a b) :=
  Z.trans (add_Z ha hb) (add_neg_neg a b)

/-! ### subtraction -/

theorem sub_Z {a a' b b' : F64} (ha : Z a a') (hb : Z b b') : Z (F64.sub a b) (F64.sub a' b') :=
  add_Z ha (neg_Z hb)
theorem sub_N {a a' b b' : F64} (ha : N a a') (hb : N b b') : F64.sub a b = F64.sub a' b' := by
  unfold F64.sub
  refine add_N ha ?_
  rcases N_iff.mp hb with rfl | ⟨h1, h2⟩
  · exact N.refl _
  · exact N_of_nan (by rw [isNaN_neg]; exact h1) (by rw [isNaN_neg]; exact h2)
theorem sub_R {a a' b b' : F64} (ha : R a' a) (hb : R b' b) : R (F64.sub a' b') (F64.sub a b) :=
  add_R ha (neg_Z hb)
/-- `b − a ~ −(a − b)` on ALL patterns -/
theorem sub_swap_all (a b : F64) : R (F64.sub b a) (F64.sub a b) := by
  unfold F64.sub
  have h := add_neg_neg a (F64.neg b)
  rw [neg_neg, add_comm_all (F64.neg a) b] at h
  exact h
theorem sub_swap_R {a a' b b' : F64} (ha : Z a' b) (hb : Z b' a) : R (F64.sub a' b') (F64.sub a b) :=
  Z.trans (sub_Z ha hb) (sub_swap_all a b)

/-! ### multiplication -/

theorem mul_nan_left {x : F64} (y : F64) (h : x.isNaN = true) : F64.mul x y = F64.nan := by
  unfold F64.mul; simp [h]
theorem mul_nan_right (x : F64) {y : F64} (h : y.isNaN = true) : F64.mul x y = F64.nan := by
  unfold F64.mul; simp [h]

theorem mul_Z_left {a a' : F64} (h : Z a a') (b : F64) : Z (F64.mul a b) (F64.mul a' b) := by
  rcases Z_iff.mp h with rfl | ⟨h1, h2⟩ | ⟨h1, h2⟩
  · exact Z.refl _
  · unfold F64.mul
    simp only [zero_nan h1, zero_nan h2, zero_inf h1, zero_inf h2, h1, h2, Bool.false_or, Bool.true_or,
      if_true]
    split_ifs
    · exact Z.refl _
    · exact Z.refl _
    · exact Z_of_zero (isZero_zero _) (isZero_zero _)
  · rw [mul_nan_left _ h1, mul_nan_left _ h2]; exact Z.refl _

theorem mul_Z {a a' b b' : F64} (ha : Z a a') (hb : Z b b') : Z (F64.mul a b) (F64.mul a' b') := by
  refine Z.trans (mul_Z_left ha b) ?_
  rw [mul_comm a' b, mul_comm a' b']
  exact mul_Z_left hb a'

theorem mul_N {a a' b b' : F64} (ha : N a a') (hb : N b b') : F64.mul a b = F64.mul a' b' := by
  rcases N_iff.mp ha with rfl | ⟨h1, h2⟩
  · rcases N_iff.mp hb with rfl | ⟨h3, h4⟩
    · rfl
    · rw [mul_nan_right _ h3, mul_nan_right _ h4]
  · rw [mul_nan_left _ h1, mul_nan_left _ h2]

/-- `(−x)·y ~ −(x·y)` on ALL patterns -/
theorem mul_neg_left_all (x y : F64) : R (F64.mul (F64.neg x) y) (F64.mul x y) := by
  unfold R
  by_cases hx : x.isNaN = true
  · rw [mul_nan_left _ (by rw [isNaN_neg]; exact hx), mul_nan_left _ hx]
    exact Z_of_nan isNaN_nan (by decide)
  by_cases hy : y.isNaN = true
  · rw [mul_nan_right _ hy, mul_nan_right _ hy]
    exact Z_of_nan isNaN_nan (by decide)
  have hx' : x.isNaN = false := by simpa using hx
  have hy' : y.isNaN = false := by simpa using hy
  by_cases h1 : x.isZero = true ∧ y.isInf = true
  · have e1 : F64.mul (F64.neg x) y = F64.nan := by
      unfold F64.mul; simp [isNaN_neg, isInf_neg, isZero_neg, hx', hy', h1.1, h1.2]
    have e2 : F64.mul x y = F64.nan := by
      unfold F64.mul; simp [hx', hy', h1.1, h1.2]
    rw [e1, e2]; exact Z_of_nan isNaN_nan (by decide)
  by_cases h2 : x.isInf = true ∧ y.isZero = true
  · have e1 : F64.mul (F64.neg x) y = F64.nan := by
      unfold F64.mul; simp [isNaN_neg, isInf_neg, isZero_neg, hx', hy', h2.1, h2.2]
    have e2 : F64.mul x y = F64.nan := by
      unfold F64.mul; simp [hx', hy', h2.1, h2.2]
    rw [e1, e2]; exact Z_of_nan isNaN_nan (by decide)
  rw [mul_neg_left x y hx' hy' h1 h2]
  exact Z.refl _

theorem mul_neg_right_all (x y : F64) : R (F64.mul x (F64.neg y)) (F64.mul x y) := by
  rw [mul_comm x (F64.neg y), mul_comm x y]; exact mul_neg_left_all y x

theorem mul_R_left {a a' b b' : F64} (ha : R a' a) (hb : Z b' b) : R (F64.mul a' b') (F64.mul a b) :=
  Z.trans (mul_Z ha hb) (mul_neg_left_all a b)
theorem mul_R_right {a a' b b' : F64} (ha : Z a' a) (hb : R b' b) : R (F64.mul a' b') (F64.mul a b) :=
  Z.trans (mul_Z ha hb) (mul_neg_right_all a b)
theorem mul_R_R {a a' b b' : F64} (ha : R a' a) (hb : R b' b) : Z (F64.mul a' b') (F64.mul a b) := by
  have := mul_Z ha hb
  rw [mul_neg_neg] at this
  exact this

/-- squares forget `Z`: IDENTICAL bits -/
theorem sq_Z {a a' : F64} (h : Z a' a) : F64.mul a' a' = F64.mul a a := by
  rcases Z_iff.mp h with rfl | ⟨h1, h2⟩ | ⟨h1, h2⟩
  · rfl
  · unfold F64.mul
    simp [zero_nan h1, zero_nan h2, zero_inf h1, zero_inf h2, h1, h2]
  · rw [mul_nan_left _ h1, mul_nan_left _ h2]
/-- squares forget `R`: IDENTICAL bits -/
theorem sq_R {a a' : F64} (h : R a' a) : F64.mul a' a' = F64.mul a a := by
  rw [sq_Z h, mul_neg_neg]

/-! ### division, square root -/

theorem div_nan_left {x : F64} (y : F64) (h : x.isNaN = true) : F64.div x y = F64.nan := by
  unfold F64.div; simp [h]
theorem div_nan_right (x : F64) {y : F64} (h : y.isNaN = true) : F64.div x y = F64.nan := by
  unfold F64.div; simp [h]
theorem div_N {a a' b b' : F64} (ha : N a a') (hb : N b b') : F64.div a b = F64.div a' b' := by
  rcases N_iff.mp ha with rfl | ⟨h1, h2⟩
  · rcases N_iff.mp hb with rfl | ⟨h3, h4⟩
    · rfl
    · rw [div_nan_right _ h3, div_nan_right _ h4]
  · rw [div_nan_left _ h1, div_nan_left _ h2]

theorem sqrt_nan {x : F64} (h : x.isNaN = true) : F64.sqrt x = F64.nan := by
  unfold F64.sqrt; simp [h]
theorem sqrt_N {a a' : F64} (h : N a a') : F64.sqrt a = F64.sqrt a' := by
  rcases N_iff.mp h with rfl | ⟨h1, h2⟩
  · rfl
  · rw [sqrt_nan h1, sqrt_nan h2]
theorem sqrt_Z {a a' : F64} (h : Z a a') : Z (F64.sqrt a) (F64.sqrt a') := by
  rcases Z_iff.mp h with rfl | ⟨h1, h2⟩ | ⟨h1, h2⟩
  · exact Z.refl _
  · have e1 : F64.sqrt a = a := by unfold F64.sqrt; simp [zero_nan h1, h1]
    have e2 : F64.sqrt a' = a' := by unfold F64.sqrt; simp [zero_nan h2, h2]
    rw [e1, e2]; exact h
  · rw [sqrt_nan h1, sqrt_nan h2]; exact Z.refl _

/-! ### absolute value -/

theorem abs_toNat (x : F64) : (F64.abs x).bits.toNat = x.bits.toNat % 2 ^ 63 := by
  unfold F64.abs
  rw [UInt64.toNat_and]
  have h7 : (0x7FFFFFFFFFFFFFFF : UInt64).toNat = 2 ^ 63 - 1 := by decide
  rw [h7, Nat.and_two_pow_sub_one_eq_mod]

theorem abs_neg (x : F64) : F64.abs (F64.neg x) = F64.abs x := by
  have h1 := abs_toNat (F64.neg x)
  have h2 := abs_toNat x
  have h3 : (F64.neg x).bits.toNat = if x.bits.toNat < 2 ^ 63 then x.bits.toNat + 2 ^ 63 else x.bits.toNat - 2 ^ 63 :=
    xor_toNat x.bits
  have hb := x.bits.toNat_lt
  have : (F64.abs (F64.neg x)).bits.toNat = (F64.abs x).bits.toNat := by
    rw [h1, h2, h3]; split <;> omega
  have hbits : (F64.abs (F64.neg x)).bits = (F64.abs x).bits := UInt64.toNat_inj.mp this
  cases hA : F64.abs (F64.neg x); cases hB : F64.abs x
  rw [hA, hB] at hbits
  simp only at hbits
  rw [hbits]

theorem expField_abs (x : F64) : (F64.abs x).expField = x.expField := by
  rw [expField_eq, expField_eq, abs_toNat]
  have hb := x.bits.toNat_lt
  omega
theorem fracField_abs (x : F64) : (F64.abs x).fracField = x.fracField := by
  rw [fracField_eq, fracField_eq, abs_toNat]
  have hb := x.bits.toNat_lt
  omega
theorem signBit_abs (x : F64) : (F64.abs x).signBit = false := by
  rw [signBit_eq, abs_toNat]
  have hlt : x.bits.toNat % 2 ^ 63 < 2 ^ 63 := Nat.mod_lt _ (by decide)
  have : ¬ 2 ^ 63 ≤ x.bits.toNat % 2 ^ 63 := by omega
  exact decide_eq_false this
theorem isNaN_abs (x : F64) : (F64.abs x).isNaN = x.isNaN := by
  unfold F64.isNaN; rw [expField_abs, fracField_abs]
theorem isZero_abs (x : F64) : (F64.abs x).isZero = x.isZero := by
  unfold F64.isZero; rw [expField_abs, fracField_abs]
theorem isInf_abs (x : F64) : (F64.abs x).isInf = x.isInf := by
  unfold F64.isInf; rw [expField_abs, fracField_abs]

/-- `|x|` forgets the sign of zeros: `Z`-related operands give `N`-related results -/
theorem abs_Z {a a' : F64} (h : Z a' a) : N (F64.abs a') (F64.abs a) := by
  rcases Z_iff.mp h with rfl | ⟨h1, h2⟩ | ⟨h1, h2⟩
  · exact N.refl _
  · have e1 := eq_zero_of_isZero (x := F64.abs a') (by rw [isZero_abs]; exact h1)
    have e2 := eq_zero_of_isZero (x := F64.abs a) (by rw [isZero_abs]; exact h2)
    rw [signBit_abs] at e1 e2
    rw [e1, e2]; exact N.refl _
  · exact N_of_nan (by rw [isNaN_abs]; exact h1) (by rw [isNaN_abs]; exact h2)
/-- `|x|` forgets the negation -/
theorem abs_R {a a' : F64} (h : R a' a) : N (F64.abs a') (F64.abs a) := by
  have := abs_Z h
  rw [abs_neg] at this
  exact this

/-! ### comparisons -/

theorem cmp_Z_left {a a' : F64} (h : Z a a') (b : F64) : F64.cmp a b = F64.cmp a' b := by
  rcases Z_iff.mp h with rfl | ⟨h1, h2⟩ | ⟨h1, h2⟩
  · rfl
  · unfold F64.cmp
    simp only [zero_nan h1, zero_nan h2, zero_inf h1, zero_inf h2, zero_expo h1, zero_expo h2,
      zero_toIntAt h1, zero_toIntAt h2, Bool.false_or, Bool.false_and, Bool.false_eq_true, if_false]
  · unfold F64.cmp; simp [h1, h2]
theorem cmp_Z_right (a : F64) {b b' : F64} (h : Z b b') : F64.cmp a b = F64.cmp a b' := by
  rcases Z_iff.mp h with rfl | ⟨h1, h2⟩ | ⟨h1, h2⟩
  · rfl
  · unfold F64.cmp
    simp only [zero_nan h1, zero_nan h2, zero_inf h1, zero_inf h2, zero_expo h1, zero_expo h2,
      zero_toIntAt h1, zero_toIntAt h2, Bool.or_false, Bool.and_false, Bool.false_eq_true, if_false]
    by_cases hi : a.isInf = true
    · simp [hi]
    · simp [hi]
  · unfold F64.cmp; simp [h1, h2]
theorem cmp_Z {a a' b b' : F64} (ha : Z a a') (hb : Z b b') : F64.cmp a b = F64.cmp a' b' := by
  rw [cmp_Z_left ha, cmp_Z_right _ hb]
theorem lt_Z {a a' b b' : F64} (ha : Z a a') (hb : Z b b') : F64.lt a b = F64.lt a' b' := by
  unfold F64.lt; rw [cmp_Z ha hb]
theorem le_Z {a a' b b' : F64} (ha : Z a a') (hb : Z b b') : F64.le a b = F64.le a' b' := by
  unfold F64.le; rw [cmp_Z ha hb]
theorem gt_Z {a a' b b' : F64} (ha : Z a a') (hb : Z b b') : F64.gt a b = F64.gt a' b' := lt_Z hb ha
theorem ge_Z {a a' b b' : F64} (ha : Z a a') (hb : Z b b') : F64.ge a b = F64.ge a' b' := le_Z hb ha
theorem feq_Z {a a' b b' : F64} (ha : Z a a') (hb : Z b b') : F64.feq a b = F64.feq a' b' := by
  unfold F64.feq; rw [cmp_Z ha hb]
theorem fne_Z {a a' b b' : F64} (ha : Z a a') (hb : Z b b') : F64.fne a b = F64.fne a' b' := by
  unfold F64.fne; rw [feq_Z ha hb]

/-! ### comparison with zero under negation -/

open S2.EdgeNum in
theorem lt_nan_left {x : F64} (y : F64) (h : x.isNaN = true) : F64.lt x y = false := by
  unfold F64.lt F64.cmp; simp [h]
theorem lt_nan_right (x : F64) {y : F64} (h : y.isNaN = true) : F64.lt x y = false := by
  unfold F64.lt F64.cmp; simp [h]

theorem toInt_neg (x : F64) : toInt (F64.neg x) = - toInt x := toIntAt_neg x _

open S2.EdgeNum in
/-- `−x < 0 ⇔ 0 < x` on ALL patterns -/
theorem lt_neg_zero (x : F64) : F64.lt (F64.neg x) fz = F64.lt fz x := by
  by_cases hn : x.isNaN = true
  · rw [lt_nan_left _ (by rw [isNaN_neg]; exact hn), lt_nan_right _ hn]
  have hn' : x.isNaN = false := by simpa using hn
  have h0 : Fin fz ∧ toInt fz = 0 := by decide +kernel
  by_cases hf : Fin x
  · have hf' : Fin (F64.neg x) := (isFinite_neg x).mpr hf
    have e1 := lt_iff hf' h0.1
    have e2 := lt_iff h0.1 hf
    rw [toInt_neg, h0.2] at e1
    rw [h0.2] at e2
    cases h1 : F64.lt (F64.neg x) fz <;> cases h2 : F64.lt fz x
    · rfl
    · have := e2.mp h2
      have h3 : ¬ (-toInt x < 0) := by rw [← e1]; simp [h1]
      omega
    · have := e1.mp h1
      have h3 : ¬ (0 < toInt x) := by rw [← e2]; simp [h2]
      omega
    · rfl
  · have hi := S2Proofs.EdgeNumLemmas.isInf_of_not_fin hn' hf
    have hi' : (F64.neg x).isInf = true := by rw [isInf_neg]; exact hi
    rw [(S2Proofs.EdgeNumLemmas.lt_inf_zero (by rw [isNaN_neg]; exact hn') hi').1, (S2Proofs.EdgeNumLemmas.lt_inf_zero hn' hi).2, signBit_neg]

open S2.EdgeNum in
/-- `0 < −x ⇔ x < 0` on ALL patterns -/
theorem lt_zero_neg (x : F64) : F64.lt fz (F64.neg x) = F64.lt x fz := by
  have := lt_neg_zero (F64.neg x)
  rw [neg_neg] at this
  exact this.symm

open S2.EdgeNum in
theorem lt_zero_R {a a' : F64} (h : R a' a) : F64.lt a' fz = F64.lt fz a := by
  rw [lt_Z h (Z.refl fz), lt_neg_zero]
open S2.EdgeNum in
theorem zero_lt_R {a a' : F64} (h : R a' a) : F64.lt fz a' = F64.lt a fz := by
  rw [lt_Z (Z.refl fz) h, lt_zero_neg]

/-! ### neutral elements -/

theorem fin_of_nn_inf {x : F64} (hn : x.isNaN = false) (hi : x.isInf = false) : Fin x := by
  by_contra hf
  rw [S2Proofs.EdgeNumLemmas.isInf_of_not_fin hn hf] at hi
  cases hi

open S2Proofs.F64Round in
/-- `1·x ~ x` on ALL patterns -/
theorem one_mul_Z (x : F64) : Z (F64.mul F64.one x) x := by
  by_cases hn : x.isNaN = true
  · rw [mul_nan_right _ hn]; exact Z_of_nan isNaN_nan hn
  have hn' : x.isNaN = false := by simpa using hn
  have h1 : F64.one.isNaN = false ∧ F64.one.isInf = false ∧ F64.one.isZero = false ∧ F64.one.signBit = false ∧
      Fin F64.one := by decide
  by_cases hi : x.isInf = true
  · have : F64.mul F64.one x = x := by
      unfold F64.mul
      simp only [h1.1, h1.2.1, h1.2.2.1, h1.2.2.2.1, hn', hi, inf_not_zero hi, Bool.or_self, Bool.false_or,
        Bool.false_eq_true, if_false, if_true]
      have : (false != x.signBit) = x.signBit := by cases x.signBit <;> rfl
      rw [this]; exact (eq_inf_of_isInf hi).symm
    rw [this]; exact Z.refl _
  have hf : Fin x := fin_of_nn_inf hn' (by simpa using hi)
  by_cases hz : x.isZero = true
  · refine Z_of_zero ?_ hz
    unfold F64.mul
    simp [h1.1, h1.2.1, h1.2.2.1, hn', zero_inf hz, hz, isZero_zero]
  · have hz' : x.isZero = false := by simpa using hz
    have h0 : toInt x ≠ 0 := fun h => by rw [S2Proofs.EdgeNumLemmas.isZero_of_toInt h] at hz'; cases hz'
    have hr := isRound_mul h1.2.2.2.2 hf
    rw [val_one, one_mul] at hr
    rw [IsRound.fix_eq hf h0 hr]; exact Z.refl _

open S2.EdgeNum in
theorem fNegOne_eq : fNegOne = F64.neg F64.one := by decide

open S2.EdgeNum in
/-- `(−1)·x ~ −x` on ALL patterns -/
theorem negOne_mul_R (x : F64) : R (F64.mul fNegOne x) x := by
  rw [fNegOne_eq]
  exact R.of_Z_right (mul_neg_left_all F64.one x) (one_mul_Z x)

open S2.EdgeNum S2Proofs.F64Round in
/-- `x + (+0)` is the canonical form of `x` (this is what `pt.Add(r3.Vector{})` does to a coordinate) -/
theorem add_fz (x : F64) : F64.add x fz = cz x := by
  have h1 : fz.isNaN = false ∧ fz.isInf = false ∧ fz.isZero = true ∧ fz.signBit = false ∧ Fin fz ∧ toInt fz = 0 := by
    decide +kernel
  by_cases hn : x.isNaN = true
  · rw [add_nan_left _ hn, cz_nan hn]
  have hn' : x.isNaN = false := by simpa using hn
  by_cases hi : x.isInf = true
  · rw [cz_other hn' (inf_not_zero hi)]
    unfold F64.add
    simp [hn', h1.1, h1.2.1, hi]
  have hi' : x.isInf = false := by simpa using hi
  have hf : Fin x := fin_of_nn_inf hn' hi'
  by_cases hz : x.isZero = true
  · rw [cz_zero hz]
    unfold F64.add
    simp [hn', h1.1, h1.2.1, hi', hz, h1.2.2.1, h1.2.2.2.1]
  · have hz' : x.isZero = false := by simpa using hz
    have h0 : toInt x ≠ 0 := fun h => by rw [S2Proofs.EdgeNumLemmas.isZero_of_toInt h] at hz'; cases hz'
    have hr := isRound_add hf h1.2.2.2.2.1
    have hv : val fz = 0 := by unfold val; rw [h1.2.2.2.2.2]; simp
    rw [hv, add_zero] at hr
    rw [IsRound.fix_eq hf h0 hr, cz_other hn' hz']

open S2.EdgeNum in
theorem add_fz_eq_iff {x y : F64} : F64.add x fz = F64.add y fz ↔ Z x y := by
  rw [add_fz, add_fz]; exact Iff.rfl

/-! ### non-negative results (`+0`, positive finite, `+Inf`): squares and their sums are never NaN -/

/-- not NaN and the sign bit clear -/
def Pos (x : F64) : Prop := x.isNaN = false ∧ x.signBit = false

open S2Proofs.F64Round in
theorem roundDyadic_signBit (neg : Bool) {m : Nat} (e : Int) (hm : 0 < m) : (F64.roundDyadic neg m e).signBit = neg := by
  unfold F64.roundDyadic
  split
  · exact roundNE_signBit _ _ _ (Nat.mul_pos hm (Nat.two_pow_pos _)) (by decide)
  · exact roundNE_signBit _ _ _ hm (Nat.two_pow_pos _)

open S2Proofs.F64Round in
/-- the square of a non-NaN float is `+0`, positive or `+Inf` -/
theorem sq_pos {x : F64} (hx : x.isNaN = false) : Pos (F64.mul x x) := by
  unfold F64.mul
  simp only [hx, Bool.or_self, bne_self_eq_false, Bool.false_eq_true, if_false]
  by_cases hi : x.isInf = true
  · simp only [hi, inf_not_zero hi, if_true, Bool.false_eq_true, if_false]; exact ⟨by decide, by decide⟩
  · simp only [hi, if_false]
    by_cases hz : x.isZero = true
    · simp only [hz, if_true]; exact ⟨by decide, by decide⟩
    · simp only [hz, if_false]
      have hm := mant_pos_of_not_zero (y := x) (by simpa using hz)
      exact ⟨roundDyadic_not_nan _ _ _, roundDyadic_signBit _ _ (Nat.mul_pos hm hm)⟩

open S2Proofs.F64Round in
/-- sums of such values are again such values (no `Inf − Inf`) -/
theorem add_pos {x y : F64} (hx : Pos x) (hy : Pos y) : Pos (F64.add x y) := by
  obtain ⟨hxn, hxs⟩ := hx
  obtain ⟨hyn, hys⟩ := hy
  unfold F64.add
  simp only [hxn, hyn, hxs, hys, Bool.or_self, bne_self_eq_false, Bool.and_false, Bool.and_self, Bool.false_eq_true,
    if_false]
  by_cases hxi : x.isInf = true
  · simp only [hxi, if_true]; exact ⟨hxn, hxs⟩
  · simp only [hxi, Bool.false_eq_true, if_false]
    by_cases hyi : y.isInf = true
    · simp only [hyi, if_true]; exact ⟨hyn, hys⟩
    · simp only [hyi, Bool.false_eq_true, if_false]
      by_cases hz : (x.isZero && y.isZero) = true
      · simp only [hz, if_true]; exact ⟨by decide, by decide⟩
      · simp only [hz, Bool.false_eq_true, if_false]
        have h1 : 0 ≤ x.toIntAt (min x.expo y.expo) := by
          unfold F64.toIntAt; simp only [hxs, Bool.false_eq_true, if_false]; positivity
        have h2 : 0 ≤ y.toIntAt (min x.expo y.expo) := by
          unfold F64.toIntAt; simp only [hys, Bool.false_eq_true, if_false]; positivity
        generalize x.toIntAt (min x.expo y.expo) = a at *
        generalize y.toIntAt (min x.expo y.expo) = b at *
        by_cases h0 : a + b = 0
        · simp only [h0, beq_self_eq_true, if_true]; exact ⟨by decide, by decide⟩
        · have e1 : (a + b == 0) = false := by simpa using h0
          simp only [e1, Bool.false_eq_true, if_false]
          have hlt : ¬ (a + b < 0) := by omega
          simp only [hlt, decide_false]
          exact ⟨roundDyadic_not_nan _ _ _, roundDyadic_signBit _ _ (by omega)⟩

/-- IEEE `==` on non-NaN operands: the same float up to the sign of a zero -/
theorem Z_of_feq {x y : F64} (h : F64.feq x y = true) : Z x y := by
  open S2Proofs.F64Round in
  by_cases hx : x.isNaN = true
  · rw [feq_nan_left _ _ hx] at h; cases h
  by_cases hy : y.isNaN = true
  · rw [feq_nan_right _ _ hy] at h; cases h
  have hx' : x.isNaN = false := by simpa using hx
  have hy' : y.isNaN = false := by simpa using hy
  have he := (feq_iff_ext hx' hy').mp h
  rcases notNaN_cases hx' with fx | rfl | rfl <;> rcases notNaN_cases hy' with fy | rfl | rfl
  · rw [ext_finite fx, ext_finite fy] at he
    by_cases h0 : toInt x = 0
    · exact Z_of_zero (S2Proofs.EdgeNumLemmas.isZero_of_toInt h0) (S2Proofs.EdgeNumLemmas.isZero_of_toInt (he ▸ h0))
    · have hxz : x ≠ F64.zero true := by rintro rfl; exact h0 (by decide)
      have hyz : y ≠ F64.zero true := by rintro rfl; exact h0 (by rw [he]; decide)
      exact Z.of_eq (toInt_inj he hxz hyz)
  · exfalso; rw [ext_finite fx, ext_inf] at he; have := toInt_bounds x fx; simp at he; omega
  · exfalso; rw [ext_finite fx, ext_inf] at he; have := toInt_bounds x fx; simp at he; omega
  · exfalso; rw [ext_finite fy, ext_inf] at he; have := toInt_bounds y fy; simp at he; omega
  · exact Z.refl _
  · exfalso; rw [ext_inf, ext_inf] at he; simp at he; have : (0:Int) < 2 ^ 2098 := by positivity
    omega
  · exfalso; rw [ext_finite fy, ext_inf] at he; have := toInt_bounds y fy; simp at he; omega
  · exfalso; rw [ext_inf, ext_inf] at he; simp at he; have : (0:Int) < 2 ^ 2098 := by positivity
    omega
  · exact Z.refl _

/-! ### vectors -/

/-- component-wise `Z` -/
def Z3 (u v : V3) : Prop := Z u.x v.x ∧ Z u.y v.y ∧ Z u.z v.z
/-- component-wise `R`: `u` is `−v` up to the sign of zeros / NaN payloads -/
def R3 (u v : V3) : Prop := R u.x v.x ∧ R u.y v.y ∧ R u.z v.z

instance (u v : V3) : Decidable (Z3 u v) := by unfold Z3; infer_instance
instance (u v : V3) : Decidable (R3 u v) := by unfold R3; infer_instance

theorem Z3.refl (u : V3) : Z3 u u := ⟨Z.refl _, Z.refl _, Z.refl _⟩
theorem Z3.symm {u v : V3} (h : Z3 u v) : Z3 v u := ⟨h.1.symm, h.2.1.symm, h.2.2.symm⟩
theorem Z3.trans {u v w : V3} (h : Z3 u v) (h' : Z3 v w) : Z3 u w :=
  ⟨h.1.trans h'.1, h.2.1.trans h'.2.1, h.2.2.trans h'.2.2⟩
theorem Z3.of_eq {u v : V3} (h : u = v) : Z3 u v := by rw [h]; exact Z3.refl _
theorem R3.symm {u v : V3} (h : R3 u v) : R3 v u := ⟨h.1.symm, h.2.1.symm, h.2.2.symm⟩
theorem R3.of_Z3_left {u u' v : V3} (h : Z3 u' u) (r : R3 u v) : R3 u' v :=
  ⟨r.1.of_Z_left h.1, r.2.1.of_Z_left h.2.1, r.2.2.of_Z_left h.2.2⟩
theorem R3.of_Z3_right {u v v' : V3} (r : R3 u v) (h : Z3 v v') : R3 u v' :=
  ⟨r.1.of_Z_right h.1, r.2.1.of_Z_right h.2.1, r.2.2.of_Z_right h.2.2⟩
theorem R3.comp {u v w : V3} (r : R3 u v) (r' : R3 v w) : Z3 u w :=
  ⟨r.1.comp r'.1, r.2.1.comp r'.2.1, r.2.2.comp r'.2.2⟩
theorem R3_neg (v : V3) : R3 v.neg v := ⟨Z.refl _, Z.refl _, Z.refl _⟩

theorem sub_Z3 {a a' b b' : V3} (ha : Z3 a' a) (hb : Z3 b' b) : Z3 (a'.sub b') (a.sub b) :=
  ⟨sub_Z ha.1 hb.1, sub_Z ha.2.1 hb.2.1, sub_Z ha.2.2 hb.2.2⟩
theorem sub_R3 {a a' b b' : V3} (ha : R3 a' a) (hb : R3 b' b) : R3 (a'.sub b') (a.sub b) :=
  ⟨sub_R ha.1 hb.1, sub_R ha.2.1 hb.2.1, sub_R ha.2.2 hb.2.2⟩
/-- `b − a ~ −(a − b)` -/
theorem sub_swap3 {a a' b b' : V3} (ha : Z3 a' b) (hb : Z3 b' a) : R3 (a'.sub b') (a.sub b) :=
  ⟨sub_swap_R ha.1 hb.1, sub_swap_R ha.2.1 hb.2.1, sub_swap_R ha.2.2 hb.2.2⟩
theorem add_Z3 {a a' b b' : V3} (ha : Z3 a' a) (hb : Z3 b' b) : Z3 (a'.add b') (a.add b) :=
  ⟨add_Z ha.1 hb.1, add_Z ha.2.1 hb.2.1, add_Z ha.2.2 hb.2.2⟩
theorem add_R3 {a a' b b' : V3} (ha : R3 a' a) (hb : R3 b' b) : R3 (a'.add b') (a.add b) :=
  ⟨add_R ha.1 hb.1, add_R ha.2.1 hb.2.1, add_R ha.2.2 hb.2.2⟩
/-- `a + b = b + a` bit for bit, ALL patterns -/
theorem add_comm3 (a b : V3) : a.add b = b.add a := by
  show V3.mk (F64.add a.x b.x) (F64.add a.y b.y) (F64.add a.z b.z) =
    V3.mk (F64.add b.x a.x) (F64.add b.y a.y) (F64.add b.z a.z)
  rw [add_comm_all a.x, add_comm_all a.y, add_comm_all a.z]

theorem smul_Z3 {v v' : V3} {m m' : F64} (hv : Z3 v' v) (hm : Z m' m) : Z3 (v'.mul m') (v.mul m) :=
  ⟨mul_Z hm hv.1, mul_Z hm hv.2.1, mul_Z hm hv.2.2⟩
theorem smul_R3 {v v' : V3} {m m' : F64} (hv : R3 v' v) (hm : Z m' m) : R3 (v'.mul m') (v.mul m) :=
  ⟨mul_R_right hm hv.1, mul_R_right hm hv.2.1, mul_R_right hm hv.2.2⟩
theorem smul_R3' {v v' : V3} {m m' : F64} (hv : Z3 v' v) (hm : R m' m) : R3 (v'.mul m') (v.mul m) :=
  ⟨mul_R_left hm hv.1, mul_R_left hm hv.2.1, mul_R_left hm hv.2.2⟩
open S2.EdgeNum in
/-- `pt.Mul(-1) ~ −pt` -/
theorem smul_negOne (v : V3) : R3 (v.mul fNegOne) v := ⟨negOne_mul_R _, negOne_mul_R _, negOne_mul_R _⟩

theorem cross_Z3 {u u' w w' : V3} (hu : Z3 u' u) (hw : Z3 w' w) : Z3 (u'.cross w') (u.cross w) :=
  ⟨sub_Z (mul_Z hu.2.1 hw.2.2) (mul_Z hu.2.2 hw.2.1), sub_Z (mul_Z hu.2.2 hw.1) (mul_Z hu.1 hw.2.2),
    sub_Z (mul_Z hu.1 hw.2.1) (mul_Z hu.2.1 hw.1)⟩
theorem cross_R3_left {u u' w w' : V3} (hu : R3 u' u) (hw : Z3 w' w) : R3 (u'.cross w') (u.cross w) :=
  ⟨sub_R (mul_R_left hu.2.1 hw.2.2) (mul_R_left hu.2.2 hw.2.1), sub_R (mul_R_left hu.2.2 hw.1) (mul_R_left hu.1 hw.2.2),
    sub_R (mul_R_left hu.1 hw.2.1) (mul_R_left hu.2.1 hw.1)⟩
theorem cross_R3_right {u u' w w' : V3} (hu : Z3 u' u) (hw : R3 w' w) : R3 (u'.cross w') (u.cross w) :=
  ⟨sub_R (mul_R_right hu.2.1 hw.2.2) (mul_R_right hu.2.2 hw.2.1), sub_R (mul_R_right hu.2.2 hw.1) (mul_R_right hu.1 hw.2.2),
    sub_R (mul_R_right hu.1 hw.2.1) (mul_R_right hu.2.1 hw.1)⟩

theorem dot_Z {u u' w w' : V3} (hu : Z3 u' u) (hw : Z3 w' w) : Z (u'.dot w') (u.dot w) :=
  add_Z (add_Z (mul_Z hu.1 hw.1) (mul_Z hu.2.1 hw.2.1)) (mul_Z hu.2.2 hw.2.2)
theorem dot_R_left {u u' w w' : V3} (hu : R3 u' u) (hw : Z3 w' w) : R (u'.dot w') (u.dot w) :=
  add_R (add_R (mul_R_left hu.1 hw.1) (mul_R_left hu.2.1 hw.2.1)) (mul_R_left hu.2.2 hw.2.2)
theorem dot_R_right {u u' w w' : V3} (hu : Z3 u' u) (hw : R3 w' w) : R (u'.dot w') (u.dot w) :=
  add_R (add_R (mul_R_right hu.1 hw.1) (mul_R_right hu.2.1 hw.2.1)) (mul_R_right hu.2.2 hw.2.2)

/-- the squared norm forgets `Z3`: IDENTICAL bits -/
theorem norm2_Z3 {u u' : V3} (h : Z3 u' u) : u'.norm2 = u.norm2 := by
  show F64.add (F64.add (F64.mul u'.x u'.x) (F64.mul u'.y u'.y)) (F64.mul u'.z u'.z) =
    F64.add (F64.add (F64.mul u.x u.x) (F64.mul u.y u.y)) (F64.mul u.z u.z)
  rw [sq_Z h.1, sq_Z h.2.1, sq_Z h.2.2]
/-- the squared norm forgets `R3`: IDENTICAL bits -/
theorem norm2_R3 {u u' : V3} (h : R3 u' u) : u'.norm2 = u.norm2 := by
  show F64.add (F64.add (F64.mul u'.x u'.x) (F64.mul u'.y u'.y)) (F64.mul u'.z u'.z) =
    F64.add (F64.add (F64.mul u.x u.x) (F64.mul u.y u.y)) (F64.mul u.z u.z)
  rw [sq_R h.1, sq_R h.2.1, sq_R h.2.2]
theorem norm_Z3 {u u' : V3} (h : Z3 u' u) : u'.norm = u.norm := by
  show F64.sqrt u'.norm2 = F64.sqrt u.norm2
  rw [norm2_Z3 h]
theorem norm_R3 {u u' : V3} (h : R3 u' u) : u'.norm = u.norm := by
  show F64.sqrt u'.norm2 = F64.sqrt u.norm2
  rw [norm2_R3 h]

/-- not-NaN components -/
def NN3 (v : V3) : Prop := v.x.isNaN = false ∧ v.y.isNaN = false ∧ v.z.isNaN = false

/-- the squared norm of a vector without NaN components is `+0`, positive or `+Inf` — never NaN -/
theorem norm2_pos {v : V3} (h : NN3 v) : Pos v.norm2 :=
  add_pos (add_pos (sq_pos h.1) (sq_pos h.2.1)) (sq_pos h.2.2)

theorem feq3_Z3 {u u' w w' : V3} (hu : Z3 u' u) (hw : Z3 w' w) : V3.feq u' w' = V3.feq u w := by
  unfold V3.feq; rw [feq_Z hu.1 hw.1, feq_Z hu.2.1 hw.2.1, feq_Z hu.2.2 hw.2.2]
theorem cmp3_Z3 {u u' w w' : V3} (hu : Z3 u' u) (hw : Z3 w' w) : V3.cmp u' w' = V3.cmp u w := by
  unfold V3.cmp
  rw [lt_Z hu.1 hw.1, gt_Z hu.1 hw.1, lt_Z hu.2.1 hw.2.1, gt_Z hu.2.1 hw.2.1, lt_Z hu.2.2 hw.2.2, gt_Z hu.2.2 hw.2.2]

open S2.EdgeNum in
/-- the exit of `Intersection` identifies exactly the `Z3`-related points -/
theorem canonZero_eq_iff {p q : V3} : canonZero p = canonZero q ↔ Z3 p q := by
  show V3.mk (F64.add p.x fz) (F64.add p.y fz) (F64.add p.z fz) = V3.mk (F64.add q.x fz) (F64.add q.y fz) (F64.add q.z fz) ↔ _
  rw [V3.mk.injEq, add_fz_eq_iff, add_fz_eq_iff, add_fz_eq_iff]
  exact Iff.rfl

/-- two vectors without NaN components that compare equal in both directions of the lexicographic `Cmp` agree up to zero signs -/
theorem Z3_of_cmp {u w : V3} (hu : NN3 u) (hw : NN3 w) (h1 : V3.cmp u w ≠ -1) (h2 : V3.cmp w u ≠ -1) : Z3 u w := by
  open S2Proofs.F64Round in
  have tri : ∀ a b : F64, a.isNaN = false → b.isNaN = false → F64.lt a b = false → F64.lt b a = false → Z a b := by
    intro a b ha hb h1 h2
    apply Z_of_feq
    rw [feq_iff_ext ha hb]
    have e1 : ¬ (ext a < ext b) := by rw [← lt_iff_ext ha hb]; simp [h1]
    have e2 : ¬ (ext b < ext a) := by rw [← lt_iff_ext hb ha]; simp [h2]
    omega
  unfold V3.cmp F64.gt at h1 h2
  cases hx1 : F64.lt u.x w.x
  · cases hx2 : F64.lt w.x u.x
    · simp only [hx1, hx2, Bool.false_eq_true, if_false] at h1 h2
      cases hy1 : F64.lt u.y w.y
      · cases hy2 : F64.lt w.y u.y
        · simp only [hy1, hy2, Bool.false_eq_true, if_false] at h1 h2
          cases hz1 : F64.lt u.z w.z
          · cases hz2 : F64.lt w.z u.z
            · exact ⟨tri _ _ hu.1 hw.1 hx1 hx2, tri _ _ hu.2.1 hw.2.1 hy1 hy2, tri _ _ hu.2.2 hw.2.2 hz1 hz2⟩
            · simp [hz1, hz2] at h2
          · simp [hz1] at h1
        · simp [hy1, hy2] at h2
      · simp [hy1] at h1
    · simp [hx1, hx2] at h2
  · simp [hx1] at h1

/-! ### non-vacuity / sharpness on concrete bit patterns -/

/-- the model has ONE NaN produced by arithmetic (`F64.nan`), but `neg` flips its sign bit: `neg nan ≠ nan` as bits, the two are
    `Z`-related, and every arithmetic operation (in particular the exit `x + (+0)` of `Intersection`) maps both to `F64.nan` -/
example : F64.neg F64.nan ≠ F64.nan ∧ Z (F64.neg F64.nan) F64.nan ∧
    F64.add (F64.neg F64.nan) (F64.zero false) = F64.add F64.nan (F64.zero false) := by decide +kernel

/-- `b − a = −(a − b)` exactly when the difference is non-zero … -/
example : F64.sub F64.half F64.three = F64.neg (F64.sub F64.three F64.half) := by decide +kernel
/-- … but an exact cancellation gives `+0` in BOTH directions: only the relation `R` (up to the sign of zero) holds -/
example : F64.sub F64.three F64.three ≠ F64.neg (F64.sub F64.three F64.three) ∧
    R (F64.sub F64.three F64.three) (F64.sub F64.three F64.three) := by decide +kernel
/-- overflow: `(−x)·y = −(x·y) = −Inf`;  `Inf − Inf = NaN` in both directions (`R` through the NaN clause) -/
example : F64.mul (F64.neg ⟨0x7FE0000000000000⟩) ⟨0x7FE0000000000000⟩ = F64.inf true ∧
    F64.sub (F64.inf false) (F64.inf false) = F64.nan ∧
    R (F64.sub (F64.inf false) (F64.inf false)) (F64.sub (F64.inf false) (F64.inf false)) := by decide +kernel
/-- `0·Inf = NaN`: the exceptions of `F64Sym.mul_neg_left` are covered by `mul_neg_left_all` -/
example : R (F64.mul (F64.neg (F64.zero false)) (F64.inf false)) (F64.mul (F64.zero false) (F64.inf false)) := by
  decide +kernel
/-- `Z3` / `R3` on vectors with a zero coordinate: `(1, −0, 3) ~ −(−1, −0, −3)` -/
example : R3 ⟨F64.one, F64.zero true, F64.three⟩ ⟨F64.neg F64.one, F64.zero true, F64.neg F64.three⟩ := by decide +kernel

end S2Proofs.F64Sym2
