/-
  S2Proofs.F64Faithful — the soft-float rounding `F64.roundNE` is FAITHFUL (in the range used by the
  cell-id code, values below 2^51): the result lies between the two neighbouring representable numbers
  of the exact quotient.  Stated without reals: magnitudes are naturals at the scale 2^-1074 (`toInt`),
  a magnitude `G` is representable (`Repr G`) when `G = m·2^t` with `m < 2^53`, and

      G·d ≤ n·2^1074  →  G ≤ |roundNE n d|          (every representable number below n/d is ≤ the result)
      n·2^1074 ≤ G·d  →  |roundNE n d| ≤ G          (every representable number above n/d is ≥ the result)

  In particular a representable exact result is returned exactly.  Consequences for `* / +` on finite
  operands (`mul_spec`, `div_spec`, `add_spec`).  Nothing about ties-to-even is needed for this.
-/
import S2Proofs.Measures.F64Sign
import S2Proofs.C12.STExact
import S2Proofs.F64Sym

set_option linter.unusedSimpArgs false
set_option linter.unusedVariables false

namespace S2Proofs.F64Faithful
open S2 S2.Exact S2Proofs.Codec S2Proofs.F64Order S2Proofs.C12ST S2Proofs.C18

/-- magnitudes (in units of 2^-1074) that a binary64 mantissa can hold (no upper bound needed here) -/
def Repr (G : Nat) : Prop := ∃ m t, G = m * 2 ^ t ∧ m < 2 ^ 53

theorem repr_mul_pow {m : Nat} (t : Nat) (hm : m < 2 ^ 53) : Repr (m * 2 ^ t) := ⟨m, t, rfl, hm⟩

/-! ### A. the quotient at a given unit -/

theorem quotF_spec (n d : Nat) (hd : 0 < d) (e : Int) (he : -1074 ≤ e) :
    (quotF n d e).1 * 2 ^ (e + 1074).toNat * d ≤ n * 2 ^ 1074 ∧
    n * 2 ^ 1074 < ((quotF n d e).1 + 1) * 2 ^ (e + 1074).toNat * d ∧
    (0 < (quotF n d e).2.1 → (quotF n d e).1 * 2 ^ (e + 1074).toNat * d < n * 2 ^ 1074) ∧
    0 < (quotF n d e).2.2 := by
  unfold quotF
  by_cases h0 : e ≥ 0
  · rw [if_pos h0]
    simp only
    have hE : (e + 1074).toNat = e.toNat + 1074 := by omega
    rw [hE, Nat.pow_add]
    have hA : 0 < (2:Nat) ^ e.toNat := Nat.two_pow_pos _
    have hB : 0 < (2:Nat) ^ 1074 := Nat.two_pow_pos _
    generalize (2:Nat) ^ e.toNat = A at *
    generalize (2:Nat) ^ 1074 = B at *
    have hden : 0 < d * A := Nat.mul_pos hd hA
    have hdm := Nat.div_add_mod n (d * A)
    have hr := Nat.mod_lt n hden
    generalize n / (d * A) = q at *
    generalize n % (d * A) = r at *
    have key : n * B = q * (A * B) * d + r * B := by rw [← hdm]; ring
    have h2 : r * B < d * A * B := Nat.mul_lt_mul_of_pos_right hr hB
    have h3 : (q + 1) * (A * B) * d = q * (A * B) * d + d * A * B := by ring
    refine ⟨?_, ?_, ?_, hden⟩
    · rw [key]; exact Nat.le_add_right _ _
    · rw [key, h3]; omega
    · intro h; rw [key]; have := Nat.mul_pos h hB; omega
  · rw [if_neg h0]
    simp only
    have hsplit : (2:Nat) ^ 1074 = 2 ^ (-e).toNat * 2 ^ (e + 1074).toNat := by
      rw [← Nat.pow_add]; congr 1; omega
    rw [hsplit]
    have hC : 0 < (2:Nat) ^ (-e).toNat := Nat.two_pow_pos _
    have hP : 0 < (2:Nat) ^ (e + 1074).toNat := Nat.two_pow_pos _
    generalize (2:Nat) ^ (-e).toNat = C at *
    generalize (2:Nat) ^ (e + 1074).toNat = P at *
    have hdm := Nat.div_add_mod (n * C) d
    have hr := Nat.mod_lt (n * C) hd
    generalize n * C / d = q at *
    generalize n * C % d = r at *
    have key : n * (C * P) = q * P * d + r * P := by
      rw [← Nat.mul_assoc, ← hdm]; ring
    have h2 : r * P < d * P := Nat.mul_lt_mul_of_pos_right hr hP
    have h3 : (q + 1) * P * d = q * P * d + d * P := by ring
    refine ⟨?_, ?_, ?_, hd⟩
    · rw [key]; exact Nat.le_add_right _ _
    · rw [key, h3]; omega
    · intro h; rw [key]; have := Nat.mul_pos h hP; omega

/-! ### B. the exponent chosen by `roundNE` -/

/-- at the first candidate exponent the quotient is at least 2^52 -/
theorem quotF_q_ge (n d : Nat) (hn : n ≠ 0) (hd : d ≠ 0) :
    2 ^ 52 ≤ (quotF n d ((n.log2 : Int) - (d.log2 : Int) - 1 - 52)).1 := by
  have hn1 := Nat.log2_self_le hn
  have hd2 := @Nat.lt_log2_self d
  have hdpos : 0 < d := Nat.pos_of_ne_zero hd
  unfold quotF
  by_cases h1 : (n.log2 : Int) - (d.log2 : Int) - 1 - 52 ≥ 0
  · rw [if_pos h1]
    simp only
    rw [Nat.le_div_iff_mul_le (Nat.mul_pos hdpos (Nat.two_pow_pos _))]
    have hk : ((n.log2 : Int) - (d.log2 : Int) - 1 - 52).toNat = n.log2 - d.log2 - 53 := by omega
    have hge : d.log2 + 53 ≤ n.log2 := by omega
    rw [hk]
    calc 2 ^ 52 * (d * 2 ^ (n.log2 - d.log2 - 53))
        ≤ 2 ^ 52 * (2 ^ (d.log2 + 1) * 2 ^ (n.log2 - d.log2 - 53)) :=
          Nat.mul_le_mul_left _ (Nat.mul_le_mul_right _ (Nat.le_of_lt hd2))
      _ = 2 ^ n.log2 := by rw [← Nat.pow_add, ← Nat.pow_add]; congr 1; omega
      _ ≤ n := hn1
  · rw [if_neg h1]
    simp only
    rw [Nat.le_div_iff_mul_le hdpos]
    have hk : (-((n.log2 : Int) - (d.log2 : Int) - 1 - 52)).toNat = d.log2 + 53 - n.log2 := by omega
    have hge : n.log2 < d.log2 + 53 := by omega
    rw [hk]
    calc 2 ^ 52 * d ≤ 2 ^ 52 * 2 ^ (d.log2 + 1) := Nat.mul_le_mul_left _ (Nat.le_of_lt hd2)
      _ = 2 ^ n.log2 * 2 ^ (d.log2 + 53 - n.log2) := by
          rw [← Nat.pow_add, ← Nat.pow_add]; congr 1; omega
      _ ≤ n * 2 ^ (d.log2 + 53 - n.log2) := Nat.mul_le_mul_right _ hn1

theorem quotF_adj_ge (n d : Nat) (hn : n ≠ 0) (hd : d ≠ 0) :
    2 ^ 52 ≤ (quotF n d (adjE n d ((n.log2 : Int) - (d.log2 : Int) - 1 - 52))).1 := by
  have h0 := quotF_q_ge n d hn hd
  have h1 := quotF_q_lt n d hd
  generalize (n.log2 : Int) - (d.log2 : Int) - 1 - 52 = e0 at h0 h1 ⊢
  unfold adjE
  have hs := quotF_succ n d e0
  generalize hq : quotF n d e0 = qrd at h0 h1 hs ⊢
  obtain ⟨q, r, den⟩ := qrd
  simp only at h0 h1 hs ⊢
  rw [if_neg (by omega)]
  split
  · rw [hs]; omega
  · rw [hq]; exact h0

/-! ### C. the value of the packed result -/

theorem packTail_val (q : Nat) (e : Int) (he1 : -1074 ≤ e) (he2 : e ≤ -1) (hq : q < 2 ^ 53)
    (h : 2 ^ 52 ≤ q ∨ e = -1074) :
    Fin (packTail false q e) ∧ (packTail false q e).signBit = false ∧
      toInt (packTail false q e) = ((q * 2 ^ (e + 1074).toNat : Nat) : Int) := by
  by_cases h52 : q < 2 ^ 52
  · have he : e = -1074 := by omega
    have hp : packTail false q e = subn q := by
      unfold packTail subn; rw [if_pos h52]; simp
    rw [hp, he]
    refine ⟨subn_fin q h52, subn_signBit q h52, ?_⟩
    rw [subn_toInt q h52]; simp
  · have hN : Norm q (-e).toNat := ⟨by omega, hq, by omega, by omega⟩
    have hp : packTail false q e = pack q (-e).toNat := by
      unfold packTail pack
      rw [if_neg h52]
      simp only
      rw [if_neg (by omega)]
      have : (e + 1075).toNat = 1075 - (-e).toNat := by omega
      rw [this]; simp
    rw [hp]
    refine ⟨Fin_pack hN, hN.signBit, ?_⟩
    rw [toInt_pack hN]
    have : 1074 - (-e).toNat = (e + 1074).toNat := by omega
    rw [this]

/-- value of the final step of `roundNE` : the quotient, or the quotient plus one (only when the
    remainder is positive) -/
theorem finR_val (q r den : Nat) (e : Int) (hden : 0 < den) (he1 : -1074 ≤ e) (he2 : e ≤ -2) (hq : q < 2 ^ 53)
    (h : 2 ^ 52 ≤ q ∨ e = -1074) :
    Fin (finR false e (q, r, den)) ∧ (finR false e (q, r, den)).signBit = false ∧
      (toInt (finR false e (q, r, den)) = ((q * 2 ^ (e + 1074).toNat : Nat) : Int) ∨
       (0 < r ∧ toInt (finR false e (q, r, den)) = (((q + 1) * 2 ^ (e + 1074).toNat : Nat) : Int))) := by
  rw [finR_eq_packTail]
  simp only
  by_cases hup : (2 * r > den || (2 * r == den && q % 2 == 1)) = true
  · rw [if_pos hup]
    have hr : 0 < r := by
      rcases Nat.eq_zero_or_pos r with h0 | h0
      · subst h0
        simp at hup
        omega
      · exact h0
    by_cases h53 : q + 1 ≥ 2 ^ 53
    · rw [if_pos h53]
      have hq1 : q + 1 = 2 ^ 53 := by omega
      have hd2 : (q + 1) / 2 = 2 ^ 52 := by rw [hq1]; decide
      rw [hd2]
      obtain ⟨a, b, c⟩ := packTail_val (2 ^ 52) (e + 1) (by omega) (by omega) (by decide) (Or.inl (Nat.le_refl _))
      refine ⟨a, b, Or.inr ⟨hr, ?_⟩⟩
      rw [c, hq1]
      have : (e + 1 + 1074).toNat = (e + 1074).toNat + 1 := by omega
      rw [this, Nat.pow_succ]
      congr 1
      rw [show (2:Nat) ^ 53 = 2 ^ 52 * 2 from by decide]
      ring
    · rw [if_neg h53]
      obtain ⟨a, b, c⟩ := packTail_val (q + 1) e he1 (by omega) (by omega) (by omega)
      exact ⟨a, b, Or.inr ⟨hr, c⟩⟩
  · rw [if_neg hup, if_neg (by omega)]
    obtain ⟨a, b, c⟩ := packTail_val q e he1 (by omega) hq h
    exact ⟨a, b, Or.inl c⟩

/-! ### D. faithfulness -/

theorem repr_small {m t E : Nat} (hm : m < 2 ^ 53) (ht : t < E) : m * 2 ^ t < 2 ^ 52 * 2 ^ E := by
  calc m * 2 ^ t < 2 ^ 53 * 2 ^ t := Nat.mul_lt_mul_of_pos_right hm (Nat.two_pow_pos _)
    _ = 2 ^ 52 * 2 ^ (t + 1) := by rw [Nat.pow_succ]; ring
    _ ≤ 2 ^ 52 * 2 ^ E := Nat.mul_le_mul_left _ (Nat.pow_le_pow_right (by decide) ht)

theorem repr_multiple {m t E : Nat} (ht : E ≤ t) : m * 2 ^ t = (m * 2 ^ (t - E)) * 2 ^ E := by
  rw [Nat.mul_assoc, ← Nat.pow_add]; congr 2; omega

/-- the bracket argument, on naturals: `q` is the floor quotient at unit `2^E` (normal: `q ≥ 2^52`, or `E = 0`) -/
theorem bracket_lower (n d q E G X : Nat) (hd : 0 < d) (hG : Repr G)
    (s2 : X < (q + 1) * 2 ^ E * d) (hq : 2 ^ 52 ≤ q ∨ E = 0) (hle : G * d ≤ X) : G ≤ q * 2 ^ E := by
  obtain ⟨m, t, rfl, hm⟩ := hG
  by_cases ht : E ≤ t
  · rw [repr_multiple ht] at hle ⊢
    generalize m * 2 ^ (t - E) = c at *
    have : c * (2 ^ E * d) < (q + 1) * (2 ^ E * d) := by
      rw [← Nat.mul_assoc, ← Nat.mul_assoc]; omega
    have hc := Nat.lt_of_mul_lt_mul_right this
    exact Nat.mul_le_mul_right _ (by omega)
  · have h52 : 2 ^ 52 ≤ q := by rcases hq with h | h <;> omega
    have := repr_small hm (by omega : t < E)
    have : 2 ^ 52 * 2 ^ E ≤ q * 2 ^ E := Nat.mul_le_mul_right _ h52
    omega

theorem bracket_upper (d q E G X : Nat) (hd : 0 < d) (hG : Repr G)
    (s1 : q * 2 ^ E * d < X) (hq : 2 ^ 52 ≤ q ∨ E = 0) (hle : X ≤ G * d) : (q + 1) * 2 ^ E ≤ G := by
  obtain ⟨m, t, rfl, hm⟩ := hG
  by_cases ht : E ≤ t
  · rw [repr_multiple ht] at hle ⊢
    generalize m * 2 ^ (t - E) = c at *
    have : q * (2 ^ E * d) < c * (2 ^ E * d) := by
      rw [← Nat.mul_assoc, ← Nat.mul_assoc]; omega
    have hc := Nat.lt_of_mul_lt_mul_right this
    exact Nat.mul_le_mul_right _ (by omega)
  · exfalso
    have h52 : 2 ^ 52 ≤ q := by rcases hq with h | h <;> omega
    have h1 := repr_small hm (by omega : t < E)
    have h2 : 2 ^ 52 * 2 ^ E ≤ q * 2 ^ E := Nat.mul_le_mul_right _ h52
    have h3 : m * 2 ^ t * d ≤ q * 2 ^ E * d := Nat.mul_le_mul_right _ (by omega)
    omega

/-- **`roundNE` is faithful** (positive sign; values below 2^51). -/
theorem roundNE_faithful (n d : Nat) (hn : 0 < n) (hd : 0 < d) (hub : n < 2 ^ 51 * d) :
    Fin (F64.roundNE false n d) ∧ (F64.roundNE false n d).signBit = false ∧
    ∃ T : Nat, toInt (F64.roundNE false n d) = (T : Int) ∧
      (∀ G, Repr G → G * d ≤ n * 2 ^ 1074 → G ≤ T) ∧ (∀ G, Repr G → n * 2 ^ 1074 ≤ G * d → T ≤ G) := by
  rw [roundNE_eq]
  have hn' : (n == 0) = false := by simpa using (by omega : n ≠ 0)
  simp only [hn', Bool.false_eq_true, if_false]
  have hlt := quotF_adj_lt n d (by omega)
  have hge := quotF_adj_ge n d (by omega) (by omega)
  generalize adjE n d ((n.log2 : Int) - (d.log2 : Int) - 1 - 52) = e1 at hlt hge ⊢
  generalize hedef : (if e1 < -1074 then (-1074 : Int) else e1) = e
  have he1 : -1074 ≤ e := by rw [← hedef]; split <;> omega
  have hee : e1 ≤ e := by rw [← hedef]; split <;> omega
  have hq53 : (quotF n d e).1 < 2 ^ 53 := lt_of_le_of_lt (quotF_q_mono n d hd e1 e hee) hlt
  have hq52 : 2 ^ 52 ≤ (quotF n d e).1 ∨ e = -1074 := by
    by_cases h : e1 < -1074
    · right; rw [← hedef, if_pos h]
    · left; rw [← hedef, if_neg h]; exact hge
  obtain ⟨s1, s2, s3, s4⟩ := quotF_spec n d hd e he1
  generalize quotF n d e = qrd at *
  obtain ⟨q, r, den⟩ := qrd
  simp only at hq53 hq52 s1 s2 s3 s4
  have hEdef : (e + 1074).toNat = 0 ↔ e = -1074 := by omega
  generalize hE : (e + 1074).toNat = E at *
  have hB : 0 < (2:Nat) ^ 1074 := Nat.two_pow_pos _
  -- the value is below 2^51, so the unit is at most 2^-2 ... 2^-1074
  have he2 : e ≤ -2 := by
    rcases hq52 with h | h
    · have h1 : 2 ^ 52 * 2 ^ E * d ≤ q * 2 ^ E * d :=
        Nat.mul_le_mul_right _ (Nat.mul_le_mul_right _ h)
      have h2 : n * 2 ^ 1074 < 2 ^ 51 * d * 2 ^ 1074 := Nat.mul_lt_mul_of_pos_right hub hB
      have h3 : 2 ^ (52 + E) * d < 2 ^ (51 + 1074) * d := by
        rw [Nat.pow_add, Nat.pow_add 2 51 1074]
        have : 2 ^ 51 * 2 ^ 1074 * d = 2 ^ 51 * d * 2 ^ 1074 := by ring
        omega
      have h4 := Nat.lt_of_mul_lt_mul_right h3
      rw [Nat.pow_lt_pow_iff_right (by decide)] at h4
      omega
    · omega
  have hq52' : 2 ^ 52 ≤ q ∨ E = 0 := by
    rcases hq52 with h | h
    · exact Or.inl h
    · exact Or.inr (hEdef.2 h)
  obtain ⟨f1, f2, f3⟩ := finR_val q r den e s4 he1 he2 hq53 hq52
  rw [hE] at f3
  refine ⟨f1, f2, ?_⟩
  rcases f3 with f3 | ⟨hr, f3⟩
  · refine ⟨q * 2 ^ E, f3, ?_, ?_⟩
    · intro G hG hle
      exact bracket_lower n d q E G _ hd hG s2 hq52' hle
    · intro G hG hle
      have : q * 2 ^ E * d ≤ G * d := Nat.le_trans s1 hle
      exact Nat.le_of_mul_le_mul_right this hd
  · refine ⟨(q + 1) * 2 ^ E, f3, ?_, ?_⟩
    · intro G hG hle
      have := bracket_lower n d q E G _ hd hG s2 hq52' hle
      have : q * 2 ^ E ≤ (q + 1) * 2 ^ E := Nat.mul_le_mul_right _ (by omega)
      omega
    · intro G hG hle
      exact bracket_upper d q E G _ hd hG (s3 hr) hq52' hle

/-! ### E. signs, magnitudes -/

/-- magnitude of a finite float in units of 2^-1074 -/
def amag (x : F64) : Nat := (toInt x).natAbs

theorem amag_eq (x : F64) : amag x = x.mant * 2 ^ (x.expo + 1074).toNat := by
  unfold amag toInt F64.toIntAt
  have : (x.expo - -1074) = x.expo + 1074 := by omega
  rw [this]
  cases x.signBit <;> simp [Int.natAbs_mul, Int.natAbs_pow]

theorem toInt_eq_amag (x : F64) : toInt x = if x.signBit then -(amag x : Int) else (amag x : Int) := by
  rw [amag_eq]
  unfold toInt F64.toIntAt
  have : (x.expo - -1074) = x.expo + 1074 := by omega
  rw [this]
  cases x.signBit <;> simp

theorem repr_amag (x : F64) : Repr (amag x) := by
  rw [amag_eq]; exact repr_mul_pow _ (mant_lt x)

theorem fin_neg {x : F64} : F64Order.Fin (F64.neg x) ↔ F64Order.Fin x := by
  unfold F64Order.Fin; rw [C18.expField_neg]

theorem toInt_neg (x : F64) : toInt (F64.neg x) = - toInt x := by
  unfold toInt; exact C18.toIntAt_neg x _

theorem amag_neg (x : F64) : amag (F64.neg x) = amag x := by
  unfold amag; rw [toInt_neg]; simp

theorem amag_pos_of_not_isZero {x : F64} (h : x.isZero = false) : 0 < amag x := by
  rw [amag_eq]; exact Nat.mul_pos (mant_pos_of_not_isZero h) (Nat.two_pow_pos _)

theorem isZero_of_amag_pos {x : F64} (h : 0 < amag x) : x.isZero = false := by
  cases hz : x.isZero
  · rfl
  · rw [amag_eq, isZero_mant hz] at h; omega

/-- faithful rounding, any sign -/
theorem roundNE_faithful_s (s : Bool) (n d : Nat) (hn : 0 < n) (hd : 0 < d) (hub : n < 2 ^ 51 * d) :
    Fin (F64.roundNE s n d) ∧ (F64.roundNE s n d).signBit = s ∧
      (∀ G, Repr G → G * d ≤ n * 2 ^ 1074 → G ≤ amag (F64.roundNE s n d)) ∧
      (∀ G, Repr G → n * 2 ^ 1074 ≤ G * d → amag (F64.roundNE s n d) ≤ G) := by
  obtain ⟨f1, f2, T, f3, f4, f5⟩ := roundNE_faithful n d hn hd hub
  have hT : amag (F64.roundNE false n d) = T := by unfold amag; rw [f3]; simp
  cases s
  · exact ⟨f1, f2, by rw [hT]; exact f4, by rw [hT]; exact f5⟩
  · have e : F64.roundNE true n d = F64.neg (F64.roundNE false n d) :=
      (C18.roundNE_neg false n d (by omega)).symm
    rw [e, amag_neg, hT]
    exact ⟨fin_neg.2 f1, by rw [C18.signBit_neg, f2]; rfl, f4, f5⟩

/-- faithful rounding of the dyadic `m·2^e`; the exact value is `V/2^2148`, `V = m·2^(e+2148)` -/
theorem roundDyadic_faithful (s : Bool) (m : Nat) (e : Int) (hm : 0 < m) (he : -2148 ≤ e)
    (hub : m * 2 ^ (e + 2148).toNat < 2 ^ 51 * (2 ^ 1074 * 2 ^ 1074)) :
    F64Order.Fin (F64.roundDyadic s m e) ∧ (F64.roundDyadic s m e).signBit = s ∧
      (∀ G, Repr G → G * 2 ^ 1074 ≤ m * 2 ^ (e + 2148).toNat → G ≤ amag (F64.roundDyadic s m e)) ∧
      (∀ G, Repr G → m * 2 ^ (e + 2148).toNat ≤ G * 2 ^ 1074 → amag (F64.roundDyadic s m e) ≤ G) := by
  have hB : 0 < (2:Nat) ^ 1074 := Nat.two_pow_pos _
  unfold F64.roundDyadic
  by_cases h0 : e ≥ 0
  · rw [if_pos h0]
    have hE : (e + 2148).toNat = e.toNat + (1074 + 1074) := by omega
    rw [hE, Nat.pow_add, Nat.pow_add 2 1074 1074] at hub ⊢
    have hA : 0 < (2:Nat) ^ e.toNat := Nat.two_pow_pos _
    generalize (2:Nat) ^ e.toNat = A at *
    generalize hBdef : (2:Nat) ^ 1074 = B at *
    have hub' : m * A < 2 ^ 51 * 1 := by
      have : m * (A * (B * B)) = m * A * (B * B) := by ring
      rw [this] at hub
      have := Nat.lt_of_mul_lt_mul_right hub
      omega
    obtain ⟨f1, f2, f3, f4⟩ := roundNE_faithful_s s (m * A) 1 (Nat.mul_pos hm hA) (by decide) hub'
    rw [hBdef] at f3 f4
    refine ⟨f1, f2, ?_, ?_⟩
    · intro G hG hle
      apply f3 G hG
      have : m * (A * (B * B)) = m * A * B * B := by ring
      rw [this] at hle
      have := Nat.le_of_mul_le_mul_right hle hB
      omega
    · intro G hG hle
      apply f4 G hG
      have : m * (A * (B * B)) = m * A * B * B := by ring
      rw [this] at hle
      have := Nat.le_of_mul_le_mul_right hle hB
      omega
  · rw [if_neg h0]
    have hsplit : (2:Nat) ^ (-e).toNat * 2 ^ (e + 2148).toNat = 2 ^ 1074 * 2 ^ 1074 := by
      rw [← Nat.pow_add, ← Nat.pow_add]
      have : (-e).toNat + (e + 2148).toNat = 1074 + 1074 := by omega
      rw [this]
    have hD : 0 < (2:Nat) ^ (-e).toNat := Nat.two_pow_pos _
    have hQ : 0 < (2:Nat) ^ (e + 2148).toNat := Nat.two_pow_pos _
    generalize (2:Nat) ^ (-e).toNat = D at *
    generalize (2:Nat) ^ (e + 2148).toNat = Q at *
    generalize hBdef : (2:Nat) ^ 1074 = B at *
    have hub' : m < 2 ^ 51 * D := by
      rw [← hsplit] at hub
      have : 2 ^ 51 * (D * Q) = 2 ^ 51 * D * Q := by ring
      rw [this] at hub
      exact Nat.lt_of_mul_lt_mul_right hub
    obtain ⟨f1, f2, f3, f4⟩ := roundNE_faithful_s s m D hm hD hub'
    rw [hBdef] at f3 f4
    refine ⟨f1, f2, ?_, ?_⟩
    · intro G hG hle
      apply f3 G hG
      have h1 : G * D * Q ≤ m * B * Q := by
        have e1 : G * D * Q = G * B * B := by rw [Nat.mul_assoc, hsplit, Nat.mul_assoc]
        have e2 : m * B * Q = m * Q * B := by ring
        rw [e1, e2]
        exact Nat.mul_le_mul_right _ hle
      exact Nat.le_of_mul_le_mul_right h1 hQ
    · intro G hG hle
      apply f4 G hG
      have h1 : m * B * Q ≤ G * D * Q := by
        have e1 : G * D * Q = G * B * B := by rw [Nat.mul_assoc, hsplit, Nat.mul_assoc]
        have e2 : m * B * Q = m * Q * B := by ring
        rw [e1, e2]
        exact Nat.mul_le_mul_right _ hle
      exact Nat.le_of_mul_le_mul_right h1 hQ

/-! ### F. the arithmetic operations -/

/-- multiplication of finite non-zero floats is faithful -/
theorem mul_spec (x y : F64) (hx : Fin x) (hy : Fin y) (zx : x.isZero = false) (zy : y.isZero = false)
    (hub : amag x * amag y < 2 ^ 51 * (2 ^ 1074 * 2 ^ 1074)) :
    Fin (x * y) ∧ (x * y).signBit = (x.signBit != y.signBit) ∧
      (∀ G, Repr G → G * 2 ^ 1074 ≤ amag x * amag y → G ≤ amag (x * y)) ∧
      (∀ G, Repr G → amag x * amag y ≤ G * 2 ^ 1074 → amag (x * y) ≤ G) := by
  have hop : x * y = F64.mul x y := rfl
  rw [hop]
  have ex := expo_ge x
  have ey := expo_ge y
  have hV : amag x * amag y = x.mant * y.mant * 2 ^ (x.expo + y.expo + 2148).toNat := by
    rw [amag_eq, amag_eq]
    have : (x.expo + y.expo + 2148).toNat = (x.expo + 1074).toNat + (y.expo + 1074).toNat := by omega
    rw [this, Nat.pow_add]; ring
  unfold F64.mul
  simp only [isNaN_false hx, isNaN_false hy, isInf_false hx, isInf_false hy, zx, zy, Bool.or_self,
    Bool.false_eq_true, if_false]
  rw [hV] at hub ⊢
  exact roundDyadic_faithful _ _ _ (Nat.mul_pos (mant_pos_of_not_isZero zx) (mant_pos_of_not_isZero zy))
    (by omega) hub

/-- division of finite non-zero floats is faithful -/
theorem div_spec (x y : F64) (hx : Fin x) (hy : Fin y) (zx : x.isZero = false) (zy : y.isZero = false)
    (hub : amag x < 2 ^ 51 * amag y) :
    Fin (x / y) ∧ (x / y).signBit = (x.signBit != y.signBit) ∧
      (∀ G, Repr G → G * amag y ≤ amag x * 2 ^ 1074 → G ≤ amag (x / y)) ∧
      (∀ G, Repr G → amag x * 2 ^ 1074 ≤ G * amag y → amag (x / y) ≤ G) := by
  have hop : x / y = F64.div x y := rfl
  rw [hop]
  have ex := expo_ge x
  have ey := expo_ge y
  have hmx := mant_pos_of_not_isZero zx
  have hmy := mant_pos_of_not_isZero zy
  rw [amag_eq x, amag_eq y] at hub ⊢
  unfold F64.div
  simp only [isNaN_false hx, isNaN_false hy, isInf_false hx, isInf_false hy, zx, zy, Bool.or_self,
    Bool.false_eq_true, if_false]
  have hB : 0 < (2:Nat) ^ 1074 := Nat.two_pow_pos _
  by_cases h0 : x.expo - y.expo ≥ 0
  · rw [if_pos h0]
    have hsplit : (2:Nat) ^ (x.expo + 1074).toNat = 2 ^ (x.expo - y.expo).toNat * 2 ^ (y.expo + 1074).toNat := by
      rw [← Nat.pow_add]; congr 1; omega
    rw [hsplit] at hub ⊢
    have hA : 0 < (2:Nat) ^ (x.expo - y.expo).toNat := Nat.two_pow_pos _
    have hQ : 0 < (2:Nat) ^ (y.expo + 1074).toNat := Nat.two_pow_pos _
    generalize (2:Nat) ^ (x.expo - y.expo).toNat = A at *
    generalize (2:Nat) ^ (y.expo + 1074).toNat = Q at *
    generalize hBdef : (2:Nat) ^ 1074 = B at *
    have hub' : x.mant * A < 2 ^ 51 * y.mant := by
      have h1 : x.mant * (A * Q) = x.mant * A * Q := by ring
      have h2 : 2 ^ 51 * (y.mant * Q) = 2 ^ 51 * y.mant * Q := by ring
      rw [h1, h2] at hub
      exact Nat.lt_of_mul_lt_mul_right hub
    obtain ⟨f1, f2, f3, f4⟩ := roundNE_faithful_s (x.signBit != y.signBit) (x.mant * A) y.mant
      (Nat.mul_pos hmx hA) hmy hub'
    rw [hBdef] at f3 f4
    refine ⟨f1, f2, ?_, ?_⟩
    · intro G hG hle
      apply f3 G hG
      have h1 : G * (y.mant * Q) = G * y.mant * Q := by ring
      have h2 : x.mant * (A * Q) * B = x.mant * A * B * Q := by ring
      rw [h1, h2] at hle
      exact Nat.le_of_mul_le_mul_right hle hQ
    · intro G hG hle
      apply f4 G hG
      have h1 : G * (y.mant * Q) = G * y.mant * Q := by ring
      have h2 : x.mant * (A * Q) * B = x.mant * A * B * Q := by ring
      rw [h1, h2] at hle
      exact Nat.le_of_mul_le_mul_right hle hQ
  · rw [if_neg h0]
    have hsplit : (2:Nat) ^ (y.expo + 1074).toNat = 2 ^ (-(x.expo - y.expo)).toNat * 2 ^ (x.expo + 1074).toNat := by
      rw [← Nat.pow_add]; congr 1; omega
    rw [hsplit] at hub ⊢
    have hA : 0 < (2:Nat) ^ (-(x.expo - y.expo)).toNat := Nat.two_pow_pos _
    have hQ : 0 < (2:Nat) ^ (x.expo + 1074).toNat := Nat.two_pow_pos _
    generalize (2:Nat) ^ (-(x.expo - y.expo)).toNat = A at *
    generalize (2:Nat) ^ (x.expo + 1074).toNat = Q at *
    generalize hBdef : (2:Nat) ^ 1074 = B at *
    have hub' : x.mant < 2 ^ 51 * (y.mant * A) := by
      have h2 : 2 ^ 51 * (y.mant * (A * Q)) = 2 ^ 51 * (y.mant * A) * Q := by ring
      rw [h2] at hub
      exact Nat.lt_of_mul_lt_mul_right hub
    obtain ⟨f1, f2, f3, f4⟩ := roundNE_faithful_s (x.signBit != y.signBit) x.mant (y.mant * A)
      hmx (Nat.mul_pos hmy hA) hub'
    rw [hBdef] at f3 f4
    refine ⟨f1, f2, ?_, ?_⟩
    · intro G hG hle
      apply f3 G hG
      have h1 : G * (y.mant * (A * Q)) = G * (y.mant * A) * Q := by ring
      have h2 : x.mant * Q * B = x.mant * B * Q := by ring
      rw [h1, h2] at hle
      exact Nat.le_of_mul_le_mul_right hle hQ
    · intro G hG hle
      apply f4 G hG
      have h1 : G * (y.mant * (A * Q)) = G * (y.mant * A) * Q := by ring
      have h2 : x.mant * Q * B = x.mant * B * Q := by ring
      rw [h1, h2] at hle
      exact Nat.le_of_mul_le_mul_right hle hQ

/-- addition of finite floats with non-zero exact sum is faithful -/
theorem add_spec (x y : F64) (hx : Fin x) (hy : Fin y) (hS : toInt x + toInt y ≠ 0)
    (hub : (toInt x + toInt y).natAbs < 2 ^ 51 * 2 ^ 1074) :
    Fin (x + y) ∧ (x + y).signBit = decide (toInt x + toInt y < 0) ∧
      (∀ G, Repr G → G ≤ (toInt x + toInt y).natAbs → G ≤ amag (x + y)) ∧
      (∀ G, Repr G → (toInt x + toInt y).natAbs ≤ G → amag (x + y) ≤ G) := by
  have hop : x + y = F64.add x y := rfl
  rw [hop]
  have ex := expo_ge x
  have ey := expo_ge y
  have hmin1 : min x.expo y.expo ≤ x.expo := min_le_left _ _
  have hmin2 : min x.expo y.expo ≤ y.expo := min_le_right _ _
  have hmin3 : -1074 ≤ min x.expo y.expo := le_min ex ey
  have sx := toIntAt_scale x _ hmin1 hmin3
  have sy := toIntAt_scale y _ hmin2 hmin3
  have hnz : ¬ (x.isZero = true ∧ y.isZero = true) := by
    rintro ⟨a, b⟩
    apply hS
    have h1 : toInt x = 0 := by rw [toInt_eq_amag, amag_eq, isZero_mant a]; simp
    have h2 : toInt y = 0 := by rw [toInt_eq_amag, amag_eq, isZero_mant b]; simp
    omega
  unfold F64.add
  simp only [isNaN_false hx, isNaN_false hy, isInf_false hx, isInf_false hy, Bool.or_self,
    Bool.false_eq_true, if_false]
  rw [if_neg (by simpa using hnz)]
  unfold toInt at hS hub ⊢
  generalize min x.expo y.expo = e at *
  have hsum : x.toIntAt (-1074) + y.toIntAt (-1074) = (x.toIntAt e + y.toIntAt e) * 2 ^ (e + 1074).toNat := by
    rw [sx, sy]; ring
  generalize x.toIntAt e + y.toIntAt e = s at *
  have hP : (0:Int) < 2 ^ (e + 1074).toNat := by positivity
  have hs0 : s ≠ 0 := by
    rintro rfl; apply hS; rw [hsum]; simp
  have hbeq : (s == 0) = false := by simpa using hs0
  simp only [hbeq, Bool.false_eq_true, if_false]
  have hsign : decide (x.toIntAt (-1074) + y.toIntAt (-1074) < 0) = decide (s < 0) := by
    rw [hsum]
    congr 1
    apply propext
    constructor
    · intro h; by_contra hc
      have : 0 ≤ s * 2 ^ (e + 1074).toNat := Int.mul_nonneg (by omega) (le_of_lt hP)
      omega
    · intro h; exact Int.mul_neg_of_neg_of_pos h hP
  have habs : (x.toIntAt (-1074) + y.toIntAt (-1074)).natAbs = s.natAbs * 2 ^ (e + 1074).toNat := by
    rw [hsum, Int.natAbs_mul, Int.natAbs_pow]; rfl
  rw [habs] at hub
  rw [hsign, habs]
  have hE : (e + 2148).toNat = (e + 1074).toNat + 1074 := by omega
  have hV : s.natAbs * 2 ^ (e + 2148).toNat = s.natAbs * 2 ^ (e + 1074).toNat * 2 ^ 1074 := by
    rw [hE, Nat.pow_add]; ring
  have hB : 0 < (2:Nat) ^ 1074 := Nat.two_pow_pos _
  obtain ⟨f1, f2, f3, f4⟩ := roundDyadic_faithful (decide (s < 0)) s.natAbs e (by omega) (by omega)
    (by rw [hV, ← Nat.mul_assoc]
        exact Nat.mul_lt_mul_of_pos_right hub hB)
  rw [hV] at f3 f4
  refine ⟨f1, f2, ?_, ?_⟩
  · intro G hG hle
    exact f3 G hG (Nat.mul_le_mul_right _ hle)
  · intro G hG hle
    exact f4 G hG (Nat.mul_le_mul_right _ hle)

end S2Proofs.F64Faithful
