/-
  S2Proofs.WrapIJ — `wrapIJ` (the float part of `cellIDFromFaceIJWrap`) computed for ALL arguments:
  identity on in-range (i,j) (`wrapIJ_in`, hence `WrapExactOn` always holds), and the explicit neighbour
  face / coordinates when exactly one of i, j is out of range (`wrapIJ_iHi`, `wrapIJ_iLo`, `wrapIJ_jHi`, `wrapIJ_jLo`).
-/
import S2Proofs.WrapFloat
open S2 S2.Exact S2.STUV S2Proofs.Codec S2Proofs.F64Order S2Proofs.C12ST S2Proofs.F64Faithful S2Proofs.WrapFloat
set_option exponentiation.threshold 3000
set_option linter.unusedSimpArgs false
set_option linter.unusedVariables false

namespace S2Proofs.C01W

theorem clamp_in (i : Int) (h0 : -1 ≤ i) (h1 : i ≤ 1073741824) : clampInt i (-1) 1073741824 = i := by
  unfold clampInt; split_ifs <;> omega
theorem clamp_hi (i : Int) (h1 : 1073741824 ≤ i) : clampInt i (-1) 1073741824 = 1073741824 := by
  unfold clampInt; split_ifs <;> omega
theorem clamp_lo (i : Int) (h1 : i ≤ -1) : clampInt i (-1) 1073741824 = -1 := by
  unfold clampInt; split_ifs <;> omega

/-- **the float wrap is the identity on in-range arguments** (all faces, all 2^60 pairs) -/
theorem wrapIJ_in (f : Nat) (hf : f < 6) (i j : Int) (hi0 : 0 ≤ i) (hi1 : i < 1073741824)
    (hj0 : 0 ≤ j) (hj1 : j < 1073741824) : wrapIJ f i j = (f, i.toNat, j.toNat) := by
  rw [wrapIJ_eq, clamp_in i (by omega) (by omega), clamp_in j (by omega) (by omega)]
  have ha := uc_exact i hi0 hi1
  have hb := uc_exact j hj0 hj1
  have hwa : OddW (2 * i + 1 - 1073741824) := by unfold OddW; omega
  have hwb : OddW (2 * j + 1 - 1073741824) := by unfold OddW; omega
  obtain ⟨a1, a2, a3, a4⟩ := cmp_facts ha hwa
  obtain ⟨b1, b2, b3, b4⟩ := cmp_facts hb hwb
  obtain ⟨c1, c2, c3, c4, c5, c6⟩ := const_cmp
  obtain ⟨k1, k2, k3, k4, k5, k6, k7, k8⟩ := coord_facts _ _ ha hwa
  obtain ⟨l1, l2, l3, l4, l5, l6, l7, l8⟩ := coord_facts _ _ hb hwb
  generalize uc i = a at *
  generalize uc j = b at *
  interval_cases f <;>
  simp [xyzToFaceUV, faceUVToXYZ, STUV.face, V3.largestComponent, V3.abs, validFaceXYZToUV, neg_def, abs_neg,
    a1, a2, a3, a4, b1, b2, b3, b4, c1, c2, c3, c4, c5, c6, S2Proofs.C18.f64_neg_neg,
    k1, k2, k3, k4, k5, k6, k7, k8, l1, l2, l3, l4, l5, l6, l7, l8] <;>
  (clear k1 k2 k3 k4 k5 k6 k7 k8 l1 l2 l3 l4 l5 l6 l7 l8; omega)

/-- i beyond the upper face edge (i ≥ 2^30), j in range -/
theorem wrapIJ_iHi (f : Nat) (hf : f < 6) (i j : Int) (hi : 1073741824 ≤ i)
    (hj0 : 0 ≤ j) (hj1 : j < 1073741824) :
    wrapIJ f i j = if f % 2 = 0 then ((f + 1) % 6, 0, j.toNat) else ((f + 2) % 6, (1073741823 - j).toNat, 0) := by
  rw [wrapIJ_eq, clamp_hi i hi, clamp_in j (by omega) (by omega), uc_high]
  have hb := uc_exact j hj0 hj1
  have hwb : OddW (2 * j + 1 - 1073741824) := by unfold OddW; omega
  obtain ⟨b1, b2, b3, b4⟩ := cmp_facts hb hwb
  obtain ⟨c1, c2, c3, c4, c5, c6⟩ := const_cmp
  obtain ⟨d1, d2, d3, d4⟩ := const_coord
  obtain ⟨l1, l2, l3, l4, l5, l6, l7, l8⟩ := coord_facts _ _ hb hwb
  generalize uc j = b at *
  interval_cases f <;>
  simp [xyzToFaceUV, faceUVToXYZ, STUV.face, V3.largestComponent, V3.abs, validFaceXYZToUV, neg_def, abs_neg,
    b1, b2, b3, b4, c1, c2, c3, c4, c5, c6, d1, d2, d3, d4, S2Proofs.C18.f64_neg_neg,
    l1, l2, l3, l4, l5, l6, l7, l8] <;>
  (clear l1 l2 l3 l4 l5 l6 l7 l8 d1 d2 d3 d4; omega)

/-- i beyond the lower face edge (i ≤ −1), j in range -/
theorem wrapIJ_iLo (f : Nat) (hf : f < 6) (i j : Int) (hi : i ≤ -1)
    (hj0 : 0 ≤ j) (hj1 : j < 1073741824) :
    wrapIJ f i j = if f % 2 = 0 then ((f + 4) % 6, (1073741823 - j).toNat, 1073741823)
      else ((f + 5) % 6, 1073741823, j.toNat) := by
  rw [wrapIJ_eq, clamp_lo i hi, clamp_in j (by omega) (by omega), uc_low]
  have hb := uc_exact j hj0 hj1
  have hwb : OddW (2 * j + 1 - 1073741824) := by unfold OddW; omega
  obtain ⟨b1, b2, b3, b4⟩ := cmp_facts hb hwb
  obtain ⟨c1, c2, c3, c4, c5, c6⟩ := const_cmp
  obtain ⟨d1, d2, d3, d4⟩ := const_coord
  obtain ⟨l1, l2, l3, l4, l5, l6, l7, l8⟩ := coord_facts _ _ hb hwb
  generalize uc j = b at *
  interval_cases f <;>
  simp [xyzToFaceUV, faceUVToXYZ, STUV.face, V3.largestComponent, V3.abs, validFaceXYZToUV, neg_def, abs_neg,
    b1, b2, b3, b4, c1, c2, c3, c4, c5, c6, d1, d2, d3, d4, S2Proofs.C18.f64_neg_neg,
    l1, l2, l3, l4, l5, l6, l7, l8] <;>
  (clear l1 l2 l3 l4 l5 l6 l7 l8 d1 d2 d3 d4; omega)

/-- j beyond the upper face edge (j ≥ 2^30), i in range -/
theorem wrapIJ_jHi (f : Nat) (hf : f < 6) (i j : Int) (hj : 1073741824 ≤ j)
    (hi0 : 0 ≤ i) (hi1 : i < 1073741824) :
    wrapIJ f i j = if f % 2 = 0 then ((f + 2) % 6, 0, (1073741823 - i).toNat) else ((f + 1) % 6, i.toNat, 0) := by
  rw [wrapIJ_eq, clamp_hi j hj, clamp_in i (by omega) (by omega), uc_high]
  have ha := uc_exact i hi0 hi1
  have hwa : OddW (2 * i + 1 - 1073741824) := by unfold OddW; omega
  obtain ⟨a1, a2, a3, a4⟩ := cmp_facts ha hwa
  obtain ⟨c1, c2, c3, c4, c5, c6⟩ := const_cmp
  obtain ⟨d1, d2, d3, d4⟩ := const_coord
  obtain ⟨k1, k2, k3, k4, k5, k6, k7, k8⟩ := coord_facts _ _ ha hwa
  generalize uc i = a at *
  interval_cases f <;>
  simp [xyzToFaceUV, faceUVToXYZ, STUV.face, V3.largestComponent, V3.abs, validFaceXYZToUV, neg_def, abs_neg,
    a1, a2, a3, a4, c1, c2, c3, c4, c5, c6, d1, d2, d3, d4, S2Proofs.C18.f64_neg_neg,
    k1, k2, k3, k4, k5, k6, k7, k8] <;>
  (clear k1 k2 k3 k4 k5 k6 k7 k8 d1 d2 d3 d4; omega)

/-- j beyond the lower face edge (j ≤ −1), i in range -/
theorem wrapIJ_jLo (f : Nat) (hf : f < 6) (i j : Int) (hj : j ≤ -1)
    (hi0 : 0 ≤ i) (hi1 : i < 1073741824) :
    wrapIJ f i j = if f % 2 = 0 then ((f + 5) % 6, i.toNat, 1073741823)
      else ((f + 4) % 6, 1073741823, (1073741823 - i).toNat) := by
  rw [wrapIJ_eq, clamp_lo j hj, clamp_in i (by omega) (by omega), uc_low]
  have ha := uc_exact i hi0 hi1
  have hwa : OddW (2 * i + 1 - 1073741824) := by unfold OddW; omega
  obtain ⟨a1, a2, a3, a4⟩ := cmp_facts ha hwa
  obtain ⟨c1, c2, c3, c4, c5, c6⟩ := const_cmp
  obtain ⟨d1, d2, d3, d4⟩ := const_coord
  obtain ⟨k1, k2, k3, k4, k5, k6, k7, k8⟩ := coord_facts _ _ ha hwa
  generalize uc i = a at *
  interval_cases f <;>
  simp [xyzToFaceUV, faceUVToXYZ, STUV.face, V3.largestComponent, V3.abs, validFaceXYZToUV, neg_def, abs_neg,
    a1, a2, a3, a4, c1, c2, c3, c4, c5, c6, d1, d2, d3, d4, S2Proofs.C18.f64_neg_neg,
    k1, k2, k3, k4, k5, k6, k7, k8] <;>
  (clear k1 k2 k3 k4 k5 k6 k7 k8 d1 d2 d3 d4; omega)

end S2Proofs.C01W
