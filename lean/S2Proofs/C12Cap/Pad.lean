/-
  S2Proofs.C12Cap.Pad — a LOWER bound of the padded radius of `padCapBound` (s2/rect.go):

      c = R.Add(dc)   ;   padRadius c = c.Expanded(c.MaxAngleError() + c.MaxPointError())

  For a finite radius `R ∈ [0, 17/20]` and a finite increment `dc ≥ 35·ε²` (Go: `dc = 36·ε²`), everything in binary64:

      R·(1 + 9.6 ε) + 2.01 ε √R + 22 ε²  ≤  padRadius (R.Add(dc))           (ε = 2^-52)

  Structure: (1) real lower bound of the exact chord sum `caddR R (35 ε²)`; (2) float lower bound of the allowance
  `MaxAngleError + MaxPointError` (bookkeeping predicate `CA.Q` of `CapF64.ChordAdd`); (3) the real budget; (4) glue.
-/
import Mathlib.Tactic.Ring
import Mathlib.Tactic.Linarith
import Mathlib.Tactic.Positivity
import Mathlib.Tactic.NormNum
import Mathlib.Analysis.Real.Sqrt
import S2.CellCap
import S2Proofs.CapF64.Defs
import S2Proofs.CapF64.ChordAdd
import S2Proofs.CapF64.RealChord
import S2Proofs.CapF64.AddCap

namespace S2Proofs.C12Cap
open S2 S2.CellM S2Proofs.F64Order S2Proofs.FloatErr S2Proofs.CapF64 S2Proofs.CapF64.CA

set_option exponentiation.threshold 3000

/-! ### (1) the exact chord sum `caddR R (35 ε²)` from below -/

/-- the cross term `2·√(R(1−t/4)·t(1−R/4))` of the chord sum for `t = 35 ε²`, `R = r² ≤ 0.85` -/
theorem cross_lower {r : ℝ} (hr0 : 0 ≤ r) (hr : r ^ 2 ≤ 17 / 20) :
    523 / 50 * eps * r ≤
      2 * Real.sqrt (r ^ 2 * (1 - 35 * eps ^ 2 / 4) * (35 * eps ^ 2 * (1 - r ^ 2 / 4))) := by
  have he := eps_pos
  have hx : 0 ≤ 523 / 100 * eps * r := by positivity
  have hsq : (523 / 100 * eps * r) ^ 2 ≤ r ^ 2 * (1 - 35 * eps ^ 2 / 4) * (35 * eps ^ 2 * (1 - r ^ 2 / 4)) := by
    have h1 : 0 ≤ r ^ 2 * (17 / 20 - r ^ 2) := mul_nonneg (sq_nonneg r) (by linarith)
    have h2 : 0 ≤ r ^ 2 := sq_nonneg r
    unfold eps
    nlinarith [h1, h2]
  have : 523 / 100 * eps * r ≤ Real.sqrt (r ^ 2 * (1 - 35 * eps ^ 2 / 4) * (35 * eps ^ 2 * (1 - r ^ 2 / 4))) := by
    calc 523 / 100 * eps * r = Real.sqrt ((523 / 100 * eps * r) ^ 2) := (Real.sqrt_sq hx).symm
      _ ≤ _ := Real.sqrt_le_sqrt hsq
  linarith

theorem caddR_lower {r : ℝ} (hr0 : 0 ≤ r) (hr : r ^ 2 ≤ 17 / 20) :
    r ^ 2 * (1 - 35 * eps ^ 2 / 4) + 35 * eps ^ 2 * (1 - r ^ 2 / 4) + 523 / 50 * eps * r
      ≤ caddR (r ^ 2) (35 * eps ^ 2) := by
  have hc := cross_lower hr0 hr
  have hr1 : r ≤ 1 := by nlinarith
  have h35 : 35 * eps ^ 2 ≤ 1 / 1000 := by unfold eps; norm_num
  have h35' : 0 ≤ 35 * eps ^ 2 := by positivity
  have he : eps ≤ 1 / 1000000 := eps_le_small
  have he0 := eps_pos
  unfold caddR
  rw [if_neg (by intro h; linarith)]
  apply le_min
  · have h1 : r ^ 2 * (1 - 35 * eps ^ 2 / 4) ≤ r ^ 2 * 1 := mul_le_mul_of_nonneg_left (by linarith) (sq_nonneg r)
    have h2 : 35 * eps ^ 2 * (1 - r ^ 2 / 4) ≤ 35 * eps ^ 2 * 1 :=
      mul_le_mul_of_nonneg_left (by linarith [sq_nonneg r]) h35'
    have h3 : 523 / 50 * eps * r ≤ 523 / 50 * eps * 1 := mul_le_mul_of_nonneg_left hr1 (by positivity)
    linarith
  · linarith

/-! ### (2) the allowance `MaxAngleError + MaxPointError` from below -/

theorem padSlack_spec (c : F64) (fc : Fin c) (c0 : 0 ≤ val c) (c4 : val c ≤ 4) :
    Fin (maxAngleError c + Chord.maxPointError c) ∧ 0 ≤ val (maxAngleError c + Chord.maxPointError c) ∧
    val (maxAngleError c + Chord.maxPointError c) ≤ 1 ∧
    (epsS * val c + (9 / 2 * epsS * val c + 16 * epsS * epsS)) * (1 - uR) ^ 4 - 8 * eR
      ≤ val (maxAngleError c + Chord.maxPointError c) := by
  have e0 := eR_nonneg
  have hE52 : epsS ≤ 1 / 2 ^ 52 := epsS_bounds.2
  have hE0 : 0 ≤ epsS := le_trans (by unfold eps; norm_num) epsS_bounds.1
  have qc : Q c (val c) 0 0 4 := Q.exact fc c0 c4
  have qe : Q Chord.dblEpsilonS1 epsS 0 0 (1 / 2 ^ 52) := Q.exact val_epsS1.1 hE0 hE52
  have q45 := Q.const val_c45 (by norm_num)
  have q16 := Q.const val_c16 (by norm_num)
  have qmae : Q (maxAngleError c) (epsS * val c) 1 eR (1 / 2 ^ 49) :=
    Q.mul qe qc (by norm_num) (by linarith) (by unfold uR; norm_num) (small_big (by norm_num))
  have qk1 : Q ((⟨0x4012000000000000⟩ : F64) * Chord.dblEpsilonS1) (9 / 2 * epsS) 1 eR (1 / 2 ^ 49) :=
    Q.mul q45 qe (by norm_num) (by linarith) (by unfold uR; norm_num) (small_big (by norm_num))
  have qk1d : Q ((⟨0x4012000000000000⟩ : F64) * Chord.dblEpsilonS1 * c) (9 / 2 * epsS * val c) 2 (5 * eR) (1 / 2 ^ 46) :=
    Q.mul qk1 qc (by norm_num) (by linarith) (by unfold uR; norm_num) (small_big (by norm_num))
  have qk16 : Q ((⟨0x4030000000000000⟩ : F64) * Chord.dblEpsilonS1) (16 * epsS) 1 eR (1 / 2 ^ 47) :=
    Q.mul q16 qe (by norm_num) (by linarith) (by unfold uR; norm_num) (small_big (by norm_num))
  have qk2 : Q ((⟨0x4030000000000000⟩ : F64) * Chord.dblEpsilonS1 * Chord.dblEpsilonS1) (16 * epsS * epsS) 2 (2 * eR)
      (1 / 2 ^ 98) :=
    Q.mul qk16 qe (by norm_num) (by linarith) (by unfold uR; norm_num) (small_big (by norm_num))
  have qmpe : Q (Chord.maxPointError c) (9 / 2 * epsS * val c + 16 * epsS * epsS) 3 (7 * eR) (1 / 2 ^ 45) :=
    Q.add qk1d qk2 (by norm_num) (by norm_num) (by linarith) (by unfold uR; norm_num) (small_big (by norm_num))
  have qsum : Q (maxAngleError c + Chord.maxPointError c)
      (epsS * val c + (9 / 2 * epsS * val c + 16 * epsS * epsS)) 4 (8 * eR) (1 / 2 ^ 44) :=
    Q.add qmae qmpe (by norm_num) (by norm_num) (by linarith) (by unfold uR; norm_num) (small_big (by norm_num))
  obtain ⟨hf, h0, h1, _, _, _, hl⟩ := qsum
  exact ⟨hf, h0, le_trans h1 (by norm_num), hl⟩

/-- the allowance in round numbers: at least `5.49 ε c + 15.9 ε²` -/
theorem padSlack_lower {C e : ℝ} (C0 : 0 ≤ C)
    (he : (epsS * C + (9 / 2 * epsS * C + 16 * epsS * epsS)) * (1 - uR) ^ 4 - 8 * eR ≤ e) :
    549 / 100 * eps * C + 159 / 10 * eps ^ 2 ≤ e := by
  obtain ⟨hs1, hs2⟩ := epsS_bounds
  set e' : ℝ := eps * (1 - 1 / 2 ^ 30) with he'
  have he'0 : 0 ≤ e' := by rw [he']; unfold eps; norm_num
  have hs0 : 0 ≤ epsS := le_trans he'0 hs1
  have hk : 1 - 2 * eps ≤ (1 - uR) ^ 4 := by unfold eps uR; norm_num
  have hk0 : (0 : ℝ) ≤ 1 - 2 * eps := by unfold eps; norm_num
  have h1 : e' * C ≤ epsS * C := mul_le_mul_of_nonneg_right hs1 C0
  have h2 : e' * e' ≤ epsS * epsS := mul_le_mul hs1 hs1 he'0 hs0
  have hX0 : 0 ≤ epsS * C + (9 / 2 * epsS * C + 16 * epsS * epsS) := by positivity
  have hXY : 11 / 2 * (e' * C) + 16 * (e' * e') ≤ epsS * C + (9 / 2 * epsS * C + 16 * epsS * epsS) := by
    linarith
  have h3 : (11 / 2 * (e' * C) + 16 * (e' * e')) * (1 - 2 * eps)
      ≤ (epsS * C + (9 / 2 * epsS * C + 16 * epsS * epsS)) * (1 - uR) ^ 4 :=
    mul_le_mul hXY hk hk0 hX0
  have h4 : 549 / 100 * eps * C + 159 / 10 * eps ^ 2
      ≤ (11 / 2 * (e' * C) + 16 * (e' * e')) * (1 - 2 * eps) - 8 * eR := by
    have ha : 549 / 100 * eps ≤ 11 / 2 * e' * (1 - 2 * eps) := by rw [he']; unfold eps; norm_num
    have hb : 159 / 10 * eps ^ 2 ≤ 16 * (e' * e') * (1 - 2 * eps) - 8 * eR := by
      rw [he']; unfold eps eR; norm_num
    have hc : 549 / 100 * eps * C ≤ 11 / 2 * e' * (1 - 2 * eps) * C := mul_le_mul_of_nonneg_right ha C0
    have : (11 / 2 * (e' * C) + 16 * (e' * e')) * (1 - 2 * eps)
        = 11 / 2 * e' * (1 - 2 * eps) * C + 16 * (e' * e') * (1 - 2 * eps) := by ring
    rw [this]; linarith
  linarith

/-! ### (3) the budget -/

theorem real_budget {r C e : ℝ} (hr0 : 0 ≤ r) (hr : r ^ 2 ≤ 17 / 20)
    (hC : (r ^ 2 * (1 - 35 * eps ^ 2 / 4) + 35 * eps ^ 2 * (1 - r ^ 2 / 4) + 523 / 50 * eps * r) * (1 - 3 * eps)
        - 1 / 2 ^ 500 ≤ C)
    (he : 549 / 100 * eps * C + 159 / 10 * eps ^ 2 ≤ e) :
    r ^ 2 * (1 + 96 / 10 * eps) + 201 / 100 * eps * r + 22 * eps ^ 2 ≤ (C + e) * (1 - uR) := by
  have hr1 : r ≤ 461 / 500 := by nlinarith
  have hrr : r ^ 2 ≤ 461 / 500 * r := by nlinarith
  have hk2 : (0 : ℝ) ≤ 1 + 549 / 100 * eps := by unfold eps; norm_num
  have h1 := mul_le_mul_of_nonneg_right hC hk2
  have h2 : ((r ^ 2 * (1 - 35 * eps ^ 2 / 4) + 35 * eps ^ 2 * (1 - r ^ 2 / 4) + 523 / 50 * eps * r) * (1 - 3 * eps)
        - 1 / 2 ^ 500) * (1 + 549 / 100 * eps) + 159 / 10 * eps ^ 2 ≤ C + e := by
    have : C * (1 + 549 / 100 * eps) = C + 549 / 100 * eps * C := by ring
    linarith
  have h3 := mul_le_mul_of_nonneg_right h2 rho_nonneg
  refine le_trans ?_ h3
  unfold eps uR
  linarith

/-! ### (4) glue -/

theorem rho6_lower : 1 - 3 * eps ≤ (1 - uR) ^ 6 := by unfold eps uR; norm_num

/-- **lower bound of the padded radius** of `padCapBound`: for a finite radius `R ∈ [0, 0.85]` and a finite increment `dc ∈ [35 ε², 4]`,
    `R (1 + 9.6 ε) + 2.01 ε √R + 22 ε² ≤ padRadius (R.Add dc)` (all of the right side computed in binary64). -/
theorem padRadius_lower (R dc : F64) (fR : Fin R) (fdc : Fin dc) (hR0 : 0 ≤ val R) (hR1 : val R ≤ 17 / 20)
    (hdc0 : 35 * eps ^ 2 ≤ val dc) (hdc4 : val dc ≤ 4) :
    Fin (padRadius (Chord.add R dc)) ∧ val (padRadius (Chord.add R dc)) ≤ 4 ∧
    val R * (1 + 96 / 10 * eps) + 201 / 100 * eps * Real.sqrt (val R) + 22 * eps ^ 2 ≤ val (padRadius (Chord.add R dc)) := by
  have he0 := eps_pos
  have hes : eps ≤ 1 / 1000000 := eps_le_small
  have ht0 : (0 : ℝ) ≤ 35 * eps ^ 2 := by positivity
  have hdcn : 0 ≤ val dc := le_trans ht0 hdc0
  obtain ⟨fc, c0, c4, cL⟩ := chordAdd_spec R dc fR fdc hR0 (by linarith) hdcn hdc4
  set c := Chord.add R dc with hc
  obtain ⟨fs, s0, s1, sL⟩ := padSlack_spec c fc c0 c4
  obtain ⟨fe, _, e4, eL, eM⟩ := expanded_spec fc c0 c4 fs s0 s1
  have hpad : padRadius c = Chord.expanded c (maxAngleError c + Chord.maxPointError c) := rfl
  rw [hpad]
  refine ⟨fe, e4, ?_⟩
  set r := Real.sqrt (val R) with hr
  have hr0 : 0 ≤ r := Real.sqrt_nonneg _
  have hr2 : r ^ 2 = val R := Real.sq_sqrt hR0
  have hrr : r ^ 2 ≤ 17 / 20 := by rw [hr2]; exact hR1
  have hr1 : r ≤ 1 := by nlinarith
  rw [← hr2]
  -- the needed quantity is far below 4
  have hN4 : r ^ 2 * (1 + 96 / 10 * eps) + 201 / 100 * eps * r + 22 * eps ^ 2 ≤ 4 := by
    have h1 : r ^ 2 * (1 + 96 / 10 * eps) ≤ 17 / 20 * (1 + 96 / 10 * eps) :=
      mul_le_mul_of_nonneg_right hrr (by linarith)
    have h2 : 201 / 100 * eps * r ≤ 201 / 100 * eps * 1 := mul_le_mul_of_nonneg_left hr1 (by positivity)
    have h3 : 22 * eps ^ 2 ≤ 22 * (1 / 1000000) ^ 2 :=
      mul_le_mul_of_nonneg_left (pow_le_pow_left₀ he0.le hes 2) (by norm_num)
    linarith
  rcases cL with cL | cL
  · rw [cL, min_self] at eM
    linarith
  · -- the exact chord sum from below
    have hmono : caddR (r ^ 2) (35 * eps ^ 2) ≤ caddR (val R) (val dc) := by
      rw [hr2]; exact caddR_mono hR0 (le_refl _) (by linarith) ht0 hdc0 hdc4
    have hL := caddR_lower hr0 hrr
    set L := r ^ 2 * (1 - 35 * eps ^ 2 / 4) + 35 * eps ^ 2 * (1 - r ^ 2 / 4) + 523 / 50 * eps * r with hLdef
    have hL0 : 0 ≤ L := by
      have h1 : 0 ≤ r ^ 2 * (1 - 35 * eps ^ 2 / 4) := mul_nonneg (sq_nonneg r) (by nlinarith)
      have h2 : 0 ≤ 35 * eps ^ 2 * (1 - r ^ 2 / 4) := mul_nonneg ht0 (by linarith)
      have h3 : 0 ≤ 523 / 50 * eps * r := by positivity
      linarith
    have hLc : L ≤ caddR (val R) (val dc) := le_trans hL hmono
    have h1 : L * (1 - 3 * eps) ≤ L * (1 - uR) ^ 6 := mul_le_mul_of_nonneg_left rho6_lower hL0
    have h2 : L * (1 - uR) ^ 6 ≤ caddR (val R) (val dc) * (1 - uR) ^ 6 :=
      mul_le_mul_of_nonneg_right hLc (rpow_pos 6).le
    have hC : L * (1 - 3 * eps) - 1 / 2 ^ 500 ≤ val c := by linarith
    have hE := padSlack_lower c0 sL
    have key := real_budget hr0 hrr hC hE
    exact le_trans (le_min hN4 key) eL

end S2Proofs.C12Cap

#print axioms S2Proofs.C12Cap.padRadius_lower
