/-
  C12Cap.ContainsGlue — from "the direction of `P` is at most `δ` outside the uv rectangle (per coordinate)" to the chord bound
  against the cap centre.

  * `clamp_point` (pure ℝ³): a vector `P` of the `δ`-expanded cone is within `√2·δ·|P|` of a vector `P'` of the same length whose
    direction lies in the exact cell (clamp u and v; `|Û − Q̂|² ≤ |U − Q|²` for vectors `(·,·,1)`, `mid_dot_ge_width`).
  * `glue_budget` (real arithmetic): if `s²(1+u)^5 + 4e ≤ R(1+9.6ε) + 2.01ε√R + 22ε²` (what `cell_chain` gives for `P'`) and
    `Δ ≤ 3.904ε`, then `(s+Δ)²(1+u)^5 + 4e ≤ R(1+9.6ε) + 9.85ε√R + 90ε²` (what `padRadius_lower_small` provides for `R ≤ 1/20`).
  * `contains_chain`: the two combined for a cell with context `CapCtx`.
-/
import S2Proofs.C12Cap.Main
import S2Proofs.C12Cap.RadiusBounds

set_option exponentiation.threshold 3000

namespace S2Proofs.C12Cap
open S2 S2.CellM S2.Exact S2Proofs.FloatErr S2Proofs.F64Order S2Proofs.C16Acc S2Proofs.C12Dist S2Proofs.CapF64
open S2.CapF64

/-- clamping the direction of `P` into the uv rectangle -/
theorem clamp_point (r : RRect) (hr : r.OK) (δ : ℝ) (hδ : 0 ≤ δ) (P : R3) (hz : 0 < P.z)
    (h1 : (r.u0 - δ) * P.z ≤ P.x) (h2 : P.x ≤ (r.u1 + δ) * P.z)
    (h3 : (r.v0 - δ) * P.z ≤ P.y) (h4 : P.y ≤ (r.v1 + δ) * P.z) :
    ∃ (q' P' : R3) (lam : ℝ), InCell r q' ∧ 0 < lam ∧ P' = R3.smul lam q' ∧ P'.norm2 = P.norm2 ∧
      (R3.sub P P').norm2 ≤ 2 * δ ^ 2 * P.norm2 := by
  set x' := P.x / P.z with hx'
  set y' := P.y / P.z with hy'
  have ex : P.x = x' * P.z := by rw [hx']; field_simp
  have ey : P.y = y' * P.z := by rw [hy']; field_simp
  have bx1 : r.u0 - δ ≤ x' := by
    rw [hx', le_div_iff₀ hz]; exact h1
  have bx2 : x' ≤ r.u1 + δ := by
    rw [hx', div_le_iff₀ hz]; exact h2
  have by1 : r.v0 - δ ≤ y' := by
    rw [hy', le_div_iff₀ hz]; exact h3
  have by2 : y' ≤ r.v1 + δ := by
    rw [hy', div_le_iff₀ hz]; exact h4
  have hu := hr.u_lt
  have hv := hr.v_lt
  set a := max r.u0 (min x' r.u1) with ha
  set b := max r.v0 (min y' r.v1) with hb
  have a1 : r.u0 ≤ a := le_max_left _ _
  have a2 : a ≤ r.u1 := max_le hu.le (min_le_right _ _)
  have b1 : r.v0 ≤ b := le_max_left _ _
  have b2 : b ≤ r.v1 := max_le hv.le (min_le_right _ _)
  have da : |x' - a| ≤ δ := by
    rw [abs_le]
    constructor
    · have : a ≤ x' + δ := by
        apply max_le (by linarith)
        exact le_trans (min_le_left _ _) (by linarith)
      linarith
    · have : x' - δ ≤ a := by
        apply le_trans _ (le_max_right _ _)
        apply le_min (by linarith) (by linarith)
      linarith
  have db : |y' - b| ≤ δ := by
    rw [abs_le]
    constructor
    · have : b ≤ y' + δ := by
        apply max_le (by linarith)
        exact le_trans (min_le_left _ _) (by linarith)
      linarith
    · have : y' - δ ≤ b := by
        apply le_trans _ (le_max_right _ _)
        apply le_min (by linarith) (by linarith)
      linarith
  have sa : (x' - a) ^ 2 ≤ δ ^ 2 := by
    have := sq_abs (x' - a)
    have := pow_le_pow_left₀ (abs_nonneg (x' - a)) da 2
    linarith
  have sb : (y' - b) ^ 2 ≤ δ ^ 2 := by
    have := sq_abs (y' - b)
    have := pow_le_pow_left₀ (abs_nonneg (y' - b)) db 2
    linarith
  set n := Real.sqrt (1 + x' ^ 2 + y' ^ 2) with hn
  have hnpos : 0 < n := Real.sqrt_pos.mpr (by positivity)
  set lam := P.z * n with hlam
  have hlampos : 0 < lam := mul_pos hz hnpos
  have hP : P = R3.smul lam (vhat x' y') := by
    unfold vhat R3.smul
    ext
    · show P.x = lam * (1 / n * x'); rw [hlam, ex]; field_simp
    · show P.y = lam * (1 / n * y'); rw [hlam, ey]; field_simp
    · show P.z = lam * (1 / n * 1); rw [hlam]; field_simp
  have hPn : P.norm2 = lam ^ 2 := by
    rw [hP, R3.norm2_smul, Cover.vhat_norm2]; ring
  refine ⟨vhat a b, R3.smul lam (vhat a b), lam, S2Proofs.C12Dist.vhat_inCell r hr a b ⟨a1, a2⟩ ⟨b1, b2⟩, hlampos, rfl, ?_, ?_⟩
  · rw [R3.norm2_smul, Cover.vhat_norm2, hPn]; ring
  · have e : R3.sub P (R3.smul lam (vhat a b)) = R3.smul lam (R3.sub (vhat x' y') (vhat a b)) := by
      conv_lhs => rw [hP]
      unfold R3.sub R3.smul; ext <;> simp <;> ring
    rw [e, R3.norm2_smul]
    have hd : (R3.sub (vhat x' y') (vhat a b)).norm2 = 2 - 2 * R3.dot (vhat a b) (vhat x' y') := by
      have := S2Proofs.C12Dist.dist2_eq (vhat x' y') (vhat a b)
      unfold S2Proofs.C12Dist.dist2 at this
      rw [this, Cover.vhat_norm2, Cover.vhat_norm2]
      unfold R3.dot; ring
    have hw := mid_dot_ge_width a b x' y'
    rw [hd, hPn]
    have hl2 : 0 ≤ lam ^ 2 := sq_nonneg _
    have : 2 - 2 * R3.dot (vhat a b) (vhat x' y') ≤ 2 * δ ^ 2 := by linarith
    calc lam ^ 2 * (2 - 2 * R3.dot (vhat a b) (vhat x' y')) ≤ lam ^ 2 * (2 * δ ^ 2) :=
          mul_le_mul_of_nonneg_left this hl2
      _ = 2 * δ ^ 2 * lam ^ 2 := by ring

/-- the budget: moving the probe by `Δ ≤ 3.904ε` costs `7.84ε√R + 68ε²` -/
theorem glue_budget {s Δ r R : ℝ} (hs0 : 0 ≤ s) (hΔ0 : 0 ≤ Δ) (hΔ : Δ ≤ 3904 / 1000 * eps) (hr0 : 0 ≤ r) (hr : r ^ 2 = R)
    (hR1 : R ≤ 1)
    (hN : s ^ 2 * (1 + uR) ^ 5 + 4 * eR ≤ R * (1 + 96 / 10 * eps) + 201 / 100 * eps * r + 22 * eps ^ 2) :
    (s + Δ) ^ 2 * (1 + uR) ^ 5 + 4 * eR ≤ R * (1 + 96 / 10 * eps) + 985 / 100 * eps * r + 90 * eps ^ 2 := by
  have he := eps_pos
  have heR := eR_nonneg
  have hu := uR_nonneg
  have hk1 : 1 ≤ (1 + uR) ^ 5 := one_le_pow₀ (by linarith)
  have hk2 : (1 + uR) ^ 5 ≤ 1 + 1 / 10 ^ 6 := by unfold uR; norm_num
  have hr1 : r ≤ 1 := by nlinarith
  set T := r * (1 + 48 / 10 * eps) + 561 / 100 * eps with hT
  have hT0 : 0 ≤ T := by positivity
  -- s ≤ T
  have hsT : s ≤ T := by
    have h1 : s ^ 2 ≤ s ^ 2 * (1 + uR) ^ 5 := by nlinarith [sq_nonneg s]
    have h2 : R * (1 + 96 / 10 * eps) + 201 / 100 * eps * r + 22 * eps ^ 2 ≤ T ^ 2 := by
      rw [hT, ← hr]
      have : (0 : ℝ) ≤ eps * r := by positivity
      have e2 : (0 : ℝ) ≤ eps ^ 2 := by positivity
      have e3 : (0 : ℝ) ≤ r ^ 2 * eps ^ 2 := by positivity
      nlinarith
    have h3 : s ^ 2 ≤ T ^ 2 := by linarith
    exact abs_le_of_sq_le_sq' h3 hT0 |>.2
  set D0 := 3904 / 1000 * eps with hD0
  have hD00 : 0 ≤ D0 := by positivity
  have h1 : s * Δ ≤ T * D0 := mul_le_mul hsT hΔ hΔ0 hT0
  have h2 : Δ ^ 2 ≤ D0 ^ 2 := pow_le_pow_left₀ hΔ0 hΔ 2
  have hadd : 0 ≤ 2 * (s * Δ) + Δ ^ 2 := by positivity
  have h3 : (2 * (s * Δ) + Δ ^ 2) * (1 + uR) ^ 5 ≤ (2 * (T * D0) + D0 ^ 2) * (1 + 1 / 10 ^ 6) :=
    mul_le_mul (by linarith) hk2 (by linarith) (by positivity)
  have h4 : (2 * (T * D0) + D0 ^ 2) * (1 + 1 / 10 ^ 6) ≤ 784 / 100 * eps * r + 68 * eps ^ 2 := by
    rw [hT, hD0]
    have e1 : (0 : ℝ) ≤ eps * r := by positivity
    have e2 : (0 : ℝ) ≤ eps ^ 2 := by positivity
    have e3 : eps ^ 2 * r ≤ eps ^ 2 := by nlinarith
    have e4 : eps ≤ 1 / 10 ^ 6 := by unfold eps; norm_num
    have e5 : eps * (eps * r) ≤ 1 / 10 ^ 6 * (eps * r) := mul_le_mul_of_nonneg_right e4 e1
    nlinarith
  have e : (s + Δ) ^ 2 * (1 + uR) ^ 5 = s ^ 2 * (1 + uR) ^ 5 + (2 * (s * Δ) + Δ ^ 2) * (1 + uR) ^ 5 := by ring
  rw [e]
  linarith

/-- **the chain for a probe whose direction is at most `2.76ε` (per uv coordinate) outside the rectangle** -/
theorem contains_chain (c : Cell) (ctx : CapCtx c) (R : ℝ)
    (h0 : val (Chord.between (capCenter c) (vertex c 0)) ≤ R) (h1 : val (Chord.between (capCenter c) (vertex c 1)) ≤ R)
    (h2 : val (Chord.between (capCenter c) (vertex c 2)) ≤ R) (h3 : val (Chord.between (capCenter c) (vertex c 3)) ≤ R)
    (hR0 : 0 ≤ R) (hR1 : R ≤ 17 / 20)
    (P : R3) (hP : |P.norm2 - 1| ≤ NU * eps) (hz : 0 < P.z)
    (c1 : ((rectOf c).u0 - 276 / 100 * eps) * P.z ≤ P.x) (c2 : P.x ≤ ((rectOf c).u1 + 276 / 100 * eps) * P.z)
    (c3 : ((rectOf c).v0 - 276 / 100 * eps) * P.z ≤ P.y) (c4 : P.y ≤ ((rectOf c).v1 + 276 / 100 * eps) * P.z) :
    S2Proofs.C12Dist.dist2 (uvwR c.face (ofV (capCenter c))) P * (1 + uR) ^ 5 + 4 * eR
      ≤ R * (1 + 96 / 10 * eps) + 985 / 100 * eps * Real.sqrt R + 90 * eps ^ 2 := by
  have he := eps_pos
  obtain ⟨q', P', lam, hq, hlam, hPq, hn, hd⟩ :=
    clamp_point (rectOf c) ctx.rOK (276 / 100 * eps) (by positivity) P hz c1 c2 c3 c4
  have hP' : |P'.norm2 - 1| ≤ NU * eps := by rw [hn]; exact hP
  have key := cell_chain c ctx R h0 h1 h2 h3 hR0 hR1 P' q' lam hq hP' hlam hPq
  unfold capNeed at key
  set C' := uvwR c.face (ofV (capCenter c)) with hC'
  set s := (R3.sub C' P').norm with hs
  set Δ := (R3.sub P P').norm with hΔ
  have hs2 : S2Proofs.C12Dist.dist2 C' P' = s ^ 2 := by
    unfold S2Proofs.C12Dist.dist2; rw [hs, R3.norm_sq]
  rw [hs2] at key
  -- Δ ≤ 3.904 ε
  have hPn : P.norm2 ≤ 1 + NU * eps := by have := (abs_le.mp hP).2; linarith
  have hΔb : Δ ≤ 3904 / 1000 * eps := by
    apply R3.norm_le_of_sq (by positivity)
    have h1 : 2 * (276 / 100 * eps) ^ 2 * P.norm2 ≤ 2 * (276 / 100 * eps) ^ 2 * (1 + NU * eps) :=
      mul_le_mul_of_nonneg_left hPn (by positivity)
    have h2 : 2 * (276 / 100 * eps) ^ 2 * (1 + NU * eps) ≤ (3904 / 1000 * eps) ^ 2 := by
      unfold NU eps; norm_num
    linarith
  -- triangle inequality
  have htri : (R3.sub C' P).norm ≤ s + Δ := by
    have e : R3.sub C' P = R3.add (R3.sub C' P') (R3.sub P' P) := by
      unfold R3.sub R3.add; ext <;> simp
    rw [e]
    have := R3.norm_add_le (R3.sub C' P') (R3.sub P' P)
    rw [R3.norm_sub_comm P' P] at this
    exact this
  have hD : S2Proofs.C12Dist.dist2 C' P ≤ (s + Δ) ^ 2 := by
    unfold S2Proofs.C12Dist.dist2; exact R3.sq_le_of_norm_le htri
  have hk0 : (0 : ℝ) ≤ (1 + uR) ^ 5 := pow_nonneg (by have := uR_nonneg; linarith) 5
  have hmul : S2Proofs.C12Dist.dist2 C' P * (1 + uR) ^ 5 ≤ (s + Δ) ^ 2 * (1 + uR) ^ 5 :=
    mul_le_mul_of_nonneg_right hD hk0
  have hR1' : R ≤ 1 := by linarith
  have hb := glue_budget (R3.norm_nonneg _) (R3.norm_nonneg _) hΔb (Real.sqrt_nonneg R) (Real.sq_sqrt hR0) hR1' key
  linarith

end S2Proofs.C12Cap
