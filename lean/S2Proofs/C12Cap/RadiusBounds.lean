/-
  C12Cap.RadiusBounds — bounds on the raw radius of the cap computed by `Cell.CapBound`:

  * upper bounds from the uv-width of the cell (`raw_le_of_width3/4`, `raw_radius_le_of_width3/4`):
    chord² between the directions of `(a,b,1)` and `(x,y,1)` is at most `(x-a)² + (y-b)²`;
  * a lower bound for every valid cell (`raw_chord_ge`, `raw_radius_ge`): the uv-midpoint and a corner are at least
    `2^-32` apart in both coordinates, so their directions are `≥ 2^-34` apart and the float chord² is `≥ 2^-80`.
-/
import S2Proofs.C12Cap.Main

set_option exponentiation.threshold 3000

namespace S2Proofs.C12Cap
open S2 S2.CellM S2.Exact S2Proofs.FloatErr S2Proofs.F64Order S2Proofs.C16Acc S2Proofs.C12Dist S2Proofs.CapF64
open S2.CapF64
open S2Proofs.C12Dist.VertexErr (val_one fin_one)

/-! ### upper bounds from the width -/

/-- the cosine between the directions of `(a,b,1)` and `(x,y,1)` is at least `1 − |(a,b) − (x,y)|²/2` -/
theorem mid_dot_ge_width (a b x y : ℝ) : 1 - ((x - a) ^ 2 + (y - b) ^ 2) / 2 ≤ R3.dot (vhat a b) (vhat x y) := by
  rw [MidGeom.dot_vhat_vhat]
  have pA := Cover.sqrt_nn_pos a b
  have pB := Cover.sqrt_nn_pos x y
  have qA : Real.sqrt (Cover.nn a b) ^ 2 = Cover.nn a b := Real.sq_sqrt (Cover.nn_pos a b).le
  have qB : Real.sqrt (Cover.nn x y) ^ 2 = Cover.nn x y := Real.sq_sqrt (Cover.nn_pos x y).le
  have oA : 1 ≤ Real.sqrt (Cover.nn a b) := by
    rw [show (1 : ℝ) = Real.sqrt 1 by simp]; exact Real.sqrt_le_sqrt (Cover.one_le_nn a b)
  have oB : 1 ≤ Real.sqrt (Cover.nn x y) := by
    rw [show (1 : ℝ) = Real.sqrt 1 by simp]; exact Real.sqrt_le_sqrt (Cover.one_le_nn x y)
  rw [le_div_iff₀ (by positivity)]
  generalize Real.sqrt (Cover.nn a b) = sA at *
  generalize Real.sqrt (Cover.nn x y) = sB at *
  unfold Cover.nn at qA qB
  have hd : 0 ≤ (x - a) ^ 2 + (y - b) ^ 2 := by positivity
  have hs : 0 ≤ sA * sB - 1 := by nlinarith
  have hp := mul_nonneg hd hs
  nlinarith [sq_nonneg (sA - sB)]

/-- generic width version of `raw_le_of_signs` -/
theorem raw_le_of_width (c : Cell) (ctx : CapCtx c) (w κ m B : ℝ)
    (hwu : (rectOf c).u1 - (rectOf c).u0 ≤ w) (hwv : (rectOf c).v1 - (rectOf c).v0 ≤ w)
    (hκ : κ ≤ 1 - w ^ 2 / 4) (hm0 : 0 ≤ m) (hm : 2 - 2 * κ ≤ m ^ 2)
    (hB : (m + 1 / 10 ^ 6) ^ 2 * (1 + 1 / 10 ^ 6) + 1 / 10 ^ 6 ≤ B) :
    val (Chord.between (capCenter c) (vertex c 0)) ≤ B ∧ val (Chord.between (capCenter c) (vertex c 1)) ≤ B ∧
    val (Chord.between (capCenter c) (vertex c 2)) ≤ B ∧ val (Chord.between (capCenter c) (vertex c 3)) ≤ B := by
  have hr := ctx.rOK
  have pu : 0 ≤ (rectOf c).u1 - (rectOf c).u0 := by have := hr.u_lt; linarith
  have pv : 0 ≤ (rectOf c).v1 - (rectOf c).v0 := by have := hr.v_lt; linarith
  have su : ((rectOf c).u1 - (rectOf c).u0) ^ 2 ≤ w ^ 2 := pow_le_pow_left₀ pu hwu 2
  have sv : ((rectOf c).v1 - (rectOf c).v0) ^ 2 ≤ w ^ 2 := pow_le_pow_left₀ pv hwv 2
  have key : ∀ x y : ℝ, (x = (rectOf c).u0 ∨ x = (rectOf c).u1) → (y = (rectOf c).v0 ∨ y = (rectOf c).v1) →
      κ ≤ R3.dot (midDir (rectOf c)) (vhat x y) := by
    intro x y hx hy
    have h := mid_dot_ge_width (((rectOf c).u0 + (rectOf c).u1) / 2) (((rectOf c).v0 + (rectOf c).v1) / 2) x y
    have ex : (x - ((rectOf c).u0 + (rectOf c).u1) / 2) ^ 2 = ((rectOf c).u1 - (rectOf c).u0) ^ 2 / 4 := by
      rcases hx with rfl | rfl <;> ring
    have ey : (y - ((rectOf c).v0 + (rectOf c).v1) / 2) ^ 2 = ((rectOf c).v1 - (rectOf c).v0) ^ 2 / 4 := by
      rcases hy with rfl | rfl <;> ring
    rw [ex, ey] at h
    unfold midDir
    linarith
  have hM : (midDir (rectOf c)).norm2 = 1 := Cover.vhat_norm2 _ _
  exact ⟨corner_upper c.face _ _ _ _ κ m B ctx.ctrN ctx.v0 (Cover.vhat_norm2 _ _) hM ctx.ctrDir
      (key _ _ (Or.inl rfl) (Or.inl rfl)) hm0 hm hB,
    corner_upper c.face _ _ _ _ κ m B ctx.ctrN ctx.v1 (Cover.vhat_norm2 _ _) hM ctx.ctrDir
      (key _ _ (Or.inr rfl) (Or.inl rfl)) hm0 hm hB,
    corner_upper c.face _ _ _ _ κ m B ctx.ctrN ctx.v2 (Cover.vhat_norm2 _ _) hM ctx.ctrDir
      (key _ _ (Or.inr rfl) (Or.inr rfl)) hm0 hm hB,
    corner_upper c.face _ _ _ _ κ m B ctx.ctrN ctx.v3 (Cover.vhat_norm2 _ _) hM ctx.ctrDir
      (key _ _ (Or.inl rfl) (Or.inr rfl)) hm0 hm hB⟩

/-- cells of uv-width ≤ 0.3126 (every cell of level ≥ 3): chord² ≤ 1/20 -/
theorem raw_le_of_width3 (c : Cell) (ctx : CapCtx c) (hwu : (rectOf c).u1 - (rectOf c).u0 ≤ 3126 / 10000)
    (hwv : (rectOf c).v1 - (rectOf c).v0 ≤ 3126 / 10000) :
    val (Chord.between (capCenter c) (vertex c 0)) ≤ 1 / 20 ∧ val (Chord.between (capCenter c) (vertex c 1)) ≤ 1 / 20 ∧
    val (Chord.between (capCenter c) (vertex c 2)) ≤ 1 / 20 ∧ val (Chord.between (capCenter c) (vertex c 3)) ≤ 1 / 20 :=
  raw_le_of_width c ctx (3126 / 10000) (1 - 24430 / 10 ^ 6) (22105 / 10 ^ 5) (1 / 20) hwu hwv
    (by norm_num) (by norm_num) (by norm_num) (by norm_num)

/-- cells of uv-width ≤ 0.1616 (every cell of level ≥ 4): chord² ≤ 1/50 -/
theorem raw_le_of_width4 (c : Cell) (ctx : CapCtx c) (hwu : (rectOf c).u1 - (rectOf c).u0 ≤ 1616 / 10000)
    (hwv : (rectOf c).v1 - (rectOf c).v0 ≤ 1616 / 10000) :
    val (Chord.between (capCenter c) (vertex c 0)) ≤ 1 / 50 ∧ val (Chord.between (capCenter c) (vertex c 1)) ≤ 1 / 50 ∧
    val (Chord.between (capCenter c) (vertex c 2)) ≤ 1 / 50 ∧ val (Chord.between (capCenter c) (vertex c 3)) ≤ 1 / 50 :=
  raw_le_of_width c ctx (1616 / 10000) (1 - 6529 / 10 ^ 6) (11428 / 10 ^ 5) (1 / 50) hwu hwv
    (by norm_num) (by norm_num) (by norm_num) (by norm_num)

/-- the raw radius with a bound `B ≥ 0` on the four chords -/
theorem raw_radius_le_of_chords (c : Cell) (ctx : CapCtx c) (B : ℝ) (hB0 : 0 ≤ B)
    (hb : val (Chord.between (capCenter c) (vertex c 0)) ≤ B ∧ val (Chord.between (capCenter c) (vertex c 1)) ≤ B ∧
      val (Chord.between (capCenter c) (vertex c 2)) ≤ B ∧ val (Chord.between (capCenter c) (vertex c 3)) ≤ B) :
    ∃ R : F64, capBoundRaw c = ⟨capCenter c, R⟩ ∧ Fin R ∧ 0 ≤ val R ∧ val R ≤ B ∧
      val (Chord.between (capCenter c) (vertex c 0)) ≤ val R ∧
      val (Chord.between (capCenter c) (vertex c 1)) ≤ val R ∧
      val (Chord.between (capCenter c) (vertex c 2)) ≤ val R ∧
      val (Chord.between (capCenter c) (vertex c 3)) ≤ val R := by
  obtain ⟨R, hraw, fR, hmax⟩ := raw_cap c ctx
  have m0 : val (Chord.between (capCenter c) (vertex c 0)) ≤ val R := by
    rw [hmax]; exact le_trans (le_trans (le_trans (le_max_right _ _) (le_max_left _ _)) (le_max_left _ _)) (le_max_left _ _)
  have m1 : val (Chord.between (capCenter c) (vertex c 1)) ≤ val R := by
    rw [hmax]; exact le_trans (le_trans (le_max_right _ _) (le_max_left _ _)) (le_max_left _ _)
  have m2 : val (Chord.between (capCenter c) (vertex c 2)) ≤ val R := by
    rw [hmax]; exact le_trans (le_max_right _ _) (le_max_left _ _)
  have m3 : val (Chord.between (capCenter c) (vertex c 3)) ≤ val R := by
    rw [hmax]; exact le_max_right _ _
  have n0 : 0 ≤ val R := by
    rw [hmax]; exact le_trans (le_trans (le_trans (le_max_left _ _) (le_max_left _ _)) (le_max_left _ _)) (le_max_left _ _)
  refine ⟨R, hraw, fR, n0, ?_, m0, m1, m2, m3⟩
  obtain ⟨b0, b1, b2, b3⟩ := hb
  rw [hmax]
  exact max_le (max_le (max_le (max_le hB0 b0) b1) b2) b3

/-- **valid cells of uv-width ≤ 0.3126: the raw radius is at most 1/20** -/
theorem raw_radius_le_of_width3 (id : CellID) (hv : CellID.isValid id = true)
    (hwu : (rectOf (cellFromCellID id)).u1 - (rectOf (cellFromCellID id)).u0 ≤ 3126 / 10000)
    (hwv : (rectOf (cellFromCellID id)).v1 - (rectOf (cellFromCellID id)).v0 ≤ 3126 / 10000) :
    ∃ R : F64, capBoundRaw (cellFromCellID id) = ⟨capCenter (cellFromCellID id), R⟩ ∧ Fin R ∧ 0 ≤ val R ∧ val R ≤ 1 / 20 ∧
      val (Chord.between (capCenter (cellFromCellID id)) (vertex (cellFromCellID id) 0)) ≤ val R ∧
      val (Chord.between (capCenter (cellFromCellID id)) (vertex (cellFromCellID id) 1)) ≤ val R ∧
      val (Chord.between (capCenter (cellFromCellID id)) (vertex (cellFromCellID id) 2)) ≤ val R ∧
      val (Chord.between (capCenter (cellFromCellID id)) (vertex (cellFromCellID id) 3)) ≤ val R :=
  raw_radius_le_of_chords _ (capCtx id hv) (1 / 20) (by norm_num) (raw_le_of_width3 _ (capCtx id hv) hwu hwv)

/-- **valid cells of uv-width ≤ 0.1616: the raw radius is at most 1/50** -/
theorem raw_radius_le_of_width4 (id : CellID) (hv : CellID.isValid id = true)
    (hwu : (rectOf (cellFromCellID id)).u1 - (rectOf (cellFromCellID id)).u0 ≤ 1616 / 10000)
    (hwv : (rectOf (cellFromCellID id)).v1 - (rectOf (cellFromCellID id)).v0 ≤ 1616 / 10000) :
    ∃ R : F64, capBoundRaw (cellFromCellID id) = ⟨capCenter (cellFromCellID id), R⟩ ∧ Fin R ∧ 0 ≤ val R ∧ val R ≤ 1 / 50 ∧
      val (Chord.between (capCenter (cellFromCellID id)) (vertex (cellFromCellID id) 0)) ≤ val R ∧
      val (Chord.between (capCenter (cellFromCellID id)) (vertex (cellFromCellID id) 1)) ≤ val R ∧
      val (Chord.between (capCenter (cellFromCellID id)) (vertex (cellFromCellID id) 2)) ≤ val R ∧
      val (Chord.between (capCenter (cellFromCellID id)) (vertex (cellFromCellID id) 3)) ≤ val R :=
  raw_radius_le_of_chords _ (capCtx id hv) (1 / 50) (by norm_num) (raw_le_of_width4 _ (capCtx id hv) hwu hwv)

/-! ### lower bound -/

/-- two directions `(a,b,1)`, `(x,y,1)` of `[-1,1]²` are at least `|(a,b) − (x,y)|/3` apart -/
theorem dist2_vhat_ge (a b x y : ℝ) (ha : |a| ≤ 1) (hb : |b| ≤ 1) (hx : |x| ≤ 1) (hy : |y| ≤ 1) :
    ((x - a) ^ 2 + (y - b) ^ 2) / 9 ≤ S2Proofs.C12Dist.dist2 (vhat a b) (vhat x y) := by
  rw [S2Proofs.C12Dist.dist2_eq, Cover.vhat_norm2, Cover.vhat_norm2, MidGeom.dot_vhat_vhat]
  have pA := Cover.sqrt_nn_pos a b
  have pB := Cover.sqrt_nn_pos x y
  have qA : Real.sqrt (Cover.nn a b) ^ 2 = Cover.nn a b := Real.sq_sqrt (Cover.nn_pos a b).le
  have qB : Real.sqrt (Cover.nn x y) ^ 2 = Cover.nn x y := Real.sq_sqrt (Cover.nn_pos x y).le
  have sa := MidGeom.sq_le_one_of_abs ha
  have sb := MidGeom.sq_le_one_of_abs hb
  have sx := MidGeom.sq_le_one_of_abs hx
  have sy := MidGeom.sq_le_one_of_abs hy
  set d := (x - a) ^ 2 + (y - b) ^ 2 with hd
  have hd0 : 0 ≤ d := by positivity
  have hd8 : d ≤ 8 := by
    obtain ⟨a1, a2⟩ := abs_le.mp ha
    obtain ⟨b1, b2⟩ := abs_le.mp hb
    obtain ⟨x1, x2⟩ := abs_le.mp hx
    obtain ⟨y1, y2⟩ := abs_le.mp hy
    have h1 : (x - a) ^ 2 ≤ 4 := by nlinarith
    have h2 : (y - b) ^ 2 ≤ 4 := by nlinarith
    linarith
  set s := Real.sqrt (Cover.nn a b) * Real.sqrt (Cover.nn x y) with hs
  have sp : 0 < s := by positivity
  have s2 : s ^ 2 = Cover.nn a b * Cover.nn x y := by rw [hs, mul_pow, qA, qB]
  have s9 : s ^ 2 ≤ 9 := by
    rw [s2]; unfold Cover.nn
    have h1 : 1 + a ^ 2 + b ^ 2 ≤ 3 := by linarith
    have h2 : 1 + x ^ 2 + y ^ 2 ≤ 3 := by linarith
    have h3 : 0 ≤ 1 + a ^ 2 + b ^ 2 := by positivity
    have h4 : 0 ≤ 1 + x ^ 2 + y ^ 2 := by positivity
    nlinarith
  -- Lagrange: N² = s² − |cross|² ≤ s² − d
  have hN : (a * x + b * y + 1) ^ 2 ≤ s ^ 2 - d := by
    rw [s2, hd]; unfold Cover.nn
    nlinarith [sq_nonneg (a * y - b * x)]
  have ht0 : 0 ≤ s * (1 - d / 18) := by
    apply mul_nonneg sp.le; linarith
  have hsq : (a * x + b * y + 1) ^ 2 ≤ (s * (1 - d / 18)) ^ 2 := by
    have e : (s * (1 - d / 18)) ^ 2 = s ^ 2 - s ^ 2 * d / 9 + s ^ 2 * d ^ 2 / 324 := by ring
    rw [e]
    have h1 : s ^ 2 * d ≤ 9 * d := mul_le_mul_of_nonneg_right s9 hd0
    have h2 : 0 ≤ s ^ 2 * d ^ 2 / 324 := by positivity
    linarith
  have hle : a * x + b * y + 1 ≤ s * (1 - d / 18) := le_trans (le_abs_self _) (abs_le_of_sq_le_sq hsq ht0)
  have hdiv : (a * x + b * y + 1) / s ≤ 1 - d / 18 := by
    rw [div_le_iff₀ sp]; linarith
  linarith

/-- the float chord² from the centre to vertex 0 is at least `2^-80` -/
theorem raw_chord_ge (c : Cell) (ctx : CapCtx c) (gu : 1 / 2 ^ 31 ≤ (rectOf c).u1 - (rectOf c).u0)
    (gv : 1 / 2 ^ 31 ≤ (rectOf c).v1 - (rectOf c).v0) :
    1 / 2 ^ 80 ≤ val (Chord.between (capCenter c) (vertex c 0)) := by
  have hr := ctx.rOK
  have a1 : |(rectOf c).u0| ≤ 1 := abs_le.mpr ⟨hr.u0_ge, by have := hr.u_lt; have := hr.u1_le; linarith⟩
  have a2 : |(rectOf c).u1| ≤ 1 := abs_le.mpr ⟨by have := hr.u_lt; have := hr.u0_ge; linarith, hr.u1_le⟩
  have a3 : |(rectOf c).v0| ≤ 1 := abs_le.mpr ⟨hr.v0_ge, by have := hr.v_lt; have := hr.v1_le; linarith⟩
  have a4 : |(rectOf c).v1| ≤ 1 := abs_le.mpr ⟨by have := hr.v_lt; have := hr.v0_ge; linarith, hr.v1_le⟩
  have am : |((rectOf c).u0 + (rectOf c).u1) / 2| ≤ 1 := by
    obtain ⟨p1, p2⟩ := abs_le.mp a1; obtain ⟨p3, p4⟩ := abs_le.mp a2
    exact abs_le.mpr ⟨by linarith, by linarith⟩
  have bm : |((rectOf c).v0 + (rectOf c).v1) / 2| ≤ 1 := by
    obtain ⟨p1, p2⟩ := abs_le.mp a3; obtain ⟨p3, p4⟩ := abs_le.mp a4
    exact abs_le.mpr ⟨by linarith, by linarith⟩
  have hg := dist2_vhat_ge _ _ _ _ am bm a1 a3
  have ex : ((rectOf c).u0 - ((rectOf c).u0 + (rectOf c).u1) / 2) ^ 2 = ((rectOf c).u1 - (rectOf c).u0) ^ 2 / 4 := by ring
  have ey : ((rectOf c).v0 - ((rectOf c).v0 + (rectOf c).v1) / 2) ^ 2 = ((rectOf c).v1 - (rectOf c).v0) ^ 2 / 4 := by ring
  rw [ex, ey] at hg
  have su : (1 / 2 ^ 31 : ℝ) ^ 2 ≤ ((rectOf c).u1 - (rectOf c).u0) ^ 2 := pow_le_pow_left₀ (by positivity) gu 2
  have sv : (1 / 2 ^ 31 : ℝ) ^ 2 ≤ ((rectOf c).v1 - (rectOf c).v0) ^ 2 := pow_le_pow_left₀ (by positivity) gv 2
  -- the exact directions are ≥ 2^-34 apart
  have hMW : (1 / 2 ^ 34 : ℝ) ≤ (R3.sub (midDir (rectOf c)) (vhat (rectOf c).u0 (rectOf c).v0)).norm := by
    apply R3.le_norm_of_sq
    have e : (R3.sub (midDir (rectOf c)) (vhat (rectOf c).u0 (rectOf c).v0)).norm2
        = S2Proofs.C12Dist.dist2 (midDir (rectOf c)) (vhat (rectOf c).u0 (rectOf c).v0) := rfl
    rw [e]; unfold midDir
    have h1 : (1 / 2 ^ 34 : ℝ) ^ 2 ≤ ((1 / 2 ^ 31 : ℝ) ^ 2 / 4 + (1 / 2 ^ 31 : ℝ) ^ 2 / 4) / 9 := by norm_num
    linarith
  obtain ⟨hVN, hVW, _⟩ := ctx.v0
  have hC' := (nunitB_iff (capCenter c)).1 ctx.ctrN
  have hV' := (nunitB_iff (vertex c 0)).1 hVN
  obtain ⟨ca1, ca2, ca3⟩ := nunit_coord_le hC'
  obtain ⟨cb1, cb2, cb3⟩ := nunit_coord_le hV'
  obtain ⟨_, _, _, _, hL⟩ := between_spec (capCenter c) (vertex c 0) hC'.1 hV'.1 ca1 ca2 ca3 cb1 cb2 cb3
  rw [← dist2_frame c.face] at hL
  have hcd := ctx.ctrDir
  set C' := uvwR c.face (ofV (capCenter c)) with hC'def
  set V' := uvwR c.face (ofV (vertex c 0)) with hV'def
  set M := midDir (rectOf c) with hMdef
  set W := vhat (rectOf c).u0 (rectOf c).v0 with hWdef
  have e : R3.sub M W = R3.add (R3.sub M C') (R3.add (R3.sub C' V') (R3.sub V' W)) := by
    unfold R3.sub R3.add; ext <;> simp
  have h1 := R3.norm_add_le (R3.sub M C') (R3.add (R3.sub C' V') (R3.sub V' W))
  have h2 := R3.norm_add_le (R3.sub C' V') (R3.sub V' W)
  have h3 : (R3.sub M C').norm ≤ 22 * uR := by rw [R3.norm_sub_comm]; exact hcd
  rw [← e] at h1
  have hu : 22 * uR + (9 + 1 / 1000) * uR ≤ 1 / 2 ^ 35 := by unfold uR; norm_num
  have hn : (1 / 2 ^ 35 : ℝ) ≤ (R3.sub C' V').norm := by
    have : (1 / 2 ^ 34 : ℝ) = 1 / 2 ^ 35 + 1 / 2 ^ 35 := by norm_num
    linarith
  have hd : (1 / 2 ^ 35 : ℝ) ^ 2 ≤ S2Proofs.C12Dist.dist2 C' V' := by
    unfold S2Proofs.C12Dist.dist2
    rw [← R3.norm_sq]
    exact pow_le_pow_left₀ (by positivity) hn 2
  rcases hL with h4 | h
  · rw [h4]; norm_num
  · have hk : (1 / 2 : ℝ) ≤ (1 - uR) ^ 5 := by unfold uR; norm_num
    have he : 4 * eR ≤ 1 / 2 ^ 80 := by unfold eR; norm_num
    have hd0 : (0 : ℝ) ≤ (1 / 2 ^ 35 : ℝ) ^ 2 := by positivity
    have hmul : (1 / 2 ^ 35 : ℝ) ^ 2 * (1 / 2) ≤ S2Proofs.C12Dist.dist2 C' V' * (1 - uR) ^ 5 :=
      mul_le_mul hd hk (by norm_num) (le_trans hd0 hd)
    have hnum : (1 / 2 ^ 80 : ℝ) + 1 / 2 ^ 80 ≤ (1 / 2 ^ 35 : ℝ) ^ 2 * (1 / 2) := by norm_num
    linarith

/-- **the raw radius of every valid cell is at least `2^-80`** -/
theorem raw_radius_ge (id : CellID) (hv : CellID.isValid id = true) :
    ∀ R : F64, capBoundRaw (cellFromCellID id) = ⟨capCenter (cellFromCellID id), R⟩ → 1 / 2 ^ 80 ≤ val R := by
  intro R hR
  have ctx := capCtx id hv
  obtain ⟨_, _, _, _, _, _, gu, gv⟩ := cellOK_gap id hv
  obtain ⟨R', hraw, _, hmax⟩ := raw_cap _ ctx
  have hRR : R = R' := by
    rw [hR] at hraw
    injection hraw
  rw [hRR, hmax]
  have h0 := raw_chord_ge _ ctx gu gv
  exact le_trans h0 (le_trans (le_trans (le_trans (le_max_right _ _) (le_max_left _ _)) (le_max_left _ _)) (le_max_left _ _))

end S2Proofs.C12Cap
