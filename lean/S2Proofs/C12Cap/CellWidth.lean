/-
  C12Cap.CellWidth — upper bounds of the uv-width of the cells of level ≥ 3 / ≥ 4, and the face-edge dichotomy of the
  bounds of a valid cell (a bound is either exactly ±1 or at least `2^-40` inside).

  The bounds of the cell of level `n` with index `I` are `stToUV (g (I·2^(30−n)))`, `stToUV (g ((I+1)·2^(30−n)))`.
  Its interval is inside the interval of its ancestor of level 3 (4), and the widths of the 8 (16) ancestor intervals
  are computed in the kernel on the exact integer values of the floats.
-/
import S2Proofs.C12Cap.MidGeom
import S2Proofs.C12Cap.Level0

namespace S2Proofs.C12Cap
open S2Proofs.C16Acc S2Proofs.C12Dist S2Proofs.C12Dist.Cover
open S2 S2.CellID S2.STUV S2.CellM S2Proofs.F64Order
open S2Proofs.C12M S2Proofs.C12ST S2Proofs.C12C S2Proofs.C12H S2Proofs.C12 S2Proofs.C12Dist.CellOK

namespace CellWidth
open MidGeom

/-- integer comparison ⟹ real comparison of the difference of two float values -/
theorem val_sub_le (x y : F64) (p q : Nat) (hq : 0 < q)
    (h : (S2.Exact.toInt y - S2.Exact.toInt x) * (q : Int) ≤ (p : Int) * 2 ^ 1074) :
    FloatErr.val y - FloatErr.val x ≤ (p : ℝ) / (q : ℝ) := by
  unfold FloatErr.val
  have hB : (0 : ℝ) < 2 ^ 1074 := by positivity
  have hq' : (0 : ℝ) < (q : ℝ) := by exact_mod_cast hq
  have h' : (((S2.Exact.toInt y - S2.Exact.toInt x) * (q : Int) : Int) : ℝ) ≤ (((p : Int) * 2 ^ 1074 : Int) : ℝ) :=
    Int.cast_le.2 h
  push_cast at h'
  generalize (2 : ℝ) ^ 1074 = B at *
  rw [← sub_div, div_le_div_iff₀ hB hq']
  linarith

/-- the widths of the eight level-3 intervals (exact integer comparison, in the kernel) -/
theorem width3_int : ∀ j : Fin 8,
    (S2.Exact.toInt (stToUV (g ((j.val + 1) * 2 ^ 27))) - S2.Exact.toInt (stToUV (g (j.val * 2 ^ 27)))) * (10000 : Nat)
      ≤ ((3126 : Nat) : Int) * 2 ^ 1074 := by
  decide +kernel

/-- the widths of the sixteen level-4 intervals -/
theorem width4_int : ∀ j : Fin 16,
    (S2.Exact.toInt (stToUV (g ((j.val + 1) * 2 ^ 26))) - S2.Exact.toInt (stToUV (g (j.val * 2 ^ 26)))) * (10000 : Nat)
      ≤ ((1616 : Nat) : Int) * 2 ^ 1074 := by
  decide +kernel

theorem width3 (J : Nat) (hJ : J < 8) :
    FloatErr.val (stToUV (g ((J + 1) * 2 ^ 27))) - FloatErr.val (stToUV (g (J * 2 ^ 27))) ≤ 3126 / 10000 := by
  have h := val_sub_le _ _ 3126 10000 (by norm_num) (width3_int ⟨J, hJ⟩)
  simp only at h
  norm_num at h ⊢
  exact h

theorem width4 (J : Nat) (hJ : J < 16) :
    FloatErr.val (stToUV (g ((J + 1) * 2 ^ 26))) - FloatErr.val (stToUV (g (J * 2 ^ 26))) ≤ 1616 / 10000 := by
  have h := val_sub_le _ _ 1616 10000 (by norm_num) (width4_int ⟨J, hJ⟩)
  simp only at h
  norm_num at h ⊢
  exact h

/-- one side of a cell of level `n ≥ t`: its interval is inside the interval of the level-`t` ancestor -/
theorem side_anc (t I n : Nat) (ht : t ≤ n) (hn : n ≤ 30) (hI : I < 2 ^ n) :
    ∃ J, J < 2 ^ t ∧
      FloatErr.val (stToUV (g (J * 2 ^ (30 - t)))) ≤ FloatErr.val (stToUV (g (I * 2 ^ (30 - n)))) ∧
      FloatErr.val (stToUV (g ((I + 1) * 2 ^ (30 - n)))) ≤ FloatErr.val (stToUV (g ((J + 1) * 2 ^ (30 - t)))) := by
  have hle := square_le hn hI
  have hpow : 2 ^ (30 - t) = 2 ^ (n - t) * 2 ^ (30 - n) := by rw [← Nat.pow_add]; congr 1; omega
  have hpn : 2 ^ n = 2 ^ t * 2 ^ (n - t) := by rw [← Nat.pow_add]; congr 1; omega
  have hd : 0 < 2 ^ (n - t) := Nat.two_pow_pos _
  refine ⟨I / 2 ^ (n - t), ?_, ?_, ?_⟩
  · rw [Nat.div_lt_iff_lt_mul hd, ← hpn]; exact hI
  · have h1 : I / 2 ^ (n - t) * 2 ^ (30 - t) ≤ I * 2 ^ (30 - n) := by
      rw [hpow, ← Nat.mul_assoc]
      exact Nat.mul_le_mul_right _ (Nat.div_mul_le_self _ _)
    have hlo : I * 2 ^ (30 - n) ≤ 2 ^ 30 :=
      le_trans (Nat.mul_le_mul_right _ (Nat.le_succ I)) hle
    exact val_g_mono _ _ h1 hlo
  · have h0 : I + 1 ≤ (I / 2 ^ (n - t) + 1) * 2 ^ (n - t) := by
      have := Nat.lt_div_mul_add (a := I) hd
      rw [Nat.add_mul, Nat.one_mul]; omega
    have h1 : (I + 1) * 2 ^ (30 - n) ≤ (I / 2 ^ (n - t) + 1) * 2 ^ (30 - t) := by
      rw [hpow, ← Nat.mul_assoc]
      exact Nat.mul_le_mul_right _ h0
    have hJ1 : I / 2 ^ (n - t) + 1 ≤ 2 ^ t := by
      have : I / 2 ^ (n - t) < 2 ^ t := by rw [Nat.div_lt_iff_lt_mul hd, ← hpn]; exact hI
      omega
    have hhi : (I / 2 ^ (n - t) + 1) * 2 ^ (30 - t) ≤ 2 ^ 30 := by
      have h2 : 2 ^ t * 2 ^ (30 - t) = 2 ^ 30 := by rw [← Nat.pow_add]; congr 1; omega
      rw [← h2]; exact Nat.mul_le_mul_right _ hJ1
    exact val_g_mono _ _ h1 hhi

theorem side_width3 (I n : Nat) (h3 : 3 ≤ n) (hn : n ≤ 30) (hI : I < 2 ^ n) :
    FloatErr.val (stToUV (ijToSTMin (((I + 1) * 2 ^ (30 - n) : Nat) : Int))) -
      FloatErr.val (stToUV (ijToSTMin ((I * 2 ^ (30 - n) : Nat) : Int))) ≤ 3126 / 10000 := by
  obtain ⟨J, hJ, a, b⟩ := side_anc 3 I n h3 hn hI
  have w := width3 J (by simpa using hJ)
  show FloatErr.val (stToUV (g ((I + 1) * 2 ^ (30 - n)))) - FloatErr.val (stToUV (g (I * 2 ^ (30 - n)))) ≤ _
  have e : (30 - 3 : Nat) = 27 := rfl
  rw [e] at a b
  exact le_trans (sub_le_sub b a) w

theorem side_width4 (I n : Nat) (h4 : 4 ≤ n) (hn : n ≤ 30) (hI : I < 2 ^ n) :
    FloatErr.val (stToUV (ijToSTMin (((I + 1) * 2 ^ (30 - n) : Nat) : Int))) -
      FloatErr.val (stToUV (ijToSTMin ((I * 2 ^ (30 - n) : Nat) : Int))) ≤ 1616 / 10000 := by
  obtain ⟨J, hJ, a, b⟩ := side_anc 4 I n h4 hn hI
  have w := width4 J (by simpa using hJ)
  show FloatErr.val (stToUV (g ((I + 1) * 2 ^ (30 - n)))) - FloatErr.val (stToUV (g (I * 2 ^ (30 - n)))) ≤ _
  have e : (30 - 4 : Nat) = 26 := rfl
  rw [e] at a b
  exact le_trans (sub_le_sub b a) w

/-! ### the face-edge dichotomy -/

theorem near_top_int :
    (S2.Exact.toInt (stToUV (g (2 ^ 30))) - S2.Exact.toInt (stToUV (g (2 ^ 30 - 1)))) * (2 ^ 40 : Nat)
      ≥ ((1 : Nat) : Int) * 2 ^ 1074 := by
  decide +kernel

theorem near_bot_int :
    (S2.Exact.toInt (stToUV (g 1)) - S2.Exact.toInt (stToUV (g 0))) * (2 ^ 40 : Nat)
      ≥ ((1 : Nat) : Int) * 2 ^ 1074 := by
  decide +kernel

/-- integer comparison ⟹ real comparison, lower bound of a difference -/
theorem val_sub_ge (x y : F64) (p q : Nat) (hq : 0 < q)
    (h : (S2.Exact.toInt y - S2.Exact.toInt x) * (q : Int) ≥ (p : Int) * 2 ^ 1074) :
    (p : ℝ) / (q : ℝ) ≤ FloatErr.val y - FloatErr.val x := by
  unfold FloatErr.val
  have hB : (0 : ℝ) < 2 ^ 1074 := by positivity
  have hq' : (0 : ℝ) < (q : ℝ) := by exact_mod_cast hq
  have h' : (((p : Int) * 2 ^ 1074 : Int) : ℝ) ≤ (((S2.Exact.toInt y - S2.Exact.toInt x) * (q : Int) : Int) : ℝ) :=
    Int.cast_le.2 h
  push_cast at h'
  generalize (2 : ℝ) ^ 1074 = B at *
  rw [← sub_div, div_le_div_iff₀ hq' hB]
  linarith

theorem val_near_top : FloatErr.val (stToUV (g (2 ^ 30 - 1))) ≤ 1 - 1 / 2 ^ 40 := by
  have h := val_sub_ge _ _ 1 (2 ^ 40) (by positivity) near_top_int
  rw [val_g_top] at h
  norm_num at h ⊢
  linarith

theorem val_near_bot : -1 + 1 / 2 ^ 40 ≤ FloatErr.val (stToUV (g 1)) := by
  have h := val_sub_ge _ _ 1 (2 ^ 40) (by positivity) near_bot_int
  rw [val_g_0] at h
  norm_num at h ⊢
  linarith

theorem side_edge (I n : Nat) (hn : n ≤ 30) (hI : I < 2 ^ n) :
    (FloatErr.val (stToUV (ijToSTMin (((I + 1) * 2 ^ (30 - n) : Nat) : Int))) = 1 ∨
      FloatErr.val (stToUV (ijToSTMin (((I + 1) * 2 ^ (30 - n) : Nat) : Int))) ≤ 1 - 1 / 2 ^ 40) ∧
    (FloatErr.val (stToUV (ijToSTMin ((I * 2 ^ (30 - n) : Nat) : Int))) = -1 ∨
      -1 + 1 / 2 ^ 40 ≤ FloatErr.val (stToUV (ijToSTMin ((I * 2 ^ (30 - n) : Nat) : Int)))) := by
  have hle := square_le hn hI
  show (FloatErr.val (stToUV (g ((I + 1) * 2 ^ (30 - n)))) = 1 ∨
      FloatErr.val (stToUV (g ((I + 1) * 2 ^ (30 - n)))) ≤ 1 - 1 / 2 ^ 40) ∧
    (FloatErr.val (stToUV (g (I * 2 ^ (30 - n)))) = -1 ∨
      -1 + 1 / 2 ^ 40 ≤ FloatErr.val (stToUV (g (I * 2 ^ (30 - n)))))
  constructor
  · rcases Nat.lt_or_eq_of_le hle with hlt | heq
    · right
      have h1 : (I + 1) * 2 ^ (30 - n) ≤ 2 ^ 30 - 1 := by omega
      exact le_trans (val_g_mono _ _ h1 (by norm_num)) val_near_top
    · left; rw [heq]; exact val_g_top
  · rcases Nat.eq_zero_or_pos (I * 2 ^ (30 - n)) with h0 | hpos
    · left; rw [h0]; exact val_g_0
    · right
      have hlo : I * 2 ^ (30 - n) ≤ 2 ^ 30 :=
        le_trans (Nat.mul_le_mul_right _ (Nat.le_succ I)) hle
      exact le_trans val_near_bot (val_g_mono _ _ hpos hlo)

end CellWidth
open CellWidth

open S2 S2.CellID S2.CellM in
/-- **a valid cell of level ≥ 3 has uv-width ≤ 0.3126 in both directions** (exact maximum `0.3125` at the face edge) -/
theorem cell_width_le3 (id : CellID) (hv : isValid id = true) (hl : 3 ≤ level id) :
    (rectOf (cellFromCellID id)).u1 - (rectOf (cellFromCellID id)).u0 ≤ 3126 / 10000 ∧
    (rectOf (cellFromCellID id)).v1 - (rectOf (cellFromCellID id)).v0 ≤ 3126 / 10000 := by
  obtain ⟨n, h⟩ := (isValid_iff id).1 hv
  rw [h.level_eq] at hl
  obtain ⟨huv, -⟩ := S2Proofs.C12.cell_bound_is_square h
  obtain ⟨hI, hJ, -⟩ := S2Proofs.C12H.prefixState_bounds id n
  have su := side_width3 _ n hl h.k_le hI
  have sv := side_width3 _ n hl h.k_le hJ
  unfold rectOf
  rw [huv]
  unfold S2Proofs.C12C.boundOf
  simp only
  exact ⟨su, sv⟩

open S2 S2.CellID S2.CellM in
/-- **a valid cell of level ≥ 4 has uv-width ≤ 0.1616 in both directions** (exact maximum `≈ 0.16146`) -/
theorem cell_width_le4 (id : CellID) (hv : isValid id = true) (hl : 4 ≤ level id) :
    (rectOf (cellFromCellID id)).u1 - (rectOf (cellFromCellID id)).u0 ≤ 1616 / 10000 ∧
    (rectOf (cellFromCellID id)).v1 - (rectOf (cellFromCellID id)).v0 ≤ 1616 / 10000 := by
  obtain ⟨n, h⟩ := (isValid_iff id).1 hv
  rw [h.level_eq] at hl
  obtain ⟨huv, -⟩ := S2Proofs.C12.cell_bound_is_square h
  obtain ⟨hI, hJ, -⟩ := S2Proofs.C12H.prefixState_bounds id n
  have su := side_width4 _ n hl h.k_le hI
  have sv := side_width4 _ n hl h.k_le hJ
  unfold rectOf
  rw [huv]
  unfold S2Proofs.C12C.boundOf
  simp only
  exact ⟨su, sv⟩

open S2 S2.CellID S2.CellM in
/-- **every bound of a valid cell is either exactly on the face edge (`±1`) or at least `2^-40` inside** -/
theorem cell_edge_exact (id : CellID) (hv : isValid id = true) :
    ((rectOf (cellFromCellID id)).u1 = 1 ∨ (rectOf (cellFromCellID id)).u1 ≤ 1 - 1 / 2 ^ 40) ∧
    ((rectOf (cellFromCellID id)).u0 = -1 ∨ -1 + 1 / 2 ^ 40 ≤ (rectOf (cellFromCellID id)).u0) ∧
    ((rectOf (cellFromCellID id)).v1 = 1 ∨ (rectOf (cellFromCellID id)).v1 ≤ 1 - 1 / 2 ^ 40) ∧
    ((rectOf (cellFromCellID id)).v0 = -1 ∨ -1 + 1 / 2 ^ 40 ≤ (rectOf (cellFromCellID id)).v0) := by
  obtain ⟨n, h⟩ := (isValid_iff id).1 hv
  obtain ⟨huv, -⟩ := S2Proofs.C12.cell_bound_is_square h
  obtain ⟨hI, hJ, -⟩ := S2Proofs.C12H.prefixState_bounds id n
  obtain ⟨su1, su0⟩ := side_edge _ n h.k_le hI
  obtain ⟨sv1, sv0⟩ := side_edge _ n h.k_le hJ
  unfold rectOf
  rw [huv]
  unfold S2Proofs.C12C.boundOf
  simp only
  exact ⟨su1, su0, sv1, sv0⟩

-- non-vacuity: a valid cell of level 29 (≥ 4 ≥ 3), a valid cell of level 3
example : S2.CellID.isValid (0x5555555555555554 : S2.CellID) = true ∧ 4 ≤ S2.CellID.level (0x5555555555555554 : S2.CellID) ∧
    S2.CellID.isValid (0x3040000000000000 : S2.CellID) = true ∧ S2.CellID.level (0x3040000000000000 : S2.CellID) = 3 := by
  decide

end S2Proofs.C12Cap
