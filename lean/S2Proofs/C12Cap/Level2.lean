/-
  C12Cap.Level2 — the raw radius of the cap of every cell of level ≥ 2 is at most 0.1703 (uv widths ≤ 0.58334 by `cell_width_le2`,
  chord² ≤ |ΔU|² ≤ w²/2 by `raw_le_of_width`).
-/
import S2Proofs.C12Cap.RadiusBounds
import S2Proofs.C12Cap.CellWidth2

set_option exponentiation.threshold 3000

namespace S2Proofs.C12Cap
open S2 S2.CellM S2.Exact S2Proofs.FloatErr S2Proofs.F64Order S2Proofs.C16Acc S2Proofs.C12Dist S2Proofs.CapF64
open S2.CapF64

theorem raw_radius_le_level2 (id : CellID) (hv : CellID.isValid id = true) (hl : 2 ≤ CellID.level id) :
    ∃ R : F64, capBoundRaw (cellFromCellID id) = ⟨capCenter (cellFromCellID id), R⟩ ∧ Fin R ∧ 0 ≤ val R ∧ val R ≤ 1703 / 10000 ∧
      val (Chord.between (capCenter (cellFromCellID id)) (vertex (cellFromCellID id) 0)) ≤ val R ∧
      val (Chord.between (capCenter (cellFromCellID id)) (vertex (cellFromCellID id) 1)) ≤ val R ∧
      val (Chord.between (capCenter (cellFromCellID id)) (vertex (cellFromCellID id) 2)) ≤ val R ∧
      val (Chord.between (capCenter (cellFromCellID id)) (vertex (cellFromCellID id) 3)) ≤ val R := by
  have ctx := capCtx id hv
  obtain ⟨wu, wv⟩ := cell_width_le2 id hv hl
  have hb := raw_le_of_width (cellFromCellID id) ctx (58334 / 100000) (1 - 850715 / 10000000) (41249 / 100000) (1703 / 10000)
    wu wv (by norm_num) (by norm_num) (by norm_num) (by norm_num)
  exact raw_radius_le_of_chords (cellFromCellID id) ctx (1703 / 10000) (by norm_num) hb

end S2Proofs.C12Cap
