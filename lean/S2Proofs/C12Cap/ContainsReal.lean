/-
  C12Cap.ContainsReal — the FLOAT test `Cell.ContainsPoint(p) = true` (model `S2.CellM.containsPoint`: `faceXYZToUV`, then the
  uv rectangle expanded by `containsMargin = 2·2^-52`) as REAL inequalities on the face-frame coordinates of `p`.

  * `containsPoint_real_crude` : no hypothesis on the rectangle besides `RRect.OK`; slack `3.01ε` (ε = 2^-52);
  * `containsPoint_real`       : each bound is either `±1` or at least `2^-40` away from it; slack `2.76ε`.

  Why: the accepted `u_f = fl(x/z)` has `fl(u0 − 2ε) ≤ u_f ≤ fl(u1 + 2ε)`.  The rounding error of the addition is at most
  `(ε/2)(1+2ε)` (crude), and at most `ε/4` if `|u1 + 2ε| ≤ 1`, and `0` for `u1 = 1` (`1 + 2^-51` is a float).  The true
  quotient is within `(ε/2)(1+4ε) + 2^-1075` of `u_f` (the comparison with the finite bounds shows that `u_f` is finite).
-/
import S2Proofs.C12Cap.Main
import S2Proofs.C12.MarginAssemble
import S2Proofs.FloatErr3.Defs
import S2Proofs.FloatErr2.Normal

set_option exponentiation.threshold 3000
set_option linter.unusedSimpArgs false

namespace S2Proofs.C12Cap
open S2 S2.CellM S2.Exact S2Proofs.FloatErr S2Proofs.F64Order S2Proofs.C16Acc S2Proofs.C12Dist S2Proofs.CapF64
open S2.CapF64

namespace CR

/-! ### the margin -/

theorem fin_cm : Fin containsMargin := S2Proofs.C12M.fin_containsMargin

set_option exponentiation.threshold 256 in
theorem val_cm : val containsMargin = 2 * eps := by
  rw [S2Proofs.C12M.containsMargin_bits]
  have h : Exact.toInt (⟨0x3CC0000000000000⟩ : F64) = 2 ^ 1023 := by decide +kernel
  unfold val eps
  rw [h]
  have hU : (2 : ℝ) ^ 1074 = 2 ^ 51 * 2 ^ 1023 := by rw [← pow_add]
  rw [hU]; push_cast
  have hp : (0 : ℝ) < 2 ^ 1023 := by positivity
  generalize (2 : ℝ) ^ 1023 = P at *
  field_simp

theorem uR_eq : uR = eps / 2 := by unfold uR eps; norm_num

/-! ### unfolding the rectangle test -/

theorem rect_unfold (uv : Rect2) (u v : F64) (nu : u.isNaN = false)
    (h : Rect2.containsPoint (Rect2.expandedByMargin uv containsMargin) u v = true) :
    Ivl.contains (Ivl.expanded uv.1 containsMargin) u = true ∧
    Ivl.contains (Ivl.expanded uv.2 containsMargin) v = true := by
  unfold Rect2.expandedByMargin Rect2.expanded at h
  simp only at h
  split at h
  · exfalso
    unfold Rect2.containsPoint emptyIvl Ivl.contains at h
    simp only [Bool.and_eq_true] at h
    obtain ⟨⟨h1, h2⟩, _⟩ := h
    have f1 : Fin F64.one := by decide
    have f0 : Fin fzero := by decide
    rw [F64Round.le_iff_ext (isNaN_false f1) nu] at h1
    rw [F64Round.le_iff_ext nu (isNaN_false f0)] at h2
    rw [F64Round.ext_finite f1, F64Round.toInt_one] at h1
    rw [F64Round.ext_finite f0] at h2
    have e0 : toInt fzero = 0 := F64Round.toInt_zero
    rw [e0] at h2
    have := le_trans h1 h2
    exact absurd this (not_le.2 (by positivity))
  · unfold Rect2.containsPoint at h
    simpa [Bool.and_eq_true] using h

theorem ivl_unfold (lo hi u : F64) (flo : Fin lo) (fhi : Fin hi) (hlh : val lo ≤ val hi) (nu : u.isNaN = false)
    (fa : Fin (lo - containsMargin)) (fb : Fin (hi + containsMargin))
    (h : Ivl.contains (Ivl.expanded (lo, hi) containsMargin) u = true) :
    Fin u ∧ val (lo - containsMargin) ≤ val u ∧ val u ≤ val (hi + containsMargin) := by
  have e0 : Ivl.isEmpty (lo, hi) = false := by
    unfold Ivl.isEmpty F64.gt
    rw [Bool.eq_false_iff]; intro h'
    have := (lt_iff_val fhi flo).1 h'
    linarith
  unfold Ivl.expanded at h
  rw [e0] at h
  simp only [Bool.false_eq_true, if_false] at h
  unfold Ivl.contains at h
  simp only [Bool.and_eq_true] at h
  obtain ⟨h1, h2⟩ := h
  have fu : Fin u := by
    have e1 := (F64Round.le_iff_ext (isNaN_false fa) nu).1 h1
    have e2 := (F64Round.le_iff_ext nu (isNaN_false fb)).1 h2
    rw [F64Round.ext_finite fa] at e1
    rw [F64Round.ext_finite fb] at e2
    have b1 := F64Round.toInt_bounds _ fa
    have b2 := F64Round.toInt_bounds _ fb
    exact F64Round.fin_of_ext_lt nu (lt_of_lt_of_le b1.1 e1) (lt_of_le_of_lt e2 b2.2)
  exact ⟨fu, (le_iff_val fa fu).1 h1, (le_iff_val fu fb).1 h2⟩

/-! ### division with a finite result -/

/-- division in standard-model form when the quotient is known to be finite -/
theorem div_fin_err {x y : F64} (hx : Fin x) (hy : Fin y) (hy0 : val y ≠ 0) (hfin : Fin (x / y)) :
    |val (x / y) - val x / val y| ≤ uR * |val x / val y| + eR := by
  have hz : y.isZero = false := FE2.isZero_false_of_val_ne hy0
  have hR := F64Round.isRound_div hx hy hz
  set Q : ℚ := F64Round.val x / F64Round.val y with hQ
  have hQr : ((Q : ℚ) : ℝ) = val x / val y := by
    rw [hQ]; push_cast; rw [← FE2.val_cast, ← FE2.val_cast]
  have hfin' : Fin (F64.div x y) := hfin
  have herrQ : |F64Round.val (F64.div x y) - Q| ≤ |Q| / 2 ^ 53 + 1 / 2 ^ 1075 := by
    rcases lt_or_ge |Q| (1 / 2 ^ 1021) with h | h
    · have h1 := hR.abs_err h
      have h2 : (0 : ℚ) ≤ |Q| / 2 ^ 53 := by positivity
      exact le_trans h1 (le_add_of_nonneg_left h2)
    · have h2 : (1 : ℚ) / 2 ^ 1022 ≤ |Q| :=
        le_trans (one_div_le_one_div_of_le (by positivity) (pow_le_pow_right₀ (by norm_num) (by norm_num))) h
      have h3 := hR.rel_err hfin' h2
      have h4 : (0 : ℚ) ≤ 1 / 2 ^ 1075 := by positivity
      exact le_trans h3 (le_add_of_nonneg_right h4)
  have hR' : ((|F64Round.val (F64.div x y) - Q| : ℚ) : ℝ) ≤ ((|Q| / 2 ^ 53 + 1 / 2 ^ 1075 : ℚ) : ℝ) :=
    Rat.cast_le.mpr herrQ
  rw [Rat.cast_abs] at hR'
  push_cast at hR'
  rw [← FE2.val_cast, hQr] at hR'
  show |val (F64.div x y) - val x / val y| ≤ uR * |val x / val y| + eR
  have e : uR * |val x / val y| = |val x / val y| / 2 ^ 53 := by unfold uR; ring
  rw [e]
  unfold eR
  exact hR'

theorem div_nan {x y : F64} (hx : Fin x) (hy : Fin y) (hy0 : val y ≠ 0) : (x / y).isNaN = false :=
  (F64Round.isRound_div hx hy (FE2.isZero_false_of_val_ne hy0)).1

/-- a finite quotient between `L` and `H` (both of size `≤ 1 + 3ε`): the real quotient -/
theorem quot_bounds {a m : F64} (fa : Fin a) (fm : Fin m) (hm0 : val m ≠ 0) (fq : Fin (a / m)) (L H : ℝ)
    (hL : -(1 + 3 * eps) ≤ L) (hH : H ≤ 1 + 3 * eps) (h1 : L ≤ val (a / m)) (h2 : val (a / m) ≤ H) :
    L - (uR * (1 + 4 * eps) + eR) ≤ val a / val m ∧ val a / val m ≤ H + (uR * (1 + 4 * eps) + eR) := by
  have herr := div_fin_err fa fm hm0 fq
  set Q := val a / val m
  set r := val (a / m)
  have hu0 : 0 < uR := by unfold uR; positivity
  have he0 := eR_nonneg
  have hr : |r| ≤ 1 + 3 * eps := abs_le.2 ⟨by linarith, by linarith⟩
  have hQ : |Q| ≤ 1 + 4 * eps := by
    by_contra hc
    have hc := not_le.1 hc
    have t1 : |Q| ≤ |r| + |r - Q| := by
      have := abs_sub_abs_le_abs_sub Q r
      rw [abs_sub_comm Q r] at this
      linarith
    have t2 : (1 + 4 * eps) * (1 - uR) < |Q| * (1 - uR) :=
      mul_lt_mul_of_pos_right hc (by unfold uR; norm_num)
    have t3 : 1 + 3 * eps + eR ≤ (1 + 4 * eps) * (1 - uR) := by unfold eps uR eR; norm_num
    nlinarith
  have hbd : |r - Q| ≤ uR * (1 + 4 * eps) + eR := by
    have := mul_le_mul_of_nonneg_left hQ hu0.le
    linarith
  have := abs_le.1 hbd
  constructor <;> linarith

/-! ### one coordinate -/

/-- the slack of one coordinate when the two expanded bounds are within `d` of `lo − 2ε`, `hi + 2ε` -/
noncomputable def slack (d : ℝ) : ℝ := 2 * eps + d + (uR * (1 + 4 * eps) + eR)

theorem coord_real (d : ℝ) (hd : d ≤ eps) (lo hi a m : F64) (flo : Fin lo) (fhi : Fin hi)
    (blo : -1 ≤ val lo) (bhi : val hi ≤ 1) (hlh : val lo ≤ val hi)
    (fA : Fin (lo - containsMargin)) (eA : |val (lo - containsMargin) - (val lo - 2 * eps)| ≤ d)
    (fB : Fin (hi + containsMargin)) (eB : |val (hi + containsMargin) - (val hi + 2 * eps)| ≤ d)
    (fa : Fin a) (fm : Fin m) (hm0 : val m ≠ 0)
    (h : Ivl.contains (Ivl.expanded (lo, hi) containsMargin) (a / m) = true) :
    val lo - slack d ≤ val a / val m ∧ val a / val m ≤ val hi + slack d := by
  obtain ⟨fq, h1, h2⟩ := ivl_unfold lo hi (a / m) flo fhi hlh (div_nan fa fm hm0) fA fB h
  have a1 := abs_le.1 eA
  have b1 := abs_le.1 eB
  have he := eps_pos
  obtain ⟨q1, q2⟩ := quot_bounds fa fm hm0 fq _ _ (by linarith) (by linarith) h1 h2
  unfold slack
  constructor <;> linarith

/-- from quotient bounds to the cone inequalities -/
theorem mul_form {X Z L H : ℝ} (hz : 0 < Z) (h1 : L ≤ X / Z) (h2 : X / Z ≤ H) : L * Z ≤ X ∧ X ≤ H * Z :=
  ⟨(le_div_iff₀ hz).1 h1, (div_le_iff₀ hz).1 h2⟩

theorem mul_form' {X Z q L H : ℝ} (hz : 0 < Z) (e : X / Z = q) (h1 : L ≤ q) (h2 : q ≤ H) :
    L * Z ≤ X ∧ X ≤ H * Z := by
  subst e; exact mul_form hz h1 h2

/-! ### the two error bounds of the expanded interval ends -/

theorem ends_crude (x : F64) (fx : Fin x) (b0 : -1 ≤ val x) (b1 : val x ≤ 1) :
    (Fin (x - containsMargin) ∧ |val (x - containsMargin) - (val x - 2 * eps)| ≤ eps / 2 * (1 + 2 * eps)) ∧
    (Fin (x + containsMargin) ∧ |val (x + containsMargin) - (val x + 2 * eps)| ≤ eps / 2 * (1 + 2 * eps)) := by
  have he := eps_pos
  have he1 : eps ≤ 1 := by unfold eps; norm_num
  have hb : (3 : ℝ) < 2 ^ 1000 := by
    have : (2 : ℝ) ^ 2 ≤ 2 ^ 1000 := pow_le_pow_right₀ (by norm_num) (by norm_num)
    linarith
  constructor
  · obtain ⟨δ, hδ, hv, hf⟩ := sub_std x containsMargin fx fin_cm (by
      rw [val_cm]; exact lt_of_le_of_lt (abs_le.2 ⟨by linarith, by linarith⟩) hb)
    refine ⟨hf, ?_⟩
    show |val (F64.sub x containsMargin) - (val x - 2 * eps)| ≤ _
    rw [hv, val_cm]
    have e : (val x - 2 * eps) * (1 + δ) - (val x - 2 * eps) = δ * (val x - 2 * eps) := by ring
    rw [e, abs_mul]
    rw [uR_eq] at hδ
    have hs : |val x - 2 * eps| ≤ 1 + 2 * eps := abs_le.2 ⟨by linarith, by linarith⟩
    exact mul_le_mul hδ hs (abs_nonneg _) (by linarith)
  · obtain ⟨δ, hδ, hv, hf⟩ := add_std x containsMargin fx fin_cm (by
      rw [val_cm]; exact lt_of_le_of_lt (abs_le.2 ⟨by linarith, by linarith⟩) hb)
    refine ⟨hf, ?_⟩
    show |val (F64.add x containsMargin) - (val x + 2 * eps)| ≤ _
    rw [hv, val_cm]
    have e : (val x + 2 * eps) * (1 + δ) - (val x + 2 * eps) = δ * (val x + 2 * eps) := by ring
    rw [e, abs_mul]
    rw [uR_eq] at hδ
    have hs : |val x + 2 * eps| ≤ 1 + 2 * eps := abs_le.2 ⟨by linarith, by linarith⟩
    exact mul_le_mul hδ hs (abs_nonneg _) (by linarith)

/-! ### both coordinates -/

/-- what is needed about one end of an expanded interval -/
def EndOK (d : ℝ) (x : F64) (s : Bool) : Prop :=
  if s then Fin (x + containsMargin) ∧ |val (x + containsMargin) - (val x + 2 * eps)| ≤ d
  else Fin (x - containsMargin) ∧ |val (x - containsMargin) - (val x - 2 * eps)| ≤ d

theorem uv_core (d : ℝ) (hd : d ≤ eps) (uv : Rect2) (fu0 : Fin uv.1.1) (fu1 : Fin uv.1.2) (fv0 : Fin uv.2.1)
    (fv1 : Fin uv.2.2) (ok : RRect.OK ⟨val uv.1.1, val uv.1.2, val uv.2.1, val uv.2.2⟩)
    (A0 : EndOK d uv.1.1 false) (A1 : EndOK d uv.1.2 true) (B0 : EndOK d uv.2.1 false) (B1 : EndOK d uv.2.2 true)
    (a b m : F64) (fa : Fin a) (fb : Fin b) (fm : Fin m) (hm0 : val m ≠ 0)
    (h : Rect2.containsPoint (Rect2.expandedByMargin uv containsMargin) (a / m) (b / m) = true) :
    (val uv.1.1 - slack d ≤ val a / val m ∧ val a / val m ≤ val uv.1.2 + slack d) ∧
    (val uv.2.1 - slack d ≤ val b / val m ∧ val b / val m ≤ val uv.2.2 + slack d) := by
  obtain ⟨h1, h2⟩ := rect_unfold uv _ _ (div_nan fa fm hm0) h
  obtain ⟨o1, o2, o3, o4, o5, o6⟩ := ok
  simp only at o1 o2 o3 o4 o5 o6
  simp only [EndOK, if_true, Bool.false_eq_true, if_false] at A0 A1 B0 B1
  exact ⟨coord_real d hd uv.1.1 uv.1.2 a m fu0 fu1 o1 o3 o2.le A0.1 A0.2 A1.1 A1.2 fa fm hm0 h1,
    coord_real d hd uv.2.1 uv.2.2 b m fv0 fv1 o4 o6 o5.le B0.1 B0.2 B1.1 B1.2 fb fm hm0 h2⟩

theorem core (d : ℝ) (hd : d ≤ eps) (c : Cell) (fu0 : Fin c.uv.1.1) (fu1 : Fin c.uv.1.2) (fv0 : Fin c.uv.2.1)
    (fv1 : Fin c.uv.2.2) (ok : (rectOf c).OK) (hf : c.face < 6)
    (A0 : EndOK d c.uv.1.1 false) (A1 : EndOK d c.uv.1.2 true) (B0 : EndOK d c.uv.2.1 false)
    (B1 : EndOK d c.uv.2.2 true)
    (p : V3) (hp : Fin3 p) (h : containsPoint c p = true) :
    0 < (uvwR c.face (ofV p)).z ∧
    ((rectOf c).u0 - slack d) * (uvwR c.face (ofV p)).z ≤ (uvwR c.face (ofV p)).x ∧
    (uvwR c.face (ofV p)).x ≤ ((rectOf c).u1 + slack d) * (uvwR c.face (ofV p)).z ∧
    ((rectOf c).v0 - slack d) * (uvwR c.face (ofV p)).z ≤ (uvwR c.face (ofV p)).y ∧
    (uvwR c.face (ofV p)).y ≤ ((rectOf c).v1 + slack d) * (uvwR c.face (ofV p)).z := by
  obtain ⟨fx, fy, fz⟩ := hp
  have f0 : Fin fzero := by decide
  have v0 : val fzero = 0 := (zero_val false).2
  have hn : ∀ x : F64, val (-x) = - val x := fun x => val_neg x
  have hfn : ∀ x : F64, Fin x → Fin (-x) := fun x hx => (S2Proofs.F64Sym.isFinite_neg x).2 hx
  have K := uv_core d hd c.uv fu0 fu1 fv0 fv1 ok A0 A1 B0 B1
  have hc : c.face = 0 ∨ c.face = 1 ∨ c.face = 2 ∨ c.face = 3 ∨ c.face = 4 ∨ c.face = 5 := by omega
  unfold containsPoint at h
  unfold rectOf
  simp only
  rcases hc with hc | hc | hc | hc | hc | hc <;> rw [hc] at h ⊢
  · have hb : F64.le p.x fzero = false := by
      by_contra hb'; rw [Bool.not_eq_false] at hb'
      simp [faceXYZToUV, F64.ge, hb'] at h
    simp only [faceXYZToUV, F64.ge, hb, STUV.validFaceXYZToUV, Bool.false_eq_true, if_false] at h
    have hpos : 0 < val p.x := by
      by_contra hh
      have := (le_iff_val fx f0).2 (by rw [v0]; linarith)
      rw [this] at hb; exact Bool.noConfusion hb
    have hne : val p.x ≠ 0 := hpos.ne'
    obtain ⟨⟨k1, k2⟩, k3, k4⟩ := K _ _ _ fy fz fx hne h
    try simp only [hn] at k1 k2 k3 k4
    simp only [uvwR, ofV]
    obtain ⟨m1, m2⟩ := mul_form' hpos (rfl) k1 k2
    obtain ⟨m3, m4⟩ := mul_form' hpos (rfl) k3 k4
    exact ⟨hpos, m1, m2, m3, m4⟩
  · have hb : F64.le p.y fzero = false := by
      by_contra hb'; rw [Bool.not_eq_false] at hb'
      simp [faceXYZToUV, F64.ge, hb'] at h
    simp only [faceXYZToUV, F64.ge, hb, STUV.validFaceXYZToUV, Bool.false_eq_true, if_false] at h
    have hpos : 0 < val p.y := by
      by_contra hh
      have := (le_iff_val fy f0).2 (by rw [v0]; linarith)
      rw [this] at hb; exact Bool.noConfusion hb
    have hne : val p.y ≠ 0 := hpos.ne'
    obtain ⟨⟨k1, k2⟩, k3, k4⟩ := K _ _ _ (hfn _ fx) fz fy hne h
    try simp only [hn] at k1 k2 k3 k4
    simp only [uvwR, ofV]
    obtain ⟨m1, m2⟩ := mul_form' hpos (rfl) k1 k2
    obtain ⟨m3, m4⟩ := mul_form' hpos (rfl) k3 k4
    exact ⟨hpos, m1, m2, m3, m4⟩
  · have hb : F64.le p.z fzero = false := by
      by_contra hb'; rw [Bool.not_eq_false] at hb'
      simp [faceXYZToUV, F64.ge, hb'] at h
    simp only [faceXYZToUV, F64.ge, hb, STUV.validFaceXYZToUV, Bool.false_eq_true, if_false] at h
    have hpos : 0 < val p.z := by
      by_contra hh
      have := (le_iff_val fz f0).2 (by rw [v0]; linarith)
      rw [this] at hb; exact Bool.noConfusion hb
    have hne : val p.z ≠ 0 := hpos.ne'
    obtain ⟨⟨k1, k2⟩, k3, k4⟩ := K _ _ _ (hfn _ fx) (hfn _ fy) fz hne h
    try simp only [hn] at k1 k2 k3 k4
    simp only [uvwR, ofV]
    obtain ⟨m1, m2⟩ := mul_form' hpos (rfl) k1 k2
    obtain ⟨m3, m4⟩ := mul_form' hpos (rfl) k3 k4
    exact ⟨hpos, m1, m2, m3, m4⟩
  · have hb : F64.le fzero p.x = false := by
      by_contra hb'; rw [Bool.not_eq_false] at hb'
      simp [faceXYZToUV, F64.ge, hb'] at h
    simp only [faceXYZToUV, F64.ge, hb, STUV.validFaceXYZToUV, Bool.false_eq_true, if_false] at h
    have hneg : val p.x < 0 := by
      by_contra hh
      have := (le_iff_val f0 fx).2 (by rw [v0]; linarith)
      rw [this] at hb; exact Bool.noConfusion hb
    have hne : val p.x ≠ 0 := hneg.ne
    have hpos : 0 < -val p.x := by linarith
    obtain ⟨⟨k1, k2⟩, k3, k4⟩ := K _ _ _ fz fy fx hne h
    try simp only [hn] at k1 k2 k3 k4
    simp only [uvwR, ofV]
    obtain ⟨m1, m2⟩ := mul_form' hpos (neg_div_neg_eq _ _) k1 k2
    obtain ⟨m3, m4⟩ := mul_form' hpos (neg_div_neg_eq _ _) k3 k4
    exact ⟨hpos, m1, m2, m3, m4⟩
  · have hb : F64.le fzero p.y = false := by
      by_contra hb'; rw [Bool.not_eq_false] at hb'
      simp [faceXYZToUV, F64.ge, hb'] at h
    simp only [faceXYZToUV, F64.ge, hb, STUV.validFaceXYZToUV, Bool.false_eq_true, if_false] at h
    have hneg : val p.y < 0 := by
      by_contra hh
      have := (le_iff_val f0 fy).2 (by rw [v0]; linarith)
      rw [this] at hb; exact Bool.noConfusion hb
    have hne : val p.y ≠ 0 := hneg.ne
    have hpos : 0 < -val p.y := by linarith
    obtain ⟨⟨k1, k2⟩, k3, k4⟩ := K _ _ _ fz (hfn _ fx) fy hne h
    try simp only [hn] at k1 k2 k3 k4
    simp only [uvwR, ofV]
    obtain ⟨m1, m2⟩ := mul_form' hpos (neg_div_neg_eq _ _) k1 k2
    obtain ⟨m3, m4⟩ := mul_form' (X := val p.x) hpos (by rw [div_neg, neg_div]) k3 k4
    exact ⟨hpos, m1, m2, m3, m4⟩
  · have hb : F64.le fzero p.z = false := by
      by_contra hb'; rw [Bool.not_eq_false] at hb'
      simp [faceXYZToUV, F64.ge, hb'] at h
    simp only [faceXYZToUV, F64.ge, hb, STUV.validFaceXYZToUV, Bool.false_eq_true, if_false] at h
    have hneg : val p.z < 0 := by
      by_contra hh
      have := (le_iff_val f0 fz).2 (by rw [v0]; linarith)
      rw [this] at hb; exact Bool.noConfusion hb
    have hne : val p.z ≠ 0 := hneg.ne
    have hpos : 0 < -val p.z := by linarith
    obtain ⟨⟨k1, k2⟩, k3, k4⟩ := K _ _ _ (hfn _ fy) (hfn _ fx) fz hne h
    try simp only [hn] at k1 k2 k3 k4
    simp only [uvwR, ofV]
    obtain ⟨m1, m2⟩ := mul_form' (X := val p.y) hpos (by rw [div_neg, neg_div]) k1 k2
    obtain ⟨m3, m4⟩ := mul_form' (X := val p.x) hpos (by rw [div_neg, neg_div]) k3 k4
    exact ⟨hpos, m1, m2, m3, m4⟩

/-! ### sharp bounds of the expanded interval ends -/

set_option exponentiation.threshold 256 in
theorem one_plus : Fin (F64.one + containsMargin) ∧ val (F64.one + containsMargin) = 1 + 2 * eps := by
  have e : F64.add F64.one containsMargin = ⟨0x3FF0000000000002⟩ := by decide +kernel
  show Fin (F64.add F64.one containsMargin) ∧ val (F64.add F64.one containsMargin) = 1 + 2 * eps
  rw [e]
  refine ⟨by decide, ?_⟩
  have h : Exact.toInt (⟨0x3FF0000000000002⟩ : F64) = 2 ^ 1074 + 2 ^ 1023 := by decide +kernel
  unfold val eps
  rw [h]
  have hU : (2 : ℝ) ^ 1074 = 2 ^ 51 * 2 ^ 1023 := by rw [← pow_add]
  push_cast
  rw [hU]
  have hp : (0 : ℝ) < 2 ^ 1023 := by positivity
  generalize (2 : ℝ) ^ 1023 = P at *
  field_simp

set_option exponentiation.threshold 256 in
theorem negone_minus :
    Fin (F64.neg F64.one - containsMargin) ∧ val (F64.neg F64.one - containsMargin) = -1 - 2 * eps := by
  have e : F64.sub (F64.neg F64.one) containsMargin = ⟨0xBFF0000000000002⟩ := by decide +kernel
  show Fin (F64.sub (F64.neg F64.one) containsMargin) ∧ val (F64.sub (F64.neg F64.one) containsMargin) = -1 - 2 * eps
  rw [e]
  refine ⟨by decide, ?_⟩
  have h : Exact.toInt (⟨0xBFF0000000000002⟩ : F64) = -(2 ^ 1074 + 2 ^ 1023) := by decide +kernel
  unfold val eps
  rw [h]
  have hU : (2 : ℝ) ^ 1074 = 2 ^ 51 * 2 ^ 1023 := by rw [← pow_add]
  push_cast
  rw [hU]
  have hp : (0 : ℝ) < 2 ^ 1023 := by positivity
  generalize (2 : ℝ) ^ 1023 = P at *
  field_simp
  norm_num

theorem eq_of_val_eq {x y : F64} (h : val x = val y) (hy : val y ≠ 0) : x = y := by
  have ht := (S2Proofs.C12Dist.VertexErr.val_eq_iff x y).1 h
  have z0 : toInt (F64.zero true) = 0 := by decide
  have hy' : toInt y ≠ 0 := by
    intro h0; apply hy; unfold val; rw [h0]; simp
  apply S2Proofs.F64Inj.toInt_inj ht
  · rintro rfl; rw [z0] at ht; exact hy' ht.symm
  · rintro rfl; exact hy' z0

theorem ends_sharp_hi (x : F64) (fx : Fin x) (b0 : -1 ≤ val x) (h : val x = 1 ∨ val x ≤ 1 - 1 / 2 ^ 40) :
    Fin (x + containsMargin) ∧ |val (x + containsMargin) - (val x + 2 * eps)| ≤ eps / 4 := by
  have he := eps_pos
  rcases h with h | h
  · have v1 := S2Proofs.C12Dist.VertexErr.val_one
    have : x = F64.one := eq_of_val_eq (by rw [h, v1]) (by rw [v1]; norm_num)
    subst this
    refine ⟨one_plus.1, ?_⟩
    rw [one_plus.2, v1]; simp; linarith
  · have h40 : 2 * eps ≤ 1 / 2 ^ 40 := by unfold eps; norm_num
    obtain ⟨f, e⟩ := S2Proofs.FE3.add_ulp fx fin_cm 0 (by norm_num) (by
      rw [val_cm]; exact abs_le.2 ⟨by linarith, by norm_num; linarith⟩)
    refine ⟨f, ?_⟩
    rw [val_cm] at e
    have : (1 : ℝ) / 2 ^ (0 + 54) = eps / 4 := by unfold eps; norm_num
    linarith

theorem ends_sharp_lo (x : F64) (fx : Fin x) (b1 : val x ≤ 1) (h : val x = -1 ∨ -1 + 1 / 2 ^ 40 ≤ val x) :
    Fin (x - containsMargin) ∧ |val (x - containsMargin) - (val x - 2 * eps)| ≤ eps / 4 := by
  have he := eps_pos
  rcases h with h | h
  · have v1 := S2Proofs.C12Dist.VertexErr.val_one
    have vn : val (F64.neg F64.one) = -1 := by rw [val_neg, v1]
    have : x = F64.neg F64.one := eq_of_val_eq (by rw [h, vn]) (by rw [vn]; norm_num)
    subst this
    refine ⟨negone_minus.1, ?_⟩
    rw [negone_minus.2, vn]; simp; linarith
  · have h40 : 2 * eps ≤ 1 / 2 ^ 40 := by unfold eps; norm_num
    obtain ⟨f, e⟩ := S2Proofs.FE3.sub_ulp fx fin_cm 0 (by norm_num) (by
      rw [val_cm]; exact abs_le.2 ⟨by norm_num; linarith, by linarith⟩)
    refine ⟨f, ?_⟩
    rw [val_cm] at e
    have : (1 : ℝ) / 2 ^ (0 + 54) = eps / 4 := by unfold eps; norm_num
    linarith

theorem slack_crude : slack (eps / 2 * (1 + 2 * eps)) ≤ 301 / 100 * eps := by
  unfold slack uR eR eps; norm_num

theorem slack_sharp : slack (eps / 4) ≤ 276 / 100 * eps := by
  unfold slack uR eR eps; norm_num

theorem weaken {s K u0 u1 v0 v1 X Y Z : ℝ} (hs : s ≤ K)
    (h : 0 < Z ∧ (u0 - s) * Z ≤ X ∧ X ≤ (u1 + s) * Z ∧ (v0 - s) * Z ≤ Y ∧ Y ≤ (v1 + s) * Z) :
    0 < Z ∧ (u0 - K) * Z ≤ X ∧ X ≤ (u1 + K) * Z ∧ (v0 - K) * Z ≤ Y ∧ Y ≤ (v1 + K) * Z := by
  obtain ⟨hz, h1, h2, h3, h4⟩ := h
  have := mul_le_mul_of_nonneg_right hs hz.le
  refine ⟨hz, ?_, ?_, ?_, ?_⟩ <;> nlinarith

end CR

/-- **`Cell.ContainsPoint(p) = true` in real terms, no hypothesis on the rectangle**: slack `3.01·2^-52` -/
theorem containsPoint_real_crude (c : Cell) (fu0 : Fin c.uv.1.1) (fu1 : Fin c.uv.1.2) (fv0 : Fin c.uv.2.1)
    (fv1 : Fin c.uv.2.2) (ok : (rectOf c).OK) (hf : c.face < 6)
    (p : V3) (hp : nunitB p = true) (h : containsPoint c p = true) :
    0 < (uvwR c.face (ofV p)).z ∧
    ((rectOf c).u0 - 301 / 100 * eps) * (uvwR c.face (ofV p)).z ≤ (uvwR c.face (ofV p)).x ∧
    (uvwR c.face (ofV p)).x ≤ ((rectOf c).u1 + 301 / 100 * eps) * (uvwR c.face (ofV p)).z ∧
    ((rectOf c).v0 - 301 / 100 * eps) * (uvwR c.face (ofV p)).z ≤ (uvwR c.face (ofV p)).y ∧
    (uvwR c.face (ofV p)).y ≤ ((rectOf c).v1 + 301 / 100 * eps) * (uvwR c.face (ofV p)).z := by
  have hp3 : Fin3 p := ((nunitB_iff p).1 hp).1
  have he := eps_pos
  have hd : eps / 2 * (1 + 2 * eps) ≤ eps := by
    have : eps ≤ 1 / 4 := by unfold eps; norm_num
    nlinarith
  obtain ⟨o1, o2, o3, o4, o5, o6⟩ := id ok
  simp only [rectOf] at o1 o2 o3 o4 o5 o6
  have A0 := (CR.ends_crude c.uv.1.1 fu0 o1 (by linarith)).1
  have A1 := (CR.ends_crude c.uv.1.2 fu1 (by linarith) o3).2
  have B0 := (CR.ends_crude c.uv.2.1 fv0 o4 (by linarith)).1
  have B1 := (CR.ends_crude c.uv.2.2 fv1 (by linarith) o6).2
  exact CR.weaken CR.slack_crude
    (CR.core _ hd c fu0 fu1 fv0 fv1 ok hf (by simpa [CR.EndOK] using A0) (by simpa [CR.EndOK] using A1)
      (by simpa [CR.EndOK] using B0) (by simpa [CR.EndOK] using B1) p hp3 h)

/-- **`Cell.ContainsPoint(p) = true` in real terms**, each bound of the rectangle being `±1` or at least `2^-40` away
    from it (true for every cell of level ≤ 30): slack `2.76·2^-52` -/
theorem containsPoint_real (c : Cell) (fu0 : Fin c.uv.1.1) (fu1 : Fin c.uv.1.2) (fv0 : Fin c.uv.2.1)
    (fv1 : Fin c.uv.2.2) (ok : (rectOf c).OK) (hf : c.face < 6)
    (hu1 : (rectOf c).u1 = 1 ∨ (rectOf c).u1 ≤ 1 - 1 / 2 ^ 40)
    (hu0 : (rectOf c).u0 = -1 ∨ -1 + 1 / 2 ^ 40 ≤ (rectOf c).u0)
    (hv1 : (rectOf c).v1 = 1 ∨ (rectOf c).v1 ≤ 1 - 1 / 2 ^ 40)
    (hv0 : (rectOf c).v0 = -1 ∨ -1 + 1 / 2 ^ 40 ≤ (rectOf c).v0)
    (p : V3) (hp : nunitB p = true) (h : containsPoint c p = true) :
    0 < (uvwR c.face (ofV p)).z ∧
    ((rectOf c).u0 - 276 / 100 * eps) * (uvwR c.face (ofV p)).z ≤ (uvwR c.face (ofV p)).x ∧
    (uvwR c.face (ofV p)).x ≤ ((rectOf c).u1 + 276 / 100 * eps) * (uvwR c.face (ofV p)).z ∧
    ((rectOf c).v0 - 276 / 100 * eps) * (uvwR c.face (ofV p)).z ≤ (uvwR c.face (ofV p)).y ∧
    (uvwR c.face (ofV p)).y ≤ ((rectOf c).v1 + 276 / 100 * eps) * (uvwR c.face (ofV p)).z := by
  have hp3 : Fin3 p := ((nunitB_iff p).1 hp).1
  have he := eps_pos
  have hd : eps / 4 ≤ eps := by linarith
  obtain ⟨o1, o2, o3, o4, o5, o6⟩ := id ok
  simp only [rectOf] at o1 o2 o3 o4 o5 o6 hu1 hu0 hv1 hv0
  have A0 := CR.ends_sharp_lo c.uv.1.1 fu0 (by linarith) hu0
  have A1 := CR.ends_sharp_hi c.uv.1.2 fu1 (by linarith) hu1
  have B0 := CR.ends_sharp_lo c.uv.2.1 fv0 (by linarith) hv0
  have B1 := CR.ends_sharp_hi c.uv.2.2 fv1 (by linarith) hv1
  exact CR.weaken CR.slack_sharp
    (CR.core _ hd c fu0 fu1 fv0 fv1 ok hf (by simpa [CR.EndOK] using A0) (by simpa [CR.EndOK] using A1)
      (by simpa [CR.EndOK] using B0) (by simpa [CR.EndOK] using B1) p hp3 h)

/-- the face cell 0 (`CellFromCellID(0x1000000000000000)`: face 0, level 0, uv = [-1,1]²) as a literal
    (`cellFromCellID 0x1000000000000000 = exCell` checks by `decide +kernel` in about 90 s; not included for that reason) -/
def exCell : Cell := ⟨0, 0, 0, 0x1000000000000000, ((negOne, F64.one), (negOne, F64.one))⟩

theorem exCell_rect : rectOf exCell = ⟨-1, 1, -1, 1⟩ := by
  have v1 := S2Proofs.C12Dist.VertexErr.val_one
  have e : negOne = F64.neg F64.one := by decide
  have vn : val negOne = -1 := by rw [e, val_neg, v1]
  unfold rectOf exCell
  simp only
  rw [vn, v1]

/-- non-vacuity: the hypotheses of `containsPoint_real` hold together for the face cell 0 and the point `(1, 0, 0)` -/
example : ∃ (c : Cell) (p : V3), Fin c.uv.1.1 ∧ Fin c.uv.1.2 ∧ Fin c.uv.2.1 ∧ Fin c.uv.2.2 ∧ (rectOf c).OK ∧ c.face < 6 ∧
    ((rectOf c).u1 = 1 ∨ (rectOf c).u1 ≤ 1 - 1 / 2 ^ 40) ∧ ((rectOf c).u0 = -1 ∨ -1 + 1 / 2 ^ 40 ≤ (rectOf c).u0) ∧
    ((rectOf c).v1 = 1 ∨ (rectOf c).v1 ≤ 1 - 1 / 2 ^ 40) ∧ ((rectOf c).v0 = -1 ∨ -1 + 1 / 2 ^ 40 ≤ (rectOf c).v0) ∧
    nunitB p = true ∧ containsPoint c p = true := by
  have hr := exCell_rect
  refine ⟨exCell, ⟨F64.one, fzero, fzero⟩, by decide, by decide, by decide, by decide, ?_, by decide, ?_, ?_, ?_, ?_,
    by decide +kernel, by decide +kernel⟩
  · rw [hr]; constructor <;> norm_num
  all_goals rw [hr]; exact Or.inl rfl

end S2Proofs.C12Cap

#print axioms S2Proofs.C12Cap.containsPoint_real_crude
#print axioms S2Proofs.C12Cap.containsPoint_real
