/-
  C12Cap.Main — assembly: the cap computed by `Cell.CapBound` contains the exact cell.

  * `hull_dot`: a vector that has a non-negative dot product with the four unit vertices has, with every cell point, a dot
    product at least as large as with one of the vertices (a cap of radius < 90° that contains the vertices contains their
    spherical convex hull), from `C12Dist.cell_combination`.
  * `CapCtx`: the float facts about one valid cell in the frame of its face (centre, the four vertices).
  * `capCtx`: every valid cell id has them.
-/
import S2Proofs.C12Cap.FloatSide
import S2Proofs.C12Cap.MidGeom
import S2Proofs.C12Cap.Level0
import S2Proofs.C12Cap.Needed
import S2Proofs.C12Cap.Pad
import S2Proofs.C12Dist.CoverBasics
import S2Proofs.FloatErr3.DotSide

set_option exponentiation.threshold 3000

namespace S2Proofs.C12Cap
open S2 S2.CellM S2.Exact S2Proofs.FloatErr S2Proofs.F64Order S2Proofs.C16Acc S2Proofs.C12Dist S2Proofs.CapF64
open S2.CapF64
open S2Proofs.C12Dist.VertexErr (val_one fin_one)

/-! ### the spherical convex hull of the vertices -/

theorem hull_dot (r : RRect) (hr : r.OK) (q : R3) (hq : InCell r q) (t : R3)
    (h00 : 0 ≤ R3.dot t (vhat r.u0 r.v0)) (h10 : 0 ≤ R3.dot t (vhat r.u1 r.v0))
    (h01 : 0 ≤ R3.dot t (vhat r.u0 r.v1)) (h11 : 0 ≤ R3.dot t (vhat r.u1 r.v1)) :
    R3.dot t (vhat r.u0 r.v0) ≤ R3.dot t q ∨ R3.dot t (vhat r.u1 r.v0) ≤ R3.dot t q ∨
    R3.dot t (vhat r.u0 r.v1) ≤ R3.dot t q ∨ R3.dot t (vhat r.u1 r.v1) ≤ R3.dot t q := by
  obtain ⟨c00, c10, c01, c11, n00, n10, n01, n11, hs, _, hd⟩ := cell_combination r hr q hq
  rw [hd t]
  generalize R3.dot t (vhat r.u0 r.v0) = d00 at *
  generalize R3.dot t (vhat r.u1 r.v0) = d10 at *
  generalize R3.dot t (vhat r.u0 r.v1) = d01 at *
  generalize R3.dot t (vhat r.u1 r.v1) = d11 at *
  have key : min (min d00 d10) (min d01 d11) ≤ c00 * d00 + c10 * d10 + c01 * d01 + c11 * d11 := by
    set m := min (min d00 d10) (min d01 d11) with hm
    have m00 : m ≤ d00 := le_trans (min_le_left _ _) (min_le_left _ _)
    have m10 : m ≤ d10 := le_trans (min_le_left _ _) (min_le_right _ _)
    have m01 : m ≤ d01 := le_trans (min_le_right _ _) (min_le_left _ _)
    have m11 : m ≤ d11 := le_trans (min_le_right _ _) (min_le_right _ _)
    have m0 : 0 ≤ m := le_min (le_min h00 h10) (le_min h01 h11)
    have a0 := mul_le_mul_of_nonneg_left m00 n00
    have a1 := mul_le_mul_of_nonneg_left m10 n10
    have a2 := mul_le_mul_of_nonneg_left m01 n01
    have a3 := mul_le_mul_of_nonneg_left m11 n11
    have a4 := mul_nonneg (sub_nonneg.mpr hs) m0
    nlinarith
  rcases min_choice (min d00 d10) (min d01 d11) with h | h
  · rcases min_choice d00 d10 with h' | h'
    · left; rw [h, h'] at key; exact key
    · right; left; rw [h, h'] at key; exact key
  · rcases min_choice d01 d11 with h' | h'
    · right; right; left; rw [h, h'] at key; exact key
    · right; right; right; rw [h, h'] at key; exact key

/-! ### small real lemmas -/

/-- normalising is 2-Lipschitz relative to the length of the reference vector -/
theorem dir_lip (a b : R3) (ha : 0 < a.norm) (hb : 0 < b.norm) :
    (R3.sub (R3.smul (1 / b.norm) b) (R3.smul (1 / a.norm) a)).norm ≤ 2 * (R3.sub b a).norm / a.norm := by
  have e : R3.sub (R3.smul (1 / b.norm) b) (R3.smul (1 / a.norm) a)
      = R3.add (R3.smul (1 / a.norm) (R3.sub b a)) (R3.smul (1 / b.norm - 1 / a.norm) b) := by
    unfold R3.sub R3.smul R3.add; ext <;> simp <;> ring
  rw [e]
  have h1 := R3.norm_add_le (R3.smul (1 / a.norm) (R3.sub b a)) (R3.smul (1 / b.norm - 1 / a.norm) b)
  rw [R3.norm_smul, R3.norm_smul, abs_of_pos (by positivity : (0 : ℝ) < 1 / a.norm)] at h1
  have e2 : |1 / b.norm - 1 / a.norm| * b.norm = |a.norm - b.norm| / a.norm := by
    have : 1 / b.norm - 1 / a.norm = (a.norm - b.norm) / (a.norm * b.norm) := by field_simp
    rw [this, abs_div, abs_of_pos (by positivity : (0 : ℝ) < a.norm * b.norm)]
    field_simp
  rw [e2] at h1
  have h3 : |a.norm - b.norm| ≤ (R3.sub b a).norm := by
    rw [abs_le]
    constructor
    · have := R3.norm_le_add_sub b a; linarith
    · have := R3.norm_le_add_sub a b
      rw [R3.norm_sub_comm] at this; linarith
  have h4 : |a.norm - b.norm| / a.norm ≤ (R3.sub b a).norm / a.norm := div_le_div_of_nonneg_right h3 ha.le
  have e3 : 1 / a.norm * (R3.sub b a).norm = (R3.sub b a).norm / a.norm := by ring
  have e4 : 2 * (R3.sub b a).norm / a.norm = (R3.sub b a).norm / a.norm + (R3.sub b a).norm / a.norm := by ring
  linarith

theorem dot_sub_ge (t a b : R3) : R3.dot t a - t.norm * (R3.sub b a).norm ≤ R3.dot t b := by
  have e : R3.dot t b = R3.dot t a + R3.dot t (R3.sub b a) := by unfold R3.dot R3.sub; ring
  have := R3.abs_dot_le t (R3.sub b a)
  have := (abs_le.mp this).1
  linarith

/-- the float midpoint of a bound interval -/
theorem center_coord (lo hi : F64) (flo : Fin lo) (fhi : Fin hi) (blo : |val lo| ≤ 1) (bhi : |val hi| ≤ 1) :
    Fin (Ivl.center (lo, hi)) ∧ |val (Ivl.center (lo, hi)) - (val lo + val hi) / 2| ≤ 3 * uR := by
  have hM : |val lo + val hi| ≤ 2 := by have := abs_add_le (val lo) (val hi); linarith
  obtain ⟨δ, hδ, hv, fs, bs⟩ := add_op flo fhi hM (by norm_num)
  have fh : Fin F64.half := by decide
  have vh := S2Proofs.FE3.val_half
  have hM2 : |val F64.half * val (lo + hi)| ≤ 2 := by
    rw [abs_mul, vh, abs_of_pos (by norm_num : (0 : ℝ) < 1 / 2)]; linarith
  obtain ⟨δ', η, hδ', hη, hv', fm, _⟩ := mul_op fh fs hM2 (by norm_num)
  refine ⟨fm, ?_⟩
  show |val (F64.half * (lo + hi)) - (val lo + val hi) / 2| ≤ 3 * uR
  rw [hv', hv, vh]
  have e : 1 / 2 * ((val lo + val hi) * (1 + δ)) * (1 + δ') + η - (val lo + val hi) / 2
      = (val lo + val hi) / 2 * (δ + δ' + δ * δ') + η := by ring
  rw [e]
  have hu := uR_nonneg
  have hu1 : uR ≤ 1 / 2 ^ 53 := by unfold uR; exact le_refl _
  have hd : |δ + δ' + δ * δ'| ≤ 2 * uR + uR * uR := by
    have := abs_add_le (δ + δ') (δ * δ')
    have := abs_add_le δ δ'
    have h3 : |δ * δ'| ≤ uR * uR := by rw [abs_mul]; exact mul_le_mul hδ hδ' (abs_nonneg _) hu
    linarith
  have h1 : |(val lo + val hi) / 2 * (δ + δ' + δ * δ')| ≤ 1 * (2 * uR + uR * uR) := by
    rw [abs_mul]
    apply mul_le_mul _ hd (abs_nonneg _) (by norm_num)
    rw [abs_div, abs_of_pos (by norm_num : (0 : ℝ) < 2)]; linarith
  have h2 := abs_add_le ((val lo + val hi) / 2 * (δ + δ' + δ * δ')) η
  have h4 : uR * uR + eR ≤ uR := by
    unfold uR eR; norm_num
  linarith

/-! ### one normalised face point in the frame of the face -/

theorem vhat_as_dir (x y : ℝ) : vhat x y = R3.smul (1 / (⟨x, y, 1⟩ : R3).norm) ⟨x, y, 1⟩ := by
  unfold vhat R3.norm R3.norm2
  simp only
  have e : (1 : ℝ) + x ^ 2 + y ^ 2 = x ^ 2 + y ^ 2 + 1 ^ 2 := by ring
  rw [e]

/-- what the proofs use about a float unit vector `V` that is the normalisation of the face point `(x, y, 1)`:
    Normalize-grade, within `9.001u` of the exact direction `W`, and `μ·(W + ν)` with a tangentially small `ν` -/
def NearDir (f : Nat) (V : V3) (W : R3) : Prop :=
  nunitB V = true ∧ (R3.sub (uvwR f (ofV V)) W).norm ≤ (9 + 1 / 1000) * uR ∧
  ∃ (μ : ℝ) (ν : R3), 0 < μ ∧ uvwR f (ofV V) = R3.smul μ (R3.add W ν) ∧ ν.norm ≤ uR + 1 / 2 ^ 500

theorem nearDir_face (f : Nat) (hf : f < 6) (x y : F64) (fx : Fin x) (fy : Fin y) (bx : |val x| ≤ 11 / 10) (by' : |val y| ≤ 11 / 10) :
    NearDir f (STUV.faceUVToXYZ f x y).normalize (vhat (val x) (val y)) := by
  set xv := STUV.faceUVToXYZ f x y with hxv
  have h3 : Fin3 xv := fin3_faceUV f fx fy
  have hT : uvwR f (ofV xv) = ⟨val x, val y, 1⟩ := uvwR_faceUV f hf x y
  have hn2 : (ofV xv).norm2 = val x ^ 2 + val y ^ 2 + 1 ^ 2 := by
    rw [← uvwR_norm2 f, hT]; rfl
  have hS1 : 1 ≤ (ofV xv).norm2 := by rw [hn2]; nlinarith [sq_nonneg (val x), sq_nonneg (val y)]
  have hS3 : (ofV xv).norm2 ≤ 2 ^ 2 := by
    rw [hn2]
    have := sq_abs (val x); have := sq_abs (val y)
    have := pow_le_pow_left₀ (abs_nonneg (val x)) bx 2
    have := pow_le_pow_left₀ (abs_nonneg (val y)) by' 2
    nlinarith
  have hnorm : (ofV xv).norm ≤ 2 := R3.norm_le_of_sq (by norm_num) hS3
  obtain ⟨c1, c2, c3⟩ := R3.abs_comp_le_norm (ofV xv)
  have p14 : (2 : ℝ) ≤ 2 ^ 14 := by norm_num
  have m1 : |val xv.x| ≤ 2 ^ 14 := le_trans c1 (le_trans hnorm p14)
  have m2 : |val xv.y| ≤ 2 ^ 14 := le_trans c2 (le_trans hnorm p14)
  have m3 : |val xv.z| ≤ 2 ^ 14 := le_trans c3 (le_trans hnorm p14)
  obtain ⟨_, hg, hpos, hclose, μ, ν, hμ, heq, hν⟩ := normalize_spec xv h3 m1 m2 m3 hS1
  have hW : uvwR f (R3.smul (1 / (ofV xv).norm) (ofV xv)) = vhat (val x) (val y) := by
    rw [uvwR_smul, hT, vhat_as_dir, ← hT, uvwR_norm]
  refine ⟨hg, ?_, μ, uvwR f ν, hμ, ?_, ?_⟩
  · rw [← hW, ← uvwR_sub, uvwR_norm]; exact hclose
  · rw [heq, uvwR_smul, uvwR_add, hW]
  · rw [uvwR_norm]; exact hν

/-! ### the float facts about one cell -/

/-- the exact uv-midpoint direction of a rectangle -/
noncomputable def midDir (r : RRect) : R3 := vhat ((r.u0 + r.u1) / 2) ((r.v0 + r.v1) / 2)

structure CapCtx (c : Cell) : Prop where
  hf : c.face < 6
  rOK : (rectOf c).OK
  ctrN : nunitB (capCenter c) = true
  /-- the float centre is within `22u` of the direction of the exact uv-midpoint -/
  ctrDir : (R3.sub (uvwR c.face (ofV (capCenter c))) (midDir (rectOf c))).norm ≤ 22 * uR
  v0 : NearDir c.face (vertex c 0) (vhat (rectOf c).u0 (rectOf c).v0)
  v1 : NearDir c.face (vertex c 1) (vhat (rectOf c).u1 (rectOf c).v0)
  v2 : NearDir c.face (vertex c 2) (vhat (rectOf c).u1 (rectOf c).v1)
  v3 : NearDir c.face (vertex c 3) (vhat (rectOf c).u0 (rectOf c).v1)

theorem capCtx_of (c : Cell) (f1 : Fin c.uv.1.1) (f2 : Fin c.uv.1.2) (f3 : Fin c.uv.2.1) (f4 : Fin c.uv.2.2)
    (hr : (rectOf c).OK) (hf : c.face < 6) : CapCtx c := by
  have hu := uR_nonneg
  have b1 : |val c.uv.1.1| ≤ 1 := abs_le.mpr ⟨hr.u0_ge, by have := hr.u_lt; have := hr.u1_le; unfold rectOf at *; simp only at *; linarith⟩
  have b2 : |val c.uv.1.2| ≤ 1 := abs_le.mpr ⟨by have := hr.u_lt; have := hr.u0_ge; unfold rectOf at *; simp only at *; linarith, hr.u1_le⟩
  have b3 : |val c.uv.2.1| ≤ 1 := abs_le.mpr ⟨hr.v0_ge, by have := hr.v_lt; have := hr.v1_le; unfold rectOf at *; simp only at *; linarith⟩
  have b4 : |val c.uv.2.2| ≤ 1 := abs_le.mpr ⟨by have := hr.v_lt; have := hr.v0_ge; unfold rectOf at *; simp only at *; linarith, hr.v1_le⟩
  have w : ∀ {t : ℝ}, |t| ≤ 1 → |t| ≤ 11 / 10 := fun h => le_trans h (by norm_num)
  obtain ⟨fcu, hcu⟩ := center_coord c.uv.1.1 c.uv.1.2 f1 f2 b1 b2
  obtain ⟨fcv, hcv⟩ := center_coord c.uv.2.1 c.uv.2.2 f3 f4 b3 b4
  have hu3 : 3 * uR ≤ 1 / 10 := by unfold uR; norm_num
  have bcu : |val (Ivl.center c.uv.1)| ≤ 11 / 10 := by
    have h1 : |(val c.uv.1.1 + val c.uv.1.2) / 2| ≤ 1 := by
      rw [abs_div, abs_of_pos (by norm_num : (0 : ℝ) < 2)]
      have := abs_add_le (val c.uv.1.1) (val c.uv.1.2); linarith
    have := abs_sub_abs_le_abs_sub (val (Ivl.center c.uv.1)) ((val c.uv.1.1 + val c.uv.1.2) / 2)
    have e : Ivl.center c.uv.1 = Ivl.center (c.uv.1.1, c.uv.1.2) := rfl
    rw [e]; rw [e] at this
    linarith
  have bcv : |val (Ivl.center c.uv.2)| ≤ 11 / 10 := by
    have h1 : |(val c.uv.2.1 + val c.uv.2.2) / 2| ≤ 1 := by
      rw [abs_div, abs_of_pos (by norm_num : (0 : ℝ) < 2)]
      have := abs_add_le (val c.uv.2.1) (val c.uv.2.2); linarith
    have := abs_sub_abs_le_abs_sub (val (Ivl.center c.uv.2)) ((val c.uv.2.1 + val c.uv.2.2) / 2)
    have e : Ivl.center c.uv.2 = Ivl.center (c.uv.2.1, c.uv.2.2) := rfl
    rw [e]; rw [e] at this
    linarith
  have hctr := nearDir_face c.face hf (Ivl.center c.uv.1) (Ivl.center c.uv.2) fcu fcv bcu bcv
  obtain ⟨cN, cClose, _⟩ := hctr
  refine ⟨hf, hr, cN, ?_, nearDir_face c.face hf _ _ f1 f3 (w b1) (w b3), nearDir_face c.face hf _ _ f2 f3 (w b2) (w b3),
    nearDir_face c.face hf _ _ f2 f4 (w b2) (w b4), nearDir_face c.face hf _ _ f1 f4 (w b1) (w b4)⟩
  -- the direction of the float centre
  set pm := ((rectOf c).u0 + (rectOf c).u1) / 2 with hpm
  set qm := ((rectOf c).v0 + (rectOf c).v1) / 2 with hqm
  set a : R3 := ⟨pm, qm, 1⟩ with ha
  set b : R3 := ⟨val (Ivl.center c.uv.1), val (Ivl.center c.uv.2), 1⟩ with hb
  have han : 1 ≤ a.norm := by
    apply R3.le_norm_of_sq
    unfold R3.norm2; simp only [ha]; nlinarith [sq_nonneg pm, sq_nonneg qm]
  have hbn : 1 ≤ b.norm := by
    apply R3.le_norm_of_sq
    unfold R3.norm2; simp only [hb]
    nlinarith [sq_nonneg (val (Ivl.center c.uv.1)), sq_nonneg (val (Ivl.center c.uv.2))]
  have hba : (R3.sub b a).norm ≤ 2 * (3 * uR) := by
    apply R3.norm_le_of_comp_le (by linarith)
    · show |val (Ivl.center c.uv.1) - pm| ≤ 3 * uR
      exact hcu
    · show |val (Ivl.center c.uv.2) - qm| ≤ 3 * uR
      exact hcv
    · show |(1 : ℝ) - 1| ≤ 3 * uR
      simp; linarith
  have hdc := dir_lip a b (by linarith) (by linarith)
  have h2 : 2 * (R3.sub b a).norm / a.norm ≤ 2 * (R3.sub b a).norm := by
    apply div_le_self (by have := R3.norm_nonneg (R3.sub b a); linarith) han
  have e1 : midDir (rectOf c) = R3.smul (1 / a.norm) a := by unfold midDir; rw [vhat_as_dir]
  have e2 : vhat (val (Ivl.center c.uv.1)) (val (Ivl.center c.uv.2)) = R3.smul (1 / b.norm) b := by rw [vhat_as_dir]
  rw [e1]
  rw [e2] at cClose
  have e3 : R3.sub (uvwR c.face (ofV (capCenter c))) (R3.smul (1 / a.norm) a)
      = R3.add (R3.sub (uvwR c.face (ofV (capCenter c))) (R3.smul (1 / b.norm) b))
          (R3.sub (R3.smul (1 / b.norm) b) (R3.smul (1 / a.norm) a)) := by
    unfold R3.sub R3.add; ext <;> simp
  rw [e3]
  have h5 := R3.norm_add_le (R3.sub (uvwR c.face (ofV (capCenter c))) (R3.smul (1 / b.norm) b))
          (R3.sub (R3.smul (1 / b.norm) b) (R3.smul (1 / a.norm) a))
  have cClose' : (R3.sub (uvwR c.face (ofV (capCenter c))) (R3.smul (1 / b.norm) b)).norm ≤ (9 + 1 / 1000) * uR := cClose
  linarith

/-- **every valid cell id has the context** -/
theorem capCtx (id : CellID) (hv : CellID.isValid id = true) : CapCtx (cellFromCellID id) := by
  obtain ⟨f1, f2, f3, f4, hr, hf⟩ := cellOK id hv
  exact capCtx_of _ f1 f2 f3 f4 hr hf

/-! ### the centre sees every vertex under less than 90° -/

theorem dot_comm' (a b : R3) : R3.dot a b = R3.dot b a := by unfold R3.dot; ring

theorem ctx_dot_ge (c : Cell) (ctx : CapCtx c) (W : R3) (hW : W.norm = 1) (κ : ℝ) (h : κ ≤ R3.dot (midDir (rectOf c)) W) :
    κ - 22 * uR ≤ R3.dot (uvwR c.face (ofV (capCenter c))) W := by
  have h1 := dot_sub_ge W (midDir (rectOf c)) (uvwR c.face (ofV (capCenter c)))
  rw [hW, one_mul, dot_comm' W, dot_comm' W] at h1
  have := ctx.ctrDir
  linarith

theorem ctx_pos (c : Cell) (ctx : CapCtx c) :
    0 ≤ R3.dot (uvwR c.face (ofV (capCenter c))) (vhat (rectOf c).u0 (rectOf c).v0) ∧
    0 ≤ R3.dot (uvwR c.face (ofV (capCenter c))) (vhat (rectOf c).u1 (rectOf c).v0) ∧
    0 ≤ R3.dot (uvwR c.face (ofV (capCenter c))) (vhat (rectOf c).u0 (rectOf c).v1) ∧
    0 ≤ R3.dot (uvwR c.face (ofV (capCenter c))) (vhat (rectOf c).u1 (rectOf c).v1) := by
  have hr := ctx.rOK
  have a1 : |(rectOf c).u0| ≤ 1 := abs_le.mpr ⟨hr.u0_ge, by have := hr.u_lt; have := hr.u1_le; linarith⟩
  have a2 : |(rectOf c).u1| ≤ 1 := abs_le.mpr ⟨by have := hr.u_lt; have := hr.u0_ge; linarith, hr.u1_le⟩
  have a3 : |(rectOf c).v0| ≤ 1 := abs_le.mpr ⟨hr.v0_ge, by have := hr.v_lt; have := hr.v1_le; linarith⟩
  have a4 : |(rectOf c).v1| ≤ 1 := abs_le.mpr ⟨by have := hr.v_lt; have := hr.v0_ge; linarith, hr.v1_le⟩
  have hu : 22 * uR ≤ 1 / 2 := by unfold uR; norm_num
  have g00 := mid_dot_ge_half (rectOf c).u0 (rectOf c).v0 (rectOf c).u1 (rectOf c).v1 a1 a3 a2 a4
  have g10 := mid_dot_ge_half (rectOf c).u1 (rectOf c).v0 (rectOf c).u0 (rectOf c).v1 a2 a3 a1 a4
  have g01 := mid_dot_ge_half (rectOf c).u0 (rectOf c).v1 (rectOf c).u1 (rectOf c).v0 a1 a4 a2 a3
  have g11 := mid_dot_ge_half (rectOf c).u1 (rectOf c).v1 (rectOf c).u0 (rectOf c).v0 a2 a4 a1 a3
  have e1 : ((rectOf c).u1 + (rectOf c).u0) / 2 = ((rectOf c).u0 + (rectOf c).u1) / 2 := by ring
  have e2 : ((rectOf c).v1 + (rectOf c).v0) / 2 = ((rectOf c).v0 + (rectOf c).v1) / 2 := by ring
  rw [e1] at g10 g11
  rw [e2] at g01 g11
  refine ⟨?_, ?_, ?_, ?_⟩
  · have := ctx_dot_ge c ctx _ (S2Proofs.C12Dist.Cover.vhat_norm _ _) _ g00; linarith
  · have := ctx_dot_ge c ctx _ (S2Proofs.C12Dist.Cover.vhat_norm _ _) _ g10; linarith
  · have := ctx_dot_ge c ctx _ (S2Proofs.C12Dist.Cover.vhat_norm _ _) _ g01; linarith
  · have := ctx_dot_ge c ctx _ (S2Proofs.C12Dist.Cover.vhat_norm _ _) _ g11; linarith

/-! ### the chain for one corner -/

theorem nunit_real {v : V3} (h : nunitB v = true) (f : Nat) : |(uvwR f (ofV v)).norm2 - 1| ≤ NU * eps := by
  rw [uvwR_norm2]
  exact ((nunitB_iff v).1 h).2

theorem dist2_frame (f : Nat) (a b : V3) : S2Proofs.C12Dist.dist2 (uvwR f (ofV a)) (uvwR f (ofV b)) = S2Proofs.CapF64.dist2 a b := by
  rw [uvwR_dist2]
  unfold S2Proofs.C12Dist.dist2 S2Proofs.CapF64.dist2 R3.sub R3.norm2 ofV
  rfl

/-- one corner: the probe direction `q'` is seen from the centre under an angle at most that of the corner `W` -/
theorem corner_chain (f : Nat) (C V : V3) (W P' q' : R3) (lam R : ℝ)
    (hC : nunitB C = true) (hN : NearDir f V W) (hW : W.norm2 = 1)
    (hP : |P'.norm2 - 1| ≤ NU * eps) (hq : q'.norm2 = 1) (hlam : 0 < lam) (hPq : P' = R3.smul lam q')
    (hdot : R3.dot (uvwR f (ofV C)) W ≤ R3.dot (uvwR f (ofV C)) q')
    (hR0 : 0 ≤ R) (hR1 : R ≤ 17 / 20) (hle : val (Chord.between C V) ≤ R) :
    S2Proofs.C12Dist.dist2 (uvwR f (ofV C)) P' * (1 + uR) ^ 5 + 4 * eR
      ≤ R * (1 + 96 / 10 * eps) + 201 / 100 * eps * Real.sqrt R + 22 * eps ^ 2 := by
  obtain ⟨hVN, _, μ, ν, hμ, hVW, hν⟩ := hN
  have hC' := (nunitB_iff C).1 hC
  have hV' := (nunitB_iff V).1 hVN
  obtain ⟨ca1, ca2, ca3⟩ := nunit_coord_le hC'
  obtain ⟨cb1, cb2, cb3⟩ := nunit_coord_le hV'
  obtain ⟨_, _, _, _, hL⟩ := between_spec C V hC'.1 hV'.1 ca1 ca2 ca3 cb1 cb2 cb3
  have hRd : S2Proofs.C12Dist.dist2 (uvwR f (ofV C)) (uvwR f (ofV V)) * (1 - uR) ^ 5 ≤ R + 4 * eR := by
    rw [dist2_frame]
    rcases hL with h4 | h
    · linarith
    · linarith
  exact needed_real (uvwR f (ofV C)) P' q' (uvwR f (ofV V)) W ν μ lam R (nunit_real hC f) hP (nunit_real hVN f) hq hW hlam hPq
    hμ hVW hν hdot hR0 (by linarith) hRd

/-! ### the raw cap of a cell -/

/-- the slack-carrying bound on the squared chord, as a function of the raw radius -/
noncomputable def capNeed (R : ℝ) : ℝ := R * (1 + 96 / 10 * eps) + 201 / 100 * eps * Real.sqrt R + 22 * eps ^ 2

theorem raw_cap (c : Cell) (ctx : CapCtx c) :
    ∃ R : F64, capBoundRaw c = ⟨capCenter c, R⟩ ∧ Fin R ∧
      val R = max (max (max (max 0 (val (Chord.between (capCenter c) (vertex c 0)))) (val (Chord.between (capCenter c) (vertex c 1))))
        (val (Chord.between (capCenter c) (vertex c 2)))) (val (Chord.between (capCenter c) (vertex c 3))) := by
  obtain ⟨f0, _, _⟩ := between_fin ctx.ctrN ctx.v0.1
  obtain ⟨f1, _, _⟩ := between_fin ctx.ctrN ctx.v1.1
  obtain ⟨f2, _, _⟩ := between_fin ctx.ctrN ctx.v2.1
  obtain ⟨f3, _, _⟩ := between_fin ctx.ctrN ctx.v3.1
  exact raw_radius (capCenter c) (vertex c 0) (vertex c 1) (vertex c 2) (vertex c 3) f0 f1 f2 f3

/-- the chain for every point of the exact cell (frame of the face): `P' = lam·q'`, `q'` in the cell, `|P'|² ≈ 1` -/
theorem cell_chain (c : Cell) (ctx : CapCtx c) (R : ℝ)
    (h0 : val (Chord.between (capCenter c) (vertex c 0)) ≤ R) (h1 : val (Chord.between (capCenter c) (vertex c 1)) ≤ R)
    (h2 : val (Chord.between (capCenter c) (vertex c 2)) ≤ R) (h3 : val (Chord.between (capCenter c) (vertex c 3)) ≤ R)
    (hR0 : 0 ≤ R) (hR1 : R ≤ 17 / 20)
    (P' q' : R3) (lam : ℝ) (hq : InCell (rectOf c) q') (hP : |P'.norm2 - 1| ≤ NU * eps) (hlam : 0 < lam) (hPq : P' = R3.smul lam q') :
    S2Proofs.C12Dist.dist2 (uvwR c.face (ofV (capCenter c))) P' * (1 + uR) ^ 5 + 4 * eR ≤ capNeed R := by
  obtain ⟨p00, p10, p01, p11⟩ := ctx_pos c ctx
  have hqn : q'.norm2 = 1 := hq.1
  rcases hull_dot (rectOf c) ctx.rOK q' hq _ p00 p10 p01 p11 with h | h | h | h
  · exact corner_chain c.face _ _ _ P' q' lam R ctx.ctrN ctx.v0 (Cover.vhat_norm2 _ _) hP hqn hlam hPq h hR0 hR1 h0
  · exact corner_chain c.face _ _ _ P' q' lam R ctx.ctrN ctx.v1 (Cover.vhat_norm2 _ _) hP hqn hlam hPq h hR0 hR1 h1
  · exact corner_chain c.face _ _ _ P' q' lam R ctx.ctrN ctx.v3 (Cover.vhat_norm2 _ _) hP hqn hlam hPq h hR0 hR1 h3
  · exact corner_chain c.face _ _ _ P' q' lam R ctx.ctrN ctx.v2 (Cover.vhat_norm2 _ _) hP hqn hlam hPq h hR0 hR1 h2

/-! ### the raw radius is at most 0.85 (needed by the padding budget) -/

theorem corner_upper (f : Nat) (C V : V3) (W M : R3) (κ m B : ℝ) (hC : nunitB C = true) (hN : NearDir f V W)
    (hW : W.norm2 = 1) (hM : M.norm2 = 1)
    (hCM : (R3.sub (uvwR f (ofV C)) M).norm ≤ 22 * uR) (hdot : κ ≤ R3.dot M W)
    (hm0 : 0 ≤ m) (hm : 2 - 2 * κ ≤ m ^ 2) (hB : (m + 1 / 10 ^ 6) ^ 2 * (1 + 1 / 10 ^ 6) + 1 / 10 ^ 6 ≤ B) :
    val (Chord.between C V) ≤ B := by
  obtain ⟨hVN, hVW, _⟩ := hN
  have hC' := (nunitB_iff C).1 hC
  have hV' := (nunitB_iff V).1 hVN
  obtain ⟨ca1, ca2, ca3⟩ := nunit_coord_le hC'
  obtain ⟨cb1, cb2, cb3⟩ := nunit_coord_le hV'
  obtain ⟨_, _, _, hU, _⟩ := between_spec C V hC'.1 hV'.1 ca1 ca2 ca3 cb1 cb2 cb3
  rw [← dist2_frame f] at hU
  set C' := uvwR f (ofV C) with hC'def
  set V' := uvwR f (ofV V) with hV'def
  have hMW : (R3.sub M W).norm ≤ m := by
    apply R3.norm_le_of_sq hm0
    have := S2Proofs.C12Dist.dist2_eq M W
    unfold S2Proofs.C12Dist.dist2 at this
    rw [this, hM, hW]; linarith
  have e : R3.sub C' V' = R3.add (R3.sub C' M) (R3.add (R3.sub M W) (R3.sub W V')) := by
    unfold R3.sub R3.add; ext <;> simp
  have h1 := R3.norm_add_le (R3.sub C' M) (R3.add (R3.sub M W) (R3.sub W V'))
  have h2 := R3.norm_add_le (R3.sub M W) (R3.sub W V')
  have h3 : (R3.sub W V').norm ≤ (9 + 1 / 1000) * uR := by rw [R3.norm_sub_comm]; exact hVW
  have hu : 22 * uR + (9 + 1 / 1000) * uR ≤ 1 / 10 ^ 6 := by unfold uR; norm_num
  have hn : (R3.sub C' V').norm ≤ m + 1 / 10 ^ 6 := by rw [e]; linarith
  have hd : S2Proofs.C12Dist.dist2 C' V' ≤ (m + 1 / 10 ^ 6) ^ 2 := by
    unfold S2Proofs.C12Dist.dist2; exact R3.sq_le_of_norm_le hn
  have hd0 : 0 ≤ S2Proofs.C12Dist.dist2 C' V' := by unfold S2Proofs.C12Dist.dist2; exact R3.norm2_nonneg _
  have hk : (1 + uR) ^ 5 ≤ 1 + 1 / 10 ^ 6 := by unfold uR; norm_num
  have he : 4 * eR ≤ 1 / 10 ^ 6 := by unfold eR; norm_num
  have hu0 := uR_nonneg
  have : S2Proofs.C12Dist.dist2 C' V' * (1 + uR) ^ 5 ≤ (m + 1 / 10 ^ 6) ^ 2 * (1 + 1 / 10 ^ 6) :=
    mul_le_mul hd hk (by positivity) (by positivity)
  linarith

/-- all cells whose uv-rectangle does not straddle an axis (every cell of level ≥ 1) -/
theorem raw_le_of_signs (c : Cell) (ctx : CapCtx c) (su : 0 ≤ (rectOf c).u0 * (rectOf c).u1) (sv : 0 ≤ (rectOf c).v0 * (rectOf c).v1) :
    val (Chord.between (capCenter c) (vertex c 0)) ≤ 13 / 20 ∧ val (Chord.between (capCenter c) (vertex c 1)) ≤ 13 / 20 ∧
    val (Chord.between (capCenter c) (vertex c 2)) ≤ 13 / 20 ∧ val (Chord.between (capCenter c) (vertex c 3)) ≤ 13 / 20 := by
  have hr := ctx.rOK
  have a1 : |(rectOf c).u0| ≤ 1 := abs_le.mpr ⟨hr.u0_ge, by have := hr.u_lt; have := hr.u1_le; linarith⟩
  have a2 : |(rectOf c).u1| ≤ 1 := abs_le.mpr ⟨by have := hr.u_lt; have := hr.u0_ge; linarith, hr.u1_le⟩
  have a3 : |(rectOf c).v0| ≤ 1 := abs_le.mpr ⟨hr.v0_ge, by have := hr.v_lt; have := hr.v1_le; linarith⟩
  have a4 : |(rectOf c).v1| ≤ 1 := abs_le.mpr ⟨by have := hr.v_lt; have := hr.v0_ge; linarith, hr.v1_le⟩
  have su' : 0 ≤ (rectOf c).u1 * (rectOf c).u0 := by rw [mul_comm]; exact su
  have sv' : 0 ≤ (rectOf c).v1 * (rectOf c).v0 := by rw [mul_comm]; exact sv
  have g00 := mid_dot_ge_quadrant (rectOf c).u0 (rectOf c).v0 (rectOf c).u1 (rectOf c).v1 a1 a3 a2 a4 su sv
  have g10 := mid_dot_ge_quadrant (rectOf c).u1 (rectOf c).v0 (rectOf c).u0 (rectOf c).v1 a2 a3 a1 a4 su' sv
  have g01 := mid_dot_ge_quadrant (rectOf c).u0 (rectOf c).v1 (rectOf c).u1 (rectOf c).v0 a1 a4 a2 a3 su sv'
  have g11 := mid_dot_ge_quadrant (rectOf c).u1 (rectOf c).v1 (rectOf c).u0 (rectOf c).v0 a2 a4 a1 a3 su' sv'
  have e1 : ((rectOf c).u1 + (rectOf c).u0) / 2 = ((rectOf c).u0 + (rectOf c).u1) / 2 := by ring
  have e2 : ((rectOf c).v1 + (rectOf c).v0) / 2 = ((rectOf c).v0 + (rectOf c).v1) / 2 := by ring
  rw [e1] at g10 g11
  rw [e2] at g01 g11
  have hM : (midDir (rectOf c)).norm2 = 1 := Cover.vhat_norm2 _ _
  exact ⟨corner_upper c.face _ _ _ _ (7 / 10) (78 / 100) (13 / 20) ctx.ctrN ctx.v0 (Cover.vhat_norm2 _ _) hM ctx.ctrDir g00 (by norm_num) (by norm_num) (by norm_num),
    corner_upper c.face _ _ _ _ (7 / 10) (78 / 100) (13 / 20) ctx.ctrN ctx.v1 (Cover.vhat_norm2 _ _) hM ctx.ctrDir g10 (by norm_num) (by norm_num) (by norm_num),
    corner_upper c.face _ _ _ _ (7 / 10) (78 / 100) (13 / 20) ctx.ctrN ctx.v2 (Cover.vhat_norm2 _ _) hM ctx.ctrDir g11 (by norm_num) (by norm_num) (by norm_num),
    corner_upper c.face _ _ _ _ (7 / 10) (78 / 100) (13 / 20) ctx.ctrN ctx.v3 (Cover.vhat_norm2 _ _) hM ctx.ctrDir g01 (by norm_num) (by norm_num) (by norm_num)⟩

/-- the six face cells: the centre sees each vertex under 54.74°, chord² = 2 − 2/√3 = 0.8453… -/
theorem raw_le_of_face (c : Cell) (ctx : CapCtx c) (hrect : rectOf c = ⟨-1, 1, -1, 1⟩) :
    val (Chord.between (capCenter c) (vertex c 0)) ≤ 17 / 20 ∧ val (Chord.between (capCenter c) (vertex c 1)) ≤ 17 / 20 ∧
    val (Chord.between (capCenter c) (vertex c 2)) ≤ 17 / 20 ∧ val (Chord.between (capCenter c) (vertex c 3)) ≤ 17 / 20 := by
  have hM : (midDir (rectOf c)).norm2 = 1 := Cover.vhat_norm2 _ _
  have hs3 : Real.sqrt 3 ≤ 17322 / 10000 := by
    rw [show (17322 / 10000 : ℝ) = Real.sqrt ((17322 / 10000) ^ 2) by rw [Real.sqrt_sq (by norm_num)]]
    exact Real.sqrt_le_sqrt (by norm_num)
  have hs3p : 0 < Real.sqrt 3 := Real.sqrt_pos.mpr (by norm_num)
  have key : ∀ x y : ℝ, x ^ 2 = 1 → y ^ 2 = 1 → 5773 / 10000 ≤ R3.dot (vhat ((-1 + 1) / 2) ((-1 + 1) / 2)) (vhat x y) := by
    intro x y hx hy
    rw [MidGeom.dot_vhat_vhat]
    have e1 : Cover.nn ((-1 + 1) / 2) ((-1 + 1) / 2) = 1 := by unfold Cover.nn; norm_num
    have e2 : Cover.nn x y = 3 := by unfold Cover.nn; linarith
    rw [e1, e2, Real.sqrt_one, one_mul]
    have e3 : (-1 + 1) / 2 * x + (-1 + 1) / 2 * y + 1 = (1 : ℝ) := by ring
    rw [e3, le_div_iff₀ hs3p]
    nlinarith
  have hmid : midDir (rectOf c) = vhat ((-1 + 1) / 2) ((-1 + 1) / 2) := by unfold midDir; rw [hrect]
  have hv0 := ctx.v0; have hv1 := ctx.v1; have hv2 := ctx.v2; have hv3 := ctx.v3
  have hcd := ctx.ctrDir
  rw [hmid] at hcd hM
  rw [hrect] at hv0 hv1 hv2 hv3
  simp only at hv0 hv1 hv2 hv3
  exact ⟨corner_upper c.face _ _ _ _ (5773 / 10000) (9195 / 10000) (17 / 20) ctx.ctrN hv0 (Cover.vhat_norm2 _ _) hM hcd
      (key _ _ (by norm_num) (by norm_num)) (by norm_num) (by norm_num) (by norm_num),
    corner_upper c.face _ _ _ _ (5773 / 10000) (9195 / 10000) (17 / 20) ctx.ctrN hv1 (Cover.vhat_norm2 _ _) hM hcd
      (key _ _ (by norm_num) (by norm_num)) (by norm_num) (by norm_num) (by norm_num),
    corner_upper c.face _ _ _ _ (5773 / 10000) (9195 / 10000) (17 / 20) ctx.ctrN hv2 (Cover.vhat_norm2 _ _) hM hcd
      (key _ _ (by norm_num) (by norm_num)) (by norm_num) (by norm_num) (by norm_num),
    corner_upper c.face _ _ _ _ (5773 / 10000) (9195 / 10000) (17 / 20) ctx.ctrN hv3 (Cover.vhat_norm2 _ _) hM hcd
      (key _ _ (by norm_num) (by norm_num)) (by norm_num) (by norm_num) (by norm_num)⟩

/-- **the raw radius of every valid cell is at most 0.85** (level ≥ 1: the centre sees each vertex under < 45.6°, chord² ≤ 0.65;
    the six face cells: evaluated, chord² = 0.8453…) -/
theorem raw_radius_le (id : CellID) (hv : CellID.isValid id = true) :
    ∃ R : F64, capBoundRaw (cellFromCellID id) = ⟨capCenter (cellFromCellID id), R⟩ ∧ Fin R ∧ 0 ≤ val R ∧ val R ≤ 17 / 20 ∧
      val (Chord.between (capCenter (cellFromCellID id)) (vertex (cellFromCellID id) 0)) ≤ val R ∧
      val (Chord.between (capCenter (cellFromCellID id)) (vertex (cellFromCellID id) 1)) ≤ val R ∧
      val (Chord.between (capCenter (cellFromCellID id)) (vertex (cellFromCellID id) 2)) ≤ val R ∧
      val (Chord.between (capCenter (cellFromCellID id)) (vertex (cellFromCellID id) 3)) ≤ val R := by
  have ctx := capCtx id hv
  obtain ⟨R, hraw, fR, hmax⟩ := raw_cap _ ctx
  have m0 : val (Chord.between (capCenter (cellFromCellID id)) (vertex (cellFromCellID id) 0)) ≤ val R := by
    rw [hmax]; exact le_trans (le_trans (le_trans (le_max_right _ _) (le_max_left _ _)) (le_max_left _ _)) (le_max_left _ _)
  have m1 : val (Chord.between (capCenter (cellFromCellID id)) (vertex (cellFromCellID id) 1)) ≤ val R := by
    rw [hmax]; exact le_trans (le_trans (le_max_right _ _) (le_max_left _ _)) (le_max_left _ _)
  have m2 : val (Chord.between (capCenter (cellFromCellID id)) (vertex (cellFromCellID id) 2)) ≤ val R := by
    rw [hmax]; exact le_trans (le_max_right _ _) (le_max_left _ _)
  have m3 : val (Chord.between (capCenter (cellFromCellID id)) (vertex (cellFromCellID id) 3)) ≤ val R := by
    rw [hmax]; exact le_max_right _ _
  have n0 : 0 ≤ val R := by
    rw [hmax]; exact le_trans (le_trans (le_trans (le_max_left _ _) (le_max_left _ _)) (le_max_left _ _)) (le_max_left _ _)
  refine ⟨R, hraw, fR, n0, ?_, m0, m1, m2, m3⟩
  by_cases hl : CellID.level id = 0
  · -- the six face cells
    obtain ⟨b0, b1, b2, b3⟩ := raw_le_of_face _ ctx (cell_level0_rect id hv hl)
    rw [hmax]
    have : (0 : ℝ) ≤ 17 / 20 := by norm_num
    exact max_le (max_le (max_le (max_le this b0) b1) b2) b3
  · have hl1 : 1 ≤ CellID.level id := by omega
    obtain ⟨su, sv⟩ := cell_signs id hv hl1
    obtain ⟨b0, b1, b2, b3⟩ := raw_le_of_signs _ ctx su sv
    rw [hmax]
    have : (0 : ℝ) ≤ 13 / 20 := by norm_num
    have := max_le (max_le (max_le (max_le this b0) b1) b2) b3
    linarith

end S2Proofs.C12Cap
