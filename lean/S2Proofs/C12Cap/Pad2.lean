/-
  S2Proofs.C12Cap.Pad2 — the LOWER bound of the padded radius of `padCapBound` (s2/rect.go) for SMALL radii.

  `Pad.padRadius_lower` gives `R (1 + 9.6 ε) + 2.01 ε √R + 22 ε² ≤ padRadius (R.Add(dc))` for `R ≤ 0.85`.  For small radii the cross term
  `2·√(35(1−R/4))·ε·√R` of the exact chord sum is larger, so a larger coefficient of `ε √R` and a larger absolute term are affordable:

      R ∈ [2^-80, 1/20] :   R·(1 + 9.6 ε) +  9.85 ε √R + 90 ε²  ≤  padRadius (R.Add(dc))
      R ∈ [2^-80, 1/50] :   R·(1 + 9.6 ε) + 10.6  ε √R + 90 ε²  ≤  padRadius (R.Add(dc))

  The absolute term `90 ε²` exceeds what the padding provides absolutely (≈ 50.9 ε²); the deficit is covered by the surplus of the
  `ε √R` term, which is why a lower bound of the radius is a hypothesis.
-/
import Mathlib.Tactic.Ring
import Mathlib.Tactic.Linarith
import Mathlib.Tactic.Positivity
import Mathlib.Tactic.NormNum
import Mathlib.Analysis.Real.Sqrt
import S2Proofs.C12Cap.Pad

namespace S2Proofs.C12Cap
open S2 S2.CellM S2Proofs.F64Order S2Proofs.FloatErr S2Proofs.CapF64 S2Proofs.CapF64.CA

set_option exponentiation.threshold 3000

/-! ### (1) the exact chord sum `caddR R (35 ε²)` from below, parametric in the radius bound `B` -/

/-- the cross term `2·√(R(1−t/4)·t(1−R/4))` of the chord sum for `t = 35 ε²`, `R = r² ≤ B`: at least `2k·ε·r` whenever
    `k² ≤ 35 (1 − 35ε²/4)(1 − B/4)` -/
theorem cross_lower_gen {r k B : ℝ} (hr0 : 0 ≤ r) (hk0 : 0 ≤ k) (hr : r ^ 2 ≤ B)
    (hk : k ^ 2 ≤ (1 - 35 * eps ^ 2 / 4) * (35 * (1 - B / 4))) :
    2 * k * eps * r ≤
      2 * Real.sqrt (r ^ 2 * (1 - 35 * eps ^ 2 / 4) * (35 * eps ^ 2 * (1 - r ^ 2 / 4))) := by
  have he := eps_pos
  have hx : 0 ≤ k * eps * r := by positivity
  have hA : (0 : ℝ) ≤ 1 - 35 * eps ^ 2 / 4 := by unfold eps; norm_num
  have h1 : k ^ 2 ≤ (1 - 35 * eps ^ 2 / 4) * (35 * (1 - r ^ 2 / 4)) :=
    le_trans hk (mul_le_mul_of_nonneg_left (by linarith) hA)
  have h2 := mul_le_mul_of_nonneg_left h1 (mul_nonneg (sq_nonneg r) (sq_nonneg eps))
  have hsq : (k * eps * r) ^ 2 ≤ r ^ 2 * (1 - 35 * eps ^ 2 / 4) * (35 * eps ^ 2 * (1 - r ^ 2 / 4)) := by
    calc (k * eps * r) ^ 2 = r ^ 2 * eps ^ 2 * k ^ 2 := by ring
      _ ≤ r ^ 2 * eps ^ 2 * ((1 - 35 * eps ^ 2 / 4) * (35 * (1 - r ^ 2 / 4))) := h2
      _ = _ := by ring
  have : k * eps * r ≤ Real.sqrt (r ^ 2 * (1 - 35 * eps ^ 2 / 4) * (35 * eps ^ 2 * (1 - r ^ 2 / 4))) := by
    calc k * eps * r = Real.sqrt ((k * eps * r) ^ 2) := (Real.sqrt_sq hx).symm
      _ ≤ _ := Real.sqrt_le_sqrt hsq
  linarith

theorem caddR_lower_gen {r k B : ℝ} (hr0 : 0 ≤ r) (hk0 : 0 ≤ k) (hk6 : k ≤ 6) (hr : r ^ 2 ≤ B) (hB : B ≤ 17 / 20)
    (hk : k ^ 2 ≤ (1 - 35 * eps ^ 2 / 4) * (35 * (1 - B / 4))) :
    r ^ 2 * (1 - 35 * eps ^ 2 / 4) + 35 * eps ^ 2 * (1 - r ^ 2 / 4) + 2 * k * eps * r
      ≤ caddR (r ^ 2) (35 * eps ^ 2) := by
  have hc := cross_lower_gen hr0 hk0 hr hk
  have hr1 : r ≤ 1 := by nlinarith
  have h35 : 35 * eps ^ 2 ≤ 1 / 1000 := by unfold eps; norm_num
  have h35' : 0 ≤ 35 * eps ^ 2 := by positivity
  have he : eps ≤ 1 / 1000000 := eps_le_small
  have he0 := eps_pos
  unfold caddR
  rw [if_neg (by intro h; linarith)]
  apply le_min
  · have h1 : r ^ 2 * (1 - 35 * eps ^ 2 / 4) ≤ r ^ 2 * 1 := mul_le_mul_of_nonneg_left (by linarith) (sq_nonneg r)
    have h2 : 35 * eps ^ 2 * (1 - r ^ 2 / 4) ≤ 35 * eps ^ 2 * 1 :=
      mul_le_mul_of_nonneg_left (by linarith [sq_nonneg r]) h35'
    have h3 : 2 * k * eps * r ≤ 2 * k * eps * 1 := mul_le_mul_of_nonneg_left hr1 (by positivity)
    have h4 : 2 * k * eps ≤ 2 * 6 * eps := by
      have := mul_le_mul_of_nonneg_right hk6 he0.le
      linarith
    linarith
  · linarith

/-! ### (2) the budgets of the two instances -/

/-- sharp instance: `r² ≤ 1/20`, cross coefficient `11.75`, target coefficient `9.85` -/
theorem real_budget_small {r C e : ℝ} (hrlo : 1 / 2 ^ 40 ≤ r) (hr : r ^ 2 ≤ 1 / 20)
    (hC : (r ^ 2 * (1 - 35 * eps ^ 2 / 4) + 35 * eps ^ 2 * (1 - r ^ 2 / 4) + 2 * (47 / 8) * eps * r) * (1 - 3 * eps)
        - 1 / 2 ^ 500 ≤ C)
    (he : 549 / 100 * eps * C + 159 / 10 * eps ^ 2 ≤ e) :
    r ^ 2 * (1 + 96 / 10 * eps) + 985 / 100 * eps * r + 90 * eps ^ 2 ≤ (C + e) * (1 - uR) := by
  have hr0 : 0 ≤ r := le_trans (by norm_num) hrlo
  have hr1 : r ≤ 2237 / 10000 := by nlinarith
  have hrr : r ^ 2 ≤ 2237 / 10000 * r := by nlinarith
  have hk2 : (0 : ℝ) ≤ 1 + 549 / 100 * eps := by unfold eps; norm_num
  have h1 := mul_le_mul_of_nonneg_right hC hk2
  have h2 : ((r ^ 2 * (1 - 35 * eps ^ 2 / 4) + 35 * eps ^ 2 * (1 - r ^ 2 / 4) + 2 * (47 / 8) * eps * r) * (1 - 3 * eps)
        - 1 / 2 ^ 500) * (1 + 549 / 100 * eps) + 159 / 10 * eps ^ 2 ≤ C + e := by
    have : C * (1 + 549 / 100 * eps) = C + 549 / 100 * eps * C := by ring
    linarith
  have h3 := mul_le_mul_of_nonneg_right h2 rho_nonneg
  refine le_trans ?_ h3
  unfold eps uR
  linarith

/-- crude instance: `r² ≤ 1/50`, cross coefficient `11.8`, target coefficient `10.6` -/
theorem real_budget_small' {r C e : ℝ} (hrlo : 1 / 2 ^ 40 ≤ r) (hr : r ^ 2 ≤ 1 / 50)
    (hC : (r ^ 2 * (1 - 35 * eps ^ 2 / 4) + 35 * eps ^ 2 * (1 - r ^ 2 / 4) + 2 * (59 / 10) * eps * r) * (1 - 3 * eps)
        - 1 / 2 ^ 500 ≤ C)
    (he : 549 / 100 * eps * C + 159 / 10 * eps ^ 2 ≤ e) :
    r ^ 2 * (1 + 96 / 10 * eps) + 106 / 10 * eps * r + 90 * eps ^ 2 ≤ (C + e) * (1 - uR) := by
  have hr0 : 0 ≤ r := le_trans (by norm_num) hrlo
  have hr1 : r ≤ 1415 / 10000 := by nlinarith
  have hrr : r ^ 2 ≤ 1415 / 10000 * r := by nlinarith
  have hk2 : (0 : ℝ) ≤ 1 + 549 / 100 * eps := by unfold eps; norm_num
  have h1 := mul_le_mul_of_nonneg_right hC hk2
  have h2 : ((r ^ 2 * (1 - 35 * eps ^ 2 / 4) + 35 * eps ^ 2 * (1 - r ^ 2 / 4) + 2 * (59 / 10) * eps * r) * (1 - 3 * eps)
        - 1 / 2 ^ 500) * (1 + 549 / 100 * eps) + 159 / 10 * eps ^ 2 ≤ C + e := by
    have : C * (1 + 549 / 100 * eps) = C + 549 / 100 * eps * C := by ring
    linarith
  have h3 := mul_le_mul_of_nonneg_right h2 rho_nonneg
  refine le_trans ?_ h3
  unfold eps uR
  linarith

/-! ### (3) glue, parametric in the radius bound `B`, the cross coefficient `2k` and the target coefficient `K` -/

/-- the parametric form: from a budget lemma for `(B, k, K, A)` the lower bound of the padded radius for radii in `[2^-80, B]` -/
theorem padRadius_lower_gen {B k K A : ℝ} (hB : B ≤ 17 / 20) (hk0 : 0 ≤ k) (hk6 : k ≤ 6)
    (hk : k ^ 2 ≤ (1 - 35 * eps ^ 2 / 4) * (35 * (1 - B / 4))) (hK : K ≤ 100) (hA : A ≤ 1000)
    (hbud : ∀ r C e : ℝ, 1 / 2 ^ 40 ≤ r → r ^ 2 ≤ B →
      (r ^ 2 * (1 - 35 * eps ^ 2 / 4) + 35 * eps ^ 2 * (1 - r ^ 2 / 4) + 2 * k * eps * r) * (1 - 3 * eps) - 1 / 2 ^ 500 ≤ C →
      549 / 100 * eps * C + 159 / 10 * eps ^ 2 ≤ e →
      r ^ 2 * (1 + 96 / 10 * eps) + K * eps * r + A * eps ^ 2 ≤ (C + e) * (1 - uR))
    (R dc : F64) (fR : Fin R) (fdc : Fin dc) (hRlo : 1 / 2 ^ 80 ≤ val R) (hR1 : val R ≤ B)
    (hdc0 : 35 * eps ^ 2 ≤ val dc) (hdc4 : val dc ≤ 4) :
    Fin (padRadius (Chord.add R dc)) ∧ val (padRadius (Chord.add R dc)) ≤ 4 ∧
    val R * (1 + 96 / 10 * eps) + K * eps * Real.sqrt (val R) + A * eps ^ 2 ≤ val (padRadius (Chord.add R dc)) := by
  have he0 := eps_pos
  have hes : eps ≤ 1 / 1000000 := eps_le_small
  have ht0 : (0 : ℝ) ≤ 35 * eps ^ 2 := by positivity
  have hdcn : 0 ≤ val dc := le_trans ht0 hdc0
  have hR0 : 0 ≤ val R := le_trans (by norm_num) hRlo
  obtain ⟨fc, c0, c4, cL⟩ := chordAdd_spec R dc fR fdc hR0 (by linarith) hdcn hdc4
  set c := Chord.add R dc with hc
  obtain ⟨fs, s0, s1, sL⟩ := padSlack_spec c fc c0 c4
  obtain ⟨fe, _, e4, eL, eM⟩ := expanded_spec fc c0 c4 fs s0 s1
  have hpad : padRadius c = Chord.expanded c (maxAngleError c + Chord.maxPointError c) := rfl
  rw [hpad]
  refine ⟨fe, e4, ?_⟩
  set r := Real.sqrt (val R) with hr
  have hr0 : 0 ≤ r := Real.sqrt_nonneg _
  have hr2 : r ^ 2 = val R := Real.sq_sqrt hR0
  have hrB : r ^ 2 ≤ B := by rw [hr2]; exact hR1
  have hrr : r ^ 2 ≤ 17 / 20 := le_trans hrB hB
  have hr1 : r ≤ 1 := by nlinarith
  have hrlo : 1 / 2 ^ 40 ≤ r := by
    by_contra hcon
    have hcon := not_le.mp hcon
    have : r ^ 2 < (1 / 2 ^ 40) ^ 2 := by nlinarith
    rw [hr2] at this
    have h80 : ((1 : ℝ) / 2 ^ 40) ^ 2 = 1 / 2 ^ 80 := by norm_num
    linarith
  rw [← hr2]
  -- the needed quantity is far below 4
  have hN4 : r ^ 2 * (1 + 96 / 10 * eps) + K * eps * r + A * eps ^ 2 ≤ 4 := by
    have h1 : r ^ 2 * (1 + 96 / 10 * eps) ≤ 17 / 20 * (1 + 96 / 10 * eps) :=
      mul_le_mul_of_nonneg_right hrr (by linarith)
    have h2 : K * eps * r ≤ 100 * (1 / 1000000) * 1 :=
      mul_le_mul (mul_le_mul hK hes he0.le (by norm_num)) hr1 hr0 (by norm_num)
    have h3 : A * eps ^ 2 ≤ 1000 * (1 / 1000000) ^ 2 :=
      mul_le_mul hA (pow_le_pow_left₀ he0.le hes 2) (by positivity) (by norm_num)
    linarith
  rcases cL with cL | cL
  · rw [cL, min_self] at eM
    linarith
  · -- the exact chord sum from below
    have hmono : caddR (r ^ 2) (35 * eps ^ 2) ≤ caddR (val R) (val dc) := by
      rw [hr2]; exact caddR_mono hR0 (le_refl _) (by linarith) ht0 hdc0 hdc4
    have hL := caddR_lower_gen hr0 hk0 hk6 hrB hB hk
    set L := r ^ 2 * (1 - 35 * eps ^ 2 / 4) + 35 * eps ^ 2 * (1 - r ^ 2 / 4) + 2 * k * eps * r with hLdef
    have hL0 : 0 ≤ L := by
      have h1 : 0 ≤ r ^ 2 * (1 - 35 * eps ^ 2 / 4) := mul_nonneg (sq_nonneg r) (by nlinarith)
      have h2 : 0 ≤ 35 * eps ^ 2 * (1 - r ^ 2 / 4) := mul_nonneg ht0 (by linarith)
      have h3 : 0 ≤ 2 * k * eps * r := by positivity
      linarith
    have hLc : L ≤ caddR (val R) (val dc) := le_trans hL hmono
    have h1 : L * (1 - 3 * eps) ≤ L * (1 - uR) ^ 6 := mul_le_mul_of_nonneg_left rho6_lower hL0
    have h2 : L * (1 - uR) ^ 6 ≤ caddR (val R) (val dc) * (1 - uR) ^ 6 :=
      mul_le_mul_of_nonneg_right hLc (rpow_pos 6).le
    have hC : L * (1 - 3 * eps) - 1 / 2 ^ 500 ≤ val c := by linarith
    have hE := padSlack_lower c0 sL
    have key := hbud r (val c) _ hrlo hrB hC hE
    exact le_trans (le_min hN4 key) eL

/-- **lower bound of the padded radius** of `padCapBound`, small radii (sharp): for a finite radius `R ∈ [2^-80, 1/20]` and a finite
    increment `dc ∈ [35 ε², 4]`, `R (1 + 9.6 ε) + 9.85 ε √R + 90 ε² ≤ padRadius (R.Add dc)` (the right side computed in binary64). -/
theorem padRadius_lower_small (R dc : F64) (fR : Fin R) (fdc : Fin dc) (hRlo : 1 / 2 ^ 80 ≤ val R) (hR1 : val R ≤ 1 / 20)
    (hdc0 : 35 * eps ^ 2 ≤ val dc) (hdc4 : val dc ≤ 4) :
    Fin (padRadius (Chord.add R dc)) ∧ val (padRadius (Chord.add R dc)) ≤ 4 ∧
    val R * (1 + 96 / 10 * eps) + 985 / 100 * eps * Real.sqrt (val R) + 90 * eps ^ 2 ≤ val (padRadius (Chord.add R dc)) :=
  padRadius_lower_gen (B := 1 / 20) (k := 47 / 8) (K := 985 / 100) (A := 90) (by norm_num) (by norm_num) (by norm_num)
    (by unfold eps; norm_num) (by norm_num) (by norm_num)
    (fun _ _ _ h1 h2 h3 h4 => real_budget_small h1 h2 h3 h4) R dc fR fdc hRlo hR1 hdc0 hdc4

/-- **lower bound of the padded radius** of `padCapBound`, small radii (crude): for a finite radius `R ∈ [2^-80, 1/50]` and a finite
    increment `dc ∈ [35 ε², 4]`, `R (1 + 9.6 ε) + 10.6 ε √R + 90 ε² ≤ padRadius (R.Add dc)` (the right side computed in binary64). -/
theorem padRadius_lower_small' (R dc : F64) (fR : Fin R) (fdc : Fin dc) (hRlo : 1 / 2 ^ 80 ≤ val R) (hR1 : val R ≤ 1 / 50)
    (hdc0 : 35 * eps ^ 2 ≤ val dc) (hdc4 : val dc ≤ 4) :
    Fin (padRadius (Chord.add R dc)) ∧ val (padRadius (Chord.add R dc)) ≤ 4 ∧
    val R * (1 + 96 / 10 * eps) + 106 / 10 * eps * Real.sqrt (val R) + 90 * eps ^ 2 ≤ val (padRadius (Chord.add R dc)) :=
  padRadius_lower_gen (B := 1 / 50) (k := 59 / 10) (K := 106 / 10) (A := 90) (by norm_num) (by norm_num) (by norm_num)
    (by unfold eps; norm_num) (by norm_num) (by norm_num)
    (fun _ _ _ h1 h2 h3 h4 => real_budget_small' h1 h2 h3 h4) R dc fR fdc hRlo hR1 hdc0 hdc4

end S2Proofs.C12Cap

#print axioms S2Proofs.C12Cap.padRadius_lower_small
#print axioms S2Proofs.C12Cap.padRadius_lower_small'
