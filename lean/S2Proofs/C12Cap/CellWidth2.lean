/-
  C12Cap.CellWidth2 — upper bound of the uv-width of the cells of level ≥ 2 (exact maximum `(4/3)(2^-1 − 4^-2) = 0.58333…`
  at the face edge).  Same method as `CellWidth`: the interval of a cell of level `n ≥ 2` is inside the interval of its
  level-2 ancestor (`CellWidth.side_anc` with `t = 2`), and the four ancestor widths are computed in the kernel.
-/
import S2Proofs.C12Cap.CellWidth

namespace S2Proofs.C12Cap
open S2Proofs.C16Acc S2Proofs.C12Dist S2Proofs.C12Dist.Cover
open S2 S2.CellID S2.STUV S2.CellM S2Proofs.F64Order
open S2Proofs.C12M S2Proofs.C12ST S2Proofs.C12C S2Proofs.C12H S2Proofs.C12 S2Proofs.C12Dist.CellOK

namespace CellWidth
open MidGeom

/-- the widths of the four level-2 intervals (exact integer comparison, in the kernel) -/
theorem width2_int : ∀ j : Fin 4,
    (S2.Exact.toInt (stToUV (g ((j.val + 1) * 2 ^ 28))) - S2.Exact.toInt (stToUV (g (j.val * 2 ^ 28)))) * (100000 : Nat)
      ≤ ((58334 : Nat) : Int) * 2 ^ 1074 := by
  decide +kernel

theorem width2 (J : Nat) (hJ : J < 4) :
    FloatErr.val (stToUV (g ((J + 1) * 2 ^ 28))) - FloatErr.val (stToUV (g (J * 2 ^ 28))) ≤ 58334 / 100000 := by
  have h := val_sub_le _ _ 58334 100000 (by norm_num) (width2_int ⟨J, hJ⟩)
  simp only at h
  norm_num at h ⊢
  exact h

theorem side_width2 (I n : Nat) (h2 : 2 ≤ n) (hn : n ≤ 30) (hI : I < 2 ^ n) :
    FloatErr.val (stToUV (ijToSTMin (((I + 1) * 2 ^ (30 - n) : Nat) : Int))) -
      FloatErr.val (stToUV (ijToSTMin ((I * 2 ^ (30 - n) : Nat) : Int))) ≤ 58334 / 100000 := by
  obtain ⟨J, hJ, a, b⟩ := side_anc 2 I n h2 hn hI
  have w := width2 J (by simpa using hJ)
  show FloatErr.val (stToUV (g ((I + 1) * 2 ^ (30 - n)))) - FloatErr.val (stToUV (g (I * 2 ^ (30 - n)))) ≤ _
  have e : (30 - 2 : Nat) = 28 := rfl
  rw [e] at a b
  exact le_trans (sub_le_sub b a) w

end CellWidth
open CellWidth

open S2 S2.CellID S2.CellM in
/-- **a valid cell of level ≥ 2 has uv-width ≤ 0.58334 in both directions** (exact maximum `0.58333…` at the face edge) -/
theorem cell_width_le2 (id : CellID) (hv : isValid id = true) (hl : 2 ≤ level id) :
    (rectOf (cellFromCellID id)).u1 - (rectOf (cellFromCellID id)).u0 ≤ 58334 / 100000 ∧
    (rectOf (cellFromCellID id)).v1 - (rectOf (cellFromCellID id)).v0 ≤ 58334 / 100000 := by
  obtain ⟨n, h⟩ := (isValid_iff id).1 hv
  rw [h.level_eq] at hl
  obtain ⟨huv, -⟩ := S2Proofs.C12.cell_bound_is_square h
  obtain ⟨hI, hJ, -⟩ := S2Proofs.C12H.prefixState_bounds id n
  have su := side_width2 _ n hl h.k_le hI
  have sv := side_width2 _ n hl h.k_le hJ
  unfold rectOf
  rw [huv]
  unfold S2Proofs.C12C.boundOf
  simp only
  exact ⟨su, sv⟩

-- non-vacuity: a valid cell of level 2
example : S2.CellID.isValid (0x3100000000000000 : S2.CellID) = true ∧ S2.CellID.level (0x3100000000000000 : S2.CellID) = 2 := by
  decide

end S2Proofs.C12Cap
