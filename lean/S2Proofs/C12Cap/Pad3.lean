/-
  S2Proofs.C12Cap.Pad3 — one more instance of `Pad2.padRadius_lower_gen` (the LOWER bound of the padded radius of `padCapBound`,
  s2/rect.go), for the radii of level-2 cells:

      R ∈ [2^-80, 0.1703] :   R·(1 + 9.6 ε) + 8.1 ε √R + 90 ε²  ≤  padRadius (R.Add(dc))            (ε = 2^-52)

  Cross coefficient of the exact chord sum: `2k` with `k = 5.788`, `k² = 33.5009… ≤ 35 (1 − 35ε²/4)(1 − 0.1703/4) = 33.5098…`.
-/
import Mathlib.Tactic.Ring
import Mathlib.Tactic.Linarith
import Mathlib.Tactic.Positivity
import Mathlib.Tactic.NormNum
import Mathlib.Analysis.Real.Sqrt
import S2Proofs.C12Cap.Pad2

namespace S2Proofs.C12Cap
open S2 S2.CellM S2Proofs.F64Order S2Proofs.FloatErr S2Proofs.CapF64 S2Proofs.CapF64.CA

set_option exponentiation.threshold 3000

/-- budget of the level-2 instance: `r² ≤ 0.1703`, cross coefficient `11.576`, target coefficient `8.1` -/
theorem real_budget_mid {r C e : ℝ} (hrlo : 1 / 2 ^ 40 ≤ r) (hr : r ^ 2 ≤ 1703 / 10000)
    (hC : (r ^ 2 * (1 - 35 * eps ^ 2 / 4) + 35 * eps ^ 2 * (1 - r ^ 2 / 4) + 2 * (5788 / 1000) * eps * r) * (1 - 3 * eps)
        - 1 / 2 ^ 500 ≤ C)
    (he : 549 / 100 * eps * C + 159 / 10 * eps ^ 2 ≤ e) :
    r ^ 2 * (1 + 96 / 10 * eps) + 81 / 10 * eps * r + 90 * eps ^ 2 ≤ (C + e) * (1 - uR) := by
  have hr0 : 0 ≤ r := le_trans (by norm_num) hrlo
  have hr1 : r ≤ 4127 / 10000 := by nlinarith
  have hrr : r ^ 2 ≤ 4127 / 10000 * r := by nlinarith
  have hk2 : (0 : ℝ) ≤ 1 + 549 / 100 * eps := by unfold eps; norm_num
  have h1 := mul_le_mul_of_nonneg_right hC hk2
  have h2 : ((r ^ 2 * (1 - 35 * eps ^ 2 / 4) + 35 * eps ^ 2 * (1 - r ^ 2 / 4) + 2 * (5788 / 1000) * eps * r) * (1 - 3 * eps)
        - 1 / 2 ^ 500) * (1 + 549 / 100 * eps) + 159 / 10 * eps ^ 2 ≤ C + e := by
    have : C * (1 + 549 / 100 * eps) = C + 549 / 100 * eps * C := by ring
    linarith
  have h3 := mul_le_mul_of_nonneg_right h2 rho_nonneg
  refine le_trans ?_ h3
  unfold eps uR
  linarith

/-- **lower bound of the padded radius** of `padCapBound`, radii of level-2 cells: for a finite radius `R ∈ [2^-80, 0.1703]` and a finite
    increment `dc ∈ [35 ε², 4]`, `R (1 + 9.6 ε) + 8.1 ε √R + 90 ε² ≤ padRadius (R.Add dc)` (the right side computed in binary64). -/
theorem padRadius_lower_mid (R dc : F64) (fR : Fin R) (fdc : Fin dc) (hRlo : 1 / 2 ^ 80 ≤ val R) (hR1 : val R ≤ 1703 / 10000)
    (hdc0 : 35 * eps ^ 2 ≤ val dc) (hdc4 : val dc ≤ 4) :
    Fin (padRadius (Chord.add R dc)) ∧ val (padRadius (Chord.add R dc)) ≤ 4 ∧
    val R * (1 + 96 / 10 * eps) + 81 / 10 * eps * Real.sqrt (val R) + 90 * eps ^ 2 ≤ val (padRadius (Chord.add R dc)) :=
  padRadius_lower_gen (B := 1703 / 10000) (k := 5788 / 1000) (K := 81 / 10) (A := 90) (by norm_num) (by norm_num) (by norm_num)
    (by unfold eps; norm_num) (by norm_num) (by norm_num)
    (fun _ _ _ h1 h2 h3 h4 => real_budget_mid h1 h2 h3 h4) R dc fR fdc hRlo hR1 hdc0 hdc4

end S2Proofs.C12Cap

#print axioms S2Proofs.C12Cap.padRadius_lower_mid
