/-
  C12Cap.MidGeom — real geometry of the uv-centre of a cell and the sign structure of the cell bounds.
-/
import S2Proofs.C12Dist.CoverBasics
import S2Proofs.C12Dist.CellOK
import Mathlib.Analysis.Real.Sqrt
import Mathlib.Tactic.Ring
import Mathlib.Tactic.Linarith
import Mathlib.Tactic.Positivity
import Mathlib.Tactic.FieldSimp
import Mathlib.Tactic.NormNum

namespace S2Proofs.C12Cap
open S2Proofs.C16Acc S2Proofs.C12Dist S2Proofs.C12Dist.Cover

namespace MidGeom

/-- `V̂(a,b) · V̂(x,y) = (a x + b y + 1) / (√(1+a²+b²) · √(1+x²+y²))` -/
theorem dot_vhat_vhat (a b x y : ℝ) :
    R3.dot (vhat a b) (vhat x y) = (a * x + b * y + 1) / (Real.sqrt (nn a b) * Real.sqrt (nn x y)) := by
  rw [dot_vhat, vhat_eq]
  unfold R3.smul
  simp only
  have h1 := (sqrt_nn_pos a b).ne'
  have h2 := (sqrt_nn_pos x y).ne'
  field_simp

/-- square-root step: `c² · (A·B) ≤ N²`, `0 ≤ N`  ⟹  `c ≤ N / (√A·√B)` -/
theorem le_div_sqrt {c N A B : ℝ} (hA : 0 < A) (hB : 0 < B) (hN : 0 ≤ N) (h : c ^ 2 * (A * B) ≤ N ^ 2) :
    c ≤ N / (Real.sqrt A * Real.sqrt B) := by
  have sA := Real.sqrt_pos.mpr hA
  have sB := Real.sqrt_pos.mpr hB
  rw [le_div_iff₀ (by positivity)]
  by_cases hc : 0 ≤ c
  · have e : (c * (Real.sqrt A * Real.sqrt B)) ^ 2 = c ^ 2 * (A * B) := by
      rw [mul_pow, mul_pow, Real.sq_sqrt hA.le, Real.sq_sqrt hB.le]
    have h2 : (c * (Real.sqrt A * Real.sqrt B)) ^ 2 ≤ N ^ 2 := by rw [e]; exact h
    exact le_of_pow_le_pow_left₀ two_ne_zero hN h2
  · have : c * (Real.sqrt A * Real.sqrt B) ≤ 0 :=
      mul_nonpos_of_nonpos_of_nonneg (le_of_lt (not_le.mp hc)) (by positivity)
    linarith

theorem poly_half (β β' γ : ℝ) (hβ : 1 ≤ β) (hβ' : β' ≤ 3) (hcs : (γ - 1) ^ 2 ≤ (β - 1) * (β' - 1)) :
    β * (β + β' + 2 * γ) ≤ 4 * (β + γ) ^ 2 := by
  have h1 : β * β' ≤ 3 * β := by nlinarith
  by_cases hg : 0 ≤ γ
  · nlinarith [mul_nonneg (by linarith : (0 : ℝ) ≤ β) hg, sq_nonneg γ, mul_nonneg (by linarith : (0 : ℝ) ≤ β) (by linarith : (0 : ℝ) ≤ β - 1)]
  · have hg' : γ < 0 := not_le.mp hg
    have h2 : (β - 1) * (β' - 1) ≤ 2 * (β - 1) := by nlinarith
    have h3 : 0 ≤ β - 1 + 2 * γ := by nlinarith [sq_nonneg (1 + γ)]
    nlinarith [mul_nonneg (by linarith : (0 : ℝ) ≤ β) h3, sq_nonneg γ]

theorem poly_quadrant (β β' γ : ℝ) (hβ : 1 ≤ β) (hβ' : β' ≤ 3) (hγ : 1 ≤ γ) :
    β * (β + β' + 2 * γ) ≤ 2 * (β + γ) ^ 2 := by
  have h1 : β * β' ≤ 3 * β := by nlinarith
  nlinarith [mul_nonneg (by linarith : (0 : ℝ) ≤ β) (by linarith : (0 : ℝ) ≤ γ - 1), sq_nonneg (β - 1),
    mul_nonneg (by linarith : (0 : ℝ) ≤ γ - 1) (by linarith : (0 : ℝ) ≤ γ + 1)]

theorem sq_le_one_of_abs {x : ℝ} (h : |x| ≤ 1) : x ^ 2 ≤ 1 := by
  rw [← sq_abs]; nlinarith [abs_nonneg x]

end MidGeom
open MidGeom

/-- **the unit vector of the uv-midpoint of two points of `[-1,1]²` makes an angle `≤ 60°` with either point** -/
theorem mid_dot_ge_half (x y x' y' : ℝ) (hx : |x| ≤ 1) (hy : |y| ≤ 1) (hx' : |x'| ≤ 1) (hy' : |y'| ≤ 1) :
    1 / 2 ≤ R3.dot (vhat ((x + x') / 2) ((y + y') / 2)) (vhat x y) := by
  rw [dot_vhat_vhat]
  have qx := sq_le_one_of_abs hx
  have qy := sq_le_one_of_abs hy
  have qx' := sq_le_one_of_abs hx'
  have qy' := sq_le_one_of_abs hy'
  obtain ⟨x1, x2⟩ := abs_le.mp hx
  obtain ⟨y1, y2⟩ := abs_le.mp hy
  obtain ⟨x1', x2'⟩ := abs_le.mp hx'
  obtain ⟨y1', y2'⟩ := abs_le.mp hy'
  have hN : 0 ≤ (x + x') / 2 * x + (y + y') / 2 * y + 1 := by
    nlinarith [mul_nonneg (by linarith : (0 : ℝ) ≤ 1 + x) (by linarith : (0 : ℝ) ≤ 1 + x'),
      mul_nonneg (by linarith : (0 : ℝ) ≤ 1 - x) (by linarith : (0 : ℝ) ≤ 1 - x'),
      mul_nonneg (by linarith : (0 : ℝ) ≤ 1 + y) (by linarith : (0 : ℝ) ≤ 1 + y'),
      mul_nonneg (by linarith : (0 : ℝ) ≤ 1 - y) (by linarith : (0 : ℝ) ≤ 1 - y'), sq_nonneg x, sq_nonneg y]
  apply le_div_sqrt (nn_pos _ _) (nn_pos _ _) hN
  have hcs : ((1 + x * x' + y * y') - 1) ^ 2 ≤ (nn x y - 1) * (nn x' y' - 1) := by
    unfold nn; nlinarith [sq_nonneg (x * y' - y * x')]
  have hp := poly_half (nn x y) (nn x' y') (1 + x * x' + y * y') (one_le_nn x y) (by unfold nn; linarith) hcs
  have e1 : nn ((x + x') / 2) ((y + y') / 2) = (nn x y + nn x' y' + 2 * (1 + x * x' + y * y')) / 4 := by
    unfold nn; ring
  have e2 : (x + x') / 2 * x + (y + y') / 2 * y + 1 = (nn x y + (1 + x * x' + y * y')) / 2 := by
    unfold nn; ring
  rw [e1, e2]
  nlinarith

set_option linter.unusedVariables false in
/-- **same-sign version (all cells of level ≥ 1): the angle is `≤ 45°`** -/
theorem mid_dot_ge_quadrant (x y x' y' : ℝ) (hx : |x| ≤ 1) (hy : |y| ≤ 1) (hx' : |x'| ≤ 1) (hy' : |y'| ≤ 1)
    (sx : 0 ≤ x * x') (sy : 0 ≤ y * y') :
    7 / 10 ≤ R3.dot (vhat ((x + x') / 2) ((y + y') / 2)) (vhat x y) := by
  rw [dot_vhat_vhat]
  have qx' := sq_le_one_of_abs hx'
  have qy' := sq_le_one_of_abs hy'
  have hN : 0 ≤ (x + x') / 2 * x + (y + y') / 2 * y + 1 := by
    nlinarith [sq_nonneg x, sq_nonneg y]
  apply le_div_sqrt (nn_pos _ _) (nn_pos _ _) hN
  have hp := poly_quadrant (nn x y) (nn x' y') (1 + x * x' + y * y') (one_le_nn x y) (by unfold nn; linarith)
    (by linarith)
  have e1 : nn ((x + x') / 2) ((y + y') / 2) = (nn x y + nn x' y' + 2 * (1 + x * x' + y * y')) / 4 := by
    unfold nn; ring
  have e2 : (x + x') / 2 * x + (y + y') / 2 * y + 1 = (nn x y + (1 + x * x' + y * y')) / 2 := by
    unfold nn; ring
  rw [e1, e2]
  have hpos : 0 ≤ nn x y * ((nn x y + nn x' y' + 2 * (1 + x * x' + y * y'))) := by
    have := nn_pos x y; have := nn_pos x' y'; positivity
  nlinarith


/-! ### sign structure of the bounds of valid cells -/

namespace MidGeom
open S2 S2.CellID S2.STUV S2.CellM S2Proofs.F64Order
open S2Proofs.C12M S2Proofs.C12ST S2Proofs.C12C S2Proofs.C12H S2Proofs.C12 S2Proofs.C12Dist.CellOK

theorem val_g_half : FloatErr.val (stToUV (g (2 ^ 29))) = 0 := by
  rw [val_bridge, stToUV_g_half, S2Proofs.C12M.val_zero]; simp

/-- weak monotonicity of the real values on the grid -/
theorem val_g_mono (k1 k2 : Nat) (h12 : k1 ≤ k2) (hk : k2 ≤ 2 ^ 30) :
    FloatErr.val (stToUV (g k1)) ≤ FloatErr.val (stToUV (g k2)) := by
  rcases Nat.lt_or_eq_of_le h12 with hlt | rfl
  · have h := stToUV_g_gap k1 k2 hlt hk
    have hp : (0 : ℝ) < 1 / 2 ^ 31 := by positivity
    linarith
  · exact le_refl _

/-- one side of a cell of level `n ≥ 1`: the two bounds do not have opposite signs -/
theorem side_sign (I n : Nat) (hn1 : 1 ≤ n) (hn : n ≤ 30) (hI : I < 2 ^ n) :
    0 ≤ FloatErr.val (stToUV (ijToSTMin ((I * 2 ^ (30 - n) : Nat) : Int))) *
      FloatErr.val (stToUV (ijToSTMin (((I + 1) * 2 ^ (30 - n) : Nat) : Int))) := by
  have hle := square_le hn hI
  have hm : 0 < 2 ^ (30 - n) := Nat.two_pow_pos _
  have hlt : I * 2 ^ (30 - n) ≤ (I + 1) * 2 ^ (30 - n) := Nat.mul_le_mul_right _ (Nat.le_succ I)
  have hhalf : 2 ^ (n - 1) * 2 ^ (30 - n) = 2 ^ 29 := by rw [← Nat.pow_add]; congr 1; omega
  show 0 ≤ FloatErr.val (stToUV (g (I * 2 ^ (30 - n)))) * FloatErr.val (stToUV (g ((I + 1) * 2 ^ (30 - n))))
  by_cases hc : I + 1 ≤ 2 ^ (n - 1)
  · have h2 : (I + 1) * 2 ^ (30 - n) ≤ 2 ^ 29 := by
      rw [← hhalf]; exact Nat.mul_le_mul_right _ hc
    have a := val_g_mono _ _ h2 (by norm_num)
    have b := val_g_mono _ _ (le_trans hlt h2) (by norm_num)
    rw [val_g_half] at a b
    exact mul_nonneg_of_nonpos_of_nonpos b a
  · have hc' : 2 ^ (n - 1) ≤ I := by omega
    have h2 : 2 ^ 29 ≤ I * 2 ^ (30 - n) := by
      rw [← hhalf]; exact Nat.mul_le_mul_right _ hc'
    have a := val_g_mono _ _ h2 (le_trans hlt hle)
    have b := val_g_mono _ _ (le_trans h2 hlt) hle
    rw [val_g_half] at a b
    exact mul_nonneg a b

end MidGeom

open S2 S2.CellID S2.CellM in
/-- **the u bounds (and the v bounds) of a valid cell of level ≥ 1 never have opposite signs** -/
theorem cell_signs (id : CellID) (hv : isValid id = true) (hl : 1 ≤ level id) :
    0 ≤ (rectOf (cellFromCellID id)).u0 * (rectOf (cellFromCellID id)).u1 ∧
    0 ≤ (rectOf (cellFromCellID id)).v0 * (rectOf (cellFromCellID id)).v1 := by
  obtain ⟨n, h⟩ := (isValid_iff id).1 hv
  rw [h.level_eq] at hl
  obtain ⟨huv, -⟩ := S2Proofs.C12.cell_bound_is_square h
  obtain ⟨hI, hJ, -⟩ := S2Proofs.C12H.prefixState_bounds id n
  have su := side_sign _ n hl h.k_le hI
  have sv := side_sign _ n hl h.k_le hJ
  unfold rectOf
  rw [huv]
  unfold S2Proofs.C12C.boundOf
  simp only
  exact ⟨su, sv⟩

open S2 S2.CellID S2.CellM in
/-- **the valid cells of level 0 are the six face cells** -/
theorem cell_level0 (id : CellID) (hv : isValid id = true) (hl : level id = 0) :
    id = 0x1000000000000000 ∨ id = 0x3000000000000000 ∨ id = 0x5000000000000000 ∨
    id = 0x7000000000000000 ∨ id = 0x9000000000000000 ∨ id = 0xb000000000000000 := by
  obtain ⟨n, h⟩ := (isValid_iff id).1 hv
  rw [h.level_eq] at hl
  subst hl
  obtain ⟨-, hf, hlow⟩ := h
  simp only [Nat.mul_zero, Nat.sub_zero] at hlow
  have key : id.toNat = 0x1000000000000000 ∨ id.toNat = 0x3000000000000000 ∨ id.toNat = 0x5000000000000000 ∨
      id.toNat = 0x7000000000000000 ∨ id.toNat = 0x9000000000000000 ∨ id.toNat = 0xb000000000000000 := by
    omega
  rcases key with k | k | k | k | k | k
  · left; exact UInt64.toNat_inj.mp (by rw [k]; rfl)
  · right; left; exact UInt64.toNat_inj.mp (by rw [k]; rfl)
  · right; right; left; exact UInt64.toNat_inj.mp (by rw [k]; rfl)
  · right; right; right; left; exact UInt64.toNat_inj.mp (by rw [k]; rfl)
  · right; right; right; right; left; exact UInt64.toNat_inj.mp (by rw [k]; rfl)
  · right; right; right; right; right; exact UInt64.toNat_inj.mp (by rw [k]; rfl)

-- non-vacuity
example : S2.CellID.isValid (0x3000000000000000 : S2.CellID) = true ∧ S2.CellID.level (0x3000000000000000 : S2.CellID) = 0 ∧
    S2.CellID.isValid (0x5555555555555554 : S2.CellID) = true ∧ 1 ≤ S2.CellID.level (0x5555555555555554 : S2.CellID) := by
  decide

end S2Proofs.C12Cap
