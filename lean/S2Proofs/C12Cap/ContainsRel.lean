/-
  C12Cap.ContainsRel — `Cell.ContainsPoint(p) = true` in real terms with a RELATIVE margin: each bound `t` of the uv rectangle
  is relaxed by `relMargin t = (2 + |t|)·ε + 8ε²` (ε = 2^-52), no hypothesis on the rectangle besides `RRect.OK`.

  Why: the margin `2ε` is exact; the rounding error of the end `fl(t ± 2ε)` is at most `uR·(|t| + 2ε)` (standard model) and the
  division error is at most `uR·|q| + eR`; if `q` is outside `[lo, hi]` then `|q| ≤ |t| + 3.01ε` by the crude bound, which gives
  `(2 + |t|)ε + 2.505ε² + eR`.
-/
import S2Proofs.C12Cap.ContainsReal
import S2Proofs.C12Cap.ContainsGlue2

set_option exponentiation.threshold 3000
set_option linter.unusedSimpArgs false

namespace S2Proofs.C12Cap
open S2 S2.CellM S2.Exact S2Proofs.FloatErr S2Proofs.F64Order S2Proofs.C16Acc S2Proofs.C12Dist S2Proofs.CapF64
open S2.CapF64

namespace CRel

/-- relative error of the two expanded interval ends -/
theorem ends_rel (x : F64) (fx : Fin x) (b0 : -1 ≤ val x) (b1 : val x ≤ 1) :
    |val (x - containsMargin) - (val x - 2 * eps)| ≤ eps / 2 * (|val x| + 2 * eps) ∧
    |val (x + containsMargin) - (val x + 2 * eps)| ≤ eps / 2 * (|val x| + 2 * eps) := by
  have he := eps_pos
  have he1 : eps ≤ 1 := by unfold eps; norm_num
  have hb : (3 : ℝ) < 2 ^ 1000 := by
    have : (2 : ℝ) ^ 2 ≤ 2 ^ 1000 := pow_le_pow_right₀ (by norm_num) (by norm_num)
    linarith
  have e2 : |2 * eps| = 2 * eps := abs_of_pos (by linarith)
  constructor
  · obtain ⟨δ, hδ, hv, hf⟩ := sub_std x containsMargin fx CR.fin_cm (by
      rw [CR.val_cm]; exact lt_of_le_of_lt (abs_le.2 ⟨by linarith, by linarith⟩) hb)
    show |val (F64.sub x containsMargin) - (val x - 2 * eps)| ≤ _
    rw [hv, CR.val_cm]
    have e : (val x - 2 * eps) * (1 + δ) - (val x - 2 * eps) = δ * (val x - 2 * eps) := by ring
    rw [e, abs_mul]
    rw [CR.uR_eq] at hδ
    have hs : |val x - 2 * eps| ≤ |val x| + 2 * eps := by
      have := abs_sub (val x) (2 * eps); rw [e2] at this; exact this
    exact mul_le_mul hδ hs (abs_nonneg _) (by linarith)
  · obtain ⟨δ, hδ, hv, hf⟩ := add_std x containsMargin fx CR.fin_cm (by
      rw [CR.val_cm]; exact lt_of_le_of_lt (abs_le.2 ⟨by linarith, by linarith⟩) hb)
    show |val (F64.add x containsMargin) - (val x + 2 * eps)| ≤ _
    rw [hv, CR.val_cm]
    have e : (val x + 2 * eps) * (1 + δ) - (val x + 2 * eps) = δ * (val x + 2 * eps) := by ring
    rw [e, abs_mul]
    rw [CR.uR_eq] at hδ
    have hs : |val x + 2 * eps| ≤ |val x| + 2 * eps := by
      have := abs_add_le (val x) (2 * eps); rw [e2] at this; exact this
    exact mul_le_mul hδ hs (abs_nonneg _) (by linarith)

/-- one coordinate, relative margin -/
theorem coord_rel (lo hi a m : F64) (flo : Fin lo) (fhi : Fin hi)
    (blo : -1 ≤ val lo) (bhi : val hi ≤ 1) (hlh : val lo ≤ val hi)
    (fa : Fin a) (fm : Fin m) (hm0 : val m ≠ 0)
    (h : Ivl.contains (Ivl.expanded (lo, hi) containsMargin) (a / m) = true) :
    val lo - relMargin (val lo) ≤ val a / val m ∧ val a / val m ≤ val hi + relMargin (val hi) := by
  have he := eps_pos
  have hd : eps / 2 * (1 + 2 * eps) ≤ eps := by
    have : eps ≤ 1 / 4 := by unfold eps; norm_num
    nlinarith
  obtain ⟨⟨fA, eA⟩, -⟩ := CR.ends_crude lo flo blo (by linarith)
  obtain ⟨-, ⟨fB, eB⟩⟩ := CR.ends_crude hi fhi (by linarith) bhi
  obtain ⟨c1, c2⟩ := CR.coord_real _ hd lo hi a m flo fhi blo bhi hlh fA eA fB eB fa fm hm0 h
  have hs := CR.slack_crude
  obtain ⟨fq, h1, h2⟩ := CR.ivl_unfold lo hi (a / m) flo fhi hlh (CR.div_nan fa fm hm0) fA fB h
  have herr := CR.div_fin_err fa fm hm0 fq
  rw [CR.uR_eq] at herr
  have rA := (ends_rel lo flo blo (by linarith)).1
  have rB := (ends_rel hi fhi (by linarith) bhi).2
  have heR : eR ≤ eps ^ 2 := by unfold eR eps; norm_num
  have he2 : 0 < eps ^ 2 := by positivity
  set Q := val a / val m
  set r := val (a / m)
  have herr' := abs_le.1 herr
  constructor
  · by_cases hq : val lo ≤ Q
    · have := relMargin_nonneg (val lo); linarith
    · have hq := not_le.1 hq
      have hQ : |Q| ≤ |val lo| + 301 / 100 * eps := by
        have t1 : |Q| ≤ |val lo| + |Q - val lo| := by
          have := abs_add_le (val lo) (Q - val lo)
          rw [show val lo + (Q - val lo) = Q by ring] at this; exact this
        have t2 : |Q - val lo| ≤ 301 / 100 * eps := abs_le.2 ⟨by linarith, by linarith⟩
        linarith
      have rA' := abs_le.1 rA
      have hm : eps / 2 * |Q| ≤ eps / 2 * (|val lo| + 301 / 100 * eps) :=
        mul_le_mul_of_nonneg_left hQ (by linarith)
      unfold relMargin
      nlinarith [abs_nonneg (val lo)]
  · by_cases hq : Q ≤ val hi
    · have := relMargin_nonneg (val hi); linarith
    · have hq := not_le.1 hq
      have hQ : |Q| ≤ |val hi| + 301 / 100 * eps := by
        have t1 : |Q| ≤ |val hi| + |Q - val hi| := by
          have := abs_add_le (val hi) (Q - val hi)
          rw [show val hi + (Q - val hi) = Q by ring] at this; exact this
        have t2 : |Q - val hi| ≤ 301 / 100 * eps := abs_le.2 ⟨by linarith, by linarith⟩
        linarith
      have rB' := abs_le.1 rB
      have hm : eps / 2 * |Q| ≤ eps / 2 * (|val hi| + 301 / 100 * eps) :=
        mul_le_mul_of_nonneg_left hQ (by linarith)
      unfold relMargin
      nlinarith [abs_nonneg (val hi)]

/-- the face analysis of `faceXYZToUV` with abstract bounds on the two quotients -/
theorem core_gen (c : Cell) (hf : c.face < 6) (L1 H1 L2 H2 : ℝ)
    (K : ∀ (a b m : F64), Fin a → Fin b → Fin m → val m ≠ 0 →
      Rect2.containsPoint (Rect2.expandedByMargin c.uv containsMargin) (a / m) (b / m) = true →
      (L1 ≤ val a / val m ∧ val a / val m ≤ H1) ∧ (L2 ≤ val b / val m ∧ val b / val m ≤ H2))
    (p : V3) (hp : Fin3 p) (h : containsPoint c p = true) :
    0 < (uvwR c.face (ofV p)).z ∧
    L1 * (uvwR c.face (ofV p)).z ≤ (uvwR c.face (ofV p)).x ∧
    (uvwR c.face (ofV p)).x ≤ H1 * (uvwR c.face (ofV p)).z ∧
    L2 * (uvwR c.face (ofV p)).z ≤ (uvwR c.face (ofV p)).y ∧
    (uvwR c.face (ofV p)).y ≤ H2 * (uvwR c.face (ofV p)).z := by
  obtain ⟨fx, fy, fz⟩ := hp
  have f0 : Fin fzero := by decide
  have v0 : val fzero = 0 := (zero_val false).2
  have hn : ∀ x : F64, val (-x) = - val x := fun x => val_neg x
  have hfn : ∀ x : F64, Fin x → Fin (-x) := fun x hx => (S2Proofs.F64Sym.isFinite_neg x).2 hx
  have hc : c.face = 0 ∨ c.face = 1 ∨ c.face = 2 ∨ c.face = 3 ∨ c.face = 4 ∨ c.face = 5 := by omega
  unfold containsPoint at h
  rcases hc with hc | hc | hc | hc | hc | hc <;> rw [hc] at h ⊢
  · have hb : F64.le p.x fzero = false := by
      by_contra hb'; rw [Bool.not_eq_false] at hb'
      simp [faceXYZToUV, F64.ge, hb'] at h
    simp only [faceXYZToUV, F64.ge, hb, STUV.validFaceXYZToUV, Bool.false_eq_true, if_false] at h
    have hpos : 0 < val p.x := by
      by_contra hh
      have := (le_iff_val fx f0).2 (by rw [v0]; linarith)
      rw [this] at hb; exact Bool.noConfusion hb
    have hne : val p.x ≠ 0 := hpos.ne'
    obtain ⟨⟨k1, k2⟩, k3, k4⟩ := K _ _ _ fy fz fx hne h
    try simp only [hn] at k1 k2 k3 k4
    simp only [uvwR, ofV]
    obtain ⟨m1, m2⟩ := CR.mul_form' hpos (rfl) k1 k2
    obtain ⟨m3, m4⟩ := CR.mul_form' hpos (rfl) k3 k4
    exact ⟨hpos, m1, m2, m3, m4⟩
  · have hb : F64.le p.y fzero = false := by
      by_contra hb'; rw [Bool.not_eq_false] at hb'
      simp [faceXYZToUV, F64.ge, hb'] at h
    simp only [faceXYZToUV, F64.ge, hb, STUV.validFaceXYZToUV, Bool.false_eq_true, if_false] at h
    have hpos : 0 < val p.y := by
      by_contra hh
      have := (le_iff_val fy f0).2 (by rw [v0]; linarith)
      rw [this] at hb; exact Bool.noConfusion hb
    have hne : val p.y ≠ 0 := hpos.ne'
    obtain ⟨⟨k1, k2⟩, k3, k4⟩ := K _ _ _ (hfn _ fx) fz fy hne h
    try simp only [hn] at k1 k2 k3 k4
    simp only [uvwR, ofV]
    obtain ⟨m1, m2⟩ := CR.mul_form' hpos (rfl) k1 k2
    obtain ⟨m3, m4⟩ := CR.mul_form' hpos (rfl) k3 k4
    exact ⟨hpos, m1, m2, m3, m4⟩
  · have hb : F64.le p.z fzero = false := by
      by_contra hb'; rw [Bool.not_eq_false] at hb'
      simp [faceXYZToUV, F64.ge, hb'] at h
    simp only [faceXYZToUV, F64.ge, hb, STUV.validFaceXYZToUV, Bool.false_eq_true, if_false] at h
    have hpos : 0 < val p.z := by
      by_contra hh
      have := (le_iff_val fz f0).2 (by rw [v0]; linarith)
      rw [this] at hb; exact Bool.noConfusion hb
    have hne : val p.z ≠ 0 := hpos.ne'
    obtain ⟨⟨k1, k2⟩, k3, k4⟩ := K _ _ _ (hfn _ fx) (hfn _ fy) fz hne h
    try simp only [hn] at k1 k2 k3 k4
    simp only [uvwR, ofV]
    obtain ⟨m1, m2⟩ := CR.mul_form' hpos (rfl) k1 k2
    obtain ⟨m3, m4⟩ := CR.mul_form' hpos (rfl) k3 k4
    exact ⟨hpos, m1, m2, m3, m4⟩
  · have hb : F64.le fzero p.x = false := by
      by_contra hb'; rw [Bool.not_eq_false] at hb'
      simp [faceXYZToUV, F64.ge, hb'] at h
    simp only [faceXYZToUV, F64.ge, hb, STUV.validFaceXYZToUV, Bool.false_eq_true, if_false] at h
    have hneg : val p.x < 0 := by
      by_contra hh
      have := (le_iff_val f0 fx).2 (by rw [v0]; linarith)
      rw [this] at hb; exact Bool.noConfusion hb
    have hne : val p.x ≠ 0 := hneg.ne
    have hpos : 0 < -val p.x := by linarith
    obtain ⟨⟨k1, k2⟩, k3, k4⟩ := K _ _ _ fz fy fx hne h
    try simp only [hn] at k1 k2 k3 k4
    simp only [uvwR, ofV]
    obtain ⟨m1, m2⟩ := CR.mul_form' hpos (neg_div_neg_eq _ _) k1 k2
    obtain ⟨m3, m4⟩ := CR.mul_form' hpos (neg_div_neg_eq _ _) k3 k4
    exact ⟨hpos, m1, m2, m3, m4⟩
  · have hb : F64.le fzero p.y = false := by
      by_contra hb'; rw [Bool.not_eq_false] at hb'
      simp [faceXYZToUV, F64.ge, hb'] at h
    simp only [faceXYZToUV, F64.ge, hb, STUV.validFaceXYZToUV, Bool.false_eq_true, if_false] at h
    have hneg : val p.y < 0 := by
      by_contra hh
      have := (le_iff_val f0 fy).2 (by rw [v0]; linarith)
      rw [this] at hb; exact Bool.noConfusion hb
    have hne : val p.y ≠ 0 := hneg.ne
    have hpos : 0 < -val p.y := by linarith
    obtain ⟨⟨k1, k2⟩, k3, k4⟩ := K _ _ _ fz (hfn _ fx) fy hne h
    try simp only [hn] at k1 k2 k3 k4
    simp only [uvwR, ofV]
    obtain ⟨m1, m2⟩ := CR.mul_form' hpos (neg_div_neg_eq _ _) k1 k2
    obtain ⟨m3, m4⟩ := CR.mul_form' (X := val p.x) hpos (by rw [div_neg, neg_div]) k3 k4
    exact ⟨hpos, m1, m2, m3, m4⟩
  · have hb : F64.le fzero p.z = false := by
      by_contra hb'; rw [Bool.not_eq_false] at hb'
      simp [faceXYZToUV, F64.ge, hb'] at h
    simp only [faceXYZToUV, F64.ge, hb, STUV.validFaceXYZToUV, Bool.false_eq_true, if_false] at h
    have hneg : val p.z < 0 := by
      by_contra hh
      have := (le_iff_val f0 fz).2 (by rw [v0]; linarith)
      rw [this] at hb; exact Bool.noConfusion hb
    have hne : val p.z ≠ 0 := hneg.ne
    have hpos : 0 < -val p.z := by linarith
    obtain ⟨⟨k1, k2⟩, k3, k4⟩ := K _ _ _ (hfn _ fy) (hfn _ fx) fz hne h
    try simp only [hn] at k1 k2 k3 k4
    simp only [uvwR, ofV]
    obtain ⟨m1, m2⟩ := CR.mul_form' (X := val p.y) hpos (by rw [div_neg, neg_div]) k1 k2
    obtain ⟨m3, m4⟩ := CR.mul_form' (X := val p.x) hpos (by rw [div_neg, neg_div]) k3 k4
    exact ⟨hpos, m1, m2, m3, m4⟩

end CRel

/-- **`Cell.ContainsPoint(p) = true` in real terms, relative margin** `relMargin t = (2 + |t|)·2^-52 + 8·2^-104` at the bound `t` -/
theorem containsPoint_real_rel (c : Cell) (fu0 : Fin c.uv.1.1) (fu1 : Fin c.uv.1.2) (fv0 : Fin c.uv.2.1)
    (fv1 : Fin c.uv.2.2) (ok : (rectOf c).OK) (hf : c.face < 6)
    (p : V3) (hp : nunitB p = true) (h : containsPoint c p = true) :
    0 < (uvwR c.face (ofV p)).z ∧
    ((rectOf c).u0 - relMargin (rectOf c).u0) * (uvwR c.face (ofV p)).z ≤ (uvwR c.face (ofV p)).x ∧
    (uvwR c.face (ofV p)).x ≤ ((rectOf c).u1 + relMargin (rectOf c).u1) * (uvwR c.face (ofV p)).z ∧
    ((rectOf c).v0 - relMargin (rectOf c).v0) * (uvwR c.face (ofV p)).z ≤ (uvwR c.face (ofV p)).y ∧
    (uvwR c.face (ofV p)).y ≤ ((rectOf c).v1 + relMargin (rectOf c).v1) * (uvwR c.face (ofV p)).z := by
  have hp3 : Fin3 p := ((nunitB_iff p).1 hp).1
  obtain ⟨o1, o2, o3, o4, o5, o6⟩ := id ok
  simp only [rectOf] at o1 o2 o3 o4 o5 o6
  unfold rectOf
  simp only
  apply CRel.core_gen c hf _ _ _ _ _ p hp3 h
  intro a b m fa fb fm hm0 hc
  obtain ⟨h1, h2⟩ := CR.rect_unfold c.uv _ _ (CR.div_nan fa fm hm0) hc
  exact ⟨CRel.coord_rel c.uv.1.1 c.uv.1.2 a m fu0 fu1 o1 o3 o2.le fa fm hm0 h1,
    CRel.coord_rel c.uv.2.1 c.uv.2.2 b m fv0 fv1 o4 o6 o5.le fb fm hm0 h2⟩

/-- non-vacuity: the hypotheses hold together for the face cell 0 (`exCell`) and the point `(1, 0, 0)` -/
example : ∃ (c : Cell) (p : V3), Fin c.uv.1.1 ∧ Fin c.uv.1.2 ∧ Fin c.uv.2.1 ∧ Fin c.uv.2.2 ∧ (rectOf c).OK ∧ c.face < 6 ∧
    nunitB p = true ∧ containsPoint c p = true := by
  refine ⟨exCell, ⟨F64.one, fzero, fzero⟩, by decide, by decide, by decide, by decide, ?_, by decide,
    by decide +kernel, by decide +kernel⟩
  rw [exCell_rect]; constructor <;> norm_num

end S2Proofs.C12Cap

#print axioms S2Proofs.C12Cap.containsPoint_real_rel
