/-
  C12Cap.Level0 — the uv-rectangle of a face cell is `[-1,1]²`.
-/
import S2Proofs.C12Cap.MidGeom

namespace S2Proofs.C12Cap
open S2Proofs.C16Acc S2Proofs.C12Dist S2Proofs.C12Dist.Cover
open S2 S2.CellID S2.STUV S2.CellM S2Proofs.F64Order
open S2Proofs.C12M S2Proofs.C12ST S2Proofs.C12C S2Proofs.C12H S2Proofs.C12 S2Proofs.C12Dist.CellOK

theorem stToUV_g_0 : stToUV (g 0) = ⟨0xbff0000000000000⟩ := by decide +kernel
theorem stToUV_g_top : stToUV (g (2 ^ 30)) = ⟨0x3ff0000000000000⟩ := by decide +kernel

theorem val_g_0 : FloatErr.val (stToUV (g 0)) = -1 := by
  rw [stToUV_g_0]
  have h : S2.Exact.toInt (⟨0xbff0000000000000⟩ : S2.F64) = -(2 ^ 1074) := by decide +kernel
  unfold FloatErr.val; rw [h]; push_cast
  have hp : (0 : ℝ) < 2 ^ 1074 := by positivity
  generalize (2 : ℝ) ^ 1074 = B at *
  field_simp

theorem val_g_top : FloatErr.val (stToUV (g (2 ^ 30))) = 1 := by
  rw [stToUV_g_top]
  have h : S2.Exact.toInt (⟨0x3ff0000000000000⟩ : S2.F64) = 2 ^ 1074 := by decide +kernel
  unfold FloatErr.val; rw [h]; push_cast
  have hp : (0 : ℝ) < 2 ^ 1074 := by positivity
  generalize (2 : ℝ) ^ 1074 = B at *
  field_simp

open S2 S2.CellID S2.CellM in
theorem cell_level0_rect (id : CellID) (hv : isValid id = true) (hl : level id = 0) :
    rectOf (cellFromCellID id) = ⟨-1, 1, -1, 1⟩ := by
  obtain ⟨n, h⟩ := (isValid_iff id).1 hv
  rw [h.level_eq] at hl
  subst hl
  obtain ⟨huv, -⟩ := S2Proofs.C12.cell_bound_is_square h
  obtain ⟨hI, hJ, -⟩ := S2Proofs.C12H.prefixState_bounds id 0
  have hI0 : (prefixState id 0).1 = 0 := by omega
  unfold rectOf
  rw [huv]
  unfold S2Proofs.C12C.boundOf
  simp only
  have hJ0 : (prefixState id 0).2.1 = 0 := by omega
  rw [hI0, hJ0]
  have e1 : (0 * 2 ^ (30 - 0) : Nat) = 0 := by norm_num
  have e2 : ((0 + 1) * 2 ^ (30 - 0) : Nat) = 2 ^ 30 := by norm_num
  rw [e1, e2]
  show (⟨FloatErr.val (stToUV (g 0)), FloatErr.val (stToUV (g (2 ^ 30))), FloatErr.val (stToUV (g 0)),
    FloatErr.val (stToUV (g (2 ^ 30)))⟩ : RRect) = _
  rw [val_g_0, val_g_top]

end S2Proofs.C12Cap
