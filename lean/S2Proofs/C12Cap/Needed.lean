/-
  S2Proofs.C12Cap.Needed — pure real analysis (no floats): the radius that a cap centred at the float point `C`
  NEEDS in order to contain the float probe `P` (exact direction `q`, a cell point), given that the rounded squared
  distance to the float vertex `V` (exact direction `W`, `C·W ≤ C·q`) is at most `R`.

  Main theorem: `needed_real`.  Route: write `C = c·Ĉ`, `V = v·d`, `P = lam·q` with unit directions;
  `|x − y|² = |x||y|·|x̂ − ŷ|² + (|x| − |y|)²` (`dist2_scaled`), `|Ĉ − q| ≤ |Ĉ − W| ≤ |Ĉ − d| + |d − W|`,
  `|d − W| ≤ 2|ν|` (`dir_close`), and then the scalar estimate `needed_scalar` with explicit rational constants
  `KK ≥ lam/v`, `GG ≥ √(KK/(1−u)^5)`, `om ≥ √(4·eR)`.
-/
import S2Proofs.C16Acc.Vec
import S2Proofs.C12Dist.Spec
import S2Proofs.CapF64.Defs
import S2Proofs.CapF64.RealChord
import Mathlib.Analysis.Real.Sqrt
import Mathlib.Tactic.Ring
import Mathlib.Tactic.Linarith
import Mathlib.Tactic.Positivity
import Mathlib.Tactic.NormNum
import Mathlib.Tactic.FieldSimp
import Mathlib.Tactic.LinearCombination

namespace S2Proofs.C12Cap
open S2Proofs.C16Acc S2Proofs.C12Dist S2Proofs.FloatErr S2Proofs.CapF64

/-! ## vector lemmas -/

/-- `|n x − m y|² = n m |x − y|² + (n − m)²` for unit `x`, `y` -/
theorem dist2_scaled (n m : ℝ) (x y : R3) (hx : x.norm2 = 1) (hy : y.norm2 = 1) :
    dist2 (R3.smul n x) (R3.smul m y) = n * m * dist2 x y + (n - m) ^ 2 := by
  unfold C12Dist.dist2 R3.sub R3.smul R3.norm2 at *
  linear_combination (n ^ 2 - n * m) * hx + (m ^ 2 - n * m) * hy

/-- polar decomposition of a non-zero vector -/
theorem exists_unit3 (X : R3) (h : 0 < X.norm2) :
    ∃ (n : ℝ) (U : R3), 0 < n ∧ n ^ 2 = X.norm2 ∧ U.norm2 = 1 ∧ X = R3.smul n U := by
  have hn : 0 < X.norm := Real.sqrt_pos.mpr h
  have hne : X.norm ≠ 0 := ne_of_gt hn
  refine ⟨X.norm, R3.smul (1 / X.norm) X, hn, R3.norm_sq X, ?_, ?_⟩
  · rw [R3.norm2_smul, ← R3.norm_sq X]; field_simp
  · ext <;> simp only [R3.smul] <;> field_simp

/-- the direction of `μ·(W + ν)` (`W` unit, `ν` small) is within `2|ν|` of `W` -/
theorem dir_close (W ν : R3) (μ : ℝ) (hW : W.norm2 = 1) (hν : ν.norm < 1) (hμ : 0 < μ) :
    ∃ (v : ℝ) (d : R3), 0 < v ∧ d.norm2 = 1 ∧ R3.smul μ (R3.add W ν) = R3.smul v d ∧
      (R3.sub d W).norm ≤ 2 * ν.norm := by
  have hWn : W.norm = 1 := by unfold R3.norm; rw [hW, Real.sqrt_one]
  have h1 := R3.norm_ge_sub W ν
  have h2 := R3.norm_add_le W ν
  have hsq := R3.norm_sq (R3.add W ν)
  generalize (R3.add W ν).norm = m at *
  have hm : 0 < m := by linarith
  have hne : m ≠ 0 := ne_of_gt hm
  refine ⟨μ * m, R3.smul (1 / m) (R3.add W ν), mul_pos hμ hm, ?_, ?_, ?_⟩
  · rw [R3.norm2_smul, ← hsq]; field_simp
  · ext <;> simp only [R3.smul] <;> field_simp
  · have e : R3.sub (R3.smul (1 / m) (R3.add W ν)) W = R3.add (R3.smul (1 / m - 1) (R3.add W ν)) ν := by
      ext <;> simp only [R3.sub, R3.smul, R3.add] <;> ring
    rw [e]
    have h3 := R3.norm_add_le (R3.smul (1 / m - 1) (R3.add W ν)) ν
    rw [R3.norm_smul] at h3
    have hsq' : (R3.add W ν).norm = m := by
      unfold R3.norm; rw [← hsq]; exact Real.sqrt_sq hm.le
    rw [hsq'] at h3
    have h4 : |1 / m - 1| * m = |1 - m| := by
      rw [show (1 : ℝ) - m = (1 / m - 1) * m by field_simp, abs_mul, abs_of_pos hm]
    have h5 : |1 - m| ≤ ν.norm := abs_le.mpr ⟨by linarith, by linarith⟩
    linarith

/-! ## constants -/

/-- bound of `lam / v` -/
noncomputable def KK : ℝ := 1 + NU * eps + (NU * eps) ^ 2
/-- bound of `√(KK / (1−u)^5)` -/
noncomputable def GG : ℝ := 1 + 351 / 100 * eps
/-- bound of `√(4·eR)` -/
noncomputable def om : ℝ := 1 / 2 ^ 532

theorem KK_pos : 0 < KK := by unfold KK NU eps; norm_num
theorem GG_pos : 0 < GG := by unfold GG eps; norm_num
theorem om_pos : 0 < om := by unfold om; norm_num

theorem KK_spec : 1 + NU * eps ≤ KK ^ 2 * (1 - NU * eps) := by unfold KK NU eps; norm_num
theorem GG_spec : KK ≤ GG ^ 2 * (1 - uR) ^ 5 := by unfold KK GG NU eps uR; norm_num
set_option exponentiation.threshold 1100 in
theorem om_spec : 4 * eR ≤ om ^ 2 := by unfold om eR; norm_num
set_option exponentiation.threshold 1100 in
theorem nu_spec : (1 + NU * eps / 2) * (2 * (uR + 1 / 2 ^ 500)) ≤ 1001 / 1000 * eps := by
  unfold NU eps uR; norm_num

theorem cA : GG ^ 2 * (1 + uR) ^ 5 ≤ 1 + 96 / 10 * eps := by unfold GG eps uR; norm_num
set_option exponentiation.threshold 1100 in
theorem cB : 2 * GG * (1 + uR) ^ 5 * (GG * om + 1001 / 1000 * eps) ≤ 201 / 100 * eps := by
  unfold GG om eps uR; norm_num
set_option exponentiation.threshold 1100 in
theorem cC : (1 + uR) ^ 5 * ((GG * om + 1001 / 1000 * eps) ^ 2 + 205 / 10 * eps ^ 2) + 4 * eR ≤ 22 * eps ^ 2 := by
  unfold GG om eps uR eR; norm_num

/-- sharper form of `CapF64.ndiff_sq_le` (20.5 instead of 21) -/
theorem ndiff_sq_le' {n m : ℝ} (hn : 0 < n) (hm : 0 < m) (h1 : |n ^ 2 - 1| ≤ NU * eps) (h2 : |m ^ 2 - 1| ≤ NU * eps) :
    (n - m) ^ 2 ≤ 205 / 10 * eps ^ 2 := by
  have he := eps_pos
  have hes := eps_le_small
  have hn' := nroot_le hn (by linarith [(abs_le.mp h1).1])
  have hm' := nroot_le hm (by linarith [(abs_le.mp h2).1])
  rw [NU_eq] at h1 h2 hn' hm'
  have hq : 0 ≤ 1 - 289 / 64 * eps := by linarith
  have e := Real.sq_sqrt hq
  have hq0 := Real.sqrt_nonneg (1 - 289 / 64 * eps)
  obtain ⟨a1, a2⟩ := abs_le.mp h1
  obtain ⟨b1, b2⟩ := abs_le.mp h2
  have hsum : 4 * (1 - 289 / 64 * eps) ≤ (n + m) ^ 2 := by nlinarith
  have hK : 0 < 4 * (1 - 289 / 64 * eps) := by linarith
  have hdiff : (n ^ 2 - m ^ 2) ^ 2 ≤ (2 * (289 / 64) * eps) ^ 2 := by
    apply sq_le_sq'
    · linarith
    · linarith
  have h3 : (n - m) ^ 2 * (4 * (1 - 289 / 64 * eps)) ≤ (n - m) ^ 2 * (n + m) ^ 2 :=
    mul_le_mul_of_nonneg_left hsum (sq_nonneg _)
  have h4 : (n - m) ^ 2 * (n + m) ^ 2 = (n ^ 2 - m ^ 2) ^ 2 := by ring
  have h5 : (2 * (289 / 64) * eps) ^ 2 ≤ 205 / 10 * eps ^ 2 * (4 * (1 - 289 / 64 * eps)) := by
    have : 0 ≤ eps ^ 2 * (1 / 1000 - eps) := mul_nonneg (sq_nonneg _) (by linarith)
    nlinarith
  have h6 : (n - m) ^ 2 * (4 * (1 - 289 / 64 * eps)) ≤ 205 / 10 * eps ^ 2 * (4 * (1 - 289 / 64 * eps)) := by
    linarith
  exact le_of_mul_le_mul_right h6 hK

/-! ## the scalar estimate -/

set_option exponentiation.threshold 600 in
theorem needed_scalar {c v lam hq t s R : ℝ} (hc : 0 < c) (hv : 0 < v) (hl : 0 < lam)
    (hc2 : |c ^ 2 - 1| ≤ NU * eps) (hv2 : |v ^ 2 - 1| ≤ NU * eps) (hl2 : |lam ^ 2 - 1| ≤ NU * eps)
    (hqt : hq ≤ t ^ 2) (ht0 : 0 ≤ t) (hs0 : 0 ≤ s) (hts : t ≤ s + 2 * (uR + 1 / 2 ^ 500))
    (hR0 : 0 ≤ R) (hR : (c * v * s ^ 2 + (c - v) ^ 2) * (1 - uR) ^ 5 ≤ R + 4 * eR) :
    (c * lam * hq + (c - lam) ^ 2) * (1 + uR) ^ 5 + 4 * eR
      ≤ R * (1 + 96 / 10 * eps) + 201 / 100 * eps * Real.sqrt R + 22 * eps ^ 2 := by
  have he := eps_pos
  have hes := eps_le_small
  have hNU := NU_eq
  obtain ⟨c1, c2⟩ := abs_le.mp hc2
  obtain ⟨v1, v2⟩ := abs_le.mp hv2
  obtain ⟨l1, l2⟩ := abs_le.mp hl2
  have hd := ndiff_sq_le' hc hl hc2 hl2
  have hr0 : 0 ≤ Real.sqrt R := Real.sqrt_nonneg R
  have hr2 : Real.sqrt R ^ 2 = R := Real.sq_sqrt hR0
  generalize Real.sqrt R = r at *
  have hk : 0 < (1 - uR) ^ 5 := by unfold uR; norm_num
  have hM : 0 < (1 + uR) ^ 5 := by unfold uR; norm_num
  have hK0 := KK_pos
  have hG0 := GG_pos
  have ho0 := om_pos
  have ha0 : 0 ≤ NU * eps := by rw [hNU]; positivity
  have ha1 : NU * eps ≤ 1 / 1000 := by rw [hNU]; linarith
  -- lam ≤ KK · v
  have hlamK : lam ≤ KK * v := by
    rw [← sq_le_sq₀ hl.le (mul_nonneg hK0.le hv.le), mul_pow]
    have h1 := KK_spec
    have h2 : KK ^ 2 * (1 - NU * eps) ≤ KK ^ 2 * v ^ 2 := mul_le_mul_of_nonneg_left (by linarith) (sq_nonneg _)
    linarith
  -- σ = √(c·lam)
  have hcl0 : 0 ≤ c * lam := (mul_pos hc hl).le
  have hcl1 : c * lam ≤ 1 + NU * eps := by nlinarith [sq_nonneg (c - lam)]
  have hσ0 : 0 ≤ Real.sqrt (c * lam) := Real.sqrt_nonneg _
  have hσ2 : Real.sqrt (c * lam) ^ 2 = c * lam := Real.sq_sqrt hcl0
  have hσ1 : Real.sqrt (c * lam) ≤ 1 + NU * eps / 2 := by
    rw [Real.sqrt_le_iff]
    refine ⟨by linarith, ?_⟩
    nlinarith [sq_nonneg (NU * eps)]
  generalize Real.sqrt (c * lam) = σ at *
  -- c·lam·s² ≤ (GG (r + om))²
  have hcvs0 : 0 ≤ c * v * s ^ 2 := by positivity
  have h4 : c * lam * s ^ 2 ≤ (GG * (r + om)) ^ 2 := by
    apply le_of_mul_le_mul_right _ hk
    have e1 : c * lam * s ^ 2 ≤ KK * (c * v * s ^ 2) := by
      have := mul_le_mul_of_nonneg_left hlamK (by positivity : 0 ≤ c * s ^ 2)
      linarith
    have e2 : c * v * s ^ 2 * (1 - uR) ^ 5 ≤ R + 4 * eR := by
      have : 0 ≤ (c - v) ^ 2 * (1 - uR) ^ 5 := mul_nonneg (sq_nonneg _) hk.le
      linarith
    have e3 : R + 4 * eR ≤ (r + om) ^ 2 := by
      have h1 := om_spec
      have h2 : 0 ≤ r * om := mul_nonneg hr0 ho0.le
      have h3 : (r + om) ^ 2 = r ^ 2 + 2 * (r * om) + om ^ 2 := by ring
      linarith
    have e4 := GG_spec
    calc c * lam * s ^ 2 * (1 - uR) ^ 5 ≤ KK * (c * v * s ^ 2) * (1 - uR) ^ 5 :=
          mul_le_mul_of_nonneg_right e1 hk.le
      _ = KK * (c * v * s ^ 2 * (1 - uR) ^ 5) := by ring
      _ ≤ KK * (R + 4 * eR) := mul_le_mul_of_nonneg_left e2 hK0.le
      _ ≤ KK * (r + om) ^ 2 := mul_le_mul_of_nonneg_left e3 hK0.le
      _ ≤ GG ^ 2 * (1 - uR) ^ 5 * (r + om) ^ 2 := mul_le_mul_of_nonneg_right e4 (sq_nonneg _)
      _ = (GG * (r + om)) ^ 2 * (1 - uR) ^ 5 := by ring
  have hZ0 : 0 ≤ GG * (r + om) := mul_nonneg hG0.le (by linarith)
  have h5 : σ * s ≤ GG * (r + om) := by
    rw [← sq_le_sq₀ (mul_nonneg hσ0 hs0) hZ0, mul_pow, hσ2]; exact h4
  -- σ·t ≤ Z
  have h6 : σ * t ≤ GG * (r + om) + 1001 / 1000 * eps := by
    have a1 : σ * t ≤ σ * (s + 2 * (uR + 1 / 2 ^ 500)) := mul_le_mul_of_nonneg_left hts hσ0
    have hu0 : (0 : ℝ) ≤ 2 * (uR + 1 / 2 ^ 500) := by
      have h1 := uR_nonneg
      have h2 : (0 : ℝ) ≤ 1 / 2 ^ 500 := one_div_nonneg.mpr (pow_pos two_pos 500).le
      linarith
    have a2 : σ * (2 * (uR + 1 / 2 ^ 500)) ≤ (1 + NU * eps / 2) * (2 * (uR + 1 / 2 ^ 500)) :=
      mul_le_mul_of_nonneg_right hσ1 hu0
    have a3 := nu_spec
    linarith
  have h7 : c * lam * hq ≤ (GG * (r + om) + 1001 / 1000 * eps) ^ 2 := by
    have b1 : c * lam * hq ≤ c * lam * t ^ 2 := mul_le_mul_of_nonneg_left hqt hcl0
    have b2 : c * lam * t ^ 2 = (σ * t) ^ 2 := by rw [mul_pow, hσ2]
    have b3 : (σ * t) ^ 2 ≤ (GG * (r + om) + 1001 / 1000 * eps) ^ 2 :=
      pow_le_pow_left₀ (mul_nonneg hσ0 ht0) h6 2
    linarith
  -- assemble
  have h8 : (c * lam * hq + (c - lam) ^ 2) * (1 + uR) ^ 5
      ≤ ((GG * (r + om) + 1001 / 1000 * eps) ^ 2 + 205 / 10 * eps ^ 2) * (1 + uR) ^ 5 :=
    mul_le_mul_of_nonneg_right (by linarith) hM.le
  have e : ((GG * (r + om) + 1001 / 1000 * eps) ^ 2 + 205 / 10 * eps ^ 2) * (1 + uR) ^ 5 + 4 * eR
      = GG ^ 2 * (1 + uR) ^ 5 * r ^ 2 + 2 * GG * (1 + uR) ^ 5 * (GG * om + 1001 / 1000 * eps) * r
        + ((1 + uR) ^ 5 * ((GG * om + 1001 / 1000 * eps) ^ 2 + 205 / 10 * eps ^ 2) + 4 * eR) := by ring
  have fA := mul_le_mul_of_nonneg_right cA (sq_nonneg r)
  have fB := mul_le_mul_of_nonneg_right cB hr0
  have fC := cC
  rw [← hr2]
  linarith

/-! ## the main theorem -/

set_option exponentiation.threshold 600 in
/-- C = float cap centre, V = a float vertex, W = its exact unit direction, P = the float probe, q = its exact direction (a cell point) -/
theorem needed_real (C P q V W ν : R3) (μ lam R : ℝ)
    (hC : |C.norm2 - 1| ≤ NU * eps) (hP : |P.norm2 - 1| ≤ NU * eps) (hV : |V.norm2 - 1| ≤ NU * eps)
    (hq : q.norm2 = 1) (hW : W.norm2 = 1)
    (hlam : 0 < lam) (hPq : P = R3.smul lam q)
    (hμ : 0 < μ) (hVW : V = R3.smul μ (R3.add W ν)) (hν : ν.norm ≤ uR + 1 / 2 ^ 500)
    (hdot : R3.dot C W ≤ R3.dot C q)
    (hR0 : 0 ≤ R) (hR2 : R ≤ 2)
    (hR : dist2 C V * (1 - uR) ^ 5 ≤ R + 4 * eR) :
    dist2 C P * (1 + uR) ^ 5 + 4 * eR ≤ R * (1 + 96 / 10 * eps) + 201 / 100 * eps * Real.sqrt R + 22 * eps ^ 2 := by
  have _ := hR2  -- not needed: the estimate holds for every `R ≥ 0`
  have he := eps_pos
  have hes := eps_le_small
  have hNU := NU_eq
  obtain ⟨C1, C2⟩ := abs_le.mp hC
  obtain ⟨c, Ch, hc0, hc2, hCh, rfl⟩ := exists_unit3 C (by rw [hNU] at C1; linarith)
  rw [← hc2] at hC
  subst hPq
  have hP2 : (R3.smul lam q).norm2 = lam ^ 2 := by rw [R3.norm2_smul, hq, mul_one]
  rw [hP2] at hP
  have hu' : uR + 1 / 2 ^ 500 < 1 := by
    have h1 : (1 : ℝ) / 2 ^ 500 ≤ 1 / 2 := by
      apply one_div_le_one_div_of_le (by norm_num)
      calc (2 : ℝ) = 2 ^ 1 := by norm_num
        _ ≤ 2 ^ 500 := pow_le_pow_right₀ (by norm_num) (by norm_num)
    have h2 : uR ≤ 1 / 4 := by unfold uR; norm_num
    linarith
  obtain ⟨v, d, hv0, hd1, hVd, hdW⟩ := dir_close W ν μ hW (by linarith) hμ
  rw [hVd] at hVW
  subst hVW
  have hV2 : (R3.smul v d).norm2 = v ^ 2 := by rw [R3.norm2_smul, hd1, mul_one]
  rw [hV2] at hV
  rw [dist2_scaled c v Ch d hCh hd1] at hR
  rw [dist2_scaled c lam Ch q hCh hq]
  have hdot' : R3.dot Ch W ≤ R3.dot Ch q := by
    have e1 : R3.dot (R3.smul c Ch) W = c * R3.dot Ch W := by unfold R3.dot R3.smul; ring
    have e2 : R3.dot (R3.smul c Ch) q = c * R3.dot Ch q := by unfold R3.dot R3.smul; ring
    rw [e1, e2] at hdot
    exact le_of_mul_le_mul_left hdot hc0
  have hqW : dist2 Ch q ≤ dist2 Ch W := by rw [dist2_eq, dist2_eq, hq, hW]; linarith
  have ht : dist2 Ch W = (R3.sub Ch W).norm ^ 2 := (R3.norm_sq _).symm
  have hs : dist2 Ch d = (R3.sub Ch d).norm ^ 2 := (R3.norm_sq _).symm
  have htri : (R3.sub Ch W).norm ≤ (R3.sub Ch d).norm + (R3.sub d W).norm := by
    have := R3.norm_le_add_sub (R3.sub Ch W) (R3.sub Ch d)
    have e : R3.sub (R3.sub Ch W) (R3.sub Ch d) = R3.sub d W := by
      ext <;> simp only [R3.sub] <;> ring
    rwa [e] at this
  rw [hs] at hR
  rw [ht] at hqW
  exact needed_scalar hc0 hv0 hlam hC hV hP hqW (R3.norm_nonneg _) (R3.norm_nonneg _)
    (by linarith) hR0 hR

end S2Proofs.C12Cap

