/-
  C12Cap.FloatSide — float facts behind `Cell.CapBound` (model `S2.CellM.capBoundRaw`, `S2/CellCap.lean`):

  * the face frame on real vectors is linear (`uvwR_dot`, `uvwR_smul`, `uvwR_add`) and maps `faceUVToXYZ f u v` to `(u, v, 1)`;
  * `normalize_spec`: the output of `Normalize` on a finite vector with `1 ≤ |x|² ` and coordinates `≤ 2^14` is
    `μ·(x̂ + ν')` with `|μ − 1| ≤ 8u`, `|ν'| ≤ u + 2^-500` (from `C16Acc.scaleSpec`), is Normalize-grade (`nunitB`), and within `9.001u` of `x̂`;
  * `addPoint_val`, `raw_radius`: the radius after the four `AddPoint`s is the maximum of `0` and the four computed chords.
-/
import S2.CellCap
import S2Proofs.C12Dist.VertexErr
import S2Proofs.C12Dist.CellOK
import S2Proofs.CapF64.Model
import S2Proofs.CapF64.Normalize
import S2Proofs.Properties.C19_CapBinary64

namespace S2Proofs.C12Cap
open S2 S2.CellM S2.Exact S2Proofs.FloatErr S2Proofs.F64Order S2Proofs.C16Acc S2Proofs.C12Dist S2Proofs.CapF64
open S2.CapF64
open S2Proofs.C12Dist.VertexErr (val_one fin_one val_eq_iff val_zero four_eR_le_u unit_close)

/-! ### the face frame is linear -/

theorem uvwR_dot (f : Nat) (p q : R3) : R3.dot (uvwR f p) (uvwR f q) = R3.dot p q := by
  unfold uvwR R3.dot; split <;> ring

theorem uvwR_smul (f : Nat) (c : ℝ) (p : R3) : uvwR f (R3.smul c p) = R3.smul c (uvwR f p) := by
  unfold uvwR R3.smul; split <;> (ext <;> simp)

theorem uvwR_add (f : Nat) (p q : R3) : uvwR f (R3.add p q) = R3.add (uvwR f p) (uvwR f q) := by
  unfold uvwR R3.add; split <;> (ext <;> simp <;> ring)

theorem uvwR_norm (f : Nat) (p : R3) : (uvwR f p).norm = p.norm := by
  unfold R3.norm; rw [uvwR_norm2]

/-- `faceUVToXYZ f u v` is `(u, v, 1)` in the frame of face `f` -/
theorem uvwR_faceUV (f : Nat) (hf : f < 6) (u v : F64) :
    uvwR f (ofV (STUV.faceUVToXYZ f u v)) = ⟨val u, val v, 1⟩ := by
  have hn : ∀ x : F64, val (-x) = - val x := fun x => val_neg x
  have h1 := val_one
  have : f = 0 ∨ f = 1 ∨ f = 2 ∨ f = 3 ∨ f = 4 ∨ f = 5 := by omega
  rcases this with h | h | h | h | h | h <;> subst h <;>
    simp [uvwR, STUV.faceUVToXYZ, ofV, hn, h1]

theorem fin3_faceUV (f : Nat) {u v : F64} (hu : Fin u) (hv : Fin v) : Fin3 (STUV.faceUVToXYZ f u v) := by
  have hn : ∀ x : F64, Fin x → Fin (-x) := fun x hx => (S2Proofs.F64Sym.isFinite_neg x).2 hx
  have h1 := fin_one
  unfold STUV.faceUVToXYZ Fin3
  split <;> simp only <;> refine ⟨?_, ?_, ?_⟩ <;> first | assumption | (apply hn; assumption)

/-! ### `Normalize` -/

/-- everything we need about `x.normalize` for a finite `x` with coordinates `≤ 2^14` and `1 ≤ |x|²` -/
theorem normalize_spec (x : V3) (hx : Fin3 x) (m1 : |val x.x| ≤ 2 ^ 14) (m2 : |val x.y| ≤ 2 ^ 14)
    (m3 : |val x.z| ≤ 2 ^ 14) (hS1 : 1 ≤ (ofV x).norm2) :
    Fin3 x.normalize ∧ nunitB x.normalize = true ∧ 0 < (ofV x).norm ∧
    (R3.sub (ofV x.normalize) (R3.smul (1 / (ofV x).norm) (ofV x))).norm ≤ (9 + 1 / 1000) * uR ∧
    ∃ (μ : ℝ) (ν : R3), 0 < μ ∧
      ofV x.normalize = R3.smul μ (R3.add (R3.smul (1 / (ofV x).norm) (ofV x)) ν) ∧ ν.norm ≤ uR + 1 / 2 ^ 500 := by
  have hu0 := uR_nonneg
  obtain ⟨fn, herr⟩ := norm2_wide _ hx ⟨m1, m2, m3⟩
  have hn2 : 1 / 4 ≤ val x.norm2 := by
    have hρ := rhoU_le3
    have hρ2 : rhoU uR ≤ 1 / 2 := le_trans hρ (by unfold uR; norm_num)
    have h1 := mul_le_mul_of_nonneg_right hρ2 (le_trans (by norm_num) hS1 : (0 : ℝ) ≤ _)
    have h2 := four_eR_le_u
    have h3 : uR / 1000 ≤ 1 / 4 := by unfold uR; norm_num
    have hb := abs_le.mp herr
    linarith
  have hlo : 1 / 2 ^ 1022 ≤ val x.norm2 :=
    le_trans (one_div_le_one_div_of_le (by norm_num)
      (le_trans (by norm_num : (4 : ℝ) ≤ 2 ^ 2) (pow_le_pow_right₀ (by norm_num) (by norm_num)))) hn2
  have hfeq : F64.feq x.norm2 (F64.zero false) = false := by
    cases h : F64.feq x.norm2 (F64.zero false)
    · rfl
    · exfalso
      have h1 := (feq_iff fn (zero_val false).1).1 h
      have h2 := (val_eq_iff _ _).2 h1
      rw [val_zero] at h2
      linarith
  have hne := normalize_eq x hfeq
  obtain ⟨_, _, fq, hn512, _, s, ν, hs0, hsn, heq, hν⟩ := scaleSpec _ hx m1 m2 m3 hlo
  have hVpos : 0 < (ofV x).norm := lt_of_lt_of_le (by positivity) hn512
  obtain ⟨_, hQ⟩ := unit_close hVpos hs0 hsn hν
  rw [← heq, ← hne] at hQ
  rw [← hne] at fq heq
  -- Normalize grade
  have hS28 : (ofV x).norm2 ≤ 3 * 2 ^ 28 := by
    unfold R3.norm2 ofV
    simp only
    have e : ∀ a : ℝ, |a| ≤ 2 ^ 14 → a ^ 2 ≤ 2 ^ 28 := by
      intro a ha
      have := sq_abs a
      have h2 : |a| ^ 2 ≤ (2 ^ 14) ^ 2 := pow_le_pow_left₀ (abs_nonneg a) ha 2
      have e2 : ((2 : ℝ) ^ 14) ^ 2 = 2 ^ 28 := by rw [← pow_mul]
      linarith
    have := e _ m1; have := e _ m2; have := e _ m3
    linarith
  have hgrade : nunitB x.normalize = true := by
    apply S2Proofs.C19Cap64.nunitB_normalize x hx
    · have : (1 : ℝ) / 2 ^ 400 ≤ 1 := by
        rw [div_le_one (by positivity)]; exact one_le_pow₀ (by norm_num)
      exact le_trans this hS1
    · have h3 : (3 : ℝ) * 2 ^ 28 ≤ 2 ^ 400 := by
        have : (3 : ℝ) * 2 ^ 28 ≤ 2 ^ 30 := by norm_num
        exact le_trans this (pow_le_pow_right₀ (by norm_num) (by norm_num))
      exact le_trans hS28 h3
  refine ⟨fq, hgrade, hVpos, hQ, s * (ofV x).norm, R3.smul (1 / (ofV x).norm) ν, by positivity, ?_, ?_⟩
  · rw [heq]
    have hne' : (ofV x).norm ≠ 0 := hVpos.ne'
    unfold R3.smul R3.add
    ext <;> simp <;> field_simp
  · rw [R3.norm_smul, abs_of_pos (by positivity)]
    have := mul_le_mul_of_nonneg_left hν (by positivity : (0 : ℝ) ≤ 1 / (ofV x).norm)
    have e : 1 / (ofV x).norm * ((uR + 1 / 2 ^ 500) * (ofV x).norm) = uR + 1 / 2 ^ 500 := by
      field_simp
    linarith

/-! ### `AddPoint` on a non-empty cap: the radius becomes the maximum -/

theorem addPoint_val (C : V3) (r : F64) (p : V3) (fr : Fin r) (h0 : 0 ≤ val r) (fb : Fin (Chord.between C p)) :
    ∃ r' : F64, (⟨C, r⟩ : Cap).addPoint p = ⟨C, r'⟩ ∧ Fin r' ∧ val r' = max (val r) (val (Chord.between C p)) := by
  rw [addPoint_eq]
  have hne : F64.lt r Chord.f0 = false := by
    rw [Bool.eq_false_iff]; intro h
    have := (lt_iff_val fr val_f0.1).1 h
    rw [val_f0.2] at this; linarith
  simp only [hne, Bool.false_eq_true, if_false]
  by_cases hl : F64.lt r (Chord.between C p) = true
  · rw [if_pos hl]
    have := (lt_iff_val fr fb).1 hl
    exact ⟨_, rfl, fb, (max_eq_right this.le).symm⟩
  · rw [if_neg hl]
    have hl' : ¬ val r < val (Chord.between C p) := fun h => hl ((lt_iff_val fr fb).2 h)
    exact ⟨_, rfl, fr, (max_eq_left (not_lt.mp hl')).symm⟩

/-- the radius after `CapFromPoint(C)` and four `AddPoint`s -/
theorem raw_radius (C p0 p1 p2 p3 : V3) (f0 : Fin (Chord.between C p0)) (f1 : Fin (Chord.between C p1))
    (f2 : Fin (Chord.between C p2)) (f3 : Fin (Chord.between C p3)) :
    ∃ r : F64, ((((CapM.fromPoint C : Cap).addPoint p0).addPoint p1).addPoint p2).addPoint p3 = ⟨C, r⟩ ∧ Fin r ∧
      val r = max (max (max (max 0 (val (Chord.between C p0))) (val (Chord.between C p1))) (val (Chord.between C p2)))
        (val (Chord.between C p3)) := by
  have e0 : (CapM.fromPoint C : Cap) = ⟨C, Chord.f0⟩ := rfl
  obtain ⟨r0, h0, g0, v0⟩ := addPoint_val C Chord.f0 p0 val_f0.1 (by rw [val_f0.2]) f0
  rw [val_f0.2] at v0
  have n0 : 0 ≤ val r0 := by rw [v0]; exact le_max_left _ _
  obtain ⟨r1, h1, g1, v1⟩ := addPoint_val C r0 p1 g0 n0 f1
  have n1 : 0 ≤ val r1 := by rw [v1]; exact le_trans n0 (le_max_left _ _)
  obtain ⟨r2, h2, g2, v2⟩ := addPoint_val C r1 p2 g1 n1 f2
  have n2 : 0 ≤ val r2 := by rw [v2]; exact le_trans n1 (le_max_left _ _)
  obtain ⟨r3, h3, g3, v3⟩ := addPoint_val C r2 p3 g2 n2 f3
  refine ⟨r3, ?_, g3, ?_⟩
  · rw [e0, h0, h1, h2, h3]
  · rw [v3, v2, v1, v0]

end S2Proofs.C12Cap
