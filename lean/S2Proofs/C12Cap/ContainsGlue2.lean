/-
  C12Cap.ContainsGlue2 — the sharper version of `ContainsGlue` with a RELATIVE margin: the float test of `Cell.ContainsPoint`
  lets the quotient `x/z` exceed the bound `u1` by at most `(2 + |u1|)ε + 8ε²` (the margin `2ε` is exact, the two roundings are
  relative to the size of the coordinate).  Because
        (2 + |a|)² + (2 + |b|)² ≤ 9 (1 + a² + b²)            (= 9·|(a,b,1)|², equality at |a| = |b| = 1/4)
  and the chord between the directions of `(a,b,1)` and `(x,y,1)` is `|(a,b)−(x,y)|² / (|(a,b,1)|·|(x,y,1)|)` at most, the direction
  of an accepted probe is within `3ε(1+6ε)` (chord) of the exact cell — instead of `√2·2.76ε = 3.9ε` from the absolute margin.
-/
import S2Proofs.C12Cap.ContainsGlue

set_option exponentiation.threshold 3000

namespace S2Proofs.C12Cap
open S2 S2.CellM S2.Exact S2Proofs.FloatErr S2Proofs.F64Order S2Proofs.C16Acc S2Proofs.C12Dist S2Proofs.CapF64
open S2.CapF64

/-- the relative margin of one coordinate bound `t` -/
noncomputable def relMargin (t : ℝ) : ℝ := (2 + |t|) * eps + 8 * eps ^ 2

theorem relMargin_nonneg (t : ℝ) : 0 ≤ relMargin t := by
  unfold relMargin; have := eps_pos; have := abs_nonneg t; positivity

/-- squared chord between two directions `(a,b,1)^`, `(x,y,1)^` -/
theorem vhat_chord_le (a b x y : ℝ) :
    (2 - 2 * R3.dot (vhat a b) (vhat x y)) * (Real.sqrt (Cover.nn a b) * Real.sqrt (Cover.nn x y))
      ≤ (x - a) ^ 2 + (y - b) ^ 2 := by
  rw [MidGeom.dot_vhat_vhat]
  have pA := Cover.sqrt_nn_pos a b
  have pB := Cover.sqrt_nn_pos x y
  have qA : Real.sqrt (Cover.nn a b) ^ 2 = Cover.nn a b := Real.sq_sqrt (Cover.nn_pos a b).le
  have qB : Real.sqrt (Cover.nn x y) ^ 2 = Cover.nn x y := Real.sq_sqrt (Cover.nn_pos x y).le
  have hne : Real.sqrt (Cover.nn a b) * Real.sqrt (Cover.nn x y) ≠ 0 := (mul_pos pA pB).ne'
  have e : (2 - 2 * ((a * x + b * y + 1) / (Real.sqrt (Cover.nn a b) * Real.sqrt (Cover.nn x y))))
      * (Real.sqrt (Cover.nn a b) * Real.sqrt (Cover.nn x y))
      = 2 * (Real.sqrt (Cover.nn a b) * Real.sqrt (Cover.nn x y)) - 2 * (a * x + b * y + 1) := by
    field_simp
  rw [e]
  generalize Real.sqrt (Cover.nn a b) = sA at *
  generalize Real.sqrt (Cover.nn x y) = sB at *
  unfold Cover.nn at qA qB
  nlinarith [sq_nonneg (sA - sB)]

/-- `(2+s)² + (2+t)² ≤ 9(1 + s² + t²)` -/
theorem nine_poly (s t : ℝ) : (2 + s) ^ 2 + (2 + t) ^ 2 ≤ 9 * (1 + s ^ 2 + t ^ 2) := by
  nlinarith [sq_nonneg (s - 1 / 4), sq_nonneg (t - 1 / 4)]

/-- one coordinate: the clamped value and the distance to it -/
theorem clamp_coord (lo hi x' : ℝ) (hlh : lo < hi) (b1 : lo - relMargin lo ≤ x') (b2 : x' ≤ hi + relMargin hi) :
    lo ≤ max lo (min x' hi) ∧ max lo (min x' hi) ≤ hi ∧
      |x' - max lo (min x' hi)| ≤ relMargin (max lo (min x' hi)) := by
  refine ⟨le_max_left _ _, max_le hlh.le (min_le_right _ _), ?_⟩
  rcases lt_or_ge hi x' with h | h
  · have e : max lo (min x' hi) = hi := by rw [min_eq_right h.le, max_eq_right hlh.le]
    rw [e, abs_of_nonneg (by linarith)]; linarith
  · rcases lt_or_ge x' lo with h' | h'
    · have e : max lo (min x' hi) = lo := by rw [min_eq_left h, max_eq_left h'.le]
      rw [e, abs_of_nonpos (by linarith)]; linarith
    · have e : max lo (min x' hi) = x' := by rw [min_eq_left h, max_eq_right h']
      rw [e, sub_self, abs_zero]; exact relMargin_nonneg _

/-- `ε(1+4ε)` and `ε(1+6ε)` -/
noncomputable def E1 : ℝ := eps * (1 + 4 * eps)
noncomputable def E2 : ℝ := eps * (1 + 6 * eps)

theorem E1_nonneg : 0 ≤ E1 := by unfold E1; have := eps_pos; positivity
theorem E2_nonneg : 0 ≤ E2 := by unfold E2; have := eps_pos; positivity

theorem relMargin_le (t : ℝ) : relMargin t ≤ (2 + |t|) * E1 := by
  unfold relMargin E1
  have h := abs_nonneg t
  have e : (2 + |t|) * (eps * (1 + 4 * eps)) - ((2 + |t|) * eps + 8 * eps ^ 2) = eps ^ 2 * (4 * |t|) := by ring
  have : 0 ≤ eps ^ 2 * (4 * |t|) := by positivity
  linarith

theorem E1_to_E2 (X : ℝ) (hX : 0 ≤ X) : (2 + X + 31 / 10 * eps) * E1 ≤ (2 + X) * E2 := by
  unfold E1 E2
  have e : (2 + X) * (eps * (1 + 6 * eps)) - (2 + X + 31 / 10 * eps) * (eps * (1 + 4 * eps))
      = eps ^ 2 * (2 * (2 + X) - 31 / 10 * (1 + 4 * eps)) := by ring
  have he : eps ≤ 1 / 100 := by unfold eps; norm_num
  have : 0 ≤ eps ^ 2 * (2 * (2 + X) - 31 / 10 * (1 + 4 * eps)) := mul_nonneg (sq_nonneg _) (by linarith)
  linarith

theorem three_E1 : (2 + (1 : ℝ)) * E1 ≤ 31 / 10 * eps := by
  unfold E1
  have he : eps ≤ 1 / 1000 := by unfold eps; norm_num
  have h0 := eps_pos
  nlinarith

theorem nineEE : 9 * (E1 * E2) ≤ (30005 / 10000 * eps) ^ 2 := by
  unfold E1 E2 eps; norm_num

theorem sq_of_abs_le {u w : ℝ} (h : |u| ≤ w) : u ^ 2 ≤ w ^ 2 := by
  have := sq_abs u
  have := pow_le_pow_left₀ (abs_nonneg u) h 2
  linarith

/-- two coordinates with margins `(2+s)E`, `(2+t)E`, `s² = a²`, `t² = b²` -/
theorem sum_sq_le {u w s t E : ℝ} (hu : |u| ≤ (2 + s) * E) (hw : |w| ≤ (2 + t) * E) :
    u ^ 2 + w ^ 2 ≤ 9 * (1 + s ^ 2 + t ^ 2) * E ^ 2 := by
  have s1 := sq_of_abs_le hu
  have s2 := sq_of_abs_le hw
  have hp := nine_poly s t
  have e : ((2 + s) * E) ^ 2 + ((2 + t) * E) ^ 2 = ((2 + s) ^ 2 + (2 + t) ^ 2) * E ^ 2 := by ring
  have h9 : ((2 + s) ^ 2 + (2 + t) ^ 2) * E ^ 2 ≤ 9 * (1 + s ^ 2 + t ^ 2) * E ^ 2 :=
    mul_le_mul_of_nonneg_right hp (sq_nonneg _)
  linarith

/-- geometric mean of the two bounds -/
theorem gm_bound {D A X e1 e2 : ℝ} (hD : 0 ≤ D) (hA : 0 < A) (hX : 0 < X) (h1 : 0 ≤ e1) (h2 : 0 ≤ e2)
    (hDA : D ≤ 9 * A ^ 2 * e1 ^ 2) (hDX : D ≤ 9 * X ^ 2 * e2 ^ 2) : D ≤ 9 * (A * X) * (e1 * e2) := by
  have hpos : 0 ≤ 9 * (A * X) * (e1 * e2) := by positivity
  have hsq : D ^ 2 ≤ (9 * (A * X) * (e1 * e2)) ^ 2 := by
    have : D * D ≤ (9 * A ^ 2 * e1 ^ 2) * (9 * X ^ 2 * e2 ^ 2) := mul_le_mul hDA hDX hD (by positivity)
    have e : (9 * (A * X) * (e1 * e2)) ^ 2 = (9 * A ^ 2 * e1 ^ 2) * (9 * X ^ 2 * e2 ^ 2) := by ring
    rw [e, sq]; exact this
  exact (abs_le_of_sq_le_sq' hsq hpos).2

/-- the chord between the direction of `(x',y',1)` and the direction of its clamp `(a,b,1)` -/
theorem clamp_chord (a b x' y' : ℝ) (aa : |a| ≤ 1) (ab : |b| ≤ 1)
    (da : |x' - a| ≤ relMargin a) (db : |y' - b| ≤ relMargin b) :
    2 - 2 * R3.dot (vhat a b) (vhat x' y') ≤ (30005 / 10000 * eps) ^ 2 := by
  have he := eps_pos
  have na := abs_nonneg a
  have nb := abs_nonneg b
  have nx := abs_nonneg x'
  have ny := abs_nonneg y'
  have hE10 := E1_nonneg
  have hE20 := E2_nonneg
  have dA : |x' - a| ≤ (2 + |a|) * E1 := le_trans da (relMargin_le a)
  have dB : |y' - b| ≤ (2 + |b|) * E1 := le_trans db (relMargin_le b)
  have ta : |a| ≤ |x'| + |x' - a| := by
    have := abs_sub_abs_le_abs_sub a x'
    rw [abs_sub_comm a x'] at this; linarith
  have tb : |b| ≤ |y'| + |y' - b| := by
    have := abs_sub_abs_le_abs_sub b y'
    rw [abs_sub_comm b y'] at this; linarith
  have dA3 : |x' - a| ≤ 31 / 10 * eps :=
    le_trans dA (le_trans (mul_le_mul_of_nonneg_right (by linarith) hE10) three_E1)
  have dB3 : |y' - b| ≤ 31 / 10 * eps :=
    le_trans dB (le_trans (mul_le_mul_of_nonneg_right (by linarith) hE10) three_E1)
  have dX : |x' - a| ≤ (2 + |x'|) * E2 :=
    le_trans dA (le_trans (mul_le_mul_of_nonneg_right (by linarith) hE10) (E1_to_E2 |x'| nx))
  have dY : |y' - b| ≤ (2 + |y'|) * E2 :=
    le_trans dB (le_trans (mul_le_mul_of_nonneg_right (by linarith) hE10) (E1_to_E2 |y'| ny))
  have hDA := sum_sq_le dA dB
  have hDX := sum_sq_le dX dY
  rw [sq_abs, sq_abs] at hDA hDX
  have pA := Cover.sqrt_nn_pos a b
  have pX := Cover.sqrt_nn_pos x' y'
  have qA : Real.sqrt (Cover.nn a b) ^ 2 = 1 + a ^ 2 + b ^ 2 := Real.sq_sqrt (Cover.nn_pos a b).le
  have qX : Real.sqrt (Cover.nn x' y') ^ 2 = 1 + x' ^ 2 + y' ^ 2 := Real.sq_sqrt (Cover.nn_pos x' y').le
  rw [← qA] at hDA
  rw [← qX] at hDX
  have hD0 : 0 ≤ (x' - a) ^ 2 + (y' - b) ^ 2 := by positivity
  have hgm := gm_bound hD0 pA pX hE10 hE20 hDA hDX
  have hch := vhat_chord_le a b x' y'
  have hpos : 0 < Real.sqrt (Cover.nn a b) * Real.sqrt (Cover.nn x' y') := mul_pos pA pX
  have h9 : 2 - 2 * R3.dot (vhat a b) (vhat x' y') ≤ 9 * (E1 * E2) := by
    have : (2 - 2 * R3.dot (vhat a b) (vhat x' y')) * (Real.sqrt (Cover.nn a b) * Real.sqrt (Cover.nn x' y'))
        ≤ 9 * (E1 * E2) * (Real.sqrt (Cover.nn a b) * Real.sqrt (Cover.nn x' y')) := by
      have e : 9 * (E1 * E2) * (Real.sqrt (Cover.nn a b) * Real.sqrt (Cover.nn x' y'))
          = 9 * (Real.sqrt (Cover.nn a b) * Real.sqrt (Cover.nn x' y')) * (E1 * E2) := by ring
      rw [e]; linarith
    exact le_of_mul_le_mul_right this hpos
  exact le_trans h9 nineEE

/-- clamping the direction of `P` into the uv rectangle, relative margins: the clamped vector of the same length is within
    `3.0005ε·|P|` -/
theorem clamp_point_rel (r : RRect) (hr : r.OK) (P : R3) (hz : 0 < P.z)
    (h1 : (r.u0 - relMargin r.u0) * P.z ≤ P.x) (h2 : P.x ≤ (r.u1 + relMargin r.u1) * P.z)
    (h3 : (r.v0 - relMargin r.v0) * P.z ≤ P.y) (h4 : P.y ≤ (r.v1 + relMargin r.v1) * P.z) :
    ∃ (q' P' : R3) (lam : ℝ), InCell r q' ∧ 0 < lam ∧ P' = R3.smul lam q' ∧ P'.norm2 = P.norm2 ∧
      (R3.sub P P').norm2 ≤ (30005 / 10000 * eps) ^ 2 * P.norm2 := by
  have ex : P.x = P.x / P.z * P.z := by field_simp
  have ey : P.y = P.y / P.z * P.z := by field_simp
  have bx1 : r.u0 - relMargin r.u0 ≤ P.x / P.z := by rw [le_div_iff₀ hz]; exact h1
  have bx2 : P.x / P.z ≤ r.u1 + relMargin r.u1 := by rw [div_le_iff₀ hz]; exact h2
  have by1 : r.v0 - relMargin r.v0 ≤ P.y / P.z := by rw [le_div_iff₀ hz]; exact h3
  have by2 : P.y / P.z ≤ r.v1 + relMargin r.v1 := by rw [div_le_iff₀ hz]; exact h4
  obtain ⟨a1, a2, da⟩ := clamp_coord r.u0 r.u1 (P.x / P.z) hr.u_lt bx1 bx2
  obtain ⟨b1, b2, db⟩ := clamp_coord r.v0 r.v1 (P.y / P.z) hr.v_lt by1 by2
  generalize max r.u0 (min (P.x / P.z) r.u1) = a at a1 a2 da
  generalize max r.v0 (min (P.y / P.z) r.v1) = b at b1 b2 db
  generalize P.x / P.z = x' at ex da bx1 bx2
  generalize P.y / P.z = y' at ey db by1 by2
  have aa : |a| ≤ 1 := abs_le.mpr ⟨by have := hr.u0_ge; linarith, by have := hr.u1_le; linarith⟩
  have ab : |b| ≤ 1 := abs_le.mpr ⟨by have := hr.v0_ge; linarith, by have := hr.v1_le; linarith⟩
  have hchord := clamp_chord a b x' y' aa ab da db
  have hnpos : 0 < Real.sqrt (1 + x' ^ 2 + y' ^ 2) := Real.sqrt_pos.mpr (by positivity)
  have hlampos : 0 < P.z * Real.sqrt (1 + x' ^ 2 + y' ^ 2) := mul_pos hz hnpos
  have hP : P = R3.smul (P.z * Real.sqrt (1 + x' ^ 2 + y' ^ 2)) (vhat x' y') := by
    unfold vhat R3.smul
    ext
    · show P.x = P.z * Real.sqrt (1 + x' ^ 2 + y' ^ 2) * (1 / Real.sqrt (1 + x' ^ 2 + y' ^ 2) * x')
      rw [ex]; field_simp
    · show P.y = P.z * Real.sqrt (1 + x' ^ 2 + y' ^ 2) * (1 / Real.sqrt (1 + x' ^ 2 + y' ^ 2) * y')
      rw [ey]; field_simp
    · show P.z = P.z * Real.sqrt (1 + x' ^ 2 + y' ^ 2) * (1 / Real.sqrt (1 + x' ^ 2 + y' ^ 2) * 1)
      field_simp
  generalize P.z * Real.sqrt (1 + x' ^ 2 + y' ^ 2) = lam at hP hlampos
  have hPn : P.norm2 = lam ^ 2 := by
    rw [hP, R3.norm2_smul, Cover.vhat_norm2]; ring
  refine ⟨vhat a b, R3.smul lam (vhat a b), lam, S2Proofs.C12Dist.vhat_inCell r hr a b ⟨a1, a2⟩ ⟨b1, b2⟩, hlampos, rfl, ?_, ?_⟩
  · rw [R3.norm2_smul, Cover.vhat_norm2, hPn]; ring
  · have e : R3.sub P (R3.smul lam (vhat a b)) = R3.smul lam (R3.sub (vhat x' y') (vhat a b)) := by
      conv_lhs => rw [hP]
      unfold R3.sub R3.smul; ext <;> simp <;> ring
    rw [e, R3.norm2_smul]
    have hd : (R3.sub (vhat x' y') (vhat a b)).norm2 = 2 - 2 * R3.dot (vhat a b) (vhat x' y') := by
      have := S2Proofs.C12Dist.dist2_eq (vhat x' y') (vhat a b)
      unfold S2Proofs.C12Dist.dist2 at this
      rw [this, Cover.vhat_norm2, Cover.vhat_norm2]
      unfold R3.dot; ring
    rw [hd, hPn]
    have hl2 : 0 ≤ lam ^ 2 := sq_nonneg _
    calc lam ^ 2 * (2 - 2 * R3.dot (vhat a b) (vhat x' y')) ≤ lam ^ 2 * (30005 / 10000 * eps) ^ 2 :=
          mul_le_mul_of_nonneg_left hchord hl2
      _ = (30005 / 10000 * eps) ^ 2 * lam ^ 2 := by ring

/-- the budget for `Δ ≤ 3.001ε`: costs `6.01ε√R + 43ε²` -/
theorem glue_budget2 {s Δ r R : ℝ} (hs0 : 0 ≤ s) (hΔ0 : 0 ≤ Δ) (hΔ : Δ ≤ 3001 / 1000 * eps) (hr0 : 0 ≤ r) (hr : r ^ 2 = R)
    (hR1 : R ≤ 1)
    (hN : s ^ 2 * (1 + uR) ^ 5 + 4 * eR ≤ R * (1 + 96 / 10 * eps) + 201 / 100 * eps * r + 22 * eps ^ 2) :
    (s + Δ) ^ 2 * (1 + uR) ^ 5 + 4 * eR ≤ R * (1 + 96 / 10 * eps) + 81 / 10 * eps * r + 90 * eps ^ 2 := by
  have he := eps_pos
  have heR := eR_nonneg
  have hu := uR_nonneg
  have hk1 : 1 ≤ (1 + uR) ^ 5 := one_le_pow₀ (by linarith)
  have hk2 : (1 + uR) ^ 5 ≤ 1 + 1 / 10 ^ 6 := by unfold uR; norm_num
  have hr1 : r ≤ 1 := by nlinarith
  set T := r * (1 + 48 / 10 * eps) + 561 / 100 * eps with hT
  have hT0 : 0 ≤ T := by positivity
  have hsT : s ≤ T := by
    have h1 : s ^ 2 ≤ s ^ 2 * (1 + uR) ^ 5 := by nlinarith [sq_nonneg s]
    have h2 : R * (1 + 96 / 10 * eps) + 201 / 100 * eps * r + 22 * eps ^ 2 ≤ T ^ 2 := by
      rw [hT, ← hr]
      have : (0 : ℝ) ≤ eps * r := by positivity
      have e2 : (0 : ℝ) ≤ eps ^ 2 := by positivity
      have e3 : (0 : ℝ) ≤ r ^ 2 * eps ^ 2 := by positivity
      nlinarith
    have h3 : s ^ 2 ≤ T ^ 2 := by linarith
    exact abs_le_of_sq_le_sq' h3 hT0 |>.2
  set D0 := 3001 / 1000 * eps with hD0
  have hD00 : 0 ≤ D0 := by positivity
  have h1 : s * Δ ≤ T * D0 := mul_le_mul hsT hΔ hΔ0 hT0
  have h2 : Δ ^ 2 ≤ D0 ^ 2 := pow_le_pow_left₀ hΔ0 hΔ 2
  have hadd : 0 ≤ 2 * (s * Δ) + Δ ^ 2 := by positivity
  have h3 : (2 * (s * Δ) + Δ ^ 2) * (1 + uR) ^ 5 ≤ (2 * (T * D0) + D0 ^ 2) * (1 + 1 / 10 ^ 6) :=
    mul_le_mul (by linarith) hk2 (by linarith) (by positivity)
  have h4 : (2 * (T * D0) + D0 ^ 2) * (1 + 1 / 10 ^ 6) ≤ 609 / 100 * eps * r + 68 * eps ^ 2 := by
    rw [hT, hD0]
    have e1 : (0 : ℝ) ≤ eps * r := by positivity
    have e2 : (0 : ℝ) ≤ eps ^ 2 := by positivity
    have e3 : eps ^ 2 * r ≤ eps ^ 2 := by nlinarith
    have e4 : eps ≤ 1 / 10 ^ 6 := by unfold eps; norm_num
    have e5 : eps * (eps * r) ≤ 1 / 10 ^ 6 * (eps * r) := mul_le_mul_of_nonneg_right e4 e1
    nlinarith
  have e : (s + Δ) ^ 2 * (1 + uR) ^ 5 = s ^ 2 * (1 + uR) ^ 5 + (2 * (s * Δ) + Δ ^ 2) * (1 + uR) ^ 5 := by ring
  rw [e]
  linarith

/-- **the chain for a probe accepted with the relative margins** -/
theorem contains_chain_rel (c : Cell) (ctx : CapCtx c) (R : ℝ)
    (h0 : val (Chord.between (capCenter c) (vertex c 0)) ≤ R) (h1 : val (Chord.between (capCenter c) (vertex c 1)) ≤ R)
    (h2 : val (Chord.between (capCenter c) (vertex c 2)) ≤ R) (h3 : val (Chord.between (capCenter c) (vertex c 3)) ≤ R)
    (hR0 : 0 ≤ R) (hR1 : R ≤ 17 / 20)
    (P : R3) (hP : |P.norm2 - 1| ≤ NU * eps) (hz : 0 < P.z)
    (c1 : ((rectOf c).u0 - relMargin (rectOf c).u0) * P.z ≤ P.x) (c2 : P.x ≤ ((rectOf c).u1 + relMargin (rectOf c).u1) * P.z)
    (c3 : ((rectOf c).v0 - relMargin (rectOf c).v0) * P.z ≤ P.y) (c4 : P.y ≤ ((rectOf c).v1 + relMargin (rectOf c).v1) * P.z) :
    S2Proofs.C12Dist.dist2 (uvwR c.face (ofV (capCenter c))) P * (1 + uR) ^ 5 + 4 * eR
      ≤ R * (1 + 96 / 10 * eps) + 81 / 10 * eps * Real.sqrt R + 90 * eps ^ 2 := by
  have he := eps_pos
  obtain ⟨q', P', lam, hq, hlam, hPq, hn, hd⟩ := clamp_point_rel (rectOf c) ctx.rOK P hz c1 c2 c3 c4
  have hP' : |P'.norm2 - 1| ≤ NU * eps := by rw [hn]; exact hP
  have key := cell_chain c ctx R h0 h1 h2 h3 hR0 hR1 P' q' lam hq hP' hlam hPq
  unfold capNeed at key
  set C' := uvwR c.face (ofV (capCenter c)) with hC'
  set s := (R3.sub C' P').norm with hs
  set Δ := (R3.sub P P').norm with hΔ
  have hs2 : S2Proofs.C12Dist.dist2 C' P' = s ^ 2 := by
    unfold S2Proofs.C12Dist.dist2; rw [hs, R3.norm_sq]
  rw [hs2] at key
  have hPn : P.norm2 ≤ 1 + NU * eps := by have := (abs_le.mp hP).2; linarith
  have hΔb : Δ ≤ 3001 / 1000 * eps := by
    apply R3.norm_le_of_sq (by positivity)
    have h1 : (30005 / 10000 * eps) ^ 2 * P.norm2 ≤ (30005 / 10000 * eps) ^ 2 * (1 + NU * eps) :=
      mul_le_mul_of_nonneg_left hPn (by positivity)
    have h2 : (30005 / 10000 * eps) ^ 2 * (1 + NU * eps) ≤ (3001 / 1000 * eps) ^ 2 := by
      unfold NU eps; norm_num
    linarith
  have htri : (R3.sub C' P).norm ≤ s + Δ := by
    have e : R3.sub C' P = R3.add (R3.sub C' P') (R3.sub P' P) := by
      unfold R3.sub R3.add; ext <;> simp
    rw [e]
    have := R3.norm_add_le (R3.sub C' P') (R3.sub P' P)
    rw [R3.norm_sub_comm P' P] at this
    exact this
  have hD : S2Proofs.C12Dist.dist2 C' P ≤ (s + Δ) ^ 2 := by
    unfold S2Proofs.C12Dist.dist2; exact R3.sq_le_of_norm_le htri
  have hk0 : (0 : ℝ) ≤ (1 + uR) ^ 5 := pow_nonneg (by have := uR_nonneg; linarith) 5
  have hmul : S2Proofs.C12Dist.dist2 C' P * (1 + uR) ^ 5 ≤ (s + Δ) ^ 2 * (1 + uR) ^ 5 :=
    mul_le_mul_of_nonneg_right hD hk0
  have hR1' : R ≤ 1 := by linarith
  have hb := glue_budget2 (R3.norm_nonneg _) (R3.norm_nonneg _) hΔb (Real.sqrt_nonneg R) (Real.sq_sqrt hR0) hR1' key
  linarith

end S2Proofs.C12Cap
