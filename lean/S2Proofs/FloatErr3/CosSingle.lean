/-
  FloatErr3.CosSingle — ingredients of the cosine stage of `CompareDistance(x, y, r)` for limits `r ≤ 90°`
  (`0 ≤ r2 ≤ 2`); the stage theorem for all limits is in `FloatErr3/CosFixed.lean`.

  The float `cosR = fl(1 − fl(0.5·r2))`: `0.5·r2` is exact unless r2 is subnormal; the subtraction has relative
  error u; for `r2 ≥ 1` the result is exact and an integer multiple of u.  The code's `cosRError = 2·dblError·cosR`
  leaves `u·cosR` of slack, which pays the second-order terms of `cosDistance` when `cosR ≥ 2^-45`; below that the
  half-ulp / integrality argument of `dot_tiny` applies.
  (Before repair D54 `cosRError` was NEGATIVE for r2 > 2 — the code had no `math.Abs` — and the statement was false,
  see `Properties/C02_DistanceExact.lean`.)
-/
import S2Proofs.FloatErr3.CosStage

set_option linter.unusedSimpArgs false
set_option linter.unusedVariables false

namespace S2Proofs.FE3
open S2 S2.Exact S2.Pred S2Proofs.F64Order S2Proofs.PredLemmas S2Proofs.FloatErr

theorem nearestR {r : F64} {Q : ℚ} (h : F64Round.IsRound r Q) (hr : Fin r) (y : F64) :
    |val r - (Q : ℝ)| ≤ |val y - (Q : ℝ)| := by
  have := h.nearest hr y
  have h2 : ((|F64Round.val r - Q| : ℚ) : ℝ) ≤ ((|F64Round.val y - Q| : ℚ) : ℝ) := by exact_mod_cast this
  push_cast at h2
  rw [val_cast, val_cast] at h2
  exact h2

theorem fin_one : Fin F64.one := by decide
theorem val_one : val F64.one = 1 := by
  have h : toInt F64.one = 2 ^ 1074 := F64Round.toInt_one
  unfold val; rw [h]; push_cast
  exact div_self (by positivity)

theorem sub_units_exact {x y : F64} (hx : Fin x) (hy : Fin y) {n m : ℤ}
    (ex : toInt x = n * 2 ^ 1021) (ey : toInt y = m * 2 ^ 1021) (hsm : |val x - val y| ≤ 1 / 2 ^ 43) :
    Fin (x - y) ∧ toInt (x - y) = (n - m) * 2 ^ 1021 := by
  have hN : (n - m).natAbs < 2 ^ 53 := by
    have e1 : val x - val y = ((n - m : ℤ) : ℝ) / 2 ^ 53 := by
      rw [val_of_units ex, val_of_units ey]; push_cast; ring
    rw [e1, abs_div, abs_of_pos (by positivity : (0 : ℝ) < 2 ^ 53)] at hsm
    have h2 : |((n - m : ℤ) : ℝ)| ≤ 2 ^ 10 := by
      rw [div_le_iff₀ (by positivity)] at hsm
      have : (1 : ℝ) / 2 ^ 43 * 2 ^ 53 = 2 ^ 10 := by norm_num
      linarith
    have h4 : |n - m| ≤ 2 ^ 10 := by exact_mod_cast h2
    have : ((n - m).natAbs : ℤ) = |n - m| := Int.natCast_natAbs _
    omega
  have hrep : F64Round.Rep ((n - m) * 2 ^ 1021 : ℤ).natAbs := by
    refine ⟨(n - m).natAbs, 1021, hN, ?_⟩
    rw [Int.natAbs_mul]; congr 1
  have hlt : ((n - m) * 2 ^ 1021 : ℤ).natAbs < 2 ^ 2098 := by
    rw [Int.natAbs_mul]
    have e : ((2 : ℤ) ^ 1021).natAbs = 2 ^ 1021 := by simp [Int.natAbs_pow]
    rw [e]
    calc (n - m).natAbs * 2 ^ 1021 < 2 ^ 53 * 2 ^ 1021 := Nat.mul_lt_mul_of_pos_right hN (Nat.two_pow_pos _)
      _ = 2 ^ 1074 := by rw [← Nat.pow_add]
      _ < 2 ^ 2098 := Nat.pow_lt_pow_right (by norm_num) (by norm_num)
  have hQ : (F64Round.val x - F64Round.val y) * F64Round.U = (((n - m) * 2 ^ 1021 : ℤ) : ℚ) := by
    rw [sub_mul, F64Round.val_mul_U, F64Round.val_mul_U, ex, ey]; push_cast; ring
  exact (F64Round.isRound_sub hx hy).exact_of_rep _ hrep hlt hQ

/-! ### `0.5·r2` -/

/-- `fl(0.5·r2)`: exact, or r2 is subnormal-small and the error is at most `2^-1075` -/
theorem half_mul_spec (r2 : F64) (hr : Fin r2) :
    Fin (F64.half * r2) ∧
    (val (F64.half * r2) = val r2 / 2 ∧ 2 * toInt (F64.half * r2) = toInt r2 ∨
     |val r2| ≤ 1 / 2 ^ 1021 ∧ |val (F64.half * r2) - val r2 / 2| ≤ 1 / 2 ^ 1075) := by
  by_cases h2 : 2 ≤ r2.expField
  · obtain ⟨hf, he⟩ := F64Round.half_exact hr (F64Round.mag_even_of_expField h2)
    refine ⟨hf, Or.inl ⟨?_, he⟩⟩
    show val (F64.mul F64.half r2) = _
    unfold val
    have : (toInt r2 : ℝ) = 2 * (toInt (F64.mul F64.half r2) : ℝ) := by exact_mod_cast he.symm
    rw [this]; ring
  · have hm : S2Proofs.F64Inj.mag r2 < 2 ^ 53 := by
      have e : S2Proofs.F64Inj.mag r2 = r2.mant * 2 ^ (r2.expField - 1) := rfl
      have e0 : r2.expField - 1 = 0 := by omega
      rw [e, e0]; simpa using F64Round.mant_lt r2
    have hsmall : |val r2| ≤ 1 / 2 ^ 1021 := by
      have h1 : (toInt r2).natAbs < 2 ^ 53 := by rw [F64Round.natAbs_toInt]; exact hm
      have h2' : |toInt r2| < 2 ^ 53 := by
        have : ((toInt r2).natAbs : ℤ) = |toInt r2| := Int.natCast_natAbs _
        omega
      have h3 : |(toInt r2 : ℝ)| < 2 ^ 53 := by exact_mod_cast h2'
      unfold val
      rw [abs_div, abs_of_pos (by positivity : (0 : ℝ) < 2 ^ 1074)]
      have e : (2 : ℝ) ^ 1074 = 2 ^ 53 * 2 ^ 1021 := by rw [← pow_add]
      rw [e, div_le_div_iff₀ (by positivity) (by positivity)]
      have hB : (0 : ℝ) < 2 ^ 1021 := by positivity
      generalize (2 : ℝ) ^ 1021 = B at *
      have := mul_lt_mul_of_pos_right h3 hB
      linarith
    have hr' := F64Round.isRound_mul F64Round.fin_half hr
    have hQ : |((F64Round.val F64.half * F64Round.val r2 : ℚ) : ℝ)| ≤ 1 / 2 ^ 1021 := by
      push_cast; rw [val_cast, val_cast, val_half, abs_mul]
      have : |(1 : ℝ) / 2| = 1 / 2 := by norm_num
      rw [this]
      have := abs_nonneg (val r2)
      linarith
    obtain ⟨hf, he⟩ := ulpR hr' 1021 le_rfl hQ
    refine ⟨hf, Or.inr ⟨hsmall, ?_⟩⟩
    push_cast at he
    rw [val_cast, val_cast, val_half] at he
    have e : (1 : ℝ) / 2 * val r2 = val r2 / 2 := by ring
    rw [e] at he
    exact he

/-! ### `cosR` -/

/-- the float `cos r = fl(1 − fl(0.5·r2))` of the code for `0 ≤ r2 ≤ 2` against the exact `1 − r2/2` -/
theorem cosR_side (r2 : F64) (hr : Fin r2) (h0 : 0 ≤ val r2) (h2 : val r2 ≤ 2) :
    Fin (F64.one - F64.half * r2) ∧ CosRSide (val (F64.one - F64.half * r2)) (1 - val r2 / 2) := by
  obtain ⟨fh, hh⟩ := half_mul_spec r2 hr
  have hR0 : 0 ≤ 1 - val r2 / 2 := by linarith
  have hR1 : 1 - val r2 / 2 ≤ 1 := by linarith
  have rs := F64Round.isRound_sub fin_one fh
  have hq : ((F64Round.val F64.one - F64Round.val (F64.half * r2) : ℚ) : ℝ) = 1 - val (F64.half * r2) := by
    push_cast; rw [val_cast, val_cast, val_one]
  rcases hh with ⟨ev, ei⟩ | ⟨hsm, herr⟩
  · -- exact halving
    have m : |val F64.one - val (F64.half * r2)| ≤ 4 := by
      rw [val_one, ev]; exact abs_le.mpr ⟨by linarith, by linarith⟩
    obtain ⟨fc, rc, _⟩ := sub_step stdModel fin_one fh m (by norm_num)
    unfold Rnd at rc
    rw [val_one, ev, add_zero, abs_of_nonneg hR0] at rc
    have hu : uR = 1 / 2 ^ 53 := rfl
    have hρ : |val (F64.one - F64.half * r2) - (1 - val r2 / 2)| ≤ (1 - val r2 / 2) / 2 ^ 53 := by
      rw [hu] at rc
      have : (1 : ℝ) / 2 ^ 53 * (1 - val r2 / 2) = (1 - val r2 / 2) / 2 ^ 53 := by ring
      linarith
    refine ⟨fc, hR0, hR1, hρ, ?_⟩
    intro hsmall
    -- r2 ≥ 1, everything is a multiple of 2^-53 and the subtraction is exact
    obtain ⟨ρ1, ρ2⟩ := abs_le.mp hρ
    have hRs : 1 - val r2 / 2 ≤ 1 / 2 ^ 44 := by
      have : (1 - val r2 / 2) * (1 - 1 / 2 ^ 53) ≤ 1 / 2 ^ 45 := by
        have : (1 - val r2 / 2) / 2 ^ 53 = (1 - val r2 / 2) * (1 / 2 ^ 53) := by ring
        linarith
      nlinarith
    have hr1 : 1 ≤ val r2 := by
      have : (1 : ℝ) / 2 ^ 44 ≤ 1 / 2 := by norm_num
      linarith
    have hg : 1 / 2 ≤ |val (F64.half * r2)| := by
      rw [ev, abs_of_nonneg (by linarith)]; linarith
    obtain ⟨n, en⟩ := units_of_half_le hg
    have e1 : toInt F64.one = (2 ^ 53 : ℤ) * 2 ^ 1021 := by
      rw [F64Round.toInt_one, ← pow_add]
    have hsm' : |val F64.one - val (F64.half * r2)| ≤ 1 / 2 ^ 43 := by
      rw [val_one, ev, abs_of_nonneg hR0]
      have : (1 : ℝ) / 2 ^ 44 ≤ 1 / 2 ^ 43 := by norm_num
      linarith
    obtain ⟨_, et⟩ := sub_units_exact fin_one fh e1 en hsm'
    have hv := val_of_units et
    have hvh := val_of_units en
    refine ⟨?_, 2 ^ 53 - n, hv⟩
    rw [hv, ← ev, hvh]; push_cast
    field_simp
    norm_num
  · -- subnormal r2: cosR is within 2^-1020 of 1
    have hh0 : |val (F64.half * r2)| ≤ 1 / 2 ^ 1020 := by
      have h1 := abs_sub_abs_le_abs_sub (val (F64.half * r2)) (val r2 / 2)
      have h2' : |val r2 / 2| ≤ 1 / 2 ^ 1021 := by
        rw [abs_div, abs_of_pos (by norm_num : (0 : ℝ) < 2)]
        have := abs_nonneg (val r2)
        linarith
      have e1 : (1 : ℝ) / 2 ^ 1075 ≤ 1 / 2 ^ 1021 :=
        one_div_le_one_div_of_le (by positivity) (pow_le_pow_right₀ (by norm_num) (by norm_num))
      have e2 : (1 : ℝ) / 2 ^ 1021 + 1 / 2 ^ 1021 = 1 / 2 ^ 1020 := by
        have : (2 : ℝ) ^ 1021 = 2 ^ 1020 * 2 := pow_succ 2 1020
        rw [this]
        have hB : (0 : ℝ) < 2 ^ 1020 := by positivity
        generalize (2 : ℝ) ^ 1020 = B at *
        field_simp; ring
      linarith
    have e3 : (1 : ℝ) / 2 ^ 1020 ≤ 1 / 2 ^ 100 :=
      one_div_le_one_div_of_le (by positivity) (pow_le_pow_right₀ (by norm_num) (by norm_num))
    have e4 : (1 : ℝ) / 2 ^ 1021 ≤ 1 / 2 ^ 100 :=
      one_div_le_one_div_of_le (by positivity) (pow_le_pow_right₀ (by norm_num) (by norm_num))
    have m : |val F64.one - val (F64.half * r2)| ≤ 4 := by
      rw [val_one]
      obtain ⟨a, b⟩ := abs_le.mp hh0
      have : (1 : ℝ) / 2 ^ 100 ≤ 1 := by norm_num
      exact abs_le.mpr ⟨by linarith, by linarith⟩
    obtain ⟨fc, _, _⟩ := sub_step stdModel fin_one fh m (by norm_num)
    have hn := nearestR rs fc F64.one
    rw [hq, val_one] at hn
    have hn' : |val (F64.one - F64.half * r2) - (1 - val (F64.half * r2))| ≤ 1 / 2 ^ 1020 := by
      have : |(1 : ℝ) - (1 - val (F64.half * r2))| = |val (F64.half * r2)| := by congr 1; ring
      rw [this] at hn
      exact le_trans hn hh0
    obtain ⟨a1, a2⟩ := abs_le.mp hn'
    obtain ⟨b1, b2⟩ := abs_le.mp hh0
    have hs0 := abs_nonneg (val r2)
    have hv2 : val r2 ≤ 1 / 2 ^ 100 := by have := le_abs_self (val r2); linarith
    generalize (1 : ℝ) / 2 ^ 1020 = ε at *
    refine ⟨fc, hR0, hR1, ?_, ?_⟩
    · refine abs_le.mpr ⟨?_, ?_⟩
      · have : (1 - val r2 / 2) / 2 ^ 53 ≥ 1 / 2 ^ 54 - 1 / 2 ^ 100 := by
          have : (1 - val r2 / 2) / 2 ^ 53 = (1 - val r2 / 2) * (1 / 2 ^ 53) := by ring
          rw [this]; nlinarith
        have : (2 : ℝ) * (1 / 2 ^ 100) ≤ 1 / 2 ^ 54 - 1 / 2 ^ 100 := by norm_num
        linarith
      · have : (1 - val r2 / 2) / 2 ^ 53 ≥ 1 / 2 ^ 54 - 1 / 2 ^ 100 := by
          have : (1 - val r2 / 2) / 2 ^ 53 = (1 - val r2 / 2) * (1 / 2 ^ 53) := by ring
          rw [this]; nlinarith
        have : (2 : ℝ) * (1 / 2 ^ 100) ≤ 1 / 2 ^ 54 - 1 / 2 ^ 100 := by norm_num
        linarith
    · intro hsmall
      exfalso
      have : (1 : ℝ) / 2 ^ 45 + 2 * (1 / 2 ^ 100) < 1 := by norm_num
      linarith

/-! ### the computed error bound -/

theorem singleErr (c cR : F64) (hc : Fin c) (hb : |val c| ≤ 2) (hcR : Fin cR) (h0 : 0 ≤ val cR) (h1 : val cR ≤ 2) :
    Fin ((cosErrMul * F64.abs c + cosErrAdd) + twoDblError * cR) ∧
    SingleErr (val c) (val cR) (val ((cosErrMul * F64.abs c + cosErrAdd) + twoDblError * cR)) := by
  obtain ⟨fA, lA, uA⟩ := cosSideErr c hc hb
  have hT := twoDblError_val
  have hT0 : 0 ≤ val twoDblError * val cR := by rw [hT]; exact mul_nonneg (by norm_num) h0
  have m1 : |val twoDblError * val cR| ≤ 1 := by
    rw [abs_of_nonneg hT0, hT]; nlinarith
  obtain ⟨fm, rm, _⟩ := mul_step stdModel twoDblError_fin hcR m1 (by norm_num)
  unfold Rnd at rm
  rw [abs_of_nonneg hT0] at rm
  obtain ⟨rm1, rm2⟩ := abs_le.mp rm
  have he := eR_small
  have he0 := eR_nonneg
  have hu : uR = 1 / 2 ^ 53 := rfl
  have hcA := abs_nonneg (val c)
  have pA : 3 / 2 ^ 54 - 8 / 2 ^ 106 ≤ val (cosErrMul * F64.abs c + cosErrAdd) := by
    have : 0 ≤ (19 / 2 ^ 54 - 70 / 2 ^ 106) * |val c| := mul_nonneg (by norm_num) hcA
    linarith
  rw [hu, hT] at rm1 rm2
  have hsum0 : 0 ≤ val (cosErrMul * F64.abs c + cosErrAdd) + val (twoDblError * cR) := by
    have : (0 : ℝ) ≤ 3 / 2 ^ 54 - 8 / 2 ^ 106 - 1 / 2 ^ 200 := by norm_num
    nlinarith
  have m2 : |val (cosErrMul * F64.abs c + cosErrAdd) + val (twoDblError * cR)| ≤ 1 := by
    rw [abs_of_nonneg hsum0]
    have : (1 : ℝ) / 2 ^ 40 ≤ 1 / 2 := by norm_num
    nlinarith
  obtain ⟨fs, rs, _⟩ := add_step stdModel fA fm m2 (by norm_num)
  unfold Rnd at rs
  rw [abs_of_nonneg hsum0, add_zero, hu] at rs
  obtain ⟨rs1, _⟩ := abs_le.mp rs
  refine ⟨fs, ?_⟩
  unfold SingleErr
  nlinarith

theorem singleErr_le (c cR : F64) (hc : Fin c) (hb : |val c| ≤ 2) (hcR : Fin cR) (h0 : 0 ≤ val cR) (h1 : val cR ≤ 2) :
    val ((cosErrMul * F64.abs c + cosErrAdd) + twoDblError * cR) ≤ 1 / 2 ^ 38 := by
  obtain ⟨fA, lA, uA⟩ := cosSideErr c hc hb
  have hT := twoDblError_val
  have hT0 : 0 ≤ val twoDblError * val cR := by rw [hT]; exact mul_nonneg (by norm_num) h0
  have m1 : |val twoDblError * val cR| ≤ 1 := by
    rw [abs_of_nonneg hT0, hT]; nlinarith
  obtain ⟨fm, rm, _⟩ := mul_step stdModel twoDblError_fin hcR m1 (by norm_num)
  unfold Rnd at rm
  rw [abs_of_nonneg hT0] at rm
  obtain ⟨rm1, rm2⟩ := abs_le.mp rm
  have he := eR_small
  have he0 := eR_nonneg
  have hu : uR = 1 / 2 ^ 53 := rfl
  have hcA := abs_nonneg (val c)
  have pA : 3 / 2 ^ 54 - 8 / 2 ^ 106 ≤ val (cosErrMul * F64.abs c + cosErrAdd) := by
    have : 0 ≤ (19 / 2 ^ 54 - 70 / 2 ^ 106) * |val c| := mul_nonneg (by norm_num) hcA
    linarith
  rw [hu, hT] at rm1 rm2
  have hsum0 : 0 ≤ val (cosErrMul * F64.abs c + cosErrAdd) + val (twoDblError * cR) := by
    have : (0 : ℝ) ≤ 3 / 2 ^ 54 - 8 / 2 ^ 106 - 1 / 2 ^ 200 := by norm_num
    nlinarith
  have m2 : |val (cosErrMul * F64.abs c + cosErrAdd) + val (twoDblError * cR)| ≤ 1 := by
    rw [abs_of_nonneg hsum0]
    have : (1 : ℝ) / 2 ^ 40 ≤ 1 / 2 := by norm_num
    nlinarith
  obtain ⟨fs, rs, _⟩ := add_step stdModel fA fm m2 (by norm_num)
  unfold Rnd at rs
  rw [abs_of_nonneg hsum0, add_zero, hu] at rs
  obtain ⟨_, rs2⟩ := abs_le.mp rs
  nlinarith

/-! ### the exact comparison in real terms -/

theorem scaleZ_cast : (((scale : ℕ) : ℤ) : ℝ) = 2 ^ 1074 := by
  have := scale_cast
  push_cast at this ⊢
  exact_mod_cast this

/-- `exactCompareDistance` is the sign of `cos r − cos XY` -/
theorem exact_single_rsgn {x y : V3} (hx : Normed x) (hy : Normed y) (r2 : F64) (hr : Fin r2) :
    exactCompareDistance x y r2 = rsgn ((1 - val r2 / 2) - dotR x y / (normR x * normR y)) := by
  have hfin : (!r2.isFinite) = false := by
    unfold F64Order.Fin at hr
    simp [F64.isFinite, hr]
  unfold exactCompareDistance
  rw [hfin]
  simp only [Bool.false_eq_true, if_false]
  have hS : (0 : ℝ) < 2 ^ 1074 := by positivity
  have px := hx.normR_pos
  have py := hy.normR_pos
  have hSz : (0 : ℤ) < ((scale : ℕ) : ℤ) := by unfold scale; positivity
  rw [C02.exactCompareDistance_true_distance ((scale : ℕ) : ℤ) hSz (ofV3 x) (ofV3 y) (toInt r2)
    (normR x * 2 ^ 1074) (normR y * 2 ^ 1074) (mul_pos px hS) (mul_pos py hS)
    (by rw [mul_pow, normR_sq, ofV3_norm2_cast]) (by rw [mul_pow, normR_sq, ofV3_norm2_cast])]
  congr 1
  rw [ofV3_dot_cast]
  push_cast
  rw [scale_cast]
  unfold val
  generalize (2 : ℝ) ^ 1074 = S at *
  field_simp

end S2Proofs.FE3
