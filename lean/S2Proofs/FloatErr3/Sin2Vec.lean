/-
  FloatErr3.Sin2Vec — pure-ℝ vector part of the error analysis of `sin2Distance`:
  the float evaluation of `n = fl( fl(x−y) × fl(x+y) )` against `N = (x−y)×(x+y)`, in vector norm.

  `NB v c`  :=  `‖v‖ ≤ c`  stated without square roots (`0 ≤ c ∧ v₁²+v₂²+v₃² ≤ c²`).
-/
import Mathlib.Tactic.Ring
import Mathlib.Tactic.Linarith
import Mathlib.Tactic.Positivity
import Mathlib.Tactic.NormNum
import Mathlib.Data.Real.Basic
import S2Proofs.FloatErr.StableCore

namespace S2Proofs.FE3
open S2Proofs.FloatErr

/-- `‖(v1,v2,v3)‖ ≤ c`, without square roots -/
def NB (v1 v2 v3 c : ℝ) : Prop := 0 ≤ c ∧ v1 ^ 2 + v2 ^ 2 + v3 ^ 2 ≤ c ^ 2

theorem NB.mono {v1 v2 v3 c c' : ℝ} (h : NB v1 v2 v3 c) (hc : c ≤ c') : NB v1 v2 v3 c' :=
  ⟨le_trans h.1 hc, le_trans h.2 (pow_le_pow_left₀ h.1 hc 2)⟩

theorem NB.congr {v1 v2 v3 w1 w2 w3 c c' : ℝ} (h : NB w1 w2 w3 c') (e1 : v1 = w1) (e2 : v2 = w2) (e3 : v3 = w3)
    (ec : c = c') : NB v1 v2 v3 c := by
  subst e1 e2 e3 ec; exact h

theorem NB.abs {v1 v2 v3 c : ℝ} (h : NB v1 v2 v3 c) : NB |v1| |v2| |v3| c := by
  refine ⟨h.1, ?_⟩
  simp only [sq_abs]; exact h.2

theorem NB.neg {v1 v2 v3 c : ℝ} (h : NB v1 v2 v3 c) : NB (-v1) (-v2) (-v3) c := by
  refine ⟨h.1, ?_⟩
  simp only [neg_sq]; exact h.2

theorem NB.smul {v1 v2 v3 c k : ℝ} (h : NB v1 v2 v3 c) (hk : 0 ≤ k) : NB (k * v1) (k * v2) (k * v3) (k * c) := by
  refine ⟨mul_nonneg hk h.1, ?_⟩
  have e : (k * v1) ^ 2 + (k * v2) ^ 2 + (k * v3) ^ 2 = k ^ 2 * (v1 ^ 2 + v2 ^ 2 + v3 ^ 2) := by ring
  rw [e, mul_pow]
  exact mul_le_mul_of_nonneg_left h.2 (by positivity)

theorem NB.of_abs_le {v1 v2 v3 w1 w2 w3 c : ℝ} (h : NB w1 w2 w3 c)
    (h1 : |v1| ≤ w1) (h2 : |v2| ≤ w2) (h3 : |v3| ≤ w3) : NB v1 v2 v3 c := by
  refine ⟨h.1, le_trans ?_ h.2⟩
  have s1 : v1 ^ 2 ≤ w1 ^ 2 := by rw [← sq_abs v1]; exact pow_le_pow_left₀ (abs_nonneg _) h1 2
  have s2 : v2 ^ 2 ≤ w2 ^ 2 := by rw [← sq_abs v2]; exact pow_le_pow_left₀ (abs_nonneg _) h2 2
  have s3 : v3 ^ 2 ≤ w3 ^ 2 := by rw [← sq_abs v3]; exact pow_le_pow_left₀ (abs_nonneg _) h3 2
  linarith

theorem NB.dot_le {v1 v2 v3 w1 w2 w3 c c' : ℝ} (hv : NB v1 v2 v3 c) (hw : NB w1 w2 w3 c') :
    v1 * w1 + v2 * w2 + v3 * w3 ≤ c * c' := by
  have h1 := cs3 v1 v2 v3 w1 w2 w3
  have t0 : 0 ≤ |v1| * |w1| + |v2| * |w2| + |v3| * |w3| := by positivity
  have h2 : (v1 ^ 2 + v2 ^ 2 + v3 ^ 2) * (w1 ^ 2 + w2 ^ 2 + w3 ^ 2) ≤ c ^ 2 * c' ^ 2 :=
    mul_le_mul hv.2 hw.2 (by positivity) (by positivity)
  have h3 : (|v1| * |w1| + |v2| * |w2| + |v3| * |w3|) ^ 2 ≤ (c * c') ^ 2 := by
    rw [mul_pow]; linarith
  have h4 := le_of_sq_le t0 (mul_nonneg hv.1 hw.1) h3
  have a1 : v1 * w1 ≤ |v1| * |w1| := by rw [← abs_mul]; exact le_abs_self _
  have a2 : v2 * w2 ≤ |v2| * |w2| := by rw [← abs_mul]; exact le_abs_self _
  have a3 : v3 * w3 ≤ |v3| * |w3| := by rw [← abs_mul]; exact le_abs_self _
  linarith

theorem NB.add {v1 v2 v3 w1 w2 w3 c c' : ℝ} (hv : NB v1 v2 v3 c) (hw : NB w1 w2 w3 c') :
    NB (v1 + w1) (v2 + w2) (v3 + w3) (c + c') := by
  refine ⟨add_nonneg hv.1 hw.1, ?_⟩
  have hd := hv.dot_le hw
  have e : (v1 + w1) ^ 2 + (v2 + w2) ^ 2 + (v3 + w3) ^ 2
      = (v1 ^ 2 + v2 ^ 2 + v3 ^ 2) + 2 * (v1 * w1 + v2 * w2 + v3 * w3) + (w1 ^ 2 + w2 ^ 2 + w3 ^ 2) := by ring
  have e2 : (c + c') ^ 2 = c ^ 2 + 2 * (c * c') + c' ^ 2 := by ring
  rw [e, e2]
  linarith [hv.2, hw.2]

theorem NB.cross {a1 a2 a3 b1 b2 b3 ca cb : ℝ} (ha : NB a1 a2 a3 ca) (hb : NB b1 b2 b3 cb) :
    NB (a2 * b3 - a3 * b2) (a3 * b1 - a1 * b3) (a1 * b2 - a2 * b1) (ca * cb) := by
  refine ⟨mul_nonneg ha.1 hb.1, le_trans (lagrange a1 a2 a3 b1 b2 b3) ?_⟩
  rw [mul_pow]
  exact mul_le_mul ha.2 hb.2 (by positivity) (by positivity)

theorem NB.perm {a1 a2 a3 b1 b2 b3 ca cb β : ℝ} (hβ : 0 ≤ β) (hβ2 : 4 / 3 ≤ β ^ 2)
    (ha : NB a1 a2 a3 ca) (hb : NB b1 b2 b3 cb) :
    NB (|a2 * b3| + |a3 * b2|) (|a3 * b1| + |a1 * b3|) (|a1 * b2| + |a2 * b1|) (β * (ca * cb)) := by
  refine ⟨mul_nonneg hβ (mul_nonneg ha.1 hb.1), le_trans (perm_cross a1 a2 a3 b1 b2 b3) ?_⟩
  have h1 : (a1 ^ 2 + a2 ^ 2 + a3 ^ 2) * (b1 ^ 2 + b2 ^ 2 + b3 ^ 2) ≤ ca ^ 2 * cb ^ 2 :=
    mul_le_mul ha.2 hb.2 (by positivity) (by positivity)
  have h0 : 0 ≤ ca ^ 2 * cb ^ 2 := by positivity
  have e : (β * (ca * cb)) ^ 2 = β ^ 2 * (ca ^ 2 * cb ^ 2) := by ring
  rw [e]
  have := mul_le_mul_of_nonneg_right hβ2 h0
  linarith

theorem NB.const {ε : ℝ} (h : 0 ≤ ε) : NB ε ε ε (2 * ε) := by
  refine ⟨by linarith, ?_⟩
  have : 0 ≤ ε ^ 2 := sq_nonneg ε
  have e : (2 * ε) ^ 2 = 4 * ε ^ 2 := by ring
  rw [e]; linarith

/-- reverse triangle inequality: two vectors whose difference has norm ≤ `E` have norms within `E` -/
theorem NB.norm_sub {n1 n2 n3 N1 N2 N3 E ν M : ℝ} (h : NB (n1 - N1) (n2 - N2) (n3 - N3) E)
    (hν : 0 ≤ ν) (hν2 : ν ^ 2 = n1 ^ 2 + n2 ^ 2 + n3 ^ 2) (hM : 0 ≤ M) (hM2 : M ^ 2 = N1 ^ 2 + N2 ^ 2 + N3 ^ 2) :
    |ν - M| ≤ E := by
  have hN : NB N1 N2 N3 M := ⟨hM, le_of_eq hM2.symm⟩
  have hn : NB n1 n2 n3 ν := ⟨hν, le_of_eq hν2.symm⟩
  have h1 : NB n1 n2 n3 (M + E) := (hN.add h).congr (by ring) (by ring) (by ring) rfl
  have h2 : NB N1 N2 N3 (ν + E) := (hn.add h.neg).congr (by ring) (by ring) (by ring) rfl
  have k1 : ν ≤ M + E := le_of_sq_le hν h1.1 (by rw [hν2]; exact h1.2)
  have k2 : M ≤ ν + E := le_of_sq_le hM h2.1 (by rw [hM2]; exact h2.2)
  rw [abs_le]; constructor <;> linarith

theorem NB.coord {v1 v2 v3 c : ℝ} (h : NB v1 v2 v3 c) : |v1| ≤ c ∧ |v2| ≤ c ∧ |v3| ≤ c := by
  have s1 := sq_nonneg v1
  have s2 := sq_nonneg v2
  have s3 := sq_nonneg v3
  refine ⟨?_, ?_, ?_⟩ <;> apply le_of_sq_le (abs_nonneg _) h.1 <;> rw [sq_abs] <;> linarith [h.2]

/-- relative componentwise rounding: `‖d − a‖ ≤ u‖a‖` -/
theorem NB.rnd {u a1 a2 a3 d1 d2 d3 A0 : ℝ} (hu : 0 ≤ u) (hA : NB a1 a2 a3 A0)
    (h1 : Rnd u 0 a1 d1) (h2 : Rnd u 0 a2 d2) (h3 : Rnd u 0 a3 d3) :
    NB (d1 - a1) (d2 - a2) (d3 - a3) (u * A0) := by
  unfold Rnd at h1 h2 h3
  rw [add_zero] at h1 h2 h3
  exact (hA.abs.smul hu).of_abs_le h1 h2 h3

/-- **the float vector `n = fl(fl(a) × fl(b))` against `N = a × b`** (a, b exact; d = fl(a), s = fl(b)):
    `‖n − N‖ ≤ u·(M + pD) + u(1+u)·β(1+u)²D + 4(1+u)e + pD`,  `p = 2u+u²`, `D = ‖a‖‖b‖`, `M = ‖N‖`. -/
theorem cross_vec_error {u e β : ℝ} (hu : 0 ≤ u) (he : 0 ≤ e) (hβ : 0 ≤ β) (hβ2 : 4 / 3 ≤ β ^ 2)
    {a1 a2 a3 b1 b2 b3 d1 d2 d3 s1 s2 s3 p23 p32 p31 p13 p12 p21 n1 n2 n3 A0 B0 M : ℝ}
    (hd1 : Rnd u 0 a1 d1) (hd2 : Rnd u 0 a2 d2) (hd3 : Rnd u 0 a3 d3)
    (hs1 : Rnd u 0 b1 s1) (hs2 : Rnd u 0 b2 s2) (hs3 : Rnd u 0 b3 s3)
    (h23 : Rnd u e (d2 * s3) p23) (h32 : Rnd u e (d3 * s2) p32) (hn1 : Rnd u 0 (p23 - p32) n1)
    (h31 : Rnd u e (d3 * s1) p31) (h13 : Rnd u e (d1 * s3) p13) (hn2 : Rnd u 0 (p31 - p13) n2)
    (h12 : Rnd u e (d1 * s2) p12) (h21 : Rnd u e (d2 * s1) p21) (hn3 : Rnd u 0 (p12 - p21) n3)
    (hA : NB a1 a2 a3 A0) (hB : NB b1 b2 b3 B0)
    (hM : NB (a2 * b3 - a3 * b2) (a3 * b1 - a1 * b3) (a1 * b2 - a2 * b1) M) :
    NB (n1 - (a2 * b3 - a3 * b2)) (n2 - (a3 * b1 - a1 * b3)) (n3 - (a1 * b2 - a2 * b1))
      (u * (M + (2 * u + u ^ 2) * (A0 * B0)) + u * (1 + u) * (β * ((1 + u) * A0 * ((1 + u) * B0)))
        + 2 * (2 * (1 + u) * e) + (2 * u + u ^ 2) * (A0 * B0)) := by
  have hδa := NB.rnd hu hA hd1 hd2 hd3
  have hδb := NB.rnd hu hB hs1 hs2 hs3
  -- d, s
  have hd : NB d1 d2 d3 ((1 + u) * A0) := (hA.add hδa).congr (by ring) (by ring) (by ring) (by ring)
  have hs : NB s1 s2 s3 ((1 + u) * B0) := (hB.add hδb).congr (by ring) (by ring) (by ring) (by ring)
  -- X − N
  have c1 := hδa.cross hB
  have c2 := hA.cross hδb
  have c3 := hδa.cross hδb
  have hXN : NB ((d2 * s3 - d3 * s2) - (a2 * b3 - a3 * b2)) ((d3 * s1 - d1 * s3) - (a3 * b1 - a1 * b3))
      ((d1 * s2 - d2 * s1) - (a1 * b2 - a2 * b1)) ((2 * u + u ^ 2) * (A0 * B0)) :=
    ((c1.add c2).add c3).congr (by ring) (by ring) (by ring) (by ring)
  have hX : NB (d2 * s3 - d3 * s2) (d3 * s1 - d1 * s3) (d1 * s2 - d2 * s1) (M + (2 * u + u ^ 2) * (A0 * B0)) :=
    (hM.add hXN).congr (by ring) (by ring) (by ring) rfl
  have hP := NB.perm hβ hβ2 hd hs
  have hu1 : 0 ≤ u * (1 + u) := by positivity
  have hε : 0 ≤ 2 * (1 + u) * e := by positivity
  have hW := ((hX.abs.smul hu).add (hP.smul hu1)).add (NB.const hε)
  have hnX : NB (n1 - (d2 * s3 - d3 * s2)) (n2 - (d3 * s1 - d1 * s3)) (n3 - (d1 * s2 - d2 * s1)) _ :=
    hW.of_abs_le (cross_comp hu h23 h32 hn1) (cross_comp hu h31 h13 hn2) (cross_comp hu h12 h21 hn3)
  exact (hnX.add hXN).congr (by ring) (by ring) (by ring) rfl

/-- Lagrange with remainder: `‖a‖‖b‖ ≤ ‖a×b‖ + |a·b|` -/
theorem norm_prod_le {a1 a2 a3 b1 b2 b3 A0 B0 M : ℝ} (hA0 : 0 ≤ A0) (hB0 : 0 ≤ B0) (hM0 : 0 ≤ M)
    (hA : A0 ^ 2 = a1 ^ 2 + a2 ^ 2 + a3 ^ 2) (hB : B0 ^ 2 = b1 ^ 2 + b2 ^ 2 + b3 ^ 2)
    (hM : M ^ 2 = (a2 * b3 - a3 * b2) ^ 2 + (a3 * b1 - a1 * b3) ^ 2 + (a1 * b2 - a2 * b1) ^ 2) :
    A0 * B0 ≤ M + |a1 * b1 + a2 * b2 + a3 * b3| := by
  apply le_of_sq_le (mul_nonneg hA0 hB0) (by positivity)
  have e : (A0 * B0) ^ 2 = M ^ 2 + (a1 * b1 + a2 * b2 + a3 * b3) ^ 2 := by
    rw [mul_pow, hA, hB, hM]; ring
  have e2 : (M + |a1 * b1 + a2 * b2 + a3 * b3|) ^ 2
      = M ^ 2 + 2 * (M * |a1 * b1 + a2 * b2 + a3 * b3|) + (a1 * b1 + a2 * b2 + a3 * b3) ^ 2 := by
    rw [add_sq, sq_abs]; ring
  rw [e, e2]
  have : 0 ≤ M * |a1 * b1 + a2 * b2 + a3 * b3| := by positivity
  linarith

end S2Proofs.FE3
