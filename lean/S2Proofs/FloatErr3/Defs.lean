/-
  FloatErr3.Defs — shared definitions of work package `floaterr3` (distance triage of C02):

  * `Normed p`     : the domain "output of Normalize": finite coordinates and
                     `| ‖p‖² − 1 | ≤ 33/8 · 2^-52 = 8.25 · 2^-53` (exact squared norm, decidable on integers);
  * `n2R`, `dotR`, `cross2R`, `sin2True` : exact real quantities of float vectors;
  * the bridge between the two value semantics (`FloatErr.val : ℝ`, `F64Round.val : ℚ`) and the half-ulp error
    bound `IsRound.ulp_err` in real form (`ulpR`, `mul_ulp`, `add_ulp`, `sub_ulp`).
-/
import Mathlib.Data.Rat.Cast.Order
import Mathlib.Data.Real.Basic
import S2Proofs.FloatErr.DotProd
import S2Proofs.C12.MarginRound

set_option linter.unusedSimpArgs false
set_option linter.unusedVariables false

namespace S2Proofs.FE3
open S2 S2.Exact S2.Pred S2Proofs.F64Order S2Proofs.PredLemmas S2Proofs.FloatErr

/-! ### exact real quantities -/

/-- exact squared norm of a float vector -/
noncomputable def n2R (p : V3) : ℝ := val p.x ^ 2 + val p.y ^ 2 + val p.z ^ 2
/-- exact dot product of two float vectors -/
noncomputable def dotR (p q : V3) : ℝ := val p.x * val q.x + val p.y * val q.y + val p.z * val q.z
/-- exact squared norm of the cross product -/
noncomputable def cross2R (p q : V3) : ℝ :=
  (val p.y * val q.z - val p.z * val q.y) ^ 2 + (val p.z * val q.x - val p.x * val q.z) ^ 2
    + (val p.x * val q.y - val p.y * val q.x) ^ 2
/-- `sin²` of the angle between the two vectors (as directions) -/
noncomputable def sin2True (p q : V3) : ℝ := cross2R p q / (n2R p * n2R q)

theorem lagrange_id (p q : V3) : cross2R p q = n2R p * n2R q - dotR p q ^ 2 := by
  unfold cross2R n2R dotR; ring

/-! ### the domain -/

/-- **"output of Normalize"**: finite coordinates and `| ‖p‖² − 1 | ≤ 33/2^55` (= 4.125·2^-52 = 8.25·2^-53),
    stated on the exact integer squared norm at scale `2^(2·1074)`. -/
def Normed (p : V3) : Prop :=
  Fin3 p ∧ |norm2I p - (scale : ℤ) ^ 2| * 2 ^ 55 ≤ 33 * (scale : ℤ) ^ 2

instance (p : V3) : Decidable (Normed p) := by unfold Normed; infer_instance

theorem n2R_eq (p : V3) : n2R p = (norm2I p : ℝ) / (2 ^ 1074) ^ 2 := by
  unfold n2R; rw [norm2_val]; rw [one_div, inv_pow]; rfl

/-- the real form of the domain -/
theorem Normed.n2 {p : V3} (h : Normed p) : |n2R p - 1| ≤ 33 / 2 ^ 55 := by
  have h2 := h.2
  have h3 : ((|norm2I p - (scale : ℤ) ^ 2| * 2 ^ 55 : ℤ) : ℝ) ≤ ((33 * (scale : ℤ) ^ 2 : ℤ) : ℝ) :=
    Int.cast_le.mpr h2
  push_cast at h3
  rw [scale_cast] at h3
  rw [n2R_eq]
  have hS : (0 : ℝ) < (2 ^ 1074) ^ 2 := by positivity
  generalize ((2 : ℝ) ^ 1074) ^ 2 = S at *
  generalize (norm2I p : ℝ) = N at *
  have e : N / S - 1 = (N - S) / S := by field_simp
  have h55 : (0 : ℝ) < 2 ^ 55 := by norm_num
  rw [e, abs_div, abs_of_pos hS, div_le_div_iff₀ hS h55]
  linarith

theorem Normed.fin {p : V3} (h : Normed p) : Fin3 p := h.1

theorem Normed.n2_le {p : V3} (h : Normed p) : n2R p ≤ 1 + 33 / 2 ^ 55 := by
  have := abs_le.mp h.n2; linarith
theorem Normed.n2_ge {p : V3} (h : Normed p) : 1 - 33 / 2 ^ 55 ≤ n2R p := by
  have := abs_le.mp h.n2; linarith

theorem Normed.normLe {p : V3} (h : Normed p) : NormLe p := by
  refine ⟨h.1, ?_⟩
  have h2 := h.2
  have hS : (0 : ℤ) ≤ (scale : ℤ) ^ 2 := sq_nonneg _
  have h3 := le_abs_self (norm2I p - (scale : ℤ) ^ 2)
  generalize (scale : ℤ) ^ 2 = S at *
  generalize norm2I p = N at *
  generalize |N - S| = w at *
  omega

theorem Normed.coord_le {p : V3} (h : Normed p) : |val p.x| ≤ 2 ∧ |val p.y| ≤ 2 ∧ |val p.z| ≤ 2 :=
  h.normLe.coord_le

/-! ### bridge ℚ ↔ ℝ and the half-ulp bound in real form -/

theorem val_cast (x : F64) : ((F64Round.val x : ℚ) : ℝ) = val x := by
  unfold F64Round.val F64Round.U val
  push_cast; rfl

/-- **half-ulp bound, real form**: if `|Q| ≤ 2^-m` then the rounded value is finite and within `2^-(m+54)` of `Q`
    (`m = 0`: values up to 1, error ≤ 2^-54 = u/2; `m = 1`: values up to 1/2, error ≤ u/4; …). -/
theorem ulpR {r : F64} {Q : ℚ} (h : F64Round.IsRound r Q) (m : ℕ) (hm : m ≤ 1021)
    (hhi : |(Q : ℝ)| ≤ 1 / 2 ^ m) : Fin r ∧ |val r - (Q : ℝ)| ≤ 1 / 2 ^ (m + 54) := by
  have hQ : |Q| ≤ 1 / 2 ^ m := by
    have : ((|Q| : ℚ) : ℝ) ≤ ((1 / 2 ^ m : ℚ) : ℝ) := by push_cast; exact hhi
    exact_mod_cast this
  have hk : 1021 - m ≤ 1100 := by omega
  have hU : F64Round.U = 2 ^ m * 2 ^ (1021 - m + 53) := by
    unfold F64Round.U; rw [← pow_add]; congr 1; omega
  have hhi' : |Q| * F64Round.U ≤ 2 ^ (1021 - m + 53) := by
    rw [hU]
    have h2m : (0 : ℚ) < 2 ^ m := by positivity
    calc |Q| * (2 ^ m * 2 ^ (1021 - m + 53)) ≤ (1 / 2 ^ m) * (2 ^ m * 2 ^ (1021 - m + 53)) :=
          mul_le_mul_of_nonneg_right hQ (by positivity)
      _ = 2 ^ (1021 - m + 53) := by field_simp
  obtain ⟨hf, he⟩ := h.ulp_err (1021 - m) hk hhi'
  refine ⟨hf, ?_⟩
  have he' : |F64Round.val r - Q| ≤ 1 / 2 ^ (m + 54) := by
    have hAB : (2 : ℚ) ^ (m + 54) * 2 ^ (1021 - m) = 2 * F64Round.U := by
      have e1 : m + 54 + (1021 - m) = 1074 + 1 := by omega
      have e2 : F64Round.U = (2 : ℚ) ^ 1074 := rfl
      rw [← pow_add, e1, pow_succ, e2, mul_comm]
    have hA : (0 : ℚ) < 2 ^ (1021 - m) := by positivity
    have hB : (0 : ℚ) < 2 ^ (m + 54) := by positivity
    rw [← hAB] at he
    generalize (2 : ℚ) ^ (1021 - m) = A at *
    generalize (2 : ℚ) ^ (m + 54) = B at *
    generalize |F64Round.val r - Q| = w at *
    rw [le_div_iff₀ hB]
    have : (w * B) * A ≤ 1 * A := by linarith
    exact le_of_mul_le_mul_right this hA
  have : ((|F64Round.val r - Q| : ℚ) : ℝ) ≤ ((1 / 2 ^ (m + 54) : ℚ) : ℝ) := by exact_mod_cast he'
  push_cast at this
  rw [val_cast] at this
  exact this

theorem mul_ulp {x y : F64} (hx : Fin x) (hy : Fin y) (m : ℕ) (hm : m ≤ 1021)
    (hhi : |val x * val y| ≤ 1 / 2 ^ m) :
    Fin (x * y) ∧ |val (x * y) - val x * val y| ≤ 1 / 2 ^ (m + 54) := by
  have h := F64Round.isRound_mul hx hy
  have := ulpR h m hm (by push_cast; rw [val_cast, val_cast]; exact hhi)
  push_cast at this; rw [val_cast, val_cast] at this
  exact this

theorem add_ulp {x y : F64} (hx : Fin x) (hy : Fin y) (m : ℕ) (hm : m ≤ 1021)
    (hhi : |val x + val y| ≤ 1 / 2 ^ m) :
    Fin (x + y) ∧ |val (x + y) - (val x + val y)| ≤ 1 / 2 ^ (m + 54) := by
  have h := F64Round.isRound_add hx hy
  have := ulpR h m hm (by push_cast; rw [val_cast, val_cast]; exact hhi)
  push_cast at this; rw [val_cast, val_cast] at this
  exact this

theorem sub_ulp {x y : F64} (hx : Fin x) (hy : Fin y) (m : ℕ) (hm : m ≤ 1021)
    (hhi : |val x - val y| ≤ 1 / 2 ^ m) :
    Fin (x - y) ∧ |val (x - y) - (val x - val y)| ≤ 1 / 2 ^ (m + 54) := by
  have h := F64Round.isRound_sub hx hy
  have := ulpR h m hm (by push_cast; rw [val_cast, val_cast]; exact hhi)
  push_cast at this; rw [val_cast, val_cast] at this
  exact this

/-- monotonicity of rounding in real form: a float `z` below the exact value stays below the rounded value -/
theorem round_ge_of_le {r z : F64} {Q : ℚ} (h : F64Round.IsRound r Q) (hr : Fin r) (hz : Fin z)
    (hle : val z ≤ (Q : ℝ)) : val z ≤ val r := by
  have h1 : F64Round.val z ≤ Q := by
    have : ((F64Round.val z : ℚ) : ℝ) ≤ (Q : ℝ) := by rw [val_cast]; exact hle
    exact_mod_cast this
  have := F64Round.IsRound.mono (F64Round.isRound_self hz) h h1
  have h2 : F64Round.val z ≤ F64Round.val r := (F64Round.val_le_iff hz hr).mp this
  have : ((F64Round.val z : ℚ) : ℝ) ≤ ((F64Round.val r : ℚ) : ℝ) := by exact_mod_cast h2
  rw [val_cast, val_cast] at this
  exact this

theorem round_le_of_le {r z : F64} {Q : ℚ} (h : F64Round.IsRound r Q) (hr : Fin r) (hz : Fin z)
    (hle : (Q : ℝ) ≤ val z) : val r ≤ val z := by
  have h1 : Q ≤ F64Round.val z := by
    have : (Q : ℝ) ≤ ((F64Round.val z : ℚ) : ℝ) := by rw [val_cast]; exact hle
    exact_mod_cast this
  have := F64Round.IsRound.mono h (F64Round.isRound_self hz) h1
  have h2 : F64Round.val r ≤ F64Round.val z := (F64Round.val_le_iff hr hz).mp this
  have : ((F64Round.val r : ℚ) : ℝ) ≤ ((F64Round.val z : ℚ) : ℝ) := by exact_mod_cast h2
  rw [val_cast, val_cast] at this
  exact this

end S2Proofs.FE3
