/-
  FloatErr3.Normalize — `V3.normalize` lands in `Normed` (work package `floaterr3`, sub-task `norm`).

      normalize_normed (v) (Fin3 v) (2^-600 ≤ ‖v‖² ≤ 2^600) : Normed (V3.normalize v)
      i.e. finite coordinates and | ‖normalize v‖² − 1 | ≤ 33/2^55 = 8.25·2^-53      (also for the range 2^-960 … 2^960)

  `V3.normalize v = v.mul (1 / sqrt (v.norm2))`.  With u = 2^-53, e = 2^-1075, V = ‖v‖² (exact):
    N2 = fl(fl(fl(x²)+fl(y²))+fl(z²)) = V(1+δ2),  |δ2| ≤ 3u + 4u²        (standard model incl. underflow of tiny squares; `norm2_float`)
    n = fl(√N2), i = fl(1/n):  the standard model would give |δsqrt|,|δinv| ≤ u each, total 2+2·2+3 = 9u > 8.25u — not enough.
    JOINT half-ulp argument (`NQ.sqrt_binade`, `NQ.sqrt_inv_Q`, `NormAux.joint_real`): with t = the power of two at the bottom of the binade of n,
        (n − u·t)² ≤ N2 ≤ (n + u·t)²   (neighbouring midpoints, from `sqrt_spec_int`)     and     |i − 1/n| ≤ u/(2t)   (half ulp of (1/(2t), 1/t]),
    hence with p = n/(2t), q = t/n (pq = 1/2, p + q ≤ 3/2 on the binade):   1 − 3u/2 ≤ i·√N2 ≤ 1 + 3u/2 + u²/2.
    w_j = fl(i·v_j),  |w_j − i·v_j| ≤ u|i·v_j| + e     ⟹   | ‖w‖² − i²V | ≤ (2u+u²) i²V + 13e     (`comps_real`)
    total first order 2 + 3 + 3 = 8u; second order ≈ 38u² (`final_real`, checked by `norm_num` on the explicit rationals).
-/
import Mathlib.Tactic.Ring
import Mathlib.Tactic.Linarith
import Mathlib.Tactic.Positivity
import Mathlib.Tactic.NormNum
import Mathlib.Tactic.FieldSimp
import S2Proofs.FloatErr3.Defs

set_option linter.unusedSimpArgs false
set_option linter.unusedVariables false

namespace S2Proofs.FE3.NQ
open S2 S2.Exact S2Proofs.F64Order S2Proofs.F64Inj S2Proofs.F64Round S2Proofs.C12M

/-! ### B. half-ulp facts in units (ℕ / ℚ) -/

/-- `C12M.rint_ulp_err` with the full exponent range (`k ≤ 2044` instead of `k ≤ 1100`) -/
theorem rint_ulp_err' (s : Int) (D k : Nat) (hD : 0 < D) (hk : k ≤ 2044) (hhi : s.natAbs ≤ 2 ^ (k + 53) * D) :
    rmag s.natAbs D < 2 ^ 2098 ∧ 2 * |rint s D * D - s| ≤ D * 2 ^ k := by
  have hk' := rmag_ulp_err s.natAbs D k hD hhi
  have h : rmag s.natAbs D < 2 ^ 2098 := by
    apply rmag_lt_top _ _ hD
    have h1 : 2 ^ (k + 53) ≤ 2 ^ 2097 := Nat.pow_le_pow_right (by decide) (by omega)
    have h2 : 2 ^ 2097 < (2 ^ 54 - 1) * 2 ^ 2044 := by decide +kernel
    have h3 : 2 ^ (k + 53) * D < (2 ^ 54 - 1) * 2 ^ 2044 * D :=
      Nat.mul_lt_mul_of_pos_right (by omega) hD
    omega
  refine ⟨h, ?_⟩
  rw [rint_eq_of_lt s D h]
  obtain ⟨e1, e2⟩ := hk'
  generalize rmag s.natAbs D = R at *
  have e1' : ((2 * (R * D) : Nat) : Int) ≤ ((2 * s.natAbs + D * 2 ^ k : Nat) : Int) := by exact_mod_cast e1
  have e2' : ((2 * s.natAbs : Nat) : Int) ≤ ((2 * (R * D) + D * 2 ^ k : Nat) : Int) := by exact_mod_cast e2
  have e : (if s < 0 then -(R : Int) else (R : Int)) * D = (if s < 0 then -((R : Int) * D) else (R : Int) * D) := by
    split <;> ring
  rw [e]
  simp only [Int.natCast_mul, Int.natCast_add, Nat.cast_ofNat, Int.natCast_pow] at e1' e2'
  generalize (R : Int) * D = a at *
  generalize ((D : Int) * 2 ^ k) = b at *
  rw [← Int.natCast_natAbs]
  split <;> omega

/-- **half-ulp error bound, full range**: if `|Q| ≤ 2^(k+53)` units (`k ≤ 2044`) then the rounded value is finite and within
    `2^k / 2` units of `Q`. -/
theorem ulp_err' {r : F64} {Q : ℚ} (h : IsRound r Q) (k : Nat) (hk : k ≤ 2044)
    (hhi : |Q| * U ≤ 2 ^ (k + 53)) : F64Order.Fin r ∧ |val r - Q| * (2 * U) ≤ 2 ^ k := by
  obtain ⟨n, s, D, hD, hQ, he⟩ := h
  have hDq : (0 : ℚ) < D := by exact_mod_cast hD
  have hhi' : s.natAbs ≤ 2 ^ (k + 53) * D := by
    have h1 : ((|s| : Int) : ℚ) = |Q| * ((D : ℚ) * U) := by
      rw [Int.cast_abs, ← hQ, abs_mul, abs_of_pos (mul_pos hDq U_pos)]
    have h2 : ((|s| : Int) : ℚ) ≤ 2 ^ (k + 53) * D := by
      rw [h1]
      calc |Q| * ((D : ℚ) * U) = (|Q| * U) * D := by ring
        _ ≤ 2 ^ (k + 53) * D := mul_le_mul_of_nonneg_right hhi (le_of_lt hDq)
    have h3 : ((s.natAbs : Nat) : ℚ) ≤ ((2 ^ (k + 53) * D : Nat) : ℚ) := by
      push_cast; rw [Nat.cast_natAbs]; exact h2
    exact_mod_cast h3
  obtain ⟨hlt, hi⟩ := rint_ulp_err' s D k hD hk hhi'
  have hf : F64Order.Fin r := by
    have := (rint_lt_iff s D).2 hlt
    rw [← he] at this
    exact fin_of_ext_lt n this.1 this.2
  refine ⟨hf, ?_⟩
  have ht : toInt r = rint s D := by rw [← ext_finite hf, he]
  have hDU : (0 : ℚ) < (D : ℚ) * U := mul_pos hDq U_pos
  rw [abs_val_sub_eq r hD hQ, ht]
  have hi' : ((2 * |rint s D * D - s| : Int) : ℚ) ≤ ((D * 2 ^ k : Nat) : ℚ) := by exact_mod_cast hi
  push_cast at hi' ⊢
  rw [div_mul_eq_mul_div, div_le_iff₀ hDU]
  calc |(rint s D : ℚ) * D - s| * (2 * U) = (2 * |(rint s D : ℚ) * D - s|) * U := by ring
    _ ≤ ((D : ℚ) * 2 ^ k) * U := mul_le_mul_of_nonneg_right hi' (le_of_lt U_pos)
    _ = 2 ^ k * ((D : ℚ) * U) := by ring

theorem mag_of_toInt {y : F64} {R : Nat} (h : toInt y = (R : Int)) : mag y = R := by
  rw [← natAbs_toInt, h]; simp

/-- **the binade of the float square root** (units of 2^-1074): `mag (sqrt x) = (b+1)·2^κ` with a normal mantissa `b+1`, and the true
    root lies between the two neighbouring midpoints `(b + 1/2)·2^κ` and `(b + 3/2)·2^κ` (squared form, `V = mag x · 2^1074`). -/
theorem sqrt_binade {x : F64} (hx : F64Order.Fin x) (hs : x.signBit = false) (h0 : x.isZero = false) :
    F64Order.Fin (F64.sqrt x) ∧ (F64.sqrt x).signBit = false ∧ ∃ b κ : Nat, κ ≤ 1600 ∧ 2 ^ 52 ≤ b + 1 ∧ b + 1 < 2 ^ 53 ∧
      mag (F64.sqrt x) = (b + 1) * 2 ^ κ ∧
      ((2 * b + 1) * 2 ^ κ) * ((2 * b + 1) * 2 ^ κ) ≤ 4 * (mag x * 2 ^ 1074) ∧
      4 * (mag x * 2 ^ 1074) ≤ ((2 * b + 3) * 2 ^ κ) * ((2 * b + 3) * 2 ^ κ) := by
  obtain ⟨hf, hsg, hall⟩ := sqrt_spec_int hx hs h0
  generalize hr : F64.sqrt x = r at *
  have hX1 := mag_pos_of_not_zero h0
  have hXhi := mag_lt x hx
  -- the result is normal
  have hR52 : 2 ^ 52 ≤ mag r := by
    by_contra hc
    obtain ⟨y, fy, ty⟩ := exists_float (2 ^ 52) ⟨1, 52, by decide, by ring⟩
      (Nat.pow_lt_pow_right (by decide) (by decide))
    have my : mag y = 2 ^ 52 := mag_of_toInt ty
    have h2 := (hall y).2 (by rw [my]; omega)
    rw [my] at h2
    have h3 : (2 ^ 52 + mag r) * (2 ^ 52 + mag r) < 2 ^ 53 * 2 ^ 53 :=
      Nat.mul_lt_mul'' (by omega) (by omega)
    have h4 : 2 ^ 53 * 2 ^ 53 ≤ 4 * (1 * 2 ^ 1074) := by decide +kernel
    have h5 : 4 * (1 * 2 ^ 1074) ≤ 4 * (mag x * 2 ^ 1074) :=
      Nat.mul_le_mul_left _ (Nat.mul_le_mul_right _ hX1)
    exact absurd (lt_of_le_of_lt (le_trans (le_trans h4 h5) h2) h3) (lt_irrefl _)
  -- … and far from overflow
  have hRhi : mag r < 2 ^ 1600 := by
    by_contra hc
    have hc' : 2 ^ 1600 ≤ mag r := Nat.le_of_not_lt hc
    have m0 : mag (F64.zero false) = 0 := by decide
    have h1 := (hall (F64.zero false)).1 (by rw [m0]; omega)
    rw [m0, Nat.zero_add] at h1
    have h2 : 2 ^ 1600 * 2 ^ 1600 ≤ mag r * mag r := Nat.mul_le_mul hc' hc'
    have h3 : 4 * (mag x * 2 ^ 1074) < 4 * (2 ^ 2098 * 2 ^ 1074) :=
      Nat.mul_lt_mul_of_pos_left (Nat.mul_lt_mul_of_pos_right hXhi (Nat.two_pow_pos _)) (by decide)
    have h4 : 4 * (2 ^ 2098 * 2 ^ 1074) ≤ 2 ^ 1600 * 2 ^ 1600 := by decide +kernel
    exact absurd (lt_of_le_of_lt (le_trans h2 h1) (lt_of_lt_of_le h3 h4)) (lt_irrefl _)
  -- the mantissa / exponent of the result
  have hmag : mag r = r.mant * 2 ^ (r.expField - 1) := rfl
  have hml := mant_lt r
  have hnorm : 2 ^ 52 ≤ r.mant := by
    by_contra hc
    have hE : r.expField = 0 := by
      by_contra hE
      have : r.mant = r.fracField + 4503599627370496 := by
        unfold F64.mant; simp [hE]
      omega
    rw [hmag, hE] at hR52
    simp at hR52
    omega
  obtain ⟨b, hb⟩ : ∃ b, r.mant = b + 1 := ⟨r.mant - 1, by omega⟩
  generalize hκ : r.expField - 1 = κ at hmag
  have hκ1 : κ ≤ 1600 := by
    by_contra hc
    have h1 : 2 ^ 1600 ≤ 2 ^ κ := Nat.pow_le_pow_right (by decide) (by omega)
    have h2 : 2 ^ κ ≤ r.mant * 2 ^ κ := Nat.le_mul_of_pos_left _ (by omega)
    omega
  refine ⟨hf, hsg, b, κ, hκ1, by omega, by omega, by rw [hmag, hb], ?_, ?_⟩
  · -- the predecessor at spacing 2^κ
    obtain ⟨y, fy, ty⟩ := exists_float (b * 2 ^ κ) ⟨b, κ, by omega, rfl⟩ (by
      have : b * 2 ^ κ ≤ r.mant * 2 ^ κ := Nat.mul_le_mul_right _ (by omega)
      have h2 : (2 : Nat) ^ 1600 < 2 ^ 2098 := Nat.pow_lt_pow_right (by decide) (by decide)
      omega)
    have my : mag y = b * 2 ^ κ := mag_of_toInt ty
    have hlt : mag y < mag r := by
      rw [my, hmag, hb]; exact Nat.mul_lt_mul_of_pos_right (by omega) (Nat.two_pow_pos _)
    have h1 := (hall y).1 hlt
    have e : mag y + mag r = (2 * b + 1) * 2 ^ κ := by rw [my, hmag, hb]; ring
    rw [e] at h1
    exact h1
  · -- the successor at spacing 2^κ
    have hrep : Rep ((b + 2) * 2 ^ κ) := by
      by_cases hb2 : b + 2 < 2 ^ 53
      · exact ⟨b + 2, κ, hb2, rfl⟩
      · have : b + 2 = 2 ^ 53 := by omega
        exact ⟨2 ^ 52, κ + 1, by decide, by rw [this, Nat.pow_succ]; ring⟩
    obtain ⟨y, fy, ty⟩ := exists_float ((b + 2) * 2 ^ κ) hrep (by
      have h1 : (b + 2) * 2 ^ κ ≤ 2 ^ 53 * 2 ^ 1600 :=
        Nat.mul_le_mul (by omega) (Nat.pow_le_pow_right (by decide) hκ1)
      have h2 : (2 : Nat) ^ 53 * 2 ^ 1600 < 2 ^ 2098 := by
        rw [← Nat.pow_add]; exact Nat.pow_lt_pow_right (by decide) (by decide)
      omega)
    have my : mag y = (b + 2) * 2 ^ κ := mag_of_toInt ty
    have hlt : mag r < mag y := by
      rw [my, hmag, hb]; exact Nat.mul_lt_mul_of_pos_right (by omega) (Nat.two_pow_pos _)
    have h1 := (hall y).2 hlt
    have e : mag y + mag r = (2 * b + 3) * 2 ^ κ := by rw [my, hmag, hb]; ring
    rw [e] at h1
    exact h1


theorem val_of_pos {y : F64} (hs : y.signBit = false) : val y = (mag y : ℚ) / U := by
  unfold val; rw [toInt_eq_mag, hs]; simp

/-- **joint half-ulp facts of `r = fl(√x)` and `fl(1/r)`** (rational form): with `t` the power of two at the bottom of the binade of `r`,
    `(r − t·2^-53)² ≤ x ≤ (r + t·2^-53)²` and `|fl(1/r) − 1/r| ≤ 2^-54 / t`. -/
theorem sqrt_inv_Q {x : F64} (hx : F64Order.Fin x) (hs : x.signBit = false) (h0 : x.isZero = false) :
    ∃ t : ℚ, 0 < t ∧ F64Order.Fin (F64.sqrt x) ∧ t ≤ val (F64.sqrt x) ∧ val (F64.sqrt x) ≤ 2 * t ∧
      (val (F64.sqrt x) - t / 2 ^ 53) ^ 2 ≤ val x ∧ val x ≤ (val (F64.sqrt x) + t / 2 ^ 53) ^ 2 ∧
      F64Order.Fin (F64.div F64.one (F64.sqrt x)) ∧
      |val (F64.div F64.one (F64.sqrt x)) - 1 / val (F64.sqrt x)| ≤ 1 / (2 ^ 54 * t) := by
  obtain ⟨hf, hsg, b, κ, hκ, hb1, hb2, hmag, hlo, hhi⟩ := sqrt_binade hx hs h0
  generalize hr : F64.sqrt x = r at *
  have hU := U_pos
  have hUdef : U = ((2 ^ 1074 : Nat) : ℚ) := by unfold U; rw [Nat.cast_pow, Nat.cast_ofNat]
  have hvr : val r = ((b : ℚ) + 1) * 2 ^ κ / U := by
    rw [val_of_pos hsg, hmag]; push_cast; ring
  have hvx : val x = (mag x : ℚ) / U := val_of_pos hs
  have hc : (0 : ℚ) < 2 ^ κ := by positivity
  have hb1q : (2 : ℚ) ^ 52 ≤ (b : ℚ) + 1 := by exact_mod_cast hb1
  have hb2q : (b : ℚ) + 1 ≤ 2 ^ 53 := by exact_mod_cast hb2.le
  have hloq : (((2 * (b : ℚ) + 1) * 2 ^ κ)) ^ 2 ≤ 4 * ((mag x : ℚ) * U) := by
    rw [hUdef, sq]; exact_mod_cast hlo
  have hhiq : 4 * ((mag x : ℚ) * U) ≤ (((2 * (b : ℚ) + 3) * 2 ^ κ)) ^ 2 := by
    rw [hUdef, sq]; exact_mod_cast hhi
  have hz : r.isZero = false := by
    cases h : r.isZero
    · rfl
    · exfalso
      unfold F64.isZero at h
      simp only [Bool.and_eq_true, beq_iff_eq] at h
      have hm : mag r = 0 := by
        show r.mant * 2 ^ (r.expField - 1) = 0
        unfold F64.mant; simp [h.1, h.2]
      have : 0 < (b + 1) * 2 ^ κ := Nat.mul_pos (by omega) (Nat.two_pow_pos _)
      omega
  have hR := isRound_div (x := F64.one) (by decide) hf hz
  rw [val_one] at hR
  have hAc : (2 : ℚ) ^ (2043 - κ) * 2 ^ κ = 2 ^ 2043 := by rw [← pow_add, Nat.sub_add_cancel (by omega)]
  have hUU : U * U = 2 ^ 2043 * 2 ^ 105 := by unfold U; rw [← pow_add, ← pow_add]
  have hJ : (2 : ℚ) ^ (2043 - κ + 53) = 2 ^ (2043 - κ) * 2 ^ 53 := pow_add _ _ _
  have hA : (0 : ℚ) < 2 ^ (2043 - κ) := by positivity
  have hulp := ulp_err' hR (2043 - κ) (by omega)
  rw [hJ] at hulp
  generalize (2 : ℚ) ^ (2043 - κ) = A at *
  generalize (2 : ℚ) ^ 2043 = Z at *
  generalize (2 : ℚ) ^ κ = c at *
  generalize (mag x : ℚ) = X at *
  generalize (b : ℚ) = B at *
  refine ⟨2 ^ 52 * c / U, by positivity, hf, ?_, ?_, ?_, ?_, ?_⟩
  · rw [hvr, div_le_div_iff_of_pos_right hU]; exact mul_le_mul_of_nonneg_right hb1q hc.le
  · rw [hvr, ← mul_div_assoc, div_le_div_iff_of_pos_right hU]
    calc (B + 1) * c ≤ 2 ^ 53 * c := mul_le_mul_of_nonneg_right hb2q hc.le
      _ = 2 * (2 ^ 52 * c) := by ring
  · have e : val r - 2 ^ 52 * c / U / 2 ^ 53 = (2 * B + 1) * c / (2 * U) := by rw [hvr]; field_simp; ring
    rw [e, hvx, div_pow, div_le_div_iff₀ (by positivity) hU]
    calc ((2 * B + 1) * c) ^ 2 * U ≤ 4 * (X * U) * U := mul_le_mul_of_nonneg_right hloq hU.le
      _ = X * (2 * U) ^ 2 := by ring
  · have e : val r + 2 ^ 52 * c / U / 2 ^ 53 = (2 * B + 3) * c / (2 * U) := by rw [hvr]; field_simp; ring
    rw [e, hvx, div_pow, div_le_div_iff₀ hU (by positivity)]
    calc X * (2 * U) ^ 2 = 4 * (X * U) * U := by ring
      _ ≤ ((2 * B + 3) * c) ^ 2 * U := mul_le_mul_of_nonneg_right hhiq hU.le
  · have hB0 : (0 : ℚ) < B + 1 := lt_of_lt_of_le (by positivity) hb1q
    have hden : (0 : ℚ) < (B + 1) * c := mul_pos hB0 hc
    have hinv : 1 / val r = U / ((B + 1) * c) := by rw [hvr]; field_simp
    have hinv0 : 0 < 1 / val r := by rw [hinv]; positivity
    have hUUle : U * U ≤ A * 2 ^ 53 * ((B + 1) * c) := by
      rw [hUU, ← hAc]
      have : A * c * 2 ^ 105 = A * 2 ^ 53 * (2 ^ 52 * c) := by ring
      rw [this]
      exact mul_le_mul_of_nonneg_left (mul_le_mul_of_nonneg_right hb1q hc.le) (by positivity)
    obtain ⟨hfi, herr⟩ := hulp (by
      rw [abs_of_pos hinv0, hinv, div_mul_eq_mul_div, div_le_iff₀ hden]
      exact hUUle)
    refine ⟨hfi, ?_⟩
    have e : 1 / (2 ^ 54 * (2 ^ 52 * c / U)) = A / (2 * U) := by
      rw [div_eq_div_iff (by positivity) (by positivity)]
      have : 2 ^ 54 * (2 ^ 52 * c / U) = 2 ^ 106 * c / U := by ring
      rw [this, mul_div_assoc', eq_div_iff (ne_of_gt hU)]
      calc 1 * (2 * U) * U = 2 * (U * U) := by ring
        _ = 2 * (A * c * 2 ^ 105) := by rw [hUU, hAc]
        _ = A * (2 ^ 106 * c) := by ring
    rw [e, le_div_iff₀ (by positivity)]
    exact herr

end S2Proofs.FE3.NQ

namespace S2Proofs.FE3.NormAux
open S2 S2.Exact S2.Pred S2Proofs.F64Order S2Proofs.PredLemmas S2Proofs.FloatErr

/-! ### A. pure real arithmetic -/

/-- the joint half-ulp argument for `n = fl(√N2)`, `i = fl(1/n)`: with `t` the power of two at the bottom of the binade of `n`,
    the sqrt is within `u·t` of the root (in squared form) and the reciprocal within `u/(2t)`;
    then `i·√N2 ∈ [1 − 3u/2, 1 + 3u/2 + u²/2]` (squared form). -/
theorem joint_real {u t n i N2 : ℝ} (hu0 : 0 ≤ u) (hu1 : u ≤ 1 / 2) (ht : 0 < t) (htn : t ≤ n) (hnt : n ≤ 2 * t)
    (hlo : (n - u * t) ^ 2 ≤ N2) (hhi : N2 ≤ (n + u * t) ^ 2) (hi : |i - 1 / n| ≤ u / (2 * t)) :
    0 ≤ i ∧ (1 - 3 / 2 * u) ^ 2 ≤ i ^ 2 * N2 ∧ i ^ 2 * N2 ≤ (1 + 3 / 2 * u + u ^ 2 / 2) ^ 2 := by
  have hn : 0 < n := lt_of_lt_of_le ht htn
  obtain ⟨p, hp⟩ : ∃ p, p = n / (2 * t) := ⟨_, rfl⟩
  obtain ⟨q, hq⟩ : ∃ q, q = t / n := ⟨_, rfl⟩
  have hpq : p * q = 1 / 2 := by rw [hp, hq]; field_simp
  have hp1 : p ≤ 1 := by rw [hp, div_le_one (by positivity)]; exact hnt
  have hp0 : 1 / 2 ≤ p := by rw [hp, div_le_div_iff₀ (by norm_num) (by positivity)]; linarith
  have hq1 : q ≤ 1 := by rw [hq, div_le_one hn]; exact htn
  have hq0 : 1 / 2 ≤ q := by rw [hq, div_le_div_iff₀ (by norm_num) hn]; linarith
  have hsum : p + q ≤ 3 / 2 := by
    nlinarith [mul_nonneg (sub_nonneg.2 hp0) (sub_nonneg.2 hp1), mul_nonneg (sub_nonneg.2 hq0) (sub_nonneg.2 hq1)]
  -- x = i·n
  have hx : |i * n - 1| ≤ u * p := by
    have e : i * n - 1 = (i - 1 / n) * n := by field_simp
    rw [e, abs_mul, abs_of_pos hn]
    calc |i - 1 / n| * n ≤ u / (2 * t) * n := mul_le_mul_of_nonneg_right hi hn.le
      _ = u * p := by rw [hp]; ring
  obtain ⟨hx1, hx2⟩ := abs_le.mp hx
  have hup : u * p ≤ 1 / 2 := by nlinarith
  have huq : u * q ≤ 1 / 2 := by nlinarith
  have hup0 : 0 ≤ u * p := by nlinarith
  have huq0 : 0 ≤ u * q := by nlinarith
  have hin0 : 0 ≤ i * n := by linarith
  have hi0 : 0 ≤ i := by
    by_contra hc
    have : i * n < 0 := mul_neg_of_neg_of_pos (not_le.mp hc) hn
    linarith
  have et : t = q * n := by rw [hq]; field_simp
  have e1 : i * (n + u * t) = (i * n) * (1 + u * q) := by rw [et]; ring
  have e2 : i * (n - u * t) = (i * n) * (1 - u * q) := by rw [et]; ring
  have hU : i * (n + u * t) ≤ 1 + 3 / 2 * u + u ^ 2 / 2 := by
    rw [e1]
    have h1 : (i * n) * (1 + u * q) ≤ (1 + u * p) * (1 + u * q) :=
      mul_le_mul_of_nonneg_right (by linarith) (by linarith)
    have h2 : (1 + u * p) * (1 + u * q) = 1 + u * (p + q) + u ^ 2 * (p * q) := by ring
    have h3 : u * (p + q) ≤ u * (3 / 2) := mul_le_mul_of_nonneg_left hsum hu0
    rw [hpq] at h2
    linarith
  have hL : 1 - 3 / 2 * u ≤ i * (n - u * t) := by
    rw [e2]
    have h1 : (1 - u * p) * (1 - u * q) ≤ (i * n) * (1 - u * q) :=
      mul_le_mul_of_nonneg_right (by linarith) (by linarith)
    have h2 : (1 - u * p) * (1 - u * q) = 1 - u * (p + q) + u ^ 2 * (p * q) := by ring
    have h3 : u * (p + q) ≤ u * (3 / 2) := mul_le_mul_of_nonneg_left hsum hu0
    have h4 : 0 ≤ u ^ 2 * (p * q) := by rw [hpq]; positivity
    linarith
  have hL0 : 0 ≤ 1 - 3 / 2 * u := by linarith
  have hU0 : 0 ≤ i * (n + u * t) := mul_nonneg hi0 (by nlinarith)
  refine ⟨hi0, ?_, ?_⟩
  · calc (1 - 3 / 2 * u) ^ 2 ≤ (i * (n - u * t)) ^ 2 := pow_le_pow_left₀ hL0 hL 2
      _ = i ^ 2 * (n - u * t) ^ 2 := by ring
      _ ≤ i ^ 2 * N2 := mul_le_mul_of_nonneg_left hlo (sq_nonneg i)
  · calc i ^ 2 * N2 ≤ i ^ 2 * (n + u * t) ^ 2 := mul_le_mul_of_nonneg_left hhi (sq_nonneg i)
      _ = (i * (n + u * t)) ^ 2 := by ring
      _ ≤ (1 + 3 / 2 * u + u ^ 2 / 2) ^ 2 := pow_le_pow_left₀ hU0 hU 2

/-- one scaled component: `|w − a| ≤ u|a| + e` changes the square by at most `(2u+u²)a² + (13/3)e` -/
theorem comp_real {u e a w : ℝ} (hu0 : 0 ≤ u) (hu1 : u ≤ 1 / 64) (he0 : 0 ≤ e) (he1 : e ≤ 1 / 64) (ha : |a| ≤ 2)
    (hw : |w - a| ≤ u * |a| + e) : |w ^ 2 - a ^ 2| ≤ (2 * u + u ^ 2) * a ^ 2 + 13 / 3 * e := by
  have ha0 := abs_nonneg a
  have h1 : |w + a| ≤ 2 * |a| + (u * |a| + e) := by
    have e1 : w + a = (w - a) + 2 * a := by ring
    rw [e1]
    have := abs_add_le (w - a) (2 * a)
    rw [abs_mul, abs_of_pos (by norm_num : (0 : ℝ) < 2)] at this
    linarith
  have e2 : w ^ 2 - a ^ 2 = (w - a) * (w + a) := by ring
  rw [e2, abs_mul]
  have hd0 : 0 ≤ u * |a| + e := by positivity
  have h2 : |w - a| * |w + a| ≤ (u * |a| + e) * (2 * |a| + (u * |a| + e)) :=
    mul_le_mul hw h1 (abs_nonneg _) hd0
  have e3 : (u * |a| + e) * (2 * |a| + (u * |a| + e)) = (2 * u + u ^ 2) * |a| ^ 2 + e * ((2 + 2 * u) * |a| + e) := by ring
  rw [e3, sq_abs] at h2
  have h3 : (2 + 2 * u) * |a| + e ≤ 13 / 3 := by nlinarith
  have h4 : e * ((2 + 2 * u) * |a| + e) ≤ e * (13 / 3) := mul_le_mul_of_nonneg_left h3 he0
  linarith

/-- the three scaled components -/
theorem comps_real {u e a1 a2 a3 w1 w2 w3 : ℝ} (hu0 : 0 ≤ u) (hu1 : u ≤ 1 / 64) (he0 : 0 ≤ e) (he1 : e ≤ 1 / 64)
    (hS : a1 ^ 2 + a2 ^ 2 + a3 ^ 2 ≤ 4)
    (h1 : |w1 - a1| ≤ u * |a1| + e) (h2 : |w2 - a2| ≤ u * |a2| + e) (h3 : |w3 - a3| ≤ u * |a3| + e) :
    |(w1 ^ 2 + w2 ^ 2 + w3 ^ 2) - (a1 ^ 2 + a2 ^ 2 + a3 ^ 2)| ≤ (2 * u + u ^ 2) * (a1 ^ 2 + a2 ^ 2 + a3 ^ 2) + 13 * e := by
  have b : ∀ a : ℝ, a ^ 2 ≤ 4 → |a| ≤ 2 := by
    intro a h
    have : |a| ^ 2 ≤ 2 ^ 2 := by rw [sq_abs]; linarith
    exact abs_le_of_sq_le_sq' (by rw [sq_abs] at this; linarith) (by norm_num) |> fun h => abs_le.mpr h
  have q1 := sq_nonneg a1
  have q2 := sq_nonneg a2
  have q3 := sq_nonneg a3
  have c1 := comp_real hu0 hu1 he0 he1 (b a1 (by linarith)) h1
  have c2 := comp_real hu0 hu1 he0 he1 (b a2 (by linarith)) h2
  have c3 := comp_real hu0 hu1 he0 he1 (b a3 (by linarith)) h3
  have e1 : (w1 ^ 2 + w2 ^ 2 + w3 ^ 2) - (a1 ^ 2 + a2 ^ 2 + a3 ^ 2)
      = (w1 ^ 2 - a1 ^ 2) + (w2 ^ 2 - a2 ^ 2) + (w3 ^ 2 - a3 ^ 2) := by ring
  rw [e1]
  have t1 := abs_add_le ((w1 ^ 2 - a1 ^ 2) + (w2 ^ 2 - a2 ^ 2)) (w3 ^ 2 - a3 ^ 2)
  have t2 := abs_add_le (w1 ^ 2 - a1 ^ 2) (w2 ^ 2 - a2 ^ 2)
  linarith

/-- the float squared norm `fl(fl(fl(x²)+fl(y²))+fl(z²))` in the standard model with underflow: relative error
    `3u + 3u² + u³` plus `4e` -/
theorem norm2_real {u e x y z px py pz s n2 : ℝ} (hu0 : 0 ≤ u) (hu1 : u ≤ 1 / 64) (he0 : 0 ≤ e)
    (hx : |px - x ^ 2| ≤ u * x ^ 2 + e) (hy : |py - y ^ 2| ≤ u * y ^ 2 + e) (hz : |pz - z ^ 2| ≤ u * z ^ 2 + e)
    (hs : |s - (px + py)| ≤ u * |px + py|) (hn : |n2 - (s + pz)| ≤ u * |s + pz|) :
    |n2 - (x ^ 2 + y ^ 2 + z ^ 2)| ≤ (3 * u + 3 * u ^ 2 + u ^ 3) * (x ^ 2 + y ^ 2 + z ^ 2) + 4 * e := by
  have qx := sq_nonneg x
  have qy := sq_nonneg y
  have qz := sq_nonneg z
  obtain ⟨x1, x2⟩ := abs_le.mp hx
  obtain ⟨y1, y2⟩ := abs_le.mp hy
  obtain ⟨z1, z2⟩ := abs_le.mp hz
  -- |px+py| ≤ (x²+y²)(1+u) + 2e
  have a1 : |px + py| ≤ (x ^ 2 + y ^ 2) * (1 + u) + 2 * e := by
    rw [abs_le]; constructor <;> nlinarith
  have a2 : |s - (px + py)| ≤ u * ((x ^ 2 + y ^ 2) * (1 + u) + 2 * e) :=
    le_trans hs (mul_le_mul_of_nonneg_left a1 hu0)
  obtain ⟨s1, s2⟩ := abs_le.mp a2
  -- |s + pz| ≤ (x²+y²)(1+u)² + z²(1+u) + 2e(1+u) + e
  have a3 : |s + pz| ≤ (x ^ 2 + y ^ 2) * (1 + u) ^ 2 + z ^ 2 * (1 + u) + 2 * e * (1 + u) + e := by
    rw [abs_le]; constructor <;> nlinarith
  have a4 : |n2 - (s + pz)| ≤ u * ((x ^ 2 + y ^ 2) * (1 + u) ^ 2 + z ^ 2 * (1 + u) + 2 * e * (1 + u) + e) :=
    le_trans hn (mul_le_mul_of_nonneg_left a3 hu0)
  obtain ⟨n1, n2'⟩ := abs_le.mp a4
  have ue : 0 ≤ u * e := mul_nonneg hu0 he0
  have uue : 0 ≤ u ^ 2 * e := mul_nonneg (sq_nonneg u) he0
  have ue1 : u * e ≤ 1 / 64 * e := mul_le_mul_of_nonneg_right hu1 he0
  have uue1 : u ^ 2 * e ≤ 1 / 64 * e := by
    have : u ^ 2 ≤ 1 / 64 := by nlinarith
    exact mul_le_mul_of_nonneg_right this he0
  have uz : 0 ≤ u * z ^ 2 := mul_nonneg hu0 qz
  have uuz : 0 ≤ u ^ 2 * z ^ 2 := mul_nonneg (sq_nonneg u) qz
  have uuuz : 0 ≤ u ^ 3 * z ^ 2 := mul_nonneg (by positivity) qz
  rw [abs_le]
  constructor <;> nlinarith

/-- the scaled exact squared norm `S = i²·V` from `i²·N2` and the relative error `d = 3u + 4u²` of `N2` -/
theorem S_real {u i N2 V : ℝ} (hu : u = 1 / 2 ^ 53) (hV : 0 ≤ V)
    (hN : |N2 - V| ≤ (3 * u + 4 * u ^ 2) * V)
    (hlo : (1 - 3 / 2 * u) ^ 2 ≤ i ^ 2 * N2) (hhi : i ^ 2 * N2 ≤ (1 + 3 / 2 * u + u ^ 2 / 2) ^ 2) :
    i ^ 2 * V * (1 - (3 * u + 4 * u ^ 2)) ≤ (1 + 3 / 2 * u + u ^ 2 / 2) ^ 2 ∧
    (1 - 3 / 2 * u) ^ 2 ≤ i ^ 2 * V * (1 + (3 * u + 4 * u ^ 2)) ∧ i ^ 2 * V ≤ 4 := by
  obtain ⟨n1, n2⟩ := abs_le.mp hN
  have i2 := sq_nonneg i
  have h1 : i ^ 2 * (V * (1 - (3 * u + 4 * u ^ 2))) ≤ i ^ 2 * N2 := mul_le_mul_of_nonneg_left (by linarith) i2
  have h2 : i ^ 2 * N2 ≤ i ^ 2 * (V * (1 + (3 * u + 4 * u ^ 2))) := mul_le_mul_of_nonneg_left (by linarith) i2
  have k1 : (1 + 3 / 2 * u + u ^ 2 / 2) ^ 2 ≤ 2 := by rw [hu]; norm_num
  have k2 : (1 : ℝ) / 2 ≤ 1 - (3 * u + 4 * u ^ 2) := by rw [hu]; norm_num
  have hS0 : 0 ≤ i ^ 2 * V := mul_nonneg i2 hV
  refine ⟨by linarith, by linarith, ?_⟩
  have : i ^ 2 * V * (1 / 2) ≤ i ^ 2 * V * (1 - (3 * u + 4 * u ^ 2)) := mul_le_mul_of_nonneg_left k2 hS0
  linarith

/-- the final numeric step: `|W − 1| ≤ 33/2^55` -/
theorem final_real {u e S W : ℝ} (hu : u = 1 / 2 ^ 53) (he0 : 0 ≤ e) (he : e ≤ 1 / 2 ^ 200) (hS0 : 0 ≤ S)
    (hS1 : S * (1 - (3 * u + 4 * u ^ 2)) ≤ (1 + 3 / 2 * u + u ^ 2 / 2) ^ 2)
    (hS2 : (1 - 3 / 2 * u) ^ 2 ≤ S * (1 + (3 * u + 4 * u ^ 2)))
    (hW : |W - S| ≤ (2 * u + u ^ 2) * S + 13 * e) : |W - 1| ≤ 33 / 2 ^ 55 := by
  obtain ⟨w1, w2⟩ := abs_le.mp hW
  have d1 : (0 : ℝ) < 1 - (3 * u + 4 * u ^ 2) := by rw [hu]; norm_num
  have d2 : (0 : ℝ) < 1 + (3 * u + 4 * u ^ 2) := by rw [hu]; norm_num
  have d1' : 1 - (3 * u + 4 * u ^ 2) ≤ 1 := by rw [hu]; norm_num
  have d2' : 1 + (3 * u + 4 * u ^ 2) ≤ 2 := by rw [hu]; norm_num
  have c0 : (0 : ℝ) ≤ 1 + 2 * u + u ^ 2 := by rw [hu]; norm_num
  have c1 : (0 : ℝ) ≤ 1 - 2 * u - u ^ 2 := by rw [hu]; norm_num
  have K1 : (1 + 2 * u + u ^ 2) * (1 + 3 / 2 * u + u ^ 2 / 2) ^ 2 + 13 * (1 / 2 ^ 200)
      ≤ (1 + 33 / 2 ^ 55) * (1 - (3 * u + 4 * u ^ 2)) := by rw [hu]; norm_num
  have K2 : (1 - 33 / 2 ^ 55) * (1 + (3 * u + 4 * u ^ 2))
      ≤ (1 - 2 * u - u ^ 2) * (1 - 3 / 2 * u) ^ 2 - 26 * (1 / 2 ^ 200) := by rw [hu]; norm_num
  rw [abs_le]
  constructor
  · -- lower
    have h1 : (1 - 2 * u - u ^ 2) * (1 - 3 / 2 * u) ^ 2 ≤ (1 - 2 * u - u ^ 2) * (S * (1 + (3 * u + 4 * u ^ 2))) :=
      mul_le_mul_of_nonneg_left hS2 c1
    have h2 : 13 * e * (1 + (3 * u + 4 * u ^ 2)) ≤ 13 * e * 2 := mul_le_mul_of_nonneg_left d2' (by linarith)
    have h3 : (1 - 33 / 2 ^ 55) * (1 + (3 * u + 4 * u ^ 2)) ≤ W * (1 + (3 * u + 4 * u ^ 2)) := by
      have : ((1 - 2 * u - u ^ 2) * S - 13 * e) * (1 + (3 * u + 4 * u ^ 2)) ≤ W * (1 + (3 * u + 4 * u ^ 2)) :=
        mul_le_mul_of_nonneg_right (by linarith) d2.le
      nlinarith
    have := le_of_mul_le_mul_right h3 d2
    linarith
  · have h1 : (1 + 2 * u + u ^ 2) * (S * (1 - (3 * u + 4 * u ^ 2))) ≤ (1 + 2 * u + u ^ 2) * (1 + 3 / 2 * u + u ^ 2 / 2) ^ 2 :=
      mul_le_mul_of_nonneg_left hS1 c0
    have h2 : 13 * e * (1 - (3 * u + 4 * u ^ 2)) ≤ 13 * e * 1 := mul_le_mul_of_nonneg_left d1' (by linarith)
    have h3 : W * (1 - (3 * u + 4 * u ^ 2)) ≤ (1 + 33 / 2 ^ 55) * (1 - (3 * u + 4 * u ^ 2)) := by
      have : W * (1 - (3 * u + 4 * u ^ 2)) ≤ ((1 + 2 * u + u ^ 2) * S + 13 * e) * (1 - (3 * u + 4 * u ^ 2)) :=
        mul_le_mul_of_nonneg_right (by linarith) d1.le
      nlinarith
    have := le_of_mul_le_mul_right h3 d1
    linarith

/-! ### C. the float chain -/

theorem toInt_pos_of_val_pos {x : F64} (h : 0 < val x) : 0 < toInt x := by
  unfold val at h
  have h2 : (0 : ℝ) < (toInt x : ℝ) := by
    have := mul_pos h (by positivity : (0 : ℝ) < 2 ^ 1074)
    rwa [div_mul_cancel₀ _ (by positivity)] at this
  exact_mod_cast h2

theorem signBit_of_val_pos {x : F64} (h : 0 < val x) : x.signBit = false := by
  have h1 := toInt_pos_of_val_pos h
  rw [S2Proofs.F64Inj.toInt_eq_mag] at h1
  cases hs : x.signBit
  · rfl
  · rw [hs] at h1; simp only [if_true] at h1; omega

theorem isZero_of_val_pos {x : F64} (h : 0 < val x) : x.isZero = false := by
  cases hz : x.isZero
  · rfl
  · rw [val_of_isZero hz] at h; exact absurd h (lt_irrefl _)

/-- **joint half-ulp facts of `r = fl(√x)` and `fl(1/r)`**, real form -/
theorem sqrt_inv_R {x : F64} (hx : Fin x) (hpos : 0 < val x) :
    ∃ t : ℝ, 0 < t ∧ Fin (F64.sqrt x) ∧ t ≤ val (F64.sqrt x) ∧ val (F64.sqrt x) ≤ 2 * t ∧
      (val (F64.sqrt x) - uR * t) ^ 2 ≤ val x ∧ val x ≤ (val (F64.sqrt x) + uR * t) ^ 2 ∧
      Fin (F64.one / F64.sqrt x) ∧ |val (F64.one / F64.sqrt x) - 1 / val (F64.sqrt x)| ≤ uR / (2 * t) := by
  obtain ⟨t, t0, fr, h1, h2, h3, h4, fi, h5⟩ :=
    NQ.sqrt_inv_Q hx (signBit_of_val_pos hpos) (isZero_of_val_pos hpos)
  refine ⟨(t : ℝ), by exact_mod_cast t0, fr, ?_, ?_, ?_, ?_, fi, ?_⟩
  · rw [← val_cast]; exact_mod_cast h1
  · rw [← val_cast]; exact_mod_cast h2
  · have : (((F64Round.val (F64.sqrt x) - t / 2 ^ 53) ^ 2 : ℚ) : ℝ) ≤ ((F64Round.val x : ℚ) : ℝ) := by exact_mod_cast h3
    push_cast at this
    rw [val_cast, val_cast] at this
    have e : uR * (t : ℝ) = (t : ℝ) / 2 ^ 53 := by unfold uR; ring
    rw [e]; exact this
  · have : ((F64Round.val x : ℚ) : ℝ) ≤ (((F64Round.val (F64.sqrt x) + t / 2 ^ 53) ^ 2 : ℚ) : ℝ) := by exact_mod_cast h4
    push_cast at this
    rw [val_cast, val_cast] at this
    have e : uR * (t : ℝ) = (t : ℝ) / 2 ^ 53 := by unfold uR; ring
    rw [e]; exact this
  · have : ((|F64Round.val (F64.div F64.one (F64.sqrt x)) - 1 / F64Round.val (F64.sqrt x)| : ℚ) : ℝ)
        ≤ ((1 / (2 ^ 54 * t) : ℚ) : ℝ) := by exact_mod_cast h5
    push_cast at this
    rw [val_cast, val_cast] at this
    have e : uR / (2 * (t : ℝ)) = 1 / (2 ^ 54 * (t : ℝ)) := by
      have : (t : ℝ) ≠ 0 := ne_of_gt (by exact_mod_cast t0)
      unfold uR; field_simp
    rw [e]; exact this

theorem mul_rnd {x y : F64} (hx : Fin x) (hy : Fin y) (hv : |val x * val y| < 2 ^ 1000) :
    Fin (x * y) ∧ |val (x * y) - val x * val y| ≤ uR * |val x * val y| + eR :=
  mul_step_raw stdModel hx hy hv

theorem add_rnd {x y : F64} (hx : Fin x) (hy : Fin y) (hv : |val x + val y| < 2 ^ 1000) :
    Fin (x + y) ∧ |val (x + y) - (val x + val y)| ≤ uR * |val x + val y| := by
  obtain ⟨δ, hδ, hval, hf⟩ := add_std x y hx hy hv
  refine ⟨hf, ?_⟩
  show |val (F64.add x y) - (val x + val y)| ≤ uR * |val x + val y|
  rw [hval]
  have e1 : (val x + val y) * (1 + δ) - (val x + val y) = δ * (val x + val y) := by ring
  rw [e1, abs_mul]
  exact mul_le_mul_of_nonneg_right hδ (abs_nonneg _)

/-- the reverse of `Normed.n2` -/
theorem normed_of_real {p : V3} (hf : Fin3 p) (h : |n2R p - 1| ≤ 33 / 2 ^ 55) : Normed p := by
  refine ⟨hf, ?_⟩
  rw [n2R_eq] at h
  have hS : (0 : ℝ) < (2 ^ 1074) ^ 2 := by positivity
  have goal : ((|norm2I p - (scale : ℤ) ^ 2| * 2 ^ 55 : ℤ) : ℝ) ≤ ((33 * (scale : ℤ) ^ 2 : ℤ) : ℝ) := by
    push_cast
    rw [scale_cast]
    generalize ((2 : ℝ) ^ 1074) ^ 2 = S at *
    generalize (norm2I p : ℝ) = N at *
    have e : N / S - 1 = (N - S) / S := by field_simp
    have h55 : (0 : ℝ) < 2 ^ 55 := by norm_num
    rw [e, abs_div, abs_of_pos hS, div_le_div_iff₀ hS h55] at h
    linarith
  exact_mod_cast goal


set_option exponentiation.threshold 1100 in
theorem big_consts : (16 : ℝ) * 2 ^ 960 + 16 < 2 ^ 1000 ∧ 4 * eR ≤ (uR ^ 2 - uR ^ 3) * (1 / 2 ^ 960) ∧
    eR ≤ 1 / 2 ^ 200 ∧ uR ≤ 1 / 64 ∧ 0 ≤ uR ^ 2 - uR ^ 3 := by
  unfold eR uR
  refine ⟨by norm_num, by norm_num, by norm_num, by norm_num, by norm_num⟩

/-- the float squared norm: finite, relative error `3u + 4u²` (underflow of tiny squares included) -/
theorem norm2_float (v : V3) (hv : Fin3 v) (hlo : 1 / 2 ^ 960 ≤ n2R v) (hhi : n2R v ≤ 2 ^ 960) :
    Fin v.norm2 ∧ |val v.norm2 - n2R v| ≤ (3 * uR + 4 * uR ^ 2) * n2R v := by
  obtain ⟨fx, fy, fz⟩ := hv
  obtain ⟨c1, c2, c3, c4, c5⟩ := big_consts
  have hu0 := uR_nonneg
  have he0 := eR_nonneg
  have he1 : eR ≤ 1 := eR_le_one
  have hB1 : (1 : ℝ) ≤ 2 ^ 960 := one_le_pow₀ (by norm_num)
  unfold n2R at hlo hhi ⊢
  generalize (2 : ℝ) ^ 960 = B at *
  generalize hT : (2 : ℝ) ^ 1000 = T at *
  generalize hx : val v.x = x at *
  generalize hy : val v.y = y at *
  generalize hz : val v.z = z at *
  have qx := sq_nonneg x
  have qy := sq_nonneg y
  have qz := sq_nonneg z
  have sqb : ∀ a : ℝ, a ^ 2 ≤ B → |a * a| < T := by
    intro a h; rw [abs_mul_self, ← sq]; linarith
  have conv : ∀ {a p : ℝ}, |p - a * a| ≤ uR * |a * a| + eR → |p - a ^ 2| ≤ uR * a ^ 2 + eR := by
    intro a p h; rw [abs_mul_self, ← sq] at h; exact h
  have pb : ∀ {a p : ℝ}, a ^ 2 ≤ B → |p - a ^ 2| ≤ uR * a ^ 2 + eR → |p| ≤ 2 * B + 1 := by
    intro a p ha h
    obtain ⟨h1, h2⟩ := abs_le.mp h
    have a0 := sq_nonneg a
    have : uR * a ^ 2 ≤ 1 / 64 * a ^ 2 := mul_le_mul_of_nonneg_right c4 a0
    rw [abs_le]; constructor <;> linarith
  obtain ⟨fpx, rx⟩ := mul_rnd fx fx (by rw [hx, hT]; exact sqb x (by linarith))
  obtain ⟨fpy, ry⟩ := mul_rnd fy fy (by rw [hy, hT]; exact sqb y (by linarith))
  obtain ⟨fpz, rz⟩ := mul_rnd fz fz (by rw [hz, hT]; exact sqb z (by linarith))
  rw [hx] at rx; rw [hy] at ry; rw [hz] at rz
  have rx' := conv rx
  have ry' := conv ry
  have rz' := conv rz
  have bx := pb (by linarith) rx'
  have by' := pb (by linarith) ry'
  have bz := pb (by linarith) rz'
  generalize hpx : val (v.x * v.x) = px at *
  generalize hpy : val (v.y * v.y) = py at *
  generalize hpz : val (v.z * v.z) = pz at *
  have bxy : |px + py| ≤ 4 * B + 2 := by
    have := abs_add_le px py; linarith
  obtain ⟨fs, rs⟩ := add_rnd fpx fpy (by rw [hpx, hpy, hT]; exact lt_of_le_of_lt bxy (by linarith))
  rw [hpx, hpy] at rs
  have bs : |val (v.x * v.x + v.y * v.y)| ≤ 8 * B + 4 := by
    have h1 : |val (v.x * v.x + v.y * v.y)| ≤ |val (v.x * v.x + v.y * v.y) - (px + py)| + |px + py| := by
      have := abs_add_le (val (v.x * v.x + v.y * v.y) - (px + py)) (px + py)
      rwa [sub_add_cancel] at this
    have h2 : uR * |px + py| ≤ 1 / 64 * |px + py| := mul_le_mul_of_nonneg_right c4 (abs_nonneg _)
    linarith
  generalize hs : val (v.x * v.x + v.y * v.y) = s at *
  have bsz : |s + pz| ≤ 10 * B + 5 := by
    have := abs_add_le s pz; linarith
  obtain ⟨fn, rn⟩ := add_rnd fs fpz (by rw [hs, hpz, hT]; exact lt_of_le_of_lt bsz (by linarith))
  rw [hs, hpz] at rn
  refine ⟨fn, ?_⟩
  have main := norm2_real hu0 c4 he0 rx' ry' rz' rs rn
  have e1 : v.norm2 = v.x * v.x + v.y * v.y + v.z * v.z := rfl
  rw [e1]
  have h3 : (uR ^ 2 - uR ^ 3) * (1 / B) ≤ (uR ^ 2 - uR ^ 3) * (x ^ 2 + y ^ 2 + z ^ 2) :=
    mul_le_mul_of_nonneg_left hlo c5
  linarith


theorem abs_le_two_of_sq {a : ℝ} (h : a ^ 2 ≤ 4) : |a| ≤ 2 := by
  have : |a| ^ 2 ≤ 2 ^ 2 := by rw [sq_abs]; linarith
  exact abs_le_of_sq_le_sq' (by rw [sq_abs] at this; linarith) (by norm_num) |> fun h => abs_le.mpr h

end S2Proofs.FE3.NormAux

namespace S2Proofs.FE3
open S2 S2.Exact S2.Pred S2Proofs.F64Order S2Proofs.PredLemmas S2Proofs.FloatErr
open NormAux

/-! ### D. the theorem -/

/-- **`V3.normalize` lands in `Normed`** (wide range): for a finite vector whose exact squared norm lies in `[2^-960, 2^960]`
    (no over/underflow of the squared norm) the float `Normalize` has finite coordinates and `| ‖·‖² − 1 | ≤ 33/2^55 = 8.25·2^-53`. -/
theorem normalize_normed_wide (v : V3) (hv : Fin3 v) (hlo : 1 / 2 ^ 960 ≤ n2R v) (hhi : n2R v ≤ 2 ^ 960) :
    Normed (V3.normalize v) := by
  obtain ⟨fn, hN⟩ := norm2_float v hv hlo hhi
  obtain ⟨fx, fy, fz⟩ := hv
  obtain ⟨_, _, c3, c4, _⟩ := big_consts
  have hu : uR = 1 / 2 ^ 53 := rfl
  have hu0 := uR_nonneg
  have he0 := eR_nonneg
  have hV : 0 < n2R v := lt_of_lt_of_le (by positivity) hlo
  have hd : 3 * uR + 4 * uR ^ 2 ≤ 1 / 2 := by rw [hu]; norm_num
  have hNpos : 0 < val v.norm2 := by
    have h1 := (abs_le.mp hN).1
    have h2 : (3 * uR + 4 * uR ^ 2) * n2R v ≤ 1 / 2 * n2R v := mul_le_mul_of_nonneg_right hd hV.le
    linarith
  have hfeq : F64.feq v.norm2 (F64.zero false) = false := by
    cases h : F64.feq v.norm2 (F64.zero false)
    · rfl
    · exfalso
      have h1 := (feq_iff fn (by decide)).mp h
      have h2 : toInt (F64.zero false) = 0 := by decide
      have h3 := toInt_pos_of_val_pos hNpos
      omega
  obtain ⟨t, t0, fr, h1, h2, h3, h4, fi, h5⟩ := sqrt_inv_R fn hNpos
  obtain ⟨i0, jlo, jhi⟩ := joint_real hu0 (by rw [hu]; norm_num) t0 h1 h2 h3 h4 h5
  obtain ⟨s1, s2, s4⟩ := S_real hu hV.le hN jlo jhi
  have en : V3.normalize v = ⟨(F64.one / F64.sqrt v.norm2) * v.x, (F64.one / F64.sqrt v.norm2) * v.y,
      (F64.one / F64.sqrt v.norm2) * v.z⟩ := by
    unfold V3.normalize
    simp only [hfeq, Bool.false_eq_true, if_false]
    rfl
  rw [en]
  generalize hi : F64.one / F64.sqrt v.norm2 = i at *
  have hS : (val i * val v.x) ^ 2 + (val i * val v.y) ^ 2 + (val i * val v.z) ^ 2 = val i ^ 2 * n2R v := by
    unfold n2R; ring
  have q1 := sq_nonneg (val i * val v.x)
  have q2 := sq_nonneg (val i * val v.y)
  have q3 := sq_nonneg (val i * val v.z)
  have big : ∀ a : ℝ, a ^ 2 ≤ 4 → |a| < 2 ^ 1000 := by
    intro a h
    have h1 := abs_le_two_of_sq h
    have h2 : (2 : ℝ) < 2 ^ 1000 := by
      calc (2 : ℝ) = 2 ^ 1 := by norm_num
        _ < 2 ^ 1000 := pow_lt_pow_right₀ (by norm_num) (by norm_num)
    exact lt_of_le_of_lt h1 h2
  obtain ⟨fwx, rx⟩ := mul_rnd fi fx (big _ (by linarith))
  obtain ⟨fwy, ry⟩ := mul_rnd fi fy (big _ (by linarith))
  obtain ⟨fwz, rz⟩ := mul_rnd fi fz (big _ (by linarith))
  have hW := comps_real hu0 c4 he0 (le_trans c3 (by norm_num)) (by rw [hS]; exact s4) rx ry rz
  rw [hS] at hW
  have hfin := final_real hu he0 c3 (mul_nonneg (sq_nonneg _) hV.le) s1 s2 hW
  exact normed_of_real ⟨fwx, fwy, fwz⟩ hfin

/-- **`V3.normalize` lands in `Normed`**: for a finite vector whose exact squared norm lies in `[2^-600, 2^600]` the float `Normalize`
    has finite coordinates and `| ‖·‖² − 1 | ≤ 33/2^55 = 8.25·2^-53`. -/
theorem normalize_normed (v : V3) (hv : Fin3 v) (hlo : 1 / 2 ^ 600 ≤ n2R v) (hhi : n2R v ≤ 2 ^ 600) :
    Normed (V3.normalize v) := by
  apply normalize_normed_wide v hv
  · refine le_trans ?_ hlo
    apply one_div_le_one_div_of_le (by positivity)
    exact pow_le_pow_right₀ (by norm_num) (by norm_num)
  · exact le_trans hhi (pow_le_pow_right₀ (by norm_num) (by norm_num))

/-- the real form of the conclusion -/
theorem normalize_n2 (v : V3) (hv : Fin3 v) (hlo : 1 / 2 ^ 600 ≤ n2R v) (hhi : n2R v ≤ 2 ^ 600) :
    |n2R (V3.normalize v) - 1| ≤ 33 / 2 ^ 55 := (normalize_normed v hv hlo hhi).n2

/-- coordinate form of the range hypothesis: all `|v_j| ≤ 2^299` and some `|v_j| ≥ 2^-300` -/
theorem normalize_normed_of_coord (v : V3) (hv : Fin3 v)
    (hx : |val v.x| ≤ 2 ^ 299) (hy : |val v.y| ≤ 2 ^ 299) (hz : |val v.z| ≤ 2 ^ 299)
    (hlo : 1 / 2 ^ 300 ≤ |val v.x| ∨ 1 / 2 ^ 300 ≤ |val v.y| ∨ 1 / 2 ^ 300 ≤ |val v.z|) :
    Normed (V3.normalize v) := by
  have e1 : (2 : ℝ) ^ 600 = 4 * (2 ^ 299) ^ 2 := by
    rw [← pow_mul, show (4 : ℝ) = 2 ^ 2 by norm_num, ← pow_add]
  have e2 : (1 : ℝ) / 2 ^ 600 = (1 / 2 ^ 300) ^ 2 := by
    rw [div_pow, one_pow, ← pow_mul]
  have hP : (0 : ℝ) ≤ 2 ^ 299 := by positivity
  have hQ : (0 : ℝ) ≤ 1 / 2 ^ 300 := by positivity
  have up : ∀ a : ℝ, |a| ≤ 2 ^ 299 → a ^ 2 ≤ (2 ^ 299) ^ 2 := by
    intro a h; rw [← sq_abs]; exact pow_le_pow_left₀ (abs_nonneg a) h 2
  have lo : ∀ a : ℝ, 1 / 2 ^ 300 ≤ |a| → (1 / 2 ^ 300) ^ 2 ≤ a ^ 2 := by
    intro a h; rw [← sq_abs a]; exact pow_le_pow_left₀ hQ h 2
  have ux := up _ hx
  have uy := up _ hy
  have uz := up _ hz
  have qx := sq_nonneg (val v.x)
  have qy := sq_nonneg (val v.y)
  have qz := sq_nonneg (val v.z)
  apply normalize_normed v hv
  · rw [e2]; unfold n2R
    generalize ((1 : ℝ) / 2 ^ 300) ^ 2 = L at *
    rcases hlo with h | h | h
    · have := lo _ h; linarith
    · have := lo _ h; linarith
    · have := lo _ h; linarith
  · rw [e1]; unfold n2R
    have := sq_nonneg ((2 : ℝ) ^ 299)
    generalize ((2 : ℝ) ^ 299) ^ 2 = P at *
    linarith

/-! ### non-vacuity -/

/-- the conclusion on `(1, 2, 3)`, computed -/
example : Normed (V3.normalize ⟨F64.one, F64.two, F64.three⟩) := by decide +kernel

private theorem val_of_toInt {x : F64} {k : ℤ} (h : toInt x = k * 2 ^ 1074) : val x = k := by
  unfold val; rw [h]; push_cast; field_simp

/-- the hypotheses on `(1, 2, 3)`: `‖v‖² = 14` -/
example : Fin3 ⟨F64.one, F64.two, F64.three⟩ ∧ (1 : ℝ) / 2 ^ 600 ≤ n2R ⟨F64.one, F64.two, F64.three⟩ ∧
    n2R ⟨F64.one, F64.two, F64.three⟩ ≤ 2 ^ 600 := by
  have h1 : val F64.one = ((1 : ℤ) : ℝ) := val_of_toInt (by decide +kernel)
  have h2 : val F64.two = ((2 : ℤ) : ℝ) := val_of_toInt (by decide +kernel)
  have h3 : val F64.three = ((3 : ℤ) : ℝ) := val_of_toInt (by decide +kernel)
  have e : n2R ⟨F64.one, F64.two, F64.three⟩ = 14 := by
    unfold n2R; simp only [h1, h2, h3]; norm_num
  refine ⟨by decide, ?_, ?_⟩
  · rw [e]
    have : (1 : ℝ) / 2 ^ 600 ≤ 1 := by
      rw [div_le_one (by positivity)]; exact one_le_pow₀ (by norm_num)
    linarith
  · rw [e]
    calc (14 : ℝ) ≤ 2 ^ 4 := by norm_num
      _ ≤ 2 ^ 600 := pow_le_pow_right₀ (by norm_num) (by norm_num)

/-- the constant is within a factor 1.5 of what occurs: on this vector (found by random search) `‖normalize v‖² − 1 < −5.5·2^-53`
    (the bound is `8.25·2^-53`; the first-order analysis gives `8·2^-53`) -/
example : 22 * (scale : ℤ) ^ 2 < ((scale : ℤ) ^ 2 - norm2I (V3.normalize ⟨⟨0xC016DD49C7F59CAC⟩, ⟨0xBFA25F86E82FCBA0⟩, ⟨0xBFED7AFA93D7CE4E⟩⟩)) * 2 ^ 55 := by
  decide +kernel

end S2Proofs.FE3
