/-
  FloatErr3.Sin2Core — pure-ℝ scalar part of the error analysis of `sin2Distance`.

  Inputs (all real numbers, `u = 2^-53`):
    M = ‖N‖ (N = (x−y)×(x+y) exact), ν = ‖n‖ (n the computed cross product),
      |ν − M| ≤ aC·M + (kC + 5e)                aC = 4.1548u,  kC = 3.1548u·16.5u
    m = fl(‖n‖²):  |m − ν²| ≤ rC·ν² + 4e          rC = 3.0001u
    σ = fl(m/4):   |σ − m/4| ≤ e
    S = sin² exact: |M²/4 − S| ≤ tC·M²/4          tC = 16.501u
    g = √σ,  sf = fl(√σ) ≥ g(1−2^-58)(1−u),  err ≥ (1−u)³(Aσ + B·sf + C) − 2e,
    A ≥ 27.928u, B ≥ 55.4u², C ≥ 767.9u⁴.
  Output:  |σ − S| ≤ (1 − 2^-50)·err.

  Rigorous coefficients needed (in the final comparison, units u / u² / u⁴):
      27.811 ≤ 27.928,   52.07 ≤ 55.4,   677.8 ≤ 767.9 .
-/
import Mathlib.Tactic.Ring
import Mathlib.Tactic.Linarith
import Mathlib.Tactic.Positivity
import Mathlib.Tactic.NormNum
import Mathlib.Data.Real.Basic
import S2Proofs.FloatErr.RealCore

namespace S2Proofs.FE3
open S2Proofs.FloatErr

noncomputable def aC : ℝ := 41548 / 10000 / 2 ^ 53
noncomputable def kC : ℝ := 31548 / 10000 / 2 ^ 53 * (33 / 2 ^ 54)
noncomputable def rC : ℝ := 30001 / 10000 / 2 ^ 53
noncomputable def tC : ℝ := 16501 / 1000 / 2 ^ 53
noncomputable def AloC : ℝ := 27928 / 1000 / 2 ^ 53
noncomputable def BloC : ℝ := 554 / 10 / 2 ^ 106
noncomputable def CloC : ℝ := 7679 / 10 / 2 ^ 212
/-- `1 + 2^-50 ≥ 1/(1−aC), 1/(1−rC)` -/
noncomputable def cC : ℝ := 1 + 1 / 2 ^ 50
/-- numeric bound of the absolute error of `ν` -/
noncomputable def kN : ℝ := kC + 5 / 2 ^ 250
noncomputable def a1C : ℝ := aC * cC
noncomputable def k1C : ℝ := (aC * cC + 1) * kN
noncomputable def L2C : ℝ := (rC + tC) / 4 + (1 + tC) * (a1C * (2 + a1C)) / 4
noncomputable def L1C : ℝ := (1 + tC) * ((1 + a1C) * k1C) / 2
noncomputable def L0C : ℝ := (1 + tC) * k1C ^ 2 / 4

theorem consts_cmp :
    L2C * (4 * cC) ≤ (1 - 1 / 2 ^ 50) * ((1 - 1 / 2 ^ 53) ^ 3 * AloC) ∧
    L1C * (2 * cC) ≤ (1 - 1 / 2 ^ 50) * ((1 - 1 / 2 ^ 53) ^ 3 * (BloC * ((1 - 1 / 2 ^ 58) * (1 - 1 / 2 ^ 53)))) ∧
    2 / 2 ^ 250 + L2C * (4 * cC) * (2 / 2 ^ 250) + L1C * (2 * cC) * (1 / 2 ^ 206) + L0C
        + (1 - 1 / 2 ^ 50) * (2 / 2 ^ 250)
      ≤ (1 - 1 / 2 ^ 50) * ((1 - 1 / 2 ^ 53) ^ 3 * CloC) := by
  unfold L2C L1C L0C k1C a1C kN cC AloC BloC CloC tC rC kC aC
  refine ⟨?_, ?_, ?_⟩ <;> norm_num

theorem sin2_scalar {e ε M ν m σ g S sf err A B C : ℝ}
    (he : 0 ≤ e) (he4 : e ≤ 1 / 2 ^ 250) (hε0 : 0 ≤ ε) (hε : 2 * e ≤ ε ^ 2) (hε2 : ε ≤ 1 / 2 ^ 206)
    (hM : 0 ≤ M) (hν : 0 ≤ ν)
    (h1 : |ν - M| ≤ aC * M + (kC + 5 * e))
    (h2 : |m - ν ^ 2| ≤ rC * ν ^ 2 + 4 * e)
    (h3 : |σ - m / 4| ≤ e)
    (hg0 : 0 ≤ g) (hg : g ^ 2 = σ)
    (h4 : |M ^ 2 / 4 - S| ≤ tC * (M ^ 2 / 4))
    (hsf : g * ((1 - 1 / 2 ^ 58) * (1 - 1 / 2 ^ 53)) ≤ sf)
    (hA : AloC ≤ A) (hB : BloC ≤ B) (hC : CloC ≤ C)
    (herr : (1 - 1 / 2 ^ 53) ^ 3 * (A * σ + B * sf + C) - 2 * e ≤ err) :
    |σ - S| ≤ (1 - 1 / 2 ^ 50) * err := by
  have ha0 : 0 ≤ aC := by unfold aC; positivity
  have hk0 : 0 ≤ kN := by unfold kN kC; positivity
  have hc0 : 0 ≤ cC := by unfold cC; positivity
  have hca : 1 ≤ cC * (1 - aC) := by unfold cC aC; norm_num
  have hcr : 1 ≤ cC * (1 - rC) := by unfold cC rC; norm_num
  have hr0 : 0 ≤ rC := by unfold rC; positivity
  have hr1 : rC ≤ 1 := by unfold rC; norm_num
  have ht0 : 0 ≤ tC := by unfold tC; positivity
  -- absolute part numeric
  have hk : kC + 5 * e ≤ kN := by unfold kN; linarith
  have h1' : |ν - M| ≤ aC * M + kN := by linarith
  obtain ⟨h1a, h1b⟩ := abs_le.mp h1'
  -- M ≤ c(ν + k)
  have hMle : M ≤ cC * (ν + kN) := by
    have t1 : M ≤ cC * (1 - aC) * M := le_mul_of_one_le_left hM hca
    have t2 : cC * ((1 - aC) * M) ≤ cC * (ν + kN) := mul_le_mul_of_nonneg_left (by linarith) hc0
    linarith
  -- E ≤ E'
  have hE' : aC * M + kN ≤ a1C * ν + k1C := by
    have := mul_le_mul_of_nonneg_left hMle ha0
    have e : a1C * ν + k1C = aC * (cC * (ν + kN)) + kN := by unfold a1C k1C; ring
    linarith
  have hE0 : 0 ≤ aC * M + kN := by positivity
  -- |ν² − M²| ≤ W
  have hW1 : |ν ^ 2 - M ^ 2| ≤ (aC * M + kN) * (2 * ν + (aC * M + kN)) := by
    have e : ν ^ 2 - M ^ 2 = (ν - M) * (ν + M) := by ring
    rw [e, abs_mul, abs_of_nonneg (by linarith : 0 ≤ ν + M)]
    exact mul_le_mul h1' (by linarith) (by linarith) hE0
  have hW2 : (aC * M + kN) * (2 * ν + (aC * M + kN)) ≤ (a1C * ν + k1C) * (2 * ν + (a1C * ν + k1C)) :=
    mul_le_mul hE' (by linarith) (by linarith) (by linarith)
  set W := (a1C * ν + k1C) * (2 * ν + (a1C * ν + k1C)) with hWdef
  have hW : |ν ^ 2 - M ^ 2| ≤ W := le_trans hW1 hW2
  have hW0 : 0 ≤ W := le_trans (abs_nonneg _) hW
  obtain ⟨hWa, hWb⟩ := abs_le.mp hW
  -- |σ − S|
  have hM2 : 0 ≤ M ^ 2 := sq_nonneg M
  have hν2 : 0 ≤ ν ^ 2 := sq_nonneg ν
  have step1 : |σ - S| ≤ 2 * e + (rC + tC) / 4 * ν ^ 2 + (1 + tC) / 4 * W := by
    obtain ⟨p1, p2⟩ := abs_le.mp h2
    obtain ⟨p3, p4⟩ := abs_le.mp h3
    obtain ⟨p5, p6⟩ := abs_le.mp h4
    have hm : tC * (M ^ 2 / 4) ≤ tC * ((ν ^ 2 + W) / 4) :=
      mul_le_mul_of_nonneg_left (by linarith) ht0
    have e1 : tC * ((ν ^ 2 + W) / 4) = tC / 4 * ν ^ 2 + tC / 4 * W := by ring
    have e2 : (rC + tC) / 4 * ν ^ 2 + (1 + tC) / 4 * W
        = rC / 4 * ν ^ 2 + tC / 4 * ν ^ 2 + W / 4 + tC / 4 * W := by ring
    rw [abs_le]; constructor <;> linarith
  -- ν in terms of g
  have hq : ν ^ 2 * (1 - rC) ≤ 4 * (g ^ 2 + 2 * e) := by
    obtain ⟨p1, p2⟩ := abs_le.mp h2
    obtain ⟨p3, p4⟩ := abs_le.mp h3
    rw [hg]; linarith
  have hν2le : ν ^ 2 ≤ 4 * cC * (g ^ 2 + 2 * e) := by
    have t1 : ν ^ 2 ≤ cC * (1 - rC) * ν ^ 2 := le_mul_of_one_le_left hν2 hcr
    have t2 : cC * (ν ^ 2 * (1 - rC)) ≤ cC * (4 * (g ^ 2 + 2 * e)) := mul_le_mul_of_nonneg_left hq hc0
    linarith
  have hνle : ν ≤ 2 * cC * (g + ε) := by
    have hgε : 0 ≤ g + ε := by linarith
    have t0 : (ν * (1 - rC)) ^ 2 ≤ (2 * (g + ε)) ^ 2 := by
      have a1 : (ν * (1 - rC)) ^ 2 = ν ^ 2 * (1 - rC) * (1 - rC) := by ring
      have a2 : ν ^ 2 * (1 - rC) * (1 - rC) ≤ ν ^ 2 * (1 - rC) * 1 :=
        mul_le_mul_of_nonneg_left (by linarith) (mul_nonneg hν2 (by linarith))
      have a3 : (2 * (g + ε)) ^ 2 = 4 * (g ^ 2 + ε ^ 2) + 8 * (g * ε) := by ring
      have a4 : 0 ≤ g * ε := mul_nonneg hg0 hε0
      rw [a1, a3]; linarith
    have t1 : ν * (1 - rC) ≤ 2 * (g + ε) :=
      le_of_sq_le (mul_nonneg hν (by linarith)) (by linarith) t0
    have t2 : ν ≤ cC * (1 - rC) * ν := le_mul_of_one_le_left hν hcr
    have t3 : cC * (ν * (1 - rC)) ≤ cC * (2 * (g + ε)) := mul_le_mul_of_nonneg_left t1 hc0
    linarith
  -- expand W
  have hWexp : W = a1C * (2 + a1C) * ν ^ 2 + 2 * ((1 + a1C) * k1C) * ν + k1C ^ 2 := by rw [hWdef]; ring
  have hL : 2 * e + (rC + tC) / 4 * ν ^ 2 + (1 + tC) / 4 * W = 2 * e + L2C * ν ^ 2 + L1C * ν + L0C := by
    rw [hWexp]; unfold L2C L1C L0C; ring
  have hL2 : 0 ≤ L2C := by unfold L2C a1C aC cC rC tC; positivity
  have hL1 : 0 ≤ L1C := by unfold L1C k1C a1C kN kC aC cC tC; positivity
  have b2 : L2C * ν ^ 2 ≤ L2C * (4 * cC * (g ^ 2 + 2 * e)) := mul_le_mul_of_nonneg_left hν2le hL2
  have b1 : L1C * ν ≤ L1C * (2 * cC * (g + ε)) := mul_le_mul_of_nonneg_left hνle hL1
  obtain ⟨c2, c1, c0⟩ := consts_cmp
  have hgg : 0 ≤ g ^ 2 := sq_nonneg g
  have d2 := mul_le_mul_of_nonneg_right c2 hgg
  have d1 := mul_le_mul_of_nonneg_right c1 hg0
  -- the computed bound from below
  have hs0 : (0 : ℝ) ≤ (1 - 1 / 2 ^ 58) * (1 - 1 / 2 ^ 53) := by norm_num
  have hsf0 : 0 ≤ sf := le_trans (mul_nonneg hg0 hs0) hsf
  have hAlo0 : 0 ≤ AloC := by unfold AloC; positivity
  have hBlo0 : 0 ≤ BloC := by unfold BloC; positivity
  have f1 : AloC * g ^ 2 ≤ A * σ := by rw [hg]; exact mul_le_mul_of_nonneg_right hA (by rw [← hg]; exact hgg)
  have f2 : BloC * (g * ((1 - 1 / 2 ^ 58) * (1 - 1 / 2 ^ 53))) ≤ B * sf :=
    mul_le_mul hB hsf (mul_nonneg hg0 hs0) (le_trans hBlo0 hB)
  have hr50 : (0 : ℝ) ≤ 1 - 1 / 2 ^ 50 := by norm_num
  have hu3 : (0 : ℝ) ≤ (1 - 1 / 2 ^ 53) ^ 3 := by norm_num
  have f3 : (1 - 1 / 2 ^ 53) ^ 3 * (AloC * g ^ 2 + BloC * (g * ((1 - 1 / 2 ^ 58) * (1 - 1 / 2 ^ 53))) + CloC)
      ≤ (1 - 1 / 2 ^ 53) ^ 3 * (A * σ + B * sf + C) := mul_le_mul_of_nonneg_left (by linarith) hu3
  have f4 : (1 - 1 / 2 ^ 50) * ((1 - 1 / 2 ^ 53) ^ 3
        * (AloC * g ^ 2 + BloC * (g * ((1 - 1 / 2 ^ 58) * (1 - 1 / 2 ^ 53))) + CloC) - 2 * e)
      ≤ (1 - 1 / 2 ^ 50) * err := mul_le_mul_of_nonneg_left (by linarith) hr50
  -- the e / ε terms
  have g1 : L2C * (4 * cC) * (2 * e) ≤ L2C * (4 * cC) * (2 / 2 ^ 250) :=
    mul_le_mul_of_nonneg_left (by linarith) (by positivity)
  have g2 : L1C * (2 * cC) * ε ≤ L1C * (2 * cC) * (1 / 2 ^ 206) :=
    mul_le_mul_of_nonneg_left hε2 (by positivity)
  have g3 : (1 - 1 / 2 ^ 50) * (2 * e) ≤ (1 - 1 / 2 ^ 50) * (2 / 2 ^ 250) :=
    mul_le_mul_of_nonneg_left (by linarith) hr50
  have e5 : L2C * (4 * cC * (g ^ 2 + 2 * e)) = L2C * (4 * cC) * g ^ 2 + L2C * (4 * cC) * (2 * e) := by ring
  have e6 : L1C * (2 * cC * (g + ε)) = L1C * (2 * cC) * g + L1C * (2 * cC) * ε := by ring
  have e7 : (1 - 1 / 2 ^ 50) * ((1 - 1 / 2 ^ 53) ^ 3
        * (AloC * g ^ 2 + BloC * (g * ((1 - 1 / 2 ^ 58) * (1 - 1 / 2 ^ 53))) + CloC) - 2 * e)
      = (1 - 1 / 2 ^ 50) * ((1 - 1 / 2 ^ 53) ^ 3 * AloC) * g ^ 2
        + (1 - 1 / 2 ^ 50) * ((1 - 1 / 2 ^ 53) ^ 3 * (BloC * ((1 - 1 / 2 ^ 58) * (1 - 1 / 2 ^ 53)))) * g
        + (1 - 1 / 2 ^ 50) * ((1 - 1 / 2 ^ 53) ^ 3 * CloC) - (1 - 1 / 2 ^ 50) * (2 * e) := by ring
  linarith

end S2Proofs.FE3
