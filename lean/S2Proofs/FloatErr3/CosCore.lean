/-
  FloatErr3.CosCore — pure-ℝ cores of the cosine triage stages (no floats here).

  Notation: u = 2^-53.  `s` exact dot products of the float vectors, `c` their float values, `n·` exact norms
  (within `w = 4.2u` of 1), `E` the error bound computed by the code.

  * `pair_core`   (CompareDistances): if the TRUE cosines satisfy cos AX ≤ cos BX (`sA·nb ≤ sB·na`) then
                  `cA − cB ≤ E`, i.e. the stage cannot claim AX < BX.
  * `single_core_le` / `single_core_ge` (CompareDistance, limit r ≤ 90°): the same against `cos r`.

  Each has two regimes: "big" (first-order slack of the multiplicative term pays all second-order terms) and
  "tiny" (everything ≤ 2^-45: half-ulp bound + integrality of the float cosines).
-/
import Mathlib.Tactic.Ring
import Mathlib.Tactic.Linarith
import Mathlib.Tactic.Positivity
import Mathlib.Tactic.NormNum
import Mathlib.Data.Real.Basic

namespace S2Proofs.FE3

/-- the half-ulp facts of one float cosine, as delivered by `dot_tiny` -/
def TinySide (c s : ℝ) : Prop :=
  |c| ≤ 1 / 2 ^ 45 →
    |c - s| ≤ 3 / 2 ^ 54 + 1 / 2 ^ 90 ∧ ((∃ n : ℤ, c = n / 2 ^ 53) ∨ |c - s| ≤ 5 / 2 ^ 55 + 1 / 2 ^ 90)

/-- the standard-model envelope of one float cosine: `|c − s| ≤ 1.6u·|s| + 1.5u + 20u²` -/
def StdSide (c s : ℝ) : Prop := |c - s| ≤ 8 / 5 / 2 ^ 53 * |s| + (3 / 2 ^ 54 + 20 / 2 ^ 106)

/-- norms within `4.2u` of 1 -/
def NearOne (n : ℝ) : Prop := 1 - 21 / 5 / 2 ^ 53 ≤ n ∧ n ≤ 1 + 21 / 5 / 2 ^ 53

theorem StdSide.abs_s {c s : ℝ} (h : StdSide c s) : |s| ≤ (1 + 2 / 2 ^ 53) * |c| + 2 / 2 ^ 53 := by
  unfold StdSide at h
  have h1 := abs_sub_abs_le_abs_sub s c
  rw [abs_sub_comm] at h1
  have a := abs_nonneg s
  have b := abs_nonneg c
  nlinarith

theorem StdSide.abs_d {c s : ℝ} (h : StdSide c s) :
    |c - s| ≤ 17 / 10 / 2 ^ 53 * |c| + (3 / 2 ^ 54 + 24 / 2 ^ 106) := by
  have h1 := h.abs_s
  unfold StdSide at h
  have b := abs_nonneg c
  nlinarith

/-- if the true cosines are ordered `sA/na ≤ sB/nb` then `sA − sB ≤ 4.3u·(|sA|+|sB|)` -/
theorem diff_of_order {sA sB na nb : ℝ} (hna : NearOne na) (hnb : NearOne nb) (h : sA * nb ≤ sB * na) :
    sA - sB ≤ 43 / 10 / 2 ^ 53 * (|sA| + |sB|) := by
  obtain ⟨a1, a2⟩ := hna
  obtain ⟨b1, b2⟩ := hnb
  have hA := abs_nonneg sA
  have hB := abs_nonneg sB
  have lA := le_abs_self sA
  have lB := le_abs_self sB
  have nA := neg_abs_le sA
  have nB := neg_abs_le sB
  by_cases hD : sA - sB ≤ 0
  · have : 0 ≤ 43 / 10 / 2 ^ 53 * (|sA| + |sB|) := by positivity
    linarith
  · have hD' : 0 < sA - sB := not_le.mp hD
    -- nb·(sA − sB) ≤ sB·(na − nb) ≤ |sB|·2w,  na·(sA − sB) ≤ sA·(na − nb) ≤ |sA|·2w
    have k1 : nb * (sA - sB) ≤ |sB| * (42 / 5 / 2 ^ 53) := by
      have : nb * (sA - sB) ≤ sB * (na - nb) := by nlinarith
      have h2 : sB * (na - nb) ≤ |sB| * (42 / 5 / 2 ^ 53) := by
        have : |sB * (na - nb)| = |sB| * |na - nb| := abs_mul _ _
        have h3 : |na - nb| ≤ 42 / 5 / 2 ^ 53 := abs_le.mpr ⟨by linarith, by linarith⟩
        have := mul_le_mul_of_nonneg_left h3 hB
        have := le_abs_self (sB * (na - nb))
        linarith
      linarith
    have k2 : na * (sA - sB) ≤ |sA| * (42 / 5 / 2 ^ 53) := by
      have : na * (sA - sB) ≤ sA * (na - nb) := by nlinarith
      have h2 : sA * (na - nb) ≤ |sA| * (42 / 5 / 2 ^ 53) := by
        have : |sA * (na - nb)| = |sA| * |na - nb| := abs_mul _ _
        have h3 : |na - nb| ≤ 42 / 5 / 2 ^ 53 := abs_le.mpr ⟨by linarith, by linarith⟩
        have := mul_le_mul_of_nonneg_left h3 hA
        have := le_abs_self (sA * (na - nb))
        linarith
      linarith
    have k3 : (1 - 21 / 5 / 2 ^ 53) * (sA - sB) ≤ nb * (sA - sB) :=
      mul_le_mul_of_nonneg_right b1 (le_of_lt hD')
    have k4 : (1 - 21 / 5 / 2 ^ 53) * (sA - sB) ≤ na * (sA - sB) :=
      mul_le_mul_of_nonneg_right a1 (le_of_lt hD')
    nlinarith

/-- an integer multiple of `2^-53` that is at most `3·2^-53 + small` is at most `2·2^-53` or equals `3·2^-53` -/
theorem int_units_le {k : ℤ} {ε : ℝ} (hε : ε < 1 / 2 ^ 53) (h : (k : ℝ) / 2 ^ 53 ≤ 3 / 2 ^ 53 + ε) : k ≤ 3 := by
  have h53 : (0 : ℝ) < 2 ^ 53 := by positivity
  have : (k : ℝ) < 4 := by
    have h1 : (k : ℝ) / 2 ^ 53 < 4 / 2 ^ 53 := by
      have : (3 : ℝ) / 2 ^ 53 + 1 / 2 ^ 53 = 4 / 2 ^ 53 := by ring
      linarith
    rwa [div_lt_div_iff_of_pos_right h53] at h1
  have : k < 4 := by exact_mod_cast this
  omega

theorem int_units_le1 {k : ℤ} {ε : ℝ} (hε : ε < 1 / 2 ^ 54) (h : (k : ℝ) / 2 ^ 53 ≤ 3 / 2 ^ 54 + ε) : k ≤ 1 := by
  have h53 : (0 : ℝ) < 2 ^ 53 := by positivity
  have : (k : ℝ) < 2 := by
    have h1 : (k : ℝ) / 2 ^ 53 < 2 / 2 ^ 53 := by
      have : (3 : ℝ) / 2 ^ 54 + 1 / 2 ^ 54 = 2 / 2 ^ 53 := by norm_num
      linarith
    rwa [div_lt_div_iff_of_pos_right h53] at h1
  have : k < 2 := by exact_mod_cast this
  omega

/-- **pair core**: true order `cos AX ≤ cos BX` forces `cA − cB ≤ E` -/
theorem pair_core {sA sB na nb cA cB E : ℝ} (hna : NearOne na) (hnb : NearOne nb)
    (h : sA * nb ≤ sB * na)
    (stdA : StdSide cA sA) (stdB : StdSide cB sB) (tinyA : TinySide cA sA) (tinyB : TinySide cB sB)
    (hE : (19 / 2 ^ 54 - 80 / 2 ^ 106) * (|cA| + |cB|) + (3 / 2 ^ 53 - 19 / 2 ^ 106) ≤ E) :
    cA - cB ≤ E := by
  have hcA := abs_nonneg cA
  have hcB := abs_nonneg cB
  have hsA := abs_nonneg sA
  have hsB := abs_nonneg sB
  have hdiff := diff_of_order hna hnb h
  have sA' := stdA.abs_s
  have sB' := stdB.abs_s
  have dA := stdA.abs_d
  have dB := stdB.abs_d
  have lA := le_abs_self (cA - sA)
  have lB := neg_abs_le (cB - sB)
  -- cA − cB = (sA − sB) + (cA − sA) − (cB − sB)
  have key : cA - cB ≤ 43 / 10 / 2 ^ 53 * (|sA| + |sB|) + |cA - sA| + |cB - sB| := by linarith
  by_cases hC : 1 / 2 ^ 48 ≤ |cA| + |cB|
  · -- big regime
    nlinarith
  · -- tiny regime
    have hC' : |cA| + |cB| < 1 / 2 ^ 48 := not_le.mp hC
    have tA : |cA| ≤ 1 / 2 ^ 45 := by
      have : (1 : ℝ) / 2 ^ 48 ≤ 1 / 2 ^ 45 := by norm_num
      linarith
    have tB : |cB| ≤ 1 / 2 ^ 45 := by
      have : (1 : ℝ) / 2 ^ 48 ≤ 1 / 2 ^ 45 := by norm_num
      linarith
    obtain ⟨eA, altA⟩ := tinyA tA
    obtain ⟨eB, altB⟩ := tinyB tB
    have hs : 43 / 10 / 2 ^ 53 * (|sA| + |sB|) ≤ 1 / 2 ^ 95 := by nlinarith
    have hE0 : 3 / 2 ^ 53 - 19 / 2 ^ 106 ≤ E := by
      have : 0 ≤ (19 / 2 ^ 54 - 80 / 2 ^ 106) * (|cA| + |cB|) := by
        apply mul_nonneg (by norm_num) (by linarith)
      linarith
    rcases altA with ⟨nA, hnA⟩ | altA
    · rcases altB with ⟨nB, hnB⟩ | altB
      · -- both float cosines are integer multiples of u
        have ek : cA - cB = ((nA - nB : ℤ) : ℝ) / 2 ^ 53 := by rw [hnA, hnB]; push_cast; ring
        have hk : ((nA - nB : ℤ) : ℝ) / 2 ^ 53 ≤ 3 / 2 ^ 53 + (1 / 2 ^ 95 + 2 / 2 ^ 90) := by
          rw [← ek]; linarith
        have hk3 := int_units_le (by norm_num) hk
        rcases Int.lt_or_eq_of_le hk3 with hlt | heq
        · have h2 : (nA - nB : ℤ) ≤ 2 := by omega
          have h2' : ((nA - nB : ℤ) : ℝ) ≤ 2 := by exact_mod_cast h2
          have : cA - cB ≤ 2 / 2 ^ 53 := by
            rw [ek]; exact div_le_div_of_nonneg_right h2' (by positivity)
          have : (2 : ℝ) / 2 ^ 53 ≤ 3 / 2 ^ 53 - 19 / 2 ^ 106 := by norm_num
          linarith
        · have e3 : cA - cB = 3 / 2 ^ 53 := by rw [ek, heq]; norm_num
          have hC3 : 3 / 2 ^ 53 ≤ |cA| + |cB| := by
            have := le_abs_self cA
            have := neg_abs_le cB
            linarith
          have : (19 / 2 ^ 54 - 80 / 2 ^ 106) * (3 / 2 ^ 53) ≤ (19 / 2 ^ 54 - 80 / 2 ^ 106) * (|cA| + |cB|) :=
            mul_le_mul_of_nonneg_left hC3 (by norm_num)
          have : (0 : ℝ) ≤ (19 / 2 ^ 54 - 80 / 2 ^ 106) * (3 / 2 ^ 53) - 19 / 2 ^ 106 := by norm_num
          linarith
      · have : (3 : ℝ) / 2 ^ 54 + 1 / 2 ^ 90 + (5 / 2 ^ 55 + 1 / 2 ^ 90) + 1 / 2 ^ 95 ≤ 3 / 2 ^ 53 - 19 / 2 ^ 106 := by
          norm_num
        linarith
    · have : (3 : ℝ) / 2 ^ 54 + 1 / 2 ^ 90 + (5 / 2 ^ 55 + 1 / 2 ^ 90) + 1 / 2 ^ 95 ≤ 3 / 2 ^ 53 - 19 / 2 ^ 106 := by
        norm_num
      linarith

/-! ### one distance against a limit `r ≤ 90°` -/

/-- the product of the two norms: within `[1 − 8.4u, 1 + 8.5u]` -/
def NearOneProd (P : ℝ) : Prop := 1 - 42 / 5 / 2 ^ 53 ≤ P ∧ P ≤ 1 + 85 / 10 / 2 ^ 53

theorem nearOneProd_of {nx ny : ℝ} (hx : NearOne nx) (hy : NearOne ny) : NearOneProd (nx * ny) := by
  obtain ⟨x1, x2⟩ := hx
  obtain ⟨y1, y2⟩ := hy
  constructor <;> nlinarith

/-- the float `cos r` of the code (`cR`) against the exact one (`R`): relative error u; exact and an integer
    multiple of u when it is tiny -/
def CosRSide (cR R : ℝ) : Prop :=
  0 ≤ R ∧ R ≤ 1 ∧ |cR - R| ≤ R / 2 ^ 53 ∧ (cR ≤ 1 / 2 ^ 45 → cR = R ∧ ∃ N : ℤ, cR = N / 2 ^ 53)

/-- the computed error bound of `triageCompareCosDistance` from below -/
def SingleErr (c cR E : ℝ) : Prop :=
  (19 / 2 ^ 54 - 80 / 2 ^ 106) * |c| + (3 / 2 ^ 54 - 10 / 2 ^ 106) + (2 / 2 ^ 53 - 13 / 2 ^ 106) * cR ≤ E

theorem CosRSide.cR_bounds {cR R : ℝ} (h : CosRSide cR R) :
    0 ≤ cR ∧ R ≤ (1 + 2 / 2 ^ 53) * cR ∧ cR ≤ (1 + 1 / 2 ^ 53) * R := by
  obtain ⟨h0, h1, h2, _⟩ := h
  obtain ⟨a, b⟩ := abs_le.mp h2
  refine ⟨by nlinarith, by nlinarith, by nlinarith⟩

/-- **single core, direction 1**: if truly `cos XY ≤ cos r` then `c − cR ≤ E` (the stage cannot claim XY < r) -/
theorem single_core_le {s t P c cR R E : ℝ} (hP : NearOneProd P) (hs : s = t * P) (hR : CosRSide cR R)
    (std : StdSide c s) (tiny : TinySide c s) (hE : SingleErr c cR E) (h : t ≤ R) : c - cR ≤ E := by
  obtain ⟨p1, p2⟩ := hP
  obtain ⟨r0, rle, rρ⟩ := hR.cR_bounds
  obtain ⟨hR0, hR1, hρ, hRt⟩ := hR
  have hc := abs_nonneg c
  unfold SingleErr at hE
  have hE0 : 3 / 2 ^ 54 - 10 / 2 ^ 106 ≤ E := by
    have : 0 ≤ (19 / 2 ^ 54 - 80 / 2 ^ 106) * |c| := mul_nonneg (by norm_num) hc
    have : 0 ≤ (2 / 2 ^ 53 - 13 / 2 ^ 106) * cR := mul_nonneg (by norm_num) r0
    linarith
  by_cases hle : c ≤ cR
  · have : (0 : ℝ) ≤ 3 / 2 ^ 54 - 10 / 2 ^ 106 := by norm_num
    linarith
  have hlt : cR < c := not_le.mp hle
  have hcpos : |c| = c := abs_of_pos (lt_of_le_of_lt r0 hlt)
  -- s − R ≤ 8.5u·R
  have hsR : s - R ≤ 85 / 10 / 2 ^ 53 * R := by
    rw [hs]
    by_cases ht : 0 ≤ t
    · have h1 : t * P ≤ R * P := mul_le_mul_of_nonneg_right h (by linarith)
      have h2 : R * P ≤ R * (1 + 85 / 10 / 2 ^ 53) := mul_le_mul_of_nonneg_left p2 hR0
      linarith
    · have : t * P ≤ 0 := mul_nonpos_of_nonpos_of_nonneg (le_of_lt (not_le.mp ht)) (by linarith)
      have : 0 ≤ 85 / 10 / 2 ^ 53 * R := by positivity
      linarith
  obtain ⟨ρ1, ρ2⟩ := abs_le.mp hρ
  have ld := le_abs_self (c - s)
  have key : c - cR ≤ |c - s| + 95 / 10 / 2 ^ 53 * R := by linarith
  by_cases hbig : 1 / 2 ^ 45 ≤ c
  · have dA := std.abs_d
    rw [hcpos] at dA hE
    nlinarith
  · have hsm : c < 1 / 2 ^ 45 := not_lt.mp (fun h' => hbig (le_of_lt h')) |>.lt_of_ne (fun h' => hbig (le_of_eq h'.symm))
    have tc : |c| ≤ 1 / 2 ^ 45 := by rw [hcpos]; exact le_of_lt hsm
    obtain ⟨eD, alt⟩ := tiny tc
    obtain ⟨eqR, N, hN⟩ := hRt (by linarith)
    have hRs : 95 / 10 / 2 ^ 53 * R ≤ 1 / 2 ^ 94 := by rw [← eqR]; nlinarith
    rcases alt with ⟨n, hn⟩ | alt
    · have ek : c - cR = ((n - N : ℤ) : ℝ) / 2 ^ 53 := by rw [hn, hN]; push_cast; ring
      have hk : ((n - N : ℤ) : ℝ) / 2 ^ 53 ≤ 3 / 2 ^ 54 + (1 / 2 ^ 90 + 1 / 2 ^ 94) := by rw [← ek]; linarith
      have hk1 := int_units_le1 (by norm_num) hk
      have h1' : ((n - N : ℤ) : ℝ) ≤ 1 := by exact_mod_cast hk1
      have : c - cR ≤ 1 / 2 ^ 53 := by rw [ek]; exact div_le_div_of_nonneg_right h1' (by positivity)
      have : (1 : ℝ) / 2 ^ 53 ≤ 3 / 2 ^ 54 - 10 / 2 ^ 106 := by norm_num
      linarith
    · have : (5 : ℝ) / 2 ^ 55 + 1 / 2 ^ 90 + 1 / 2 ^ 94 ≤ 3 / 2 ^ 54 - 10 / 2 ^ 106 := by norm_num
      linarith

/-- **single core, direction 2**: if truly `cos r ≤ cos XY` then `cR − c ≤ E` (the stage cannot claim XY > r) -/
theorem single_core_ge {s t P c cR R E : ℝ} (hP : NearOneProd P) (hs : s = t * P) (hR : CosRSide cR R)
    (std : StdSide c s) (tiny : TinySide c s) (hE : SingleErr c cR E) (h : R ≤ t) : cR - c ≤ E := by
  obtain ⟨p1, p2⟩ := hP
  obtain ⟨r0, rle, rρ⟩ := hR.cR_bounds
  obtain ⟨hR0, hR1, hρ, hRt⟩ := hR
  have hc := abs_nonneg c
  unfold SingleErr at hE
  have hE0 : 3 / 2 ^ 54 - 10 / 2 ^ 106 ≤ E := by
    have : 0 ≤ (19 / 2 ^ 54 - 80 / 2 ^ 106) * |c| := mul_nonneg (by norm_num) hc
    have : 0 ≤ (2 / 2 ^ 53 - 13 / 2 ^ 106) * cR := mul_nonneg (by norm_num) r0
    linarith
  by_cases hle : cR ≤ c
  · have : (0 : ℝ) ≤ 3 / 2 ^ 54 - 10 / 2 ^ 106 := by norm_num
    linarith
  have hlt : c < cR := not_le.mp hle
  -- R − s ≤ 8.4u·R
  have hsR : R - s ≤ 42 / 5 / 2 ^ 53 * R := by
    rw [hs]
    have ht : 0 ≤ t := le_trans hR0 h
    have h1 : R * P ≤ t * P := mul_le_mul_of_nonneg_right h (by linarith)
    have h2 : R * (1 - 42 / 5 / 2 ^ 53) ≤ R * P := mul_le_mul_of_nonneg_left p1 hR0
    linarith
  obtain ⟨ρ1, ρ2⟩ := abs_le.mp hρ
  have ld := neg_abs_le (c - s)
  have lc := le_abs_self c
  have nc := neg_abs_le c
  have key : cR - c ≤ |c - s| + 95 / 10 / 2 ^ 53 * R := by linarith
  have dA := std.abs_d
  -- c is not far below cR
  have clow : (1 - 10 / 2 ^ 53) * cR - |c - s| ≤ c := by nlinarith
  by_cases hbig : 1 / 2 ^ 45 ≤ cR
  · nlinarith
  · have hsm : cR ≤ 1 / 2 ^ 45 := le_of_lt (not_le.mp hbig)
    have tc : |c| ≤ 1 / 2 ^ 45 := by
      rcases le_or_gt 0 c with h0 | h0
      · rw [abs_of_nonneg h0]; linarith
      · rw [abs_of_neg h0] at dA ⊢
        have : 0 ≤ (1 - 10 / 2 ^ 53) * cR := mul_nonneg (by norm_num) r0
        nlinarith
    obtain ⟨eD, alt⟩ := tiny tc
    obtain ⟨eqR, N, hN⟩ := hRt hsm
    have hRs : 95 / 10 / 2 ^ 53 * R ≤ 1 / 2 ^ 94 := by rw [← eqR]; nlinarith
    rcases alt with ⟨n, hn⟩ | alt
    · have ek : cR - c = ((N - n : ℤ) : ℝ) / 2 ^ 53 := by rw [hn, hN]; push_cast; ring
      have hk : ((N - n : ℤ) : ℝ) / 2 ^ 53 ≤ 3 / 2 ^ 54 + (1 / 2 ^ 90 + 1 / 2 ^ 94) := by rw [← ek]; linarith
      have hk1 := int_units_le1 (by norm_num) hk
      have h1' : ((N - n : ℤ) : ℝ) ≤ 1 := by exact_mod_cast hk1
      have : cR - c ≤ 1 / 2 ^ 53 := by rw [ek]; exact div_le_div_of_nonneg_right h1' (by positivity)
      have : (1 : ℝ) / 2 ^ 53 ≤ 3 / 2 ^ 54 - 10 / 2 ^ 106 := by norm_num
      linarith
    · have : (5 : ℝ) / 2 ^ 55 + 1 / 2 ^ 90 + 1 / 2 ^ 94 ≤ 3 / 2 ^ 54 - 10 / 2 ^ 106 := by norm_num
      linarith

end S2Proofs.FE3
