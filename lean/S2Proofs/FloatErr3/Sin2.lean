/-
  FloatErr3.Sin2 — rigorous error bound of `sin2Distance` (Go: `s2/predicates.go`):

      n    = (x.sub y).cross (x.add y)
      sin2 = 0.25 * n.norm2
      err  = sin2ErrA * sin2 + sin2ErrB * sqrt sin2 + sin2ErrC

  `sin2_error_bound`: for `Normed` inputs (| ‖p‖² − 1 | ≤ 8.25·2^-53) both outputs are finite, `0 ≤ sin2 ≤ 2`,
  `2^-210 ≤ err ≤ 1` and
      | sin2 − sin2True x y | ≤ (1 − 2^-50) · err .
  Rigorous coefficients obtained (units u, u², u⁴; u = 2^-53) versus the code's:
      27.811 ≤ 27.928 (= 21+4√3),   52.07 ≤ 55.4 (32√3 = 55.43),   677.8 ≤ 767.9 (768).
  No hypothesis is left.  Pure-ℝ parts: `Sin2Vec.lean` (vector norms), `Sin2Core.lean` (scalar bookkeeping);
  float helpers: `Sin2Aux.lean`.
-/
import S2Proofs.FloatErr3.Sin2Aux

set_option linter.unusedSimpArgs false
set_option linter.unusedVariables false

namespace S2Proofs.FE3
open S2 S2.Exact S2.Pred S2Proofs.F64Order S2Proofs.PredLemmas S2Proofs.FloatErr

section steps
variable (H : StdModel)
include H

theorem add_step5 {x y : F64} (hx : Fin x) (hy : Fin y) (mx : |val x| ≤ 2) (my : |val y| ≤ 2) :
    Fin (x + y) ∧ Rnd uR 0 (val x + val y) (val (x + y)) ∧ |val (x + y)| ≤ 5 := by
  have m : |val x + val y| ≤ 4 := by have := abs_add_le (val x) (val y); linarith
  obtain ⟨f, r, _⟩ := add_step H hx hy m (by norm_num)
  refine ⟨f, r, ?_⟩
  have h1 := r.abs_le
  have h2 : uR * |val x + val y| ≤ 1 / 4 * 4 :=
    mul_le_mul uR_le_quarter m (abs_nonneg _) (by norm_num)
  linarith

/-- lower bound of the computed error term `fl(fl(fl(A·σ) + fl(B·s)) + C)` (all values non-negative) -/
theorem err_lower {A B C σ sf : F64} (fA : Fin A) (fB : Fin B) (fC : Fin C) (fσ : Fin σ) (fs : Fin sf)
    (hA0 : 0 ≤ val A) (hA1 : val A ≤ 1) (hB0 : 0 ≤ val B) (hB1 : val B ≤ 1) (hC0 : 0 ≤ val C) (hC1 : val C ≤ 1)
    (hσ0 : 0 ≤ val σ) (hσ1 : val σ ≤ 8) (hs0 : 0 ≤ val sf) (hs1 : val sf ≤ 2 ^ 515) :
    Fin (A * σ + B * sf + C) ∧
    (1 - uR) ^ 3 * (val A * val σ + val B * val sf + val C) - 2 * eR ≤ val (A * σ + B * sf + C) ∧
    val (A * σ + B * sf + C) ≤ 2 * (val A * val σ + val B * val sf + val C) + 4 * eR := by
  have hP1 : (4 : ℝ) ≤ 2 ^ 515 := by
    have h : (2 : ℝ) ^ 2 ≤ 2 ^ 515 := pow_le_pow_right₀ (by norm_num) (by norm_num)
    have h4 : (2 : ℝ) ^ 2 = 4 := by norm_num
    rw [h4] at h; exact h
  have hPQ : (16 : ℝ) * 2 ^ 515 < 2 ^ 1000 := by
    have : (16 : ℝ) * 2 ^ 515 = 2 ^ 519 := by
      rw [show (16 : ℝ) = 2 ^ 4 by norm_num, ← pow_add]
    rw [this]; exact pow_lt_pow_right₀ (by norm_num) (by norm_num)
  have hbig : ∀ z : ℝ, z ≤ 16 * 2 ^ 515 → z < 2 ^ 1000 := fun z hz => lt_of_le_of_lt hz hPQ
  clear hPQ
  have hu0 := uR_nonneg
  have hu1 := uR_le_quarter
  have he0 := eR_nonneg
  have he1 := eR_le_one
  have ha0 : 0 ≤ val A * val σ := mul_nonneg hA0 hσ0
  have ha1 : val A * val σ ≤ 8 := by
    have := mul_le_mul hA1 hσ1 hσ0 (by norm_num : (0 : ℝ) ≤ 1); linarith
  have hb0 : 0 ≤ val B * val sf := mul_nonneg hB0 hs0
  have hb1 : val B * val sf ≤ 2 ^ 515 := by
    have := mul_le_mul hB1 hs1 hs0 (by norm_num : (0 : ℝ) ≤ 1); linarith
  generalize (2 : ℝ) ^ 515 = P at *
  obtain ⟨f1, r1⟩ := mul_step_raw H fA fσ (by rw [abs_of_nonneg ha0]; exact hbig _ (by linarith))
  obtain ⟨f2, r2⟩ := mul_step_raw H fB fs (by rw [abs_of_nonneg hb0]; exact hbig _ (by linarith))
  have n1 := mul_nn fA fσ f1 ha0
  have n2 := mul_nn fB fs f2 hb0
  unfold Rnd at r1 r2
  rw [abs_of_nonneg ha0] at r1
  rw [abs_of_nonneg hb0] at r2
  obtain ⟨r1a, r1b⟩ := abs_le.mp r1
  obtain ⟨r2a, r2b⟩ := abs_le.mp r2
  have ua : uR * (val A * val σ) ≤ 1 / 4 * 8 := mul_le_mul hu1 ha1 ha0 (by norm_num)
  have ub : uR * (val B * val sf) ≤ 1 / 4 * P := mul_le_mul hu1 hb1 hb0 (by norm_num)
  have hsum0 : 0 ≤ val (A * σ) + val (B * sf) := by linarith
  obtain ⟨δ, hδ, hv3, f3⟩ := H.add (A * σ) (B * sf) f1 f2
    (by rw [abs_of_nonneg hsum0]; exact hbig _ (by linarith))
  obtain ⟨hδa, hδb⟩ := abs_le.mp hδ
  have hv3' : val (A * σ + B * sf) = (val (A * σ) + val (B * sf)) * (1 + δ) := hv3
  have k1 : (val (A * σ) + val (B * sf)) * (1 - uR) ≤ val (A * σ + B * sf) := by
    rw [hv3']; exact mul_le_mul_of_nonneg_left (by linarith) hsum0
  have k1' : val (A * σ + B * sf) ≤ (val (A * σ) + val (B * sf)) * 2 := by
    rw [hv3']; exact mul_le_mul_of_nonneg_left (by linarith) hsum0
  have hw0 : 0 ≤ 1 - uR := by linarith
  have hw1 : 1 - uR ≤ 1 := by linarith
  have n3 : 0 ≤ val (A * σ + B * sf) := le_trans (mul_nonneg hsum0 hw0) k1
  have hsum1 : 0 ≤ val (A * σ + B * sf) + val C := by linarith
  obtain ⟨δ', hδ', hv4, f4⟩ := H.add (A * σ + B * sf) C f3 fC
    (by rw [abs_of_nonneg hsum1]; exact hbig _ (by linarith))
  obtain ⟨hδa', hδb'⟩ := abs_le.mp hδ'
  have hv4' : val (A * σ + B * sf + C) = (val (A * σ + B * sf) + val C) * (1 + δ') := hv4
  have k3 : (val (A * σ + B * sf) + val C) * (1 - uR) ≤ val (A * σ + B * sf + C) := by
    rw [hv4']; exact mul_le_mul_of_nonneg_left (by linarith) hsum1
  have k5 : val (A * σ + B * sf) ≤ (val (A * σ) + val (B * sf)) * (5 / 4) := by
    rw [hv3']; exact mul_le_mul_of_nonneg_left (by linarith) hsum0
  have k6 : val (A * σ + B * sf + C) ≤ (val (A * σ + B * sf) + val C) * (5 / 4) := by
    rw [hv4']; exact mul_le_mul_of_nonneg_left (by linarith) hsum1
  have ua' : uR * (val A * val σ) ≤ 1 / 4 * (val A * val σ) := mul_le_mul_of_nonneg_right hu1 ha0
  have ub' : uR * (val B * val sf) ≤ 1 / 4 * (val B * val sf) := mul_le_mul_of_nonneg_right hu1 hb0
  refine ⟨f4, ?_, by linarith⟩
  set a := val A * val σ
  set b := val B * val sf
  set c := val C
  set w := 1 - uR with hw
  have k2 : ((a + b) * w - 2 * eR) * w ≤ (val (A * σ) + val (B * sf)) * w := by
    apply mul_le_mul_of_nonneg_right _ hw0
    have e1 : (a + b) * w = (a + b) - uR * a - uR * b := by rw [hw]; ring
    linarith
  have k4 : (((a + b) * w - 2 * eR) * w + c) * w ≤ (val (A * σ + B * sf) + c) * w :=
    mul_le_mul_of_nonneg_right (by linarith) hw0
  have hw2 : w ^ 2 ≤ 1 := by
    have : w * w ≤ 1 * 1 := mul_le_mul hw1 hw1 hw0 (by norm_num)
    rw [sq]; linarith
  have q1 : 0 ≤ c * w * (1 - w ^ 2) := mul_nonneg (mul_nonneg hC0 hw0) (by linarith)
  have q2 : 0 ≤ eR * (1 - w ^ 2) := mul_nonneg he0 (by linarith)
  have e2 : (((a + b) * w - 2 * eR) * w + c) * w - (w ^ 3 * (a + b + c) - 2 * eR)
      = c * w * (1 - w ^ 2) + 2 * (eR * (1 - w ^ 2)) := by ring
  linarith

/-- the float squared norm of a float vector is (exactly) non-negative -/
theorem norm2_nn (v : V3) (hv : Fin3 v) (mv : |val v.x| ≤ 5 ∧ |val v.y| ≤ 5 ∧ |val v.z| ≤ 5) :
    0 ≤ val v.norm2 := by
  obtain ⟨h1, h2, h3⟩ := hv
  obtain ⟨m1, m2, m3⟩ := mv
  have p1 : |val v.x * val v.x| ≤ 25 := by have := abs_mul_le_of m1 m1; linarith
  have p2 : |val v.y * val v.y| ≤ 25 := by have := abs_mul_le_of m2 m2; linarith
  have p3 : |val v.z * val v.z| ≤ 25 := by have := abs_mul_le_of m3 m3; linarith
  obtain ⟨fq1, rq1, gq1⟩ := mul_step H h1 h1 p1 (by norm_num)
  obtain ⟨fq2, rq2, gq2⟩ := mul_step H h2 h2 p2 (by norm_num)
  obtain ⟨fq3, rq3, gq3⟩ := mul_step H h3 h3 p3 (by norm_num)
  have ms : |val (v.x * v.x) + val (v.y * v.y)| ≤ 102 := by
    have := abs_add_le (val (v.x * v.x)) (val (v.y * v.y)); linarith
  obtain ⟨fs, rs, gs⟩ := add_step H fq1 fq2 ms (by norm_num)
  have md : |val (v.x * v.x + v.y * v.y) + val (v.z * v.z)| ≤ 256 := by
    have := abs_add_le (val (v.x * v.x + v.y * v.y)) (val (v.z * v.z)); linarith
  obtain ⟨fd, rd, _⟩ := add_step H fs fq3 md (by norm_num)
  have n1 := mul_nn h1 h1 fq1 (mul_self_nonneg _)
  have n2 := mul_nn h2 h2 fq2 (mul_self_nonneg _)
  have n3 := mul_nn h3 h3 fq3 (mul_self_nonneg _)
  have n4 := add_nn fq1 fq2 fs (by linarith)
  exact add_nn fs fq3 fd (by linarith)

end steps

theorem quarter_val : val quarter = 1 / 4 := by
  rw [← val_cast, quarter_valQ]; norm_num

theorem toInt_nonneg_of_val {m : F64} (h : 0 ≤ val m) : 0 ≤ toInt m := by
  unfold val at h
  have hT : (0 : ℝ) < 2 ^ 1074 := by positivity
  have : (0 : ℝ) ≤ (toInt m : ℝ) := by
    by_contra hc
    have hc := not_le.mp hc
    have := div_neg_of_neg_of_pos hc hT
    linarith
  exact_mod_cast this

theorem eR_facts : eR ≤ 1 / 2 ^ 250 ∧ (0 : ℝ) ≤ 1 / 2 ^ 537 ∧ 2 * eR ≤ (1 / 2 ^ 537 : ℝ) ^ 2 ∧
    (1 / 2 ^ 537 : ℝ) ≤ 1 / 2 ^ 206 ∧ eR ≤ 1 / 16 := by
  refine ⟨?_, by positivity, ?_, ?_, ?_⟩
  · unfold eR
    exact one_div_le_one_div_of_le (by positivity) (pow_le_pow_right₀ (by norm_num) (by norm_num))
  · unfold eR
    have h1 : (2 : ℝ) ^ 1075 = 2 ^ 1074 * 2 := pow_succ 2 1074
    have h2 : ((1 : ℝ) / 2 ^ 537) ^ 2 = 1 / 2 ^ 1074 := by rw [div_pow, one_pow, ← pow_mul]
    rw [h1, h2]
    have hT : (0 : ℝ) < 2 ^ 1074 := by positivity
    generalize (2 : ℝ) ^ 1074 = T at *
    apply le_of_eq; field_simp
  · exact one_div_le_one_div_of_le (by positivity) (pow_le_pow_right₀ (by norm_num) (by norm_num))
  · unfold eR
    have : (1 : ℝ) / 16 = 1 / 2 ^ 4 := by norm_num
    rw [this]
    exact one_div_le_one_div_of_le (by positivity) (pow_le_pow_right₀ (by norm_num) (by norm_num))

/-- **error bound of `sin2Distance`**, on the explicit terms -/
theorem sin2_parts (x y : V3) (hx : Normed x) (hy : Normed y) :
    Fin (quarter * ((x.sub y).cross (x.add y)).norm2) ∧
    Fin (sin2ErrA * (quarter * ((x.sub y).cross (x.add y)).norm2)
      + sin2ErrB * F64.sqrt (quarter * ((x.sub y).cross (x.add y)).norm2) + sin2ErrC) ∧
    0 ≤ val (quarter * ((x.sub y).cross (x.add y)).norm2) ∧
    val (quarter * ((x.sub y).cross (x.add y)).norm2) ≤ 2 ∧
    val (sin2ErrA * (quarter * ((x.sub y).cross (x.add y)).norm2)
      + sin2ErrB * F64.sqrt (quarter * ((x.sub y).cross (x.add y)).norm2) + sin2ErrC) ≤ 1 ∧
    1 / 2 ^ 210 ≤ val (sin2ErrA * (quarter * ((x.sub y).cross (x.add y)).norm2)
      + sin2ErrB * F64.sqrt (quarter * ((x.sub y).cross (x.add y)).norm2) + sin2ErrC) ∧
    |val (quarter * ((x.sub y).cross (x.add y)).norm2) - sin2True x y|
      ≤ (1 - 1 / 2 ^ 50) * val (sin2ErrA * (quarter * ((x.sub y).cross (x.add y)).norm2)
      + sin2ErrB * F64.sqrt (quarter * ((x.sub y).cross (x.add y)).norm2) + sin2ErrC) := by
  have H := stdModel
  obtain ⟨cx1, cx2, cx3⟩ := hx.coord_le
  obtain ⟨cy1, cy2, cy3⟩ := hy.coord_le
  obtain ⟨fx1, fx2, fx3⟩ := hx.1
  obtain ⟨fy1, fy2, fy3⟩ := hy.1
  obtain ⟨fd1, rd1, md1⟩ := sub_step5 H fx1 fy1 cx1 cy1
  obtain ⟨fd2, rd2, md2⟩ := sub_step5 H fx2 fy2 cx2 cy2
  obtain ⟨fd3, rd3, md3⟩ := sub_step5 H fx3 fy3 cx3 cy3
  obtain ⟨fs1, rs1, ms1⟩ := add_step5 H fx1 fy1 cx1 cy1
  obtain ⟨fs2, rs2, ms2⟩ := add_step5 H fx2 fy2 cx2 cy2
  obtain ⟨fs3, rs3, ms3⟩ := add_step5 H fx3 fy3 cx3 cy3
  obtain ⟨fn1, gn1, r23, r32, rn1⟩ := cross_step5 H fd2 fs3 fd3 fs2 md2 ms3 md3 ms2
  obtain ⟨fn2, gn2, r31, r13, rn2⟩ := cross_step5 H fd3 fs1 fd1 fs3 md3 ms1 md1 ms3
  obtain ⟨fn3, gn3, r12, r21, rn3⟩ := cross_step5 H fd1 fs2 fd2 fs1 md1 ms2 md2 ms1
  have fN : Fin3 ((x.sub y).cross (x.add y)) := ⟨fn1, fn2, fn3⟩
  -- exact real vectors and their norms
  have hA0 := Real.sqrt_nonneg ((val x.x - val y.x) ^ 2 + (val x.y - val y.y) ^ 2 + (val x.z - val y.z) ^ 2)
  have hA2 := Real.sq_sqrt (show 0 ≤ (val x.x - val y.x) ^ 2 + (val x.y - val y.y) ^ 2 + (val x.z - val y.z) ^ 2
    by positivity)
  have hB0 := Real.sqrt_nonneg ((val x.x + val y.x) ^ 2 + (val x.y + val y.y) ^ 2 + (val x.z + val y.z) ^ 2)
  have hB2 := Real.sq_sqrt (show 0 ≤ (val x.x + val y.x) ^ 2 + (val x.y + val y.y) ^ 2 + (val x.z + val y.z) ^ 2
    by positivity)
  have hM0 := Real.sqrt_nonneg
    (((val x.y - val y.y) * (val x.z + val y.z) - (val x.z - val y.z) * (val x.y + val y.y)) ^ 2
      + ((val x.z - val y.z) * (val x.x + val y.x) - (val x.x - val y.x) * (val x.z + val y.z)) ^ 2
      + ((val x.x - val y.x) * (val x.y + val y.y) - (val x.y - val y.y) * (val x.x + val y.x)) ^ 2)
  have hM2 := Real.sq_sqrt (show 0 ≤
    ((val x.y - val y.y) * (val x.z + val y.z) - (val x.z - val y.z) * (val x.y + val y.y)) ^ 2
      + ((val x.z - val y.z) * (val x.x + val y.x) - (val x.x - val y.x) * (val x.z + val y.z)) ^ 2
      + ((val x.x - val y.x) * (val x.y + val y.y) - (val x.y - val y.y) * (val x.x + val y.x)) ^ 2 by positivity)
  set A0 := Real.sqrt ((val x.x - val y.x) ^ 2 + (val x.y - val y.y) ^ 2 + (val x.z - val y.z) ^ 2)
  set B0 := Real.sqrt ((val x.x + val y.x) ^ 2 + (val x.y + val y.y) ^ 2 + (val x.z + val y.z) ^ 2)
  set M := Real.sqrt
    (((val x.y - val y.y) * (val x.z + val y.z) - (val x.z - val y.z) * (val x.y + val y.y)) ^ 2
      + ((val x.z - val y.z) * (val x.x + val y.x) - (val x.x - val y.x) * (val x.z + val y.z)) ^ 2
      + ((val x.x - val y.x) * (val x.y + val y.y) - (val x.y - val y.y) * (val x.x + val y.x)) ^ 2)
  have hβ : 0 ≤ betaR := by unfold betaR; positivity
  have hvec := cross_vec_error uR_nonneg eR_nonneg hβ beta_sq rd1 rd2 rd3 rs1 rs2 rs3
    r23 r32 rn1 r31 r13 rn2 r12 r21 rn3
    (A0 := A0) (B0 := B0) (M := M) ⟨hA0, le_of_eq hA2.symm⟩ ⟨hB0, le_of_eq hB2.symm⟩ ⟨hM0, le_of_eq hM2.symm⟩
  -- D ≤ M + 2τ
  have hD := norm_prod_le hA0 hB0 hM0 hA2 hB2 hM2
  have hxn := hx.n2
  have hyn := hy.n2
  have hw : |(val x.x - val y.x) * (val x.x + val y.x) + (val x.y - val y.y) * (val x.y + val y.y)
      + (val x.z - val y.z) * (val x.z + val y.z)| ≤ 33 / 2 ^ 54 := by
    have e : (val x.x - val y.x) * (val x.x + val y.x) + (val x.y - val y.y) * (val x.y + val y.y)
        + (val x.z - val y.z) * (val x.z + val y.z) = (n2R x - 1) - (n2R y - 1) := by unfold n2R; ring
    rw [e]
    have := abs_sub (n2R x - 1) (n2R y - 1)
    have e2 : (33 : ℝ) / 2 ^ 54 = 33 / 2 ^ 55 + 33 / 2 ^ 55 := by norm_num
    linarith
  obtain ⟨ef1, ef2, ef3, ef4, ef5⟩ := eR_facts
  have hE0 := E0_le hM0 (mul_nonneg hA0 hB0) hD hw eR_nonneg
  -- the computed vector and its norm
  have hν0 := Real.sqrt_nonneg (val ((x.sub y).cross (x.add y)).x ^ 2 + val ((x.sub y).cross (x.add y)).y ^ 2
    + val ((x.sub y).cross (x.add y)).z ^ 2)
  have hν2 := Real.sq_sqrt (show 0 ≤ val ((x.sub y).cross (x.add y)).x ^ 2 + val ((x.sub y).cross (x.add y)).y ^ 2
    + val ((x.sub y).cross (x.add y)).z ^ 2 by positivity)
  set ν := Real.sqrt (val ((x.sub y).cross (x.add y)).x ^ 2 + val ((x.sub y).cross (x.add y)).y ^ 2
    + val ((x.sub y).cross (x.add y)).z ^ 2)
  have h1 : |ν - M| ≤ aC * M + (kC + 5 * eR) := le_trans (NB.norm_sub hvec hν0 hν2 hM0 hM2) hE0
  -- magnitudes
  have hM4 : M ^ 2 = 4 * cross2R x y := by rw [hM2]; unfold cross2R; ring
  have hc0 : 0 ≤ cross2R x y := by unfold cross2R; positivity
  have hcle : cross2R x y ≤ 2 := by
    have h1 := lagrange_id x y
    have h2 := sq_nonneg (dotR x y)
    have h3 := hx.n2_le
    have h4 := hy.n2_le
    have h5 := hx.n2_ge
    have h6 : n2R x * n2R y ≤ (1 + 33 / 2 ^ 55) * (1 + 33 / 2 ^ 55) :=
      mul_le_mul h3 h4 (le_trans (by norm_num) hy.n2_ge) (by norm_num)
    have h7 : (1 + 33 / 2 ^ 55 : ℝ) * (1 + 33 / 2 ^ 55) ≤ 2 := by norm_num
    linarith
  have hcle' : cross2R x y ≤ (1 + 33 / 2 ^ 55) * (1 + 33 / 2 ^ 55) := by
    have h1 := lagrange_id x y
    have h2 := sq_nonneg (dotR x y)
    have h6 : n2R x * n2R y ≤ (1 + 33 / 2 ^ 55) * (1 + 33 / 2 ^ 55) :=
      mul_le_mul hx.n2_le hy.n2_le (le_trans (by norm_num) hy.n2_ge) (by norm_num)
    linarith
  have hM3 : M ≤ 17 / 8 := le_of_sq_le hM0 (by norm_num) (by rw [hM4]; norm_num; linarith)
  have haC : aC ≤ 1 / 16 := by unfold aC; norm_num
  have hkC : kC ≤ 1 / 16 := by unfold kC; norm_num
  have haC0 : 0 ≤ aC := by unfold aC; positivity
  have hν4 : ν ≤ 5 / 2 := by
    have := (abs_le.mp h1).2
    have : aC * M ≤ 1 / 16 * (17 / 8) := mul_le_mul haC hM3 hM0 (by norm_num)
    linarith
  obtain ⟨cn1, cn2, cn3⟩ := NB.coord (⟨hν0, le_of_eq hν2.symm⟩ :
    NB (val ((x.sub y).cross (x.add y)).x) (val ((x.sub y).cross (x.add y)).y)
      (val ((x.sub y).cross (x.add y)).z) ν)
  have mN : |val ((x.sub y).cross (x.add y)).x| ≤ 5 ∧ |val ((x.sub y).cross (x.add y)).y| ≤ 5
      ∧ |val ((x.sub y).cross (x.add y)).z| ≤ 5 := ⟨by linarith, by linarith, by linarith⟩
  -- the squared norm
  obtain ⟨fm, hm, Snn, Sle⟩ := norm2_step H _ fN mN
  have m0 := norm2_nn H _ fN mN
  have hS : val ((x.sub y).cross (x.add y)).x * val ((x.sub y).cross (x.add y)).x
      + val ((x.sub y).cross (x.add y)).y * val ((x.sub y).cross (x.add y)).y
      + val ((x.sub y).cross (x.add y)).z * val ((x.sub y).cross (x.add y)).z = ν ^ 2 := by rw [hν2]; ring
  rw [hS] at hm Snn
  have h2 : |val ((x.sub y).cross (x.add y)).norm2 - ν ^ 2| ≤ rC * ν ^ 2 + 4 * eR := by
    have := mul_le_mul_of_nonneg_right rho_le Snn
    linarith
  have hν16 : ν ^ 2 ≤ 25 / 4 := by
    have : ν * ν ≤ 5 / 2 * (5 / 2) := mul_le_mul hν4 hν4 hν0 (by norm_num)
    rw [sq]; linarith
  -- the multiplication by 0.25
  obtain ⟨fσ, h3⟩ := quarter_mul fm (toInt_nonneg_of_val m0)
  have σ0 : 0 ≤ val (quarter * ((x.sub y).cross (x.add y)).norm2) :=
    mul_nn quarter_toInt.1 fm fσ (by rw [quarter_val]; positivity)
  have hrC : rC ≤ 1 / 16 := by unfold rC; norm_num
  have hrC0 : 0 ≤ rC := by unfold rC; positivity
  have σ2 : val (quarter * ((x.sub y).cross (x.add y)).norm2) ≤ 2 := by
    have a1 := (abs_le.mp h2).2
    have a2 := (abs_le.mp h3).2
    have : rC * ν ^ 2 ≤ 1 / 16 * (25 / 4) := mul_le_mul hrC hν16 Snn (by norm_num)
    linarith
  have σ8 : val (quarter * ((x.sub y).cross (x.add y)).norm2) ≤ 8 := by linarith
  -- the square root
  have hg0 := Real.sqrt_nonneg (val (quarter * ((x.sub y).cross (x.add y)).norm2))
  have hg2 := Real.sq_sqrt σ0
  obtain ⟨fsq, s0, s1, hsf⟩ := sqrt_lower0 _ fσ σ0 _ hg0 hg2
  have s2 := sqrt_le_two _ fσ σ0 σ2
  -- the computed error term
  obtain ⟨fA, fB, fC, hA, hA40, hB, hB40, hC, hC40⟩ := sin2_consts
  have hA1 : val sin2ErrA ≤ 1 := le_trans hA40 (by norm_num)
  have hB1 : val sin2ErrB ≤ 1 := le_trans hB40 (by norm_num)
  have hC1 : val sin2ErrC ≤ 1 := le_trans hC40 (by norm_num)
  have hA0' : 0 ≤ val sin2ErrA := le_trans (by unfold AloC; positivity) hA
  have hB0' : 0 ≤ val sin2ErrB := le_trans (by unfold BloC; positivity) hB
  have hC0' : 0 ≤ val sin2ErrC := le_trans (by unfold CloC; positivity) hC
  obtain ⟨ferr, herr, herr1⟩ := err_lower H fA fB fC fσ fsq hA0' hA1 hB0' hB1 hC0' hC1 σ0 σ8 s0 s1
  have herr2 : val (sin2ErrA * (quarter * ((x.sub y).cross (x.add y)).norm2)
      + sin2ErrB * F64.sqrt (quarter * ((x.sub y).cross (x.add y)).norm2) + sin2ErrC) ≤ 1 := by
    have b1 : val sin2ErrA * val (quarter * ((x.sub y).cross (x.add y)).norm2) ≤ 1 / 2 ^ 40 * 2 :=
      mul_le_mul hA40 σ2 σ0 (by norm_num)
    have b2 : val sin2ErrB * val (F64.sqrt (quarter * ((x.sub y).cross (x.add y)).norm2)) ≤ 1 / 2 ^ 40 * 2 :=
      mul_le_mul hB40 s2 s0 (by norm_num)
    linarith
  have hu : uR = 1 / 2 ^ 53 := rfl
  rw [hu] at herr
  have herr3 : 1 / 2 ^ 210 ≤ val (sin2ErrA * (quarter * ((x.sub y).cross (x.add y)).norm2)
      + sin2ErrB * F64.sqrt (quarter * ((x.sub y).cross (x.add y)).norm2) + sin2ErrC) := by
    have b1 : 0 ≤ val sin2ErrA * val (quarter * ((x.sub y).cross (x.add y)).norm2) := mul_nonneg hA0' σ0
    have b2 : 0 ≤ val sin2ErrB * val (F64.sqrt (quarter * ((x.sub y).cross (x.add y)).norm2)) :=
      mul_nonneg hB0' s0
    have b3 : (1 - 1 / 2 ^ 53 : ℝ) ^ 3 * CloC ≤ (1 - 1 / 2 ^ 53) ^ 3
        * (val sin2ErrA * val (quarter * ((x.sub y).cross (x.add y)).norm2)
          + val sin2ErrB * val (F64.sqrt (quarter * ((x.sub y).cross (x.add y)).norm2)) + val sin2ErrC) :=
      mul_le_mul_of_nonneg_left (by linarith) (by norm_num)
    have b4 : (1 : ℝ) / 2 ^ 210 ≤ (1 - 1 / 2 ^ 53) ^ 3 * CloC - 2 * (1 / 2 ^ 250) := by unfold CloC; norm_num
    linarith
  -- the normalisation
  have h4 : |M ^ 2 / 4 - sin2True x y| ≤ tC * (M ^ 2 / 4) := by
    have e : M ^ 2 / 4 = cross2R x y := by rw [hM4]; ring
    rw [e]
    exact sin2True_err hc0 hxn hyn
  exact ⟨fσ, ferr, σ0, σ2, herr2, herr3, sin2_scalar eR_nonneg ef1 ef2 ef3 ef4 hM0 hν0 h1 h2 h3 hg0 hg2 h4 hsf hA hB hC herr⟩

/-- **Error bound of `sin2Distance`** (no hypothesis besides the domain): for two outputs of `Normalize`
    (`| ‖p‖² − 1 | ≤ 8.25·2^-53`) the computed `sin²` and the computed error term are finite, `0 ≤ sin² ≤ 2`,
    `2^-210 ≤ err ≤ 1`, and the computed error term — even reduced by the factor `1 − 2^-50` — bounds the distance
    to the true `sin²` of the angle between the directions. -/
theorem sin2_error_bound (x y : V3) (hx : Normed x) (hy : Normed y) :
    Fin (sin2Distance x y).1 ∧ Fin (sin2Distance x y).2 ∧ 0 ≤ val (sin2Distance x y).1 ∧
    val (sin2Distance x y).1 ≤ 2 ∧ 1 / 2 ^ 210 ≤ val (sin2Distance x y).2 ∧ val (sin2Distance x y).2 ≤ 1 ∧
    |val (sin2Distance x y).1 - sin2True x y| ≤ (1 - 1 / 2 ^ 50) * val (sin2Distance x y).2 := by
  obtain ⟨h1, h2, h3, h4, h5, h6, h7⟩ := sin2_parts x y hx hy
  exact ⟨h1, h2, h3, h4, h6, h5, h7⟩

/-- non-vacuity: two orthogonal unit vectors -/
example : Normed ⟨F64.one, F64.zero false, F64.zero false⟩ ∧ Normed ⟨F64.zero false, F64.one, F64.zero false⟩ := by
  decide +kernel

/-- non-vacuity on concrete bit patterns: `normalize(1,2,3)` and `normalize(1,2,3.0000001)` (two nearby points,
    the regime where `sin2Distance` is used) and `normalize(-0.3,0.7,0.2)` are in the domain … -/
theorem sin2_examples_normed :
    Normed ⟨⟨0x3fd11acee560242a⟩, ⟨0x3fe11acee560242a⟩, ⟨0x3fe9a8365810363f⟩⟩ ∧
    Normed ⟨⟨0x3fd11acedf39e880⟩, ⟨0x3fe11acedf39e880⟩, ⟨0x3fe9a8365d3012a0⟩⟩ ∧
    Normed ⟨⟨0xbfd8624f6c0a4dbb⟩, ⟨0x3fec72b1fe0c055a⟩, ⟨0x3fd0418a4806de7d⟩⟩ := by
  decide +kernel

/-- … so the theorem applies to them -/
example :
    |val (sin2Distance ⟨⟨0x3fd11acee560242a⟩, ⟨0x3fe11acee560242a⟩, ⟨0x3fe9a8365810363f⟩⟩
        ⟨⟨0x3fd11acedf39e880⟩, ⟨0x3fe11acedf39e880⟩, ⟨0x3fe9a8365d3012a0⟩⟩).1
      - sin2True ⟨⟨0x3fd11acee560242a⟩, ⟨0x3fe11acee560242a⟩, ⟨0x3fe9a8365810363f⟩⟩
        ⟨⟨0x3fd11acedf39e880⟩, ⟨0x3fe11acedf39e880⟩, ⟨0x3fe9a8365d3012a0⟩⟩|
      ≤ (1 - 1 / 2 ^ 50) * val (sin2Distance ⟨⟨0x3fd11acee560242a⟩, ⟨0x3fe11acee560242a⟩, ⟨0x3fe9a8365810363f⟩⟩
        ⟨⟨0x3fd11acedf39e880⟩, ⟨0x3fe11acedf39e880⟩, ⟨0x3fe9a8365d3012a0⟩⟩).2 :=
  (sin2_error_bound _ _ sin2_examples_normed.1 sin2_examples_normed.2.1).2.2.2.2.2.2

end S2Proofs.FE3
