/-
  FloatErr3.Sin2Aux — auxiliary facts for `sin2_error_bound`:
  numeric instantiation of the vector bound, the normalisation error of `sin2True`, exactness of the multiplication
  by `0.25`, non-negativity of rounded non-negative results, the constants of `sin2Distance`, the lower bound of the
  computed error term.
-/
import Mathlib.Analysis.Real.Sqrt
import S2Proofs.FloatErr3.Defs
import S2Proofs.FloatErr3.Sin2Vec
import S2Proofs.FloatErr3.Sin2Core
import S2Proofs.FloatErr.Stable

set_option linter.unusedSimpArgs false
set_option linter.unusedVariables false

namespace S2Proofs.FE3
open S2 S2.Exact S2.Pred S2Proofs.F64Order S2Proofs.PredLemmas S2Proofs.FloatErr

/-! ### numeric instantiation of `cross_vec_error` -/

theorem E0_le {M A0 B0 w e : ℝ} (hM : 0 ≤ M) (hD0 : 0 ≤ A0 * B0) (hD : A0 * B0 ≤ M + w) (hw : w ≤ 33 / 2 ^ 54)
    (he : 0 ≤ e) :
    uR * (M + (2 * uR + uR ^ 2) * (A0 * B0)) + uR * (1 + uR) * (betaR * ((1 + uR) * A0 * ((1 + uR) * B0)))
        + 2 * (2 * (1 + uR) * e) + (2 * uR + uR ^ 2) * (A0 * B0)
      ≤ aC * M + (kC + 5 * e) := by
  have e0 : uR * (M + (2 * uR + uR ^ 2) * (A0 * B0)) + uR * (1 + uR) * (betaR * ((1 + uR) * A0 * ((1 + uR) * B0)))
        + 2 * (2 * (1 + uR) * e) + (2 * uR + uR ^ 2) * (A0 * B0)
      = uR * M + (uR * (2 * uR + uR ^ 2) + uR * (1 + uR) ^ 3 * betaR + (2 * uR + uR ^ 2)) * (A0 * B0)
        + 4 * (1 + uR) * e := by ring
  have hc2 : uR * (2 * uR + uR ^ 2) + uR * (1 + uR) ^ 3 * betaR + (2 * uR + uR ^ 2) ≤ 31548 / 10000 / 2 ^ 53 := by
    unfold uR betaR; norm_num
  have h1 : (uR * (2 * uR + uR ^ 2) + uR * (1 + uR) ^ 3 * betaR + (2 * uR + uR ^ 2)) * (A0 * B0)
      ≤ (31548 / 10000 / 2 ^ 53) * (M + 33 / 2 ^ 54) :=
    mul_le_mul hc2 (by linarith) hD0 (by norm_num)
  have h2 : 4 * (1 + uR) * e ≤ 5 * e := mul_le_mul_of_nonneg_right (by unfold uR; norm_num) he
  have hu : uR * M = 1 / 2 ^ 53 * M := rfl
  rw [e0]
  unfold aC kC
  linarith

theorem rho_le : rhoU uR ≤ rC := by unfold rhoU fU gU uR rC; norm_num

/-! ### the normalisation error -/

theorem sin2True_err {c P1 P2 : ℝ} (hc : 0 ≤ c) (h1 : |P1 - 1| ≤ 33 / 2 ^ 55) (h2 : |P2 - 1| ≤ 33 / 2 ^ 55) :
    |c - c / (P1 * P2)| ≤ tC * c := by
  obtain ⟨a1, a2⟩ := abs_le.mp h1
  obtain ⟨b1, b2⟩ := abs_le.mp h2
  have lo : (1 - 33 / 2 ^ 55) * (1 - 33 / 2 ^ 55) ≤ P1 * P2 :=
    mul_le_mul (by linarith) (by linarith) (by norm_num) (by linarith)
  have hi : P1 * P2 ≤ (1 + 33 / 2 ^ 55) * (1 + 33 / 2 ^ 55) :=
    mul_le_mul (by linarith) (by linarith) (by linarith) (by norm_num)
  have hP : 0 < P1 * P2 := lt_of_lt_of_le (by norm_num) lo
  have ht0 : (0 : ℝ) ≤ tC := by unfold tC; positivity
  have ht1 : tC ≤ 1 := by unfold tC; norm_num
  have hk : |P1 * P2 - 1| ≤ tC * (P1 * P2) := by
    have n1 : (1 + 33 / 2 ^ 55) * (1 + 33 / 2 ^ 55) * (1 - tC) ≤ 1 := by unfold tC; norm_num
    have n2 : 1 ≤ (1 + tC) * ((1 - 33 / 2 ^ 55) * (1 - 33 / 2 ^ 55)) := by unfold tC; norm_num
    have m1 : P1 * P2 * (1 - tC) ≤ (1 + 33 / 2 ^ 55) * (1 + 33 / 2 ^ 55) * (1 - tC) :=
      mul_le_mul_of_nonneg_right hi (by linarith)
    have m2 : (1 + tC) * ((1 - 33 / 2 ^ 55) * (1 - 33 / 2 ^ 55)) ≤ (1 + tC) * (P1 * P2) :=
      mul_le_mul_of_nonneg_left lo (by linarith)
    rw [abs_le]; constructor <;> nlinarith
  have e : c - c / (P1 * P2) = c * ((P1 * P2 - 1) / (P1 * P2)) := by
    have := hP.ne'
    rw [mul_div_assoc', eq_div_iff this, sub_mul, div_mul_cancel₀ _ this]; ring
  rw [e, abs_mul, abs_of_nonneg hc, abs_div, abs_of_pos hP, mul_comm tC c]
  exact mul_le_mul_of_nonneg_left ((div_le_iff₀ hP).mpr hk) hc

/-! ### rounded non-negative results are non-negative -/

theorem mul_nn {x y : F64} (hx : Fin x) (hy : Fin y) (hf : Fin (x * y)) (h : 0 ≤ val x * val y) :
    0 ≤ val (x * y) := by
  have hz := zero_val false
  have := round_ge_of_le (F64Round.isRound_mul hx hy) hf hz.1
    (by push_cast; rw [val_cast, val_cast, hz.2]; exact h)
  rw [hz.2] at this; exact this

theorem add_nn {x y : F64} (hx : Fin x) (hy : Fin y) (hf : Fin (x + y)) (h : 0 ≤ val x + val y) :
    0 ≤ val (x + y) := by
  have hz := zero_val false
  have := round_ge_of_le (F64Round.isRound_add hx hy) hf hz.1
    (by push_cast; rw [val_cast, val_cast, hz.2]; exact h)
  rw [hz.2] at this; exact this


/-! ### the multiplication by `0.25` is exact up to underflow -/

theorem quarter_toInt : Fin quarter ∧ toInt quarter * 4 = 2 ^ 1074 := by decide +kernel

theorem quarter_valQ : F64Round.val quarter = 1 / 4 := by
  have h := quarter_toInt.2
  have h' : ((toInt quarter : ℤ) : ℚ) * 4 = F64Round.U := by unfold F64Round.U; exact_mod_cast h
  unfold F64Round.val
  have hU := F64Round.U_pos
  generalize F64Round.U = T at *
  rw [div_eq_iff hU.ne']; linarith

/-- `fl(0.25·m)` is within `2^-1075` of `m/4` (exact unless the result is subnormal) -/
theorem quarter_mul {m : F64} (hm : Fin m) (h0 : 0 ≤ toInt m) :
    Fin (quarter * m) ∧ |val (quarter * m) - val m / 4| ≤ eR := by
  have h : F64Round.IsRound (quarter * m) (F64Round.val quarter * F64Round.val m) :=
    F64Round.isRound_mul quarter_toInt.1 hm
  rw [quarter_valQ] at h
  have hQU : (1 / 4 * F64Round.val m) * F64Round.U = (toInt m : ℚ) / 4 := by
    rw [mul_assoc, F64Round.val_mul_U]; ring
  suffices hs : Fin (quarter * m) ∧ |F64Round.val (quarter * m) - 1 / 4 * F64Round.val m| ≤ 1 / 2 ^ 1075 by
    refine ⟨hs.1, ?_⟩
    have : ((|F64Round.val (quarter * m) - 1 / 4 * F64Round.val m| : ℚ) : ℝ) ≤ ((1 / 2 ^ 1075 : ℚ) : ℝ) := by
      exact_mod_cast hs.2
    push_cast at this
    rw [val_cast, val_cast] at this
    have e : val m / 4 = 1 / 4 * val m := by ring
    unfold eR; rw [e]; exact this
  have hmag : toInt m = (F64Inj.mag m : ℤ) := by
    have := F64Round.natAbs_toInt m; omega
  have hmq : ((toInt m : ℤ) : ℚ) = ((F64Inj.mag m : ℕ) : ℚ) := by rw [hmag]; push_cast; rfl
  by_cases hsmall : F64Inj.mag m ≤ 2 ^ 55
  · have hnn : (0 : ℚ) ≤ 1 / 4 * F64Round.val m := by
      unfold F64Round.val
      have : (0 : ℚ) ≤ (toInt m : ℚ) := by exact_mod_cast h0
      have hU := F64Round.U_pos
      exact mul_nonneg (by norm_num) (div_nonneg this hU.le)
    have hhi : |1 / 4 * F64Round.val m| * F64Round.U ≤ 2 ^ (0 + 53) := by
      rw [abs_of_nonneg hnn, hQU, hmq]
      have : ((F64Inj.mag m : ℕ) : ℚ) ≤ 2 ^ 55 := by exact_mod_cast hsmall
      norm_num; linarith
    obtain ⟨hf, he⟩ := h.ulp_err 0 (by norm_num) hhi
    refine ⟨hf, ?_⟩
    have hU2 : (2 : ℚ) ^ 1075 = 2 * F64Round.U := by unfold F64Round.U; rw [pow_succ]; ring
    rw [hU2]
    have hU := F64Round.U_pos
    rw [le_div_iff₀ (mul_pos two_pos hU)]
    calc _ ≤ (2 : ℚ) ^ 0 := he
      _ = 1 := pow_zero 2
  · obtain ⟨mm, k, hmm, hk⟩ := F64Round.rep_mag m
    have hlt := F64Round.mag_lt m hm
    have hk3 : 3 ≤ k := by
      by_contra hc
      have : 2 ^ k ≤ 2 ^ 2 := Nat.pow_le_pow_right (by norm_num) (by omega)
      have : mm * 2 ^ k ≤ mm * 2 ^ 2 := Nat.mul_le_mul_left _ this
      omega
    have hsplit : F64Inj.mag m = (mm * 2 ^ (k - 2)) * 4 := by
      rw [hk, Nat.mul_assoc]; congr 1
      rw [show (4 : ℕ) = 2 ^ 2 by norm_num, ← Nat.pow_add]; congr 1; omega
    have hz : (((mm * 2 ^ (k - 2) : ℕ) : ℤ)).natAbs = mm * 2 ^ (k - 2) := Int.natAbs_natCast _
    obtain ⟨hf, hv⟩ := h.val_exact_of_rep ((mm * 2 ^ (k - 2) : ℕ) : ℤ)
      (by rw [hz]; exact ⟨mm, k - 2, hmm, rfl⟩) (by rw [hz]; omega)
      (by rw [hQU, hmq, hsplit]; push_cast; ring)
    refine ⟨hf, ?_⟩
    rw [hv, sub_self, abs_zero]; positivity

/-! ### the constants -/

theorem sin2_consts : Fin sin2ErrA ∧ Fin sin2ErrB ∧ Fin sin2ErrC ∧
    AloC ≤ val sin2ErrA ∧ val sin2ErrA ≤ 1 / 2 ^ 40 ∧ BloC ≤ val sin2ErrB ∧ val sin2ErrB ≤ 1 / 2 ^ 40 ∧
    CloC ≤ val sin2ErrC ∧ val sin2ErrC ≤ 1 / 2 ^ 40 := by
  have h : Fin sin2ErrA ∧ Fin sin2ErrB ∧ Fin sin2ErrC ∧
      (27928 : ℤ) * 2 ^ 1074 ≤ toInt sin2ErrA * (1000 * 2 ^ 53) ∧ toInt sin2ErrA * 2 ^ 40 ≤ 2 ^ 1074 ∧
      (554 : ℤ) * 2 ^ 1074 ≤ toInt sin2ErrB * (10 * 2 ^ 106) ∧ toInt sin2ErrB * 2 ^ 40 ≤ 2 ^ 1074 ∧
      (7679 : ℤ) * 2 ^ 1074 ≤ toInt sin2ErrC * (10 * 2 ^ 212) ∧ toInt sin2ErrC * 2 ^ 40 ≤ 2 ^ 1074 := by decide +kernel
  obtain ⟨f1, f2, f3, a1, a2, b1, b2, c1, c2⟩ := h
  have a1' : (27928 : ℝ) * 2 ^ 1074 ≤ (toInt sin2ErrA : ℝ) * (1000 * 2 ^ 53) := by exact_mod_cast a1
  have a2' : (toInt sin2ErrA : ℝ) * 2 ^ 40 ≤ 2 ^ 1074 := by exact_mod_cast a2
  have b1' : (554 : ℝ) * 2 ^ 1074 ≤ (toInt sin2ErrB : ℝ) * (10 * 2 ^ 106) := by exact_mod_cast b1
  have b2' : (toInt sin2ErrB : ℝ) * 2 ^ 40 ≤ 2 ^ 1074 := by exact_mod_cast b2
  have c1' : (7679 : ℝ) * 2 ^ 1074 ≤ (toInt sin2ErrC : ℝ) * (10 * 2 ^ 212) := by exact_mod_cast c1
  have c2' : (toInt sin2ErrC : ℝ) * 2 ^ 40 ≤ 2 ^ 1074 := by exact_mod_cast c2
  have hT : (0 : ℝ) < 2 ^ 1074 := by positivity
  refine ⟨f1, f2, f3, ?_, ?_, ?_, ?_, ?_, ?_⟩
  · unfold val AloC
    generalize (2 : ℝ) ^ 1074 = T at *
    rw [div_div, div_le_div_iff₀ (by positivity) hT]; linarith
  · unfold val; rw [div_le_div_iff₀ hT (by positivity)]; linarith
  · unfold val BloC
    generalize (2 : ℝ) ^ 1074 = T at *
    rw [div_div, div_le_div_iff₀ (by positivity) hT]; linarith
  · unfold val; rw [div_le_div_iff₀ hT (by positivity)]; linarith
  · unfold val CloC
    generalize (2 : ℝ) ^ 1074 = T at *
    rw [div_div, div_le_div_iff₀ (by positivity) hT]; linarith
  · unfold val; rw [div_le_div_iff₀ hT (by positivity)]; linarith

/-! ### the float square root of a non-negative float -/

theorem isZero_of_val_eq_zero {x : F64} (h : val x = 0) : x.isZero = true := by
  cases hz : x.isZero
  · exfalso
    have hm := mant_pos hz
    have hv := val_mant x
    rw [h] at hv
    have h1 : (0 : ℝ) < (x.mant : ℝ) := by exact_mod_cast hm
    have h2 := tw_pos x.expo
    have h3 : |sg x.signBit * (x.mant : ℝ) * tw x.expo| = (x.mant : ℝ) * tw x.expo := by
      rw [abs_mul, abs_mul, sg_abs, one_mul, abs_of_pos h1, abs_of_pos h2]
    rw [← hv, abs_zero] at h3
    have := mul_pos h1 h2
    linarith
  · rfl

theorem sqrt_lower0 (x : F64) (hx : Fin x) (h0 : 0 ≤ val x) (g : ℝ) (hg0 : 0 ≤ g) (hg : g ^ 2 = val x) :
    Fin (F64.sqrt x) ∧ 0 ≤ val (F64.sqrt x) ∧ val (F64.sqrt x) ≤ 2 ^ 515 ∧
      g * ((1 - 1 / 2 ^ 58) * (1 - 1 / 2 ^ 53)) ≤ val (F64.sqrt x) := by
  rcases h0.eq_or_lt with h | h
  · have hz := isZero_of_val_eq_zero h.symm
    have hs : F64.sqrt x = x := by
      unfold F64.sqrt
      simp only [isNaN_false hx, hz, Bool.false_eq_true, if_false, if_true]
    have hg' : g = 0 := by
      rw [← h] at hg
      exact pow_eq_zero_iff (by norm_num) |>.mp hg
    rw [hs, ← h, hg']
    exact ⟨hx, le_refl _, by positivity, by simp⟩
  · obtain ⟨f, s0, s1, s2⟩ := sqrt_lower x hx h
    refine ⟨f, s0, s1, ?_⟩
    apply le_of_sq_le (mul_nonneg hg0 (by norm_num)) s0
    have e : (g * ((1 - 1 / 2 ^ 58) * (1 - 1 / 2 ^ 53))) ^ 2
        = val x * ((1 - 1 / 2 ^ 58) * (1 - 1 / 2 ^ 53) ^ 2) * (1 - 1 / 2 ^ 58) := by rw [← hg]; ring
    have hu : uR = 1 / 2 ^ 53 := rfl
    rw [hu] at s2
    have hnn : 0 ≤ val x * ((1 - 1 / 2 ^ 58) * (1 - 1 / 2 ^ 53) ^ 2) := mul_nonneg h.le (by norm_num)
    have : val x * ((1 - 1 / 2 ^ 58) * (1 - 1 / 2 ^ 53) ^ 2) * (1 - 1 / 2 ^ 58)
        ≤ val x * ((1 - 1 / 2 ^ 58) * (1 - 1 / 2 ^ 53) ^ 2) * 1 :=
      mul_le_mul_of_nonneg_left (by norm_num) hnn
    rw [e]; linarith


/-- crude upper bound of the float square root (from `sqrt_spec` against the float `1`) -/
theorem sqrt_le_two (x : F64) (hx : Fin x) (h0 : 0 ≤ val x) (h2 : val x ≤ 2) : val (F64.sqrt x) ≤ 2 := by
  rcases h0.eq_or_lt with h | hpos
  · have hz := isZero_of_val_eq_zero h.symm
    have hs : F64.sqrt x = x := by
      unfold F64.sqrt
      simp only [isNaN_false hx, hz, Bool.false_eq_true, if_false, if_true]
    rw [hs, ← h]; norm_num
  · have hz : x.isZero = false := by
      cases hh : x.isZero
      · rfl
      · rw [val_of_isZero hh] at hpos; exact absurd hpos (lt_irrefl _)
    have hsb : x.signBit = false := by
      cases hh : x.signBit
      · rfl
      · rw [val_mant, hh] at hpos
        have : (0 : ℝ) ≤ (x.mant : ℝ) * tw x.expo := mul_nonneg (by positivity) (tw_pos _).le
        unfold sg at hpos
        simp only [if_true] at hpos
        linarith
    obtain ⟨hf, hnn, hall⟩ := F64Round.sqrt_spec hx hsb hz
    by_contra hc
    have hc := not_le.mp hc
    have h1 : F64Round.val F64.one < F64Round.val (F64.sqrt x) := by
      rw [F64Round.val_one]
      have : ((1 : ℚ) : ℝ) < ((F64Round.val (F64.sqrt x) : ℚ) : ℝ) := by
        rw [val_cast]; push_cast; linarith
      exact_mod_cast this
    have h3 := (hall F64.one (by rw [F64Round.val_one]; norm_num)).1 h1
    rw [F64Round.val_one] at h3
    have h4 : ((((1 + F64Round.val (F64.sqrt x)) / 2) ^ 2 : ℚ) : ℝ) ≤ ((F64Round.val x : ℚ) : ℝ) := by
      exact_mod_cast h3
    push_cast at h4
    rw [val_cast, val_cast] at h4
    nlinarith

end S2Proofs.FE3
