/-
  FloatErr3.CosErr — the error bounds COMPUTED by the code (`9.5·dblError·|c| + 1.5·dblError`, their sum,
  `2·dblError·cosR`) bounded from below, with all roundings of the error computation itself and the exact values
  of the constants (`dblError` is the decimal literal 1.110223024625156e-16 < 2^-53).

      val cosErrAdd   = 1.5u − 6u²          (u = 2^-53)
      val cosErrMul   ≥ 9.5u − 49u²
      val twoDblError = 2u − 8u²
-/
import S2Proofs.FloatErr3.DotSide
import S2Proofs.FloatErr3.CosCore

set_option linter.unusedSimpArgs false
set_option linter.unusedVariables false

namespace S2Proofs.FE3
open S2 S2.Exact S2.Pred S2Proofs.F64Order S2Proofs.PredLemmas S2Proofs.FloatErr

/-! ### the constants -/

theorem val_of_toInt {x : F64} {z : ℤ} {k : ℕ} (hk : k ≤ 1074) (h : toInt x = z * 2 ^ (1074 - k)) :
    val x = z / 2 ^ k := by
  unfold val
  rw [h]
  push_cast
  have e : (2 : ℝ) ^ 1074 = 2 ^ (1074 - k) * 2 ^ k := by rw [← pow_add]; congr 1; omega
  rw [e]
  have hB : (0 : ℝ) < 2 ^ (1074 - k) := by positivity
  have hC : (0 : ℝ) < 2 ^ k := by positivity
  generalize (2 : ℝ) ^ (1074 - k) = B at *
  generalize (2 : ℝ) ^ k = C at *
  field_simp

theorem cosErrAdd_fin : Fin cosErrAdd := by decide +kernel
theorem cosErrMul_fin : Fin cosErrMul := by decide +kernel
theorem twoDblError_fin : Fin twoDblError := by decide +kernel

theorem cosErrAdd_val : val cosErrAdd = 3 / 2 ^ 54 - 6 / 2 ^ 106 := by
  have h : toInt cosErrAdd = (3 * 2 ^ 52 - 6) * 2 ^ (1074 - 106) := by decide +kernel
  rw [val_of_toInt (by norm_num) h]
  push_cast
  norm_num

theorem twoDblError_val : val twoDblError = 2 / 2 ^ 53 - 8 / 2 ^ 106 := by
  have h : toInt twoDblError = (2 ^ 54 - 8) * 2 ^ (1074 - 106) := by decide +kernel
  rw [val_of_toInt (by norm_num) h]
  push_cast
  norm_num

theorem cosErrMul_ge : 19 / 2 ^ 54 - 49 / 2 ^ 106 ≤ val cosErrMul ∧ val cosErrMul ≤ 19 / 2 ^ 54 := by
  have h : (19 * 2 ^ 53 - 98) * 2 ^ 967 ≤ toInt cosErrMul ∧ toInt cosErrMul ≤ 19 * 2 ^ 1020 := by decide +kernel
  have h1 : (((19 * 2 ^ 53 - 98) * 2 ^ 967 : ℤ) : ℝ) ≤ (toInt cosErrMul : ℝ) := by exact_mod_cast h.1
  have h2 : (toInt cosErrMul : ℝ) ≤ ((19 * 2 ^ 1020 : ℤ) : ℝ) := by exact_mod_cast h.2
  push_cast at h1 h2
  unfold val
  have e1 : (2 : ℝ) ^ 1074 = 2 ^ 967 * 2 ^ 107 := by rw [← pow_add]
  have e2 : (2 : ℝ) ^ 1020 = 2 ^ 967 * 2 ^ 53 := by rw [← pow_add]
  rw [e2] at h2
  rw [e1]
  have hB : (0 : ℝ) < 2 ^ 967 := by positivity
  generalize (2 : ℝ) ^ 967 = B at *
  constructor
  · rw [le_div_iff₀ (by positivity)]
    have : (19 / 2 ^ 54 - 49 / 2 ^ 106 : ℝ) * (B * 2 ^ 107) = (19 * 2 ^ 53 - 98) * B := by ring
    linarith
  · rw [div_le_iff₀ (by positivity)]
    have : (19 / 2 ^ 54 : ℝ) * (B * 2 ^ 107) = 19 * (B * 2 ^ 53) := by ring
    linarith

theorem val_abs_eq (c : F64) (hc : Fin c) : Fin (F64.abs c) ∧ val (F64.abs c) = |val c| := by
  obtain ⟨hf, ht⟩ := abs_spec c hc
  refine ⟨hf, ?_⟩
  unfold val
  rw [ht, abs_div, abs_of_pos (by positivity : (0 : ℝ) < 2 ^ 1074)]
  push_cast; rfl

theorem eR_small : eR ≤ 1 / 2 ^ 200 := by
  unfold eR
  exact one_div_le_one_div_of_le (by positivity) (pow_le_pow_right₀ (by norm_num) (by norm_num))

/-! ### one `cosDistance` error term -/

/-- `err = fl(fl(9.5·dblError·|c|) + 1.5·dblError)` from below: `≥ (9.5u − 70u²)|c| + 1.5u − 8u²` -/
theorem cosSideErr (c : F64) (hc : Fin c) (hb : |val c| ≤ 2) :
    Fin (cosErrMul * F64.abs c + cosErrAdd) ∧
    (19 / 2 ^ 54 - 70 / 2 ^ 106) * |val c| + (3 / 2 ^ 54 - 8 / 2 ^ 106) ≤ val (cosErrMul * F64.abs c + cosErrAdd) ∧
    val (cosErrMul * F64.abs c + cosErrAdd) ≤ 1 / 2 ^ 40 := by
  obtain ⟨hfa, hva⟩ := val_abs_eq c hc
  obtain ⟨hM1, hM2⟩ := cosErrMul_ge
  have hM0 : 0 ≤ val cosErrMul := by
    have : (0 : ℝ) ≤ 19 / 2 ^ 54 - 49 / 2 ^ 106 := by norm_num
    linarith
  have hc0 := abs_nonneg (val c)
  have hprod0 : 0 ≤ val cosErrMul * val (F64.abs c) := by rw [hva]; exact mul_nonneg hM0 hc0
  have hprod1 : val cosErrMul * val (F64.abs c) ≤ 1 / 2 ^ 48 := by
    rw [hva]
    calc val cosErrMul * |val c| ≤ 19 / 2 ^ 54 * 2 := mul_le_mul hM2 hb hc0 (by norm_num)
      _ ≤ 1 / 2 ^ 48 := by norm_num
  have m1 : |val cosErrMul * val (F64.abs c)| ≤ 1 := by
    rw [abs_of_nonneg hprod0]; have : (1 : ℝ) / 2 ^ 48 ≤ 1 := by norm_num
    linarith
  obtain ⟨fm, rm, gm⟩ := mul_step stdModel cosErrMul_fin hfa m1 (by norm_num)
  have hK := cosErrAdd_val
  unfold Rnd at rm
  rw [abs_of_nonneg hprod0] at rm
  obtain ⟨rm1, rm2⟩ := abs_le.mp rm
  have he := eR_small
  have he0 := eR_nonneg
  have hu : uR = 1 / 2 ^ 53 := rfl
  have m2 : |val (cosErrMul * F64.abs c) + val cosErrAdd| ≤ 1 := by
    rw [hK]
    refine abs_le.mpr ⟨?_, ?_⟩
    · nlinarith
    · nlinarith
  obtain ⟨fe, re, _⟩ := add_step stdModel fm cosErrAdd_fin m2 (by norm_num)
  unfold Rnd at re
  have hq0 : 0 ≤ val (cosErrMul * F64.abs c) + val cosErrAdd := by rw [hK]; nlinarith
  rw [abs_of_nonneg hq0, add_zero] at re
  obtain ⟨re1, re2⟩ := abs_le.mp re
  refine ⟨fe, ?_, ?_⟩
  · rw [hva] at rm1 rm2 hprod0 hprod1
    rw [hu] at rm1 rm2 re1 re2
    rw [hK] at re1 re2
    have hMc : (19 / 2 ^ 54 - 49 / 2 ^ 106) * |val c| ≤ val cosErrMul * |val c| :=
      mul_le_mul_of_nonneg_right hM1 hc0
    nlinarith
  · rw [hva] at rm1 rm2 hprod0 hprod1
    rw [hu] at rm1 rm2 re1 re2
    rw [hK] at re1 re2
    nlinarith

/-! ### the sum of two error terms (`CompareDistances`) -/

theorem neg_spec (e : F64) (he : Fin e) : Fin (-e) ∧ val (-e) = -val e :=
  ⟨(S2Proofs.F64Sym.isFinite_neg e).2 he, FloatErr.val_neg e⟩

theorem pairErr (cA cB : F64) (hA : Fin cA) (hB : Fin cB) (bA : |val cA| ≤ 2) (bB : |val cB| ≤ 2) :
    Fin ((cosErrMul * F64.abs cA + cosErrAdd) + (cosErrMul * F64.abs cB + cosErrAdd)) ∧
    (19 / 2 ^ 54 - 80 / 2 ^ 106) * (|val cA| + |val cB|) + (3 / 2 ^ 53 - 19 / 2 ^ 106)
      ≤ val ((cosErrMul * F64.abs cA + cosErrAdd) + (cosErrMul * F64.abs cB + cosErrAdd)) := by
  obtain ⟨fA, lA, uA⟩ := cosSideErr cA hA bA
  obtain ⟨fB, lB, uB⟩ := cosSideErr cB hB bB
  have hcA := abs_nonneg (val cA)
  have hcB := abs_nonneg (val cB)
  have pA : 0 ≤ val (cosErrMul * F64.abs cA + cosErrAdd) := by
    have : 0 ≤ (19 / 2 ^ 54 - 70 / 2 ^ 106) * |val cA| := mul_nonneg (by norm_num) hcA
    have : (0 : ℝ) ≤ 3 / 2 ^ 54 - 8 / 2 ^ 106 := by norm_num
    linarith
  have pB : 0 ≤ val (cosErrMul * F64.abs cB + cosErrAdd) := by
    have : 0 ≤ (19 / 2 ^ 54 - 70 / 2 ^ 106) * |val cB| := mul_nonneg (by norm_num) hcB
    have : (0 : ℝ) ≤ 3 / 2 ^ 54 - 8 / 2 ^ 106 := by norm_num
    linarith
  have m : |val (cosErrMul * F64.abs cA + cosErrAdd) + val (cosErrMul * F64.abs cB + cosErrAdd)| ≤ 1 := by
    rw [abs_of_nonneg (by linarith)]
    have : (1 : ℝ) / 2 ^ 40 + 1 / 2 ^ 40 ≤ 1 := by norm_num
    linarith
  obtain ⟨fs, rs, _⟩ := add_step stdModel fA fB m (by norm_num)
  unfold Rnd at rs
  rw [abs_of_nonneg (by linarith : 0 ≤ val (cosErrMul * F64.abs cA + cosErrAdd) + val (cosErrMul * F64.abs cB + cosErrAdd)),
    add_zero] at rs
  obtain ⟨rs1, _⟩ := abs_le.mp rs
  have hu : uR = 1 / 2 ^ 53 := rfl
  rw [hu] at rs1
  refine ⟨fs, ?_⟩
  nlinarith

/-- the sum of the two error terms is small (used to bound `|cA − cB|` when the stage answers 0) -/
theorem pairErr_le (cA cB : F64) (hA : Fin cA) (hB : Fin cB) (bA : |val cA| ≤ 2) (bB : |val cB| ≤ 2) :
    val ((cosErrMul * F64.abs cA + cosErrAdd) + (cosErrMul * F64.abs cB + cosErrAdd)) ≤ 1 / 2 ^ 38 := by
  obtain ⟨fA, lA, uA⟩ := cosSideErr cA hA bA
  obtain ⟨fB, lB, uB⟩ := cosSideErr cB hB bB
  have hcA := abs_nonneg (val cA)
  have hcB := abs_nonneg (val cB)
  have pA : 0 ≤ val (cosErrMul * F64.abs cA + cosErrAdd) := by
    have : 0 ≤ (19 / 2 ^ 54 - 70 / 2 ^ 106) * |val cA| := mul_nonneg (by norm_num) hcA
    have : (0 : ℝ) ≤ 3 / 2 ^ 54 - 8 / 2 ^ 106 := by norm_num
    linarith
  have pB : 0 ≤ val (cosErrMul * F64.abs cB + cosErrAdd) := by
    have : 0 ≤ (19 / 2 ^ 54 - 70 / 2 ^ 106) * |val cB| := mul_nonneg (by norm_num) hcB
    have : (0 : ℝ) ≤ 3 / 2 ^ 54 - 8 / 2 ^ 106 := by norm_num
    linarith
  have m : |val (cosErrMul * F64.abs cA + cosErrAdd) + val (cosErrMul * F64.abs cB + cosErrAdd)| ≤ 1 := by
    rw [abs_of_nonneg (by linarith)]
    have : (1 : ℝ) / 2 ^ 40 + 1 / 2 ^ 40 ≤ 1 := by norm_num
    linarith
  obtain ⟨fs, rs, _⟩ := add_step stdModel fA fB m (by norm_num)
  unfold Rnd at rs
  rw [abs_of_nonneg (by linarith : 0 ≤ val (cosErrMul * F64.abs cA + cosErrAdd) + val (cosErrMul * F64.abs cB + cosErrAdd)),
    add_zero] at rs
  obtain ⟨_, rs2⟩ := abs_le.mp rs
  have hu : uR = 1 / 2 ^ 53 := rfl
  rw [hu] at rs2
  nlinarith

end S2Proofs.FE3
