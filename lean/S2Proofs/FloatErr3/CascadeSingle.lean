/-
  FloatErr3.CascadeSingle — assembling the stages of `CompareDistance(x, y, r)` for limits `r ≤ 90°`:
  cos triage → sin² triage (only for r < 45°) → exact.
-/
import S2Proofs.FloatErr3.Cascade
import S2Proofs.FloatErr3.Sin2Single
import S2Proofs.FloatErr3.CosFixed

set_option linter.unusedSimpArgs false
set_option linter.unusedVariables false

namespace S2Proofs.FE3
open S2 S2.Exact S2.Pred S2Proofs.F64Order S2Proofs.PredLemmas S2Proofs.FloatErr

theorem ca45_fin : Fin ca45Degrees := by decide +kernel

theorem ca45_le : val ca45Degrees ≤ 59 / 100 := by
  have h : toInt ca45Degrees * 100 ≤ 59 * 2 ^ 1074 := by decide +kernel
  have h' : (toInt ca45Degrees : ℝ) * 100 ≤ 59 * 2 ^ 1074 := by exact_mod_cast h
  unfold val
  have hB : (0 : ℝ) < 2 ^ 1074 := by positivity
  generalize (2 : ℝ) ^ 1074 = B at *
  rw [div_le_div_iff₀ hB (by norm_num)]
  linarith

/-- what the cosine stage tells when it answers 0 -/
theorem cos_close_single {x y : V3} (hx : Normed x) (hy : Normed y) (r2 : F64) (hr : Fin r2)
    (h0 : 0 ≤ val r2) (h2 : val r2 ≤ 2) (h : triageCompareCosDistance x y r2 = 0) :
    |val (x.dot y) - val (F64.one - F64.half * r2)| ≤ 1 / 2 ^ 37 := by
  obtain ⟨fc, bc⟩ := dot_fin_le hx hy
  obtain ⟨fR, CR⟩ := cosR_side r2 hr h0 h2
  obtain ⟨r0, rle, rρ⟩ := CR.cR_bounds
  have hR1 : val (F64.one - F64.half * r2) ≤ 2 := by
    have : 1 - val r2 / 2 ≤ 1 := by linarith
    nlinarith
  obtain ⟨fAbs, vAbs⟩ := val_abs_eq (F64.one - F64.half * r2) fR
  have vAbs' : val (F64.abs (F64.one - F64.half * r2)) = val (F64.one - F64.half * r2) := by
    rw [vAbs, abs_of_nonneg r0]
  obtain ⟨fE, _⟩ := singleErr (x.dot y) (F64.abs (F64.one - F64.half * r2)) fc bc fAbs
    (by rw [vAbs']; exact r0) (by rw [vAbs']; exact hR1)
  have hEle := singleErr_le (x.dot y) (F64.abs (F64.one - F64.half * r2)) fc bc fAbs
    (by rw [vAbs']; exact r0) (by rw [vAbs']; exact hR1)
  have md : |val (x.dot y) - val (F64.one - F64.half * r2)| ≤ 4 := by
    have := abs_sub (val (x.dot y)) (val (F64.one - F64.half * r2))
    have : |val (F64.one - F64.half * r2)| ≤ 2 := by rw [abs_of_nonneg r0]; exact hR1
    linarith
  obtain ⟨fd, rd, _⟩ := sub_step stdModel fc fR md (by norm_num)
  have eT : triageCompareCosDistance x y r2
      = Int.neg (threshold (x.dot y - (F64.one - F64.half * r2))
          ((cosErrMul * F64.abs (x.dot y) + cosErrAdd) + twoDblError * F64.abs (F64.one - F64.half * r2))) := rfl
  rw [eT] at h
  have h0' : threshold (x.dot y - (F64.one - F64.half * r2))
      ((cosErrMul * F64.abs (x.dot y) + cosErrAdd) + twoDblError * F64.abs (F64.one - F64.half * r2)) = 0 := by
    rcases threshold_range (x.dot y - (F64.one - F64.half * r2))
      ((cosErrMul * F64.abs (x.dot y) + cosErrAdd) + twoDblError * F64.abs (F64.one - F64.half * r2)) with h1 | h1 | h1
    · rw [h1] at h; exact absurd h (by decide)
    · rw [h1] at h; exact absurd h (by decide)
    · exact h1
  obtain ⟨z1, z2⟩ := threshold_zero fd fE h0'
  unfold Rnd at rd
  rw [add_zero] at rd
  obtain ⟨r1, r2'⟩ := abs_le.mp rd
  have hu : uR = 1 / 2 ^ 53 := rfl
  rw [hu] at r1 r2'
  refine abs_le.mpr ⟨?_, ?_⟩ <;> nlinarith

theorem sin2Lim_eq (r2 : F64) : sin2Lim r2 = 1 - (1 - val r2 / 2) ^ 2 := by unfold sin2Lim; ring

/-- **the sin² block of `CompareDistance`** (limit below 45°) is 0 or the exact comparison, given that the cosine
    stage answered 0 -/
theorem sin2Stage_single_sound {x y : V3} (hx : Normed x) (hy : Normed y) (hXY : Sin2Bound x y) (r2 : F64)
    (hr : Fin r2) (h0 : 0 ≤ val r2) (h45 : F64.lt r2 ca45Degrees = true)
    (hcos : triageCompareCosDistance x y r2 = 0) :
    triageCompareSin2Distance x y r2 = 0 ∨ triageCompareSin2Distance x y r2 = exactCompareDistance x y r2 := by
  have hlt : val r2 < val ca45Degrees := (FloatErr.val_lt_iff _ _).2 ((lt_iff hr ca45_fin).1 h45)
  have h59 := ca45_le
  have h2 : val r2 ≤ 2 := by linarith
  obtain ⟨hT1, hTm1⟩ := triageSin2_single hXY r2 hr h0 h2
  have hclose := cos_close_single hx hy r2 hr h0 h2 hcos
  obtain ⟨c1, c2⟩ := abs_le.mp hclose
  obtain ⟨_, CR⟩ := cosR_side r2 hr h0 h2
  obtain ⟨r0, rle, rρ⟩ := CR.cR_bounds
  obtain ⟨_, dA⟩ := dot_crude hx hy
  obtain ⟨a1, a2⟩ := abs_le.mp dA
  have px := hx.normR_pos
  have py := hy.normR_pos
  have hP : 0 < normR x * normR y := mul_pos px py
  rw [exact_single_rsgn hx hy r2 hr]
  have hR : 7 / 10 < 1 - val r2 / 2 := by linarith
  have small : (1 : ℝ) / 2 ^ 37 + 1 / 2 ^ 51 ≤ 1 / 100 := by norm_num
  -- the true cosine is positive
  have spos : 0 < dotR x y := by
    have : 69 / 100 ≤ val (F64.one - F64.half * r2) := by nlinarith
    linarith
  have tpos : 0 < dotR x y / (normR x * normR y) := div_pos spos hP
  -- sin² in terms of the true cosine
  have hσ : sin2True x y = 1 - (dotR x y / (normR x * normR y)) ^ 2 := by
    rw [sin2True_eq hx hy, div_pow, mul_pow, normR_sq, normR_sq]
  have eT : triageCompareSin2Distance x y r2
      = threshold ((sin2Distance x y).1 - r2 * (F64.one - quarter * r2))
          ((sin2Distance x y).2 + threeDblError * (r2 * (F64.one - quarter * r2))) := rfl
  have hrange := threshold_range ((sin2Distance x y).1 - r2 * (F64.one - quarter * r2))
    ((sin2Distance x y).2 + threeDblError * (r2 * (F64.one - quarter * r2)))
  rw [← eT] at hrange
  rcases hrange with h1 | h1 | h1
  · right
    have := hT1 h1
    rw [hσ, sin2Lim_eq] at this
    have hsq : (dotR x y / (normR x * normR y)) ^ 2 < (1 - val r2 / 2) ^ 2 := by linarith
    have := sq_lt_sq.mp hsq
    rw [abs_of_pos tpos, abs_of_pos (by linarith)] at this
    rw [h1, rsgn_of_pos (by linarith)]
  · right
    have := hTm1 h1
    rw [hσ, sin2Lim_eq] at this
    have hsq : (1 - val r2 / 2) ^ 2 < (dotR x y / (normR x * normR y)) ^ 2 := by linarith
    have := sq_lt_sq.mp hsq
    rw [abs_of_pos tpos, abs_of_pos (by linarith)] at this
    rw [h1, rsgn_of_neg (by linarith)]
  · left; exact h1

end S2Proofs.FE3
