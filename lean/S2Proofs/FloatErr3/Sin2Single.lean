/-
  FloatErr3.Sin2Single — the sin² stage of `CompareDistance(x, y, r)`:
  `sin2R = fl(r2·fl(1 − fl(0.25·r2)))` against the exact `sin² r = r2·(1 − r2/4)`, error `3·dblError·sin2R`.
  The multiplication by 0.25 is exact up to 2^-1075 (`quarter_mul`), the other two operations have relative
  error u each: `(1−u)²Σ − 10e ≤ sin2R ≤ (1+u)²Σ + 10e`; the code allows `3u·sin2R`, the slack pays the roundings of
  the error computation, and the absolute `e`-terms are paid by the slack `2^-51·err(sin2Distance) ≥ 2^-261`.
-/
import S2Proofs.FloatErr3.Sin2Stage
import S2Proofs.FloatErr3.Sin2

set_option linter.unusedSimpArgs false
set_option linter.unusedVariables false

namespace S2Proofs.FE3
open S2 S2.Exact S2.Pred S2Proofs.F64Order S2Proofs.PredLemmas S2Proofs.FloatErr

theorem eR_small300 : eR ≤ 1 / 2 ^ 300 := by
  unfold eR
  exact one_div_le_one_div_of_le (by positivity) (pow_le_pow_right₀ (by norm_num) (by norm_num))

theorem threeDblError_fin : Fin threeDblError := by decide +kernel

theorem threeDblError_val : val threeDblError = 3 / 2 ^ 53 - 12 / 2 ^ 106 := by
  have h : toInt threeDblError = (3 * 2 ^ 53 - 12) * 2 ^ (1074 - 106) := by decide +kernel
  rw [val_of_toInt (by norm_num) h]
  push_cast
  norm_num

/-- pure-ℝ: the rounded product `3·dblError·S` -/
theorem e3_bounds {Sv E3 e : ℝ} (hS0 : 0 ≤ Sv) (hS2 : Sv ≤ 2) (he0 : 0 ≤ e) (he : e ≤ 1 / 2 ^ 200)
    (h : |E3 - (3 / 2 ^ 53 - 12 / 2 ^ 106) * Sv| ≤ 1 / 2 ^ 53 * ((3 / 2 ^ 53 - 12 / 2 ^ 106) * Sv) + e) :
    E3 ≤ 1 / 2 ^ 40 ∧ (3 / 2 ^ 53 - 16 / 2 ^ 106) * Sv - e ≤ E3 := by
  obtain ⟨e1, e2⟩ := abs_le.mp h
  constructor
  · linarith
  · linarith

/-- pure-ℝ core of the sin² stage against a limit -/
theorem sin2_single_core {sXY σ eXY Sv L e3 E e : ℝ}
    (hb : |sXY - σ| ≤ (1 - 1 / 2 ^ 50) * eXY) (hL0 : 0 ≤ L)
    (hSlo : (1 - 2 / 2 ^ 53) * L - 10 * e ≤ Sv) (hShi : Sv ≤ (1 + 2 / 2 ^ 53 + 1 / 2 ^ 106) * L + 10 * e)
    (hElo : (3 / 2 ^ 53 - 16 / 2 ^ 106) * Sv - e ≤ e3) (he0 : 0 ≤ e)
    (hslack : 20 * e ≤ (1 / 2 ^ 50 - 1 / 2 ^ 53) * eXY)
    (hE : (1 - 1 / 2 ^ 53) * (eXY + e3) ≤ E) :
    (E < sXY - Sv → L < σ) ∧ (sXY - Sv < -E → σ < L) := by
  obtain ⟨b1, b2⟩ := abs_le.mp hb
  constructor
  · intro h; linarith
  · intro h; linarith

/-- exact `sin²` of the limit angle: `r2·(1 − r2/4)` -/
noncomputable def sin2Lim (r2 : F64) : ℝ := val r2 * (1 - val r2 / 4)

/-- the float `sin2R` of the code against the exact value, and the float `sin2RError` from below -/
theorem sin2R_spec (r2 : F64) (hr : Fin r2) (h0 : 0 ≤ val r2) (h2 : val r2 ≤ 2) :
    Fin (r2 * (F64.one - quarter * r2)) ∧ Fin (threeDblError * (r2 * (F64.one - quarter * r2))) ∧
    0 ≤ sin2Lim r2 ∧ sin2Lim r2 ≤ 1 ∧
    0 ≤ val (r2 * (F64.one - quarter * r2)) ∧ val (r2 * (F64.one - quarter * r2)) ≤ 2 ∧
    (1 - 2 / 2 ^ 53) * sin2Lim r2 - 10 * eR ≤ val (r2 * (F64.one - quarter * r2)) ∧
    val (r2 * (F64.one - quarter * r2)) ≤ (1 + 2 / 2 ^ 53 + 1 / 2 ^ 106) * sin2Lim r2 + 10 * eR ∧
    0 ≤ val (threeDblError * (r2 * (F64.one - quarter * r2))) ∧
    val (threeDblError * (r2 * (F64.one - quarter * r2))) ≤ 1 / 2 ^ 40 ∧
    (3 / 2 ^ 53 - 16 / 2 ^ 106) * val (r2 * (F64.one - quarter * r2)) - eR
      ≤ val (threeDblError * (r2 * (F64.one - quarter * r2))) := by
  have he := eR_small
  have he0 := eR_nonneg
  have hu : uR = 1 / 2 ^ 53 := rfl
  obtain ⟨fq, hq⟩ := quarter_mul hr (toInt_nonneg_of_val h0)
  obtain ⟨q1, q2⟩ := abs_le.mp hq
  -- w = fl(1 − q)
  have mw : |val F64.one - val (quarter * r2)| ≤ 4 := by
    rw [val_one]; exact abs_le.mpr ⟨by linarith, by linarith⟩
  obtain ⟨fw, rw', _⟩ := sub_step stdModel fin_one fq mw (by norm_num)
  unfold Rnd at rw'
  have hw0 : 0 ≤ val F64.one - val (quarter * r2) := by rw [val_one]; linarith
  rw [abs_of_nonneg hw0, add_zero, val_one, hu] at rw'
  obtain ⟨w1, w2⟩ := abs_le.mp rw'
  -- S = fl(r2·w)
  have hW0 : 0 ≤ val (F64.one - quarter * r2) := by nlinarith
  have hW1 : val (F64.one - quarter * r2) ≤ 3 / 2 := by nlinarith
  have hP0 : 0 ≤ val r2 * val (F64.one - quarter * r2) := mul_nonneg h0 hW0
  have hP1 : val r2 * val (F64.one - quarter * r2) ≤ 3 := by nlinarith
  have mS : |val r2 * val (F64.one - quarter * r2)| ≤ 4 := by rw [abs_of_nonneg hP0]; linarith
  obtain ⟨fS, rS, _⟩ := mul_step stdModel hr fw mS (by norm_num)
  unfold Rnd at rS
  rw [abs_of_nonneg hP0, hu] at rS
  obtain ⟨s1, s2⟩ := abs_le.mp rS
  have hS0 := mul_nn hr fw fS hP0
  -- the exact value
  have hL0 : 0 ≤ sin2Lim r2 := by unfold sin2Lim; exact mul_nonneg h0 (by linarith)
  have hL1 : sin2Lim r2 ≤ 1 := by unfold sin2Lim; nlinarith [sq_nonneg (val r2 - 2)]
  -- r2·w against Σ
  have hAW1 : val r2 * val (F64.one - quarter * r2) ≤ (1 + 1 / 2 ^ 53) * sin2Lim r2 + 3 * eR := by
    have h1 : val (F64.one - quarter * r2) ≤ (1 + 1 / 2 ^ 53) * (1 - val r2 / 4 + eR) := by nlinarith
    have h2' := mul_le_mul_of_nonneg_left h1 h0
    unfold sin2Lim
    nlinarith
  have hAW2 : (1 - 1 / 2 ^ 53) * sin2Lim r2 - 3 * eR ≤ val r2 * val (F64.one - quarter * r2) := by
    have h1 : (1 - 1 / 2 ^ 53) * (1 - val r2 / 4 - eR) ≤ val (F64.one - quarter * r2) := by nlinarith
    have h2' := mul_le_mul_of_nonneg_left h1 h0
    unfold sin2Lim
    nlinarith
  have hSlo : (1 - 2 / 2 ^ 53) * sin2Lim r2 - 10 * eR ≤ val (r2 * (F64.one - quarter * r2)) := by nlinarith
  have hShi : val (r2 * (F64.one - quarter * r2)) ≤ (1 + 2 / 2 ^ 53 + 1 / 2 ^ 106) * sin2Lim r2 + 10 * eR := by
    nlinarith
  have hS2 : val (r2 * (F64.one - quarter * r2)) ≤ 2 := by
    have : (10 : ℝ) * (1 / 2 ^ 200) ≤ 1 / 2 := by norm_num
    nlinarith
  -- sin2RError = fl(3·dblError·S)
  have hT := threeDblError_val
  have hT0 : 0 ≤ val threeDblError * val (r2 * (F64.one - quarter * r2)) := by
    rw [hT]; exact mul_nonneg (by norm_num) hS0
  have mE : |val threeDblError * val (r2 * (F64.one - quarter * r2))| ≤ 1 := by
    rw [abs_of_nonneg hT0, hT]; nlinarith
  obtain ⟨fE, rE, _⟩ := mul_step stdModel threeDblError_fin fS mE (by norm_num)
  unfold Rnd at rE
  rw [abs_of_nonneg hT0, hu, hT] at rE
  have hE0 := mul_nn threeDblError_fin fS fE hT0
  obtain ⟨g1, g2⟩ := e3_bounds hS0 hS2 he0 he rE
  exact ⟨fS, fE, hL0, hL1, hS0, hS2, hSlo, hShi, hE0, g1, g2⟩

set_option exponentiation.threshold 400 in
/-- **sin² stage of `CompareDistance`** -/
theorem triageSin2_single {x y : V3} (hXY : Sin2Bound x y) (r2 : F64) (hr : Fin r2) (h0 : 0 ≤ val r2)
    (h2 : val r2 ≤ 2) :
    (triageCompareSin2Distance x y r2 = 1 → sin2Lim r2 < sin2True x y) ∧
    (triageCompareSin2Distance x y r2 = -1 → sin2True x y < sin2Lim r2) := by
  obtain ⟨fS, fE3, hL0, hL1, hS0, hS2, hSlo, hShi, hE0, hE1, hElo⟩ := sin2R_spec r2 hr h0 h2
  have eT : triageCompareSin2Distance x y r2
      = threshold ((sin2Distance x y).1 - r2 * (F64.one - quarter * r2))
          ((sin2Distance x y).2 + threeDblError * (r2 * (F64.one - quarter * r2))) := rfl
  rw [eT]
  have he := eR_small
  have he0 := eR_nonneg
  have eA0 : 0 ≤ val (sin2Distance x y).2 := le_trans (by positivity) hXY.elo
  have md : |val (sin2Distance x y).1 - val (r2 * (F64.one - quarter * r2))| ≤ 4 :=
    abs_le.mpr ⟨by linarith [hXY.s0], by linarith [hXY.s2]⟩
  obtain ⟨fd, _, _⟩ := sub_step stdModel hXY.fs fS md (by norm_num)
  have me : |val (sin2Distance x y).2 + val (threeDblError * (r2 * (F64.one - quarter * r2)))| ≤ 2 := by
    rw [abs_of_nonneg (by linarith)]
    have : (1 : ℝ) / 2 ^ 40 ≤ 1 := by norm_num
    linarith [hXY.ehi]
  obtain ⟨fE, rE, _⟩ := add_step stdModel hXY.fe fE3 me (by norm_num)
  unfold Rnd at rE
  rw [abs_of_nonneg (by linarith : 0 ≤ val (sin2Distance x y).2
    + val (threeDblError * (r2 * (F64.one - quarter * r2)))), add_zero] at rE
  obtain ⟨rE1, _⟩ := abs_le.mp rE
  have hu : uR = 1 / 2 ^ 53 := rfl
  rw [hu] at rE1
  have rd := F64Round.isRound_sub hXY.fs fS
  have helo := hXY.elo
  have he3 := eR_small300
  have slack : (20 : ℝ) * (1 / 2 ^ 300) ≤ (1 / 2 ^ 50 - 1 / 2 ^ 53) * (1 / 2 ^ 210) := by norm_num
  have hslack : 20 * eR ≤ (1 / 2 ^ 50 - 1 / 2 ^ 53) * val (sin2Distance x y).2 := by
    have : (1 / 2 ^ 50 - 1 / 2 ^ 53 : ℝ) * (1 / 2 ^ 210) ≤ (1 / 2 ^ 50 - 1 / 2 ^ 53) * val (sin2Distance x y).2 :=
      mul_le_mul_of_nonneg_left helo (by norm_num)
    linarith
  have hEl : (1 - 1 / 2 ^ 53) * (val (sin2Distance x y).2 + val (threeDblError * (r2 * (F64.one - quarter * r2))))
      ≤ val ((sin2Distance x y).2 + threeDblError * (r2 * (F64.one - quarter * r2))) := by linarith
  obtain ⟨core1, core2⟩ := sin2_single_core hXY.bound hL0 hSlo hShi hElo he0 hslack hEl
  constructor
  · intro h
    have hv := threshold_one fd fE h
    have hgt : val ((sin2Distance x y).2 + threeDblError * (r2 * (F64.one - quarter * r2)))
        < val (sin2Distance x y).1 - val (r2 * (F64.one - quarter * r2)) := by
      by_contra hc
      have h2' : val ((sin2Distance x y).1 - r2 * (F64.one - quarter * r2)) ≤ _ :=
        round_le_of_le rd fd fE (by push_cast; rw [val_cast, val_cast]; exact not_lt.mp hc)
      linarith
    exact core1 hgt
  · intro h
    have hv := threshold_negOne fd fE h
    obtain ⟨fne, hnv⟩ := neg_spec _ fE
    have hlt : val (sin2Distance x y).1 - val (r2 * (F64.one - quarter * r2))
        < -val ((sin2Distance x y).2 + threeDblError * (r2 * (F64.one - quarter * r2))) := by
      by_contra hc
      have h2' : _ ≤ val ((sin2Distance x y).1 - r2 * (F64.one - quarter * r2)) :=
        round_ge_of_le rd fd fne (by push_cast; rw [val_cast, val_cast, hnv]; exact not_lt.mp hc)
      rw [hnv] at h2'
      linarith
    exact core2 hlt

end S2Proofs.FE3
