/-
  FloatErr3.CosFixed — the cosine stage of `CompareDistance` as REPAIRED by `docs/fixes/D54_cosRError_abs.diff`
  (`cosRError := 2.0 * dblError * math.Abs(cosR)`; the model `S2.Pred.cosDistanceDiffErr` follows the repaired code)
  is sound for EVERY valid chord angle `0 ≤ r2 ≤ 4`.

  For `r2 ≥ 2` the float `cosR = fl(1 − 0.5·r2)` is EXACT (an integer multiple of 2^-53 of magnitude ≤ 1), so the
  whole term `2u·|cosR|` is slack; the proof is the mirror image (all cosines negated) of the case `r2 ≤ 2`.
-/
import S2Proofs.FloatErr3.CosSingle

set_option linter.unusedSimpArgs false
set_option linter.unusedVariables false

namespace S2Proofs.FE3
open S2 S2.Exact S2.Pred S2Proofs.F64Order S2Proofs.PredLemmas S2Proofs.FloatErr

/-! ### symmetry of the side conditions under negation -/

theorem StdSide.neg {c s : ℝ} (h : StdSide c s) : StdSide (-c) (-s) := by
  unfold StdSide at *
  rw [neg_sub_neg, abs_sub_comm, abs_neg]; exact h

theorem TinySide.neg {c s : ℝ} (h : TinySide c s) : TinySide (-c) (-s) := by
  intro hc
  rw [abs_neg] at hc
  obtain ⟨e, alt⟩ := h hc
  have e' : |-c - -s| = |c - s| := by rw [neg_sub_neg, abs_sub_comm]
  rw [e']
  refine ⟨e, ?_⟩
  rcases alt with ⟨n, hn⟩ | alt
  · left; exact ⟨-n, by rw [hn]; push_cast; ring⟩
  · right; exact alt

/-! ### `cosR` for limits of 90° and more -/

theorem sub_units_exact_le {x y : F64} (hx : Fin x) (hy : Fin y) {n m : ℤ}
    (ex : toInt x = n * 2 ^ 1021) (ey : toInt y = m * 2 ^ 1021) (hsm : |val x - val y| ≤ 1) :
    Fin (x - y) ∧ toInt (x - y) = (n - m) * 2 ^ 1021 := by
  have hN : (n - m).natAbs ≤ 2 ^ 53 := by
    have e1 : val x - val y = ((n - m : ℤ) : ℝ) / 2 ^ 53 := by
      rw [val_of_units ex, val_of_units ey]; push_cast; ring
    rw [e1, abs_div, abs_of_pos (by positivity : (0 : ℝ) < 2 ^ 53)] at hsm
    have h2 : |((n - m : ℤ) : ℝ)| ≤ 2 ^ 53 := by
      rw [div_le_iff₀ (by positivity)] at hsm
      linarith
    have h4 : |n - m| ≤ 2 ^ 53 := by exact_mod_cast h2
    have : ((n - m).natAbs : ℤ) = |n - m| := Int.natCast_natAbs _
    omega
  have hab : ((n - m) * 2 ^ 1021 : ℤ).natAbs = (n - m).natAbs * 2 ^ 1021 := by
    rw [Int.natAbs_mul]; congr 1
  have hrep : F64Round.Rep ((n - m) * 2 ^ 1021 : ℤ).natAbs := by
    rw [hab]
    rcases Nat.lt_or_eq_of_le hN with hlt | heq
    · exact ⟨(n - m).natAbs, 1021, hlt, rfl⟩
    · refine ⟨1, 1074, by norm_num, ?_⟩
      rw [heq, ← Nat.pow_add]; simp
  have hlt : ((n - m) * 2 ^ 1021 : ℤ).natAbs < 2 ^ 2098 := by
    rw [hab]
    calc (n - m).natAbs * 2 ^ 1021 ≤ 2 ^ 53 * 2 ^ 1021 := Nat.mul_le_mul_right _ hN
      _ = 2 ^ 1074 := by rw [← Nat.pow_add]
      _ < 2 ^ 2098 := Nat.pow_lt_pow_right (by norm_num) (by norm_num)
  have hQ : (F64Round.val x - F64Round.val y) * F64Round.U = (((n - m) * 2 ^ 1021 : ℤ) : ℚ) := by
    rw [sub_mul, F64Round.val_mul_U, F64Round.val_mul_U, ex, ey]; push_cast; ring
  exact (F64Round.isRound_sub hx hy).exact_of_rep _ hrep hlt hQ

/-- for `2 ≤ r2 ≤ 4` the float `cosR` is exact, in `[-1, 0]`, and an integer multiple of `2^-53` -/
theorem cosR_obtuse (r2 : F64) (hr : Fin r2) (h2 : 2 ≤ val r2) (h4 : val r2 ≤ 4) :
    Fin (F64.one - F64.half * r2) ∧ val (F64.one - F64.half * r2) = 1 - val r2 / 2 ∧
    ∃ N : ℤ, val (F64.one - F64.half * r2) = N / 2 ^ 53 := by
  obtain ⟨fh, hh⟩ := half_mul_spec r2 hr
  rcases hh with ⟨ev, _⟩ | ⟨hsm, _⟩
  · have hg : 1 / 2 ≤ |val (F64.half * r2)| := by
      rw [ev, abs_of_nonneg (by linarith)]; linarith
    obtain ⟨n, en⟩ := units_of_half_le hg
    have e1 : toInt F64.one = (2 ^ 53 : ℤ) * 2 ^ 1021 := by
      rw [F64Round.toInt_one, ← pow_add]
    have hsm' : |val F64.one - val (F64.half * r2)| ≤ 1 := by
      rw [val_one, ev]; exact abs_le.mpr ⟨by linarith, by linarith⟩
    obtain ⟨fc, et⟩ := sub_units_exact_le fin_one fh e1 en hsm'
    have hv := val_of_units et
    have hvh := val_of_units en
    refine ⟨fc, ?_, 2 ^ 53 - n, hv⟩
    rw [hv, ← ev, hvh]; push_cast
    field_simp
    norm_num
  · exfalso
    have : |val r2| = val r2 := abs_of_nonneg (by linarith)
    rw [this] at hsm
    have : (1 : ℝ) / 2 ^ 1021 ≤ 1 :=
      div_le_one_of_le₀ (one_le_pow₀ (by norm_num)) (by positivity)
    linarith

/-! ### the repaired cosine stage -/

/-- **Soundness of the (repaired) cosine stage of `CompareDistance`** for every valid chord angle. -/
theorem triageCos_single_sound {x y : V3} (hx : Normed x) (hy : Normed y) (r2 : F64) (hr : Fin r2)
    (h0 : 0 ≤ val r2) (h4 : val r2 ≤ 4) :
    triageCompareCosDistance x y r2 = 0 ∨ triageCompareCosDistance x y r2 = exactCompareDistance x y r2 := by
  obtain ⟨fc, bc⟩ := dot_fin_le hx hy
  -- cosR: finite, |cosR| ≤ 1
  have hcR : Fin (F64.one - F64.half * r2) ∧ |val (F64.one - F64.half * r2)| ≤ 2 := by
    rcases le_or_gt (val r2) 2 with ha | ho
    · obtain ⟨fR, CR⟩ := cosR_side r2 hr h0 ha
      obtain ⟨r0, _, rρ⟩ := CR.cR_bounds
      refine ⟨fR, ?_⟩
      rw [abs_of_nonneg r0]
      have : 1 - val r2 / 2 ≤ 1 := by linarith
      nlinarith
    · obtain ⟨fR, ev, _⟩ := cosR_obtuse r2 hr (le_of_lt ho) h4
      refine ⟨fR, ?_⟩
      rw [ev]; exact abs_le.mpr ⟨by linarith, by linarith⟩
  obtain ⟨fR, bR⟩ := hcR
  obtain ⟨fAbs, vAbs⟩ := val_abs_eq (F64.one - F64.half * r2) fR
  obtain ⟨fE, SE⟩ := singleErr (x.dot y) (F64.abs (F64.one - F64.half * r2)) fc bc fAbs
    (by rw [vAbs]; exact abs_nonneg _) (by rw [vAbs]; exact bR)
  rw [vAbs] at SE
  have md : |val (x.dot y) - val (F64.one - F64.half * r2)| ≤ 4 := by
    have := abs_sub (val (x.dot y)) (val (F64.one - F64.half * r2))
    linarith
  obtain ⟨fd, _, _⟩ := sub_step stdModel fc fR md (by norm_num)
  have rd := F64Round.isRound_sub fc fR
  have eT : triageCompareCosDistance x y r2
      = Int.neg (threshold (x.dot y - (F64.one - F64.half * r2))
          ((cosErrMul * F64.abs (x.dot y) + cosErrAdd) + twoDblError * F64.abs (F64.one - F64.half * r2))) := rfl
  rw [eT, exact_single_rsgn hx hy r2 hr]
  have px := hx.normR_pos
  have py := hy.normR_pos
  have hP := nearOneProd_of hx.nearOne hy.nearOne
  have hs : dotR x y = dotR x y / (normR x * normR y) * (normR x * normR y) := by
    field_simp
  have std := stdSide_dot hx hy
  have tiny := tinySide_dot hx hy
  -- the two key implications, by cases on the side of 90°
  have K : (dotR x y / (normR x * normR y) ≤ 1 - val r2 / 2 →
        val (x.dot y) - val (F64.one - F64.half * r2)
          ≤ val ((cosErrMul * F64.abs (x.dot y) + cosErrAdd) + twoDblError * F64.abs (F64.one - F64.half * r2))) ∧
      (1 - val r2 / 2 ≤ dotR x y / (normR x * normR y) →
        val (F64.one - F64.half * r2) - val (x.dot y)
          ≤ val ((cosErrMul * F64.abs (x.dot y) + cosErrAdd) + twoDblError * F64.abs (F64.one - F64.half * r2))) := by
    rcases le_or_gt (val r2) 2 with ha | ho
    · obtain ⟨_, CR⟩ := cosR_side r2 hr h0 ha
      obtain ⟨r0, _, _⟩ := CR.cR_bounds
      rw [abs_of_nonneg r0] at SE
      exact ⟨fun h => single_core_le hP hs CR std tiny SE h, fun h => single_core_ge hP hs CR std tiny SE h⟩
    · obtain ⟨_, ev, N, hN⟩ := cosR_obtuse r2 hr (le_of_lt ho) h4
      have hneg : val (F64.one - F64.half * r2) ≤ 0 := by rw [ev]; linarith
      rw [abs_of_nonpos hneg] at SE
      have CR' : CosRSide (-val (F64.one - F64.half * r2)) (-(1 - val r2 / 2)) := by
        refine ⟨by linarith, by linarith, ?_, ?_⟩
        · rw [ev, sub_self, abs_zero]
          apply div_nonneg (by linarith) (by positivity)
        · intro _
          exact ⟨by rw [ev], -N, by rw [hN]; push_cast; ring⟩
      have SE' : SingleErr (-val (x.dot y)) (-val (F64.one - F64.half * r2))
          (val ((cosErrMul * F64.abs (x.dot y) + cosErrAdd)
            + twoDblError * F64.abs (F64.one - F64.half * r2))) := by
        unfold SingleErr at *; rw [abs_neg]; exact SE
      have hs' : -dotR x y = -(dotR x y / (normR x * normR y)) * (normR x * normR y) := by
        rw [neg_mul, ← hs]
      constructor
      · intro h
        have := single_core_ge hP hs' CR' std.neg tiny.neg SE' (by linarith)
        linarith
      · intro h
        have := single_core_le hP hs' CR' std.neg tiny.neg SE' (by linarith)
        linarith
  obtain ⟨K1, K2⟩ := K
  rcases threshold_cases _ _ fd fE with ⟨ht, hv⟩ | ⟨ht, hv⟩ | ht
  · right
    rw [ht]
    have hlt : 1 - val r2 / 2 < dotR x y / (normR x * normR y) := by
      by_contra hc
      have := K1 (not_lt.mp hc)
      have h2' : val (x.dot y - (F64.one - F64.half * r2)) ≤ _ :=
        round_le_of_le rd fd fE (by push_cast; rw [val_cast, val_cast]; exact this)
      linarith
    rw [rsgn_of_neg (by linarith)]; rfl
  · right
    rw [ht]
    have hlt : dotR x y / (normR x * normR y) < 1 - val r2 / 2 := by
      by_contra hc
      have := K2 (not_lt.mp hc)
      obtain ⟨fne, hnv⟩ := neg_spec _ fE
      have h2' : _ ≤ val (x.dot y - (F64.one - F64.half * r2)) :=
        round_ge_of_le rd fd fne (by push_cast; rw [val_cast, val_cast, hnv]; linarith)
      rw [hnv] at h2'
      linarith
    rw [rsgn_of_pos (by linarith)]; rfl
  · left; rw [ht]; rfl

end S2Proofs.FE3
