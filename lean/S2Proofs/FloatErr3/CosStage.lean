/-
  FloatErr3.CosStage — the cosine triage stages on float vectors:

  * `triageCos_pair_sound`   `triageCompareCosDistances x a b` is 0 or `exactCompareDistances` (all `Normed` x a b)
  * `triageCos_single_sound` `triageCompareCosDistance x y r2` is 0 or `exactCompareDistance` (`Normed` x y, 0 ≤ r2 ≤ 2)
-/
import Mathlib.Analysis.Real.Sqrt
import S2Proofs.FloatErr3.CosErr
import S2Proofs.Properties.C02

set_option linter.unusedSimpArgs false
set_option linter.unusedVariables false

namespace S2Proofs.FE3
open S2 S2.Exact S2.Pred S2Proofs.F64Order S2Proofs.PredLemmas S2Proofs.FloatErr

/-! ### exact norms -/

noncomputable def normR (p : V3) : ℝ := Real.sqrt (n2R p)

theorem normR_sq (p : V3) : normR p ^ 2 = n2R p := Real.sq_sqrt (n2R_nonneg p)
theorem normR_nonneg (p : V3) : 0 ≤ normR p := Real.sqrt_nonneg _

theorem Normed.nearOne {p : V3} (h : Normed p) : NearOne (normR p) := by
  have h1 := h.n2_le
  have h2 := h.n2_ge
  have hs := normR_sq p
  have h0 := normR_nonneg p
  constructor
  · apply le_of_sq_le (by norm_num) h0
    rw [hs]
    have : ((1 : ℝ) - 21 / 5 / 2 ^ 53) ^ 2 ≤ 1 - 33 / 2 ^ 55 := by norm_num
    linarith
  · apply le_of_sq_le h0 (by norm_num)
    rw [hs]
    have : (1 : ℝ) + 33 / 2 ^ 55 ≤ (1 + 21 / 5 / 2 ^ 53) ^ 2 := by norm_num
    linarith

theorem Normed.normR_pos {p : V3} (h : Normed p) : 0 < normR p := by
  have := h.nearOne.1
  have : (0 : ℝ) < 1 - 21 / 5 / 2 ^ 53 := by norm_num
  linarith

/-! ### the two views of one float cosine -/

theorem stdSide_dot {a x : V3} (ha : Normed a) (hx : Normed x) : StdSide (val (a.dot x)) (dotR a x) := by
  obtain ⟨_, h⟩ := dot_std ha hx
  unfold StdSide
  refine le_trans h ?_
  have hs := abs_nonneg (dotR a x)
  have he := eR_small
  have he0 := eR_nonneg
  have e1 : fU uR ≤ 8 / 5 / 2 ^ 53 := by unfold fU uR; norm_num
  have e2 : gU uR * (1 + 33 / 2 ^ 55) + hU uR * eR ≤ 3 / 2 ^ 54 + 20 / 2 ^ 106 := by
    have hh : hU uR ≤ 4 := by unfold hU uR; norm_num
    have hh0 : 0 ≤ hU uR := by unfold hU uR; norm_num
    have : hU uR * eR ≤ 4 * (1 / 2 ^ 200) := mul_le_mul hh he he0 (by norm_num)
    have : gU uR * (1 + 33 / 2 ^ 55) + 4 * (1 / 2 ^ 200) ≤ 3 / 2 ^ 54 + 20 / 2 ^ 106 := by
      unfold gU uR; norm_num
    linarith
  have := mul_le_mul_of_nonneg_right e1 hs
  linarith

theorem tinySide_dot {a x : V3} (ha : Normed a) (hx : Normed x) : TinySide (val (a.dot x)) (dotR a x) :=
  fun h => dot_tiny ha hx h

theorem dot_fin_le {a x : V3} (ha : Normed a) (hx : Normed x) : Fin (a.dot x) ∧ |val (a.dot x)| ≤ 2 := by
  obtain ⟨hf, h⟩ := dot_crude ha hx
  refine ⟨hf, ?_⟩
  have h1 := dotR_abs_le ha hx
  have h2 := abs_sub_abs_le_abs_sub (val (a.dot x)) (dotR a x)
  have : (1 : ℝ) + 33 / 2 ^ 55 + 1 / 2 ^ 51 ≤ 2 := by norm_num
  linarith

theorem dotR_comm (p q : V3) : dotR p q = dotR q p := by unfold dotR; ring

/-! ### the exact comparison in real terms -/

theorem rsgn_eq_of_pos_mul {y z k : ℝ} (hk : 0 < k) (h : y = k * z) : rsgn y = rsgn z := by
  rcases lt_trichotomy z 0 with hz | hz | hz
  · rw [rsgn_of_neg hz, rsgn_of_neg (by rw [h]; exact mul_neg_of_pos_of_neg hk hz)]
  · subst hz; rw [h]; simp
  · rw [rsgn_of_pos hz, rsgn_of_pos (by rw [h]; exact mul_pos hk hz)]

theorem ofV3_dot_cast (p q : V3) : (((ofV3 p).dot (ofV3 q) : ℤ) : ℝ) = dotR p q * (2 ^ 1074) ^ 2 := by
  have h := dot_val p q
  unfold dotR
  rw [h]
  have hS : (0 : ℝ) < 2 ^ 1074 := by positivity
  generalize (2 : ℝ) ^ 1074 = S at *
  field_simp

theorem ofV3_norm2_cast (p : V3) : (((ofV3 p).norm2 : ℤ) : ℝ) = n2R p * (2 ^ 1074) ^ 2 := by
  have h := n2R_eq p
  unfold norm2I at h
  rw [h]
  have hS : (0 : ℝ) < 2 ^ 1074 := by positivity
  generalize (2 : ℝ) ^ 1074 = S at *
  field_simp

/-- `exactCompareDistances` is the sign of `cos BX − cos AX` (cross-multiplied by the positive norms) -/
theorem exact_pair_rsgn {x a b : V3} (ha : Normed a) (hb : Normed b) :
    exactCompareDistances (ofV3 x) (ofV3 a) (ofV3 b) = rsgn (dotR b x * normR a - dotR a x * normR b) := by
  have hS : (0 : ℝ) < 2 ^ 1074 := by positivity
  have pa := ha.normR_pos
  have pb := hb.normR_pos
  rw [C02.exactCompareDistances_true_distance (ofV3 x) (ofV3 a) (ofV3 b) (normR a * 2 ^ 1074) (normR b * 2 ^ 1074)
    (mul_pos pa hS) (mul_pos pb hS)
    (by rw [mul_pow, normR_sq, ofV3_norm2_cast]) (by rw [mul_pow, normR_sq, ofV3_norm2_cast])]
  rw [ofV3_dot_cast, ofV3_dot_cast, dotR_comm x b, dotR_comm x a]
  apply rsgn_eq_of_pos_mul (k := 2 ^ 1074 / (normR a * normR b)) (div_pos hS (mul_pos pa pb))
  generalize (2 : ℝ) ^ 1074 = S at *
  field_simp

/-! ### `triageCompareCosDistances` -/

theorem threshold_cases (d e : F64) (hd : Fin d) (he : Fin e) :
    (threshold d e = 1 ∧ val e < val d) ∨ (threshold d e = -1 ∧ val d < -val e) ∨ threshold d e = 0 := by
  unfold threshold
  obtain ⟨hne, hnv⟩ := neg_spec e he
  by_cases h1 : F64.gt d e = true
  · left
    rw [if_pos h1]
    exact ⟨rfl, (FloatErr.val_lt_iff e d).2 ((gt_iff hd he).1 h1)⟩
  · rw [if_neg h1]
    by_cases h2 : F64.lt d (-e) = true
    · right; left
      rw [if_pos h2]
      refine ⟨rfl, ?_⟩
      have := (FloatErr.val_lt_iff d (-e)).2 ((lt_iff hd hne).1 h2)
      rw [hnv] at this
      exact this
    · right; right
      rw [if_neg h2]

/-- **Soundness of the cosine stage of `CompareDistances`**: for `Normed` points the stage returns 0 or the
    exact comparison. -/
theorem triageCos_pair_sound {x a b : V3} (hx : Normed x) (ha : Normed a) (hb : Normed b) :
    triageCompareCosDistances x a b = 0 ∨
    triageCompareCosDistances x a b = exactCompareDistances (ofV3 x) (ofV3 a) (ofV3 b) := by
  obtain ⟨fA, bA⟩ := dot_fin_le ha hx
  obtain ⟨fB, bB⟩ := dot_fin_le hb hx
  obtain ⟨fE, hE⟩ := pairErr (a.dot x) (b.dot x) fA fB bA bB
  have md : |val (a.dot x) - val (b.dot x)| ≤ 4 := by
    have := abs_sub (val (a.dot x)) (val (b.dot x)); linarith
  obtain ⟨fd, _, _⟩ := sub_step stdModel fA fB md (by norm_num)
  have rd := F64Round.isRound_sub fA fB
  have eT : triageCompareCosDistances x a b
      = Int.neg (threshold (a.dot x - b.dot x)
          ((cosErrMul * F64.abs (a.dot x) + cosErrAdd) + (cosErrMul * F64.abs (b.dot x) + cosErrAdd))) := rfl
  rw [eT, exact_pair_rsgn ha hb]
  have na := ha.nearOne
  have nb := hb.nearOne
  rcases threshold_cases _ _ fd fE with ⟨ht, hv⟩ | ⟨ht, hv⟩ | ht
  · right
    rw [ht]
    have hlt : dotR b x * normR a < dotR a x * normR b := by
      by_contra hc
      have hc' : dotR a x * normR b ≤ dotR b x * normR a := not_lt.mp hc
      have := pair_core na nb hc' (stdSide_dot ha hx) (stdSide_dot hb hx) (tinySide_dot ha hx) (tinySide_dot hb hx) hE
      have h2 : val (a.dot x - b.dot x) ≤ _ :=
        round_le_of_le rd fd fE (by push_cast; rw [val_cast, val_cast]; exact this)
      linarith
    rw [rsgn_of_neg (by linarith)]; rfl
  · right
    rw [ht]
    have hlt : dotR a x * normR b < dotR b x * normR a := by
      by_contra hc
      have hc' : dotR b x * normR a ≤ dotR a x * normR b := not_lt.mp hc
      have hE' : (19 / 2 ^ 54 - 80 / 2 ^ 106) * (|val (b.dot x)| + |val (a.dot x)|) + (3 / 2 ^ 53 - 19 / 2 ^ 106)
          ≤ val ((cosErrMul * F64.abs (a.dot x) + cosErrAdd) + (cosErrMul * F64.abs (b.dot x) + cosErrAdd)) := by
        rw [add_comm |val (b.dot x)|]; exact hE
      have := pair_core nb na hc' (stdSide_dot hb hx) (stdSide_dot ha hx) (tinySide_dot hb hx) (tinySide_dot ha hx) hE'
      obtain ⟨fne, hnv⟩ := neg_spec _ fE
      have h2 : _ ≤ val (a.dot x - b.dot x) :=
        round_ge_of_le rd fd fne (by push_cast; rw [val_cast, val_cast, hnv]; linarith)
      rw [hnv] at h2
      linarith
    rw [rsgn_of_pos (by linarith)]; rfl
  · left; rw [ht]; rfl

end S2Proofs.FE3
