/-
  FloatErr3.Sin2Stage — the sin² triage stages, GIVEN the error bound of `sin2Distance` in the form `Sin2Bound`
  (proved for `Normed` points in `FloatErr3/Sin2.lean`):

  * `triageSin2_pair`    `triageCompareSin2Distances x a b = ±1` implies the strict order of the true sin²
  * `triageSin2_single`  the same for `triageCompareSin2Distance x y r2` against `sin² r = r2·(1 − r2/4)`
-/
import S2Proofs.FloatErr3.CosSingle

set_option linter.unusedSimpArgs false
set_option linter.unusedVariables false

namespace S2Proofs.FE3
open S2 S2.Exact S2.Pred S2Proofs.F64Order S2Proofs.PredLemmas S2Proofs.FloatErr

/-- what the sin² stages need from `sin2Distance p q = (s, err)` -/
structure Sin2Bound (p q : V3) : Prop where
  fs : Fin (sin2Distance p q).1
  fe : Fin (sin2Distance p q).2
  s0 : 0 ≤ val (sin2Distance p q).1
  s2 : val (sin2Distance p q).1 ≤ 2
  elo : 1 / 2 ^ 210 ≤ val (sin2Distance p q).2
  ehi : val (sin2Distance p q).2 ≤ 1
  bound : |val (sin2Distance p q).1 - sin2True p q| ≤ (1 - 1 / 2 ^ 50) * val (sin2Distance p q).2

theorem threshold_one {d e : F64} (hd : Fin d) (he : Fin e) (h : threshold d e = 1) : val e < val d := by
  rcases threshold_cases d e hd he with ⟨_, hv⟩ | ⟨ht, _⟩ | ht
  · exact hv
  · rw [ht] at h; exact absurd h (by decide)
  · rw [ht] at h; exact absurd h (by decide)

theorem threshold_negOne {d e : F64} (hd : Fin d) (he : Fin e) (h : threshold d e = -1) : val d < -val e := by
  rcases threshold_cases d e hd he with ⟨ht, _⟩ | ⟨_, hv⟩ | ht
  · rw [ht] at h; exact absurd h (by decide)
  · exact hv
  · rw [ht] at h; exact absurd h (by decide)

theorem threshold_zero {d e : F64} (hd : Fin d) (he : Fin e) (h : threshold d e = 0) :
    val d ≤ val e ∧ -val e ≤ val d := by
  unfold threshold at h
  obtain ⟨hne, hnv⟩ := neg_spec e he
  by_cases h1 : F64.gt d e = true
  · rw [if_pos h1] at h; exact absurd h (by decide)
  · rw [if_neg h1] at h
    by_cases h2 : F64.lt d (-e) = true
    · rw [if_pos h2] at h; exact absurd h (by decide)
    · constructor
      · by_contra hc
        exact h1 ((gt_iff hd he).2 ((FloatErr.val_lt_iff e d).1 (not_le.mp hc)))
      · by_contra hc
        have : val d < val (-e) := by rw [hnv]; exact not_le.mp hc
        exact h2 ((lt_iff hd hne).2 ((FloatErr.val_lt_iff d (-e)).1 this))

/-- **sin² stage of `CompareDistances`** -/
theorem triageSin2_pair {x a b : V3} (hA : Sin2Bound a x) (hB : Sin2Bound b x) :
    (triageCompareSin2Distances x a b = 1 → sin2True b x < sin2True a x) ∧
    (triageCompareSin2Distances x a b = -1 → sin2True a x < sin2True b x) := by
  have eT : triageCompareSin2Distances x a b
      = threshold ((sin2Distance a x).1 - (sin2Distance b x).1) ((sin2Distance a x).2 + (sin2Distance b x).2) := rfl
  rw [eT]
  have eA0 : 0 ≤ val (sin2Distance a x).2 := le_trans (by positivity) hA.elo
  have eB0 : 0 ≤ val (sin2Distance b x).2 := le_trans (by positivity) hB.elo
  have md : |val (sin2Distance a x).1 - val (sin2Distance b x).1| ≤ 4 :=
    abs_le.mpr ⟨by linarith [hA.s0, hB.s2], by linarith [hA.s2, hB.s0]⟩
  obtain ⟨fd, _, _⟩ := sub_step stdModel hA.fs hB.fs md (by norm_num)
  have me : |val (sin2Distance a x).2 + val (sin2Distance b x).2| ≤ 2 := by
    rw [abs_of_nonneg (by linarith)]; linarith [hA.ehi, hB.ehi]
  obtain ⟨fE, rE, _⟩ := add_step stdModel hA.fe hB.fe me (by norm_num)
  unfold Rnd at rE
  rw [abs_of_nonneg (by linarith : 0 ≤ val (sin2Distance a x).2 + val (sin2Distance b x).2), add_zero] at rE
  obtain ⟨rE1, _⟩ := abs_le.mp rE
  have hu : uR = 1 / 2 ^ 53 := rfl
  rw [hu] at rE1
  have rd := F64Round.isRound_sub hA.fs hB.fs
  obtain ⟨bA1, bA2⟩ := abs_le.mp hA.bound
  obtain ⟨bB1, bB2⟩ := abs_le.mp hB.bound
  constructor
  · intro h
    have hv := threshold_one fd fE h
    have hgt : val ((sin2Distance a x).2 + (sin2Distance b x).2)
        < val (sin2Distance a x).1 - val (sin2Distance b x).1 := by
      by_contra hc
      have h2 : val ((sin2Distance a x).1 - (sin2Distance b x).1) ≤ _ :=
        round_le_of_le rd fd fE (by push_cast; rw [val_cast, val_cast]; exact not_lt.mp hc)
      linarith
    nlinarith
  · intro h
    have hv := threshold_negOne fd fE h
    obtain ⟨fne, hnv⟩ := neg_spec _ fE
    have hlt : val (sin2Distance a x).1 - val (sin2Distance b x).1
        < -val ((sin2Distance a x).2 + (sin2Distance b x).2) := by
      by_contra hc
      have h2 : _ ≤ val ((sin2Distance a x).1 - (sin2Distance b x).1) :=
        round_ge_of_le rd fd fne (by push_cast; rw [val_cast, val_cast, hnv]; exact not_lt.mp hc)
      rw [hnv] at h2
      linarith
    nlinarith

end S2Proofs.FE3
