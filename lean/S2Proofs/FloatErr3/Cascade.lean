/-
  FloatErr3.Cascade — assembling the stages of `CompareDistances`:
  cos triage → (a == b) → sin² triage (only for angles < 45° or > 135°) → exact → symbolic.
-/
import S2Proofs.FloatErr3.Sin2Stage

set_option linter.unusedSimpArgs false
set_option linter.unusedVariables false

namespace S2Proofs.FE3
open S2 S2.Exact S2.Pred S2Proofs.F64Order S2Proofs.PredLemmas S2Proofs.FloatErr

theorem invSqrt2_fin : Fin invSqrt2 := by decide +kernel

theorem invSqrt2_ge : 7 / 10 ≤ val invSqrt2 := by
  have h : 7 * 2 ^ 1074 ≤ toInt invSqrt2 * 10 := by decide +kernel
  have h' : (7 : ℝ) * 2 ^ 1074 ≤ (toInt invSqrt2 : ℝ) * 10 := by exact_mod_cast h
  unfold val
  have hB : (0 : ℝ) < 2 ^ 1074 := by positivity
  generalize (2 : ℝ) ^ 1074 = B at *
  rw [div_le_div_iff₀ (by norm_num) hB]
  linarith

theorem threshold_range (d e : F64) : threshold d e = 1 ∨ threshold d e = -1 ∨ threshold d e = 0 := by
  unfold threshold
  split
  · left; rfl
  · split
    · right; left; rfl
    · right; right; rfl

/-- `sin²` of the true angle in terms of the exact dot product and norms -/
theorem sin2True_eq {p q : V3} (hp : Normed p) (hq : Normed q) :
    sin2True p q = 1 - dotR p q ^ 2 / (n2R p * n2R q) := by
  unfold sin2True
  rw [lagrange_id]
  have h1 : 0 < n2R p := by have := hp.n2_ge; have : (0 : ℝ) < 1 - 33 / 2 ^ 55 := by norm_num
                            linarith
  have h2 : 0 < n2R q := by have := hq.n2_ge; have : (0 : ℝ) < 1 - 33 / 2 ^ 55 := by norm_num
                            linarith
  field_simp

/-- the order of the true sin² is the reverse order of the squared true cosines (cross-multiplied) -/
theorem sin2_lt_iff {x a b : V3} (hx : Normed x) (ha : Normed a) (hb : Normed b) :
    sin2True b x < sin2True a x ↔ (dotR a x * normR b) ^ 2 < (dotR b x * normR a) ^ 2 := by
  rw [sin2True_eq hb hx, sin2True_eq ha hx]
  have h1 : 0 < n2R a := by have := ha.n2_ge; have : (0 : ℝ) < 1 - 33 / 2 ^ 55 := by norm_num
                            linarith
  have h2 : 0 < n2R b := by have := hb.n2_ge; have : (0 : ℝ) < 1 - 33 / 2 ^ 55 := by norm_num
                            linarith
  have h3 : 0 < n2R x := by have := hx.n2_ge; have : (0 : ℝ) < 1 - 33 / 2 ^ 55 := by norm_num
                            linarith
  rw [mul_pow, mul_pow, normR_sq, normR_sq]
  constructor
  · intro h
    have h' : dotR a x ^ 2 / (n2R a * n2R x) < dotR b x ^ 2 / (n2R b * n2R x) := by linarith
    rw [div_lt_div_iff₀ (mul_pos h1 h3) (mul_pos h2 h3)] at h'
    have : dotR a x ^ 2 * n2R b * n2R x < dotR b x ^ 2 * n2R a * n2R x := by nlinarith
    exact lt_of_mul_lt_mul_right this (le_of_lt h3)
  · intro h
    have h' : dotR a x ^ 2 / (n2R a * n2R x) < dotR b x ^ 2 / (n2R b * n2R x) := by
      rw [div_lt_div_iff₀ (mul_pos h1 h3) (mul_pos h2 h3)]
      have := mul_lt_mul_of_pos_right h h3
      nlinarith
    linarith

/-- what the cosine stage tells when it answers 0: the two float cosines are close -/
theorem cos_close_of_zero {x a b : V3} (hx : Normed x) (ha : Normed a) (hb : Normed b)
    (h : triageCompareCosDistances x a b = 0) : |val (a.dot x) - val (b.dot x)| ≤ 1 / 2 ^ 37 := by
  obtain ⟨fA, bA⟩ := dot_fin_le ha hx
  obtain ⟨fB, bB⟩ := dot_fin_le hb hx
  obtain ⟨fE, _⟩ := pairErr (a.dot x) (b.dot x) fA fB bA bB
  have hEle := pairErr_le (a.dot x) (b.dot x) fA fB bA bB
  have md : |val (a.dot x) - val (b.dot x)| ≤ 4 := by
    have := abs_sub (val (a.dot x)) (val (b.dot x)); linarith
  obtain ⟨fd, rd, _⟩ := sub_step stdModel fA fB md (by norm_num)
  have eT : triageCompareCosDistances x a b
      = Int.neg (threshold (a.dot x - b.dot x)
          ((cosErrMul * F64.abs (a.dot x) + cosErrAdd) + (cosErrMul * F64.abs (b.dot x) + cosErrAdd))) := rfl
  rw [eT] at h
  have h0 : threshold (a.dot x - b.dot x)
      ((cosErrMul * F64.abs (a.dot x) + cosErrAdd) + (cosErrMul * F64.abs (b.dot x) + cosErrAdd)) = 0 := by
    rcases threshold_range (a.dot x - b.dot x)
      ((cosErrMul * F64.abs (a.dot x) + cosErrAdd) + (cosErrMul * F64.abs (b.dot x) + cosErrAdd)) with h1 | h1 | h1
    · rw [h1] at h; exact absurd h (by decide)
    · rw [h1] at h; exact absurd h (by decide)
    · exact h1
  obtain ⟨z1, z2⟩ := threshold_zero fd fE h0
  unfold Rnd at rd
  rw [add_zero] at rd
  obtain ⟨r1, r2⟩ := abs_le.mp rd
  have hu : uR = 1 / 2 ^ 53 := rfl
  rw [hu] at r1 r2
  refine abs_le.mpr ⟨?_, ?_⟩ <;> nlinarith

theorem neg_int_neg (t : ℤ) : Int.neg t = -t := rfl

/-- **the sin² block of `CompareDistances`** is 0 or the exact comparison, given that the cosine stage
    answered 0 and given the error bound of `sin2Distance` for the two pairs -/
theorem sin2Stage_pair_sound {x a b : V3} (hx : Normed x) (ha : Normed a) (hb : Normed b)
    (hA : Sin2Bound a x) (hB : Sin2Bound b x) (hcos : triageCompareCosDistances x a b = 0) :
    sin2StageDistances x a b = 0 ∨
    sin2StageDistances x a b = exactCompareDistances (ofV3 x) (ofV3 a) (ofV3 b) := by
  obtain ⟨fA, bA⟩ := dot_fin_le ha hx
  obtain ⟨dfa, dA⟩ := dot_crude ha hx
  obtain ⟨dfb, dB⟩ := dot_crude hb hx
  have hclose := cos_close_of_zero hx ha hb hcos
  obtain ⟨c1, c2⟩ := abs_le.mp hclose
  obtain ⟨a1, a2⟩ := abs_le.mp dA
  obtain ⟨b1, b2⟩ := abs_le.mp dB
  have hi := invSqrt2_ge
  have pa := ha.normR_pos
  have pb := hb.normR_pos
  have na := ha.nearOne
  have nb := hb.nearOne
  obtain ⟨hT1, hTm1⟩ := triageSin2_pair hA hB
  have eS : sin2StageDistances x a b
      = if F64.gt (a.dot x) invSqrt2 then triageCompareSin2Distances x a b
        else if F64.lt (a.dot x) (-invSqrt2) then -(triageCompareSin2Distances x a b) else 0 := rfl
  rw [eS, exact_pair_rsgn ha hb]
  have eT : triageCompareSin2Distances x a b
      = threshold ((sin2Distance a x).1 - (sin2Distance b x).1) ((sin2Distance a x).2 + (sin2Distance b x).2) := rfl
  have hrange := threshold_range ((sin2Distance a x).1 - (sin2Distance b x).1) ((sin2Distance a x).2 + (sin2Distance b x).2)
  rw [← eT] at hrange
  have small : (1 : ℝ) / 2 ^ 37 + 1 / 2 ^ 51 + 1 / 2 ^ 51 ≤ 1 / 100 := by norm_num
  by_cases hg : F64.gt (a.dot x) invSqrt2 = true
  · rw [if_pos hg]
    have hgv : val invSqrt2 < val (a.dot x) := (FloatErr.val_lt_iff _ _).2 ((gt_iff fA invSqrt2_fin).1 hg)
    have sA : 0 < dotR a x := by linarith
    have sB : 0 < dotR b x := by linarith
    have pA : 0 < dotR a x * normR b := mul_pos sA pb
    have pB : 0 < dotR b x * normR a := mul_pos sB pa
    rcases hrange with h1 | h1 | h1
    · right
      have := (sin2_lt_iff hx ha hb).1 (hT1 h1)
      have hlt : dotR a x * normR b < dotR b x * normR a := by
        have := sq_lt_sq.mp this
        rw [abs_of_pos pA, abs_of_pos pB] at this; exact this
      rw [h1, rsgn_of_pos (by linarith)]
    · right
      have := (sin2_lt_iff hx hb ha).1 (hTm1 h1)
      have hlt : dotR b x * normR a < dotR a x * normR b := by
        have := sq_lt_sq.mp this
        rw [abs_of_pos pA, abs_of_pos pB] at this; exact this
      rw [h1, rsgn_of_neg (by linarith)]
    · left; exact h1
  · rw [if_neg hg]
    by_cases hl : F64.lt (a.dot x) (-invSqrt2) = true
    · rw [if_pos hl]
      obtain ⟨fni, hni⟩ := neg_spec invSqrt2 invSqrt2_fin
      have hlv : val (a.dot x) < -val invSqrt2 := by
        have := (FloatErr.val_lt_iff _ _).2 ((lt_iff fA fni).1 hl)
        rw [hni] at this; exact this
      have sA : dotR a x < 0 := by linarith
      have sB : dotR b x < 0 := by linarith
      have pA : dotR a x * normR b < 0 := mul_neg_of_neg_of_pos sA pb
      have pB : dotR b x * normR a < 0 := mul_neg_of_neg_of_pos sB pa
      rcases hrange with h1 | h1 | h1
      · right
        have := (sin2_lt_iff hx ha hb).1 (hT1 h1)
        have hlt : dotR b x * normR a < dotR a x * normR b := by
          have := sq_lt_sq.mp this
          rw [abs_of_neg pA, abs_of_neg pB] at this; linarith
        rw [h1, rsgn_of_neg (by linarith)]
      · right
        have := (sin2_lt_iff hx hb ha).1 (hTm1 h1)
        have hlt : dotR a x * normR b < dotR b x * normR a := by
          have := sq_lt_sq.mp this
          rw [abs_of_neg pA, abs_of_neg pB] at this; linarith
        rw [h1, rsgn_of_pos (by linarith)]; rfl
      · left; rw [h1]; rfl
    · rw [if_neg hl]; left; rfl

end S2Proofs.FE3
