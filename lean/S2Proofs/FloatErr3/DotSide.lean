/-
  FloatErr3.DotSide — facts about ONE float cosine `c = fl(a·x)` of two `Normed` vectors:

  * `sumAbs_le`  Σ|a_i x_i| ≤ 1 + 33/2^55                                  (Cauchy–Schwarz)
  * `dot_std`    standard-model bound  |c − a·x| ≤ f·|a·x| + g·(1+33/2^55) + h·e
  * `dot_tiny`   near 90° (|c| ≤ 2^-45), on the level of half-ulps:
                 |c − a·x| ≤ 1.5u + 2^-90, and EITHER c is an integer multiple of u = 2^-53
                 OR |c − a·x| ≤ 1.25u + 2^-90.
-/
import S2Proofs.FloatErr3.DotTiny

set_option linter.unusedSimpArgs false
set_option linter.unusedVariables false

namespace S2Proofs.FE3
open S2 S2.Exact S2.Pred S2Proofs.F64Order S2Proofs.PredLemmas S2Proofs.FloatErr

theorem ulpRnd_of_isRound {r : F64} {Q : ℚ} (h : F64Round.IsRound r Q) : UlpRnd (Q : ℝ) (val r) :=
  fun m hm hq => (ulpR h m hm hq).2

theorem n2R_nonneg (p : V3) : 0 ≤ n2R p := by unfold n2R; positivity

/-- Cauchy–Schwarz: `Σ|a_i x_i| ≤ 1 + 33/2^55` for `Normed` vectors -/
theorem sumAbs_le {a x : V3} (ha : Normed a) (hx : Normed x) :
    |val a.x * val x.x| + |val a.y * val x.y| + |val a.z * val x.z| ≤ 1 + 33 / 2 ^ 55 := by
  simp only [abs_mul]
  have hcs := cs3 (val a.x) (val a.y) (val a.z) (val x.x) (val x.y) (val x.z)
  have n0 : 0 ≤ |val a.x| * |val x.x| + |val a.y| * |val x.y| + |val a.z| * |val x.z| := by positivity
  have hm0 : (0 : ℝ) ≤ 1 + 33 / 2 ^ 55 := by norm_num
  apply le_of_sq_le n0 hm0
  have h1 := ha.n2_le
  have h2 := hx.n2_le
  unfold n2R at h1 h2
  have nb : 0 ≤ val x.x ^ 2 + val x.y ^ 2 + val x.z ^ 2 := by positivity
  have := mul_le_mul h1 h2 nb hm0
  have e : ((1 : ℝ) + 33 / 2 ^ 55) ^ 2 = (1 + 33 / 2 ^ 55) * (1 + 33 / 2 ^ 55) := by ring
  linarith

theorem dotR_abs_le {a x : V3} (ha : Normed a) (hx : Normed x) : |dotR a x| ≤ 1 + 33 / 2 ^ 55 := by
  unfold dotR
  exact le_trans (abs_add_three _ _ _) (sumAbs_le ha hx)

/-- standard-model error bound of the float cosine of two `Normed` vectors -/
theorem dot_std {a x : V3} (ha : Normed a) (hx : Normed x) :
    Fin (a.dot x) ∧
    |val (a.dot x) - dotR a x| ≤ fU uR * |dotR a x| + gU uR * (1 + 33 / 2 ^ 55) + hU uR * eR := by
  obtain ⟨hfin, hE⟩ := dotChain_of_stdModel stdModel a x ha.1 hx.1 ha.coord_le hx.coord_le
  refine ⟨hfin, le_trans hE ?_⟩
  have hg0 : 0 ≤ gU uR := by unfold gU; have := uR_nonneg; positivity
  have k2 := mul_le_mul_of_nonneg_left (sumAbs_le ha hx) hg0
  unfold dotR
  linarith

/-- crude numeric form: the error of the float cosine is below `2^-51` (= 4u) -/
theorem dot_crude {a x : V3} (ha : Normed a) (hx : Normed x) :
    Fin (a.dot x) ∧ |val (a.dot x) - dotR a x| ≤ 1 / 2 ^ 51 := by
  obtain ⟨hf, h⟩ := dot_std ha hx
  refine ⟨hf, le_trans h ?_⟩
  have hs := dotR_abs_le ha hx
  have hf0 : 0 ≤ fU uR := by unfold fU; have := uR_nonneg; positivity
  have k1 := mul_le_mul_of_nonneg_left hs hf0
  have e1 : fU uR * (1 + 33 / 2 ^ 55) + gU uR * (1 + 33 / 2 ^ 55) + hU uR * eR ≤ 1 / 2 ^ 51 := by
    unfold fU gU hU uR eR
    have he : (1 : ℝ) / 2 ^ 1075 ≤ 1 / 2 ^ 60 :=
      one_div_le_one_div_of_le (by positivity) (pow_le_pow_right₀ (by norm_num) (by norm_num))
    generalize (1 : ℝ) / 2 ^ 1075 = e at *
    have he0 : (1 + (1 : ℝ) / 2 ^ 53) * (3 + 2 * (1 / 2 ^ 53)) ≤ 4 := by norm_num
    have : (1 + (1 : ℝ) / 2 ^ 53) * (3 + 2 * (1 / 2 ^ 53)) * e ≤ 4 * (1 / 2 ^ 60) := by
      have h0 : (0 : ℝ) ≤ (1 + (1 : ℝ) / 2 ^ 53) * (3 + 2 * (1 / 2 ^ 53)) := by norm_num
      calc _ ≤ (1 + (1 : ℝ) / 2 ^ 53) * (3 + 2 * (1 / 2 ^ 53)) * (1 / 2 ^ 60) :=
            mul_le_mul_of_nonneg_left he h0
        _ ≤ 4 * (1 / 2 ^ 60) := mul_le_mul_of_nonneg_right he0 (by norm_num)
    have e2 : (1 : ℝ) / 2 ^ 53 * (3 / 2 + 1 / 2 ^ 53 / 2) * (1 + 33 / 2 ^ 55)
        + 1 / 2 ^ 53 * (1 + 1 / 2 ^ 53) * (3 / 2 + 1 / 2 ^ 53) * (1 + 33 / 2 ^ 55) + 4 * (1 / 2 ^ 60)
        ≤ 1 / 2 ^ 51 := by norm_num
    linarith
  linarith

/-! ### magnitudes of floats in integer units -/

theorem val_half : val F64.half = 1 / 2 := by
  have h := F64Round.toInt_half
  have h' : (2 : ℝ) * (toInt F64.half : ℝ) = 2 ^ 1074 := by exact_mod_cast h
  unfold val
  have hp : (0 : ℝ) < 2 ^ 1074 := by positivity
  generalize (2 : ℝ) ^ 1074 = B at *
  field_simp
  linarith

/-- rounding keeps a value beyond `1/2` at or beyond `1/2` -/
theorem abs_round_ge_half {r : F64} {Q : ℚ} (h : F64Round.IsRound r Q) (hr : Fin r)
    (hq : 1 / 2 < |(Q : ℝ)|) : 1 / 2 ≤ |val r| := by
  rcases lt_abs.mp hq with h1 | h1
  · have := round_ge_of_le h hr F64Round.fin_half (by rw [val_half]; linarith)
    rw [val_half] at this
    exact le_trans this (le_abs_self _)
  · have hn : Fin (F64.neg F64.half) := (S2Proofs.F64Sym.isFinite_neg _).2 F64Round.fin_half
    have := round_le_of_le h hr hn (by rw [FloatErr.val_neg, val_half]; linarith)
    rw [FloatErr.val_neg, val_half] at this
    have h2 := neg_abs_le (val r)
    linarith

/-- a finite float of magnitude at least `1/2` is an integer multiple of `2^-53` (`2^1021` units) -/
theorem units_of_half_le {r : F64} (h : 1 / 2 ≤ |val r|) : ∃ n : ℤ, toInt r = n * 2 ^ 1021 := by
  have h' : (2 : ℤ) ^ 1073 ≤ |toInt r| := by
    have e : (2 : ℝ) ^ 1074 = 2 ^ 1073 * 2 := pow_succ 2 1073
    have hB : (0 : ℝ) < 2 ^ 1073 := by positivity
    unfold val at h
    rw [abs_div, abs_of_pos (by positivity : (0 : ℝ) < 2 ^ 1074), e] at h
    have h2 : ((2 : ℤ) ^ 1073 : ℝ) ≤ ((|toInt r| : ℤ) : ℝ) := by
      push_cast
      generalize (2 : ℝ) ^ 1073 = B at *
      rw [le_div_iff₀ (by positivity)] at h
      linarith
    exact_mod_cast h2
  have := C12M.toInt_dvd_of_le r 1073 (by norm_num) h'
  simpa using this

theorem val_of_units {r : F64} {n : ℤ} (h : toInt r = n * 2 ^ 1021) : val r = n / 2 ^ 53 := by
  unfold val
  rw [h]
  push_cast
  have e : (2 : ℝ) ^ 1074 = 2 ^ 1021 * 2 ^ 53 := by rw [← pow_add]
  rw [e]
  have hB : (0 : ℝ) < 2 ^ 1021 := by positivity
  generalize (2 : ℝ) ^ 1021 = B at *
  field_simp

/-- the sum of two multiples of `2^-53` whose exact value is tiny is computed exactly -/
theorem add_units_exact {x y : F64} (hx : Fin x) (hy : Fin y) {n m : ℤ}
    (ex : toInt x = n * 2 ^ 1021) (ey : toInt y = m * 2 ^ 1021) (hsm : |val x + val y| ≤ 1 / 2 ^ 43) :
    Fin (x + y) ∧ toInt (x + y) = (n + m) * 2 ^ 1021 := by
  have hN : (n + m).natAbs < 2 ^ 53 := by
    have e1 : val x + val y = ((n + m : ℤ) : ℝ) / 2 ^ 53 := by
      rw [val_of_units ex, val_of_units ey]; push_cast; ring
    rw [e1, abs_div, abs_of_pos (by positivity : (0 : ℝ) < 2 ^ 53)] at hsm
    have h2 : |((n + m : ℤ) : ℝ)| ≤ 2 ^ 10 := by
      rw [div_le_iff₀ (by positivity)] at hsm
      have : (1 : ℝ) / 2 ^ 43 * 2 ^ 53 = 2 ^ 10 := by norm_num
      linarith
    have h4 : |n + m| ≤ 2 ^ 10 := by exact_mod_cast h2
    have : ((n + m).natAbs : ℤ) = |n + m| := Int.natCast_natAbs _
    omega
  have hrep : F64Round.Rep ((n + m) * 2 ^ 1021 : ℤ).natAbs := by
    refine ⟨(n + m).natAbs, 1021, hN, ?_⟩
    rw [Int.natAbs_mul]; congr 1
  have hlt : ((n + m) * 2 ^ 1021 : ℤ).natAbs < 2 ^ 2098 := by
    rw [Int.natAbs_mul]
    have e : ((2 : ℤ) ^ 1021).natAbs = 2 ^ 1021 := by simp [Int.natAbs_pow]
    rw [e]
    calc (n + m).natAbs * 2 ^ 1021 < 2 ^ 53 * 2 ^ 1021 := Nat.mul_lt_mul_of_pos_right hN (Nat.two_pow_pos _)
      _ = 2 ^ 1074 := by rw [← Nat.pow_add]
      _ < 2 ^ 2098 := Nat.pow_lt_pow_right (by norm_num) (by norm_num)
  have hQ : (F64Round.val x + F64Round.val y) * F64Round.U = (((n + m) * 2 ^ 1021 : ℤ) : ℚ) := by
    rw [add_mul, F64Round.val_mul_U, F64Round.val_mul_U, ex, ey]; push_cast; ring
  exact (F64Round.isRound_add hx hy).exact_of_rep _ hrep hlt hQ

/-! ### the float cosine near 90° -/

theorem dot_tiny {a x : V3} (ha : Normed a) (hx : Normed x) (hc : |val (a.dot x)| ≤ 1 / 2 ^ 45) :
    |val (a.dot x) - dotR a x| ≤ 3 / 2 ^ 54 + 1 / 2 ^ 90 ∧
    ((∃ n : ℤ, val (a.dot x) = n / 2 ^ 53) ∨ |val (a.dot x) - dotR a x| ≤ 5 / 2 ^ 55 + 1 / 2 ^ 90) := by
  obtain ⟨ha1, ha2, ha3⟩ := ha.1
  obtain ⟨hx1, hx2, hx3⟩ := hx.1
  obtain ⟨ma1, ma2, ma3⟩ := ha.coord_le
  obtain ⟨mx1, mx2, mx3⟩ := hx.coord_le
  have m1 : |val a.x * val x.x| ≤ 4 := by have := abs_mul_le_of ma1 mx1; linarith
  have m2 : |val a.y * val x.y| ≤ 4 := by have := abs_mul_le_of ma2 mx2; linarith
  have m3 : |val a.z * val x.z| ≤ 4 := by have := abs_mul_le_of ma3 mx3; linarith
  obtain ⟨fq1, _, gq1⟩ := mul_step stdModel ha1 hx1 m1 (by norm_num)
  obtain ⟨fq2, _, gq2⟩ := mul_step stdModel ha2 hx2 m2 (by norm_num)
  obtain ⟨fq3, _, gq3⟩ := mul_step stdModel ha3 hx3 m3 (by norm_num)
  have ms : |val (a.x * x.x) + val (a.y * x.y)| ≤ 18 := by
    have := abs_add_le (val (a.x * x.x)) (val (a.y * x.y)); linarith
  obtain ⟨fs, _, _⟩ := add_step stdModel fq1 fq2 ms (by norm_num)
  -- the exact sum is tiny
  obtain ⟨hfc, hcr⟩ := dot_crude ha hx
  have hs : |dotR a x| ≤ 1 / 2 ^ 44 := by
    have h1 := abs_sub_abs_le_abs_sub (dotR a x) (val (a.dot x))
    rw [abs_sub_comm] at h1
    have : (1 : ℝ) / 2 ^ 45 + 1 / 2 ^ 51 ≤ 1 / 2 ^ 44 := by norm_num
    linarith
  -- the roundings
  have r1 := ulpRnd_of_isRound (F64Round.isRound_mul ha1 hx1)
  have r2 := ulpRnd_of_isRound (F64Round.isRound_mul ha2 hx2)
  have r3 := ulpRnd_of_isRound (F64Round.isRound_mul ha3 hx3)
  have r12 := ulpRnd_of_isRound (F64Round.isRound_add fq1 fq2)
  have rS := ulpRnd_of_isRound (F64Round.isRound_add fs fq3)
  push_cast at r1 r2 r3 r12 rS
  simp only [val_cast] at r1 r2 r3 r12 rS
  have hT := sumAbs_le ha hx
  obtain ⟨hD, hD', hQS⟩ := tiny_core _ _ _ _ _ _ _ _ r1 r2 r3 r12 rS hT (by unfold dotR at hs; exact hs)
  have eS : val (a.dot x) = val (F64.add (F64.add (F64.mul a.x x.x) (F64.mul a.y x.y)) (F64.mul a.z x.z)) := rfl
  have eD : dotR a x = val a.x * val x.x + val a.y * val x.y + val a.z * val x.z := rfl
  rw [eS, eD]
  refine ⟨hD, ?_⟩
  by_cases hc3 : |val a.z * val x.z| ≤ 1 / 2
  · right; exact hD' (Or.inl hc3)
  by_cases hc12 : |val (F64.mul a.x x.x) + val (F64.mul a.y x.y)| ≤ 1 / 2
  · right; exact hD' (Or.inr hc12)
  left
  have g3 : 1 / 2 ≤ |val (F64.mul a.z x.z)| := by
    apply abs_round_ge_half (F64Round.isRound_mul ha3 hx3) fq3
    push_cast; rw [val_cast, val_cast]; exact not_le.mp hc3
  have g12 : 1 / 2 ≤ |val (F64.add (F64.mul a.x x.x) (F64.mul a.y x.y))| := by
    apply abs_round_ge_half (F64Round.isRound_add fq1 fq2) fs
    push_cast; rw [val_cast, val_cast]; exact not_le.mp hc12
  obtain ⟨n3, e3⟩ := units_of_half_le g3
  obtain ⟨n12, e12⟩ := units_of_half_le g12
  obtain ⟨_, eT⟩ := add_units_exact fs fq3 e12 e3 hQS
  exact ⟨n12 + n3, val_of_units eT⟩

end S2Proofs.FE3
