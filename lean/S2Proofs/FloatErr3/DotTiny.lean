/-
  FloatErr3.DotTiny — the float dot product `fl(fl(fl(p₁)+fl(p₂))+fl(p₃))` near 90°, on the level of half-ulps.

  Pure-ℝ core (`tiny_core`): if every rounding obeys the half-ulp-in-binade bound (`UlpRnd`), the three exact
  products satisfy `Σ|p_i| ≤ 1 + 33/2^55` (Cauchy–Schwarz for two `Normed` vectors) and the exact sum is tiny
  (`≤ 2^-44`), then
      * the total error is `≤ 3·2^-54 + 2^-96`                    (= 1.5u + 2^-96, u = 2^-53),
      * if `|p₃| ≤ 1/2` or `|fl p₁ + fl p₂| ≤ 1/2` it is even `≤ 5·2^-55 + 2^-96`   (= 1.25u + …),
      * the last addition has an exact result of magnitude `≤ 2^-43`.
  The standard model (relative error u per operation) would give `1.5u·(1+8u)+…` — too much by a few u², which is
  exactly what the code's constant `1.5·dblError` cannot afford.
-/
import S2Proofs.FloatErr3.Defs

set_option linter.unusedSimpArgs false
set_option linter.unusedVariables false

namespace S2Proofs.FE3
open S2 S2.Exact S2.Pred S2Proofs.F64Order S2Proofs.PredLemmas S2Proofs.FloatErr

/-- half-ulp rounding in every binade below 1: `|q| ≤ 2^-m ⇒ |r − q| ≤ 2^-(m+54)` -/
def UlpRnd (q r : ℝ) : Prop := ∀ m : ℕ, m ≤ 1021 → |q| ≤ 1 / 2 ^ m → |r - q| ≤ 1 / 2 ^ (m + 54)

theorem tiny_core (p1 p2 p3 P1 P2 P3 S12 S : ℝ)
    (h1 : UlpRnd p1 P1) (h2 : UlpRnd p2 P2) (h3 : UlpRnd p3 P3)
    (h12 : UlpRnd (P1 + P2) S12) (hS : UlpRnd (S12 + P3) S)
    (hT : |p1| + |p2| + |p3| ≤ 1 + 33 / 2 ^ 55) (hs : |p1 + p2 + p3| ≤ 1 / 2 ^ 44) :
    |S - (p1 + p2 + p3)| ≤ 3 / 2 ^ 54 + 1 / 2 ^ 90 ∧
    ((|p3| ≤ 1 / 2 ∨ |P1 + P2| ≤ 1 / 2) → |S - (p1 + p2 + p3)| ≤ 5 / 2 ^ 55 + 1 / 2 ^ 90) ∧
    |S12 + P3| ≤ 1 / 2 ^ 43 := by
  obtain ⟨hs1, hs2⟩ := abs_le.mp hs
  have a1 := abs_nonneg p1
  have a2 := abs_nonneg p2
  have a3 := abs_nonneg p3
  have l1 := le_abs_self p1
  have l2 := le_abs_self p2
  have l3 := le_abs_self p3
  have n1 := neg_abs_le p1
  have n2 := neg_abs_le p2
  have n3 := neg_abs_le p3
  -- every product is at most 1/2 + 2^-44 in magnitude
  have b1 : |p1| ≤ 1 / 2 + 1 / 2 ^ 44 := by
    have : |p1| ≤ |p2| + |p3| + 1 / 2 ^ 44 := abs_le.mpr ⟨by linarith, by linarith⟩
    linarith
  have b2 : |p2| ≤ 1 / 2 + 1 / 2 ^ 44 := by
    have : |p2| ≤ |p1| + |p3| + 1 / 2 ^ 44 := abs_le.mpr ⟨by linarith, by linarith⟩
    linarith
  have b3 : |p3| ≤ 1 / 2 + 1 / 2 ^ 44 := by
    have : |p3| ≤ |p1| + |p2| + 1 / 2 ^ 44 := abs_le.mpr ⟨by linarith, by linarith⟩
    linarith
  -- the three levels of every product rounding
  have r10 : |P1 - p1| ≤ 1 / 2 ^ 54 := by
    have := h1 0 (by norm_num) (by linarith); simpa using this
  have r20 : |P2 - p2| ≤ 1 / 2 ^ 54 := by
    have := h2 0 (by norm_num) (by linarith); simpa using this
  have r30 : |P3 - p3| ≤ 1 / 2 ^ 54 := by
    have := h3 0 (by norm_num) (by linarith); simpa using this
  have r11 : |p1| ≤ 1 / 2 → |P1 - p1| ≤ 1 / 2 ^ 55 := fun h => by
    have := h1 1 (by norm_num) (by norm_num; linarith); simpa using this
  have r21 : |p2| ≤ 1 / 2 → |P2 - p2| ≤ 1 / 2 ^ 55 := fun h => by
    have := h2 1 (by norm_num) (by norm_num; linarith); simpa using this
  have r31 : |p3| ≤ 1 / 2 → |P3 - p3| ≤ 1 / 2 ^ 55 := fun h => by
    have := h3 1 (by norm_num) (by norm_num; linarith); simpa using this
  have r1t : |p1| ≤ 1 / 2 ^ 42 → |P1 - p1| ≤ 1 / 2 ^ 96 := fun h => by
    have := h1 42 (by norm_num) h; simpa using this
  have r2t : |p2| ≤ 1 / 2 ^ 42 → |P2 - p2| ≤ 1 / 2 ^ 96 := fun h => by
    have := h2 42 (by norm_num) h; simpa using this
  have r3t : |p3| ≤ 1 / 2 ^ 42 → |P3 - p3| ≤ 1 / 2 ^ 96 := fun h => by
    have := h3 42 (by norm_num) h; simpa using this
  have e1 := abs_nonneg (P1 - p1)
  have e2 := abs_nonneg (P2 - p2)
  have e3 := abs_nonneg (P3 - p3)
  have m1 := le_abs_self (P1 - p1)
  have m2 := le_abs_self (P2 - p2)
  have m3 := le_abs_self (P3 - p3)
  have m1' := neg_abs_le (P1 - p1)
  have m2' := neg_abs_le (P2 - p2)
  have m3' := neg_abs_le (P3 - p3)
  -- the sum of the three product errors is at most u (+ tiny)
  have sumE : |P1 - p1| + |P2 - p2| + |P3 - p3| ≤ 1 / 2 ^ 53 + 1 / 2 ^ 95 := by
    rcases le_or_gt |p1| (1 / 2) with c1 | c1 <;> rcases le_or_gt |p2| (1 / 2) with c2 | c2 <;>
      rcases le_or_gt |p3| (1 / 2) with c3 | c3
    · have := r11 c1; have := r21 c2; have := r31 c3; linarith
    · have := r11 c1; have := r21 c2; linarith
    · have := r11 c1; have := r31 c3; linarith
    · have t : |p1| ≤ 1 / 2 ^ 42 := by linarith
      have := r1t t; linarith
    · have := r21 c2; have := r31 c3; linarith
    · have t : |p2| ≤ 1 / 2 ^ 42 := by linarith
      have := r2t t; linarith
    · have t : |p3| ≤ 1 / 2 ^ 42 := by linarith
      have := r3t t; linarith
    · exfalso; linarith
  -- the partial sum
  have c12 : |P1 + P2| ≤ |p3| + 1 / 2 ^ 44 + |P1 - p1| + |P2 - p2| :=
    abs_le.mpr ⟨by linarith, by linarith⟩
  have bQ12 : |P1 + P2| ≤ 1 / 2 + 1 / 2 ^ 42 := by linarith
  have qs : |S12 - (P1 + P2)| ≤ 1 / 2 ^ 54 := by
    have := h12 0 (by norm_num) (by linarith)
    simpa using this
  have qs' : |P1 + P2| ≤ 1 / 2 → |S12 - (P1 + P2)| ≤ 1 / 2 ^ 55 := fun h => by
    have := h12 1 (by norm_num) (by norm_num; linarith)
    simpa using this
  have es := abs_nonneg (S12 - (P1 + P2))
  have ms := le_abs_self (S12 - (P1 + P2))
  have ms' := neg_abs_le (S12 - (P1 + P2))
  -- the last addition
  have bQS : |S12 + P3| ≤ 1 / 2 ^ 43 := by
    have e : S12 + P3 = (p1 + p2 + p3) + (S12 - (P1 + P2)) + (P1 - p1) + (P2 - p2) + (P3 - p3) := by ring
    rw [e]
    refine abs_le.mpr ⟨?_, ?_⟩ <;> linarith
  have qS : |S - (S12 + P3)| ≤ 1 / 2 ^ 97 := by
    have := hS 43 (by norm_num) bQS
    simpa using this
  have mS := le_abs_self (S - (S12 + P3))
  have mS' := neg_abs_le (S - (S12 + P3))
  have eD : S - (p1 + p2 + p3) = (S - (S12 + P3)) + (S12 - (P1 + P2)) + (P1 - p1) + (P2 - p2) + (P3 - p3) := by
    ring
  have tot : |S - (p1 + p2 + p3)| ≤
      |S - (S12 + P3)| + |S12 - (P1 + P2)| + (|P1 - p1| + |P2 - p2| + |P3 - p3|) := by
    rw [eD]; exact abs_le.mpr ⟨by linarith, by linarith⟩
  have case12 : |P1 + P2| ≤ 1 / 2 → |S - (p1 + p2 + p3)| ≤ 5 / 2 ^ 55 + 1 / 2 ^ 90 := fun h => by
    have := qs' h; linarith
  refine ⟨by linarith, ?_, bQS⟩
  rintro (h | h)
  · rcases le_or_gt |P1 + P2| (1 / 2) with c | c
    · exact case12 c
    · have k3 := r31 h
      rcases le_or_gt |p1| (1 / 2) with c1 | c1 <;> rcases le_or_gt |p2| (1 / 2) with c2 | c2
      · have := r11 c1; have := r21 c2; linarith
      · have t : |p1| ≤ 1 / 2 ^ 42 := by linarith
        have := r1t t; linarith
      · have t : |p2| ≤ 1 / 2 ^ 42 := by linarith
        have := r2t t; linarith
      · exfalso; linarith
  · exact case12 h

end S2Proofs.FE3
