import S2.Codec.Prim

namespace S2Proofs.Codec
open S2 S2.Codec

/-! ## finite table facts (kernel evaluation over the packed numerals) -/

/-- the 8-bit interleave of two nibbles -/
def ilT (a b : Nat) : Nat := ilLut a ||| (ilLut b <<< 1)

def nibCheck (a b : Nat) : Bool :=
  let t := ilT a b
  decide (ilLut a < 256) && decide (t < 256) &&
  (deLut (t &&& 0x55) == a) && (deLut (t &&& 0xaa) == b)

def byteSplitCheck (b : Nat) : Bool :=
  ilLut b == ilLut (b % 16) + 256 * ilLut (b / 16)

theorem nibCheck_all :
    ((List.range 16).all fun a => (List.range 16).all fun b => nibCheck a b) = true := by
  decide +kernel

theorem byteSplitCheck_all : ((List.range 256).all fun b => byteSplitCheck b) = true := by
  decide +kernel

theorem ilT_spec {a b : Nat} (ha : a < 16) (hb : b < 16) :
    ilLut a < 256 ∧ ilT a b < 256 ∧ deLut (ilT a b &&& 0x55) = a ∧ deLut (ilT a b &&& 0xaa) = b := by
  have h := nibCheck_all
  rw [List.all_eq_true] at h
  have h1 := h a (List.mem_range.mpr ha)
  rw [List.all_eq_true] at h1
  have h2 := h1 b (List.mem_range.mpr hb)
  simp only [nibCheck, Bool.and_eq_true, decide_eq_true_eq, beq_iff_eq] at h2
  exact ⟨h2.1.1.1, h2.1.1.2, h2.1.2, h2.2⟩

theorem ilLut_split {b : Nat} (hb : b < 256) :
    ilLut b = ilLut (b % 16) + 256 * ilLut (b / 16) := by
  have h := byteSplitCheck_all
  rw [List.all_eq_true] at h
  have h1 := h b (List.mem_range.mpr hb)
  simpa [byteSplitCheck] using h1

theorem ilLut_zero : ilLut 0 = 0 := by decide +kernel

/-! ## structure of `interleaveNat` / `deinterleaveHalf` -/

theorem or_shift_eq_add {p t : Nat} (n : Nat) (hp : p < 2 ^ n) : p ||| t <<< n = p + t * 2 ^ n := by
  rw [Nat.or_comm, ← Nat.shiftLeft_add_eq_or_of_lt hp, Nat.shiftLeft_eq, Nat.add_comm]

theorem or8_eq_sum {t0 t1 t2 t3 t4 t5 t6 t7 : Nat}
    (h0 : t0 < 256) (h1 : t1 < 256) (h2 : t2 < 256) (h3 : t3 < 256)
    (h4 : t4 < 256) (h5 : t5 < 256) (h6 : t6 < 256) :
    t0 ||| t1 <<< 8 ||| t2 <<< 16 ||| t3 <<< 24 ||| t4 <<< 32 ||| t5 <<< 40 ||| t6 <<< 48 ||| t7 <<< 56
      = t0 + t1 * 2^8 + t2 * 2^16 + t3 * 2^24 + t4 * 2^32 + t5 * 2^40 + t6 * 2^48 + t7 * 2^56 := by
  rw [or_shift_eq_add 8 (by omega), or_shift_eq_add 16 (by omega), or_shift_eq_add 24 (by omega),
    or_shift_eq_add 32 (by omega), or_shift_eq_add 40 (by omega), or_shift_eq_add 48 (by omega),
    or_shift_eq_add 56 (by omega)]

theorem shl_shl (a m n : Nat) : a <<< m <<< n = a <<< (m + n) := (Nat.shiftLeft_add a m n).symm

theorem or_ac16 (a0 a1 a2 a3 a4 a5 a6 a7 b0 b1 b2 b3 b4 b5 b6 b7 : Nat) :
    a0 ||| a1 ||| (a2 ||| a3) ||| (a4 ||| a5) ||| (a6 ||| a7) ||| (b0 ||| b1) ||| (b2 ||| b3) |||
      (b4 ||| b5) ||| (b6 ||| b7)
    = a0 ||| b0 ||| (a1 ||| b1) ||| (a2 ||| b2) ||| (a3 ||| b3) ||| (a4 ||| b4) ||| (a5 ||| b5) |||
      (a6 ||| b6) ||| (a7 ||| b7) := by
  ac_rfl

theorem regroup (p0 p1 p2 p3 p4 p5 p6 p7 q0 q1 q2 q3 q4 q5 q6 q7 : Nat) :
    (p0 ||| p1 <<< 8) ||| ((p2 ||| p3 <<< 8) <<< 16) ||| ((p4 ||| p5 <<< 8) <<< 32) |||
      ((p6 ||| p7 <<< 8) <<< 48) ||| ((q0 ||| q1 <<< 8) <<< 1) ||| ((q2 ||| q3 <<< 8) <<< 17) |||
      ((q4 ||| q5 <<< 8) <<< 33) ||| ((q6 ||| q7 <<< 8) <<< 49)
    = (p0 ||| q0 <<< 1) ||| (p1 ||| q1 <<< 1) <<< 8 ||| (p2 ||| q2 <<< 1) <<< 16 |||
      (p3 ||| q3 <<< 1) <<< 24 ||| (p4 ||| q4 <<< 1) <<< 32 ||| (p5 ||| q5 <<< 1) <<< 40 |||
      (p6 ||| q6 <<< 1) <<< 48 ||| (p7 ||| q7 <<< 1) <<< 56 := by
  repeat rw [Nat.shiftLeft_or_distrib]
  repeat rw [shl_shl]
  rw [show (8:Nat)+16 = 24 from rfl, show (8:Nat)+32 = 40 from rfl, show (8:Nat)+48 = 56 from rfl,
    show (8:Nat)+1 = 9 from rfl, show (8:Nat)+17 = 25 from rfl, show (8:Nat)+33 = 41 from rfl,
    show (8:Nat)+49 = 57 from rfl, show (1:Nat)+16 = 17 from rfl,
    show (1:Nat)+32 = 33 from rfl,
    show (1:Nat)+48 = 49 from rfl]
  apply or_ac16

theorem ilLut_split_or {b : Nat} (hb : b < 256) :
    ilLut b = ilLut (b % 16) ||| ilLut (b / 16) <<< 8 := by
  have h := (ilT_spec (a := b % 16) (b := 0) (by omega) (by omega)).1
  rw [or_shift_eq_add 8 (by omega), ilLut_split hb]; omega

theorem and_ff (x : Nat) : x &&& 0xff = x % 256 := Nat.and_two_pow_sub_one_eq_mod x 8

theorem deLut_lt (v : Nat) : deLut v < 16 := by
  unfold deLut
  exact Nat.lt_succ_of_le Nat.and_le_right

theorem and_mask_mod (v m : Nat) (hm : 255 &&& m = m) : v &&& m = (v % 256) &&& m := by
  rw [← and_ff, Nat.and_assoc]
  show v &&& m = v &&& (255 &&& m)
  rw [hm]

theorem interleaveNat_eq (x y : Nat) (hx : x < 2 ^ 32) (hy : y < 2 ^ 32) :
    interleaveNat x y =
      ilT (x % 16) (y % 16) + ilT (x / 16 % 16) (y / 16 % 16) * 2 ^ 8
      + ilT (x / 256 % 16) (y / 256 % 16) * 2 ^ 16 + ilT (x / 4096 % 16) (y / 4096 % 16) * 2 ^ 24
      + ilT (x / 65536 % 16) (y / 65536 % 16) * 2 ^ 32
      + ilT (x / 1048576 % 16) (y / 1048576 % 16) * 2 ^ 40
      + ilT (x / 16777216 % 16) (y / 16777216 % 16) * 2 ^ 48
      + ilT (x / 268435456 % 16) (y / 268435456 % 16) * 2 ^ 56 := by
  have b3 : ∀ z, z < 2 ^ 32 → z >>> 24 < 256 := by
    intro z hz; rw [Nat.shiftRight_eq_div_pow]; omega
  have m256 : ∀ z : Nat, z % 256 < 256 := fun z => Nat.mod_lt _ (by omega)
  unfold interleaveNat
  simp only [and_ff]
  rw [ilLut_split_or (m256 x), ilLut_split_or (m256 (x >>> 8)), ilLut_split_or (m256 (x >>> 16)),
    ilLut_split_or (b3 x hx), ilLut_split_or (m256 y), ilLut_split_or (m256 (y >>> 8)),
    ilLut_split_or (m256 (y >>> 16)), ilLut_split_or (b3 y hy)]
  rw [regroup]
  have e : ∀ z, z < 2 ^ 32 →
      z % 256 % 16 = z % 16 ∧ z % 256 / 16 = z / 16 % 16 ∧
      (z >>> 8) % 256 % 16 = z / 256 % 16 ∧ (z >>> 8) % 256 / 16 = z / 4096 % 16 ∧
      (z >>> 16) % 256 % 16 = z / 65536 % 16 ∧ (z >>> 16) % 256 / 16 = z / 1048576 % 16 ∧
      (z >>> 24) % 16 = z / 16777216 % 16 ∧ (z >>> 24) / 16 = z / 268435456 % 16 := by
    intro z hz
    simp only [Nat.shiftRight_eq_div_pow]
    refine ⟨?_, ?_, ?_, ?_, ?_, ?_, ?_, ?_⟩ <;> first | omega | trivial
  obtain ⟨x0, x1, x2, x3, x4, x5, x6, x7⟩ := e x hx
  obtain ⟨y0, y1, y2, y3, y4, y5, y6, y7⟩ := e y hy
  rw [x0, x1, x2, x3, x4, x5, x6, x7, y0, y1, y2, y3, y4, y5, y6, y7]
  have l : ∀ z : Nat, z % 16 < 16 := fun z => Nat.mod_lt _ (by omega)
  exact or8_eq_sum (ilT_spec (l _) (l _)).2.1 (ilT_spec (l _) (l _)).2.1 (ilT_spec (l _) (l _)).2.1
    (ilT_spec (l _) (l _)).2.1 (ilT_spec (l _) (l _)).2.1 (ilT_spec (l _) (l _)).2.1
    (ilT_spec (l _) (l _)).2.1

theorem deinterleaveHalf_sum {t0 t1 t2 t3 t4 t5 t6 t7 : Nat}
    (h0 : t0 < 256) (h1 : t1 < 256) (h2 : t2 < 256) (h3 : t3 < 256)
    (h4 : t4 < 256) (h5 : t5 < 256) (h6 : t6 < 256) (h7 : t7 < 256)
    (m : Nat) (hm : 255 &&& m = m) :
    deinterleaveHalf (t0 + t1 * 2^8 + t2 * 2^16 + t3 * 2^24 + t4 * 2^32 + t5 * 2^40 + t6 * 2^48
        + t7 * 2^56) m
      = deLut (t0 &&& m) + deLut (t1 &&& m) * 2^4 + deLut (t2 &&& m) * 2^8 + deLut (t3 &&& m) * 2^12
        + deLut (t4 &&& m) * 2^16 + deLut (t5 &&& m) * 2^20 + deLut (t6 &&& m) * 2^24
        + deLut (t7 &&& m) * 2^28 := by
  unfold deinterleaveHalf
  generalize hc : t0 + t1 * 2^8 + t2 * 2^16 + t3 * 2^24 + t4 * 2^32 + t5 * 2^40 + t6 * 2^48
        + t7 * 2^56 = c
  have e0 : c &&& m = t0 &&& m := by
    rw [and_mask_mod c m hm]; congr 1; omega
  have e1 : (c >>> 8) &&& m = t1 &&& m := by
    rw [and_mask_mod _ m hm, Nat.shiftRight_eq_div_pow]; congr 1; omega
  have e2 : (c >>> 16) &&& m = t2 &&& m := by
    rw [and_mask_mod _ m hm, Nat.shiftRight_eq_div_pow]; congr 1; omega
  have e3 : (c >>> 24) &&& m = t3 &&& m := by
    rw [and_mask_mod _ m hm, Nat.shiftRight_eq_div_pow]; congr 1; omega
  have e4 : (c >>> 32) &&& m = t4 &&& m := by
    rw [and_mask_mod _ m hm, Nat.shiftRight_eq_div_pow]; congr 1; omega
  have e5 : (c >>> 40) &&& m = t5 &&& m := by
    rw [and_mask_mod _ m hm, Nat.shiftRight_eq_div_pow]; congr 1; omega
  have e6 : (c >>> 48) &&& m = t6 &&& m := by
    rw [and_mask_mod _ m hm, Nat.shiftRight_eq_div_pow]; congr 1; omega
  have e7 : (c >>> 56) &&& m = t7 &&& m := by
    rw [and_mask_mod _ m hm, Nat.shiftRight_eq_div_pow]; congr 1; omega
  rw [e0, e1, e2, e3, e4, e5, e6, e7]
  have d0 := deLut_lt (t0 &&& m)
  have d1 := deLut_lt (t1 &&& m)
  have d2 := deLut_lt (t2 &&& m)
  have d3 := deLut_lt (t3 &&& m)
  have d4 := deLut_lt (t4 &&& m)
  have d5 := deLut_lt (t5 &&& m)
  have d6 := deLut_lt (t6 &&& m)
  rw [or_shift_eq_add 4 (by omega), or_shift_eq_add 8 (by omega), or_shift_eq_add 12 (by omega),
    or_shift_eq_add 16 (by omega), or_shift_eq_add 20 (by omega), or_shift_eq_add 24 (by omega),
    or_shift_eq_add 28 (by omega)]

theorem deinterleaveNat_interleaveNat (x y : Nat) (hx : x < 2 ^ 32) (hy : y < 2 ^ 32) :
    interleaveNat x y < 2 ^ 64 ∧ deinterleaveNat (interleaveNat x y) = (x, y) := by
  rw [interleaveNat_eq x y hx hy]
  have l : ∀ z : Nat, z % 16 < 16 := fun z => Nat.mod_lt _ (by omega)
  have s0 := ilT_spec (l x) (l y)
  have s1 := ilT_spec (l (x / 16)) (l (y / 16))
  have s2 := ilT_spec (l (x / 256)) (l (y / 256))
  have s3 := ilT_spec (l (x / 4096)) (l (y / 4096))
  have s4 := ilT_spec (l (x / 65536)) (l (y / 65536))
  have s5 := ilT_spec (l (x / 1048576)) (l (y / 1048576))
  have s6 := ilT_spec (l (x / 16777216)) (l (y / 16777216))
  have s7 := ilT_spec (l (x / 268435456)) (l (y / 268435456))
  refine ⟨by omega, ?_⟩
  unfold deinterleaveNat
  rw [deinterleaveHalf_sum s0.2.1 s1.2.1 s2.2.1 s3.2.1 s4.2.1 s5.2.1 s6.2.1 s7.2.1 0x55 (by decide),
    deinterleaveHalf_sum s0.2.1 s1.2.1 s2.2.1 s3.2.1 s4.2.1 s5.2.1 s6.2.1 s7.2.1 0xaa (by decide)]
  rw [s0.2.2.1, s1.2.2.1, s2.2.2.1, s3.2.2.1, s4.2.2.1, s5.2.2.1, s6.2.2.1, s7.2.2.1,
    s0.2.2.2, s1.2.2.2, s2.2.2.2, s3.2.2.2, s4.2.2.2, s5.2.2.2, s6.2.2.2, s7.2.2.2]
  congr 1 <;> omega

theorem deinterleave_interleave (x y : UInt32) :
    deinterleaveUint32 (interleaveUint32 x y) = (x, y) := by
  have hx : x.toNat < 2 ^ 32 := x.toNat_lt
  have hy : y.toNat < 2 ^ 32 := y.toNat_lt
  obtain ⟨hlt, h⟩ := deinterleaveNat_interleaveNat x.toNat y.toNat hx hy
  unfold deinterleaveUint32 interleaveUint32
  simp only
  rw [UInt64.toNat_ofNat_of_lt' hlt, h]
  simp

theorem ilT_zero : ilT 0 0 = 0 := by decide +kernel

theorem interleaveNat_lt (x y : Nat) (j : Nat) (hj : j ≤ 4)
    (hx : x < 2 ^ (8 * j)) (hy : y < 2 ^ (8 * j)) : interleaveNat x y < 256 ^ (2 * j) := by
  have hx32 : x < 2 ^ 32 := Nat.lt_of_lt_of_le hx (Nat.pow_le_pow_right (by omega) (by omega))
  have hy32 : y < 2 ^ 32 := Nat.lt_of_lt_of_le hy (Nat.pow_le_pow_right (by omega) (by omega))
  rw [interleaveNat_eq x y hx32 hy32]
  have l : ∀ z : Nat, z % 16 < 16 := fun z => Nat.mod_lt _ (by omega)
  have s0 := (ilT_spec (l x) (l y)).2.1
  have s1 := (ilT_spec (l (x / 16)) (l (y / 16))).2.1
  have s2 := (ilT_spec (l (x / 256)) (l (y / 256))).2.1
  have s3 := (ilT_spec (l (x / 4096)) (l (y / 4096))).2.1
  have s4 := (ilT_spec (l (x / 65536)) (l (y / 65536))).2.1
  have s5 := (ilT_spec (l (x / 1048576)) (l (y / 1048576))).2.1
  have s6 := (ilT_spec (l (x / 16777216)) (l (y / 16777216))).2.1
  have s7 := (ilT_spec (l (x / 268435456)) (l (y / 268435456))).2.1
  have z : ∀ a b : Nat, a = 0 → b = 0 → ilT a b = 0 := by
    intro a b ha hb; subst ha; subst hb; exact ilT_zero
  obtain rfl | rfl | rfl | rfl | rfl : j = 0 ∨ j = 1 ∨ j = 2 ∨ j = 3 ∨ j = 4 := by omega
  · simp only [Nat.mul_zero, Nat.pow_zero] at hx hy ⊢
    have hx0 : x = 0 := by omega
    have hy0 : y = 0 := by omega
    subst hx0; subst hy0
    simp [ilT_zero]
  · simp only [Nat.reduceMul, Nat.reducePow] at hx hy ⊢
    rw [z (x / 256 % 16) (y / 256 % 16) (by omega) (by omega),
      z (x / 4096 % 16) (y / 4096 % 16) (by omega) (by omega),
      z (x / 65536 % 16) (y / 65536 % 16) (by omega) (by omega),
      z (x / 1048576 % 16) (y / 1048576 % 16) (by omega) (by omega),
      z (x / 16777216 % 16) (y / 16777216 % 16) (by omega) (by omega),
      z (x / 268435456 % 16) (y / 268435456 % 16) (by omega) (by omega)]
    omega
  · simp only [Nat.reduceMul, Nat.reducePow] at hx hy ⊢
    rw [z (x / 65536 % 16) (y / 65536 % 16) (by omega) (by omega),
      z (x / 1048576 % 16) (y / 1048576 % 16) (by omega) (by omega),
      z (x / 16777216 % 16) (y / 16777216 % 16) (by omega) (by omega),
      z (x / 268435456 % 16) (y / 268435456 % 16) (by omega) (by omega)]
    omega
  · simp only [Nat.reduceMul, Nat.reducePow] at hx hy ⊢
    rw [z (x / 16777216 % 16) (y / 16777216 % 16) (by omega) (by omega),
      z (x / 268435456 % 16) (y / 268435456 % 16) (by omega) (by omega)]
    omega
  · simp only [Nat.reduceMul, Nat.reducePow] at hx hy ⊢
    omega

theorem deinterleave_interleave_trunc (x y : UInt32) (j : Nat) (hj : j ≤ 4)
    (hx : x.toNat < 2 ^ (8 * j)) (hy : y.toNat < 2 ^ (8 * j)) :
    deinterleaveUint32 (UInt64.ofNat ((interleaveUint32 x y).toNat % 256 ^ (2 * j))) = (x, y) := by
  have hlt := interleaveNat_lt x.toNat y.toNat j hj hx hy
  have h64 : interleaveNat x.toNat y.toNat < 2 ^ 64 :=
    (deinterleaveNat_interleaveNat x.toNat y.toNat x.toNat_lt y.toNat_lt).1
  have e : (interleaveUint32 x y).toNat = interleaveNat x.toNat y.toNat := by
    unfold interleaveUint32
    exact UInt64.toNat_ofNat_of_lt' h64
  rw [e, Nat.mod_eq_of_lt hlt]
  exact deinterleave_interleave x y

/-! ## zig-zag -/

theorem xor_ones (a : UInt32) : a ^^^ 0xFFFFFFFF = ~~~a := by
  have : (0xFFFFFFFF : UInt32) = -1 := by decide
  rw [this, UInt32.xor_neg_one]

theorem zigzagDecode_encode (x : UInt32) : zigzagDecode (zigzagEncode x) = x := by
  have hx : x.toNat < 2 ^ 32 := x.toNat_lt
  unfold zigzagDecode zigzagEncode
  have h31 : (x >>> 31).toNat = x.toNat / 2 ^ 31 := by
    rw [UInt32.toNat_shiftRight, Nat.shiftRight_eq_div_pow]; rfl
  by_cases h : x.toNat < 2 ^ 31
  · have c : (x >>> 31 == 1) = false := by
      rw [beq_eq_false_iff_ne]
      intro e
      have := congrArg UInt32.toNat e
      rw [h31] at this
      have : x.toNat / 2 ^ 31 = 1 := this
      omega
    rw [c]
    simp only [Bool.false_eq_true, if_false, UInt32.xor_zero]
    have s : (x <<< 1).toNat = 2 * x.toNat := by
      rw [UInt32.toNat_shiftLeft, Nat.shiftLeft_eq]
      show x.toNat * 2 ^ 1 % 2 ^ 32 = _
      omega
    have c2 : ((x <<< 1) &&& 1 == 1) = false := by
      rw [beq_eq_false_iff_ne]
      intro e
      have := congrArg UInt32.toNat e
      rw [UInt32.toNat_and, s] at this
      have : (2 * x.toNat) &&& 1 = 1 := this
      rw [Nat.and_one_is_mod] at this
      omega
    rw [c2]
    simp only [Bool.false_eq_true, if_false, UInt32.xor_zero]
    apply UInt32.toNat_inj.mp
    rw [UInt32.toNat_shiftRight, s, Nat.shiftRight_eq_div_pow]
    show 2 * x.toNat / 2 ^ 1 = _
    omega
  · have c : (x >>> 31 == 1) = true := by
      rw [beq_iff_eq]
      apply UInt32.toNat_inj.mp
      rw [h31]
      show x.toNat / 2 ^ 31 = 1
      omega
    rw [c]
    simp only [if_true, xor_ones]
    have s : (x <<< 1).toNat = 2 * x.toNat - 2 ^ 32 := by
      rw [UInt32.toNat_shiftLeft, Nat.shiftLeft_eq]
      show x.toNat * 2 ^ 1 % 2 ^ 32 = _
      omega
    have n : (~~~(x <<< 1)).toNat = 2 ^ 33 - 1 - 2 * x.toNat := by
      rw [UInt32.toNat_not, s, show UInt32.size = 4294967296 from rfl]
      omega
    have c2 : (~~~(x <<< 1) &&& 1 == 1) = true := by
      rw [beq_iff_eq]
      apply UInt32.toNat_inj.mp
      rw [UInt32.toNat_and, n]
      rw [show UInt32.toNat 1 = 1 from rfl]
      rw [Nat.and_one_is_mod]
      omega
    rw [c2]
    simp only [if_true, xor_ones]
    apply UInt32.toNat_inj.mp
    rw [UInt32.toNat_not, UInt32.toNat_shiftRight, n, Nat.shiftRight_eq_div_pow,
      show UInt32.size = 4294967296 from rfl, show UInt32.toNat 1 % 32 = 1 from rfl]
    omega

end S2Proofs.Codec

#print axioms S2Proofs.Codec.deinterleave_interleave
#print axioms S2Proofs.Codec.deinterleave_interleave_trunc
#print axioms S2Proofs.Codec.zigzagDecode_encode
