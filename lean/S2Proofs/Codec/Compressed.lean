/-
  S2Proofs.Codec.Compressed — snap detection ⇒ decoder recomputation, compressed loops and
  compressed polygons.
-/
import S2.Codec.Types
import S2Proofs.Codec.Points
import S2Proofs.Codec.Lossless
import S2Proofs.Codec.F64Exact
namespace S2Proofs.Codec
open S2 S2.Codec S2.STUV

/-! ### snap detection -/

theorem face_lt_six (r : V3) : STUV.face r < 6 := by
  unfold STUV.face V3.largestComponent
  simp only []
  repeat' split
  all_goals omega

theorem xyzToFaceSiTi_xyz (p : V3) : (xyzToFaceSiTi p).xyz = p := by
  unfold xyzToFaceSiTi; simp only []; repeat' split
  all_goals rfl

theorem xyzToFaceSiTi_face_lt (p : V3) : (xyzToFaceSiTi p).face < 6 := by
  have h : (xyzToFaceSiTi p).face = STUV.face p := by
    unfold xyzToFaceSiTi; simp only []; repeat' split
    all_goals rfl
  rw [h]; exact face_lt_six p

/-- si, ti in the valid range `[0, maxSiTi]` (true for every finite non-zero vector: |u|,|v| ≤ 1;
    not derived from the float model, checked by the oracle on every generated vertex) -/
def SiTiInRange (p : V3) : Prop :=
  (xyzToFaceSiTi p).si ≤ 2147483648 ∧ (xyzToFaceSiTi p).ti ≤ 2147483648

instance (p : V3) : Decidable (SiTiInRange p) := by unfold SiTiInRange; exact inferInstance

/-- **what "snapped at level L" means in the code** (bit-pattern comparison in `xyzToFaceSiTi`):
    if `xyzToFaceSiTi p` reports level `L ≥ 0`, then `p` is BIT-IDENTICAL to the very float
    expression the decoder evaluates (`facePiQitoXYZ`).  Uses `siTiToST(si) = piQiToST(pi, L)`. -/
theorem snapped_eq_centre (p : V3) (L : Nat) (hL : L ≤ 30)
    (hlev : (xyzToFaceSiTi p).level = (L : Int)) (hr : SiTiInRange p) :
    centreOf L (xyzToFaceSiTi p) = p := by
  obtain ⟨hsi, hti⟩ := hr
  unfold centreOf facePiQiToXYZ
  revert hlev hsi hti
  unfold xyzToFaceSiTi
  simp only []
  split
  · intro hlev; simp at hlev <;> omega
  · rename_i hc
    split
    · rename_i heq
      intro hlev hsi hti
      simp only [] at hlev hsi hti ⊢
      simp only [Bool.or_eq_true, decide_eq_true_eq, bne_iff_ne, ne_eq, not_or, Decidable.not_not] at hc
      have hlt : siTiLevel (stToSiTi (uvToST (xyzToFaceUV p).2.2)) = (L : Int) := by rw [← hc.2]; exact hlev
      rw [← siTiToST_eq_piQiToST _ L hL hsi hlev, ← siTiToST_eq_piQiToST _ L hL hti hlt]
      exact heq.symm
    · intro hlev; simp at hlev <;> omega

/-- the per-vertex condition used by the point-list theorem; now a consequence of the code -/
def SnapExact (L : Nat) (p : V3) : Prop :=
  (xyzToFaceSiTi p).level = (L : Int) → centreOf L (xyzToFaceSiTi p) = p

theorem snapExact (p : V3) (L : Nat) (hL : L ≤ 30) (hr : SiTiInRange p) : SnapExact L p :=
  fun hlev => snapped_eq_centre p L hL hlev hr

/-! ### compressed loop -/

def loopCOf (l : LoopM) : LoopC :=
  ⟨l.vertices, l.originInside, l.depth, if 64 ≤ l.vertices.length then some l.bound else none⟩

def LoopOK (_L : Nat) (l : LoopM) : Prop :=
  0 < l.vertices.length ∧ l.vertices.length ≤ maxEncodedVertices ∧ l.depth < 2 ^ 64 ∧
  ∀ p ∈ l.vertices, SiTiInRange p

theorem props_bits (oi : Bool) (n : Nat) :
    (((if oi then 1 else 0) ||| (if n ≥ 64 then 2 else 0) : Nat) &&& 1 != 0) = oi ∧
    (((if oi then 1 else 0) ||| (if n ≥ 64 then 2 else 0) : Nat) &&& 2 != 0) = decide (64 ≤ n) := by
  cases oi <;> by_cases h : n ≥ 64 <;> simp [h] <;> omega

theorem props_lt (oi : Bool) (n : Nat) : ((if oi then 1 else 0) ||| (if n ≥ 64 then 2 else 0) : Nat) < 2 ^ 64 := by
  cases oi <;> by_cases h : n ≥ 64 <;> simp [h]

theorem decodeLoopCompressed_encode (B : BitLaws) (L : Nat) (hL : L ≤ 30) (l : LoopM) (hok : LoopOK L l)
    (bytes : Bytes) (henc : encodeLoopCompressed l L (xyzFaceSiTiVertices l.vertices) = some bytes)
    (rest : Bytes) :
    decodeLoopCompressed L (bytes ++ rest) = some (loopCOf l, rest) := by
  obtain ⟨hpos, hmax, hdepth, hsnap⟩ := hok
  have hlen : (xyzFaceSiTiVertices l.vertices).length = l.vertices.length := by simp [xyzFaceSiTiVertices]
  have hmax' : ¬ (l.vertices.length > maxEncodedVertices) := by omega
  have hN : l.vertices.length ≤ 50000000 := hmax
  unfold encodeLoopCompressed at henc
  rw [hlen] at henc
  simp only [hmax', if_false, Option.some.injEq] at henc
  subst henc
  have hpts := decodePointsCompressed_encode B L hL (xyzFaceSiTiVertices l.vertices)
    (by intro v hv; simp only [xyzFaceSiTiVertices, List.mem_map] at hv
        obtain ⟨p, _, rfl⟩ := hv; exact xyzToFaceSiTi_face_lt p)
    (by rw [hlen]; exact hmax)
    (by intro v hv; simp only [xyzFaceSiTiVertices, List.mem_map] at hv
        obtain ⟨p, hp, rfl⟩ := hv
        intro hlev; rw [xyzToFaceSiTi_xyz]; exact snapExact p L hL (hsnap p hp) hlev)
  have hxyz : (xyzFaceSiTiVertices l.vertices).map (·.xyz) = l.vertices := by
    simp [xyzFaceSiTiVertices, List.map_map, Function.comp_def, xyzToFaceSiTi_xyz]
  rw [hlen, hxyz] at hpts
  have hb := props_bits l.originInside l.vertices.length
  have hplt := props_lt l.originInside l.vertices.length
  have hn0 : ¬ (l.vertices.length = 0) := by omega
  simp only [decodeLoopCompressed, compressedProps, List.append_assoc, bind_apply,
    readUvarint_put _ (show l.vertices.length < 2 ^ 64 by omega), hmax', if_false, hpts,
    readUvarint_put _ hplt, readUvarint_put _ hdepth, hb.1, hb.2]
  by_cases h64 : 64 ≤ l.vertices.length
  · simp [h64, loopCOf, decodeRect_encode]
  · simp [h64, loopCOf, hn0]

/-! ### compressed polygon -/

theorem encodeLoopsCompressed_decode (B : BitLaws) (L : Nat) (hL : L ≤ 30) :
    ∀ (ls : List LoopM) (bytes rest : Bytes), (∀ l ∈ ls, LoopOK L l) →
    encodeLoopsCompressed L ls (ls.map fun l => xyzFaceSiTiVertices l.vertices).flatten = some bytes →
    readN (decodeLoopCompressed L) ls.length (bytes ++ rest) = some (ls.map loopCOf, rest) := by
  intro ls
  induction ls with
  | nil => intro bytes rest _ h; simp [encodeLoopsCompressed] at h; subst h; simp [readN]
  | cons l ls ih =>
    intro bytes rest hok henc
    have hlen : (xyzFaceSiTiVertices l.vertices).length = l.vertices.length := by simp [xyzFaceSiTiVertices]
    simp only [encodeLoopsCompressed, List.map_cons, List.flatten_cons] at henc
    rw [← hlen, List.take_left, List.drop_left] at henc
    split at henc
    · rename_i a b ha hb'
      simp only [Option.some.injEq] at henc
      subst henc
      have h1 := decodeLoopCompressed_encode B L hL l (hok l (by simp)) a ha
      have h2 := ih b rest (fun l' hl' => hok l' (by simp [hl'])) hb'
      simp [readN, List.append_assoc, h1, h2]
    · simp at henc

theorem readUint8_cons (b : UInt8) (r : Bytes) : readUint8 (b :: r) = some (b, r) := rfl

theorem decodePolygon_v4 (bs : Bytes) :
    decodePolygon (UInt8.ofNat 4 :: bs) = decodePolygonCompressed bs := by
  simp [decodePolygon, readUint8_cons, encodingVersion, encodingCompressedVersion]

theorem pickSnapLevel_le (vs : List XFST) : ∀ (k : Nat) (best : Nat × Nat), k ≤ 31 → best.1 ≤ 30 →
    (pickSnapLevel vs k best).1 ≤ 30 := by
  intro k
  induction k with
  | zero => intro best _ h; simpa [pickSnapLevel] using h
  | succ k ih =>
    intro best hk hb
    simp only [pickSnapLevel]
    apply ih _ (by omega)
    split
    · simp
    · exact hb

theorem snapLevelOf_le (vs : List XFST) : (snapLevelOf vs).1 ≤ 30 :=
  pickSnapLevel_le vs 31 (0, 0) (by omega) (by simp)

/-- compressed polygon: decode ∘ encode, any snap level ≤ 30 -/
theorem decodePolygon_encodeCompressed (B : BitLaws) (p : PolygonM) (L : Nat) (hL : L ≤ 30)
    (hok : ∀ l ∈ p.loops, LoopOK L l) (bytes : Bytes)
    (henc : encodePolygonCompressed p L (polygonXFST p) = some bytes) (rest : Bytes) :
    decodePolygon (bytes ++ rest) =
      some (⟨p.loops.map loopCOf, (p.loops.map loopCOf).any (fun l => l.depth % 2 == 1), none⟩, rest) := by
  unfold encodePolygonCompressed at henc
  by_cases hn : p.loops.length > maxEncodedLoops
  · simp [hn] at henc
  · simp only [hn, if_false, Option.map_eq_some_iff] at henc
    obtain ⟨b, hb, rfl⟩ := henc
    have hN : p.loops.length ≤ 10000000 := by simpa [maxEncodedLoops] using hn
    have hloops := encodeLoopsCompressed_decode B L hL p.loops b rest hok hb
    have h63 : p.loops.length < 2 ^ 63 := by omega
    have hLb : (UInt8.ofNat L).toNat = L := by simp [UInt8.toNat_ofNat']; omega
    have hc1 : ¬ (((p.loops.length : Nat) : Int) > ((maxEncodedLoops : Nat) : Int)) := by
      simp only [maxEncodedLoops]; omega
    have hc2 : ¬ (((p.loops.length : Nat) : Int) < 0) := by omega
    have hL30 : ¬ (L > 30) := by omega
    simp only [writeUint8, List.cons_append, List.nil_append, List.append_assoc, encodingCompressedVersion]
    rw [decodePolygon_v4]
    simp only [decodePolygonCompressed, bind_apply, readUint8_cons, hLb, hL30, if_false,
      readUvarint_put _ (show p.loops.length < 2 ^ 64 by omega),
      toInt64_of_lt _ h63, hc1, hc2, Int.toNat_natCast, hloops, pure_apply]

end S2Proofs.Codec
