import S2.Codec.Points

/-!
  Exactness of the two float expressions for a cell-centre coordinate.
-/

namespace S2Proofs.Codec
open S2 S2.Codec S2.STUV

/-! ### `CellID.trailingZeros` -/

theorem tz_go_ge (fuel acc : Nat) (x : UInt64) : acc ≤ CellID.trailingZeros.go fuel acc x := by
  induction fuel generalizing acc x with
  | zero => simp [CellID.trailingZeros.go]
  | succ f ih =>
    unfold CellID.trailingZeros.go
    split
    · exact Nat.le_refl _
    · exact Nat.le_trans (Nat.le_succ _) (ih (acc + 1) (x >>> 1))

theorem and_one_ne_zero_iff (x : UInt64) : (x &&& 1 != 0) = true ↔ x.toNat % 2 = 1 := by
  rw [bne_iff_ne, Ne, ← UInt64.toNat_inj, UInt64.toNat_and]
  simp [Nat.and_one_is_mod]

theorem tz_go_spec (fuel acc : Nat) (x : UInt64) (t : Nat) (ht : t < fuel)
    (h : CellID.trailingZeros.go fuel acc x = acc + t) : x.toNat % 2 ^ (t + 1) = 2 ^ t := by
  induction fuel generalizing acc x t with
  | zero => omega
  | succ f ih =>
    unfold CellID.trailingZeros.go at h
    split at h
    · rename_i hb
      have : t = 0 := by omega
      subst this
      simpa using (and_one_ne_zero_iff x).1 hb
    · rename_i hb
      have hb' : x.toNat % 2 = 0 := by
        have : ¬ x.toNat % 2 = 1 := fun h' => hb ((and_one_ne_zero_iff x).2 h')
        omega
      have hge := tz_go_ge f (acc + 1) (x >>> 1)
      obtain ⟨t', rfl⟩ : ∃ t', t = t' + 1 := ⟨t - 1, by omega⟩
      have := ih (acc + 1) (x >>> 1) t' (by omega) (by omega)
      rw [UInt64.toNat_shiftRight] at this
      have h1 : (1 : UInt64).toNat % 64 = 1 := by decide
      rw [h1, Nat.shiftRight_eq_div_pow, Nat.pow_one] at this
      rw [Nat.pow_succ 2 (t' + 1), Nat.mul_comm, Nat.mod_mul, this, hb', Nat.pow_succ]
      omega

theorem trailingZeros_spec (x : UInt64) (t : Nat) (ht : t < 64)
    (h : CellID.trailingZeros x = t) : x.toNat % 2 ^ (t + 1) = 2 ^ t :=
  tz_go_spec 64 0 x t ht (by simpa [CellID.trailingZeros] using h)


/-! ### level of an `si` coordinate -/

theorem siTi_mod_of_level (si L : Nat) (hL : L ≤ 30) (hsi : si ≤ 2147483648)
    (hlev : siTiLevel si = (L : Int)) :
    si < 2147483648 ∧ si % 2 ^ (30 - L + 1) = 2 ^ (30 - L) := by
  unfold siTiLevel at hlev
  rcases Nat.lt_or_eq_of_le hsi with hlt | heq
  · refine ⟨hlt, ?_⟩
    have htz : CellID.trailingZeros (UInt64.ofNat (si ||| 2147483648)) = 30 - L := by omega
    have := trailingZeros_spec _ _ (by omega) htz
    have hor : si ||| 2147483648 = 2147483648 + si := by
      have := Nat.two_pow_add_eq_or_of_lt (i := 31) (b := si) (by omega) 1
      rw [Nat.or_comm]; simpa using this.symm
    rw [hor, UInt64.toNat_ofNat'] at this
    have h64 : (2147483648 + si) % 2 ^ 64 = 2147483648 + si := Nat.mod_eq_of_lt (by omega)
    rw [h64] at this
    have hdvd : 2 ^ (30 - L + 1) ∣ 2147483648 :=
      ⟨2 ^ L, by rw [← Nat.pow_add]; have : 30 - L + 1 + L = 31 := by omega
                 rw [this]⟩
    obtain ⟨c, hc⟩ := hdvd
    rwa [Nat.add_comm, hc, Nat.add_mul_mod_self_left] at this
  · subst heq
    exfalso
    have : CellID.trailingZeros (UInt64.ofNat (2147483648 ||| 2147483648)) = 31 := by decide +kernel
    omega


/-- link to the code's level computation: `level(si) = L ≥ 0` means `si` is a centre coordinate -/
theorem siTi_of_level (si L : Nat) (hL : L ≤ 30) (hsi : si ≤ 2147483648)
    (hlev : siTiLevel si = (L : Int)) :
    si = (2 * siTiToPiQi si L + 1) * 2 ^ (30 - L) ∧ siTiToPiQi si L < 2 ^ L := by
  obtain ⟨hlt, hmod⟩ := siTi_mod_of_level si L hL hsi hlev
  have hq : siTiToPiQi si L = si / 2 ^ (30 - L + 1) := by
    unfold siTiToPiQi
    rw [if_neg (by omega), Nat.shiftRight_eq_div_pow]
    congr 2; omega
  rw [hq]
  have hdm := Nat.div_add_mod si (2 ^ (30 - L + 1))
  rw [hmod, Nat.pow_succ] at hdm
  have hP : 0 < 2 ^ (30 - L) := Nat.two_pow_pos _
  have h31 : 2 ^ (30 - L) * 2 ^ L = 1073741824 := by
    rw [← Nat.pow_add]; have : 30 - L + L = 30 := by omega
    rw [this]
  rw [Nat.pow_succ]
  generalize 2 ^ (30 - L) = P at *
  generalize si / (P * 2) = q at *
  constructor
  · rw [← hdm]; grind
  · apply Nat.lt_of_mul_lt_mul_left (a := P)
    rw [h31]
    have : P * 2 * q = 2 * (P * q) := by rw [Nat.mul_comm P 2, Nat.mul_assoc]
    omega

/-! ### exact soft-float evaluation -/

/-- positive normal float `m · 2^(-e')`, `2^52 ≤ m < 2^53`, `1 ≤ e' ≤ 1074` -/
def pack (m e' : Nat) : F64 :=
  ⟨(0 : UInt64) ||| (UInt64.ofNat (1075 - e') <<< 52) ||| UInt64.ofNat (m - 2 ^ 52)⟩

theorem pack_bits_toNat (m e' : Nat) (hm1 : 2 ^ 52 ≤ m) (hm2 : m < 2 ^ 53) (he1 : 1 ≤ e')
    (he2 : e' ≤ 1074) : (pack m e').bits.toNat = 2 ^ 52 * (1075 - e') + (m - 2 ^ 52) := by
  unfold pack
  simp only [UInt64.toNat_or, UInt64.toNat_shiftLeft, UInt64.toNat_ofNat']
  have h52 : (52 : UInt64).toNat % 64 = 52 := by decide
  have h0 : (0 : UInt64).toNat = 0 := by decide
  rw [h52, h0, Nat.zero_or, Nat.shiftLeft_eq, Nat.mod_eq_of_lt (a := 1075 - e') (by omega),
    Nat.mod_eq_of_lt (a := (1075 - e') * 2 ^ 52) (by omega),
    Nat.mod_eq_of_lt (a := m - 2 ^ 52) (by omega), Nat.mul_comm]
  exact (Nat.two_pow_add_eq_or_of_lt (by omega) _).symm

theorem pack_expField (m e' : Nat) (hm1 : 2 ^ 52 ≤ m) (hm2 : m < 2 ^ 53) (he1 : 1 ≤ e')
    (he2 : e' ≤ 1074) : (pack m e').expField = 1075 - e' := by
  unfold F64.expField
  rw [UInt64.toNat_and, UInt64.toNat_shiftRight, pack_bits_toNat m e' hm1 hm2 he1 he2]
  have h52 : (52 : UInt64).toNat % 64 = 52 := by decide
  have h7 : (0x7FF : UInt64).toNat = 2 ^ 11 - 1 := by decide
  rw [h52, h7, Nat.and_two_pow_sub_one_eq_mod, Nat.shiftRight_eq_div_pow]
  omega

theorem pack_fracField (m e' : Nat) (hm1 : 2 ^ 52 ≤ m) (hm2 : m < 2 ^ 53) (he1 : 1 ≤ e')
    (he2 : e' ≤ 1074) : (pack m e').fracField = m - 2 ^ 52 := by
  unfold F64.fracField
  rw [UInt64.toNat_and, pack_bits_toNat m e' hm1 hm2 he1 he2]
  have h7 : (0xFFFFFFFFFFFFF : UInt64).toNat = 2 ^ 52 - 1 := by decide
  rw [h7, Nat.and_two_pow_sub_one_eq_mod]
  omega

theorem pack_signBit (m e' : Nat) (hm1 : 2 ^ 52 ≤ m) (hm2 : m < 2 ^ 53) (he1 : 1 ≤ e')
    (he2 : e' ≤ 1074) : (pack m e').signBit = false := by
  unfold F64.signBit
  have : ((pack m e').bits >>> 63) = 0 := by
    rw [← UInt64.toNat_inj, UInt64.toNat_shiftRight, pack_bits_toNat m e' hm1 hm2 he1 he2]
    have h63 : (63 : UInt64).toNat % 64 = 63 := by decide
    have h0 : (0 : UInt64).toNat = 0 := by decide
    rw [h63, h0, Nat.shiftRight_eq_div_pow]
    omega
  rw [this]; rfl



def quotF (n d : Nat) (e : Int) : Nat × Nat × Nat :=
  if e ≥ 0 then
    let den := d * 2 ^ e.toNat
    (n / den, n % den, den)
  else
    let num := n * 2 ^ (-e).toNat
    (num / d, num % d, d)

def adjE (n d : Nat) (e0 : Int) : Int :=
  let (q, _, _) := quotF n d e0
  if q ≥ 2 ^ 54 then e0 + 2 else if q ≥ 2 ^ 53 then e0 + 1 else e0

def finR (neg : Bool) (e : Int) (qrd : Nat × Nat × Nat) : F64 :=
  let (q, r, den) := qrd
  let q := if 2 * r > den || (2 * r == den && q % 2 == 1) then q + 1 else q
  let (q, e) := if q ≥ 2 ^ 53 then (q / 2, e + 1) else (q, e)
  if q < 2 ^ 52 then
    ⟨(if neg then (0x8000000000000000 : UInt64) else 0) ||| UInt64.ofNat q⟩
  else
    let be : Int := e + 1075
    if be ≥ 2047 then F64.inf neg
    else ⟨(if neg then (0x8000000000000000 : UInt64) else 0) ||| (UInt64.ofNat be.toNat <<< 52) |||
          UInt64.ofNat (q - 2 ^ 52)⟩

theorem roundNE_eq (neg : Bool) (n d : Nat) : F64.roundNE neg n d =
    if n == 0 then F64.zero neg else
    let e1 := adjE n d ((n.log2 : Int) - (d.log2 : Int) - 1 - 52)
    finR neg (if e1 < -1074 then -1074 else e1) (quotF n d (if e1 < -1074 then -1074 else e1)) := by
  unfold F64.roundNE
  rfl

theorem quotF_exact (n b j m : Nat) (hj : 1 ≤ j) (h : n * 2 ^ j = m * 2 ^ b) :
    quotF n (2 ^ b) (-(j : Int)) = (m, 0, 2 ^ b) := by
  unfold quotF
  rw [if_neg (by omega)]
  simp only [Int.neg_neg, Int.toNat_natCast, h]
  rw [Nat.mul_div_cancel _ (Nat.two_pow_pos _), Nat.mul_mod_left]

theorem finR_exact (m e' d : Nat) (hd : 0 < d) (hm1 : 2 ^ 52 ≤ m) (hm2 : m < 2 ^ 53) (he1 : 1 ≤ e')
    (he2 : e' ≤ 1074) : finR false (-(e' : Int)) (m, 0, d) = pack m e' := by
  unfold finR pack
  have h1 : ¬ (2 * 0 > d) := by omega
  have h2 : ¬ (2 * 0 = d) := by omega
  have h3 : ¬ (m ≥ 2 ^ 53) := by omega
  have h4 : ¬ (m < 2 ^ 52) := by omega
  have h5 : ¬ (-(e' : Int) + 1075 ≥ 2047) := by omega
  have h6 : (-(e' : Int) + 1075).toNat = 1075 - e' := by omega
  simp [h1, h2, h3, h4, h5, h6]

theorem roundNE_exact (n b e' m : Nat) (hm1 : 2 ^ 52 ≤ m) (hm2 : m < 2 ^ 53) (he1 : 1 ≤ e')
    (he2 : e' ≤ 1074) (h : n * 2 ^ e' = m * 2 ^ b) : F64.roundNE false n (2 ^ b) = pack m e' := by
  have hn : n ≠ 0 := by
    rintro rfl
    have : 0 < m * 2 ^ b := Nat.mul_pos (by omega) (Nat.two_pow_pos _)
    omega
  have hlog : n.log2 + e' = 52 + b := by
    have h1 := Nat.log2_self_le hn
    have h2 := @Nat.lt_log2_self n
    have h3 : 2 ^ (n.log2 + e') ≤ n * 2 ^ e' := by
      rw [Nat.pow_add]; exact Nat.mul_le_mul_right _ h1
    have h4 : n * 2 ^ e' < 2 ^ (n.log2 + 1 + e') := by
      rw [Nat.pow_add]; exact Nat.mul_lt_mul_of_pos_right h2 (Nat.two_pow_pos _)
    have h5 : 2 ^ (52 + b) ≤ m * 2 ^ b := by
      rw [Nat.pow_add]; exact Nat.mul_le_mul_right _ hm1
    have h6 : m * 2 ^ b < 2 ^ (53 + b) := by
      rw [Nat.pow_add]; exact Nat.mul_lt_mul_of_pos_right hm2 (Nat.two_pow_pos _)
    have h7 : 2 ^ (n.log2 + e') < 2 ^ (53 + b) := by omega
    have h8 : 2 ^ (52 + b) < 2 ^ (n.log2 + 1 + e') := by omega
    rw [Nat.pow_lt_pow_iff_right (by decide)] at h7 h8
    omega
  have hq1 : quotF n (2 ^ b) (-((e' + 1 : Nat) : Int)) = (2 * m, 0, 2 ^ b) :=
    quotF_exact n b (e' + 1) (2 * m) (by omega) (by rw [Nat.pow_succ, ← Nat.mul_assoc, h]; grind)
  have hq2 : quotF n (2 ^ b) (-(e' : Int)) = (m, 0, 2 ^ b) := quotF_exact n b e' m he1 h
  have he0 : (n.log2 : Int) - ((2 ^ b).log2 : Int) - 1 - 52 = -((e' + 1 : Nat) : Int) := by
    rw [Nat.log2_two_pow]; omega
  have hadj : adjE n (2 ^ b) (-((e' + 1 : Nat) : Int)) = -(e' : Int) := by
    unfold adjE
    rw [hq1]
    have h1 : ¬ (2 * m ≥ 2 ^ 54) := by omega
    have h2 : 2 * m ≥ 2 ^ 53 := by omega
    simp only [h1, h2, if_true, if_false]
    omega
  rw [roundNE_eq, he0, hadj]
  have hn' : (n == 0) = false := by simpa using hn
  simp only [hn']
  have hc : ¬ (-(e' : Int) < -1074) := by omega
  simp only [hc, if_false]
  rw [hq2]
  exact finR_exact m e' (2 ^ b) (Nat.two_pow_pos _) hm1 hm2 he1 he2


/-- side conditions of `pack` -/
structure Norm (m e' : Nat) : Prop where
  m1 : 2 ^ 52 ≤ m
  m2 : m < 2 ^ 53
  e1 : 1 ≤ e'
  e2 : e' ≤ 1074

theorem Norm.expField {m e'} (h : Norm m e') : (pack m e').expField = 1075 - e' :=
  pack_expField m e' h.m1 h.m2 h.e1 h.e2
theorem Norm.fracField {m e'} (h : Norm m e') : (pack m e').fracField = m - 2 ^ 52 :=
  pack_fracField m e' h.m1 h.m2 h.e1 h.e2
theorem Norm.signBit {m e'} (h : Norm m e') : (pack m e').signBit = false :=
  pack_signBit m e' h.m1 h.m2 h.e1 h.e2
theorem Norm.mant {m e'} (h : Norm m e') : (pack m e').mant = m := by
  have := h.m1; have := h.e2
  unfold F64.mant; rw [h.expField, h.fracField]
  have : ((1075 - e' == 0) = false) := by simp; omega
  simp only [this]; simp; omega
theorem Norm.expo {m e'} (h : Norm m e') : (pack m e').expo = -(e' : Int) := by
  have := h.e2
  unfold F64.expo; rw [h.expField]
  have : ((1075 - e' == 0) = false) := by simp; omega
  simp only [this]; simp; omega
theorem Norm.isNaN {m e'} (h : Norm m e') : (pack m e').isNaN = false := by
  have := h.e1
  unfold F64.isNaN; rw [h.expField]
  have : ((1075 - e' == 2047) = false) := by simp; omega
  simp [this]
theorem Norm.isInf {m e'} (h : Norm m e') : (pack m e').isInf = false := by
  have := h.e1
  unfold F64.isInf; rw [h.expField]
  have : ((1075 - e' == 2047) = false) := by simp; omega
  simp [this]
theorem Norm.isZero {m e'} (h : Norm m e') : (pack m e').isZero = false := by
  have := h.e2
  unfold F64.isZero; rw [h.expField]
  have : ((1075 - e' == 0) = false) := by simp; omega
  simp [this]

theorem roundNE_pack {n b e' m : Nat} (hN : Norm m e') (h : n * 2 ^ e' = m * 2 ^ b) :
    F64.roundNE false n (2 ^ b) = pack m e' :=
  roundNE_exact n b e' m hN.m1 hN.m2 hN.e1 hN.e2 h

theorem ofNat_pack {n e' m : Nat} (hN : Norm m e') (h : n * 2 ^ e' = m) :
    F64.ofNat n = pack m e' := by
  have hn : n ≠ 0 := by
    rintro rfl
    have := hN.m1; omega
  unfold F64.ofNat F64.ofInt
  have h1 : ((n : Int) == 0) = false := by simp; omega
  have h2 : decide ((n : Int) < 0) = false := by simp
  simp only [h1, h2, Int.natAbs_natCast]
  exact roundNE_pack (b := 0) hN (by simpa using h)

theorem div_pack {m1 e1 e2 : Nat} (h1 : Norm m1 e1) (h2 : Norm (2 ^ 52) e2) (hlt : e2 < e1)
    (hN : Norm m1 (e1 - e2 + 52)) :
    pack m1 e1 / pack (2 ^ 52) e2 = pack m1 (e1 - e2 + 52) := by
  show F64.div _ _ = _
  unfold F64.div
  simp only [h1.isNaN, h2.isNaN, h1.isInf, h2.isInf, h1.isZero, h2.isZero, h1.signBit, h2.signBit,
    h1.mant, h2.mant, h1.expo, h2.expo]
  have hc : ¬ (-(e1 : Int) - -(e2 : Int) ≥ 0) := by omega
  have ht : (-(-(e1 : Int) - -(e2 : Int))).toNat = e1 - e2 := by omega
  simp only [hc, ht, Bool.or_self, bne_self_eq_false, Bool.false_eq_true, if_false, ← Nat.pow_add]
  exact roundNE_pack hN (by rw [Nat.add_comm])

theorem add_pack {m1 e1 m2 e2 m e' : Nat} (h1 : Norm m1 e1) (h2 : Norm m2 e2) (hle : e1 ≤ e2)
    (hN : Norm m e') (h : (m1 * 2 ^ (e2 - e1) + m2) * 2 ^ e' = m * 2 ^ e2) :
    pack m1 e1 + pack m2 e2 = pack m e' := by
  show F64.add _ _ = _
  unfold F64.add F64.toIntAt
  simp only [h1.isNaN, h2.isNaN, h1.isInf, h2.isInf, h1.isZero, h2.isZero, h1.signBit, h2.signBit,
    h1.mant, h2.mant, h1.expo, h2.expo]
  have hmin : min (-(e1 : Int)) (-(e2 : Int)) = -(e2 : Int) := by omega
  have ht1 : (-(e1 : Int) - -(e2 : Int)).toNat = e2 - e1 := by omega
  have ht2 : (-(e2 : Int) - -(e2 : Int)).toNat = 0 := by omega
  simp only [hmin, ht1, ht2, Bool.or_self, Bool.and_self, Bool.false_eq_true, if_false]
  have hs : (m1 : Int) * 2 ^ (e2 - e1) + (m2 : Int) * 2 ^ 0 = ((m1 * 2 ^ (e2 - e1) + m2 : Nat) : Int) := by
    simp
  have hpos : 0 < m1 * 2 ^ (e2 - e1) + m2 := by have := h2.m1; omega
  rw [hs]
  have hz : (((m1 * 2 ^ (e2 - e1) + m2 : Nat) : Int) == 0) = false := by simp; omega
  have hneg : decide (((m1 * 2 ^ (e2 - e1) + m2 : Nat) : Int) < 0) = false := by simp; omega
  simp only [hz, hneg, Int.natAbs_natCast, Bool.false_eq_true, if_false]
  unfold F64.roundDyadic
  have := h2.e1
  rw [if_neg (by omega)]
  have ht3 : (-(-(e2 : Int))).toNat = e2 := by omega
  rw [ht3]
  exact roundNE_pack hN h


theorem scale_bounds (w : Nat) (hw : w ≠ 0) (hw2 : w < 2 ^ 53) :
    w.log2 ≤ 52 ∧ 2 ^ 52 ≤ w * 2 ^ (52 - w.log2) ∧ w * 2 ^ (52 - w.log2) < 2 ^ 53 := by
  have hl : w.log2 < 53 := (Nat.log2_lt hw).2 hw2
  have h1 := Nat.log2_self_le hw
  have h2 := @Nat.lt_log2_self w
  refine ⟨by omega, ?_, ?_⟩
  · have : 2 ^ 52 = 2 ^ w.log2 * 2 ^ (52 - w.log2) := by
      rw [← Nat.pow_add]; congr 1; omega
    rw [this]; exact Nat.mul_le_mul_right _ h1
  · have : 2 ^ 53 = 2 ^ (w.log2 + 1) * 2 ^ (52 - w.log2) := by
      rw [← Nat.pow_add]; congr 1; omega
    rw [this]; exact Nat.mul_lt_mul_of_pos_right h2 (Nat.two_pow_pos _)

theorem half_eq_pack : F64.half = pack (2 ^ 52) 53 := by decide +kernel
theorem zero_add_half : F64.ofNat 0 + F64.half = F64.half := by decide +kernel

theorem fMaxSiTi_eq_pack : fMaxSiTi = pack (2 ^ 52) 21 :=
  ofNat_pack ⟨Nat.le_refl _, by decide, by decide, by decide⟩ (by decide)

theorem ofNat_two_pow (L : Nat) (hL : L ≤ 30) : F64.ofNat (2 ^ L) = pack (2 ^ 52) (52 - L) :=
  ofNat_pack ⟨Nat.le_refl _, by decide, by omega, by omega⟩
    (by rw [← Nat.pow_add]; congr 1; omega)

/-- common value of both sides -/
theorem siTiToST_center_aux (L pi : Nat) (hL : L ≤ 30) (hpi : pi < 2 ^ L) :
    STUV.siTiToST ((2 * pi + 1) * 2 ^ (30 - L)) =
      pack ((2 * pi + 1) * 2 ^ (52 - (2 * pi + 1).log2)) (52 - (2 * pi + 1).log2 + L + 1) := by
  have hw0 : 2 * pi + 1 ≠ 0 := by omega
  have hwL : 2 * pi + 1 < 2 ^ (L + 1) := by rw [Nat.pow_succ]; omega
  have hlogL : (2 * pi + 1).log2 < L + 1 := (Nat.log2_lt hw0).2 hwL
  have h31 : (2 : Nat) ^ (L + 1) * 2 ^ (30 - L) = 2147483648 := by
    rw [← Nat.pow_add]; have : L + 1 + (30 - L) = 31 := by omega
    rw [this]
  have hw53 : 2 * pi + 1 < 2 ^ 53 :=
    Nat.lt_of_lt_of_le hwL (Nat.le_trans (Nat.pow_le_pow_right (by decide) (by omega : L + 1 ≤ 31))
      (by decide))
  obtain ⟨hl52, hM1, hM2⟩ := scale_bounds (2 * pi + 1) hw0 hw53
  generalize hw : 2 * pi + 1 = w at *
  generalize hc : 52 - w.log2 = c at *
  have hsi : w * 2 ^ (30 - L) < 2147483648 := by
    rw [← h31]; exact Nat.mul_lt_mul_of_pos_right hwL (Nat.two_pow_pos _)
  unfold STUV.siTiToST
  rw [if_neg (by unfold maxSiTi; omega)]
  have hN1 : Norm (w * 2 ^ c) (c + L - 30) := ⟨hM1, hM2, by omega, by omega⟩
  have hx : F64.ofNat (w * 2 ^ (30 - L)) = pack (w * 2 ^ c) (c + L - 30) :=
    ofNat_pack hN1 (by rw [Nat.mul_assoc, ← Nat.pow_add]; congr 2; omega)
  rw [hx, fMaxSiTi_eq_pack]
  have hN2 : Norm (2 ^ 52) 21 := ⟨Nat.le_refl _, by decide, by decide, by decide⟩
  have he : c + L - 30 - 21 + 52 = c + L + 1 := by omega
  rw [div_pack hN1 hN2 (by omega) ⟨hM1, hM2, by omega, by omega⟩, he]


theorem arith_aux (p X : Nat) :
    (p * 2 ^ 53 + 2 ^ 52) * (X * 2) = (2 * p + 1) * X * 2 ^ 53 := by grind

theorem piQiToST_aux (L pi : Nat) (hL : L ≤ 30) (hpi : pi < 2 ^ L) :
    piQiToST pi L =
      pack ((2 * pi + 1) * 2 ^ (52 - (2 * pi + 1).log2)) (52 - (2 * pi + 1).log2 + L + 1) := by
  have hw0 : 2 * pi + 1 ≠ 0 := by omega
  have hwL : 2 * pi + 1 < 2 ^ (L + 1) := by rw [Nat.pow_succ]; omega
  have hlogL : (2 * pi + 1).log2 < L + 1 := (Nat.log2_lt hw0).2 hwL
  have hL31 : (2 : Nat) ^ L ≤ 2 ^ 30 := Nat.pow_le_pow_right (by decide) hL
  have hw53 : 2 * pi + 1 < 2 ^ 53 := by omega
  obtain ⟨hl52, hM1, hM2⟩ := scale_bounds (2 * pi + 1) hw0 hw53
  have hNh : Norm (2 ^ 52) 53 := ⟨Nat.le_refl _, by decide, by decide, by decide⟩
  have hN2 : Norm (2 ^ 52) (52 - L) := ⟨Nat.le_refl _, by decide, by omega, by omega⟩
  -- numerator
  have hnum : F64.ofNat pi + F64.half =
      pack ((2 * pi + 1) * 2 ^ (52 - (2 * pi + 1).log2)) (52 - (2 * pi + 1).log2 + 1) := by
    rcases Nat.eq_zero_or_pos pi with rfl | hpos
    · rw [zero_add_half, half_eq_pack]
      have : (2 * 0 + 1).log2 = 0 := by decide
      rw [this]
    · have hp0 : pi ≠ 0 := by omega
      obtain ⟨hpl, hP1, hP2⟩ := scale_bounds pi hp0 (by omega)
      have hpl30 : pi.log2 < 30 := (Nat.log2_lt hp0).2 (by omega)
      have hNp : Norm (pi * 2 ^ (52 - pi.log2)) (52 - pi.log2) := ⟨hP1, hP2, by omega, by omega⟩
      rw [ofNat_pack hNp rfl, half_eq_pack]
      apply add_pack hNp hNh (by omega) ⟨hM1, hM2, by omega, by omega⟩
      have h1 : pi * 2 ^ (52 - pi.log2) * 2 ^ (53 - (52 - pi.log2)) = pi * 2 ^ 53 := by
        rw [Nat.mul_assoc, ← Nat.pow_add]; congr 2; omega
      rw [h1, Nat.pow_succ 2 (52 - (2 * pi + 1).log2)]
      exact arith_aux pi _
  unfold piQiToST
  rw [hnum, ofNat_two_pow L hL]
  have hN1 : Norm ((2 * pi + 1) * 2 ^ (52 - (2 * pi + 1).log2)) (52 - (2 * pi + 1).log2 + 1) :=
    ⟨hM1, hM2, by omega, by omega⟩
  have he : 52 - (2 * pi + 1).log2 + 1 - (52 - L) + 52 = 52 - (2 * pi + 1).log2 + L + 1 := by omega
  rw [div_pack hN1 hN2 (by omega) ⟨hM1, hM2, by omega, by omega⟩, he]

/-- arithmetic form -/
theorem siTiToST_center (L pi : Nat) (hL : L ≤ 30) (hpi : pi < 2 ^ L) :
    STUV.siTiToST ((2 * pi + 1) * 2 ^ (30 - L)) = piQiToST pi L := by
  rw [siTiToST_center_aux L pi hL hpi, piQiToST_aux L pi hL hpi]

/-- the combination used by the round-trip proof -/
theorem siTiToST_eq_piQiToST (si L : Nat) (hL : L ≤ 30) (hsi : si ≤ 2147483648)
    (hlev : siTiLevel si = (L : Int)) :
    STUV.siTiToST si = piQiToST (siTiToPiQi si L) L := by
  obtain ⟨h1, h2⟩ := siTi_of_level si L hL hsi hlev
  conv => lhs; rw [h1]
  exact siTiToST_center L _ hL h2

end S2Proofs.Codec

#print axioms S2Proofs.Codec.siTiToST_center
#print axioms S2Proofs.Codec.siTi_of_level
#print axioms S2Proofs.Codec.siTiToST_eq_piQiToST
