/-
  S2Proofs.Codec.FeqExact — IEEE equality (`F64.feq`, Go's `==` on float64) implies
  identical bit patterns, except for zeros of opposite sign.
-/
import S2.STUV
open S2

namespace S2Proofs.Codec

/-! ### bit-field reconstruction -/

theorem toNat_lt (b : UInt64) : b.toNat < 18446744073709551616 := by
  have := b.toNat_lt
  omega

theorem sign_toNat (b : UInt64) : (b >>> 63).toNat = b.toNat / 9223372036854775808 := by
  rw [UInt64.toNat_shiftRight, Nat.shiftRight_eq_div_pow]
  rfl

theorem signBit_eq (x : F64) : x.signBit = decide (9223372036854775808 ≤ x.bits.toNat) := by
  unfold F64.signBit
  have h := sign_toNat x.bits
  have hlt := toNat_lt x.bits
  by_cases hc : 9223372036854775808 ≤ x.bits.toNat
  · have hne : x.bits >>> 63 ≠ 0 := by
      intro h0
      rw [h0] at h
      have : (0 : UInt64).toNat = 0 := rfl
      omega
    simp [hne, hc]
  · have he : x.bits >>> 63 = 0 := by
      apply UInt64.toNat_inj.mp
      have : (0 : UInt64).toNat = 0 := rfl
      omega
    simp [he, hc]

theorem expField_eq (x : F64) : x.expField = x.bits.toNat / 4503599627370496 % 2048 := by
  unfold F64.expField
  rw [UInt64.toNat_and, UInt64.toNat_shiftRight, Nat.shiftRight_eq_div_pow]
  exact Nat.and_two_pow_sub_one_eq_mod _ 11

theorem fracField_eq (x : F64) : x.fracField = x.bits.toNat % 4503599627370496 := by
  unfold F64.fracField
  rw [UInt64.toNat_and]
  exact Nat.and_two_pow_sub_one_eq_mod _ 52

/-- a bit pattern is determined by its three fields -/
theorem eq_of_fields (x y : F64) (hs : x.signBit = y.signBit)
    (he : x.expField = y.expField) (hf : x.fracField = y.fracField) : x = y := by
  rw [signBit_eq, signBit_eq] at hs
  rw [expField_eq, expField_eq] at he
  rw [fracField_eq, fracField_eq] at hf
  have hx := toNat_lt x.bits
  have hy := toNat_lt y.bits
  have hs' : 9223372036854775808 ≤ x.bits.toNat ↔ 9223372036854775808 ≤ y.bits.toNat := by
    simpa using hs
  cases x with | mk xb =>
  cases y with | mk yb =>
  congr 1
  apply UInt64.toNat_inj.mp
  simp only at *
  omega

/-! ### arithmetic core -/

/-- core: `m₁·2^0 = m₂·2^d` with the IEEE field constraints forces equal fields -/
theorem fields_core (E1 F1 E2 F2 : Nat)
    (hF1 : F1 < 4503599627370496) (hF2 : F2 < 4503599627370496)
    (hle : (if E1 = 0 then (-1074 : Int) else (E1 : Int) - 1075)
         ≤ (if E2 = 0 then (-1074 : Int) else (E2 : Int) - 1075))
    (hv : (if E1 = 0 then F1 else F1 + 4503599627370496)
        = (if E2 = 0 then F2 else F2 + 4503599627370496) *
          2 ^ ((if E2 = 0 then (-1074 : Int) else (E2 : Int) - 1075)
             - (if E1 = 0 then (-1074 : Int) else (E1 : Int) - 1075)).toNat)
    (hpos : 0 < (if E1 = 0 then F1 else F1 + 4503599627370496)) :
    E1 = E2 ∧ F1 = F2 := by
  generalize hd : ((if E2 = 0 then (-1074 : Int) else (E2 : Int) - 1075)
             - (if E1 = 0 then (-1074 : Int) else (E1 : Int) - 1075)).toNat = d at hv
  by_cases hd0 : d = 0
  · subst hd0
    simp only [Nat.pow_zero, Nat.mul_one] at hv
    split at hv <;> split at hv <;> simp_all <;> omega
  · have hP : 1 < 2 ^ d := Nat.one_lt_two_pow hd0
    generalize 2 ^ d = P at hv hP
    have hm := Nat.mul_le_mul_left (if E2 = 0 then F2 else F2 + 4503599627370496) (show 2 ≤ P from hP)
    rw [← hv] at hm
    exfalso
    split at hm <;> split at hm <;> simp_all <;> omega


/-! ### unfolding `feq` -/

theorem mant_def (x : F64) :
    x.mant = if x.expField = 0 then x.fracField else x.fracField + 4503599627370496 := by
  unfold F64.mant; simp

theorem expo_def (x : F64) :
    x.expo = if x.expField = 0 then (-1074 : Int) else (x.expField : Int) - 1075 := by
  unfold F64.expo; simp

theorem fracField_lt (x : F64) : x.fracField < 4503599627370496 := by
  rw [fracField_eq]; omega

theorem mant_pos_of_not_zero (x : F64) (hz : x.isZero = false) : 0 < x.mant := by
  rw [mant_def]
  unfold F64.isZero at hz
  simp at hz
  split <;> omega

theorem mant_zero_of_zero (x : F64) (hz : x.isZero = true) : x.mant = 0 := by
  rw [mant_def]
  unfold F64.isZero at hz
  simp at hz
  simp [hz.1, hz.2]

theorem isZero_of_mant_zero (x : F64) (hm : x.mant = 0) : x.isZero = true := by
  rw [mant_def] at hm
  unfold F64.isZero
  split at hm
  · simp [*]
  · omega

theorem isInf_fields (x : F64) (h : x.isInf = true) : x.expField = 2047 ∧ x.fracField = 0 := by
  unfold F64.isInf at h
  simpa using h

theorem not_inf_of_zero (x : F64) (hz : x.isZero = true) : x.isInf = false := by
  unfold F64.isZero at hz
  unfold F64.isInf
  simp at hz
  simp [hz.1]

/-- the two ways `feq` can hold -/
theorem feq_cases (x y : F64) (h : F64.feq x y = true) :
    (x.isInf = true ∧ y.isInf = true ∧ x.signBit = y.signBit) ∨
    (x.isInf = false ∧ y.isInf = false ∧
      x.toIntAt (min x.expo y.expo) = y.toIntAt (min x.expo y.expo)) := by
  unfold F64.feq at h
  have h' : F64.cmp x y = some .eq := eq_of_beq h
  unfold F64.cmp at h'
  split at h'
  · cases h'
  · split at h'
    · rename_i hinf
      cases hx : x.isInf <;> cases hy : y.isInf <;> simp [hx, hy] at h' hinf
      · revert h'; cases y.signBit <;> simp
      · revert h'; cases x.signBit <;> simp
      · left
        refine ⟨rfl, rfl, ?_⟩
        revert h'
        cases x.signBit <;> cases y.signBit <;> simp <;> decide
    · rename_i hinf
      right
      simp at hinf
      refine ⟨hinf.1, hinf.2, ?_⟩
      simp only [Option.some.injEq] at h'
      exact Int.compare_eq_eq.mp h'


theorem toIntAt_def (x : F64) (e : Int) :
    x.toIntAt e = if x.signBit then -(((x.mant * 2 ^ (x.expo - e).toNat : Nat)) : Int)
                  else ((x.mant * 2 ^ (x.expo - e).toNat : Nat) : Int) := by
  unfold F64.toIntAt
  simp only [Int.natCast_mul, Int.natCast_pow]
  rfl

/-- finite, equal scaled integers, `x` non-zero: equal sign and equal scaled magnitudes -/
theorem toIntAt_eq_split (x y : F64) (e : Int) (h : x.toIntAt e = y.toIntAt e)
    (hm : 0 < x.mant) :
    x.signBit = y.signBit ∧
      x.mant * 2 ^ (x.expo - e).toNat = y.mant * 2 ^ (y.expo - e).toNat := by
  rw [toIntAt_def, toIntAt_def] at h
  have hp : 0 < x.mant * 2 ^ (x.expo - e).toNat := Nat.mul_pos hm (Nat.two_pow_pos _)
  generalize x.mant * 2 ^ (x.expo - e).toNat = a at h hp
  generalize y.mant * 2 ^ (y.expo - e).toNat = b at h
  revert h
  cases x.signBit <;> cases y.signBit <;> simp <;> omega

/-- finite non-zero case: all three fields agree -/
theorem fields_of_toIntAt_eq (x y : F64)
    (h : x.toIntAt (min x.expo y.expo) = y.toIntAt (min x.expo y.expo))
    (hz : x.isZero = false) :
    x.signBit = y.signBit ∧ x.expField = y.expField ∧ x.fracField = y.fracField := by
  have hm := mant_pos_of_not_zero x hz
  obtain ⟨hs, hv⟩ := toIntAt_eq_split x y _ h hm
  refine ⟨hs, ?_⟩
  by_cases hle : x.expo ≤ y.expo
  · rw [Int.min_eq_left hle] at hv
    simp only [Int.sub_self, Int.toNat_zero, Nat.pow_zero, Nat.mul_one] at hv
    rw [mant_def, mant_def, expo_def, expo_def] at hv
    rw [expo_def, expo_def] at hle
    rw [mant_def] at hm
    exact fields_core _ _ _ _ (fracField_lt x) (fracField_lt y) hle hv hm
  · have hle' : y.expo ≤ x.expo := by omega
    rw [Int.min_eq_right hle'] at hv
    simp only [Int.sub_self, Int.toNat_zero, Nat.pow_zero, Nat.mul_one] at hv
    have hmy : 0 < y.mant := by
      rw [← hv]; exact Nat.mul_pos hm (Nat.two_pow_pos _)
    rw [mant_def, mant_def, expo_def, expo_def] at hv
    rw [expo_def, expo_def] at hle'
    rw [mant_def] at hmy
    have := fields_core _ _ _ _ (fracField_lt y) (fracField_lt x) hle' hv.symm hmy
    exact ⟨this.1.symm, this.2.symm⟩

/-- IEEE equality implies identical bit patterns, except for zeros -/
theorem feq_eq_of_not_zero (x y : F64) (h : F64.feq x y = true) (hz : x.isZero = false) :
    x = y := by
  rcases feq_cases x y h with ⟨hx, hy, hs⟩ | ⟨_, _, hv⟩
  · have fx := isInf_fields x hx
    have fy := isInf_fields y hy
    exact eq_of_fields x y hs (by omega) (by omega)
  · obtain ⟨hs, he, hf⟩ := fields_of_toIntAt_eq x y hv hz
    exact eq_of_fields x y hs he hf

/-- and for zeros: both are zeros -/
theorem feq_zero (x y : F64) (h : F64.feq x y = true) (hz : x.isZero = true) :
    y.isZero = true := by
  rcases feq_cases x y h with ⟨hx, _, _⟩ | ⟨_, _, hv⟩
  · rw [not_inf_of_zero x hz] at hx; cases hx
  · apply isZero_of_mant_zero
    rw [toIntAt_def, toIntAt_def, mant_zero_of_zero x hz] at hv
    have hp : 0 < 2 ^ (y.expo - min x.expo y.expo).toNat := Nat.two_pow_pos _
    generalize 2 ^ (y.expo - min x.expo y.expo).toNat = P at hv hp
    have h0 : y.mant * P = 0 := by
      revert hv
      cases x.signBit <;> cases y.signBit <;> simp <;> omega
    rcases Nat.mul_eq_zero.mp h0 with h1 | h1
    · exact h1
    · omega

/-- vectors: the sharper form — wherever `p` has a zero component, `c` has the same bits -/
theorem V3.feq_eq_of_zero_bits (p c : V3) (h : V3.feq p c = true)
    (hx : p.x.isZero = true → p.x = c.x) (hy : p.y.isZero = true → p.y = c.y)
    (hz : p.z.isZero = true → p.z = c.z) : p = c := by
  unfold V3.feq at h
  simp only [Bool.and_eq_true] at h
  obtain ⟨⟨h1, h2⟩, h3⟩ := h
  have comp : ∀ a b : F64, F64.feq a b = true → (a.isZero = true → a = b) → a = b := by
    intro a b hab hzab
    cases hza : a.isZero
    · exact feq_eq_of_not_zero a b hab hza
    · exact hzab hza
  cases p with | mk px py pz =>
  cases c with | mk cx cy cz =>
  simp only at h1 h2 h3 hx hy hz
  rw [comp px cx h1 hx, comp py cy h2 hy, comp pz cz h3 hz]

/-- vectors: component-wise -/
theorem V3.feq_eq_of_no_zero (p c : V3) (h : V3.feq p c = true)
    (hx : p.x.isZero = false) (hy : p.y.isZero = false) (hz : p.z.isZero = false) : p = c :=
  V3.feq_eq_of_zero_bits p c h (by simp [hx]) (by simp [hy]) (by simp [hz])

end S2Proofs.Codec

#print axioms S2Proofs.Codec.feq_eq_of_not_zero
#print axioms S2Proofs.Codec.feq_zero
#print axioms S2Proofs.Codec.V3.feq_eq_of_no_zero
#print axioms S2Proofs.Codec.V3.feq_eq_of_zero_bits
