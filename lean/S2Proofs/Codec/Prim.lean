/-
  S2Proofs.Codec.Prim — round-trip lemmas for the byte-level primitives of S2.Codec.Prim:
  little-endian fixed width, uvarint, N-th derivative coder.
-/
import S2.Codec.Prim
namespace S2Proofs.Codec
open S2 S2.Codec

/-! ### decoder monad -/
@[simp] theorem bind_apply {α β} (m : Dec α) (f : α → Dec β) (bs : Bytes) :
    (m >>= f) bs = match m bs with | none => none | some (a, r) => f a r := rfl
@[simp] theorem pure_apply {α} (a : α) (bs : Bytes) : (pure a : Dec α) bs = some (a, bs) := rfl
@[simp] theorem fail_apply {α} (bs : Bytes) : (Dec.fail : Dec α) bs = none := rfl

/-! ### little endian -/
@[simp] theorem length_leBytes (k x : Nat) : (leBytes k x).length = k := by
  induction k generalizing x with
  | zero => rfl
  | succ k ih => simp [leBytes, ih]

theorem leVal_leBytes (k x : Nat) : leVal (leBytes k x) = x % 256 ^ k := by
  induction k generalizing x with
  | zero => simp [leBytes, leVal, Nat.mod_one]
  | succ k ih =>
    simp only [leBytes, leVal, ih, UInt8.toNat_ofNat']
    have h : x % 256 ^ (k + 1) = x % 256 + 256 * (x / 256 % 256 ^ k) := by
      rw [Nat.pow_succ, Nat.mul_comm (256 ^ k) 256, Nat.mod_mul]
    rw [h]; omega

theorem readLE_leBytes (k x : Nat) (rest : Bytes) :
    readLE k (leBytes k x ++ rest) = some (x % 256 ^ k, rest) := by
  simp [readLE, leVal_leBytes]

theorem readLE_leBytes_of_lt (k x : Nat) (rest : Bytes) (h : x < 256 ^ k) :
    readLE k (leBytes k x ++ rest) = some (x, rest) := by
  rw [readLE_leBytes, Nat.mod_eq_of_lt h]

/-! ### uvarint -/

theorem u8_lt_128 (x : Nat) (h : x < 128) : (UInt8.ofNat x < 0x80) ∧ (UInt8.ofNat x).toNat = x := by
  constructor
  · rw [UInt8.lt_iff_toNat_lt]; simp [UInt8.toNat_ofNat']; omega
  · simp [UInt8.toNat_ofNat']; omega

theorem u8_ge_128 (x : Nat) : ¬ (UInt8.ofNat (x % 128 + 128) < 0x80) ∧
    (UInt8.ofNat (x % 128 + 128)).toNat - 128 = x % 128 := by
  constructor
  · rw [UInt8.lt_iff_toNat_lt]; simp [UInt8.toNat_ofNat']; omega
  · simp [UInt8.toNat_ofNat']; omega

/-- invariant form: `s + 7·fuel = 70` ties the shift to the number of bytes still allowed -/
theorem readUvarintAux_put (x : Nat) : ∀ (fuel acc s : Nat) (rest : Bytes),
    s + 7 * fuel = 70 → 0 < fuel → x < 2 ^ (64 - s) →
    readUvarintAux fuel acc s (putUvarint x ++ rest) = some (acc + x * 2 ^ s, rest) := by
  induction x using Nat.strongRecOn with
  | _ x ih =>
    intro fuel acc s rest hs hf hx
    obtain ⟨f, rfl⟩ : ∃ f, fuel = f + 1 := ⟨fuel - 1, by omega⟩
    rw [putUvarint]
    by_cases h : x < 128
    · have hb := u8_lt_128 x h
      simp only [h, dite_true, List.cons_append, List.nil_append, readUvarintAux, hb.1, if_true, hb.2]
      have : ¬ (f = 0 ∧ UInt8.ofNat x > 1) := by
        rintro ⟨rfl, h1⟩
        have hs' : s = 63 := by omega
        subst hs'
        have : x < 2 := by simpa using hx
        have h1' : (1 : UInt8) < UInt8.ofNat x := h1
        rw [UInt8.lt_iff_toNat_lt, hb.2] at h1'
        simp at h1'; omega
      by_cases hf0 : f = 0
      · by_cases hgt : UInt8.ofNat x > 1
        · exact absurd ⟨hf0, hgt⟩ this
        · simp [hf0, hgt]
      · simp [hf0]
    · have hb := u8_ge_128 x
      simp only [h, dite_false, List.cons_append, readUvarintAux, hb.1, if_false, hb.2]
      -- 128 ≤ x < 2^(64-s) forces 64 - s ≥ 8
      have hs8 : 8 ≤ 64 - s := by
        rcases Nat.lt_or_ge (64 - s) 8 with hc | hc
        · have : 2 ^ (64 - s) ≤ 2 ^ 7 := Nat.pow_le_pow_right (by omega) (by omega)
          omega
        · exact hc
      have hx' : x / 128 < 2 ^ (64 - (s + 7)) := by
        have e : 2 ^ (64 - s) = 2 ^ (64 - (s + 7)) * 128 := by
          rw [show (128 : Nat) = 2 ^ 7 from rfl, ← Nat.pow_add]; congr 1; omega
        rw [e] at hx
        exact Nat.div_lt_of_lt_mul (by rw [Nat.mul_comm]; exact hx)
      have hf' : 0 < f := by
        rcases f with _ | f
        · exfalso; have : s = 63 := by omega
          omega
        · omega
      rw [ih (x / 128) (by omega) f _ (s + 7) rest (by omega) hf' hx']
      congr 2
      have e2 : 2 ^ (s + 7) = 128 * 2 ^ s := by rw [Nat.pow_add]; omega
      rw [e2, Nat.add_assoc, ← Nat.mul_assoc, ← Nat.add_mul]
      congr 2
      omega

/-- uvarint round trip for every `x < 2^64`; the decoder consumes exactly the encoding -/
theorem readUvarint_put (x : Nat) (hx : x < 2 ^ 64) (rest : Bytes) :
    readUvarint (putUvarint x ++ rest) = some (x, rest) := by
  have := readUvarintAux_put x 10 0 0 rest (by omega) (by omega) (by simpa using hx)
  simpa [readUvarint] using this

/-! ### N-th derivative coder -/

theorem decLoop_encLoop (mem : List UInt32) (k : UInt32) :
    decLoop mem (encLoop mem k).2 = ((encLoop mem k).1, k) := by
  induction mem generalizing k with
  | nil => rfl
  | cons m0 ms ih =>
    simp only [encLoop, decLoop, ih]
    have : m0 + (k - m0) = k := by rw [UInt32.add_comm, UInt32.sub_add_cancel]
    simp [this]

theorem length_encLoop (mem : List UInt32) (k : UInt32) : (encLoop mem k).1.length = mem.length := by
  induction mem generalizing k with
  | nil => rfl
  | cons m0 ms ih => simp [encLoop, ih]

theorem decLoop_append_zero (mem : List UInt32) (c : UInt32) :
    decLoop (mem ++ [0]) c = ((decLoop mem c).1 ++ [c], (decLoop mem c).2) := by
  induction mem with
  | nil => simp [decLoop]
  | cons m0 ms ih => simp [decLoop, ih]

/-- one step: decoding the encoder's output from the same state returns the input and reaches
    the encoder's next state (so equal states stay equal: the state invariant) -/
theorem coderDecode_encode (n : Nat) (mem : List UInt32) (k : UInt32) :
    coderDecode n mem (coderEncode n mem k).2 = ((coderEncode n mem k).1, k) := by
  unfold coderDecode coderEncode
  by_cases h : mem.length < n
  · simp only [h, if_true]
    rw [decLoop_append_zero, decLoop_encLoop]
  · simp only [h, if_false]
    rw [decLoop_encLoop]

/-- whole streams, every order `n`, every start state, every `int32` stream -/
theorem coderDecodeAll_encodeAll (n : Nat) (mem : List UInt32) (ks : List UInt32) :
    coderDecodeAll n mem (coderEncodeAll n mem ks) = ks := by
  induction ks generalizing mem with
  | nil => rfl
  | cons k ks ih =>
    simp only [coderEncodeAll, coderDecodeAll, coderDecode_encode, ih]

end S2Proofs.Codec
