/-
  S2Proofs.Codec.Points — round trip of the compressed point list (s2/pointcompression.go):
  face runs, the per-point coder/zig-zag/interleave/uvarint pipeline, the off-centre list.
  The three bit-level laws (interleave, truncated interleave, zig-zag) enter as the bundle
  `BitLaws`, which is proved outright in `S2Proofs.Codec.Interleave` and supplied in C09.lean.
-/
import S2.Codec.Points
import S2Proofs.Codec.Prim
namespace S2Proofs.Codec
open S2 S2.Codec

structure BitLaws : Prop where
  il : ∀ x y : UInt32, deinterleaveUint32 (interleaveUint32 x y) = (x, y)
  ilTrunc : ∀ (x y : UInt32) (j : Nat), j ≤ 4 → x.toNat < 2 ^ (8 * j) → y.toNat < 2 ^ (8 * j) →
    deinterleaveUint32 (UInt64.ofNat ((interleaveUint32 x y).toNat % 256 ^ (2 * j))) = (x, y)
  zz : ∀ x : UInt32, zigzagDecode (zigzagEncode x) = x

/-! ### small facts -/
theorem toInt64_of_lt (v : Nat) (h : v < 2 ^ 63) : toInt64 v = (v : Int) := by
  unfold toInt64
  have : v % 18446744073709551616 = v := Nat.mod_eq_of_lt (by omega)
  rw [this]; simp; omega

theorem readF64_write (x : UInt64) (rest : Bytes) :
    readFloat64Bits (writeFloat64Bits x ++ rest) = some (x, rest) := by
  have hx : x.toNat < 256 ^ 8 := by have := x.toNat_lt; omega
  simp [readFloat64Bits, readUint64, writeFloat64Bits, readLE_leBytes_of_lt 8 x.toNat rest hx]

theorem readPoint_write' (p : V3) (rest : Bytes) : readPoint (writePoint p ++ rest) = some (p, rest) := by
  simp [readPoint, writePoint, List.append_assoc, readF64_write]

theorem siTiToPiQi_lt (si level : Nat) (hl : level ≤ 30) : siTiToPiQi si level < 2 ^ level := by
  unfold siTiToPiQi
  rw [Nat.shiftRight_eq_div_pow]
  have e : 2 ^ level * 2 ^ (31 - level) = 2147483648 := by
    rw [← Nat.pow_add, show level + (31 - level) = 31 by omega]
  have hp : 0 < 2 ^ (31 - level) := Nat.two_pow_pos _
  apply (Nat.div_lt_iff_lt_mul hp).2
  rw [e]; split <;> omega

/-! ### face runs -/
def expandRuns (rs : List (Nat × Nat)) : List Nat := rs.flatMap fun r => List.replicate r.2 r.1
def sumCounts (rs : List (Nat × Nat)) : Nat := (rs.map (·.2)).sum
def GoodRuns (rs : List (Nat × Nat)) : Prop := ∀ r ∈ rs, 1 ≤ r.2 ∧ r.1 < 6

theorem expandRuns_appendFaceR (rrev : List (Nat × Nat)) (f : Nat) :
    expandRuns (appendFaceR rrev f).reverse = expandRuns rrev.reverse ++ [f] := by
  unfold appendFaceR expandRuns
  rcases rrev with _ | ⟨⟨g, c⟩, rs⟩
  · simp
  · by_cases h : g = f
    · subst h; simp [List.replicate_succ']
    · simp [h]

theorem sumCounts_appendFaceR (rrev : List (Nat × Nat)) (f : Nat) :
    sumCounts (appendFaceR rrev f) = sumCounts rrev + 1 := by
  unfold appendFaceR sumCounts
  rcases rrev with _ | ⟨⟨g, c⟩, rs⟩
  · simp
  · by_cases h : g = f
    · subst h; simp; omega
    · simp [h]; omega

theorem goodRuns_appendFaceR (rrev : List (Nat × Nat)) (f : Nat) (hf : f < 6) (h : GoodRuns rrev) :
    GoodRuns (appendFaceR rrev f) := by
  unfold appendFaceR
  rcases rrev with _ | ⟨⟨g, c⟩, rs⟩
  · intro r hr; simp at hr; subst hr; exact ⟨Nat.le_refl _, hf⟩
  · by_cases hg : g = f
    · subst hg
      intro r hr
      simp at hr
      rcases hr with rfl | hr
      · exact ⟨by simp, (h (g, c) (by simp)).2⟩
      · exact h r (by simp [hr])
    · intro r hr
      simp [hg] at hr
      rcases hr with rfl | rfl | hr
      · exact ⟨Nat.le_refl _, hf⟩
      · exact h _ (by simp)
      · exact h r (by simp [hr])

theorem foldl_appendFaceR (fs : List Nat) : ∀ acc : List (Nat × Nat),
    (∀ f ∈ fs, f < 6) → GoodRuns acc →
    expandRuns (fs.foldl appendFaceR acc).reverse = expandRuns acc.reverse ++ fs ∧
    sumCounts (fs.foldl appendFaceR acc) = sumCounts acc + fs.length ∧
    GoodRuns (fs.foldl appendFaceR acc) := by
  induction fs with
  | nil => intro acc _ hg; simp [hg]
  | cons f fs ih =>
    intro acc hf hg
    have := ih (appendFaceR acc f) (fun x hx => hf x (by simp [hx]))
      (goodRuns_appendFaceR acc f (hf f (by simp)) hg)
    simp only [List.foldl_cons]
    refine ⟨?_, ?_, this.2.2⟩
    · rw [this.1, expandRuns_appendFaceR]; simp
    · rw [this.2.1, sumCounts_appendFaceR]; simp; omega

theorem sumCounts_reverse (rs : List (Nat × Nat)) : sumCounts rs.reverse = sumCounts rs := by
  simp [sumCounts, List.sum_reverse]

theorem goodRuns_reverse (rs : List (Nat × Nat)) (h : GoodRuns rs) : GoodRuns rs.reverse := by
  intro r hr; exact h r (by simpa using hr)

/-- face-run round trip, part 1: the runs expand back to the face sequence -/
theorem faceRunsOf_spec (fs : List Nat) (hf : ∀ f ∈ fs, f < 6) :
    expandRuns (faceRunsOf fs) = fs ∧ sumCounts (faceRunsOf fs) = fs.length ∧ GoodRuns (faceRunsOf fs) := by
  have := foldl_appendFaceR fs [] hf (by intro r hr; simp at hr)
  unfold faceRunsOf
  refine ⟨by simpa [expandRuns] using this.1, ?_, goodRuns_reverse _ this.2.2⟩
  rw [sumCounts_reverse, this.2.1]; simp [sumCounts]

theorem count_le_sumCounts (rs : List (Nat × Nat)) : ∀ r ∈ rs, r.2 ≤ sumCounts rs := by
  induction rs with
  | nil => intro r hr; simp at hr
  | cons a rs ih =>
    intro r hr
    simp at hr
    rcases hr with rfl | hr
    · simp [sumCounts]
    · have := ih r hr; simp [sumCounts] at this ⊢; omega

theorem length_le_sumCounts (rs : List (Nat × Nat)) (h : GoodRuns rs) : rs.length ≤ sumCounts rs := by
  induction rs with
  | nil => simp
  | cons a rs ih =>
    have h1 := (h a (by simp)).1
    have := ih (fun r hr => h r (by simp [hr]))
    simp [sumCounts] at this ⊢; omega

theorem decodeFaceRun_encode (f c : Nat) (hf : f < 6) (hc : 1 ≤ c) (hb : 6 * c + f < 2 ^ 64) (rest : Bytes) :
    decodeFaceRun (encodeFaceRun (f, c) ++ rest) = some ((f, c), rest) := by
  have h1 : (6 * c + f) / 6 = c := by omega
  have h2 : (6 * c + f) % 6 = f := by omega
  have h3 : ¬ (6 * c + f < 6) := by omega
  simp [decodeFaceRun, encodeFaceRun, readUvarint_put _ hb, h1, h2, h3]

/-- face-run round trip, part 2: the decoder reads back exactly the runs and nothing more -/
theorem decodeFacesAux_encode (rs : List (Nat × Nat)) : ∀ (fuel n nparsed : Nat) (rest : Bytes),
    GoodRuns rs → rs.length ≤ fuel → nparsed + sumCounts rs = n → (∀ r ∈ rs, 6 * r.2 + r.1 < 2 ^ 64) →
    decodeFacesAux fuel n nparsed (encodeFaces rs ++ rest) = some (rs, rest) := by
  induction rs with
  | nil =>
    intro fuel n nparsed rest _ _ hs _
    have : ¬ nparsed < n := by simp [sumCounts] at hs; omega
    cases fuel <;> simp [decodeFacesAux, encodeFaces, this]
  | cons r rs ih =>
    intro fuel n nparsed rest hg hl hs hb
    obtain ⟨f, c⟩ := r
    obtain ⟨fuel, rfl⟩ : ∃ k, fuel = k + 1 := ⟨fuel - 1, by simp at hl; omega⟩
    have hgr := hg (f, c) (by simp)
    have hlt : nparsed < n := by simp [sumCounts] at hs; omega
    have hstep := decodeFaceRun_encode f c hgr.2 hgr.1 (hb (f, c) (by simp))
    have hih := ih fuel n (nparsed + c) rest (fun r hr => hg r (by simp [hr])) (by simp at hl; omega)
      (by simp [sumCounts] at hs ⊢; omega) (fun r hr => hb r (by simp [hr]))
    simp only [decodeFacesAux, hlt, if_true, encodeFaces, List.map_cons, List.flatten_cons,
      List.append_assoc, bind_apply, hstep]
    simp only [encodeFaces] at hih
    simp [hih]

/-- iterator state → the faces it will still deliver -/
def itFaces (it : List (Nat × Nat) × Nat) : List Nat :=
  match it.1 with
  | [] => []
  | (g, c) :: rs => List.replicate (c - it.2) g ++ expandRuns rs

def ItOK (it : List (Nat × Nat) × Nat) : Prop :=
  match it.1 with
  | [] => True
  | (_, c) :: rs => it.2 < c ∧ ∀ r ∈ rs, 1 ≤ r.2

theorem itFaces_start (rs : List (Nat × Nat)) : itFaces (rs, 0) = expandRuns rs := by
  rcases rs with _ | ⟨⟨g, c⟩, rs⟩ <;> simp [itFaces, expandRuns]

theorem itOK_start (rs : List (Nat × Nat)) (h : GoodRuns rs) : ItOK (rs, 0) := by
  rcases rs with _ | ⟨⟨g, c⟩, rs⟩
  · trivial
  · exact ⟨(h (g, c) (by simp)).1, fun r hr => (h r (by simp [hr])).1⟩

/-- `facesIterator.next` delivers the faces in order -/
theorem facesNext_spec (it : List (Nat × Nat) × Nat) (f : Nat) (fs : List Nat)
    (hok : ItOK it) (h : itFaces it = f :: fs) :
    ∃ it', facesNext it = some (f, it') ∧ ItOK it' ∧ itFaces it' = fs := by
  obtain ⟨rs, shown⟩ := it
  rcases rs with _ | ⟨⟨g, c⟩, rs⟩
  · simp [itFaces] at h
  · obtain ⟨hlt, hrest⟩ := hok
    simp only at hlt
    have hrep : List.replicate (c - shown) g = g :: List.replicate (c - shown - 1) g := by
      rw [show c - shown = (c - shown - 1) + 1 by omega, List.replicate_succ]; simp
    simp only [itFaces, hrep, List.cons_append, List.cons.injEq] at h
    obtain ⟨rfl, hfs⟩ := h
    by_cases hc : c ≤ shown + 1
    · refine ⟨(rs, 0), by simp [facesNext, hc], ?_, ?_⟩
      · rcases rs with _ | ⟨⟨g', c'⟩, rs'⟩
        · trivial
        · exact ⟨hrest (g', c') (by simp), fun r hr => hrest r (by simp [hr])⟩
      · rw [itFaces_start, ← hfs]
        have : c - shown - 1 = 0 := by omega
        simp [this]
    · refine ⟨((g, c) :: rs, shown + 1), by simp [facesNext, hc], ⟨by simp; omega, hrest⟩, ?_⟩
      rw [← hfs]; simp [itFaces, Nat.sub_add_eq]

/-! ### one point -/
theorem u32_ofNat_toNat (n : Nat) (h : n < 2 ^ 32) : (UInt32.ofNat n).toNat = n := by
  simp [UInt32.toNat_ofNat']; omega

theorem decodePoint_encodePoint (B : BitLaws) (cp cq : List UInt32) (pi qi : Nat)
    (hpi : pi < 2 ^ 32) (hqi : qi < 2 ^ 32) (rest : Bytes) :
    decodePoint cp cq ((encodePoint cp cq pi qi).1 ++ rest) =
      some ((pi, qi, (encodePoint cp cq pi qi).2.1, (encodePoint cp cq pi qi).2.2), rest) := by
  simp only [decodePoint, encodePoint, bind_apply]
  rw [readUvarint_put _ (UInt64.toNat_lt _)]
  simp only [UInt64.ofNat_toNat, B.il, B.zz, coderDecode_encode, pure_apply,
    u32_ofNat_toNat pi hpi, u32_ofNat_toNat qi hqi]

theorem decodeFirstPoint_encodeFirstPoint (B : BitLaws) (level pi qi : Nat) (hl : level ≤ 30)
    (hpi : pi < 2 ^ level) (hqi : qi < 2 ^ level) (rest : Bytes) :
    decodeFirstPoint level [] [] ((encodeFirstPoint level [] [] pi qi).1 ++ rest) =
      some ((pi, qi, (encodeFirstPoint level [] [] pi qi).2.1, (encodeFirstPoint level [] [] pi qi).2.2), rest) := by
  have hle : 2 ^ level ≤ 2 ^ (8 * ((level + 7) / 8)) := Nat.pow_le_pow_right (by omega) (by omega)
  have h32 : 2 ^ level ≤ 2 ^ 32 := Nat.pow_le_pow_right (by omega) (by omega)
  have hp32 : pi < 2 ^ 32 := by omega
  have hq32 : qi < 2 ^ 32 := by omega
  have hmul : (level + 7) / 8 * 2 = 2 * ((level + 7) / 8) := Nat.mul_comm _ _
  have e1 : coderEncode derivativeEncodingOrder [] (UInt32.ofNat pi) = ([UInt32.ofNat pi], UInt32.ofNat pi) := rfl
  have e2 : coderEncode derivativeEncodingOrder [] (UInt32.ofNat qi) = ([UInt32.ofNat qi], UInt32.ofNat qi) := rfl
  simp only [decodeFirstPoint, encodeFirstPoint, bind_apply, e1, e2]
  rw [readLE_leBytes, hmul]
  have := B.ilTrunc (UInt32.ofNat pi) (UInt32.ofNat qi) ((level + 7) / 8) (by omega)
    (by rw [u32_ofNat_toNat pi hp32]; omega) (by rw [u32_ofNat_toNat qi hq32]; omega)
  simp only [this, pure_apply]
  have d1 : coderDecode derivativeEncodingOrder [] (UInt32.ofNat pi) = ([UInt32.ofNat pi], UInt32.ofNat pi) := by
    simp [coderDecode, derivativeEncodingOrder, decLoop]
  have d2 : coderDecode derivativeEncodingOrder [] (UInt32.ofNat qi) = ([UInt32.ofNat qi], UInt32.ofNat qi) := by
    simp [coderDecode, derivativeEncodingOrder, decLoop]
  simp only [d1, d2, u32_ofNat_toNat pi hp32, u32_ofNat_toNat qi hq32]

/-! ### the point loop -/

/-- after the first point: any coder states, any iterator position -/
theorem decodePointsLoop_encode (B : BitLaws) (level : Nat) :
    ∀ (vs : List (Nat × Nat × Nat)) (cp cq : List UInt32) (it : List (Nat × Nat) × Nat) (rest : Bytes),
    ItOK it → itFaces it = vs.map (·.1) → (∀ v ∈ vs, v.2.1 < 2 ^ 32 ∧ v.2.2 < 2 ^ 32) →
    decodePointsLoop level vs.length false cp cq it
        (encodePointsLoop level false cp cq (vs.map fun v => (v.2.1, v.2.2)) ++ rest) =
      some (vs.map (fun v => facePiQiToXYZ v.1 v.2.1 v.2.2 level), rest) := by
  intro vs
  induction vs with
  | nil => intro cp cq it rest _ _ _; simp [decodePointsLoop, encodePointsLoop]
  | cons v vs ih =>
    intro cp cq it rest hok hit hb
    obtain ⟨f, pi, qi⟩ := v
    have hv := hb (f, pi, qi) (by simp)
    obtain ⟨it', hnext, hok', hit'⟩ := facesNext_spec it f (vs.map (·.1)) hok (by simpa using hit)
    have hstep := decodePoint_encodePoint B cp cq pi qi hv.1 hv.2
    simp only [List.length_cons, decodePointsLoop, List.map_cons, encodePointsLoop, List.append_assoc,
      bind_apply, hstep, hnext, Bool.false_eq_true, if_false]
    rw [ih _ _ it' rest hok' hit' (fun v hv => hb v (by simp [hv]))]
    rfl

/-- the whole point loop including the fixed-length first point -/
theorem decodePointsLoop_encode_first (B : BitLaws) (level : Nat) (hl : level ≤ 30)
    (vs : List (Nat × Nat × Nat)) (rs : List (Nat × Nat)) (rest : Bytes)
    (hg : GoodRuns rs) (hit : expandRuns rs = vs.map (·.1))
    (hb : ∀ v ∈ vs, v.2.1 < 2 ^ level ∧ v.2.2 < 2 ^ level) :
    decodePointsLoop level vs.length true [] [] (rs, 0)
        (encodePointsLoop level true [] [] (vs.map fun v => (v.2.1, v.2.2)) ++ rest) =
      some (vs.map (fun v => facePiQiToXYZ v.1 v.2.1 v.2.2 level), rest) := by
  rcases vs with _ | ⟨⟨f, pi, qi⟩, vs⟩
  · simp [decodePointsLoop, encodePointsLoop]
  · have h32 : 2 ^ level ≤ 2 ^ 32 := Nat.pow_le_pow_right (by omega) (by omega)
    have hv := hb (f, pi, qi) (by simp)
    obtain ⟨it', hnext, hok', hit'⟩ := facesNext_spec (rs, 0) f (vs.map (·.1)) (itOK_start rs hg)
      (by rw [itFaces_start, hit]; simp)
    have hstep := decodeFirstPoint_encodeFirstPoint B level pi qi hl hv.1 hv.2
    simp only [List.length_cons, decodePointsLoop, List.map_cons, encodePointsLoop, List.append_assoc,
      bind_apply, hstep, hnext, if_true]
    rw [decodePointsLoop_encode B level vs _ _ it' rest hok' hit'
      (fun v hv => by have := hb v (by simp [hv]); omega)]
    rfl

/-! ### off-centre list -/
def applyOff (oc : List (Nat × V3)) (t : List V3) : List V3 := oc.foldl (fun t e => t.set e.1 e.2) t

theorem decodeOffCenter_encode : ∀ (oc : List (Nat × V3)) (t : List V3) (rest : Bytes),
    (∀ e ∈ oc, e.1 < t.length) → t.length < 2 ^ 63 →
    decodeOffCenter oc.length t ((oc.map fun e => putUvarint e.1 ++ writePoint e.2).flatten ++ rest) =
      some (applyOff oc t, rest) := by
  intro oc
  induction oc with
  | nil => intro t rest _ _; simp [decodeOffCenter, applyOff]
  | cons e oc ih =>
    intro t rest hidx hlen
    have he := hidx e (by simp)
    have h63 : e.1 < 2 ^ 63 := by omega
    have h1 : ¬ (toInt64 e.1 ≥ (t.length : Int)) := by rw [toInt64_of_lt _ h63]; omega
    have h2 : ¬ (toInt64 e.1 < 0) := by rw [toInt64_of_lt _ h63]; omega
    simp only [List.length_cons, decodeOffCenter, List.map_cons, List.flatten_cons, List.append_assoc,
      bind_apply, readUvarint_put e.1 (by omega), h1, h2, if_false, readPoint_write']
    rw [ih (t.set e.1 e.2) rest (by intro e' he'; simpa using hidx e' (by simp [he'])) (by simpa using hlen)]
    simp [applyOff]

theorem offCenterAux_idx_lt (level : Nat) : ∀ (vs : List XFST) (i : Nat),
    ∀ e ∈ offCenterAux level i vs, e.1 < i + vs.length := by
  intro vs
  induction vs with
  | nil => intro i e he; simp [offCenterAux] at he
  | cons v vs ih =>
    intro i e he
    simp only [offCenterAux] at he
    split at he
    · simp at he
      rcases he with rfl | he
      · simp
      · have := ih (i + 1) e he; simp; omega
    · have := ih (i + 1) e he; simp; omega

theorem length_offCenterAux_le (level : Nat) : ∀ (vs : List XFST) (i : Nat),
    (offCenterAux level i vs).length ≤ vs.length := by
  intro vs
  induction vs with
  | nil => intro i; simp [offCenterAux]
  | cons v vs ih =>
    intro i
    simp only [offCenterAux]
    split
    · have := ih (i + 1); simp; omega
    · have := ih (i + 1); simp; omega

/-- overwriting the off-centre positions of the recomputed centres restores every coordinate,
    provided the recomputed centre of each snapped vertex is bit-identical to the vertex -/
theorem applyOff_offCenterAux (level : Nat) (comp : XFST → V3) : ∀ (vs : List XFST) (pre : List V3),
    (∀ v ∈ vs, v.level = (level : Int) → comp v = v.xyz) →
    applyOff (offCenterAux level pre.length vs) (pre ++ vs.map comp) = pre ++ vs.map (·.xyz) := by
  intro vs
  induction vs with
  | nil => intro pre _; simp [offCenterAux, applyOff]
  | cons v vs ih =>
    intro pre h
    have hrest : ∀ w ∈ vs, w.level = (level : Int) → comp w = w.xyz := fun w hw => h w (by simp [hw])
    have key := ih (pre ++ [v.xyz]) hrest
    simp only [List.length_append, List.length_singleton, List.append_assoc, List.singleton_append] at key
    by_cases hv : v.level = (level : Int)
    · have hc := h v (by simp) hv
      simp only [offCenterAux, hv, bne_self_eq_false, Bool.false_eq_true, if_false, List.map_cons, hc]
      exact key
    · have hne : (v.level != (level : Int)) = true := by simpa using hv
      simp only [offCenterAux, hne, if_true, List.map_cons, applyOff, List.foldl_cons]
      have : (pre ++ comp v :: vs.map comp).set pre.length v.xyz = pre ++ v.xyz :: vs.map comp := by
        simp
      rw [this]
      exact key

/-! ### the compressed point list -/

/-- the decoder's recomputed centre of a vertex -/
def centreOf (level : Nat) (v : XFST) : V3 :=
  facePiQiToXYZ v.face (siTiToPiQi v.si level) (siTiToPiQi v.ti level) level

/-- **compressed point list round trip.**  Preconditions = what the Go callers guarantee:
    `level ≤ 30`, faces `< 6`, at most `maxEncodedVertices` vertices; and the snap condition:
    a vertex recorded as a level-`level` centre is bit-identical to the decoder's recomputation. -/
theorem decodePointsCompressed_encode (B : BitLaws) (level : Nat) (hl : level ≤ 30) (vs : List XFST)
    (hf : ∀ v ∈ vs, v.face < 6) (hn : vs.length ≤ maxEncodedVertices)
    (hsnap : ∀ v ∈ vs, v.level = (level : Int) → centreOf level v = v.xyz) (rest : Bytes) :
    decodePointsCompressed level vs.length (encodePointsCompressed vs level ++ rest) =
      some (vs.map (·.xyz), rest) := by
  have hN : vs.length ≤ 50000000 := hn
  obtain ⟨hexp, hsum, hgood⟩ := faceRunsOf_spec (vs.map (·.face)) (by simpa using hf)
  simp only [List.length_map] at hsum
  have hfaces := decodeFacesAux_encode (faceRunsOf (vs.map (·.face))) vs.length vs.length 0
    (encodePointsLoop level true [] [] (vs.map fun v => (siTiToPiQi v.si level, siTiToPiQi v.ti level)) ++
      (encodeOffCenter (offCenterAux level 0 vs) ++ rest))
    hgood (by have := length_le_sumCounts _ hgood; omega) (by omega)
    (by intro r hr
        have h1 := count_le_sumCounts _ r hr
        have h2 := (hgood r hr).2
        omega)
  let ws : List (Nat × Nat × Nat) := vs.map fun v => (v.face, siTiToPiQi v.si level, siTiToPiQi v.ti level)
  have hloop := decodePointsLoop_encode_first B level hl ws (faceRunsOf (vs.map (·.face)))
    (encodeOffCenter (offCenterAux level 0 vs) ++ rest) hgood
    (by rw [hexp]; simp [ws, List.map_map, Function.comp_def])
    (by intro w hw
        simp only [ws, List.mem_map] at hw
        obtain ⟨v, _, rfl⟩ := hw
        exact ⟨siTiToPiQi_lt _ _ hl, siTiToPiQi_lt _ _ hl⟩)
  have hws1 : ws.length = vs.length := by simp [ws]
  have hws2 : (ws.map fun v => (v.2.1, v.2.2)) =
      vs.map fun v => (siTiToPiQi v.si level, siTiToPiQi v.ti level) := by
    simp [ws, List.map_map, Function.comp_def]
  have hws3 : (ws.map fun v => facePiQiToXYZ v.1 v.2.1 v.2.2 level) = vs.map (centreOf level) := by
    simp [ws, List.map_map, Function.comp_def, centreOf]
  rw [hws1, hws2, hws3] at hloop
  have hoclen := length_offCenterAux_le level vs 0
  have hoff := decodeOffCenter_encode (offCenterAux level 0 vs) (vs.map (centreOf level)) rest
    (by intro e he; have := offCenterAux_idx_lt level vs 0 e he; simpa using this)
    (by simp; omega)
  have happly := applyOff_offCenterAux level (centreOf level) vs [] hsnap
  simp only [List.length_nil, List.nil_append] at happly
  have hnum63 : (offCenterAux level 0 vs).length < 2 ^ 63 := by omega
  simp only [encodeOffCenter, List.append_assoc] at hfaces hloop
  simp only [decodePointsCompressed, decodeFaces, encodePointsCompressed, encodeOffCenter,
    List.append_assoc, bind_apply]
  rw [hfaces]; simp only []
  rw [hloop]; simp only []
  rw [readUvarint_put _ (show (offCenterAux level 0 vs).length < 2 ^ 64 by omega)]
  simp only [toInt64_of_lt _ hnum63, Int.toNat_natCast]
  have hc2 : ¬ (((offCenterAux level 0 vs).length : Int) > (vs.length : Int)) := by omega
  rw [if_neg hc2, hoff, happly]

end S2Proofs.Codec
