/-
  S2Proofs.Codec.Lossless — round-trip theorems for the lossless Encode/Decode pairs of
  S2.Codec.Types: every decoder applied to (encoding ++ rest) returns the value and exactly `rest`.
-/
import S2.Codec.Types
import S2Proofs.Codec.Prim
namespace S2Proofs.Codec
open S2 S2.Codec

/-! ### fixed-width primitives -/

@[simp] theorem readUint64_write (x : UInt64) (rest : Bytes) :
    readUint64 (writeUint64 x ++ rest) = some (x, rest) := by
  have h : x.toNat < 256 ^ 8 := by have := UInt64.toNat_lt x; omega
  simp [readUint64, writeUint64, readLE_leBytes_of_lt 8 x.toNat rest h]

@[simp] theorem readUint32_write (x : UInt32) (rest : Bytes) :
    readUint32 (writeUint32 x ++ rest) = some (x, rest) := by
  have h : x.toNat < 256 ^ 4 := by have := UInt32.toNat_lt x; omega
  simp [readUint32, writeUint32, readLE_leBytes_of_lt 4 x.toNat rest h]

@[simp] theorem readFloat64Bits_write (x : UInt64) (rest : Bytes) :
    readFloat64Bits (writeFloat64Bits x ++ rest) = some (x, rest) :=
  readUint64_write x rest

@[simp] theorem readBool_write (b : Bool) (rest : Bytes) :
    readBool (writeBool b ++ rest) = some (b, rest) := by
  cases b <;> simp [readBool, writeBool, readLE_leBytes_of_lt]

@[simp] theorem readPoint_write (p : V3) (rest : Bytes) :
    readPoint (writePoint p ++ rest) = some (p, rest) := by
  simp [readPoint, writePoint, List.append_assoc]

/-! ### generic list reader -/

theorem readN_map_mem {α} (rd : Dec α) (enc : α → Bytes) (l : List α)
    (h : ∀ a ∈ l, ∀ rest, rd (enc a ++ rest) = some (a, rest)) (rest : Bytes) :
    readN rd l.length ((l.map enc).flatten ++ rest) = some (l, rest) := by
  induction l with
  | nil => simp [readN]
  | cons a l ih =>
    have ha := h a (by simp)
    have ih' := ih (fun b hb => h b (by simp [hb]))
    simp [readN, List.append_assoc, ha, ih']

/-- generic list reader -/
theorem readN_map {α} (rd : Dec α) (enc : α → Bytes)
    (h : ∀ a rest, rd (enc a ++ rest) = some (a, rest)) (l : List α) (rest : Bytes) :
    readN rd l.length ((l.map enc).flatten ++ rest) = some (l, rest) :=
  readN_map_mem rd enc l (fun a _ => h a) rest

/-! ### version byte -/

@[simp] theorem readInt8_writeVersion (rest : Bytes) :
    readInt8 (writeInt8 1 ++ rest) = some (1, rest) := by
  simp [readInt8, writeInt8, readLE_leBytes_of_lt]

@[simp] theorem readUint8_writeVersion (rest : Bytes) :
    readUint8 (writeInt8 1 ++ rest) = some (1, rest) := by
  simp [readUint8, writeInt8, leBytes]

/-! ### Point, Cap, Rect, CellID, Cell -/

theorem decodePoint_encode (p : V3) (rest : Bytes) :
    decodePoint' (encodePoint' p ++ rest) = some (p, rest) := by
  simp [decodePoint', encodePoint', List.append_assoc, encodingVersion]

theorem decodeCap_encode (c : CapM) (rest : Bytes) :
    decodeCap (encodeCap c ++ rest) = some (c, rest) := by
  simp [decodeCap, encodeCap, List.append_assoc]

@[simp] theorem decodeRect_encode (r : RectM) (rest : Bytes) :
    decodeRect (encodeRect r ++ rest) = some (r, rest) := by
  simp [decodeRect, encodeRect, List.append_assoc, encodingVersion]

@[simp] theorem decodeCellID_encode (c : UInt64) (rest : Bytes) :
    decodeCellID (encodeCellID c ++ rest) = some (c, rest) := by
  simp [decodeCellID, encodeCellID]

theorem decodeCell_encode (c : UInt64) (hv : S2.CellID.isValid c = true) (rest : Bytes) :
    decodeCell (encodeCell c ++ rest) = some (c, rest) := by
  simp [decodeCell, encodeCell, hv]

theorem decodeCell_encode_invalid (c : UInt64) (hv : S2.CellID.isValid c = false) (rest : Bytes) :
    decodeCell (encodeCell c ++ rest) = none := by
  simp [decodeCell, encodeCell, hv]

/-! ### CellUnion -/

theorem readInt64_write (n : Nat) (h : n < 2 ^ 63) (rest : Bytes) :
    readInt64 (writeInt64OfNat n ++ rest) = some ((n : Int), rest) := by
  have h1 : n % 18446744073709551616 = n := Nat.mod_eq_of_lt (by omega)
  have h2 : ¬ n ≥ 9223372036854775808 := by omega
  simp [readInt64, writeInt64OfNat, h1, readLE_leBytes_of_lt 8 n rest (by omega), h2]

/-- every union the ENCODER accepts round-trips -/
theorem decodeCellUnion_encode (cu : List UInt64) (bytes : Bytes) (henc : encodeCellUnion cu = some bytes)
    (rest : Bytes) : decodeCellUnion (bytes ++ rest) = some (cu, rest) := by
  unfold encodeCellUnion at henc
  by_cases h : cu.length > maxCells
  · simp [h] at henc
  · simp only [h, if_false, Option.some.injEq] at henc
    subst henc
    have hlen : cu.length < 2 ^ 63 := by simp only [maxCells] at h; omega
    have h1 : ¬ ((cu.length : Int) > (maxCells : Int)) := by omega
    have h2 : ¬ ((cu.length : Int) < 0) := by omega
    have hr := readN_map decodeCellID encodeCellID decodeCellID_encode cu rest
    simp [decodeCellUnion, List.append_assoc, encodingVersion,
      readInt64_write _ hlen, h1, h2, hr]

/-- the encoder accepts exactly the unions of at most `maxEncodedCells` cells -/
theorem encodeCellUnion_isSome_iff (cu : List UInt64) : (encodeCellUnion cu).isSome = true ↔ cu.length ≤ maxCells := by
  unfold encodeCellUnion
  by_cases h : cu.length > maxCells <;> simp [h] <;> omega

/-! ### Polyline -/

theorem decodePolyline_encode (p : List V3) (h : p.length ≤ maxEncodedVertices) (rest : Bytes) :
    decodePolyline (encodePolyline p ++ rest) = some (p, rest) := by
  have hn : (UInt32.ofNat p.length).toNat = p.length := by
    simp only [maxEncodedVertices] at h
    rw [UInt32.toNat_ofNat']; omega
  have h1 : ¬ (p.length > maxEncodedVertices) := by omega
  have hr := readN_map readPoint writePoint readPoint_write p rest
  simp [decodePolyline, encodePolyline, List.append_assoc, encodingVersion, hn, h1, hr]

/-! ### Loop -/

theorem readUint32_writeInt32OfNat (n : Nat) (h : n < 2 ^ 32) (rest : Bytes) :
    readUint32 (writeInt32OfNat n ++ rest) = some (UInt32.ofNat n, rest) := by
  have h1 : n % 4294967296 = n := Nat.mod_eq_of_lt (by omega)
  simp [readUint32, writeInt32OfNat, h1, readLE_leBytes_of_lt 4 n rest (by omega)]

theorem decodeLoop_encode (l : LoopM) (h : l.vertices.length ≤ maxEncodedVertices)
    (hd : l.depth < 2 ^ 32) (rest : Bytes) :
    decodeLoop (encodeLoop l ++ rest) = some (l, rest) := by
  have hn : (UInt32.ofNat l.vertices.length).toNat = l.vertices.length := by
    simp only [maxEncodedVertices] at h
    rw [UInt32.toNat_ofNat']; omega
  have hdn : (UInt32.ofNat l.depth).toNat = l.depth := by
    rw [UInt32.toNat_ofNat']; omega
  have h1 : ¬ (l.vertices.length > maxEncodedVertices) := by omega
  have hr := fun rest => readN_map readPoint writePoint readPoint_write l.vertices rest
  simp [decodeLoop, encodeLoop, List.append_assoc, encodingVersion, hn, h1, hr,
    readUint32_writeInt32OfNat _ hd, hdn]

/-! ### Polygon (lossless) -/

@[simp] theorem readUint8_writeBool (b : Bool) (rest : Bytes) :
    readUint8 (writeBool b ++ rest) = some (if b then 1 else 0, rest) := by
  cases b <;> simp [readUint8, writeBool, leBytes]

/-- lossless polygon: `Polygon.Decode` dispatching on the version byte -/
theorem decodePolygon_encodeLossless (p : PolygonM) (bytes : Bytes)
    (hn : p.loops.length ≤ maxEncodedLoops)
    (hv : ∀ l ∈ p.loops, l.vertices.length ≤ maxEncodedVertices ∧ l.depth < 2 ^ 32)
    (henc : encodePolygonLossless p = some bytes) (rest : Bytes) :
    decodePolygon (bytes ++ rest) = some (⟨p.loops.map LoopM.toC, p.hasHoles, some p.bound⟩, rest) := by
  have h1 : ¬ (p.loops.length > maxEncodedLoops) := by omega
  have hnn : (UInt32.ofNat p.loops.length).toNat = p.loops.length := by
    simp only [maxEncodedLoops] at hn
    rw [UInt32.toNat_ofNat']; omega
  simp only [encodePolygonLossless, h1, if_false, Option.some.injEq] at henc
  subst henc
  have hr := fun rest => readN_map_mem decodeLoop encodeLoop p.loops
    (fun l hl rest => decodeLoop_encode l (hv l hl).1 (hv l hl).2 rest) rest
  simp [decodePolygon, decodePolygonLossless, List.append_assoc, encodingVersion, hnn, h1, hr]

end S2Proofs.Codec
