import S2.CellID
import S2.Hilbert
import S2.CellUnion
import S2.F64
import S2.STUV
