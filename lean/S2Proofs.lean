import S2Proofs.BitLemmas
import S2Proofs.CellIDLemmas
