/-
  Oracle.C12 — handlers of the C12 ops (cell geometry vs ids).

  cellch   : Children() = CellFromCellID(child) field by field, bit-exact (model AND implementation)
  cellpt   : ContainsPoint / Distance / BoundaryDistance / MaxDistance: soft-float model (bit-exact) and
             the exact judge of Oracle.C12Judge
  celledge : DistanceToEdge / MaxDistanceToEdge: soft-float model `S2.CellEdgeM` (bit-exact) and the exact judge
  cellcell : DistanceToCell / MaxDistanceToCell: soft-float model `S2.CellEdgeM` (bit-exact) and the exact judge
  cellbound: RectBound / CapBound contain sample points that are exactly in the cell; CapBound bit-exact against the
             model S2.CellM.capBound (S2/CellCap.lean)
-/
import Oracle.Basic
import Oracle.C12Judge
import S2.CellM
import S2.CellCap
import S2.CellEdgeM
namespace Oracle.C12
open Oracle S2 S2.CellID S2.Hilbert S2.STUV S2.CellM Oracle.C12J

def showCell (c : Cell) : String :=
  ":".intercalate [toString c.face, toString c.level, toString c.orientation, u64Hex c.id,
    showF64 c.uv.1.1, showF64 c.uv.1.2, showF64 c.uv.2.1, showF64 c.uv.2.2]

/-- `t` = the true enclosure; a true value within 2^-10 of a right angle (chord² = 2) is tagged: that is where
    `edgeDistance` documents a loss of accuracy -/
def cmpClause (what : String) (r : F64) (t : Iv) : Option String :=
  let near90 := (t.1 - 2 * oneK).natAbs < 2 ^ (K - 10)
  let tag := if near90 then "-near-90deg" else ""
  match compareChord r t with
  | .within => none
  | .tooBig => some (what ++ "-exceeds-true-value-plus-error" ++ tag)
  | .tooSmall => some (what ++ "-below-true-value-minus-error" ++ tag)
  | .invalid => some (what ++ "-not-a-valid-chord-angle")

def firstSome (l : List (Option String)) : Option String := l.findSome? id

def piF : F64 := ⟨0x400921FB54442D18⟩

/-- s1.Interval.Contains -/
def lngContains (lo hi p : F64) : Bool :=
  let p := if F64.feq p (-piF) then piF else p
  if F64.gt lo hi then
    (F64.ge p lo || F64.le p hi) && !(F64.feq lo piF && F64.feq hi (-piF))
  else F64.ge p lo && F64.le p hi

/-- exact: chord²(c/|c|, p/|p|) ≤ r + tol(r)  (the tolerance covers the direction error of a normalized float
    point, ≈ 2·chord·eps, and s1.ChordAngle.MaxPointError) -/
def capHasExact (c p : V3) (r : F64) : Bool :=
  if r.isNaN || (r.signBit && !r.isZero) then false else
  if r.isInf then true else
  let t := chordOfCos (cosPair (vecOf c) (vecOf p))
  let rr := (ivOfF64 r).2
  t.1 ≤ rr + tol (max rr t.2)

/-- NaN payloads are not compared -/
def showChord (x : F64) : String := if x.isNaN then "NaN" else showF64 x
def canonChord (s : String) : String :=
  match parseF64? s with
  | some x => showChord x
  | none => s

def okV (v : V3) : Bool := finiteV v && nonzeroV v


/-- decimal rendering of a scaled enclosure (debug ops `…x`) -/
def showIv (t : Iv) : String :=
  let f (x : Int) : String := toString ((x * 1000000000000000000000000000000) / oneK)
  "[" ++ f t.1 ++ "," ++ f t.2 ++ "]e-30"

def handleDebug (op : String) (args : List String) : Option String :=
  match op, args with
  | "cellptx", [a, x, y, z] => do
    let id ← parseU64? a
    let p ← parseV3? x y z
    let c := cellFromCellID id
    let q := quadOfCell c
    let pv := vecOf p
    pure s!"info in={q.has pv} branch={distanceBranch c p} branchNeg={distanceBranch c (p.mul negOne)} dist={showIv (q.dist pv)} bdry={showIv (q.bdryDist pv)} max={showIv (q.maxDist pv)}"
  | "celledgex", [a, ax, ay, az, bx, by', bz] => do
    let id ← parseU64? a
    let pa ← parseV3? ax ay az
    let pb ← parseV3? bx by' bz
    let c := cellFromCellID id
    let q := quadOfCell c
    let va := vecOf pa; let vb := vecOf pb
    -- which return of the float model `CellEdgeM.distanceToEdge` is taken, for (a, b) and for the antipodal edge
    let branch (a b : V3) : String :=
      if F64.feq (minChord (distance c a) [distance c b]) fzero then "endpoint-in-cell"
      else if CellEdgeM.anyCrossing (Crosser.initChain a b (vertex c 3)) (CellEdgeM.vertices c) then "crossing"
      else "vertex-chain"
    let maxBranch : String :=
      if F64.le (maxChord (maxDistance c pa) [maxDistance c pb]) F64.two then "endpoints" else "antipodal-" ++ branch (pa.mul negOne) (pb.mul negOne)
    pure s!"info branch={branch pa pb} maxBranch={maxBranch} meets={q.meetsSeg va vb} meetsNeg={q.meetsSeg va.neg vb.neg} dist={showIv (q.segDist va vb)} max={showIv (q.segMaxDist va vb)} maxA={showIv (q.maxDist va)} maxB={showIv (q.maxDist vb)}"
  | "cellcellx", [a, b] => do
    let id ← parseU64? a
    let id2 ← parseU64? b
    let q := quadOfCell (cellFromCellID id)
    let r := quadOfCell (cellFromCellID id2)
    pure s!"info meets={q.meets r} dist={showIv (q.quadDist r)} max={showIv (q.quadMaxDist r)}"
  | _, _ => none

def handle (op : String) (args res : List String) : Option String :=
  match handleDebug op args with
  | some v => some v
  | none =>
  match op, args with
  | "cellch", [a] => do
    let id ← parseU64? a
    if !isValid id then pure "bad cellch-invalid-id" else
    let c := cellFromCellID id
    let model : List String := match children c with
      | none => ["F"]
      | some ch => ["T"] ++ ch.map showCell ++ (List.range 4).map fun k => showCell (cellFromCellID (child id k))
    let prop : Option String := match res with
      | ["F"] => if isLeaf id then none else some "children-refused-for-non-leaf"
      | ["T", c0, c1, c2, c3, d0, d1, d2, d3] =>
        if isLeaf id then some "children-of-a-leaf"
        else if [c0, c1, c2, c3] != [d0, d1, d2, d3] then some "children-differ-from-direct-construction"
        else none
      | _ => some "impl-output-arity"
    pure (verdictP model res prop)
  | "cellpt", [a, x, y, z] => do
    let id ← parseU64? a
    let p ← parseV3? x y z
    if !(isValid id && okV p) then pure "bad cellpt-out-of-contract" else
    let c := cellFromCellID id
    let model := [showBool (containsPoint c p), showChord (distance c p), showChord (boundaryDistance c p),
      showChord (maxDistance c p)]
    let res := match res with
      | gc :: rest => gc :: rest.map canonChord
      | [] => []
    let prop : Option String := match res with
      | [gc, gd, gb, gm] => (do
          let nanF (t : String) : Option F64 := if t == "NaN" then some F64.nan else parseF64? t
          let gc ← parseBool? gc; let gd ← nanF gd; let gb ← nanF gb; let gm ← nanF gm
          let q := quadOfCell c
          let pv := vecOf p
          let inside := q.has pv
          pure (firstSome [
            if inside && !gc then some "containspoint-misses-point-exactly-in-cell" else none,
            cmpClause "distance" gd (q.dist pv),
            cmpClause "boundary-distance" gb (q.bdryDist pv),
            cmpClause "max-distance" gm (q.maxDist pv)])).getD (some "unparseable-impl-output")
      | _ => some "impl-output-arity"
    pure (verdictP model res prop)
  | "celledge", [a, ax, ay, az, bx, by', bz] => do
    let id ← parseU64? a
    let pa ← parseV3? ax ay az
    let pb ← parseV3? bx by' bz
    if !(isValid id && okV pa && okV pb) then pure "bad celledge-out-of-contract" else
    let q := quadOfCell (cellFromCellID id)
    let va := vecOf pa; let vb := vecOf pb
    if (va.cross vb).isZero && va.dot vb < 0 then pure "bad celledge-antipodal-endpoints" else
    let prop : Option String := match res with
      | [gd, gm] => (do
          let gd ← parseF64? gd; let gm ← parseF64? gm
          pure (firstSome [
            cmpClause "distance-to-edge" gd (q.segDist va vb),
            cmpClause "max-distance-to-edge" gm (q.segMaxDist va vb)])).getD (some "unparseable-impl-output")
      | _ => some "impl-output-arity"
    -- float model S2.CellEdgeM (edge crosser, UpdateMinDistance): compared bit by bit; the judge decides the property
    let c := cellFromCellID id
    let model := [showChord (CellEdgeM.distanceToEdge c pa pb), showChord (CellEdgeM.maxDistanceToEdge c pa pb)]
    pure (verdictP model (res.map canonChord) prop)
  | "cellcell", [a, b] => do
    let id ← parseU64? a
    let id2 ← parseU64? b
    if !(isValid id && isValid id2) then pure "bad cellcell-invalid-id" else
    let q := quadOfCell (cellFromCellID id)
    let r := quadOfCell (cellFromCellID id2)
    let prop : Option String := match res with
      | [gd, gm] => (do
          let gd ← parseF64? gd; let gm ← parseF64? gm
          pure (firstSome [
            cmpClause "distance-to-cell" gd (q.quadDist r),
            cmpClause "max-distance-to-cell" gm (q.quadMaxDist r)])).getD (some "unparseable-impl-output")
      | _ => some "impl-output-arity"
    let c := cellFromCellID id
    let d := cellFromCellID id2
    let model := [showChord (CellEdgeM.distanceToCell c d), showChord (CellEdgeM.maxDistanceToCell c d)]
    pure (verdictP model (res.map canonChord) prop)
  | "cellbound", a :: samples => do
    let id ← parseU64? a
    if !isValid id then pure "bad cellbound-invalid-id" else
    let c := cellFromCellID id
    let q := quadOfCell c
    match res with
    | latlo :: lathi :: lnglo :: lnghi :: cx :: cy :: cz :: rad :: rest => do
      let latlo ← parseF64? latlo; let lathi ← parseF64? lathi
      let lnglo ← parseF64? lnglo; let lnghi ← parseF64? lnghi
      let ctr ← parseV3? cx cy cz
      let rad ← parseF64? rad
      if rest.length * 3 != samples.length * 7 then pure "bad cellbound-sample-arity" else
      -- the bit-exact model of Cell.CapBound (S2/CellCap.lean; `capSlackChord` = Go's ChordAngleFromAngle(6·2^-52))
      let mcap := capBound c capSlackChord
      if !(mcap.center == ctr && mcap.radius == rad) then
        pure ("diff cap-bound " ++ " ".intercalate (showV3 mcap.center ++ [showF64 mcap.radius])) else
      let rec go (ss rs : List String) (fuel : Nat) : Option String :=
        match fuel, ss, rs with
        | fuel + 1, u :: v :: n :: ss', px :: py :: pz :: lat :: lng :: rh :: ch :: rs' =>
          match parseF64? u, parseF64? v, parseV3? px py pz, parseF64? lat, parseF64? lng, parseBool? rh, parseBool? ch with
          | some u, some v, some p, some lat, some lng, some rh, some ch =>
            -- the sample point recomputed by the model (unnormalized / normalized)
            let raw := faceUVToXYZ c.face u v
            -- n = "0" raw, "1" normalized, "1:dx:dy:dz" normalized and then every coordinate moved by whole ulps
            let nudge (x : F64) (t : String) : F64 :=
              match t.toInt? with
              | some k =>
                let step (up : Bool) (y : F64) : F64 := F64.nextafter y (F64.inf (!up))
                (List.range k.natAbs).foldl (fun y _ => step (decide (k > 0)) y) x
              | none => x
            let mp := match n.splitOn ":" with
              | ["1"] => raw.normalize
              | ["1", dx, dy, dz] => let q := raw.normalize; V3.mk (nudge q.x dx) (nudge q.y dy) (nudge q.z dz)
              | _ => raw
            if mp != p then some ("diff sample-point " ++ " ".intercalate (showV3 mp))
            else
              let inCell := q.has (vecOf p)
              let rectHas := F64.le latlo lat && F64.le lat lathi && lngContains lnglo lnghi lng
              if rectHas != rh then some "diff rect-containment-flag"
              else if inCell && !rh then some "propfail rect-bound-misses-point-of-cell"
              else if inCell && !capHasExact ctr p rad then some "propfail cap-bound-misses-point-of-cell-exact"
              -- since repair D34 (7d5d157) Cell.CapBound carries rounding slack, so Go's own float test
              -- `CapBound().ContainsPoint(p)` must accept every unit-length point of the cell as well
              else if inCell && n != "0" && !ch then some "propfail cap-bound-float-test-rejects-point-of-cell"
              else go ss' rs' fuel
          | _, _, _, _, _, _, _ => some "bad cellbound-sample-parse"
        | _, [], [] => none
        | _, _, _ => some "bad cellbound-sample-arity"
      match go samples rest (samples.length + 1) with
      | some v => pure v
      | none => pure "ok"
    | _ => pure "bad cellbound-arity"
  | _, _ => none

end Oracle.C12
