/-
  Oracle.C09 — correspondence and property judge for "encoding is lossless".
  For every `enc<type>` line the oracle
   (a) compares Go's bytes with the model encoder byte for byte,
   (b) runs the model decoder on Go's bytes and compares with Go's decoded value,
   (c) judges the property on Go's own output: no decode error, decoded observable fields
       bit-identical to the original (coordinates, vertex order, loop order, depths, origin flags),
       second encoding identical.
   (d) for loops / polygons additionally requires the harness' query comparison token to be `T`
       (original and decoded Go value answer NumEdges/Edge/Chain/ReferencePoint/ContainsPoint/Area … identically).
  An encode error of the implementation is the single token `ENCERR`; it is compared with the model
  encoder (`none`) and is not a property failure (the property speaks about encodable values).
  `diff` = model ≠ implementation;  `propfail` = the property itself fails on the implementation.
-/
import Oracle.Basic
import S2.Codec
namespace Oracle.C09
open Oracle S2 S2.Codec

/-! ### value syntax -/
def hex2 (b : UInt8) : String := String.ofList [hexDigit (b.toNat / 16), hexDigit (b.toNat % 16)]
def showBytes (bs : Bytes) : String := if bs.isEmpty then "~" else String.join (bs.map hex2)

def parseBytes? (s : String) : Option Bytes :=
  if s == "~" then some [] else
  let rec go : List Char → Option Bytes
    | [] => some []
    | [_] => none
    | a :: b :: r => do
      let x ← hexVal? a; let y ← hexVal? b; let t ← go r
      pure (UInt8.ofNat (16 * x + y) :: t)
  go s.toList

def parsePt? (s : String) : Option V3 :=
  match s.splitOn "," with
  | [a, b, c] => parseV3? a b c
  | _ => none
def showPt (p : V3) : String := ",".intercalate (showV3 p)
def parsePts? (s : String) : Option (List V3) := if s == "-" then some [] else (s.splitOn ";").mapM parsePt?
def showPts (l : List V3) : String := if l.isEmpty then "-" else ";".intercalate (l.map showPt)
def parseRect? (s : String) : Option RectM :=
  match s.splitOn "," with
  | [a, b, c, d] => do
    let a ← parseF64? a; let b ← parseF64? b; let c ← parseF64? c; let d ← parseF64? d
    pure ⟨a, b, c, d⟩
  | _ => none
def showRect (r : RectM) : String := ",".intercalate [showF64 r.latLo, showF64 r.latHi, showF64 r.lngLo, showF64 r.lngHi]
def parseLoop? (s : String) : Option LoopM :=
  match s.splitOn "/" with
  | [oi, d, r, p] => do
    let oi ← parseBool? oi; let d ← parseNat? d; let r ← parseRect? r; let p ← parsePts? p
    pure ⟨p, oi, d, r⟩
  | _ => none
def showLoopC (l : LoopC) (fallback : Option RectM) : String :=
  let b := match l.bound, fallback with
    | some b, _ => showRect b
    | none, some b => showRect b      -- field the model does not compute: echo the implementation's
    | none, none => "-"
  "/".intercalate [showBool l.originInside, toString l.depth, b, showPts l.vertices]
def parsePoly? (s : String) : Option PolygonM :=
  match s.splitOn "|" with
  | [hh, r, ls] => do
    let hh ← parseBool? hh; let r ← parseRect? r
    let ls ← if ls == "-" then some [] else (ls.splitOn "!").mapM parseLoop?
    pure ⟨ls, hh, r⟩
  | _ => none
/-- print a decoded polygon; bounds the model does not carry are taken from `impl` -/
def showPolyD (p : PolygonD) (impl : Option PolygonM) : String :=
  let fb (i : Nat) : Option RectM := impl.bind fun q => (q.loops[i]?).map (·.bound)
  let ls := (List.range p.loops.length).map fun i => showLoopC (p.loops.getD i default) (fb i)
  let b := match p.bound, impl with
    | some b, _ => showRect b
    | none, some q => showRect q.bound
    | none, none => "-"
  showBool p.hasHoles ++ "|" ++ b ++ "|" ++ (if ls.isEmpty then "-" else "!".intercalate ls)

def runDec (d : Dec α) (bs : Bytes) : Option α :=
  match d bs with
  | some (a, []) => some a     -- the decoder must consume exactly the encoding
  | _ => none

def obsLoop (l : LoopM) : List V3 × Bool × Nat := (l.vertices, l.originInside, l.depth)

/-- generic judge: model tokens vs implementation tokens, then the property clause -/
def judge (model : List String) (res : List String) (prop : Option String) : String := verdictP model res prop

def u32Hex (x : UInt32) : String := u64Hex x.toUInt64

def handle (op : String) (args res : List String) : Option String :=
  match op, args with
  | "encpoint", [a, b, c] => do
    let p ← parseV3? a b c
    let bytes := encodePoint' p
    let dec := match res with
      | hx :: _ => (parseBytes? hx).bind (runDec decodePoint')
      | _ => none
    let model := [showBytes bytes, if dec.isSome then "ok" else "E", (dec.map showPt).getD "-", "T"]
    let prop := match res with
      | [_, e, q, same] => if e != "ok" then some "decode-error" else if q != showPt p then some "point-not-bit-identical"
                           else if same != "T" then some "second-encoding-differs" else none
      | _ => some "impl-output-arity"
    pure (judge model res prop)
  | "enccap", [a, b, c, r] => do
    let p ← parseV3? a b c; let r ← parseF64? r
    let bytes := encodeCap ⟨p, r⟩
    let dec := match res with
      | hx :: _ => (parseBytes? hx).bind (runDec decodeCap)
      | _ => none
    let model := [showBytes bytes, if dec.isSome then "ok" else "E", (dec.map (showPt ·.center)).getD "-",
                  (dec.map (showF64 ·.radius)).getD "-", "T"]
    let prop := match res with
      | [_, e, q, qr, same] => if e != "ok" then some "decode-error" else if q != showPt p || qr != showF64 r then some "cap-not-bit-identical"
                           else if same != "T" then some "second-encoding-differs" else none
      | _ => some "impl-output-arity"
    pure (judge model res prop)
  | "encrect", [a, b, c, d] => do
    let r ← parseRect? (",".intercalate [a, b, c, d])
    let bytes := encodeRect r
    let dec := match res with
      | hx :: _ => (parseBytes? hx).bind (runDec decodeRect)
      | _ => none
    let model := [showBytes bytes, if dec.isSome then "ok" else "E", (dec.map showRect).getD "-", "T"]
    let prop := match res with
      | [_, e, q, same] => if e != "ok" then some "decode-error" else if q != showRect r then some "rect-not-bit-identical"
                           else if same != "T" then some "second-encoding-differs" else none
      | _ => some "impl-output-arity"
    pure (judge model res prop)
  | "enccellid", [a] => do
    let id ← parseU64? a
    let dec := match res with
      | hx :: _ => (parseBytes? hx).bind (runDec decodeCellID)
      | _ => none
    let model := [showBytes (encodeCellID id), if dec.isSome then "ok" else "E", (dec.map u64Hex).getD "-", "T"]
    let prop := match res with
      | [_, e, q, same] => if e != "ok" then some "decode-error" else if q != u64Hex id then some "cellid-differs"
                           else if same != "T" then some "second-encoding-differs" else none
      | _ => some "impl-output-arity"
    pure (judge model res prop)
  | "enccell", [a] => do
    let id ← parseU64? a
    let dec := match res with
      | hx :: _ => (parseBytes? hx).bind (runDec decodeCell)
      | _ => none
    let model := [showBytes (encodeCell id), if dec.isSome then "ok" else "E", (dec.map u64Hex).getD "-", "T", "T"]
    let prop := match res with
      | [_, e, q, eq, same] => if e != "ok" then some "decode-error" else if q != u64Hex id then some "cell-id-differs"
                           else if eq != "T" then some "cell-derived-fields-differ"
                           else if same != "T" then some "second-encoding-differs" else none
      | _ => some "impl-output-arity"
    pure (judge model res prop)
  | "enccu", [a] => do
    let cu ← parseList? parseU64? a
    match encodeCellUnion cu with
    | none => pure (verdict ["ENCERR"] res)
    | some bytes =>
    let dec := match res with
      | hx :: _ => (parseBytes? hx).bind (runDec decodeCellUnion)
      | _ => none
    let model := [showBytes bytes, if dec.isSome then "ok" else "E", (dec.map (showList u64Hex)).getD "-", "T"]
    let prop := match res with
      | ["ENCERR"] => none
      | [_, e, q, same] => if e != "ok" then some "decode-error" else if q != showList u64Hex cu then some "cellunion-differs"
                           else if same != "T" then some "second-encoding-differs" else none
      | _ => some "impl-output-arity"
    pure (judge model res prop)
  | "enccubig", [n] => do
    -- too long to ship: the model predicts acceptance by the encoder, the length, and the decoder's verdict
    let n ← parseNat? n
    let accepted := decide (n ≤ maxCells)     -- = (encodeCellUnion cu).isSome, see `encodeCellUnion_isSome_iff`
    let model := if accepted then [toString (9 + 8 * n), "ok", toString n, "T"] else ["ENCERR"]
    let prop := match res with
      | ["ENCERR"] => none     -- the encoder refused: nothing to round-trip
      | [_, e, _, eq] => if e != "ok" then some "decode-error-on-own-encoding" else if eq != "T" then some "cellunion-differs" else none
      | _ => some "impl-output-arity"
    pure (judge model res prop)
  | "encpolyline", [a] => do
    let p ← parsePts? a
    let dec := match res with
      | hx :: _ => (parseBytes? hx).bind (runDec decodePolyline)
      | _ => none
    let model := [showBytes (encodePolyline p), if dec.isSome then "ok" else "E", (dec.map showPts).getD "-", "T"]
    let prop := match res with
      | [_, e, q, same] => if e != "ok" then some "decode-error" else if q != showPts p then some "polyline-not-bit-identical"
                           else if same != "T" then some "second-encoding-differs" else none
      | _ => some "impl-output-arity"
    pure (judge model res prop)
  | "encloop", _ | "encloopof", _ =>
    match res with
    | [hx, orig, e, decTok, same, qs] => do
      let l ← parseLoop? orig
      let dec := (parseBytes? hx).bind (runDec decodeLoop)
      let model := [showBytes (encodeLoop l), orig, if dec.isSome then "ok" else "E",
                    (dec.map fun d => showLoopC d.toC none).getD "-", "T", "T"]
      let prop :=
        if e != "ok" then some "decode-error" else
        match parseLoop? decTok with
        | none => some "unparseable-decoded-loop"
        | some d =>
          if d.vertices != l.vertices then some "loop-vertices-not-bit-identical"
          else if d.originInside != l.originInside then some "loop-originInside-differs"
          else if d.depth != l.depth then some "loop-depth-differs"
          else if same != "T" then some "second-encoding-differs"
          else if qs != "T" then some ("loop-queries-differ-" ++ qs) else none
      pure (judge model res prop)
    | _ => some "propfail impl-output-arity"
  | "encpolygon", _ =>
    match res with
    | [hx, orig, e, decTok, same, qs] => do
      let p ← parsePoly? orig
      let implDec := parsePoly? decTok
      let bytes := encodePolygon p
      let dec := (parseBytes? hx).bind (runDec decodePolygon)
      let model := [(bytes.map showBytes).getD "ENCERR", orig, if dec.isSome then "ok" else "E",
                    (dec.map fun d => showPolyD d implDec).getD "-", "T", "T"]
      let prop :=
        if e != "ok" then some "decode-error" else
        match implDec with
        | none => some "unparseable-decoded-polygon"
        | some d =>
          if d.loops.length != p.loops.length then some "polygon-loop-count-differs"
          else if d.loops.map (·.vertices) != p.loops.map (·.vertices) then some "polygon-vertices-not-bit-identical"
          else if d.loops.map (·.originInside) != p.loops.map (·.originInside) then some "polygon-originInside-differs"
          else if d.loops.map (·.depth) != p.loops.map (·.depth) then some "polygon-depths-differ"
          else if d.hasHoles != p.hasHoles then some "polygon-hasHoles-differs"
          else if same != "T" then some "second-encoding-differs"
          else if qs != "T" then some ("polygon-queries-differ-" ++ qs) else none
      pure (judge model res prop)
    | _ => some "propfail impl-output-arity"
  -- primitives (pure model-vs-implementation ties)
  | "uvar", [a] => do
    let x ← parseU64? a
    let bytes := putUvarint x.toNat
    let prop := match readUvarint (bytes ++ [0xAB]) with
      | some (v, [0xAB]) => if v == x.toNat then none else some "uvarint-roundtrip-value"
      | _ => some "uvarint-roundtrip"
    pure (judge [showBytes bytes] res prop)
  | "uvardec", [a] => do
    let bs ← parseBytes? a
    let model := match readUvarint bs with
      | some (v, r) => [u64Hex (UInt64.ofNat v), toString r.length]
      | none => ["E"]
    pure (verdict model res)
  | "zz", [a] => do
    let x ← parseU64? a
    let x := x.toUInt32
    let prop := if zigzagDecode (zigzagEncode x) != x then some "zigzag-roundtrip" else none
    pure (judge [u32Hex (zigzagEncode x), u32Hex (zigzagDecode x)] res prop)
  | "il", [a, b, c] => do
    let x ← parseU64? a; let y ← parseU64? b; let c ← parseU64? c
    let d := deinterleaveUint32 c
    let prop := if deinterleaveUint32 (interleaveUint32 x.toUInt32 y.toUInt32) != (x.toUInt32, y.toUInt32) then some "interleave-roundtrip" else none
    pure (judge [u64Hex (interleaveUint32 x.toUInt32 y.toUInt32), u32Hex d.1, u32Hex d.2] res prop)
  | "nth", [n, ks] => do
    let n ← parseNat? n
    let ks ← parseList? parseU64? ks
    let ks := ks.map (·.toUInt32)
    let enc := coderEncodeAll n [] ks
    let prop := if coderDecodeAll n [] enc != ks then some "coder-roundtrip" else none
    pure (judge [showList u32Hex enc, showList u32Hex (coderDecodeAll n [] ks)] res prop)
  | "piqi", [si, level] => do
    let si ← parseU64? si; let level ← parseNat? level
    let pi := siTiToPiQi si.toNat level
    let model := [toString pi, showF64 (piQiToST pi level), showF64 (STUV.siTiToST si.toNat)]
    -- property: for a centre coordinate of this level both float expressions agree
    let prop := if siTiLevel si.toNat == (level : Int) && piQiToST pi level != STUV.siTiToST si.toNat
                then some "piQiToST-differs-from-siTiToST-at-centre" else none
    pure (judge model res prop)
  | "snap", [a, b, c] => do
    let p ← parseV3? a b c
    let r := xyzToFaceSiTi p
    pure (verdict [toString r.face, toString r.si, toString r.ti, toString r.level] res)
  | "ptsc", [level, pts] => do
    let level ← parseNat? level; let pts ← parsePts? pts
    let bytes := encodePointsCompressed (xyzFaceSiTiVertices pts) level
    let dec := match res with
      | hx :: _ => (parseBytes? hx).bind fun b => decodePointsCompressed level pts.length b
      | _ => none
    let model := [showBytes bytes] ++ (match dec with
      | some (q, rest) => ["ok", toString rest.length, showPts q]
      | none => ["E"])
    let prop := match res with
      | [_, e, rem, q] => if e != "ok" then some "decode-error" else if rem != "0" then some "decoder-did-not-consume-encoding"
                          else if q != showPts pts then some "points-not-bit-identical" else none
      | _ => some "impl-output-arity"
    pure (judge model res prop)
  | _, _ => none

end Oracle.C09
