/-
  Oracle.C18 — judge for C18 (area, curvature, centroid).  Line formats: harness/c18.go.

  Model ↔ implementation (verdict `diff` on disagreement), all bit-exact in the soft-float:
    c18const  the float constants of the model (maxCurvature, π, 2π, 4π, 11.25·ε, maxLength)
    c18turn   `CanonicalFirstVertex` and `TurningAngle` of the loop, of sampled rotations, of `Invert()` and
              of rotations of the inverse: `S2.Measures.canonicalFirstVertex` / `turningAngle` run on the
              vertex list with the implementation's own `TurnAngle` values (libm) read from the line
    c18area   `turningAngleMaxError`, `IsNormalized` (from lngLen, TurningAngle) and the final decision of
              `Area` (from the raw surface integral) — `S2.Measures.isNormalized` / `loopArea`
    c18parea  `Polygon.Area` / `Polygon.Centroid` = the soft-float signed folds over the loops' public
              `Area()` / `Centroid()` values in `p.Loops()` order
    c18surf   the triangle sequence and the float sum of `surfaceIntegralFloat64`: `S2.Measures.surfaceIntegral`
              with the 180-degree tests decided in exact rational arithmetic (lines with an angle within
              1e-15 of the threshold are not judged) and the new origins computed in the soft-float

  Property predicates on the implementation's output (verdict `propfail <clause>`):
    c18turn   rot: TurningAngle bit-identical for every rotation;  inv: exactly negated (sign bit flipped)
              by Invert(), also after rotating the inverse
    c18ta3    turnangle-antisym: TurnAngle(a,b,c) = -TurnAngle(c,b,a) bit-exactly (documented guarantee of
              TurnAngle; NOT needed by the theorems of S2Proofs.C18, tested because the design relies on it)
    c18area   tolerance E(n) = n·1e-14  (documented: up to 2n triangles in the sum, comment in Loop.Area,
              each with the documented maximum error 5e-15 of PointArea / GirardArea; it dominates
              turningAngleMaxError = 11.25·2^-52·n ≈ 2.5e-15·n):
              range 0 ≤ area ≤ 4π; complement |area + area(inverse) − 4π| ≤ 2E; rotation |area_k − area| ≤ 2E;
              fan / star: signed fan from another vertex resp. the star triangulation from an interior point
              agree with area within 2E (fan: modulo 4π); normalized: IsNormalized ⇒ area ≤ 2π + E and
              ¬IsNormalized ⇒ area ≥ 2π − E; contain: all vertices in the cap {v·c ≥ t|v||c|} (checked exactly)
              and the antipode of c is EXACTLY outside (S2.Contain crossing parity, exact predicates)
              ⇒ area ≤ 2π(1−t)(1+1e-9) + E, exactly inside ⇒ area ≥ 4π − 2π(1−t)(1+1e-9) − E; the same for the
              inverted loop; contain-complement: loop and inverse disagree on that point
    c18cent   cone: the centroid of a loop lying in a cap points into the cap's cone (minus for clockwise);
              norm: |centroid| ≤ min(area, 4π − area) + 10E; inverse: centroid(Invert) = −centroid within 10E
              (the integral of position over the whole sphere is 0)
    c18parea  range −E ≤ area ≤ 4π + E;  complement |area + area(after Invert) − 4π| ≤ 2E (n = all vertices)
-/
import Oracle.Basic
import Oracle.C04
import S2.Measures
import S2.Exact
import S2.Contain
import S2.PointCross
namespace Oracle.C18
open Oracle S2 S2.Exact S2.Measures

/-! ### parsing -/

def parsePt? (s : String) : Option V3 :=
  match s.splitOn "," with
  | [a, b, c] => parseV3? a b c
  | _ => none

def parsePts? (s : String) : Option (Array V3) :=
  if s == "-" then some #[] else ((s.splitOn ";").mapM parsePt?).map List.toArray

def parseDots? (s : String) : Option (List Nat) :=
  if s == "-" then some [] else (s.splitOn ".").mapM parseNat?

def parseF64s? (s : String) : Option (Array F64) :=
  if s == "-" then some #[] else ((s.splitOn ",").mapM parseF64?).map List.toArray

def showPt (v : V3) : String := ",".intercalate (showV3 v)

def semis (s : String) : List String := if s == "-" then [] else s.splitOn ";"

/-! ### exact values -/

def val (x : F64) : Rat := (toInt x : Rat) / ((2 : Rat) ^ 1074)
def absR (x : Rat) : Rat := if x < 0 then -x else x
def piLo : Rat := 3141592653589793238462643383279 / 1000000000000000000000000000000
def piHi : Rat := 3141592653589793238462643383280 / 1000000000000000000000000000000
/-- documented error of one `Area` call: 2n triangles × 5e-15 -/
def tolE (n : Nat) : Rat := (n : Rat) / 100000000000000
def finite (x : F64) : Bool := x.isFinite

/-- `|x − 4π| ≤ tol` with the enclosure of π -/
def near4Pi (x tol : Rat) : Bool := 4 * piLo - tol ≤ x && x ≤ 4 * piHi + tol

/-! ### c18const -/

def maxLengthF : F64 := ⟨0x400921f61616cadf⟩

def handleConst (res : List String) : String :=
  verdict ([maxCurvature, f64Pi, f64TwoPi, f64FourPi, maxErrorPerVertex, maxLengthF].map showF64) res

/-! ### c18turn -/

def turnTok (ta : F64) (cf : Int × Int) : String := showF64 ta ++ ":" ++ toString cf.1 ++ ":" ++ toString cf.2

def parseTurnTok? (s : String) : Option (F64 × Int × Int) :=
  match s.splitOn ":" with
  | [a, i, d] => do pure (← parseF64? a, ← parseInt? i, ← parseInt? d)
  | _ => none

def parseRotTok? (s : String) : Option (Nat × F64 × Int × Int) :=
  match s.splitOn ":" with
  | [k, a, i, d] => do pure (← parseNat? k, ← parseF64? a, ← parseInt? i, ← parseInt? d)
  | _ => none

def handleTurn (args res : List String) : String :=
  match args, res with
  | [ptsS, rotsS], [t0, fwS, rvS, rtS, invS, irtS] =>
    match parsePts? ptsS, parseDots? rotsS, parseF64s? fwS, parseF64s? rvS with
    | some pts, some rots, some fw, some rv =>
      let n := pts.size
      if n < 3 || fw.size != n || rv.size != n then "bad c18turn-sizes" else
      let ta (a b c : Nat) : F64 :=
        let p := (b + n - 1) % n
        let q := (b + 1) % n
        if a == p && c == q then fw[b]! else if a == q && c == p then rv[b]! else F64.nan
      let env : TurnEnv Nat F64 := f64TurnEnv (fun a b => v3lt pts[a]! pts[b]!) ta (fun _ => false)
      let base := List.range n
      let tokOf (l : List Nat) : String := turnTok (turningAngle env l) (canonicalFirstVertex env l)
      let inv := invert base
      let rotToks (l : List Nat) : String :=
        if rots.isEmpty then "-" else
          ";".intercalate (rots.map fun k => toString k ++ ":" ++ tokOf (rotate l k))
      let model := [tokOf base, fwS, rvS, rotToks base, tokOf inv, rotToks inv]
      -- the property on the implementation's own numbers
      let prop : Option String :=
        match parseTurnTok? t0, parseTurnTok? invS, (semis rtS).mapM parseRotTok?, (semis irtS).mapM parseRotTok? with
        | some (a0, _, _), some (ai, _, _), some rl, some irl =>
          if a0.isNaN then some "nan" else
          match rl.find? (fun r => r.2.1.bits != a0.bits) with
          | some r => some s!"rot k={r.1}"
          | none =>
            if ai.bits != (F64.neg a0).bits then some "inv" else
            match irl.find? (fun r => r.2.1.bits != (F64.neg a0).bits) with
            | some r => some s!"inv-rot k={r.1}"
            | none => none
        | _, _, _, _ => some "unparsable-result"
      verdictP model res prop
    | _, _, _, _ => "bad c18turn-args"
  | _, _ => "bad c18turn-arity"

/-! ### c18ta3 -/

def handleTa3 (res : List String) : String :=
  match res.mapM parseF64? with
  | some [x, y] => if y.bits == (F64.neg x).bits && !x.isNaN then "ok" else "propfail turnangle-antisym"
  | _ => "bad c18ta3"

/-! ### c18area -/

structure AreaRec where
  raw : F64
  maxErr : F64
  lngLen : F64
  ta : F64
  isNorm : Bool
  area : F64

def parseAreaRec? (s : String) : Option AreaRec :=
  match s.splitOn ":" with
  | [a, b, c, d, e, f] => do
    pure ⟨← parseF64? a, ← parseF64? b, ← parseF64? c, ← parseF64? d, ← parseBool? e, ← parseF64? f⟩
  | _ => none

def modelAreaTok (n : Nat) (r : AreaRec) : String :=
  let me := turningAngleMaxError n
  let isn := isNormalized f64AreaEnv r.lngLen r.ta me
  let ar := loopArea f64AreaEnv n false r.raw me isn
  ":".intercalate [showF64 r.raw, showF64 me, showF64 r.lngLen, showF64 r.ta, showBool isn, showF64 ar]

def parseKV? (s : String) : Option (Nat × F64) :=
  match s.splitOn ":" with
  | [k, v] => do pure (← parseNat? k, ← parseF64? v)
  | _ => none

/-- exact containment of `p` in the loop with vertex list `vs` (crossing parity from OriginPoint, exact
    orientation predicate with the library's symbolic perturbation) -/
def exactContains (vs : Array V3) (p : V3) : Bool :=
  let xs := vs.map C04.mkXP
  S2.Contain.bruteContains C04.fastGeo C04.originXP (S2.Contain.mkLoop C04.fastGeo C04.originXP xs) (C04.mkXP p)

/-- every vertex satisfies `v·c ≥ t|v||c|` (t > 0), decided exactly -/
def capHolds (vs : Array V3) (c : V3) (t : Rat) : Bool :=
  let ic := ofV3 c
  let nc : Rat := (ic.norm2 : Int)
  t > 0 && vs.all fun v =>
    let iv := ofV3 v
    let d : Int := iv.dot ic
    d > 0 && ((d * d : Int) : Rat) ≥ t * t * ((iv.norm2 : Int) : Rat) * nc

def circDist (x y : Rat) : Rat :=
  let d := absR (x - y)
  let e := absR (4 * piLo - d)
  if d ≤ e then d else e

def firstSome (l : List (Option String)) : Option String := l.findSome? id

def handleArea (args res : List String) : String :=
  match args, res with
  | [ptsS, _rotsS, capS, starS, _apS], [nS, lS, iS, rtS, ftS, stS] =>
    match parsePts? ptsS, parseNat? nS, parseAreaRec? lS, parseAreaRec? iS,
          (semis rtS).mapM parseKV?, (semis ftS).mapM parseKV? with
    | some pts, some n, some L, some I, some rts, some fts =>
      if n != pts.size then "bad c18area-n" else
      let model := [nS, modelAreaTok n L, modelAreaTok n I, rtS, ftS, stS]
      let E := tolE n
      let a := val L.area
      let ai := val I.area
      let twoPiHi := 2 * piHi
      let twoPiLo := 2 * piLo
      let rangeOK (x : F64) : Bool := F64.le (F64.zero false) x && F64.le x f64FourPi
      let normOK (r : AreaRec) : Bool :=
        if r.isNorm then val r.area ≤ twoPiHi + E else val r.area ≥ twoPiLo - E
      let capCheck : Option String :=
        if capS == "-" then none else
        match capS.splitOn "/" with
        | [cS, tS] =>
          match parsePt? cS, parseF64? tS with
          | some c, some tF =>
            let t := val tF
            if !capHolds pts c t then some "bad-cap-hypothesis" else
            let w := V3.neg c
            let inL := exactContains pts w
            let inI := exactContains pts.reverse w
            let capA := 2 * piHi * (1 - t) * (1 + 1 / 1000000000)
            let side (inside : Bool) (x : Rat) : Bool :=
              if inside then x ≥ 4 * piLo - capA - E else x ≤ capA + E
            if inL == inI then some "contain-complement"
            else if !side inL a then some s!"contain loop inside={inL}"
            else if !side inI ai then some s!"contain inverse inside={inI}"
            else none
          | _, _ => some "bad-cap-token"
        | _ => some "bad-cap-token"
      let starCheck : Option String :=
        if starS == "-" || stS == "-" then none else
        match parseF64? stS with
        | some s =>
          let target := if starS.startsWith "+" then a else ai
          if absR (val s - target) ≤ 2 * E then none else some "star"
        | none => some "bad-star-token"
      let prop := firstSome [
        (if finite L.area && finite I.area then none else some "nan"),
        (if rangeOK L.area && rangeOK I.area then none else some "range"),
        (if near4Pi (a + ai) (2 * E) then none else some "complement"),
        (rts.find? (fun r => !(finite r.2 && absR (val r.2 - a) ≤ 2 * E))).map (fun r => s!"rotation k={r.1}"),
        (fts.find? (fun r => !(finite r.2 && circDist (val r.2) a ≤ 2 * E))).map (fun r => s!"fan apex={r.1}"),
        starCheck,
        (if normOK L && normOK I then none else some "normalized"),
        capCheck]
      verdictP model res prop
    | _, _, _, _, _, _ => "bad c18area-args"
  | _, _ => "bad c18area-arity"

/-! ### c18cent -/

def handleCent (args res : List String) : String :=
  match args, res with
  | [ptsS, capS, sgS], [cS, ciS, aS] =>
    match parsePts? ptsS, capS.splitOn "/", parsePt? cS, parsePt? ciS, parseF64? aS with
    | some pts, [ccS, tS], some C, some CI, some aF =>
      match parsePt? ccS, parseF64? tS with
      | some c, some tF =>
        let n := pts.size
        let t := val tF
        if !capHolds pts c t then "bad cap-hypothesis" else
        if !(finite3 C && finite3 CI) then "propfail nan" else
        let E := 10 * tolE n
        let a := val aF
        let sg : Rat := if sgS == "+" then 1 else -1
        let vx := val C.x; let vy := val C.y; let vz := val C.z
        let cx := val c.x; let cy := val c.y; let cz := val c.z
        let dotc := sg * (vx * cx + vy * cy + vz * cz)
        let n2 := vx * vx + vy * vy + vz * vz
        let c2 := cx * cx + cy * cy + cz * cz
        let m := if a ≤ 4 * piHi - a then a else 4 * piHi - a
        let bound := m * (1 + 1 / 1000000000) + E
        -- cone: dotc ≥ t(1-1e-6)|C||c| − E|c|   (|c| ≤ 1.001), tested on squares when the rhs is positive
        let t' := t * (1 - 1 / 1000000)
        let coneOK : Bool :=
          dotc + 2 * E ≥ 0 &&
          ((dotc + 2 * E) * (dotc + 2 * E) ≥ t' * t' * n2 * c2)
        let invOK : Bool :=
          absR (val CI.x + vx) ≤ E && absR (val CI.y + vy) ≤ E && absR (val CI.z + vz) ≤ E
        if !(n2 ≤ bound * bound) then "propfail norm"
        else if !coneOK then "propfail cone"
        else if !invOK then "propfail inverse"
        else "ok"
      | _, _ => "bad c18cent-cap"
    | _, _, _, _, _ => "bad c18cent-args"
  | _, _ => "bad c18cent-arity"

/-! ### c18parea -/

def parsePLoop? (s : String) : Option (PLoop F64 V3) :=
  match s.splitOn ":" with
  | [d, a, c] => do pure ⟨← parseNat? d, ← parseF64? a, ← parsePt? c⟩
  | _ => none

def handlePArea (args res : List String) : String :=
  match args, res with
  | [specS], [lsS, aS, _cS, aiS] =>
    match (semis lsS).mapM parsePLoop?, parseF64? aS, parseF64? aiS, (specS.splitOn "/").mapM parsePts? with
    | some ls, some aF, some aiF, some loops =>
      let model := [lsS, showF64 (f64PolygonArea ls), showPt (f64PolygonCentroid ls), aiS]
      let n := (loops.map Array.size).foldl (· + ·) 0
      let E := tolE n
      let a := val aF
      let ai := val aiF
      let prop := firstSome [
        (if finite aF && finite aiF then none else some "nan"),
        (if -E ≤ a && a ≤ 4 * piHi + E && -E ≤ ai && ai ≤ 4 * piHi + E then none else some "range"),
        (if near4Pi (a + ai) (2 * E) then none else some "complement")]
      verdictP model res prop
    | _, _, _, _ => "bad c18parea-args"
  | _, _ => "bad c18parea-arity"

/-! ### c18surf -/

/-- `π − maxLength` enclosure and the squared cosine threshold: `Angle > maxLength ⇔ cos < −cos(π − maxLength)` -/
def deltaLo : Rat := piLo - val maxLengthF
def deltaHi : Rat := piHi - val maxLengthF
def cosSqLo : Rat := let x := deltaHi; let c := 1 - x * x / 2; c * c
def cosSqHi : Rat := let x := deltaLo; let c := 1 - x * x / 2 + x * x * x * x / 24; c * c

/-- +1: `a.Angle(b) > maxLength` for certain, −1: `< maxLength` for certain, 0: within 1e-15 (relative, in
    cos²) of the threshold — not decided -/
def angleVsMax (a b : V3) : Int :=
  let ia := ofV3 a
  let ib := ofV3 b
  let d : Int := ia.dot ib
  if d ≥ 0 then -1 else
  let lhs : Rat := ((d * d : Int) : Rat)
  let nn : Rat := ((ia.norm2 * ib.norm2 : Int) : Rat)
  let m : Rat := 1 / 1000000000000000
  if lhs > cosSqHi * (1 + m) * nn then 1
  else if lhs < cosSqLo * (1 - m) * nn then -1
  else 0

/-- `Point.PointCross` -/
def pointCross (p op : V3) : V3 := S2.EdgeNum.pointCross p op

abbrev Trace := List (V3 × V3 × V3)

def surfEnv (tbl : List ((V3 × V3 × V3) × F64)) : SurfEnv V3 (F64 × Trace) :=
  { f := fun a b c =>
      let v := match tbl.find? (fun e => e.1.1 == a && e.1.2.1 == b && e.1.2.2 == c) with
        | some e => e.2
        | none => F64.nan
      (v, [(a, b, c)]),
    add := fun s t => (F64.add s.1 t.1, s.2 ++ t.2),
    zero := (F64.zero false, []),
    eqP := V3.feq,
    angleGt := fun a b => angleVsMax a b == 1,
    angleLt := fun a b => angleVsMax a b == -1,
    crossNormalize := fun a b => (pointCross a b).normalize,
    cross := fun a b => a.cross b }

def parseTri? (s : String) : Option ((V3 × V3 × V3) × F64) :=
  match s.splitOn "=" with
  | [t, v] =>
    match t.splitOn ";" with
    | [a, b, c] => do pure ((← parsePt? a, ← parsePt? b, ← parsePt? c), ← parseF64? v)
    | _ => none
  | _ => none

def showTri (t : (V3 × V3 × V3) × F64) : String :=
  showPt t.1.1 ++ ";" ++ showPt t.1.2.1 ++ ";" ++ showPt t.1.2.2 ++ "=" ++ showF64 t.2

def handleSurf (args res : List String) : String :=
  match args, res with
  | [ptsS], [sumS, trS] =>
    match parsePts? ptsS, parseF64? sumS, (if trS == "-" then some [] else (trS.splitOn "|").mapM parseTri?) with
    | some pts, some _, some tbl =>
      if pts.size < 3 then "bad c18surf-size" else
      let env := surfEnv tbl
      let r := surfaceIntegral env pts.toList
      -- is any (vertex, origin) angle too close to the threshold to be decided?
      let origins := (r.2.map (·.1)).eraseDups
      let ambiguous := origins.any fun o => pts.any fun v => angleVsMax v o == 0
      if ambiguous then "ok" else
      let look (t : V3 × V3 × V3) : F64 :=
        match tbl.find? (fun e => e.1 == t) with | some e => e.2 | none => F64.nan
      let model := [showF64 r.1, if r.2.isEmpty then "-" else "|".intercalate (r.2.map fun t => showTri (t, look t))]
      verdict model res
    | _, _, _ => "bad c18surf-args"
  | _, _ => "bad c18surf-arity"

def handle (op : String) (args res : List String) : Option String :=
  match op with
  | "c18const" => some (handleConst res)
  | "c18turn" => some (handleTurn args res)
  | "c18ta3" => some (handleTa3 res)
  | "c18area" => some (handleArea args res)
  | "c18cent" => some (handleCent args res)
  | "c18parea" => some (handlePArea args res)
  | "c18surf" => some (handleSurf args res)
  | _ => none

end Oracle.C18
