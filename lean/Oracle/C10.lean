/-
  Oracle.C10 — exact judge for C10 (bounds are conservative; convex hull).

  Membership of a probe in the region is decided EXACTLY:
    loop / polygon   crossing parity with the exact orientation predicate (`S2.Contain` over `Oracle.C04.fastGeo`)
    polyline         exact collinearity (integer determinant = 0) and betweenness with an edge, or equal to a vertex
    cap              exact |p - c|² ≤ radius (integer arithmetic) AND the library's own float `ContainsPoint`
    cell             exact test of the closed uv-rectangle on the cell's face (integer arithmetic)
  For every probe that IS in the region, with the library's own `LatLngFromPoint(p)` passed on the line:
    clause `rect`     `Rect.ContainsLatLng` (soft-float model of s2.Rect, the float comparisons of the code)
    clause `cap`      `Cap.ContainsPoint` exactly as the code computes it (soft-float `ChordAngleBetweenPoints`)
    clause `capexact` the exact chord² comparison, with the relative slack `capSlack` (the radius of a cap built
                      by `AddPoint` is a ROUNDED chord², so an exact comparison without slack would only
                      re-discover that rounding; the slack is 4 ulps of the larger of radius and 2^-100)
    clause `cells`    the leaf cell of the probe (`cellIDFromPoint`, soft-float) lies in a cell of `CellUnionBound`
  Model = implementation comparisons (verdict `diff`):
    `Loop.initBound` pole logic and `Invert` (S2.Bounds.poleAdjust / invertBound on the RectBounder result and the
    EXACT pole containment), `ExpandForSubregions` (bit-exact float model), polygon bound = union of the
    non-hole loop bounds, cell-union rect bound = union of the cell bounds, and the whole `ConvexHull`
    (`S2.Bounds.convexHull` over the exact orientation, with the library's `origin`).
  Verdicts name ONE primary clause (`propfail <clause> [also=<c2>,<c3>] details`; priority rect > caprect > cells > cap >
  capexact; then `sub-not-superset` / `subregion`; hull: panic > short > dupvertex > convex > contain > emptyhull).
  Ops `x#` (op name followed by `#`) answer like `x` but append `in=<inside>/<probes>` to an `ok` (for measuring).
-/
import Oracle.Basic
import Oracle.C04
import S2.Bounds
import S2.Interval
import S2.CellID
import S2.STUV
namespace Oracle.C10
open Oracle S2 S2.Exact S2.Contain Oracle.C04 S2.Bounds
open S2.IvlF64

/-! ### parsing -/

def parseF4? (s : String) : Option (F64 × F64 × F64 × F64) :=
  match s.splitOn "," with
  | [a, b, c, d] => do pure (← parseF64? a, ← parseF64? b, ← parseF64? c, ← parseF64? d)
  | _ => none

def parseRect? (s : String) : Option (LLRect F64) :=
  (parseF4? s).map fun (a, b, c, d) => ⟨⟨a, b⟩, ⟨c, d⟩⟩

def parseRects? (s : String) : Option (List (LLRect F64)) :=
  if s == "-" then some [] else (s.splitOn ";").mapM parseRect?

structure CapM where
  c : V3
  r : F64

def parseCap? (s : String) : Option CapM :=
  (parseF4? s).map fun (a, b, c, d) => ⟨⟨a, b, c⟩, d⟩

def parseCaps? (s : String) : Option (List CapM) :=
  if s == "-" then some [] else (s.splitOn ";").mapM parseCap?

def parseLL? (s : String) : Option (LatLng F64) :=
  match s.splitOn "," with
  | [a, b] => do pure ⟨← parseF64? a, ← parseF64? b⟩
  | _ => none

def parseLLs? (s : String) : Option (Array (LatLng F64)) :=
  if s == "-" then some #[] else ((s.splitOn ";").mapM parseLL?).map List.toArray

def parseCells? (s : String) : Option (List UInt64) := parseList? parseU64? s

def showRect (r : LLRect F64) : String :=
  ",".intercalate [showF64 r.lat.lo, showF64 r.lat.hi, showF64 r.lng.lo, showF64 r.lng.hi]

def showPt (p : XP) : String := ",".intercalate (showV3 p.v)

def parseLoops? (s : String) : Option (List (Array XP)) := (s.splitOn "/").mapM parsePts?

/-! ### judging the bounds on one probe -/

def rectEq (a b : LLRect F64) : Bool :=
  a.lat.lo.bits == b.lat.lo.bits && a.lat.hi.bits == b.lat.hi.bits &&
  a.lng.lo.bits == b.lng.lo.bits && a.lng.hi.bits == b.lng.hi.bits

/-- `Cap.ContainsPoint(p)` as computed: `ChordAngleBetweenPoints(c.center, p) <= c.radius` -/
def capContainsFloat (c : CapM) (p : V3) : Bool :=
  F64.le (F64.fmin F64.four ((c.c.sub p).norm2)) c.r

/-- exact `min(4, |c - p|²) ≤ r + slack` ; values at scale 2^1074 (squares at 2^2148) -/
def capContainsExact (c : CapM) (p : V3) (slackUlps : Nat) : Bool :=
  if F64.lt c.r (F64.zero false) then false else
  let d := (ofV3 c.c).sub (ofV3 p)
  let n2 := d.norm2
  let four : Int := 4 * (scale : Int) * (scale : Int)
  let lhs := if n2 < four then n2 else four
  -- one ulp of max(r, 2^-100)
  let rr := if F64.lt c.r ⟨0x39b0000000000000⟩ then (⟨0x39b0000000000000⟩ : F64) else c.r
  let ulp : Int := toInt (F64.nextafter rr (F64.inf false)) - toInt rr
  decide (lhs ≤ (toInt c.r + (slackUlps : Int) * ulp) * (scale : Int))

def capSlack : Nat := 4

def cellsCover (cells : List UInt64) (p : V3) : Bool :=
  let leaf := STUV.cellIDFromPoint p
  cells.any fun c => CellID.contains c leaf

structure Bounds where
  /-- name of the rectangle clause (`rect`, or `caprect` for Cap.RectBound) -/
  rname : String := "rect"
  rect : LLRect F64
  cap : Option CapM
  cells : Option (List UInt64)

/-- smallest slack (in ulps of the radius, from a fixed ladder) that makes the exact comparison hold -/
def capNeed (c : CapM) (p : V3) : String :=
  match [1, 2, 4, 8, 16, 64, 256, 4096, 1048576].find? (fun k => capContainsExact c p k) with
  | some k => s!"{k}ulp"
  | none => "big"

/-- violated clauses for a probe inside the region (with a diagnostic for the cap clauses) -/
def judgeProbe (B : Bounds) (p : XP) (ll : LatLng F64) : List (String × String) :=
  (if B.rect.containsLatLng ll then [] else [(B.rname, "")]) ++
  (match B.cap with
    | some c =>
      if !(capContainsFloat c p.v) then [("cap", "need=" ++ capNeed c p.v)]
      else if !(capContainsExact c p.v capSlack) then [("capexact", "need=" ++ capNeed c p.v)]
      else []
    | none => []) ++
  (match B.cells with
    | some cs => if cellsCover cs p.v then [] else [("cells", "")]
    | none => [])

/-- fixed priority of the per-probe clauses: the verdict names the first violated one as THE clause -/
def clausePriority : List String := ["rect", "caprect", "cells", "cap", "capexact"]

/-- run over all probes; returns (violated clauses with the first witness of each, number inside) -/
def judgeAll (B : Bounds) (inside : XP → Bool) (probes : Array XP) (lls : Array (LatLng F64)) :
    Option String × Nat := Id.run do
  let mut fails : List (String × String) := []
  let mut cnt := 0
  for i in [0:probes.size] do
    let p := probes[i]!
    if inside p then
      cnt := cnt + 1
      for (cl, diag) in judgeProbe B p lls[i]! do
        if !(fails.any fun f => f.1 == cl) then
          fails := fails ++ [(cl, s!"{cl}: i={i} p={showPt p} ll={showF64 lls[i]!.lat},{showF64 lls[i]!.lng} {diag}")]
  if fails.isEmpty then return (none, cnt)
  -- ONE primary clause (the first in the fixed priority order `clausePriority`), the others as `also=`
  let ordered := clausePriority.filterMap fun c => fails.find? (fun f => f.1 == c)
  let ordered := ordered ++ fails.filter (fun f => !clausePriority.contains f.1)
  match ordered with
  | [] => return (none, cnt)
  | f :: rest =>
    let also := if rest.isEmpty then "" else " also=" ++ ",".intercalate (rest.map (·.1))
    return (some (f.1 ++ also ++ " " ++ " | ".intercalate (ordered.map (·.2))), cnt)

def finish (stat : Bool) (fail : Option String) (diffs : List String) (cnt n : Nat) : String :=
  match fail with
  | some f => "propfail " ++ f ++ (if diffs.isEmpty then "" else " model=" ++ " ".intercalate diffs)
  | none =>
    if !diffs.isEmpty then "diff " ++ " ".intercalate diffs
    else if stat then s!"ok in={cnt}/{n}" else "ok"

/-! ### regions -/

def northXP : XP := mkXP ⟨F64.zero false, F64.zero false, F64.one⟩
def southXP : XP := mkXP ⟨F64.zero false, F64.zero false, -F64.one⟩

def loopKind (L : LoopM XP) : LoopKind :=
  if L.isEmptyOrFull then (if L.originInside then .full else .empty) else .normal

def loopIn (L : LoopM XP) (p : XP) : Bool := bruteContains fastGeo originXP L p

/-- `Loop.initBound` given the RectBounder result (the pole answers are the exact ones) -/
def modelLoopRect (L : LoopM XP) (rb : Option (LLRect F64)) : Option (LLRect F64) :=
  match loopKind L with
  | .empty => some LLRect.empty
  | .full => some LLRect.full
  | .normal => rb.map fun b => poleAdjust b (loopIn L northXP) (loopIn L southXP)

/-- exact: p on the closed edge a→b (a, b not antipodal) -/
def onEdge (a b p : XP) : Bool :=
  if p.iv.isZero then false
  else if xpEq a b then ((a.iv.cross p.iv).isZero && decide (a.iv.dot p.iv > 0))
  else
    let n := a.iv.cross b.iv
    decide (n.dot p.iv = 0) && decide ((a.iv.cross p.iv).dot n ≥ 0) && decide ((p.iv.cross b.iv).dot n ≥ 0) &&
      !n.isZero

def onChain (vs : Array XP) (p : XP) : Bool :=
  vs.any (fun v => xpEq v p) ||
  (let l := vs.toList
   (l.zip l.tail).any fun (a, b) => onEdge a b p)

/-- exact uv-rectangle test on face `f` -/
def inCell (f : Nat) (uv : F64 × F64 × F64 × F64) (p : V3) : Bool :=
  let (ulo, uhi, vlo, vhi) := uv
  let X := toInt p.x; let Y := toInt p.y; let Z := toInt p.z
  -- (nu, nv, w, wPositive)
  let (nu, nv, w, pos) : Int × Int × Int × Bool := match f with
    | 0 => (Y, Z, X, true)
    | 1 => (-X, Z, Y, true)
    | 2 => (-X, -Y, Z, true)
    | 3 => (Z, Y, X, false)
    | 4 => (Z, -X, Y, false)
    | _ => (-Y, -X, Z, false)
  let S : Int := scale
  -- u = nu / w compared with bound b = B / S :  (w > 0)  nu*S ≥ B*w ; (w < 0) nu*S ≤ B*w
  let ge (n : Int) (b : F64) : Bool := if pos then decide (n * S ≥ toInt b * w) else decide (n * S ≤ toInt b * w)
  let le (n : Int) (b : F64) : Bool := if pos then decide (n * S ≤ toInt b * w) else decide (n * S ≥ toInt b * w)
  (if pos then decide (w > 0) else decide (w < 0)) && ge nu ulo && le nu uhi && ge nv vlo && le nv vhi

def parseUV? (s : String) : Option (Nat × (F64 × F64 × F64 × F64)) :=
  match s.splitOn ":" with
  | [f, r] => do pure (← parseNat? f, ← parseF4? r)
  | _ => none

/-! ### convex hull -/

def hullSgn (a b c : XP) : Int := fastRS a b c

def isVertexOfL (vs : List XP) (p : XP) : Bool := vs.any fun v => xpEq v p

def cyclicPairs (vs : List XP) : List (XP × XP) := loopEdges vs

def cyclicTriples (vs : List XP) : List (XP × XP × XP) :=
  match vs with
  | a :: b :: _ => (vs.zip ((vs.tail ++ [a]).zip (vs.tail.tail ++ [a, b])))
  | _ => []

/-- exact sign of the plain determinant (no perturbation): weakly left = ≥ 0 -/
def detSgn (a b c : XP) : Int := sgn (det3 a.iv b.iv c.iv)

def judgeHull (hull : List XP) (pts : List XP) : Option String :=
  if hull.length < 3 then some "short"
  else if (hull.zipIdx.any fun (v, i) => (hull.drop (i + 1)).any fun w => xpEq v w) then some "dupvertex"
  else
    match (cyclicTriples hull).find? (fun (a, b, c) => hullSgn a b c != 1) with
    | some (a, b, _) => some s!"convex at={showPt a};{showPt b}"
    | none =>
      let edges := cyclicPairs hull
      match pts.find? (fun p => !(isVertexOfL hull p) && edges.any (fun (a, b) => detSgn a b p < 0)) with
      | some p => some s!"contain p={showPt p}"
      | none => none

def showPts (l : List XP) : String := if l.isEmpty then "-" else ";".intercalate (l.map showPt)

def parseIdx? (s : String) : Option (List Nat) := parseDots? s

/-! ### handlers -/

def handleLoop (stat : Bool) (args res : List String) : String :=
  match args, res with
  | [mode, vsT, prT], [rbT, r0T, rectT, subT, capT, cellsT, llsT] =>
    match parsePts? vsT, parsePts? prT, parseRect? rectT, parseRect? subT, parseCap? capT, parseCells? cellsT, parseLLs? llsT with
    | some vs, some probes, some rect, some sub, some cap, some cells, some lls =>
      if lls.size != probes.size then "bad lls" else
      let L0 := mkL vs
      let L := if mode == "I" then invertL L0 else L0
      let rb := if rbT == "-" then none else parseRect? rbT
      let base := modelLoopRect L rb
      let mrect : Option (LLRect F64) :=
        if mode == "I" then
          match parseRect? r0T with
          | some r0 =>
            if F64.lt (IvlOps.negHalfPi : F64) r0.lat.lo && F64.lt r0.lat.hi (IvlOps.halfPi : F64) then some LLRect.full else base
          | none => none
        else base
      let d1 := match mrect with
        | some m => if rectEq m rect then [] else ["rect=" ++ showRect m]
        | none => ["rect=?"]
      let msub := SubF64.expandForSubregionsF64 rect
      let d2 := if rectEq msub sub then [] else ["sub=" ++ showRect msub]
      let (fail, cnt) := judgeAll ⟨"rect", rect, some cap, some cells⟩ (loopIn L) probes lls
      -- the sub-region bound must contain the bound itself
      let fail := match fail with
        | some f => some f
        | none => if sub.contains rect then none else some "sub-not-superset"
      finish stat fail (d1 ++ d2) cnt probes.size
    | _, _, _, _, _, _, _ => "bad bndloop-args"
  | _, _ => "bad bndloop-arity"

def handlePoly (stat : Bool) (args res : List String) : String :=
  match args, res with
  | [lsT, prT], [ordT, holesT, _depthsT, lrT, rectT, capT, cellsT, llsT] =>
    match parseLoops? lsT, parsePts? prT, parseIdx? ordT, parseFlags? holesT, parseRects? lrT, parseRect? rectT,
      parseCap? capT, parseCells? cellsT, parseLLs? llsT with
    | some ls, some probes, some order, some holes, some lrects, some rect, some cap, some cells, some lls =>
      if lls.size != probes.size then "bad lls" else
      let loops := (ls.map mkL).toArray
      if order.length != holes.length || order.length != lrects.length || order.any (· ≥ loops.size) then "bad order" else
      let pg : PolygonM XP := (order.zip holes).map fun (k, h) => ⟨loops[k]!, h⟩
      let m := polygonBound (holes.zip lrects)
      let d1 := if rectEq m rect then [] else ["rect=" ++ showRect m]
      let (fail, cnt) := judgeAll ⟨"rect", rect, some cap, some cells⟩ (polygonContains fastGeo originXP pg) probes lls
      finish stat fail d1 cnt probes.size
    | _, _, _, _, _, _, _, _, _ => "bad bndpoly-args"
  | _, _ => "bad bndpoly-arity"

def handleLine (stat : Bool) (args res : List String) : String :=
  match args, res with
  | [vsT, prT], [rectT, capT, cellsT, llsT] =>
    match parsePts? vsT, parsePts? prT, parseRect? rectT, parseCap? capT, parseCells? cellsT, parseLLs? llsT with
    | some vs, some probes, some rect, some cap, some cells, some lls =>
      if lls.size != probes.size then "bad lls" else
      let (fail, cnt) := judgeAll ⟨"rect", rect, some cap, some cells⟩ (onChain vs) probes lls
      finish stat fail [] cnt probes.size
    | _, _, _, _, _, _ => "bad bndline-args"
  | _, _ => "bad bndline-arity"

def handleCap (stat : Bool) (args res : List String) : String :=
  match args, res with
  | [capT, prT], [rectT, cellsT, inT, llsT] =>
    match parseCap? capT, parsePts? prT, parseRect? rectT, parseCells? cellsT, parseFlags? inT, parseLLs? llsT with
    | some cap, some probes, some rect, some cells, some goIn, some lls =>
      if lls.size != probes.size || goIn.length != probes.size then "bad lls" else
      -- model of Cap.ContainsPoint vs implementation
      let mIn := probes.toList.map fun p => capContainsFloat cap p.v
      let d1 := if mIn == goIn then [] else ["contains=" ++ String.join (mIn.map showBool)]
      let inside (p : XP) : Bool := capContainsFloat cap p.v && capContainsExact cap p.v 0
      let (fail, cnt) := judgeAll ⟨"caprect", rect, none, some cells⟩ inside probes lls
      finish stat fail d1 cnt probes.size
    | _, _, _, _, _, _ => "bad bndcap-args"
  | _, _ => "bad bndcap-arity"

def handleCell (stat : Bool) (args res : List String) : String :=
  match args, res with
  | [_idT, prT], [fT, uvT, rectT, capT, cellsT, llsT] =>
    match parsePts? prT, parseNat? fT, parseF4? uvT, parseRect? rectT, parseCap? capT, parseCells? cellsT, parseLLs? llsT with
    | some probes, some f, some uv, some rect, some cap, some cells, some lls =>
      if lls.size != probes.size then "bad lls" else
      let (fail, cnt) := judgeAll ⟨"rect", rect, some cap, some cells⟩ (fun p => inCell f uv p.v) probes lls
      finish stat fail [] cnt probes.size
    | _, _, _, _, _, _, _ => "bad bndcell-args"
  | _, _ => "bad bndcell-arity"

def handleCU (stat : Bool) (args res : List String) : String :=
  match args, res with
  | [_idsT, prT], [uvsT, crT, _ccT, rectT, capT, cellsT, llsT] =>
    let uvs? : Option (List (Nat × (F64 × F64 × F64 × F64))) :=
      if uvsT == "-" then some [] else (uvsT.splitOn ";").mapM parseUV?
    match parsePts? prT, uvs?, parseRects? crT, parseRect? rectT, parseCap? capT, parseCells? cellsT, parseLLs? llsT with
    | some probes, some uvs, some crects, some rect, some cap, some cells, some lls =>
      if lls.size != probes.size then "bad lls" else
      let m := crects.foldl (fun acc r => acc.union r) LLRect.empty
      let d1 := if rectEq m rect then [] else ["rect=" ++ showRect m]
      let inside (p : XP) : Bool := uvs.any fun (f, uv) => inCell f uv p.v
      let (fail, cnt) := judgeAll ⟨"rect", rect, some cap, some cells⟩ inside probes lls
      finish stat fail d1 cnt probes.size
    | _, _, _, _, _, _, _ => "bad bndcu-args"
  | _, _ => "bad bndcu-arity"

def handleSub (stat : Bool) (args res : List String) : String :=
  match args, res with
  | [aT, bT], [raT, rbT, subT] =>
    match parsePts? aT, parsePts? bT, parseRect? raT, parseRect? rbT, parseRect? subT with
    | some va, some vb, some ra, some rb, some sub =>
      let A := mkL va
      let B := mkL vb
      -- exact nesting: every vertex of B inside A, no pair of edges touches, vertex 0 of A outside B
      let ea := loopEdges va.toList
      let eb := loopEdges vb.toList
      let nested := vb.all (fun v => loopIn A v) &&
        ea.all (fun (a0, a1) => eb.all fun (b0, b1) => crossingSign fastGeo a0 a1 b0 b1 == Crossing.doNot) &&
        (match va[0]? with | some v => !loopIn B v | none => false)
      if !nested then "bad notnested" else
      let msub := SubF64.expandForSubregionsF64 ra
      let d := if rectEq msub sub then [] else ["sub=" ++ showRect msub]
      let pole := loopIn A northXP || loopIn A southXP
      let fail := if pole then none else if sub.contains rb then none else some "subregion"
      finish stat fail d (if pole then 0 else 1) 1
    | _, _, _, _, _ => "bad bndsub-args"
  | _, _ => "bad bndsub-arity"

def handleHull (stat : Bool) (args res : List String) : String :=
  match args, res with
  | [kind, geomT], [hullT, originT, ncT, shellsT] =>
    let lists? : Option (List (Array XP)) := if geomT == "-" then some [] else parseLoops? geomT
    match lists?, parsePt? originT, parseBool? ncT, parseIdx? shellsT with
    | some lists, some origin, some notConvex, some shells =>
      -- the input points in the order the query stores them
      let pts : List XP :=
        if kind == "L" then lists.flatMap fun l => if l.size == 1 then [] else l.toList
        else if kind == "G" then shells.flatMap fun k => match lists[k]? with
          | some l => if l.size == 1 then [] else l.toList
          | none => []
        else lists.flatMap fun l => l.toList
      -- every vertex of the input must be accounted for by the hull (polygons: every loop vertex)
      let allPts : List XP := lists.flatMap fun l => if (kind == "L" || kind == "G") && l.size == 1 then [] else l.toList
      let model := convexHull hullSgn xpEq notConvex origin pts
      -- the sort is only determined when `RobustSign(origin, ·, ·) == CCW` is a strict total order on the
      -- distinct points (it is not when a point equals / is antipodal to `origin`, or two points are
      -- antipodal): otherwise the model comparison is skipped (the judge below still applies)
      let sorted := sortAround hullSgn origin (dedupBy xpEq pts)
      let rec pairwise : List XP → Bool
        | [] => true
        | a :: rest => rest.all (fun b => lessAround hullSgn origin a b && !lessAround hullSgn origin b a) && pairwise rest
      let sortOK := notConvex || pairwise sorted
      if hullT == "full" then
        let d := match model with
          | .full => []
          | .edge a b => if (a.iv.add b.iv).isZero then [] else ["hull=edge"]
          | .empty => ["hull=empty"]
          | .single _ => ["hull=single"]
          | .loop vs => ["hull=" ++ showPts vs]
        finish stat none (if sortOK then d else []) 0 allPts.length
      else if hullT == "empty" then
        let fail := if allPts.isEmpty then none else some "emptyhull"
        let d := match model with | .empty => [] | _ => ["hull=nonempty"]
        finish stat fail (if sortOK then d else []) 0 allPts.length
      else
        match parsePts? hullT with
        | some hv =>
          let hull := hv.toList
          let fail := judgeHull hull allPts
          let same (a b : List XP) : Bool := a.length == b.length && (a.zip b).all fun (x, y) => xpEq x y
          let d := match model with
            | .loop vs => if same vs hull then [] else ["hull=" ++ showPts vs]
            | .single p => if hull.length == 3 && (hull.head?.map (xpEq p)).getD false then [] else ["hull=single"]
            | .edge a b => if hull.length == 3 && isVertexOfL hull a && isVertexOfL hull b then [] else ["hull=edge"]
            | .full => ["hull=full"]
            | .empty => ["hull=empty"]
          finish stat fail (if sortOK then d else []) hull.length allPts.length
        | none => "bad hull-verts"
    | _, _, _, _ => "bad hull-args"
  | _, _ => "bad hull-arity"

def handle (op : String) (args res : List String) : Option String :=
  let stat := op.endsWith "#"
  let base := if stat then (op.dropEnd 1).toString else op
  let mine := ["bndloop", "bndpoly", "bndline", "bndcap", "bndcell", "bndcu", "bndsub", "hull"].contains base
  -- a Go panic on an in-contract input is a property failure of its own
  if mine && (res.head?.map (·.startsWith "PANIC:")).getD false then
    some ("propfail panic " ++ " ".intercalate res)
  else
  match base with
  | "bndloop" => some (handleLoop stat args res)
  | "bndpoly" => some (handlePoly stat args res)
  | "bndline" => some (handleLine stat args res)
  | "bndcap" => some (handleCap stat args res)
  | "bndcell" => some (handleCell stat args res)
  | "bndcu" => some (handleCU stat args res)
  | "bndsub" => some (handleSub stat args res)
  | "hull" => some (handleHull stat args res)
  | _ => none

end Oracle.C10
