/-
  Oracle.C03 — correspondence + property judge for edge crossings and the EdgeCrosser.

  ops (Crossing values travel as +1 Cross / 0 MaybeCross / -1 DoNotCross):
    c03const                 = maxError (bit pattern; the hook re-evaluates the Go expression)
    c03new   a b             = aXb aTangent bTangent (9 floats, the fields set by NewEdgeCrosser)
    c03quad  a b c d         = CS[8] VC[8] EOV[8] st:<fast|tan|maybe|degen|slow>
        the three lists are the implementation's answers on the 8 argument orders
        (a,b,c,d) (b,a,c,d) (a,b,d,c) (b,a,d,c) (c,d,a,b) (d,c,a,b) (c,d,b,a) (d,c,b,a)
    c03acv   a b c           = AngleContainsVertex(a,b,c) AngleContainsVertex(c,b,a)
    c03hist  a b op…         = per op  <out>/<fresh stateless answer of the real code>/<acb after the call>
        op tokens:  R c | N d | S c d | E c d | F d   (RestartAt, ChainCrossingSign, CrossingSign,
        EdgeOrVertexCrossing, EdgeOrVertexChainCrossing), all on ONE crosser for edge a b;
        after the last op the 3 floats of the field `c`.

  `diff`     : the model (S2.Crossing / S2.Crosser, float fast paths bit-exact) ≠ implementation.
  `propfail` : the implementation's own output violates the property, judged in exact arithmetic:
        CrossingSign = exact four-orientation criterion (`exactCrossing`), symmetric on the 8 orders,
        MaybeCross ⇔ shared endpoint, VertexCrossing rules (1)-(4) of the Go comment,
        crosser output = fresh stateless answer = exact specification.
-/
import Oracle.Basic
import S2.Exact
import S2.Pred
import S2.Crossing
import S2.Crosser
namespace Oracle.C03
open Oracle S2 S2.Exact S2.Pred S2.Crossing

def parsePts? : List String → Option (List V3)
  | [] => some []
  | a :: b :: c :: rest => do
    let v ← parseV3? a b c
    let r ← parsePts? rest
    pure (v :: r)
  | _ => none

def showI (i : Int) : String := toString i

def firstSome (l : List (Bool × String)) : Option String :=
  (l.find? (·.1)).map (·.2)

def perms8 (a b c d : V3) : List (V3 × V3 × V3 × V3) :=
  [(a,b,c,d), (b,a,c,d), (a,b,d,c), (b,a,d,c), (c,d,a,b), (d,c,a,b), (c,d,b,a), (d,c,b,a)]

/-- which branch of the code decides `CrossingSign(a,b,c,d)` -/
def stage (a b c d : V3) : String :=
  let (aT, bT) := tangents a b
  let acb : Int := -(triageSign a b c)
  let bda := triageSign a b d
  if acb == -bda && bda != 0 then "fast"
  else if tangentReject aT bT c d then "tan"
  else if sharesEndpoint a b c d then "maybe"
  else if V3.feq a b || V3.feq c d then "degen"
  else "slow"

def sharedCount (a b c d : V3) : Nat :=
  [V3.feq a c, V3.feq a d, V3.feq b c, V3.feq b d].countP id

def allEq {α : Type} [BEq α] : List α → Bool
  | [] => true
  | x :: r => r.all (· == x)

/-! ### histories -/

def parseOps? : List String → Option (List Crosser.Op)
  | [] => some []
  | "R" :: x :: y :: z :: rest => do
    let c ← parseV3? x y z; let r ← parseOps? rest; pure (.restartAt c :: r)
  | "N" :: x :: y :: z :: rest => do
    let d ← parseV3? x y z; let r ← parseOps? rest; pure (.chainCrossingSign d :: r)
  | "F" :: x :: y :: z :: rest => do
    let d ← parseV3? x y z; let r ← parseOps? rest; pure (.edgeOrVertexChainCrossing d :: r)
  | "S" :: x :: y :: z :: u :: v :: w :: rest => do
    let c ← parseV3? x y z; let d ← parseV3? u v w; let r ← parseOps? rest
    pure (.crossingSign c d :: r)
  | "E" :: x :: y :: z :: u :: v :: w :: rest => do
    let c ← parseV3? x y z; let d ← parseV3? u v w; let r ← parseOps? rest
    pure (.edgeOrVertexCrossing c d :: r)
  | _ => none

def showOut : Crosser.Out → String
  | .none => "-"
  | .sign s => showI s
  | .bool b => showBool b

/-- exact specification of one call, given the current chain vertex -/
def exactStep (a b cur : V3) : Crosser.Op → V3 × Crosser.Out
  | .restartAt c => (c, .none)
  | .chainCrossingSign d => (d, .sign (exactCrossing a b cur d))
  | .crossingSign c d => (d, .sign (exactCrossing a b c d))
  | .edgeOrVertexCrossing c d => (d, .bool (exactEdgeOrVertexCrossing a b c d))
  | .edgeOrVertexChainCrossing d => (d, .bool (exactEdgeOrVertexCrossing a b cur d))

/-- model tokens `<out>/<stateless>/<acb>` and exact-spec outputs for a history -/
def runHist (a b : V3) : Crosser.St → V3 → List Crosser.Op → List String × List String
  | _, _, [] => ([], [])
  | e, cur, op :: rest =>
    let (e', o) := Crosser.step e op
    let (cur', so) := Crosser.specStep a b cur op
    let (_, xo) := exactStep a b cur op
    let (m, x) := runHist a b e' cur' rest
    ((showOut o ++ "/" ++ showOut so ++ "/" ++ showI e'.acb) :: m, showOut xo :: x)

def finalC (e : Crosser.St) : List Crosser.Op → V3
  | [] => e.c
  | op :: rest => finalC (Crosser.step e op).1 rest

/-- judge the implementation's own history tokens: out = stateless = exact -/
def judgeHist (i : Nat) : List String → List String → Option String
  | [], _ => none
  | _ :: _, [] => some "impl-output-arity"
  | t :: ts, x :: xs =>
    match t.splitOn "/" with
    | [o, s, _] =>
      if o != s then some ("crosser-output-differs-from-fresh-stateless-call op=" ++ toString i)
      else if o != x then some ("crosser-output-not-exact-specification op=" ++ toString i ++ " exact=" ++ x)
      else judgeHist (i + 1) ts xs
    | _ => some "unparseable"

/-! ### handler -/

def handle (op : String) (args res : List String) : Option String :=
  match op with
  | "c03const" => some (verdict [showF64 maxError] res)
  | "c03new" => do
    let ps ← parsePts? args
    match ps with
    | [a, b] =>
      let e := Crosser.init a b
      some (verdict (showV3 e.aXb ++ showV3 e.aTangent ++ showV3 e.bTangent) res)
    | _ => none
  | "c03quad" => do
    let ps ← parsePts? args
    match ps with
    | [a, b, c, d] =>
      if !(ps.all finite3) then some "bad nonfinite" else
      let P := perms8 a b c d
      let mCS := P.map fun (p : V3 × V3 × V3 × V3) => crossingSign p.1 p.2.1 p.2.2.1 p.2.2.2
      let mVC := P.map fun (p : V3 × V3 × V3 × V3) => vertexCrossing p.1 p.2.1 p.2.2.1 p.2.2.2
      let mEO := P.map fun (p : V3 × V3 × V3 × V3) => edgeOrVertexCrossing p.1 p.2.1 p.2.2.1 p.2.2.2
      let model := [showList showI mCS, showList showBool mVC, showList showBool mEO, "st:" ++ stage a b c d]
      let X := exactCrossing a b c d
      let shares := sharesEndpoint a b c d
      let degen := V3.feq a b || V3.feq c d
      let prop : Option String :=
        match res with
        | [cs, vc, eo, _] =>
          (do
            let cs ← parseList? parseInt? cs
            let vc ← parseList? parseBool? vc
            let eo ← parseList? parseBool? eo
            if cs.length != 8 || vc.length != 8 || eo.length != 8 then pure (some "impl-output-arity") else
            let cs0 := cs.headD 0
            let vc0 := vc.headD false
            let vc4 := (vc.drop 4).headD false
            let eo0 := eo.headD false
            let sameEdge := (V3.feq a c && V3.feq b d) || (V3.feq a d && V3.feq b c)
            pure (firstSome [
              (cs0 != X, "CrossingSign-not-the-exact-four-orientation-criterion"),
              (!allEq cs, "CrossingSign-not-symmetric-under-reversal-or-swap"),
              ((cs0 == 0) != shares, "MaybeCross-iff-shared-endpoint"),
              (degen && cs0 == 1, "degenerate-edge-reported-as-crossing"),
              (vc0 != exactVertexCrossing a b c d, "VertexCrossing-not-exact-orientations"),
              (degen && vc0, "VertexCrossing-rule-1-degenerate-edge-true"),
              (!degen && sameEdge && !vc0, "VertexCrossing-rule-2-identical-edges-false"),
              (!allEq (vc.take 4) || !allEq (vc.drop 4), "VertexCrossing-rule-3-reversal"),
              (!degen && sharedCount a b c d == 1 && vc0 == vc4, "VertexCrossing-rule-4-not-exactly-one"),
              (eo0 != exactEdgeOrVertexCrossing a b c d, "EdgeOrVertexCrossing-not-exact"),
              (!allEq (eo.take 4) || !allEq (eo.drop 4), "EdgeOrVertexCrossing-reversal")])).getD (some "unparseable")
        | _ => some "impl-output-arity"
      some (verdictP model res prop)
    | _ => none
  | "c03acv" => do
    let ps ← parsePts? args
    match ps with
    | [a, b, c] =>
      if !(ps.all finite3) then some "bad nonfinite" else
      if V3.feq a b || V3.feq b c then some "bad out-of-contract" else
      let model := [showBool (angleContainsVertex a b c), showBool (angleContainsVertex c b a)]
      let want := !(orderedCCWWith exactDecision (referenceDir b) c a b)
      let prop : Option String := match res with
        | [x, y] => firstSome [
            (x != showBool want, "AngleContainsVertex-not-exact-orientations"),
            (V3.feq a c && x == "T", "AngleContainsVertex-rule-1-ABA-true"),
            (!V3.feq a c && x == y, "AngleContainsVertex-rule-2-not-complementary")]
        | _ => some "impl-output-arity"
      some (verdictP model res prop)
    | _ => none
  | "c03hist" => do
    match args with
    | a0 :: a1 :: a2 :: b0 :: b1 :: b2 :: rest =>
      let a ← parseV3? a0 a1 a2
      let b ← parseV3? b0 b1 b2
      let ops ← parseOps? rest
      if !Crosser.wellFormed ops then some "bad out-of-contract-history" else
      if !(finite3 a && finite3 b && ops.all fun o => o.points.all finite3) then some "bad nonfinite" else
      let e0 := Crosser.init a b
      let (m, x) := runHist a b e0 zero3 ops
      let model := m ++ showV3 (finalC e0 ops)
      let prop := if res.length != ops.length + 3 then some "impl-output-arity" else judgeHist 0 (res.take ops.length) x
      some (verdictP model res prop)
    | _ => none
  | _ => none

end Oracle.C03
