/-
  Oracle.C13 — runs the bookkeeping model `S2.History` on the op history executed by harness/c13.go.
  line:  c13 <loopVerts> <polyKind> <polyVerts> <op>,<op>,… = <class>:<same>:<optsok> …
  verdict: `ok` (model tokens = implementation tokens and every token is ok:Y|-:Y|-),
           `diff <model tokens>` (model ≠ implementation, property predicate holds),
           `propfail step<i>-<token> [model=…]` (the property predicate — every step ok and same as
           fresh and options preserved — fails on the implementation's own output).
  `oracleFixes` selects the model variant: the faithful model of the current tree; switch the
  individual flags to `true` when the corresponding repair lands in /repo.

  Targets.  `newtgt:<name>:<kind>:<e>.<t>/<e>.<t>/…` (or `-` for no shapes) creates the target OBJECT of that
  name, `tadd:<shape>:<edges>:<tracked>` adds to the index of the current target, `tset:<ii>:<bf>` configures its
  inner query.  A `call:<kind>:<name>:…` whose name is the current target object runs the model's `tcall` (the
  object's state matters); any other name is a stateless target, `call` of the model, as before.

  Remove.  `rm:<k>` removes the k-th shape PRESENT in the index (k from 0; the harness names the shape by the
  object it added).  Model and specification name shapes by identity (the id `Add` returned, never reused); the
  harness prints every shape of an answer as its position in the list of present shapes and compares with a
  fresh index over exactly the present shapes, so ids never travel.
-/
import Oracle.Proto
import S2.History
namespace Oracle.C13
open Oracle S2.History

def oracleFixes : Fixes := Fixes.tree

def parseLim? (s : String) : Option Lim :=
  if s == "inf" then some .infinity
  else if s.startsWith "v" then (s.drop 1).toNat?.map Lim.val else none

def parseB? (s : String) : Option Bool := if s == "1" then some true else if s == "0" then some false else none

def parseKind? (k : String) (l : Option Nat) : Option QKind :=
  match k, l with
  | "fes", none => some .findEdges
  | "fe", none => some .findEdge
  | "dist", none => some .distance
  | "less", some l => some (.isDistanceLess l)
  | "greater", some l => some (.isDistanceGreater l)
  | "consle", some l => some (.isConsLE l)
  | "consge", some l => some (.isConsGE l)
  | _, _ => none

def parseTKind? (s : String) : Option TKind :=
  match s with | "point" => some .point | "edge" => some .edge | "cell" => some .cell | "index" => some .index | _ => none

def parseShape? (s : String) : Option Shape :=
  match s.splitOn "." with
  | [e, t] => do let e ← e.toNat?; let t ← parseB? t; pure ⟨e, t⟩
  | _ => none

def parseShapes? (s : String) : Option (List Shape) :=
  if s == "-" then some [] else (s.splitOn "/").mapM parseShape?

/-- `cur` = name of the current target object -/
def parseOp? (cur : Option String) (t : String) : Option Op :=
  match t.splitOn ":" with
  | ["newtgt", _, k, shapes] => do let k ← parseTKind? k; let sh ← parseShapes? shapes; pure (.newTarget k sh)
  | ["tadd", _, e, tr] => do let e ← e.toNat?; let tr ← parseB? tr; pure (.tadd ⟨e, tr⟩)
  | ["tset", ii, bf] => do let ii ← parseB? ii; let bf ← parseB? bf; pure (.tset ii bf)
  | ["add", _, e, tr] => do let e ← e.toNat?; let tr ← parseB? tr; pure (.add ⟨e, tr⟩)
  | ["rm", k] => do let k ← k.toNat?; pure (.remove k)
  | ["build"] => some .build
  | ["reset"] => some .reset
  | ["query"] => some .query
  | ["eqreset"] => some .eqReset
  | ["inv"] => some .invert
  | ["lcontains"] => some .loopContains
  | ["lcell"] => some .loopCell
  | ["pinv"] => some .polyInvert
  | ["pcontains"] => some .polyContains
  | ["neweq", mr, lim, err, incl, brute] => do
    let mr ← mr.toNat?; let lim ← parseLim? lim; let err ← parseLim? err
    let incl ← parseB? incl; let brute ← parseB? brute
    pure (.newEQ ⟨mr, lim, err, incl, brute⟩)
  | ["call", k, tn, thr] => do
    let thr ← thr.toNat?; let k ← parseKind? k none
    pure (if cur == some tn then .tcall k else .call k thr)
  | ["call", k, tn, thr, l] => do
    let thr ← thr.toNat?; let l ← l.toNat?; let k ← parseKind? k (some l)
    pure (if cur == some tn then .tcall k else .call k thr)
  | _ => none

def parseOps? (cur : Option String) : List String → Option (List Op)
  | [] => some []
  | t :: r => do
    let op ← parseOp? cur t
    let cur' := match t.splitOn ":" with
      | "newtgt" :: n :: _ => some n
      | _ => cur
    let ops ← parseOps? cur' r
    pure (op :: ops)

def parseKindP? (s : String) : Option PolyKind :=
  match s with | "empty" => some .empty | "full" => some .full | "normal" => some .normal | _ => none

def yn (b : Bool) : String := if b then "Y" else "N"

/-- token of one model step, given the specification's output for the same step -/
def token (op : Op) (o spec : Out) : String :=
  match o with
  | .stuck => "HANG:-:-"
  | .panicked => "PANIC:-:-"
  | .outOfContract => "ooc:-:-"
  | .eq a opts =>
    match spec with
    | .eq a' u => "ok:" ++ yn (a == a') ++ ":" ++ yn (opts == u)
    | _ => "ok:N:N"
  | _ =>
    match op with
    | .query | .loopContains | .loopCell | .polyContains => "ok:" ++ yn (o == spec) ++ ":-"
    | _ => "ok:-:-"

/-- model tokens: stop after the first HANG / PANIC (the process is gone) -/
def tokens : List Op → List Out → List Out → List String
  | op :: ops, o :: os, sp :: sps =>
    let t := token op o sp
    if o == .stuck || o == .panicked then [t] else t :: tokens ops os sps
  | _, _, _ => []

def goodTok (t : String) : Bool :=
  match t.splitOn ":" with
  | ["ok", s, o] => (s == "Y" || s == "-") && (o == "Y" || o == "-")
  | _ => false

def firstBad (ts : List String) (i : Nat := 0) : Option String :=
  match ts with
  | [] => none
  | t :: r => if goodTok t then firstBad r (i + 1) else some ("step" ++ toString i ++ "-" ++ t)

/-- The model's `same = N` is symbolic ("the effective options / visible shapes differ from the fresh
    object's"), the implementation's is one concrete geometry, where a wrong limit or a wrong
    MaxResults may happen not to change the result.  So: model `Y` demands `Y`; model `N` allows
    either; class and options-preserved must agree exactly. -/
def compatTok (m i : String) : Bool :=
  match m.splitOn ":", i.splitOn ":" with
  | [mc, ms, mo], [ic, is, io] => mc == ic && mo == io && (ms == is || ms == "N")
  | _, _ => false

def compat : List String → List String → Bool
  | [], [] => true
  | m :: ms, i :: is => compatTok m i && compat ms is
  | _, _ => false

def handle (op : String) (args res : List String) : Option String :=
  match op, args with
  | "c13", [lv, pk, pv, opsS] => do
    let lv ← lv.toNat?; let pk ← parseKindP? pk; let pv ← pv.toNat?
    let ops ← parseOps? none (opsS.splitOn ",")
    let s0 := State.init oracleFixes lv false pk pv
    let outs := (runV oracleFixes s0 ops).2
    let sps := (runSpec (abs s0) ops).2
    let model := tokens ops outs sps
    let prop : Option String :=
      if res.length == 0 then some "no-output" else
      match firstBad res with
      | some b => some b
      | none => if res.length < ops.length then some "truncated" else none
    pure (verdictP (if compat model res then res else model) res prop)
  | "c13reuse", _ =>
    -- differential op: a polygon built from a REUSED *Loop object vs one built from a fresh loop with the same vertices
    some (match res with
      | ["same"] => "ok"
      | r => if r.any (·.startsWith "PANIC") then "propfail loop-object-reuse-panics " ++ " ".intercalate r
             else "propfail loop-object-reuse-differs-from-fresh " ++ " ".intercalate r)
  | _, _ => none

end Oracle.C13
