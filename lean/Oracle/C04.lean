/-
  Oracle.C04 — exact judge for C04 (containment = crossing parity, every evaluation path, tilings)
  and the index half of C06 (index invariants, index queries = brute force).

  The judge is the generic model `S2.Contain` instantiated with `fastGeo`: points carry their exact
  integer coordinates (each vector scaled by its own power of two — the sign of a determinant is
  invariant under positive scaling of its rows); the orientation is the sign of the exact integer
  determinant and, when that is zero, `Pred.exactDecision` (the library's symbolic perturbation).
  `fastGeo.rs = Pred.exactDecision` on finite vectors; this identity is not proved: every `c04contain`
  line re-computes its first probes with `Contain.exactGeo` and reports `bad oracle-fastpath` on any
  difference.

  Ops (see harness/c04.go for the line formats):
    c04contain  every evaluation path of Loop / Polygon / ContainsPointQuery vs the exact parity
    c04tile     a family of loops / polygons must contain every probe exactly once
    c04idx      index invariants I1 (cells valid, sorted, disjoint), I2 (every edge meeting the closed
                uv-rectangle of a cell is listed there — exact rational clipping in the face plane),
                I3 (containsCenter = exact brute force at the cell centre)
    c04cross    CrossingEdgeQuery.Crossings / CrossingsEdgeMap vs exact brute force over all edges
    c04cpq      ContainsPointQuery (3 vertex models) over collections vs exact brute force
-/
import Oracle.Basic
import S2.Exact
import S2.Pred
import S2.Contain
import S2.CellID
import S2.Hilbert
namespace Oracle.C04
open Oracle S2 S2.Exact S2.Contain

/-! ### points with exact coordinates -/

structure XP where
  v : V3
  iv : IV3
deriving Inhabited

/-- integer coordinates of `v` scaled by one positive power of two -/
def scaleV3 (v : V3) : IV3 :=
  let e (x : F64) : Int := if x.isZero then 2000 else x.expo
  let m := min (e v.x) (min (e v.y) (e v.z))
  if m == 2000 then ⟨0, 0, 0⟩ else ⟨v.x.toIntAt m, v.y.toIntAt m, v.z.toIntAt m⟩

def mkXP (v : V3) : XP := ⟨v, scaleV3 v⟩

/-- IEEE `==` on bit patterns: equal bits and not NaN, or both zeros -/
def fastFeq (x y : F64) : Bool :=
  if x.bits == y.bits then !x.isNaN else (x.bits <<< 1 == 0 && y.bits <<< 1 == 0)

/-- Go `==` on points -/
def xpEq (a b : XP) : Bool := fastFeq a.v.x b.v.x && fastFeq a.v.y b.v.y && fastFeq a.v.z b.v.z

/-- two equal points give a zero determinant, so the equality tests of `exactDecision` are only
    needed on the zero branch -/
def fastRS (a b c : XP) : Int :=
  let d := det3 a.iv b.iv c.iv
  if d != 0 then sgn d else Pred.exactDecision a.v b.v c.v

def fastGeo : Geo XP :=
  ⟨xpEq, fastRS, fun a => mkXP (s2Ortho a.v), fun a => southernV3 a.v⟩

def originXP : XP := mkXP originPoint

/-! ### parsing -/

def parsePt? (s : String) : Option XP :=
  match s.splitOn "," with
  | [a, b, c] => (parseV3? a b c).map mkXP
  | _ => none

def parsePts? (s : String) : Option (Array XP) :=
  if s == "-" then some #[] else ((s.splitOn ";").mapM parsePt?).map List.toArray

structure Spec where
  kind : String
  loops : List (Array XP)

def parseSpec? (s : String) : Option Spec :=
  match s.splitOn ":" with
  | [k, body] => do
    let loops ← (body.splitOn "/").mapM parsePts?
    pure ⟨k, loops⟩
  | _ => none

structure Meta where
  dim : Nat
  numEdges : Nat
  refContained : Bool
  refPoint : XP
  order : List Nat
  holes : List Bool

def parseDots? (s : String) : Option (List Nat) :=
  if s == "-" then some [] else (s.splitOn ".").mapM parseNat?

def parseFlags? (s : String) : Option (List Bool) :=
  if s == "-" then some [] else s.toList.mapM fun c => parseBool? c.toString

def parseMeta? (s : String) : Option Meta :=
  match s.splitOn ":" with
  | [d, n, c, p] => do
    pure ⟨← parseNat? d, ← parseNat? n, ← parseBool? c, ← parsePt? p, [], []⟩
  | [d, n, c, p, o, h] => do
    pure ⟨← parseNat? d, ← parseNat? n, ← parseBool? c, ← parsePt? p, ← parseDots? o, ← parseFlags? h⟩
  | _ => none

/-! ### shapes -/

/-- a resolved shape: what containment and the index queries see -/
instance : Inhabited (LoopM XP) := ⟨⟨#[], false⟩⟩
instance : Inhabited (ShapeM XP) := ⟨⟨0, #[], default, false⟩⟩

structure RShape where
  shape : ShapeM XP
  /-- exact semi-open containment -/
  contains : XP → Bool
  /-- complaint about the meta token, if any -/
  metaErr : Option String
deriving Inhabited

def isVertexOf (S : ShapeM XP) (p : XP) : Bool :=
  S.edges.any fun e => xpEq e.1 p || xpEq e.2 p

def mkL (vs : Array XP) : LoopM XP := mkLoop fastGeo originXP vs

/-- `Loop.Invert` incl. the one-vertex special loops -/
def invertL (L : LoopM XP) : LoopM XP :=
  if L.isEmptyOrFull then
    let z := F64.zero false
    let full : Bool := (match L.vertices[0]? with | some v => southernV3 v.v | none => false)
    let nv : V3 := if full == true then ⟨z, z, F64.one⟩ else ⟨z, z, -F64.one⟩
    ⟨#[mkXP nv], !L.originInside⟩
  else invert L

def checkMeta (m : Meta) (S : ShapeM XP) : Option String :=
  if m.dim != S.dim then some "dim"
  else if m.numEdges != S.edges.size then some s!"numEdges={S.edges.size}"
  else if m.refContained != S.refContained then some s!"refContained={showBool S.refContained}"
  else if !(xpEq m.refPoint S.refPoint) then some "refPoint"
  else none

/-- nesting depth parity of loop `i` among valid, vertex-disjoint loops: number of other loops
    containing its first vertex -/
def exactHoles (loops : List (LoopM XP)) : List Bool :=
  loops.mapIdx fun i l =>
    match l.vertices[0]? with
    | none => false
    | some v =>
      let k := (loops.mapIdx fun j m => if j != i && bruteContains fastGeo originXP m v then 1 else 0).sum
      k % 2 == 1

def resolve (sp : Spec) (m : Meta) : Option RShape :=
  match sp.kind, sp.loops with
  | "L", [vs] =>
    let L := mkL vs
    let S := loopShape originXP L
    some ⟨S, bruteContains fastGeo originXP L, checkMeta m S⟩
  | "LI", [vs] =>
    let L := invertL (mkL vs)
    let S := loopShape originXP L
    some ⟨S, bruteContains fastGeo originXP L, checkMeta m S⟩
  | "G", ls =>
    let loops := ls.map mkL
    -- PolygonFromLoops: a single empty loop gives the polygon without loops
    let loops := match loops with
      | [l] => if l.isEmptyOrFull && !l.originInside then [] else [l]
      | _ => loops
    let n := loops.length
    let permOK := m.order.length == n && (List.range n).all (fun k => m.order.contains k)
    if !permOK || m.holes.length != n then none else
    let pg : PolygonM XP := (m.order.zip m.holes).map fun (k, h) => ⟨loops[k]!, h⟩
    let S := polygonShape originXP pg
    let holesOK := n > 6 || (m.order.map fun k => (exactHoles loops)[k]!) == m.holes
    let err := match checkMeta m S with
      | some e => some e
      | none => if holesOK then none else some "holes"
    some ⟨S, polygonContains fastGeo originXP pg, err⟩
  | "GI", ls =>
    let loops := ls.map mkL
    let pg : PolygonM XP := loops.map fun l => ⟨l, false⟩
    -- the complement: invert one loop (which one does not matter for containment)
    let pgi := match pg with
      | [] => [⟨invertL (mkL #[mkXP ⟨F64.zero false, F64.zero false, F64.one⟩]), false⟩]
      | l :: rest => ⟨invertL l.loop, false⟩ :: rest
    let S := polygonShape originXP pgi
    let err := if m.dim != 2 then some "dim"
      else if m.refContained != S.refContained then some s!"refContained={showBool S.refContained}" else none
    some ⟨S, polygonContains fastGeo originXP pgi, err⟩
  | "P", [vs] =>
    let S : ShapeM XP := ⟨0, vs.map fun v => (v, v), originXP, false⟩
    some ⟨S, fun _ => false, checkMeta m S⟩
  | "Y", [vs] =>
    let l := vs.toList
    let S : ShapeM XP := ⟨1, (l.zip l.tail).toArray, originXP, false⟩
    some ⟨S, fun _ => false, checkMeta m S⟩
  | "X", ls =>
    let edges := ls.flatMap fun vs => loopEdges vs.toList
    match referencePointForShape fastGeo originXP edges ls.length with
    | none => none
    | some (rp, rc) =>
      let S : ShapeM XP := ⟨2, edges.toArray, rp, rc⟩
      some ⟨S, containsBruteForce fastGeo S, checkMeta m S⟩
  | _, _ => none

def resolveAll (specs metas : List String) : Option (List RShape) :=
  (specs.zip metas).mapM fun (s, m) => do
    let sp ← parseSpec? s
    let mt ← parseMeta? m
    resolve sp mt

def metaErrs (rs : List RShape) : Option String :=
  let errs := (rs.mapIdx fun i r => r.metaErr.map fun e => s!"shape{i}:{e}").filterMap id
  if errs.isEmpty then none else some (" ".intercalate errs)

/-! ### c04contain -/

def expectChar (pos : Nat) (e v : Bool) : Char :=
  let b := if pos == 5 then e && !v else if pos == 6 then e || v else e
  if b then 'T' else 'F'

/-- compare one 15-char path string; `none` = fine -/
def judgePaths (impl : String) (e v : Bool) : Option String :=
  let cs := impl.toList
  if cs.length != 15 then some "badlen" else
  let idx := List.range 15
  let bad := idx.filter fun i => let c := cs[i]!; c != '-' && c != expectChar i e v
  if bad.isEmpty then none else
  let semi := (idx.filter fun i => i != 5 && i != 6).filterMap fun i =>
    let c := cs[i]!; if c == '-' then none else some c
  let agree := semi.all (· == semi.headD 'T')
  let want := String.ofList (idx.map fun i => if cs[i]! == '-' then '-' else expectChar i e v)
  if !agree then some s!"paths-disagree want={want}"
  else if bad.all (fun i => i == 5 || i == 6) then some s!"vertex-model want={want}"
  else some s!"parity want={want}"

def slowContains (sp : Spec) (p : V3) : Option Bool :=
  match sp.kind, sp.loops with
  | "L", [vs] => some (exactLoopContains (vs.map (·.v)) p)
  | "LI", [vs] =>
    if vs.size < 3 then none else
    some (bruteContains exactGeo originPoint (invert (mkLoop exactGeo originPoint (vs.map (·.v)))) p)
  | "G", ls =>
    some (xorAll (ls.map fun vs => exactLoopContains (vs.map (·.v)) p))
  | _, _ => none

def handleContain (args res : List String) : Option String :=
  match args, res with
  | [spec, probes], mt :: rest => do
    let sp ← parseSpec? spec
    let m ← parseMeta? mt
    let ps ← parsePts? probes
    let r ← resolve sp m
    if rest.length != ps.size then some "bad c04contain-arity" else
    -- the un-inverted shape for the complement law
    let base : Option RShape :=
      if sp.kind == "LI" then
        (match sp.loops with
         | [vs] => let L := mkL vs; some ⟨loopShape originXP L, bruteContains fastGeo originXP L, none⟩
         | _ => none)
      else if sp.kind == "GI" then
        let loops := sp.loops.map mkL
        let pg : PolygonM XP := loops.map fun l => ⟨l, false⟩
        some ⟨polygonShape originXP pg, polygonContains fastGeo originXP pg, none⟩
      else none
    let nv := (sp.loops.map (·.size)).sum
    let results := (ps.toList.zip rest).mapIdx fun k (p, impl) =>
      let e := r.contains p
      let v := isVertexOf r.shape p
      let selfOK := if k < 2 && nv ≤ 300 then
          (match slowContains sp p.v with
           | some s => s == e
           | none => true)
        else true
      let compl := match base with
        | some b => b.contains p != e
        | none => true
      if !selfOK then some s!"ORACLE probe={k}"
      else if !compl then some s!"exact-inverse-law probe={k}"
      else (judgePaths impl e v).map fun c => s!"{c} probe={k}"
    match results.filterMap id with
    | [] =>
      match r.metaErr with
      | some e => some ("diff meta " ++ e)
      | none => some "ok"
    | c :: _ =>
      if c.startsWith "ORACLE" then some ("bad oracle-fastpath " ++ c)
      else some ("propfail " ++ c ++ (match r.metaErr with | some e => " meta=" ++ e | none => ""))
  | _, _ => some "bad c04contain-args"

/-! ### c04tile -/

def handleTile (args res : List String) : Option String :=
  match args with
  | _kind :: n :: rest => do
    let n ← parseNat? n
    if rest.length != n + 1 then some "bad c04tile-arity" else
    let specs ← (rest.take n).mapM parseSpec?
    let ps ← parsePts? (rest.getD n "-")
    if res.length != ps.size then some "bad c04tile-res" else
    let dummy : Meta := ⟨2, 0, false, originXP, [], []⟩
    let shapes ← specs.mapM fun sp =>
      match sp.kind with
      | "G" =>
        -- containment of a polygon does not depend on the loop order / hole flags
        let loops := sp.loops.map mkL
        let pg : PolygonM XP := loops.map fun l => ⟨l, false⟩
        some (⟨polygonShape originXP pg, polygonContains fastGeo originXP pg, none⟩ : RShape)
      | _ => resolve sp dummy
    let out := (ps.toList.zip res).mapIdx fun k (p, impl) =>
      let ex := String.ofList (shapes.map fun s => if s.contains p then 'T' else 'F')
      let cnt (s : String) := (s.toList.filter (· == 'T')).length
      match impl.splitOn "/" with
      | [a, b] =>
        if cnt ex != 1 then some s!"propfail exact-tile count={cnt ex} probe={k}"
        else if cnt a != 1 then some s!"propfail tile-count={cnt a} path=ContainsPoint probe={k} exact={ex}"
        else if cnt b != 1 then some s!"propfail tile-count={cnt b} path=index probe={k} exact={ex}"
        else if a != ex || b != ex then some s!"propfail parity probe={k} exact={ex}"
        else none
      | _ => some "bad c04tile-token"
    match out.filterMap id with
    | [] => some "ok"
    | c :: _ => some c
  | _ => some "bad c04tile-args"

/-! ### index dump -/

structure ClipD where
  sid : Nat
  cc : Bool
  edges : List Nat

structure CellD where
  id : CellID
  center : XP
  uv : List F64
  shapes : List ClipD

def parseClip? (s : String) : Option ClipD :=
  match s.splitOn "," with
  | [i, c, e] => do pure ⟨← parseNat? i, ← parseBool? c, ← parseDots? e⟩
  | _ => none

def parseCell? (s : String) : Option CellD :=
  match s.splitOn ":" with
  | [i, c, uv, sh] => do
    let id ← parseU64? i
    let c ← parsePt? c
    let uv ← (uv.splitOn ",").mapM parseF64?
    let sh ← if sh == "~" then some [] else (sh.splitOn "|").mapM parseClip?
    pure ⟨id, c, uv, sh⟩
  | _ => none

/-- `ijLevelToBoundUV` from the cell id: [uLo, uHi, vLo, vHi] -/
def cellBoundUV (id : CellID) : List F64 :=
  let (_, i, j, _) := Hilbert.faceIJOrientation id
  let size := Hilbert.sizeIJ (CellID.level id)
  let lo (x : Nat) : Nat := x - x % size
  let f (x : Nat) : F64 := STUV.stToUV (STUV.ijToSTMin x)
  [f (lo i), f (lo i + size), f (lo j), f (lo j + size)]

/-- (U, V, W) of an exact vector on a face: (u,v) = (U/W, V/W), W > 0 on the face's hemisphere -/
def faceUVW (face : Nat) (p : IV3) : Int × Int × Int :=
  match face with
  | 0 => (p.y, p.z, p.x)
  | 1 => (-p.x, p.z, p.y)
  | 2 => (-p.x, -p.y, p.z)
  | 3 => (-p.z, -p.y, -p.x)
  | 4 => (-p.z, p.x, -p.y)
  | _ => (p.y, p.x, -p.z)

/-- a finite float as (m, k) with value m / 2^k -/
def dyad (x : F64) : Int × Nat :=
  let (m, e) := x.toDyadic
  if e ≥ 0 then (m * 2 ^ e.toNat, 0) else (m, (-e).toNat)

/-- Does the geodesic edge a→b (rays λa+μb, λ,μ ≥ 0) meet the closed rectangle
    [uLo,uHi]×[vLo,vHi] of the face?  Exact: on q(t) = a + t(b−a), t ∈ [0,1], every constraint is
    linear in t. -/
def edgeMeetsRect (face : Nat) (a b : IV3) (uv : List F64) : Bool :=
  match uv with
  | [ulo, uhi, vlo, vhi] =>
    let (ua, va, wa) := faceUVW face a
    let (ub, vb, wb) := faceUVW face b
    let lower (x : F64) (ca cb : Int) : Int × Int :=  -- coordinate − x·W ≥ 0
      let (m, k) := dyad x
      (ca * 2 ^ k - m * wa, cb * 2 ^ k - m * wb)
    let upper (x : F64) (ca cb : Int) : Int × Int :=
      let (g, h) := lower x ca cb
      (-g, -h)
    let cons := [lower ulo ua ub, upper uhi ua ub, lower vlo va vb, upper vhi va vb]
    -- the interval [lo, hi] of t as fractions (n, d), d > 0
    let step (st : Option ((Int × Int) × (Int × Int))) (g : Int × Int) :=
      match st with
      | none => none
      | some (lo, hi) =>
        let (ga, gb) := g
        if ga ≥ 0 && gb ≥ 0 then some (lo, hi)
        else if ga < 0 && gb < 0 then none
        else
          -- root t* = ga / (ga − gb)
          let (n, d) := if ga - gb > 0 then (ga, ga - gb) else (-ga, gb - ga)
          if ga ≥ 0 then
            -- t ≤ t*
            let hi' := if n * hi.2 < hi.1 * d then (n, d) else hi
            some (lo, hi')
          else
            let lo' := if n * lo.2 > lo.1 * d then (n, d) else lo
            some (lo', hi)
    match cons.foldl step (some ((0, 1), (1, 1))) with
    | none => false
    | some (lo, hi) =>
      if lo.1 * hi.2 > hi.1 * lo.2 then false
      else
        let wAt (t : Int × Int) : Int := wa * t.2 + t.1 * (wb - wa)
        wAt lo > 0 || wAt hi > 0
  | _ => false

def handleIdx (args res : List String) : Option String :=
  match args with
  | n :: specs => do
    let n ← parseNat? n
    if specs.length != n then some "bad c04idx-arity" else
    let metas := res.take n
    if res.getD n "" != "C" then some "bad c04idx-sep" else
    let shapes ← resolveAll specs metas
    let cells ← (res.drop (n + 1)).mapM parseCell?
    -- I1
    let rec sortedOK : List CellD → Bool
      | a :: b :: rest => decide (CellID.rangeMax a.id < CellID.rangeMin b.id) && sortedOK (b :: rest)
      | _ => true
    let i1 := cells.all (fun c => CellID.isValid c.id) && sortedOK cells
    if !i1 then some "propfail I1" else
    -- cell geometry
    let uvBad := cells.find? fun c => !((cellBoundUV c.id).map (·.bits) == c.uv.map (·.bits))
    if let some c := uvBad then some ("diff celluv " ++ u64Hex c.id) else
    -- clipped shapes well-formed: shape ids increasing, edge ids increasing and in range
    let rec incr : List Nat → Bool
      | a :: b :: rest => decide (a < b) && incr (b :: rest)
      | _ => true
    let wf := cells.all fun c => incr (c.shapes.map (·.sid)) && c.shapes.all fun s =>
      incr s.edges && s.sid < n && s.edges.all (fun e => e < (shapes[s.sid]!).shape.edges.size)
    if !wf then some "propfail clipped-wellformed" else
    -- I3
    let i3bad := cells.findSome? fun c =>
      (shapes.mapIdx fun k s =>
        let flag := match c.shapes.find? (·.sid == k) with | some cl => cl.cc | none => false
        let ex := if s.shape.dim == 2 then s.contains c.center else false
        if flag != ex then some s!"I3 cell={u64Hex c.id} shape={k} exact={showBool ex}" else none).findSome? id
    if let some e := i3bad then some ("propfail " ++ e) else
    -- I2
    let i2bad := cells.findSome? fun c =>
      let face := CellID.face c.id
      (shapes.mapIdx fun k s =>
        let listed := match c.shapes.find? (·.sid == k) with | some cl => cl.edges | none => []
        let rec go (i : Nat) (es : List (XP × XP)) (ls : List Nat) : Option String :=
          match es with
          | [] => none
          | e :: es' =>
            match ls with
            | l :: ls' =>
              if l == i then go (i + 1) es' ls'
              else if edgeMeetsRect face e.1.iv e.2.iv c.uv then some s!"I2 cell={u64Hex c.id} shape={k} edge={i}"
              else go (i + 1) es' ls
            | [] =>
              if edgeMeetsRect face e.1.iv e.2.iv c.uv then some s!"I2 cell={u64Hex c.id} shape={k} edge={i}"
              else go (i + 1) es' []
        go 0 s.shape.edges.toList listed).findSome? id
    if let some e := i2bad then some ("propfail " ++ e) else
    match metaErrs shapes with
    | some e => some ("diff meta " ++ e)
    | none => some "ok"
  | _ => some "bad c04idx-args"

/-! ### c04cross -/

def showDots (l : List Nat) : String := if l.isEmpty then "-" else ".".intercalate (l.map toString)

def handleCross (args res : List String) : Option String :=
  match args with
  | n :: rest => do
    let n ← parseNat? n
    if rest.length != n + 1 then some "bad c04cross-arity" else
    let shapes ← resolveAll (rest.take n) (res.take n)
    let q ← parsePts? (rest.getD n "-")
    let toks := res.drop n
    if toks.length != q.size / 2 then some "bad c04cross-res" else
    let out := toks.mapIdx fun k tok =>
      let a := q[2 * k]!
      let b := q[2 * k + 1]!
      let brute (s : RShape) (all : Bool) : List Nat :=
        crossingsBrute fastGeo a b (fun i => s.shape.edges[i]!) s.shape.edges.size all
      let per := shapes.flatMap fun s => [showDots (brute s true), showDots (brute s false)]
      let mapTok (all : Bool) : String :=
        let parts := (shapes.mapIdx fun i s =>
          let l := brute s all
          if l.isEmpty then none else some s!"{i}={showDots l}").filterMap id
        if parts.isEmpty then "-" else "&".intercalate parts
      let want := "/".intercalate per ++ "#" ++ mapTok true ++ "#" ++ mapTok false
      if want == tok then none else some s!"propfail crossings query={k} want={want}"
    match out.filterMap id with
    | [] => (match metaErrs shapes with | some e => some ("diff meta " ++ e) | none => some "ok")
    | c :: _ => some c
  | _ => some "bad c04cross-args"

/-! ### c04cpq -/

def handleCpq (args res : List String) : Option String :=
  match args with
  | n :: rest => do
    let n ← parseNat? n
    if rest.length != n + 1 then some "bad c04cpq-arity" else
    let shapes ← resolveAll (rest.take n) (res.take n)
    let ps ← parsePts? (rest.getD n "-")
    let toks := res.drop n
    if toks.length != ps.size then some "bad c04cpq-res" else
    let out := (ps.toList.zip toks).mapIdx fun k (p, tok) =>
      let ev := shapes.map fun s =>
        let v := isVertexOf s.shape p
        let e := if s.shape.dim == 2 then s.contains p else false
        (e, v, s.shape.dim)
      let ids (f : Bool × Bool × Nat → Bool) : List Nat :=
        (ev.mapIdx fun i x => if f x then some i else none).filterMap id
      let op := ids fun (e, v, _) => e && !v
      let se := ids fun (e, _, _) => e
      let cl := ids fun (e, v, _) => e || v
      let cont := String.ofList ([op, se, cl].map fun l => if l.isEmpty then 'F' else 'T')
      let sc := String.ofList (ev.map fun (e, _, _) => if e then 'T' else 'F')
      let want := "/".intercalate [showDots op, showDots se, showDots cl, cont, sc]
      if want == tok then none else some s!"propfail cpq probe={k} want={want}"
    match out.filterMap id with
    | [] => (match metaErrs shapes with | some e => some ("diff meta " ++ e) | none => some "ok")
    | c :: _ => some c
  | _ => some "bad c04cpq-args"

/-! ### c04orient — PolygonFromOrientedLoops and the polygon of the reversed loops partition the sphere

  `c04orient <G:loops> <probes> = <PQ per probe>` : P = PolygonFromOrientedLoops(loops), Q = PolygonFromOrientedLoops(every loop reversed);
  for every probe that lies on no edge plane of the input (exact determinant ≠ 0 for every edge) exactly one of P, Q contains it.
  No model of the normalisation is needed: the law is judged on the implementation's own answers. -/
def handleOrient (args res : List String) : Option String :=
  match args with
  | [spec, probes] => do
    let sp ← parseSpec? spec
    let ps ← parsePts? probes
    if res.length != ps.size then some "bad c04orient-arity" else
    let edges : List (XP × XP) := sp.loops.flatMap fun vs => loopEdges vs.toList
    let bad := (ps.toList.zip res).find? fun (p, r) =>
      let onPlane := edges.any fun (a, b) => det3 a.iv b.iv p.iv == 0
      !onPlane && (r == "TT" || r == "FF")
    match bad with
    | some (_, r) => some (verdictP res res (some ("oriented-polygon-and-reversed-polygon-do-not-partition:" ++ r)))
    | none => some (verdictP res res none)
  | _ => some "bad c04orient-args"

def handle (op : String) (args res : List String) : Option String :=
  if res.any (·.startsWith "PANIC:") then
    if op.startsWith "c04" then some ("propfail panic " ++ " ".intercalate (res.filter (·.startsWith "PANIC:"))) else none
  else if op == "c04contain" then handleContain args res
  else if op == "c04tile" then handleTile args res
  else if op == "c04idx" then handleIdx args res
  else if op == "c04cross" then handleCross args res
  else if op == "c04cpq" then handleCpq args res
  else if op == "c04orient" then handleOrient args res
  else if op == "c04cpqrm" then handleCpq args.dropLast res   -- same judge; the last argument only describes the add / remove history
  else none

end Oracle.C04
