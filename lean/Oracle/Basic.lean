import Oracle.Proto
import S2.F64
import S2.STUV
namespace Oracle
open S2

def parseF64? (s : String) : Option F64 := (parseU64? s).map F64.mk
def showF64 (x : F64) : String := u64Hex x.bits
def parseV3? (a b c : String) : Option V3 := do
  let x ← parseF64? a; let y ← parseF64? b; let z ← parseF64? c
  pure ⟨x, y, z⟩
def showV3 (v : V3) : List String := [showF64 v.x, showF64 v.y, showF64 v.z]

/-- float ops validation: `f64 <op> a [b] = r` -/
def handleF64 (args res : List String) : String :=
  match args with
  | [op, a, b] =>
    match parseF64? a, parseF64? b with
    | some x, some y =>
      let r : Option String := match op with
        | "add" => some (showF64 (x + y))
        | "sub" => some (showF64 (x - y))
        | "mul" => some (showF64 (x * y))
        | "div" => some (showF64 (x / y))
        | "max" => some (showF64 (F64.fmax x y))
        | "min" => some (showF64 (F64.fmin x y))
        | "nextafter" => some (showF64 (F64.nextafter x y))
        | "lt" => some (showBool (F64.lt x y))
        | "le" => some (showBool (F64.le x y))
        | "eq" => some (showBool (F64.feq x y))
        | _ => none
      match r with
      | some m =>
        -- NaN payloads are not compared
        let isNaNTok (t : String) := match parseF64? t with | some v => v.isNaN | none => false
        if isNaNTok m && (res.head?.map isNaNTok).getD false then "ok" else verdict [m] res
      | none => "bad f64op"
    | _, _ => "bad f64args"
  | [op, a] =>
    match parseF64? a with
    | some x =>
      let r : Option String := match op with
        | "sqrt" => some (showF64 (F64.sqrt x))
        | "floor" => some (showF64 (F64.floor x))
        | "trunc" => some (toString (F64.toIntTrunc x))
        | "neg" => some (showF64 (-x))
        | "abs" => some (showF64 x.abs)
        | _ => none
      match r with
      | some m =>
        let isNaNTok (t : String) := match parseF64? t with | some v => v.isNaN | none => false
        if isNaNTok m && (res.head?.map isNaNTok).getD false then "ok" else verdict [m] res
      | none => "bad f64op"
    | none => "bad f64args"
  | _ => "bad f64arity"

def handleF64Int (args res : List String) : String :=
  match args with
  | [a] => match parseInt? a with
    | some i => verdict [showF64 (F64.ofInt i)] res
    | none => "bad"
  | _ => "bad"

end Oracle
