/-
  Oracle.C05 — correspondence + property judge for the region coverer (property C05).

  op `cov`   (one line = one region, one coverer configuration)
     cov <kind> <params> <MinLevel> <MaxLevel> <LevelMod> <MaxCells> <ops> <pts>
         = <bound> <start> <Covering> <InteriorCovering> <CellUnion> <InteriorCellUnion> <FastCovering>
     kind/params   cap   cx:cy:cz:r2            (hex floats; r2 = the cap's ChordAngle)
                   rect  latLo:latHi:lngLo:lngHi
                   cell  id
                   cu    id,id,…                (a CellUnion as region)
                   cub   id,id,…                (a CellUnion whose CellUnionBound() is its own cell list)
                   loop  x:y:z;x:y:z;…          poly  loop|loop|…      pline x:y:z;…      point x:y:z
     ops           subset of the letters C (Covering+CellUnion), I (InteriorCovering+InteriorCellUnion),
                   F (FastCovering); results that were not computed are the token `x`
     pts           x:y:z;…  points of the region by construction (or `-`)
     bound         region.CellUnionBound();  start = the temporary FastCovering of `initialCandidates`
  Judge (propfail clauses):
     level-<which>, notvalid-<which>, notnormalized-<which>       level discipline
     covering-misses-point, cellunion-misses-point, fastcovering-misses-point
     interior-cell-not-contained, interiorunion-cell-not-contained
  Model comparison (`diff`): `fastCovering`/`startCells` for every kind (they depend on the bound
  only); `covering`, `interiorCovering`, `cellUnion`, `interiorCellUnion` for kinds cell / cu / cub.

  op `pred`  pred <kind> <params> <cellid> <samples> = <ContainsCell> <IntersectsCell> [<flags>]
     propfail containsCell-unsound / intersectsCell-unsound.  kind rect: third result token `flags` = one T/F per sample,
     `Rect.ContainsPoint(sample)`; the judge is then Go-vs-Go consistency (not exact).
  Known class (finding F-A): region kind rect and offending point with |z| ≥ float64(1 − 1e-9) → the clause gets the
  suffix `-polar-rect` (`covering-misses-point-polar-rect`, `intersectsCell-unsound-polar-rect`, …).
  A result token `HANG` (harness watchdog) → `propfail hang`.

  Point-in-cell is decided exactly: a cell is the closed (u,v) rectangle whose bounds are the
  floats of `Cell.BoundUV()` (soft-float `stToUV(ijToSTMin(·))`), a point is compared with them in
  integer arithmetic (`S2.Exact`).  The float `cellIDFromPoint` is only a fast accepting path.
-/
import Oracle.Basic
import S2.CellUnion
import S2.Coverer
import S2.CovererRegions
import S2.CapCell
import S2.Exact
import S2.Pred
namespace Oracle.C05
open Oracle S2 S2.CellID S2.CellUnion S2.Coverer S2.Exact

def showID (x : CellID) : String := u64Hex x
def showCU (l : List CellID) : String := showList showID l
def parseCU? (s : String) : Option (List CellID) := parseList? parseU64? s

def parsePt? (s : String) : Option V3 :=
  match s.splitOn ":" with
  | [a, b, c] => parseV3? a b c
  | _ => none

def parsePts? (s : String) : Option (List V3) :=
  if s == "-" then some [] else (s.splitOn ";").mapM parsePt?

/-! ### regions -/

inductive Reg where
  | cap (c : V3) (r2 : F64)
  | rect
  | cell (id : CellID)
  | cu (cells : CU) (own : Bool)
  | loop (vs : List V3) (convex : Bool)
  | other
  deriving Inhabited

def parseReg? (kind params : String) : Option Reg :=
  match kind with
  | "cap" => match params.splitOn ":" with
    | [a, b, c, r] => do
      let v ← parseV3? a b c
      let r ← parseF64? r
      pure (.cap v r)
    | _ => none
  | "rect" => match params.splitOn ":" with
    | [a, b, c, d] => do
      let _ ← parseF64? a; let _ ← parseF64? b; let _ ← parseF64? c; let _ ← parseF64? d
      pure .rect
    | _ => none
  | "cell" => (parseU64? params).map .cell
  | "cu" => (parseCU? params).map (.cu · false)
  | "cub" => (parseCU? params).map (.cu · true)
  | "loop" => (parsePts? params).map (.loop · false)
  | "poly" => ((params.splitOn "|").mapM parsePts?).map fun _ => .other
  | "pline" => (parsePts? params).map fun _ => .other
  | "point" => (parsePt? params).map fun _ => .other
  | _ => none

/-! ### exact point-in-cell -/

/-- face and the float (u,v) bounds of `CellFromCellID(id).BoundUV()` -/
def uvBounds (id : CellID) : Nat × F64 × F64 × F64 × F64 :=
  let (f, i, j, _) := Hilbert.faceIJOrientation id
  let size := Hilbert.sizeIJ (level id)
  let xLo := i - i % size
  let yLo := j - j % size
  let b (k : Nat) : F64 := STUV.stToUV (STUV.ijToSTMin (k : Int))
  (f, b xLo, b (xLo + size), b yLo, b (yLo + size))

/-- (a, nu, nv): on face `f` the point has u = nu/a, v = nv/a and lies on that face's side iff a > 0 -/
def faceAUV (f : Nat) (p : IV3) : Int × Int × Int :=
  match f with
  | 0 => (p.x, p.y, p.z)
  | 1 => (p.y, -p.x, p.z)
  | 2 => (p.z, -p.x, -p.y)
  | 3 => (-p.x, -p.z, -p.y)
  | 4 => (-p.y, -p.z, p.x)
  | _ => (-p.z, p.y, p.x)

structure Box where
  face : Nat
  uLo : Int
  uHi : Int
  vLo : Int
  vHi : Int

def boxOf (id : CellID) : Box :=
  let (f, a, b, c, d) := uvBounds id
  ⟨f, toInt a, toInt b, toInt c, toInt d⟩

/-- p in the closed cell (exact) -/
def Box.containsClosed (bx : Box) (p : IV3) : Bool :=
  let (a, nu, nv) := faceAUV bx.face p
  let s : Int := scale
  decide (a > 0) && decide (bx.uLo * a ≤ nu * s) && decide (nu * s ≤ bx.uHi * a) &&
    decide (bx.vLo * a ≤ nv * s) && decide (nv * s ≤ bx.vHi * a)

/-- p strictly inside the cell's (u,v) rectangle (exact) -/
def Box.containsOpen (bx : Box) (p : IV3) : Bool :=
  let (a, nu, nv) := faceAUV bx.face p
  let s : Int := scale
  decide (a > 0) && decide (bx.uLo * a < nu * s) && decide (nu * s < bx.uHi * a) &&
    decide (bx.vLo * a < nv * s) && decide (nv * s < bx.vHi * a)

def inClosedCell (id : CellID) (p : V3) : Bool := (boxOf id).containsClosed (ofV3 p)

/-- a supplied point together with its float leaf cell (computed once) -/
structure LPt where
  p : V3
  leaf : CellID

def mkLPt (p : V3) : LPt := ⟨p, STUV.cellIDFromPoint p⟩

/-- index of the last range whose `rangeMin ≤ leaf` in a sorted array of (rangeMin, rangeMax) -/
def findRange (rs : Array (CellID × CellID)) (leaf : CellID) : Bool :=
  go rs.size 0 rs.size
where
  go : Nat → Nat → Nat → Bool
    | 0, _, _ => false
    | fuel+1, lo, hi =>
      if lo < hi then
        let m := (lo + hi) / 2
        let (a, b) := rs[m]!
        if leaf < a then go fuel lo m
        else if leaf ≤ b then true
        else go fuel (m + 1) hi
      else false

/-- is the point in some cell of the SORTED DISJOINT list?  fast path: float leaf id (binary search);
    slow path: exact closed-cell test against every cell. -/
def findRangeIdx (rs : Array (CellID × CellID)) (leaf : CellID) : Option Nat :=
  go rs.size 0 rs.size
where
  go : Nat → Nat → Nat → Option Nat
    | 0, _, _ => none
    | fuel+1, lo, hi =>
      if lo < hi then
        let m := (lo + hi) / 2
        let (a, b) := rs[m]!
        if leaf < a then go fuel lo m
        else if leaf ≤ b then some m
        else go fuel (m + 1) hi
      else none

def cellsCoverPoint (cells : Array CellID) (boxes : Thunk (Array Box)) (rs : Array (CellID × CellID)) (q : LPt) : Bool :=
  if findRange rs q.leaf then true
  else
    let ip := ofV3 q.p
    -- a point on a cell boundary: try the cells holding one of the 8 neighbouring leaves first
    let cand := ((STUV.allNeighbors q.leaf 30).filterMap (findRangeIdx rs)).eraseDups
    if cand.any (fun i => (boxOf cells[i]!).containsClosed ip) then true
    else boxes.get.any fun b => b.containsClosed ip

/-- exact-only version, used to re-verify that a supplied point is in a cell / cell-union region -/
def boxesContainExact (bxs : List Box) (p : V3) : Bool :=
  finite3 p && (let ip := ofV3 p; bxs.any fun b => b.containsClosed ip)

/-! ### exact cap membership -/

/-- sign of  dist(p,c) − r2·num/den  (chord² of the normalised vectors), exact -/
def capCmp (c p : V3) (r2 : F64) (num den : Int) : Int :=
  Pred.exactCompareDistanceS ((scale : Int) * den) (ofV3 p) (ofV3 c) (toInt r2 * num)

def two50 : Int := 2 ^ 50

def capOK (c : V3) (r2 : F64) : Bool := finite3 c && r2.isFinite && !(ofV3 c).isZero

/-- p exactly inside the closed cap -/
def inCapExact (c : V3) (r2 : F64) (p : V3) : Bool :=
  finite3 p && !(ofV3 p).isZero && capCmp c p r2 1 1 ≤ 0
/-- p inside the cap widened by the factor (1 + 2^-50) on r2 -/
def inCapSlack (c : V3) (r2 : F64) (p : V3) : Bool :=
  !finite3 p || (ofV3 p).isZero || capCmp c p r2 (two50 + 1) two50 ≤ 0
/-- p strictly inside the cap shrunk by (1 − 2^-50) -/
def inCapStrict (c : V3) (r2 : F64) (p : V3) : Bool :=
  finite3 p && !(ofV3 p).isZero && capCmp c p r2 (two50 - 1) two50 < 0

/-- `r2·num/2^50 + sgn·(2·rUp·ε + ε²)` at scale `scale·2^100`, with ε = 2^-48 (an ABSOLUTE slack on the chord
    length, about 16 ulp of 1.0) and rUp ≥ √r2 -/
def capThreshold (r2 : F64) (num : Int) (sgn : Int) : Int :=
  let rUp : Int := if F64.gt r2 (F64.zero false) then toInt (F64.sqrt r2) * (2 ^ 40 + 1) else 0
  toInt r2 * num * two50 + sgn * (2 * rUp * 2 ^ 12 + (scale : Int) * 16)

def scale100 : Int := (scale : Int) * 2 ^ 100

/-- chord(p,c) ≤ √r2 + 2^-48 (and the relative 2^-50 on r2); `th = capThreshold r2 (2^50+1) 1`, `ic = ofV3 c` -/
def inCapSlackAbs (ic : IV3) (th : Int) (p : V3) : Bool :=
  !finite3 p || (ofV3 p).isZero || Pred.exactCompareDistanceS scale100 (ofV3 p) ic th ≤ 0
/-- chord(p,c) < √r2 − 2^-48; `th = capThreshold r2 (2^50−1) (−1)` -/
def inCapStrictAbs (ic : IV3) (th : Int) (p : V3) : Bool :=
  finite3 p && !(ofV3 p).isZero && Pred.exactCompareDistanceS scale100 (ofV3 p) ic th < 0

/-! ### exact convex-loop membership -/

def rot (l : List α) : List α := match l with | [] => [] | a :: t => t ++ [a]

/-- edges (v_i, v_{i+1}) as exact vectors -/
def loopEdges (vs : List V3) : List (IV3 × IV3) :=
  let iv := vs.map ofV3
  iv.zip (rot iv)

/-- the loop is, exactly, a strictly convex CCW polygon inside an open hemisphere -/
def isConvexLoop (vs : List V3) : Bool :=
  vs.length ≥ 3 && vs.all finite3 &&
  (let iv := vs.map ofV3
   let es := iv.zip (rot iv)
   let nxt := rot (rot iv)
   let m := iv.foldl IV3.add ⟨0, 0, 0⟩
   iv.all (fun v => decide (m.dot v > 0)) &&
   (es.zip nxt).all (fun (e, w) => decide (det3 e.1 e.2 w > 0)) &&
   es.all (fun e => iv.all fun w => decide (det3 e.1 e.2 w ≥ 0)))

def two96 : Int := 2 ^ 96

/-- det(a,b,p) ≥ −2^-48·|a||b||p| -/
def leftSlack (a b p : IV3) : Bool :=
  let d := det3 a b p
  decide (d ≥ 0) || decide (d * d * two96 ≤ a.norm2 * b.norm2 * p.norm2)
/-- det(a,b,p) > 2^-48·|a||b||p| -/
def leftStrict (a b p : IV3) : Bool :=
  let d := det3 a b p
  decide (d > 0) && decide (d * d * two96 > a.norm2 * b.norm2 * p.norm2)

def inLoopExact (es : List (IV3 × IV3)) (p : V3) : Bool :=
  finite3 p && (let ip := ofV3 p; es.all fun e => decide (det3 e.1 e.2 ip ≥ 0))
def inLoopSlack (es : List (IV3 × IV3)) (p : V3) : Bool :=
  !finite3 p || (let ip := ofV3 p; es.all fun e => leftSlack e.1 e.2 ip)
def inLoopStrict (es : List (IV3 × IV3)) (p : V3) : Bool :=
  finite3 p && (let ip := ofV3 p; es.all fun e => leftStrict e.1 e.2 ip)

/-- decide convexity once -/
def Reg.prepare (r : Reg) : Reg :=
  match r with
  | .loop vs _ => .loop vs (isConvexLoop vs)
  | r => r

/-! ### cell sample points from the STUV model -/

/-- the four raw vertices (`Cell.VertexRaw`) and the raw centre (`CellID.rawPoint`) -/
def cellSamples (id : CellID) : List V3 :=
  let (f, uLo, uHi, vLo, vHi) := uvBounds id
  let (cf, si, ti) := Hilbert.faceSiTi id
  [STUV.faceUVToXYZ f uLo vLo, STUV.faceUVToXYZ f uHi vLo, STUV.faceUVToXYZ f uHi vHi,
   STUV.faceUVToXYZ f uLo vHi, STUV.faceSiTiToXYZ cf si ti]

/-! ### level discipline -/

/-- what the code guarantees for `Covering` / `InteriorCovering` / `FastCovering`:
    `minLevel ≤ level`, `(level − minLevel) % levelMod = 0`, and `level ≤ maxLevel` when
    `minLevel ≤ maxLevel`; when the user sets `MaxLevel < MinLevel`, MinLevel wins: `level = minLevel`. -/
def lvlOK (cfg : Config) (c : CellID) : Bool :=
  isValid c && decide (cfg.minLevel ≤ level c) && (level c - cfg.minLevel) % cfg.levelMod == 0 &&
    (if cfg.minLevel ≤ cfg.maxLevel then decide (level c ≤ cfg.maxLevel) else level c == cfg.minLevel)

/-- for `CellUnion` / `InteriorCellUnion` only the upper limit is promised -/
def lvlMaxOK (cfg : Config) (c : CellID) : Bool :=
  isValid c && decide (level c ≤ max cfg.maxLevel cfg.minLevel)

def judgeDenorm (cfg : Config) (which : String) (o : Option CU) : Option String :=
  match o with
  | none => none
  | some cu =>
    if !cu.all isValid then some ("notvalid-" ++ which)
    else if !cu.all (lvlOK cfg) then some ("level-" ++ which)
    else if !isValidCU cu then some ("notvalid-" ++ which)
    else none

def judgeUnion (cfg : Config) (which : String) (o : Option CU) : Option String :=
  match o with
  | none => none
  | some cu =>
    if !cu.all isValid then some ("notvalid-" ++ which)
    else if !cu.all (lvlMaxOK cfg) then some ("level-" ++ which)
    else if !isNormalizedCU cu then some ("notnormalized-" ++ which)
    else none

def firstSome (l : List (Unit → Option String)) : Option String :=
  l.findSome? fun f => f ()

/-! ### region membership used by the judges -/

/-- keep the supplied points the oracle can itself certify (or has to trust) to be in the region -/
def certifiedPts (r : Reg) (pts : List V3) : List V3 :=
  match r with
  | .cap c r2 => if capOK c r2 then pts.filter (inCapExact c r2) else []
  | .cell id => if isValid id then pts.filter (boxesContainExact [boxOf id]) else []
  | .cu cells _ => let bxs := (cells.filter isValid).map boxOf; pts.filter (boxesContainExact bxs)
  | .loop vs conv =>
    if conv then (let es := loopEdges vs; pts.filter (inLoopExact es)) else pts.filter finite3
  | _ => pts.filter finite3

/-- is the cell (through its 4 raw vertices and raw centre) inside the region?  `none` = not judged -/
def cellInRegion (r : Reg) : Option (CellID → Bool) :=
  match r with
  | .cap c r2 => if capOK c r2 then (let ic := ofV3 c; let th := capThreshold r2 (two50 + 1) 1; some (fun id => (cellSamples id).all (inCapSlackAbs ic th))) else none
  | .cell rid => let rc := canon [rid]; some (fun id => runsSubset (canon [id]) rc)
  | .cu cells _ => let rc := canon cells; some (fun id => runsSubset (canon [id]) rc)
  | .loop vs conv =>
    if conv then (let es := loopEdges vs; some (fun id => (cellSamples id).all (inLoopSlack es)))
    else none
  | _ => none

/-- `float64(1 − 1e-9)`: a point with |z| at or above it is within ≈ 4.5e-5 rad of a pole.
    (Measured reach of finding F-A: coverings miss points up to 1.0e-5 rad from a pole, `IntersectsCell` is wrong for
    cells holding rectangle points up to 2.7e-5 rad; 1 − 1e-12 ≈ 1.4e-6 rad was too narrow.) -/
def polarZ : F64 := ⟨0x3fefffffff768fa1⟩

def isPolarPt (p : V3) : Bool := F64.ge p.z.abs polarZ

/-- the known class "lat-lng rectangle next to a pole" (finding F-A, `Rect.IntersectsCell`) gets its own clause -/
def polarSuffix (r : Reg) (p : V3) : String :=
  match r with
  | .rect => if isPolarPt p then "-polar-rect" else ""
  | _ => ""

def judgeMiss (which : String) (r : Reg) (pts : List LPt) (o : Option CU) : Option String :=
  match o with
  | none => none
  | some cu =>
    let a := cu.toArray
    let rs := a.map fun c => (rangeMin c, rangeMax c)
    let boxes : Thunk (Array Box) := Thunk.mk fun _ => a.map boxOf
    let missed := pts.filter fun q => !cellsCoverPoint a boxes rs q
    -- a miss outside the polar class decides the clause
    match missed.find? (fun q => polarSuffix r q.p == ""), missed.head? with
    | some _, _ => some which
    | none, some q => some (which ++ polarSuffix r q.p)
    | none, none => none

/-- at most `n` evenly spread elements -/
def spread (n : Nat) (l : List α) : List α :=
  if l.length ≤ n then l else
  let a := l.toArray
  (List.range n).filterMap fun i => a[i * a.size / n]?

/-- every interior cell is tested when there are at most 200, otherwise 200 evenly spread ones;
    `skip`: cells already judged (the interior covering, when judging the interior cell union) -/
def judgeInterior (which : String) (f? : Option (CellID → Bool)) (skip : CU) (o : Option CU) : Option String :=
  match o, f? with
  | some cu, some f =>
    let cu := if skip.isEmpty then cu else (let sk := skip.toArray; cu.filter fun c => !(sk.binSearchContains c (· < ·)))
    if (spread 200 cu).all (fun c => !isValid c || f c) then none else some which
  | _, _ => none

/-! ### model -/

/-- the exact-id regions: the SAME `Region` values the theorems of `S2Proofs.Properties.C05_Cells`
    are about (`S2.Coverer.regionOf`) -/
def modelKind (r : Reg) : Option RegionKind :=
  match r with
  | .cell id => some (.cell id)
  | .cu cells _ => some (.cellUnion cells)
  | _ => none

def modelRegion (r : Reg) : Option Region := (modelKind r).map regionOf

/-- the model `Region` used by op `pred`: the exact-id regions and (package c05cap) the CAP region with the bit-exact
    soft-float model of `Cap.ContainsCell` / `Cap.IntersectsCell` (`S2.CapCell.capRegion`, the value the theorems of
    `S2Proofs.Properties.C05_Cap` are about).  Not used by op `cov`: a whole covering through the soft-float predicates
    costs seconds per line (MaxCells up to 10^4). -/
def modelRegionPred (r : Reg) : Option Region :=
  match r with
  | .cap c r2 => some (CapCell.capRegion ⟨c, r2⟩)
  | _ => modelRegion r

def parseRes? (s : String) : Option (Option CU) :=
  if s == "x" then some none else (parseCU? s).map some

def showRes (o : Option CU) : String := match o with | none => "x" | some cu => showCU cu

/-- replace the model value by the implementation's when there is nothing to compare -/
def pick (have? : Bool) (model : Unit → CU) (impl : Option CU) : Option CU :=
  match impl with
  | none => none
  | some i => if have? then some (model ()) else some i

def handleCov (kind params : String) (sMin sMax sMod sCells ops sPts : String) (res : List String) : Option String := do
  let reg ← (parseReg? kind params).map Reg.prepare
  let o : Options := ⟨← parseInt? sMin, ← parseInt? sMax, ← parseInt? sMod, ← parseInt? sCells⟩
  let pts ← parsePts? sPts
  let _ := ops
  match res with
  | [rb, rs, rc, ri, ru, riu, rf] =>
    match parseCU? rb, parseCU? rs, parseRes? rc, parseRes? ri, parseRes? ru, parseRes? riu, parseRes? rf with
    | some bound, some start, some cov, some icov, some cu, some icu, some fast =>
      let cfg := newCoverer o
      -- model
      let mStart := startCells o (fun _ => start) bound
      let mFast := pick true (fun _ => fastCovering o (fun _ => fast.getD []) bound) fast
      let mr := modelRegion reg
      let R : Region := mr.getD ⟨fun _ => false, fun _ => false⟩
      let mCov := pick mr.isSome (fun _ => covering o R start) cov
      let mICov := pick mr.isSome (fun _ => interiorCovering o R start) icov
      let mCU := pick mr.isSome (fun _ => cellUnion o R start) cu
      let mICU := pick mr.isSome (fun _ => interiorCellUnion o R start) icu
      let model := [rb, showCU mStart, showRes mCov, showRes mICov, showRes mCU, showRes mICU, showRes mFast]
      -- property
      let cpts := (certifiedPts reg pts).map mkLPt
      let inReg := cellInRegion reg
      let prop := firstSome [
        fun _ => judgeDenorm cfg "covering" cov,
        fun _ => judgeDenorm cfg "interiorcovering" icov,
        fun _ => judgeDenorm cfg "fastcovering" fast,
        fun _ => judgeUnion cfg "cellunion" cu,
        fun _ => judgeUnion cfg "interiorcellunion" icu,
        fun _ => judgeMiss "covering-misses-point" reg cpts cov,
        fun _ => judgeMiss "cellunion-misses-point" reg cpts cu,
        fun _ => judgeMiss "fastcovering-misses-point" reg cpts fast,
        fun _ => judgeInterior "interior-cell-not-contained" inReg [] icov,
        fun _ => judgeInterior "interiorunion-cell-not-contained" inReg (icov.getD []) icu]
      pure (verdictP model res prop)
    | _, _, _, _, _, _, _ =>
      if res.any (fun t => t.startsWith "PANIC") then pure ("propfail panic " ++ " ".intercalate res)
      else if res.any (· == "HANG") then pure "propfail hang"
      else pure "bad cov-result-tokens"
  | _ =>
    if res.any (fun t => t.startsWith "PANIC") then pure ("propfail panic " ++ " ".intercalate res)
    else if res.any (· == "HANG") then pure "propfail hang"
    else pure "bad cov-result-arity"

/-! ### pred -/

/-- (inRegionWithSlack, strictlyInRegion) for a sample point; `none` = kind not judged -/
def predTests (r : Reg) (ulp : Bool) : Option ((V3 → Bool) × (V3 → Bool)) :=
  match r with
  | .cap c r2 =>
    if !capOK c r2 then none
    else if ulp then some (inCapSlack c r2, inCapStrict c r2)
    else (let ic := ofV3 c; some (inCapSlackAbs ic (capThreshold r2 (two50 + 1) 1), inCapStrictAbs ic (capThreshold r2 (two50 - 1) (-1))))
  | .cell id =>
    let bx := boxOf id
    some (fun p => bx.containsClosed (ofV3 p), fun p => bx.containsOpen (ofV3 p))
  | .cu cells _ =>
    let bxs := (cells.filter isValid).map boxOf
    some (fun p => let ip := ofV3 p; bxs.any (·.containsClosed ip),
          fun p => let ip := ofV3 p; bxs.any (·.containsOpen ip))
  | .loop vs conv =>
    if conv then (let es := loopEdges vs; some (inLoopSlack es, inLoopStrict es)) else none
  | _ => none

/-- rect: Go-vs-Go consistency.  `flags` = `Rect.ContainsPoint(sample)` per sample, computed by the harness.
    ContainsCell=T ⇒ every kept sample is accepted; IntersectsCell=F ⇒ no kept sample is accepted. -/
def judgeRectPred (cT iT : Bool) (kept : List (V3 × Bool)) : Option String :=
  let clause (name : String) (bad : List (V3 × Bool)) : Option String :=
    match bad.find? (fun s => !isPolarPt s.1), bad.head? with
    | some _, _ => some name
    | none, some _ => some (name ++ "-polar-rect")
    | none, none => none
  let c := if cT then clause "containsCell-unsound" (kept.filter fun s => !s.2) else none
  match c with
  | some x => some x
  | none =>
    let i := if !iT then clause "intersectsCell-unsound" (kept.filter fun s => s.2) else none
    match i with
    | some x => some x
    | none => if cT && !iT then some "contains-without-intersects" else none

def handlePred (ulp : Bool) (kind params sCell sSamples : String) (res : List String) : Option String := do
  let reg ← (parseReg? kind params).map Reg.prepare
  let id ← parseU64? sCell
  let samples ← parsePts? sSamples
  match res with
  | [c, i, flags] =>
    match parseBool? c, parseBool? i, flags.toList.mapM (fun ch => parseBool? (String.singleton ch)) with
    | some cT, some iT, some fl =>
      if !isValid id then pure "bad pred-invalid-cell"
      else if fl.length != samples.length then pure "bad pred-flags-length"
      else
        let bx := boxOf id
        let kept := (samples.zip fl).filter fun s => finite3 s.1 && bx.containsClosed (ofV3 s.1)
        let prop := match reg with
          | .rect => judgeRectPred cT iT kept
          | _ => none
        pure (verdictP res res prop)
    | _, _, _ => pure "bad pred-result-tokens"
  | [c, i] =>
    match parseBool? c, parseBool? i with
    | some cT, some iT =>
      if !isValid id then pure "bad pred-invalid-cell" else
      let bx := boxOf id
      let ss := samples.filter fun p => finite3 p && bx.containsClosed (ofV3 p)
      let prop : Option String :=
        match predTests reg ulp with
        | none => none
        | some (inSlack, inStrict) =>
          if cT && !ss.all inSlack then some "containsCell-unsound"
          else if !iT && ss.any inStrict then some "intersectsCell-unsound"
          else if cT && !iT then some "contains-without-intersects"
          else none
      -- model: exact id predicates for cell / cell-union regions
      let model : List String := match modelRegionPred reg with
        | some R => [showBool (R.containsCell id), showBool (R.intersectsCell id)]
        | none => res
      pure (verdictP model res prop)
    | _, _ =>
      if res.any (fun t => t.startsWith "PANIC") then pure ("propfail panic " ++ " ".intercalate res)
      else pure "bad pred-result-tokens"
  | _ =>
    if res.any (fun t => t.startsWith "PANIC") then pure ("propfail panic " ++ " ".intercalate res)
    else if res.any (· == "HANG") then pure "propfail hang"
    else pure "bad pred-result-arity"

def handle (op : String) (args res : List String) : Option String :=
  match op, args with
  | "cov", [kind, params, a, b, c, d, ops, pts] => handleCov kind params a b c d ops pts res
  | "pred", [kind, params, cell, samples] => handlePred false kind params cell samples res
  | "predx", [kind, params, cell, samples] => handlePred true kind params cell samples res
  | _, _ => none

end Oracle.C05
