/-
  Oracle.C01pt — handler of the C01 op `cidpt x y z = <leaf id> <mask>`:
  "every point maps to a valid leaf cell that contains it, and every ancestor of that leaf
   (at every level 0..30) contains the point".

  model   : `cellIDFromPoint` in the soft-float (bit-exact), `Cell.ContainsPoint` of the 31 ancestors.
  property: (on the implementation's own output) the id is a valid leaf, the mask is all ones, and — exact
            judge — the point's exact (u,v) on the leaf's face lies in every ancestor's closed uv-rectangle
            expanded by the documented margin: `2·dblEpsilon` (the expansion in ContainsPoint after repair D46;
            it was `dblEpsilon`) plus `maxXYZtoUVError = dblEpsilon/2` (the documented error of the float division
            that ContainsPoint compares) plus dblEpsilon/2 for the rounding of `lo − margin`; together 3·dblEpsilon.
-/
import Oracle.Basic
import Oracle.C12Judge
import S2.CellM
namespace Oracle.C01pt
open Oracle S2 S2.CellID S2.Hilbert S2.STUV S2.CellM Oracle.C12J

def modelMask (id : CellID) (p : V3) : Nat :=
  (List.range 31).foldl (fun m l =>
    if containsPoint (cellFromCellID (parent id l)) p then m ||| (1 <<< l) else m) 0

/-- exact: `lo − 3eps ≤ t.x/t.z ≤ hi + 3eps` and the same for y, with t.z > 0 (t = point in the face's uvw frame) -/
def exactInExpanded (c : Cell) (p : V3) : Bool :=
  let t := faceXYZtoUVW c.face p
  let tx := Dy.ofF64 t.x; let ty := Dy.ofF64 t.y; let tz := Dy.ofF64 t.z
  let m := Dy.add (Dy.pow2 (-51)) (Dy.pow2 (-52))
  let ge (a : Dy) (b : Dy) : Bool := (Dy.sub a b).sign ≥ 0
  tz.sign > 0 &&
  ge tx (Dy.mul (Dy.sub (Dy.ofF64 c.uv.1.1) m) tz) && ge (Dy.mul (Dy.add (Dy.ofF64 c.uv.1.2) m) tz) tx &&
  ge ty (Dy.mul (Dy.sub (Dy.ofF64 c.uv.2.1) m) tz) && ge (Dy.mul (Dy.add (Dy.ofF64 c.uv.2.2) m) tz) ty

def handle (op : String) (args res : List String) : Option String :=
  match op, args with
  | "cidpt", [a, b, c] => do
    let p ← parseV3? a b c
    if !(finiteV p && nonzeroV p) then pure "bad cidpt-out-of-contract-point" else
    let id := cellIDFromPoint p
    let model := [u64Hex id, u64Hex (UInt64.ofNat (modelMask id p))]
    let prop : Option String := match res with
      | [gid, gmask] => (do
          let gid ← parseU64? gid
          let gmask ← parseU64? gmask
          pure (
            if !(isValid gid && isLeaf gid) then some "point-leaf-not-a-valid-leaf"
            else if gmask != 0x7FFFFFFF then some "ancestor-does-not-contain-point"
            else match (List.range 31).find? (fun l => !exactInExpanded (cellFromCellID (parent gid l)) p) with
              | some l => some s!"exact-uv-outside-ancestor-margin level={l}"
              | none => none)).getD (some "unparseable-impl-output")
      | _ => some "impl-output-arity"
    pure (verdictP model res prop)
  | _, _ => none

end Oracle.C01pt
