/-
  Oracle.C06a — correspondence + property judge for work package c06a:
    c06shape  every Shape accessor of a generated shape: model (regenerated accessor arithmetic
              `S2.Generated.*`, hand model for Polygon.Edge/Chain/ChainPosition) vs implementation,
              and the Shape contract (i)-(iv) judged on the implementation's own outputs
              (`S2.Shapes.checkContract`); a Go panic ("!") is a contract failure.
    c06loc / c06locp / c06seek   LocateCellID / LocatePoint / seek vs the model S2.Locate and vs the
              brute-force definition (scan of all index cells).
-/
import Oracle.Proto
import S2.Shapes
import S2.Generated.ShapeAccessors
import S2.Locate
namespace Oracle.C06a
open Oracle S2 S2.Shapes

abbrev L := Int × Int
abbrev E := L × L

def wrap (o : Option (Int × Int)) : Option E := o.map fun (a, b) => ((0, a), (0, b))

namespace G
def loop (s : LoopS) : ShapeAcc L :=
  ⟨some (S2.Generated.Loop.NumEdges s), some (S2.Generated.Loop.NumChains s), fun e => wrap (S2.Generated.Loop.Edge s e), fun i => some (S2.Generated.Loop.Chain s i),
   fun i j => wrap (S2.Generated.Loop.ChainEdge s i j), fun e => some (S2.Generated.Loop.ChainPosition s e)⟩
def polyline (s : SeqS) : ShapeAcc L :=
  ⟨some (S2.Generated.Polyline.NumEdges s), some (S2.Generated.Polyline.NumChains s), fun e => wrap (S2.Generated.Polyline.Edge s e), fun i => some (S2.Generated.Polyline.Chain s i),
   fun i j => wrap (S2.Generated.Polyline.ChainEdge s i j), fun e => some (S2.Generated.Polyline.ChainPosition s e)⟩
def laxPolyline (s : SeqS) : ShapeAcc L :=
  ⟨some (S2.Generated.LaxPolyline.NumEdges s), some (S2.Generated.LaxPolyline.NumChains s), fun e => wrap (S2.Generated.LaxPolyline.Edge s e), fun i => some (S2.Generated.LaxPolyline.Chain s i),
   fun i j => wrap (S2.Generated.LaxPolyline.ChainEdge s i j), fun e => some (S2.Generated.LaxPolyline.ChainPosition s e)⟩
def pointVector (s : SeqS) : ShapeAcc L :=
  ⟨some (S2.Generated.PointVector.NumEdges s), some (S2.Generated.PointVector.NumChains s), fun e => wrap (S2.Generated.PointVector.Edge s e), fun i => some (S2.Generated.PointVector.Chain s i),
   fun i j => wrap (S2.Generated.PointVector.ChainEdge s i j), fun e => some (S2.Generated.PointVector.ChainPosition s e)⟩
def laxLoop (s : LaxLoopS) : ShapeAcc L :=
  ⟨some (S2.Generated.LaxLoop.NumEdges s), some (S2.Generated.LaxLoop.NumChains s), fun e => wrap (S2.Generated.LaxLoop.Edge s e), fun i => some (S2.Generated.LaxLoop.Chain s i),
   fun i j => wrap (S2.Generated.LaxLoop.ChainEdge s i j), fun e => some (S2.Generated.LaxLoop.ChainPosition s e)⟩
def laxPolygon (s : LaxPolygonS) : ShapeAcc L :=
  ⟨S2.Generated.LaxPolygon.NumEdges s, some (S2.Generated.LaxPolygon.NumChains s), fun e => wrap (S2.Generated.LaxPolygon.Edge s e), S2.Generated.LaxPolygon.Chain s,
   fun i j => wrap (S2.Generated.LaxPolygon.ChainEdge s i j), S2.Generated.LaxPolygon.ChainPosition s⟩
def polygon (s : PolygonS) : ShapeAcc L :=
  ⟨some (S2.Generated.Polygon.NumEdges s), some (S2.Generated.Polygon.NumChains s), Shapes.Polygon.Edge s, Shapes.Polygon.Chain s,
   S2.Generated.Polygon.ChainEdge s, Shapes.Polygon.ChainPosition s⟩
end G

/-! parsing -/
def pInt? (s : String) : Option Int := s.toInt?
def pLabel? (s : String) : Option L :=
  match s.splitOn "." with
  | [a, b] => do pure ((← pInt? a), (← pInt? b))
  | _ => none
def pEdge? (s : String) : Option E :=
  match s.splitOn "-" with
  | [a, b] => do pure ((← pLabel? a), (← pLabel? b))
  | _ => none
def pItems (s : String) : List String := if s == "-" then [] else s.splitOn ";"

def showL (l : L) : String := s!"{l.1}.{l.2}"
def showE (e : E) : String := showL e.1 ++ "-" ++ showL e.2
def showOpt (f : α → String) : Option α → String
  | some a => f a
  | none => "!"
def showPair (p : Int × Int) : String := s!"{p.1}.{p.2}"
def joinOr (l : List String) : String := if l.isEmpty then "-" else ";".intercalate l

def natRange (n : Int) : List Int := (List.range n.toNat).map (fun (k : Nat) => (k : Int))

/-- render a model accessor record exactly like the harness renders the implementation -/
def render (A : ShapeAcc L) : List String :=
  match A.numEdges, A.numChains with
  | some ne, some nc =>
    let edges := (natRange ne).map fun e => showOpt showE (A.edge e)
    let poss := (natRange ne).map fun e => showOpt showPair (A.chainPosition e)
    let chains := (natRange nc).map fun i => showOpt showPair (A.chain i)
    let ces := (natRange nc).flatMap fun i =>
      match A.chain i with
      | some (_, len) => (natRange len).map fun j => s!"{i}.{j}." ++ showOpt showE (A.chainEdge i j)
      | none => []
    [toString ne, toString nc, joinOr edges, joinOr chains, joinOr poss, joinOr ces]
  | a, b => [showOpt toString a, showOpt toString b, "-", "-", "-", "-"]

/-- the implementation's outputs as an accessor record (`!`/unparseable = none) -/
def implAcc (ne nc : Int) (edges chains poss ces : String) : ShapeAcc L :=
  let ed := (pItems edges).toArray.map pEdge?
  let ch := (pItems chains).toArray.map fun s => match s.splitOn "." with
    | [a, b] => (do pure ((← pInt? a), (← pInt? b)) : Option (Int × Int))
    | _ => none
  let ps := (pItems poss).toArray.map fun s => match s.splitOn "." with
    | [a, b] => (do pure ((← pInt? a), (← pInt? b)) : Option (Int × Int))
    | _ => none
  let ce : List ((Int × Int) × Option E) := (pItems ces).filterMap fun s =>
    match s.splitOn "." with
    | i :: j :: rest => do
      let i ← pInt? i; let j ← pInt? j
      pure ((i, j), pEdge? (".".intercalate rest))
    | _ => none
  let at? {β : Type} (arr : Array (Option β)) (i : Int) : Option β :=
    if 0 ≤ i then (arr[i.toNat]?).join else none
  ⟨some ne, some nc, at? ed, at? ch, fun i j => ((ce.find? fun x => x.1 == (i, j)).map (·.2)).join, at? ps⟩

def pSizes? (s : String) : Option (List Nat) := parseList? parseNat? s

def modelOf (typ st : String) : Option (ShapeAcc L) :=
  let body := (st.drop 3).toString
  match typ with
  | "loop" => match body.splitOn "." with
    | [n, d, o] => do pure (G.loop ⟨← n.toNat?, (← o.toNat?) == 1, ← d.toNat?⟩)
    | _ => none
  | "polyline" => do pure (G.polyline ⟨← body.toNat?⟩)
  | "laxpolyline" => do pure (G.laxPolyline ⟨← body.toNat?⟩)
  | "pointvector" => do pure (G.pointVector ⟨← body.toNat?⟩)
  | "laxloop" => do pure (G.laxLoop (LaxLoopS.ofLen (← body.toNat?)))
  | "laxpolygon" => do pure (G.laxPolygon (LaxPolygonS.ofLens (← pSizes? body)))
  | "polygon" => do
    let loops ← (if body == "-" then some [] else (body.splitOn ",").mapM fun t =>
      match t.splitOn "." with
      | [n, d, o] => (do pure (⟨← n.toNat?, (← o.toNat?) == 1, ← d.toNat?⟩ : LoopS) : Option LoopS)
      | _ => none)
    pure (G.polygon (PolygonS.init loops))
  | _ => none

open S2.CellID S2.Locate in
def bruteLocate (cells : List CellID) (t : CellID) : Relation × Option Nat :=
  match cells.findIdx? (fun c => contains c t) with
  | some k => (.indexed, some k)
  | none =>
    match cells.findIdx? (fun c => contains t c) with
    | some k => (.subdivided, some k)
    | none => (.disjoint, none)

open S2.CellID S2.Locate in
def handle (op : String) (args res : List String) : Option String :=
  match op, args with
  | "c06shape", typ :: _ => do
    match res with
    | [st, ne, nc, edges, chains, poss, ces] =>
      let model ← modelOf typ st
      let mtoks := st :: render model
      match ne.toInt?, nc.toInt? with
      | some nei, some nci =>
        let prop := (checkContract (implAcc nei nci edges chains poss ces) nei nci).map fun m => typ ++ ":" ++ m
        pure (verdictP mtoks res prop)
      | _, _ => pure (verdictP mtoks res (some (typ ++ ":(iv)NumEdges-or-NumChains-panics")))
    | _ => pure "propfail impl-output-arity"
  | "c06loc", [cs, t] => do
    let cells ← parseList? parseU64? cs; let t ← parseU64? t
    let (rel, pos) := locateCellID cells t
    let model := [toString rel.toNat, toString pos]
    let (brel, bpos) := bruteLocate cells t
    let prop : Option String := match res with
      | [r, p] =>
        if r != toString brel.toNat then some s!"LocateCellID-relation≠brute-force({brel.toNat})"
        else match bpos with
          | some k => if p != toString k then some s!"LocateCellID-position≠cell({k})" else none
          | none => none
      | _ => some "impl-output-arity"
    pure (verdictP model res prop)
  | "c06locp", [cs, _] => do
    let cells ← parseList? parseU64? cs
    match res with
    | [tg, f, p] =>
      let t ← parseU64? tg
      let (found, pos) := locatePoint cells t
      let model := [tg, showBool found, toString pos]
      let prop : Option String := match cells.findIdx? (fun c => contains c t) with
        | some k => if f != "T" then some "LocatePoint-misses-containing-cell" else if p != toString k then some s!"LocatePoint-position≠cell({k})" else none
        | none => if f != "F" then some "LocatePoint-true-without-containing-cell" else none
      pure (verdictP model res prop)
    | _ => pure "propfail impl-output-arity"
  | "c06seek", [cs, t] => do
    let cells ← parseList? parseU64? cs; let t ← parseU64? t
    let model := [toString (seek cells t)]
    let want := (cells.findIdx? (fun c => c ≥ t)).getD cells.length
    let prop := if res != [toString want] then some s!"seek≠first-cell≥target({want})" else none
    pure (verdictP model res prop)
  | _, _ => none

end Oracle.C06a
