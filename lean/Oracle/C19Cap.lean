/-
  Oracle.C19Cap — correspondence + property judge for s2.Cap / s1.ChordAngle (property C19, caps).

  Ops:
    chord c o e                       ChordAngle arithmetic: Add Sub Expanded(e) Successor Predecessor Sin2 Cos
                                      + ChordAngleFromSquaredLength(e)
    cap  a(cx cy cz r) b(4) dist dc probes(x:y:z,…)
         a, b valid caps; `dist` = expansion angle (radians), `dc` = Go's ChordAngleFromAngle(dist)
         (sin is not modelled, the harness supplies it); probes = (approximately) unit points.
  Result tokens of `cap` (see harness/c19cap.go):
    validA validB emptyA fullA contains intersects interiorIntersects equal height
    complement(4) addCap(4) expanded(4) union(4)   then per probe: containsPoint interiorContainsPoint addPoint(4)
  Everything except `union` (trigonometry) is compared bit-exactly with the model `S2.CapM` on the soft-float.
  The property clauses are judged on Go's OWN output twice:
    * with the library's own point membership (`ContainsPoint`, recomputed bit-exactly by the model), and
    * with EXACT membership: the exact rational |c − p|² of the float points compared with the radius
      (clauses suffixed `-exact`), only for the operations that promise rounding slack or are exact by construction.
-/
import Oracle.Basic
import S2.CapM
import S2.Exact
namespace Oracle.C19Cap
open Oracle S2 S2.CapF64

def showCap (c : Cap) : List String := showV3 c.center ++ [showF64 c.radius]

def pCap? : List String → Option (Cap × List String)
  | a :: b :: c :: r :: rest => do
    let v ← parseV3? a b c; let r ← parseF64? r; pure (⟨v, r⟩, rest)
  | _ => none
def pB? : List String → Option (Bool × List String)
  | a :: rest => do let b ← parseBool? a; pure (b, rest)
  | _ => none

def parsePts? (s : String) : Option (List V3) :=
  parseList? (fun t => match t.splitOn ":" with
    | [a, b, c] => parseV3? a b c
    | _ => none) s

def firstFail (l : List (String × Bool)) : Option String :=
  match l.find? (fun c => !c.2) with
  | some c => some c.1
  | none => none

/-- exact membership: |c − p|² ≤ r as rationals (full cap: everything; negative radius: nothing) -/
def inExact (c : Cap) (p : V3) : Bool :=
  if F64.ge c.radius Chord.f4 then true
  else if F64.lt c.radius Chord.f0 then false
  else
    let d := (Exact.ofV3 c.center).sub (Exact.ofV3 p)
    -- d.norm2 has scale 2^2148, the radius 2^1074
    decide (d.norm2 ≤ Exact.toInt c.radius * (Exact.scale : Int))

def inFloat (c : Cap) (p : V3) : Bool := c.containsPoint p

def capModel (a b : Cap) (dc : F64) (ps : List V3) (unionToks : List String) : List String :=
  [showBool a.isValid, showBool b.isValid, showBool a.isEmpty, showBool a.isFull,
   showBool (a.contains b), showBool (a.intersects b), showBool (a.interiorIntersects b), showBool (a.equal b),
   showF64 a.height] ++
  showCap a.complement ++ showCap (a.addCap b) ++ showCap (a.expanded dc) ++ unionToks ++
  ps.flatMap fun p =>
    [showBool (a.containsPoint p), showBool (a.interiorContainsPoint p)] ++ showCap (a.addPoint p)

/-- exact squared chord `|c − p|²` at scale 2^2148 -/
def d2Exact (c p : V3) : Int := ((Exact.ofV3 c).sub (Exact.ofV3 p)).norm2

/-- `x` (a float) at scale 2^2148 -/
def atScale2 (x : F64) : Int := Exact.toInt x * (Exact.scale : Int)

/-- rounding allowance (scale 2^2148) for a point `p` near the boundary of a cap with centre `c`:
    `2·| |p|² − 1 | + 2·| |c|² − 1 | + 16·2^-52`.  The first two terms are the exact defect of the chord identity
    `|c−p|² + |c+p|² = 2|c|² + 2|p|²` for not exactly normalised float points. -/
def tol (c p : V3) : Int :=
  let one2 : Int := (Exact.scale : Int) * (Exact.scale : Int)
  let defect (v : V3) : Int := ((Exact.ofV3 v).norm2 - one2).natAbs
  2 * defect p + 2 * defect c + one2 / 2 ^ 48

/-- p is not farther than the rounding allowance outside the cap (exact arithmetic) -/
def nearOrIn (c : Cap) (p : V3) : Bool :=
  if F64.ge c.radius Chord.f4 then true
  else if F64.lt c.radius Chord.f0 then false
  else decide (d2Exact c.center p ≤ atScale2 c.radius + tol c.center p)

/-- p is inside the cap by more than the rounding allowance (exact arithmetic) -/
def deepIn (c : Cap) (p : V3) : Bool :=
  if F64.ge c.radius Chord.f4 then true
  else if F64.lt c.radius Chord.f0 then false
  else decide (d2Exact c.center p + tol c.center p ≤ atScale2 c.radius)

/-- clauses judged with the library's own point membership (all operations but Union) -/
def clausesFloat (a b : Cap) (dcNonneg : Bool) (ps : List V3)
    (ci x : Bool) (cpl ac e : Cap) (aps : List (V3 × Cap)) : List (String × Bool) :=
  let ina := inFloat a
  let inb := inFloat b
  -- decisions at tangency: judged up to the rounding allowance `tol`
  [("cap-contains-true-but-point-missing", !ci || ps.all fun p => !inb p || ina p || nearOrIn a p),
   -- not judged when the two centres are within ~0.1 rad of antipodal: the squared-chord representation of their distance has
   -- a DOCUMENTED measurement error of up to sqrt(2e-15) = 4.5e-8 rad there (s1/chordangle.go), far more than `tol`
   ("cap-intersects-false-but-common-point",
      x || decide (d2Exact a.center b.center > atScale2 ⟨0x400FEB851EB851EC⟩) ||
        ps.all fun p => !(ina p && deepIn b p) && !(deepIn a p && inb p)),
   -- a point within rounding distance of the common boundary may belong to neither (tolerance, see `tol`)
   ("cap-complement-does-not-cover", ps.all fun p => ina p || inFloat cpl p || nearOrIn a p),
   ("cap-addCap-misses-point-beyond-rounding", ps.all fun p => !(ina p || inb p) || nearOrIn ac p),
   ("cap-addCap-misses-point", ps.all fun p => !(ina p || inb p) || inFloat ac p),
   ("cap-addCap-misses-point-exact", ps.all fun p => !(inExact a p || inExact b p) || inExact ac p),
   ("cap-expanded-loses-point", !dcNonneg || ps.all fun p => !ina p || inFloat e p)] ++
  aps.flatMap fun (p, ap) =>
    [("cap-addPoint-misses-new-point", inFloat ap p),
     ("cap-addPoint-loses-point", ps.all fun q => !ina q || inFloat ap q)]

/-- Union (trigonometry, judged only): beyond the rounding allowance / strictly with the library's own
    membership / strictly with exact membership -/
def clausesUnion (a b u : Cap) (ps : List V3) : List (String × Bool) :=
  [("cap-union-misses-point-beyond-rounding", ps.all fun p => !(inFloat a p || inFloat b p) || nearOrIn u p),
   ("cap-union-misses-point", ps.all fun p => !(inFloat a p || inFloat b p) || inFloat u p),
   ("cap-union-misses-point-exact", ps.all fun p => !(inExact a p || inExact b p) || inExact u p)]

def capProp (a b : Cap) (dc : F64) (ps : List V3) (res : List String) : Option String :=
  (do
    let (va, r) ← pB? res; let (vb, r) ← pB? r
    let r := r.drop 2
    let (ci, r) ← pB? r; let (x, r) ← pB? r; let (ix, r) ← pB? r
    let r := r.drop 2
    let (cpl, r) ← pCap? r; let (ac, r) ← pCap? r; let (e, r) ← pCap? r; let (u, r) ← pCap? r
    let mut aps : List (V3 × Cap) := []
    let mut rr := r
    let mut arity := true
    for p in ps do
      match rr with
      | _ :: _ :: t1 :: t2 :: t3 :: t4 :: rest =>
        match pCap? [t1, t2, t3, t4] with
        | some (ap, _) => aps := aps ++ [(p, ap)]
        | none => arity := false
        rr := rest
      | _ => arity := false
    let dcNonneg := F64.ge dc Chord.f0
    let unit (c : Cap) := c.isValid
    let basic : List (String × Bool) := [
      ("impl-output-arity", arity),
      ("cap-generated-operand-invalid", va && vb),
      ("cap-complement-invalid", unit cpl),
      ("cap-addCap-invalid", unit ac),
      ("cap-expanded-invalid", unit e),
      ("cap-union-invalid", unit u),
      ("cap-addPoint-invalid", aps.all fun (p, ap) => !Chord.isUnit p || unit ap),
      ("cap-interiorIntersects-true-but-intersects-false", !ix || x),
      ("cap-contains-true-but-intersects-false", !ci || b.isEmpty || x),
      -- an empty cap has no point: it intersects nothing (membership semantics; seeded change C19_5)
      ("cap-intersects-true-but-an-operand-is-empty", !(x && (a.isEmpty || b.isEmpty))),
      ("cap-interiorIntersects-true-but-an-operand-is-empty", !(ix && (a.isEmpty || b.isEmpty)))]
    pure (firstFail (basic ++ clausesFloat a b dcNonneg ps ci x cpl ac e aps ++ clausesUnion a b u ps))).getD
      (some "unparseable")

def handle (op : String) (args res : List String) : Option String :=
  match op, args with
  | "chord", [c, o, e] => do
    let c ← parseF64? c; let o ← parseF64? o; let e ← parseF64? e
    -- property on the implementation's own numbers: for valid operands (0 ≤ c, o ≤ 4) the sum and the difference are valid
    -- chord angles again (the sum is clamped at the straight angle: a value above 4 makes every cap built from it invalid)
    let four : F64 := ⟨0x4010000000000000⟩
    let valid (x : F64) : Bool := x.isFinite && F64.ge x (F64.zero false) && F64.le x four
    let prop : Option String :=
      if !(valid c && valid o) then none else
      match res with
      | ra :: rs :: _ =>
        match parseF64? ra, parseF64? rs with
        | some a, some sb =>
          if !(valid a) then some "chord-add-not-a-valid-chord-angle"
          else if !(valid sb) then some "chord-sub-not-a-valid-chord-angle" else none
        | _, _ => some "unparseable"
      | _ => some "impl-output-arity"
    pure (verdictP [showF64 (Chord.add c o), showF64 (Chord.sub c o), showF64 (Chord.expanded c e),
                   showF64 (Chord.successor c), showF64 (Chord.predecessor c), showF64 (Chord.sin2 c),
                   showF64 (Chord.cos c), showF64 (Chord.fromSquaredLength e)] res prop)
  | "cap", [a1, a2, a3, a4, b1, b2, b3, b4, _dist, dc, ps] => do
    let (a, _) ← pCap? [a1, a2, a3, a4]; let (b, _) ← pCap? [b1, b2, b3, b4]
    let dc ← parseF64? dc; let ps ← parsePts? ps
    -- union is judged only: its tokens are copied from the implementation
    let unionToks := (res.drop 21).take 4
    pure (verdictP (capModel a b dc ps unionToks) res (capProp a b dc ps res))
  | _, _ => none

end Oracle.C19Cap
