/-
  Oracle.C20 — judges for property C20 (approximation operators honour their tolerance).
  Ops: see harness/c20.go.  All comparisons are exact (rational arithmetic on the float values); the slacks
  that are granted are stated here:

  * distances measured by the harness in float64 (`maxdev`, `maxdrop`) are accepted up to
        bound(tol) = tol · (1 + 2^-20) + 2^-50        (≈ 1e-6 relative + 8.9e-16 rad absolute)
    — the measurement itself (Unproject, DistanceFromSegment, ChordAngle→Angle) has an absolute error of a few
    1e-16 rad, which is 0.1–1 % of the smallest tolerance (1e-13).
  * snap distances are decided exactly: |p − q|² (exact) against (2·S(r/2) + 2^-50)² where S is the degree-9
    Taylor upper bound of sin (error < 1e-10 relative for r ≤ 1.3); 2^-50 covers the non-unit length of p, q.
  * "lands on the grid": cell centres are decided exactly (bit-exact recomputation of `CellID.Point()`); for integer
    lat-lng sites the harness restates SnapPoint through the public API (in = LatLngFromPoint(p), k = Round(in°·10^e),
    out = LatLngFromDegrees(k·(1/10^e)), site = PointFromLatLng(out)); the oracle recomputes in -> (k, out) bit-exactly with
    `snapDegreeCoord` (a difference is a `diff`), compares q with site bit-exactly (`diff`) and judges |q − site| ≤ 2^-49
    and the integer ranges (`propfail snapi-off-grid`; a grid of 10^-10 degrees has a spacing of 1.7e-12 rad, far above 2^-49).
  * `c20scaled`: the threshold (2 sin(x/2))² of the tessellator is enclosed with Taylor bounds of sin at the bit-exact
    argument x = scaleFactor · max(tol, 1e-13), relative slack 2^-48.
  * projection round trips: see `projBound`.
-/
import Oracle.Basic
import S2.Approx
import S2.F64Extra
namespace Oracle.C20
open Oracle S2 S2.Approx

/-- exact value of a finite float -/
def rat (x : F64) : Rat :=
  let m : Rat := (x.mant : Int)
  let v : Rat := if x.expo ≥ 0 then m * (2 : Rat) ^ x.expo.toNat else m / (2 : Rat) ^ (-x.expo).toNat
  if x.signBit then -v else v

def rabs (q : Rat) : Rat := if q < 0 then -q else q
def rmax (a b : Rat) : Rat := if a < b then b else a
def p2 (k : Nat) : Rat := 1 / (2 : Rat) ^ k     -- 2^-k

/-- nearest integer (ties up) -/
def rround (q : Rat) : Int := (2 * q.num + q.den) / (2 * q.den)

def parseF2? (s : String) : Option (F64 × F64) :=
  match s.splitOn ":" with
  | [a, b] => do let x ← parseF64? a; let y ← parseF64? b; pure (x, y)
  | _ => none

def parseF3? (s : String) : Option V3 :=
  match s.splitOn ":" with
  | [a, b, c] => parseV3? a b c
  | _ => none

def finite2 (p : F64 × F64) : Bool := p.1.isFinite && p.2.isFinite
def finite3 (v : V3) : Bool := v.x.isFinite && v.y.isFinite && v.z.isFinite

/-- accepted measured distance for a requested tolerance -/
def bound (tol : Rat) : Rat := tol * (1 + p2 20) + p2 50

def firstSome (l : List (Option String)) : Option String := l.findSome? id

/-- exact |p − q|² -/
def dist2 (p q : V3) : Rat :=
  let dx := rat p.x - rat q.x; let dy := rat p.y - rat q.y; let dz := rat p.z - rat q.z
  dx * dx + dy * dy + dz * dz

/-- upper bound of sin x for x ≥ 0 (alternating Taylor series cut after a positive term) -/
def sinUB (x : Rat) : Rat :=
  let x2 := x * x
  x * (1 - x2 / 6 * (1 - x2 / 20 * (1 - x2 / 42 * (1 - x2 / 72))))

/-- is `q` farther from `p` than the angle `r` allows?  (exact, with the slack stated in the header) -/
def movedTooFar (p q : V3) (r : F64) : Bool :=
  let ub := 2 * sinUB (rat r / 2) + p2 50
  dist2 p q > ub * ub

/-- does the geodesic edge a-b pass within ~1e-9 of a pole (strictly between a and b)? -/
def poleCrossing (a b : V3) : Bool :=
  let ax := rat a.x; let ay := rat a.y; let az := rat a.z
  let bx := rat b.x; let by' := rat b.y; let bz := rat b.z
  let nx := ay * bz - az * by'; let ny := az * bx - ax * bz; let nz := ax * by' - ay * bx
  let n2 := nx * nx + ny * ny + nz * nz
  let s1 := ay * nx - ax * ny         -- (a × P)·n for P = +z
  let s2 := bx * ny - by' * nx         -- (P × b)·n
  nz * nz * 1000000000000000000 ≤ n2 && ((s1 > 0 && s2 > 0) || (s1 < 0 && s2 < 0))

def tolEff (tol : F64) : Rat := rmax (rat tol) (rat minTessellationTolerance)

/-- round-trip bound: squared distance allowed between p and Unproject(Project(p)).
    Plate carree: (2^-49)² .  Mercator: y = atanh(sin φ) is ill-conditioned towards the poles, the
    latitude error grows like 1/cos φ: (2^-48)² / cos²φ with cos²φ = x² + y². -/
def projBound (kind : String) (p : V3) : Rat × Rat :=   -- (lhs multiplier, rhs)
  if kind == "M" then (rat p.x * rat p.x + rat p.y * rat p.y, p2 96) else (1, p2 98)

def handle (op : String) (args res : List String) : Option String :=
  match op, args with
  | "c20tess", kind :: scale :: tol :: dir :: cs => do
    let _scale ← parseF64? scale
    let tol ← parseF64? tol
    match res with
    | [n, chain, e0, e1, wrap, maxdev, _] =>
      let n ← parseNat? n
      let wrap ← parseF64? wrap
      let maxdev ← parseF64? maxdev
      if !maxdev.isFinite then pure "propfail tess-maxdev-not-finite" else
      let tooFar := rat maxdev > bound (tolEff tol)
      if dir == "proj" then
        let c ← cs.mapM parseF64?
        match c with
        | [ax, ay, az, bx, by', bz] =>
          let a : V3 := ⟨ax, ay, az⟩; let b : V3 := ⟨bx, by', bz⟩
          let ch ← parseList? parseF2? chain
          let e0 ← parseF2? e0; let e1 ← parseF2? e1
          if !(ch.all finite2 && finite2 e0 && finite2 e1) then pure "propfail tess-non-finite-vertex" else
          let w := rat wrap
          let xs := ch.map (fun p => rat p.1)
          let jump := (xs.zip (xs.drop 1)).any fun (x, y) => rabs (y - x) > w / 2 * (1 + p2 40)
          let lastOK := match ch.getLast? with
            | some l =>
              let d := rat l.1 - rat e1.1
              let k : Int := rround (d / w)
              F64.feq l.2 e1.2 && rabs (d - (k : Rat) * w) ≤ p2 46 * rmax (rabs (rat l.1)) w
            | none => false
          let firstOK := match ch.head? with
            | some f => F64.feq f.1 e0.1 && F64.feq f.2 e0.2
            | none => false
          let prop := firstSome [
            if ch.length != n || n < 2 then some "tess-chain-length" else none,
            if tooFar then some (if jump then "tess-tolerance-wrapjump" else if poleCrossing a b then "tess-tolerance-polecross"
              else if tolEff tol ≥ 1 / 10 then "tess-tolerance-coarse" else "tess-tolerance") else none,
            if !firstOK then some "tess-first-vertex" else none,
            if !lastOK then some "tess-last-vertex" else none,
            if jump then some "tess-wrap-jump" else none]
          pure (verdictP res res prop)
        | _ => none
      else
        let ch ← parseList? parseF3? chain
        let e0 ← parseF3? e0; let e1 ← parseF3? e1
        let _ := kind
        let prop := firstSome [
          if ch.length != n || n < 2 then some "tess-chain-length" else none,
          if !(ch.all finite3) then some "tess-non-finite-vertex" else none,
          if tooFar then some (if tolEff tol ≥ 1 / 10 then "tess-tolerance-coarse" else "tess-tolerance") else none,
          if ch.head? != some e0 then some "tess-first-vertex" else none,
          if ch.getLast? != some e1 then some "tess-last-vertex" else none]
        pure (verdictP res res prop)
    | _ => pure "propfail impl-output-arity"
  | "c20projrt", [kind, _scale, x, y, z] => do
    let p ← parseV3? x y z
    match res with
    | [pp, q, pq] =>
      let pp ← parseF2? pp; let q ← parseF3? q; let pq ← parseF2? pq
      if !finite3 q then pure "propfail projrt-unproject-not-finite" else
      let (m, rhs) := projBound kind p
      let prop := firstSome [
        if dist2 p q * m > rhs then some "projrt-unproject-project" else none,
        -- Project is a function of the point: the second projection may differ only by rounding
        if pp.1.isNaN || pp.2.isNaN || pq.1.isNaN || pq.2.isNaN then some "projrt-nan" else none]
      pure (verdictP res res prop)
    | _ => pure "propfail impl-output-arity"
  | "c20wrap", [_kind, scale, f, ax, ay, bx, by'] => do
    let scale ← parseF64? scale; let f ← parseF64? f
    let ax ← parseF64? ax; let ay ← parseF64? ay; let bx ← parseF64? bx; let by' ← parseF64? by'
    let w := wrapDestination (ax, ay) (bx, by') (wrapDistance scale)
    let i := interpolate f (ax, ay) (bx, by')
    pure (verdict [showF64 w.1, showF64 w.2, showF64 i.1, showF64 i.2] res)
  | "c20subs", [tol, verts] => do
    let tol ← parseF64? tol
    let vs ← parseList? parseF3? verts
    let va := vs.toArray
    let n := va.size
    match res with
    | [idxs, fe, maxdrop, _] =>
      let idxs ← parseList? parseNat? idxs
      let fe ← parseList? (fun s => match s.splitOn ":" with
        | [a, b] => do let a ← parseNat? a; let b ← parseNat? b; pure (a, b)
        | _ => none) fe
      let maxdrop ← parseF64? maxdrop
      let fev (i : Nat) : Nat := ((fe.find? (fun p => p.1 == i)).map (·.2)).getD (i + 1)
      let same (i j : Nat) : Bool := V3.feq (va.getD i default) (va.getD j default)
      let model := subsampleVertices n fev same
      let showIdx (l : List Nat) := showList toString l
      let te := rmax (rat tol) 0
      let prop := firstSome [
        if fe.any (fun p => !(p.1 < p.2 && p.2 < n)) then some "subs-findEndVertex-contract" else none,
        if n == 0 then (if idxs.isEmpty then none else some "subs-empty-input") else
        firstSome [
          if idxs.head? != some 0 then some "subs-first-index" else none,
          if idxs.any (· ≥ n) then some "subs-index-range" else none,
          if (idxs.zip (idxs.drop 1)).any (fun (a, b) => a ≥ b) then some "subs-not-increasing" else none,
          if (idxs.zip (idxs.drop 1)).any (fun (a, b) => same a b) then some "subs-duplicate-neighbours" else none,
          match idxs.getLast? with
          | some l => if same l (n - 1) then none else some "subs-last-vertex"
          | none => some "subs-first-index"],
        if !maxdrop.isFinite then some "subs-maxdrop-not-finite" else none,
        if rat maxdrop > bound te then some "subs-tolerance" else none]
      pure (verdictP [showIdx model] [showIdx idxs] prop)
    | _ => pure "propfail impl-output-arity"
  | "c20snapc", [lv, x, y, z] => do
    let p ← parseV3? x y z
    let level ← if lv == "new" then some 30 else parseNat? lv
    match res with
    | [q, r] =>
      let q ← parseF3? q; let r ← parseF64? r
      let mq := snapCellID level p
      let mr := if lv == "new" then newCellIDSnapperRadius else minSnapRadiusForLevel level
      let showP (v : V3) := ":".intercalate (showV3 v)
      let prop := firstSome [
        if !finite3 q then some "snapc-not-finite" else none,
        if cellPoint (CellID.parent (STUV.cellIDFromPoint q) level) != q then some "snapc-not-a-cell-centre" else none,
        if movedTooFar p q r then some "snap-radius" else none]
      pure (verdictP [showP mq, showF64 mr] res prop)
    | _ => pure "propfail impl-output-arity"
  | "c20snapi", [e, x, y, z] => do
    let p ← parseV3? x y z
    let e ← parseNat? e
    match res with
    | [q, r, inLat, inLng, klat, klng, outLat, outLng, site] =>
      let q ← parseF3? q; let r ← parseF64? r
      let inLat ← parseF64? inLat; let inLng ← parseF64? inLng
      let klat ← parseInt? klat; let klng ← parseInt? klng
      let outLat ← parseF64? outLat; let outLng ← parseF64? outLng
      let site ← parseF3? site
      -- model of the arithmetic between LatLngFromPoint and PointFromLatLng (both libm, not modelled)
      let (mkLat, mLat) := snapDegreeCoord e inLat
      let (mkLng, mLng) := snapDegreeCoord e inLng
      let prop := firstSome [
        if !(finite3 q && finite3 site) then some "snapi-not-finite" else none,
        if movedTooFar p q r then some "snap-radius" else none,
        -- q must coincide (to 2^-49) with the grid site recomputed from integer coordinates
        if klat.natAbs > 90 * 10 ^ e || klng.natAbs > 180 * 10 ^ e then some "snapi-off-grid" else none,
        if dist2 q site > p2 98 then some "snapi-off-grid" else none]
      pure (verdictP [showF64 (minSnapRadiusForExponent e), toString mkLat, toString mkLng, showF64 mLat, showF64 mLng,
                      ":".intercalate (showV3 site)]
                     [showF64 r, toString klat, toString klng, showF64 outLat, showF64 outLng, ":".intercalate (showV3 q)] prop)
    | _ => pure "propfail impl-output-arity"
  | "c20scaled", [tol] => do
    let tol ← parseF64? tol
    match res with
    | [c] =>
      let c ← parseF64? c
      -- ChordAngleFromAngle(x) = (2 sin(x/2))²,  x = scaleFactor · max(tol, minTol)  (bit-exact), sin by enclosure
      let x := scaledToleranceArg tol
      let h := rat x / 2
      let lo := 2 * (sinUB h - h ^ 11 / 39916800)      -- the next Taylor term makes it a lower bound
      let hi := 2 * sinUB h
      let v := rat c
      pure (if c.isFinite && lo * lo * (1 - p2 48) ≤ v && v ≤ hi * hi * (1 + p2 48) then "ok"
            else "diff arg=" ++ showF64 x)
    | _ => pure "propfail impl-output-arity"
  | "c20rad", [k, n] => do
    let n ← parseNat? n
    match res with
    | [r, lv, lvBelow] =>
      let r ← parseF64? r; let lv ← parseNat? lv; let lvBelow ← parseNat? lvBelow
      if k == "L" then
        let mr := minSnapRadiusForLevel n
        let below := F64.nextafter mr fzero
        let prop := if lv != n || lvBelow != min (n + 1) 30 then some "snap-level-inverse" else none
        pure (verdictP [showF64 mr, toString (levelForMaxSnapRadius mr), toString (levelForMaxSnapRadius below)]
          [showF64 r, toString lv, toString lvBelow] prop)
      else
        let mr := minSnapRadiusForExponent n
        let prop := if lv != n || lvBelow != min (n + 1) 10 then some "snap-exponent-inverse" else none
        pure (verdictP [showF64 mr] [showF64 r] prop)
    | _ => pure "propfail impl-output-arity"
  | _, _ => none

end Oracle.C20
