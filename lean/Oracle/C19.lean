/-
  Oracle.C19 — correspondence + property judge for the interval / rectangle algebra (property C19).

  Ops (floats are 16-hex-digit bit patterns; probe lists are comma separated, 2-d probes `x:y`):
    r1  alo ahi blo bhi m probes            r1.Interval
    s1  alo ahi blo bhi m probes            s1.Interval  (operands valid, probes in [-π, π])
    r2  a(4) b(4) mx my probes              r2.Rect      (x.lo x.hi y.lo y.hi)
    ll  a(4) b(4) mlat mlng probes          s2.Rect      (lat.lo lat.hi lng.lo lng.hi; operands valid)
  The model (`S2.Interval` instantiated with the soft-float `S2.F64`) must reproduce the implementation's
  result tokens bit for bit (`diff` otherwise), and the clauses of the property are evaluated with exact float
  comparisons on the implementation's OWN output (`propfail <clause>` otherwise).
-/
import Oracle.Basic
import S2.Interval
import Oracle.C19Cap
namespace Oracle.C19
open Oracle S2 S2.IvlF64

abbrev F := F64

def parseFs? (s : String) : Option (List F) := parseList? parseF64? s
def parsePairs? (s : String) : Option (List (F × F)) :=
  parseList? (fun t => match t.splitOn ":" with
    | [a, b] => do let x ← parseF64? a; let y ← parseF64? b; pure (x, y)
    | _ => none) s

def sR1 (i : R1 F) : List String := [showF64 i.lo, showF64 i.hi]
def sS1 (i : S1 F) : List String := [showF64 i.lo, showF64 i.hi]
def sR2 (r : R2Rect F) : List String := sR1 r.x ++ sR1 r.y
def sLL (r : LLRect F) : List String := sR1 r.lat ++ sS1 r.lng

def pR1? : List String → Option (R1 F × List String)
  | a :: b :: rest => do let x ← parseF64? a; let y ← parseF64? b; pure (⟨x, y⟩, rest)
  | _ => none
def pS1? : List String → Option (S1 F × List String)
  | a :: b :: rest => do let x ← parseF64? a; let y ← parseF64? b; pure (⟨x, y⟩, rest)
  | _ => none
def pR2? (l : List String) : Option (R2Rect F × List String) := do
  let (x, l) ← pR1? l; let (y, l) ← pR1? l; pure (⟨x, y⟩, l)
def pLL? (l : List String) : Option (LLRect F × List String) := do
  let (x, l) ← pR1? l; let (y, l) ← pS1? l; pure (⟨x, y⟩, l)
def pB? : List String → Option (Bool × List String)
  | a :: rest => do let b ← parseBool? a; pure (b, rest)
  | _ => none
def pF? : List String → Option (F × List String)
  | a :: rest => do let b ← parseF64? a; pure (b, rest)
  | _ => none

/-- first failing clause -/
def firstFail (l : List (String × Bool)) : Option String :=
  match l.find? (fun c => !c.2) with
  | some c => some c.1
  | none => none

def zeroLe (m : F) : Bool := F64.le (F64.zero false) m

/-! ### r1 -/

def r1Model (a b : R1 F) (m : F) (ps : List F) : List String :=
  sR1 (a.union b) ++ sR1 (a.intersection b) ++
  [showBool (a.containsInterval b), showBool (a.interiorContainsInterval b), showBool (a.intersects b),
   showBool (a.interiorIntersects b), showBool (a.equal b)] ++ sR1 (a.expanded m) ++
  [showF64 a.center, showF64 a.length] ++
  ps.flatMap fun p =>
    [showBool (a.contains p), showBool (a.interiorContains p)] ++ sR1 (a.addPoint p) ++
    [if a.isEmpty then "-" else showF64 (a.clampPoint p)]

def r1Prop (a b : R1 F) (m : F) (ps : List F) (res : List String) : Option String :=
  (do
    let (u, r) ← pR1? res; let (n, r) ← pR1? r
    let (ci, r) ← pB? r; let (ici, r) ← pB? r; let (x, r) ← pB? r; let (ix, r) ← pB? r; let (eq, r) ← pB? r
    let (e, r) ← pR1? r
    let r := r.drop 2
    let pts := ps ++ [a.lo, a.hi, b.lo, b.hi]
    let ina (p : F) := a.contains p
    let inb (p : F) := b.contains p
    let inta (p : F) := a.interiorContains p
    let mut cl : List (String × Bool) := [
      ("r1-union-misses-point", pts.all fun p => !(ina p || inb p) || u.contains p),
      ("r1-intersection-not-common-points", pts.all fun p => n.contains p == (ina p && inb p)),
      ("r1-containsInterval-true-but-point-missing", !ci || pts.all fun p => !inb p || ina p),
      ("r1-containsInterval-false-but-all-points-in", ci || pts.any fun p => inb p && !ina p),
      ("r1-interiorContainsInterval-true-but-point-not-interior", !ici || pts.all fun p => !inb p || inta p),
      ("r1-interiorContainsInterval-false-but-all-interior", ici || pts.any fun p => inb p && !inta p),
      ("r1-intersects-true-but-no-common-point", !x || pts.any fun p => ina p && inb p),
      ("r1-intersects-false-but-common-point", x || pts.all fun p => !(ina p && inb p)),
      ("r1-interiorIntersects-false-but-common-point", ix || pts.all fun p => !(inta p && inb p)),
      ("r1-interiorIntersects-true-but-intersects-false", !ix || x),
      ("r1-equal-vs-points", !eq || pts.all fun p => ina p == inb p),
      ("r1-equal-false-but-same-points", eq || pts.any fun p => ina p != inb p),
      ("r1-expanded-loses-point", !zeroLe m || pts.all fun p => !ina p || e.contains p)]
    -- per probe
    let mut rr := r
    for p in ps do
      match rr with
      | c :: ic :: l1 :: h1 :: clp :: rest =>
        let c ← parseBool? c; let ic ← parseBool? ic
        let (ap, _) ← pR1? [l1, h1]
        cl := cl ++ [
          ("r1-contains-vs-endpoints", c == (F64.le a.lo p && F64.le p a.hi)),
          ("r1-interiorContains-not-subset", !ic || c),
          ("r1-addPoint-misses-new-point", ap.contains p),
          ("r1-addPoint-loses-point", pts.all fun q => !ina q || ap.contains q)]
        if clp != "-" then
          let cp ← parseF64? clp
          cl := cl ++ [("r1-clampPoint-outside", ina cp), ("r1-clampPoint-moves-inside-point", !c || F64.feq cp p)]
        rr := rest
      | _ => cl := cl ++ [("impl-output-arity", false)]
    pure (firstFail cl)).getD (some "unparseable")

/-! ### s1 -/

def s1Model (a b : S1 F) (m : F) (ps : List F) : List String :=
  let p0 := ps.headD (F64.zero false)
  let p1 := (ps.drop 1).headD (F64.zero false)
  [showBool a.isValid, showBool b.isValid] ++
  sS1 (a.union b) ++ sS1 (a.intersection b) ++
  [showBool (a.containsInterval b), showBool (a.interiorContainsInterval b), showBool (a.intersects b),
   showBool (a.interiorIntersects b)] ++ sS1 a.complement ++ sS1 (a.expanded m) ++
  [showF64 a.center, showF64 a.length, showF64 a.complementCenter] ++
  sS1 (S1.fromPointPair p0 p1) ++ sS1 (S1.fromEndpoints p0 p1) ++
  ps.flatMap fun p =>
    [showBool (a.contains p), showBool (a.interiorContains p)] ++ sS1 (a.addPoint p) ++
    [if a.isEmpty then "-" else showF64 (a.project p)]

def s1Prop (a b : S1 F) (m : F) (ps : List F) (res : List String) : Option String :=
  (do
    let (va, r) ← pB? res; let (vb, r) ← pB? r
    let (u, r) ← pS1? r; let (n, r) ← pS1? r
    let (ci, r) ← pB? r; let (ici, r) ← pB? r; let (x, r) ← pB? r; let (ix, r) ← pB? r
    let (c, r) ← pS1? r; let (e, r) ← pS1? r
    let r := r.drop 3
    let (fp, r) ← pS1? r; let (fe, r) ← pS1? r
    let p0 := ps.headD (F64.zero false)
    let p1 := (ps.drop 1).headD (F64.zero false)
    let pts := ps ++ [a.lo, a.hi, b.lo, b.hi, f64Pi]
    let ina (p : F) := a.contains p
    let inb (p : F) := b.contains p
    let inta (p : F) := a.interiorContains p
    let mut cl : List (String × Bool) := [
      ("s1-generated-operand-invalid", va && vb),
      ("s1-union-invalid", u.isValid),
      ("s1-union-misses-point", pts.all fun p => !(ina p || inb p) || u.contains p),
      ("s1-intersection-invalid", n.isValid),
      ("s1-intersection-misses-common-point", pts.all fun p => !(ina p && inb p) || n.contains p),
      ("s1-intersection-has-stranger", pts.all fun p => !n.contains p || ina p || inb p),
      ("s1-intersection-empty-vs-intersects", n.isEmpty == !x),
      ("s1-containsInterval-true-but-point-missing", !ci || pts.all fun p => !inb p || ina p),
      ("s1-interiorContainsInterval-true-but-point-not-interior", !ici || pts.all fun p => !inb p || inta p),
      ("s1-interiorContainsInterval-true-but-containsInterval-false", !ici || ci),
      ("s1-intersects-true-but-no-common-point", !x || pts.any fun p => ina p && inb p),
      ("s1-intersects-false-but-common-point", x || pts.all fun p => !(ina p && inb p)),
      ("s1-interiorIntersects-false-but-common-point", ix || pts.all fun p => !(inta p && inb p)),
      ("s1-interiorIntersects-true-but-intersects-false", !ix || x),
      ("s1-complement-invalid", c.isValid),
      ("s1-complement-does-not-cover", pts.all fun p => ina p || c.contains p),
      ("s1-complement-overlaps-interior", pts.all fun p => !(inta p && c.contains p)),
      ("s1-expanded-invalid", e.isValid),
      ("s1-expanded-loses-point", !zeroLe m || pts.all fun p => !ina p || e.contains p),
      ("s1-fromPointPair-invalid", fp.isValid),
      ("s1-fromPointPair-misses-point", fp.contains p0 && fp.contains p1),
      ("s1-fromEndpoints-invalid", fe.isValid),
      ("s1-fromEndpoints-misses-endpoint", fe.isEmpty || (fe.contains p0 && fe.contains p1))]
    let mut rr := r
    for p in ps do
      match rr with
      | cc :: ic :: l1 :: h1 :: pj :: rest =>
        let cc ← parseBool? cc; let ic ← parseBool? ic
        let (ap, _) ← pS1? [l1, h1]
        cl := cl ++ [
          ("s1-interiorContains-not-subset", !ic || cc),
          ("s1-addPoint-invalid", ap.isValid),
          ("s1-addPoint-misses-new-point", ap.contains p),
          ("s1-addPoint-loses-point", pts.all fun q => !ina q || ap.contains q)]
        if pj != "-" then
          let pp ← parseF64? pj
          cl := cl ++ [("s1-project-outside", ina pp),
                       ("s1-project-moves-inside-point", !cc || F64.feq pp (S1.normPoint p))]
        rr := rest
      | _ => cl := cl ++ [("impl-output-arity", false)]
    pure (firstFail cl)).getD (some "unparseable")

/-! ### r2 -/

def r2Model (a b : R2Rect F) (m : R2Point F) (ps : List (F × F)) : List String :=
  [showBool a.isValid, showBool b.isValid] ++ sR2 (a.union b) ++ sR2 (a.intersection b) ++
  [showBool (a.contains b), showBool (a.interiorContains b), showBool (a.intersects b),
   showBool (a.interiorIntersects b)] ++ sR2 (a.expanded m) ++
  ps.flatMap fun (x, y) =>
    let p : R2Point F := ⟨x, y⟩
    [showBool (a.containsPoint p), showBool (a.interiorContainsPoint p)] ++ sR2 (a.addPoint p) ++
    (if a.isEmpty then ["-", "-"] else let c := a.clampPoint p; [showF64 c.x, showF64 c.y])

def r2Prop (a b : R2Rect F) (m : R2Point F) (ps : List (F × F)) (res : List String) : Option String :=
  (do
    let (va, r) ← pB? res; let (vb, r) ← pB? r
    let (u, r) ← pR2? r; let (n, r) ← pR2? r
    let (ci, r) ← pB? r; let (ici, r) ← pB? r; let (x, r) ← pB? r; let (ix, r) ← pB? r
    let (e, r) ← pR2? r
    let corners (q : R2Rect F) : List (R2Point F) := [⟨q.x.lo, q.y.lo⟩, ⟨q.x.hi, q.y.hi⟩, ⟨q.x.lo, q.y.hi⟩, ⟨q.x.hi, q.y.lo⟩]
    let pts : List (R2Point F) := ps.map (fun (x, y) => (⟨x, y⟩ : R2Point F)) ++ corners a ++ corners b
    let ina (p : R2Point F) := a.containsPoint p
    let inb (p : R2Point F) := b.containsPoint p
    let inta (p : R2Point F) := a.interiorContainsPoint p
    let mut cl : List (String × Bool) := [
      ("r2-generated-operand-invalid", va && vb),
      ("r2-union-invalid", u.isValid),
      ("r2-union-misses-point", pts.all fun p => !(ina p || inb p) || u.containsPoint p),
      ("r2-intersection-invalid", n.isValid),
      ("r2-intersection-not-common-points", pts.all fun p => n.containsPoint p == (ina p && inb p)),
      ("r2-contains-true-but-point-missing", !ci || pts.all fun p => !inb p || ina p),
      ("r2-contains-false-but-all-points-in", ci || pts.any fun p => inb p && !ina p),
      ("r2-interiorContains-true-but-point-not-interior", !ici || pts.all fun p => !inb p || inta p),
      ("r2-intersects-false-but-common-point", x || pts.all fun p => !(ina p && inb p)),
      ("r2-intersects-true-but-intersection-empty", !x || !n.isEmpty),
      ("r2-interiorIntersects-false-but-common-point", ix || pts.all fun p => !(inta p && inb p)),
      ("r2-expanded-invalid", e.isValid),
      ("r2-expanded-loses-point", !(zeroLe m.x && zeroLe m.y) || pts.all fun p => !ina p || e.containsPoint p)]
    let mut rr := r
    for (px, py) in ps do
      let p : R2Point F := ⟨px, py⟩
      match rr with
      | cc :: ic :: t1 :: t2 :: t3 :: t4 :: cx :: cy :: rest =>
        let cc ← parseBool? cc; let ic ← parseBool? ic
        let (ap, _) ← pR2? [t1, t2, t3, t4]
        cl := cl ++ [
          ("r2-interiorContainsPoint-not-subset", !ic || cc),
          ("r2-addPoint-invalid", ap.isValid),
          ("r2-addPoint-misses-new-point", ap.containsPoint p),
          ("r2-addPoint-loses-point", pts.all fun q => !ina q || ap.containsPoint q)]
        if cx != "-" then
          let x ← parseF64? cx; let y ← parseF64? cy
          cl := cl ++ [("r2-clampPoint-outside", ina ⟨x, y⟩)]
        rr := rest
      | _ => cl := cl ++ [("impl-output-arity", false)]
    pure (firstFail cl)).getD (some "unparseable")

/-! ### lat-lng rect -/

def llModel (a b : LLRect F) (m : LatLng F) (ps : List (F × F)) : List String :=
  [showBool a.isValid, showBool b.isValid] ++ sLL (a.union b) ++ sLL (a.intersection b) ++
  [showBool (a.contains b), showBool (a.intersects b)] ++ sLL (a.expanded m) ++ sLL a.polarClosure ++
  [showBool a.isEmpty, showBool a.isFull, showBool a.isPoint] ++
  ps.flatMap fun (x, y) =>
    let p : LatLng F := ⟨x, y⟩
    [showBool (a.containsLatLng p)] ++ sLL (a.addPoint p)

def llProp (a b : LLRect F) (m : LatLng F) (ps : List (F × F)) (res : List String) : Option String :=
  (do
    let (va, r) ← pB? res; let (vb, r) ← pB? r
    let (u, r) ← pLL? r; let (n, r) ← pLL? r
    let (ci, r) ← pB? r; let (x, r) ← pB? r
    let (e, r) ← pLL? r; let (pc, r) ← pLL? r
    let r := r.drop 3
    let corners (q : LLRect F) : List (LatLng F) :=
      [⟨q.lat.lo, q.lng.lo⟩, ⟨q.lat.hi, q.lng.hi⟩, ⟨q.lat.lo, q.lng.hi⟩, ⟨q.lat.hi, q.lng.lo⟩, ⟨q.lat.lo, f64Pi⟩]
    let pts : List (LatLng F) := ps.map (fun (x, y) => (⟨x, y⟩ : LatLng F)) ++ corners a ++ corners b
    let ina (p : LatLng F) := a.containsLatLng p
    let inb (p : LatLng F) := b.containsLatLng p
    let mut cl : List (String × Bool) := [
      ("ll-generated-operand-invalid", va && vb),
      ("ll-union-invalid", u.isValid),
      ("ll-union-misses-point", pts.all fun p => !(ina p || inb p) || u.containsLatLng p),
      ("ll-intersection-invalid", n.isValid),
      ("ll-intersection-misses-common-point", pts.all fun p => !(ina p && inb p) || n.containsLatLng p),
      ("ll-intersection-has-stranger", pts.all fun p => !n.containsLatLng p || ina p || inb p),
      ("ll-contains-true-but-point-missing", !ci || pts.all fun p => !inb p || ina p),
      ("ll-intersects-false-but-common-point", x || pts.all fun p => !(ina p && inb p)),
      ("ll-intersects-vs-intersection-empty", x == !n.isEmpty),
      ("ll-expanded-invalid", e.isValid),
      ("ll-expanded-loses-point", !(zeroLe m.lat && zeroLe m.lng) || pts.all fun p => !ina p || e.containsLatLng p),
      ("ll-polarClosure-invalid", pc.isValid),
      ("ll-polarClosure-loses-point", pts.all fun p => !ina p || pc.containsLatLng p)]
    let mut rr := r
    for (px, py) in ps do
      let p : LatLng F := ⟨px, py⟩
      match rr with
      | cc :: t1 :: t2 :: t3 :: t4 :: rest =>
        let _ ← parseBool? cc
        let (ap, _) ← pLL? [t1, t2, t3, t4]
        cl := cl ++ [
          ("ll-addPoint-invalid", ap.isValid),
          ("ll-addPoint-misses-new-point", !p.isValid || ap.containsLatLng p),
          ("ll-addPoint-loses-point", pts.all fun q => !ina q || ap.containsLatLng q)]
        rr := rest
      | _ => cl := cl ++ [("impl-output-arity", false)]
    pure (firstFail cl)).getD (some "unparseable")

def handle (op : String) (args res : List String) : Option String :=
  match op, args with
  | "r1", [al, ah, bl, bh, m, ps] => do
    let (a, _) ← pR1? [al, ah]; let (b, _) ← pR1? [bl, bh]; let m ← parseF64? m; let ps ← parseFs? ps
    pure (verdictP (r1Model a b m ps) res (r1Prop a b m ps res))
  | "s1", [al, ah, bl, bh, m, ps] => do
    let (a, _) ← pS1? [al, ah]; let (b, _) ← pS1? [bl, bh]; let m ← parseF64? m; let ps ← parseFs? ps
    pure (verdictP (s1Model a b m ps) res (s1Prop a b m ps res))
  | "r2", [a1, a2, a3, a4, b1, b2, b3, b4, mx, my, ps] => do
    let (a, _) ← pR2? [a1, a2, a3, a4]; let (b, _) ← pR2? [b1, b2, b3, b4]
    let mx ← parseF64? mx; let my ← parseF64? my; let ps ← parsePairs? ps
    pure (verdictP (r2Model a b ⟨mx, my⟩ ps) res (r2Prop a b ⟨mx, my⟩ ps res))
  | "ll", [a1, a2, a3, a4, b1, b2, b3, b4, mx, my, ps] => do
    let (a, _) ← pLL? [a1, a2, a3, a4]; let (b, _) ← pLL? [b1, b2, b3, b4]
    let mx ← parseF64? mx; let my ← parseF64? my; let ps ← parsePairs? ps
    pure (verdictP (llModel a b ⟨mx, my⟩ ps) res (llProp a b ⟨mx, my⟩ ps res))
  | "f64rem", [a, b] => do
    let x ← parseF64? a; let y ← parseF64? b
    let mdl := showF64 (F64.remainder x y)
    let isNaNTok (t : String) := match parseF64? t with | some v => v.isNaN | none => false
    pure (if isNaNTok mdl && (res.head?.map isNaNTok).getD false then "ok" else verdict [mdl] res)
  | _, _ => Oracle.C19Cap.handle op args res   -- caps: ops `cap`, `chord`

end Oracle.C19
