/-
  Oracle.C07 — loop / polygon relations and loop nesting (ops c07const, c07ortho, rel, nest, prel).

  `rel A B`: the exact model (`S2.Relate`, integer arithmetic at one common binary exponent) is
  evaluated on (A,B), (¬A,B), (A,¬B), (¬A,¬B); all implementation answers are compared with it
  (`diff`), and the property is judged on the implementation's OWN answers (`propfail`):
     sym        X.Intersects(Y) = Y.Intersects(X)
     refl       X.Contains(X), X.Intersects(X) (unless X is empty)
     int-compl  X.Intersects(Y) = ¬ (¬X).Contains(Y)            (both directions, all four pairs)
     con-compl  X.Contains(Y) = (¬Y).Contains(¬X)
     poly       single-loop Polygon answers = Loop answers
     nested     ContainsNested = Contains when the loops are nestable (no crossing, no shared edge)
     sound-con  X.Contains(Y) reported ⇒ no proper edge crossing, no boundary sample of Y strictly outside X,
                no boundary sample of X strictly inside Y
     sound-dis  ¬X.Intersects(Y) reported ⇒ no proper edge crossing, no boundary sample of one strictly
                inside the other
  (boundary samples = vertices and edge midpoints v_k + v_{k+1}; a sample lying exactly on the other
  boundary is skipped; "strictly" = exact point-in-loop by crossing parity from OriginPoint()).
-/
import Oracle.Basic
import S2.Relate
import S2.Nesting
namespace Oracle.C07
open Oracle S2 S2.Exact S2.Relate

/-! ### parsing -/

def parsePt? (s : String) : Option V3 :=
  match s.splitOn "," with
  | [a, b, c] => parseV3? a b c
  | _ => none

inductive LoopTok where
  | empty | full
  | pts (v : Array V3)

def parseLoop? (s : String) : Option LoopTok :=
  if s == "E" then some .empty else if s == "F" then some .full
  else do
    let l ← (s.splitOn ";").mapM parsePt?
    pure (.pts l.toArray)

def fOne : F64 := F64.one
def fZero : F64 := F64.zero false
def LoopTok.verts : LoopTok → Array V3
  | .empty => #[⟨fZero, fZero, fOne⟩]
  | .full => #[⟨fZero, fZero, -fOne⟩]
  | .pts v => v

/-- vertices whose `Ortho` can be needed: vertex 1 (initOriginAndBound) and vertex n-2 (vertex 1 of
    the reversed loop) -/
def refCandidates (v : Array V3) : List V3 :=
  if v.size < 3 then [] else [v[1]!, v[v.size - 2]!]

def minExpo (vs : List V3) : Int :=
  vs.foldl (fun e v =>
    let f := fun (e : Int) (x : F64) => if x.isZero then e else min e x.expo
    f (f (f e v.x) v.y) v.z) 0

def toIV (e : Int) (v : V3) : IV3 := ⟨v.x.toIntAt e, v.y.toIntAt e, v.z.toIntAt e⟩

/-- the exact geometry for a set of loops -/
def mkGeo (loops : List (Array V3)) : Geo IV3 × Int :=
  let cands := loops.flatMap refCandidates
  let orth := cands.map fun p => (p, orthoV3 p)
  let all := originV3 :: (loops.flatMap (·.toList) ++ orth.map (·.2))
  let e := minExpo all
  (geoExact (toIV e originV3) (orth.map fun (p, o) => (toIV e p, toIV e o)), e)

abbrev L := Relate.Loop IV3

def mkLoop (G : Geo IV3) (e : Int) (v : Array V3) : L := Loop.init G (v.map (toIV e))

/-! ### fast scan (same definition, the two orientations w.r.t. the A edge are computed once per
    B vertex instead of once per B edge) -/

def scanFast (G : Geo IV3) (A B : L) : Scan :=
  let n := A.numEdges
  let m := B.numEdges
  let bv : Array IV3 := (Array.range (m + 1)).map fun j => B.vertex G j
  let crossing := (List.range n).any fun i =>
    let a := A.vertex G i
    let b := A.vertex G (i + 1)
    let row : Array Int := bv.map fun c => G.sg a b c
    (List.range m).any fun j =>
      let s0 := row[j]!
      let s1 := row[j + 1]!
      -- quick reject: both B vertices strictly on the same side
      if s0 == s1 && s0 != 0 then false
      else crossingSignS G a b bv[j]! bv[j + 1]! s0 s1 == 1
  { crossing := crossing, shared := sharedVertices G A B }

/-! ### boundary samples and exact point classification -/

def onSegment (a b p : IV3) : Bool :=
  if det3 a b p != 0 then false
  else
    let nrm := a.cross b
    (a.cross p).dot nrm ≥ 0 && (p.cross b).dot nrm ≥ 0

def onBoundary (G : Geo IV3) (X : L) (p : IV3) : Bool :=
  (List.range X.numEdges).any fun k => onSegment (X.vertex G k) (X.vertex G (k + 1)) p

/-- up to `cap` samples: vertices and midpoints, evenly spread -/
def samples (G : Geo IV3) (X : L) (cap : Nat) : List IV3 :=
  let n := X.numEdges
  if n == 0 then [] else
  let all := 2 * n
  let step := (all + cap - 1) / cap
  let step := if step == 0 then 1 else step
  (List.range all).filterMap fun t =>
    if t % step != 0 then none else
    let k := t / 2
    if t % 2 == 0 then some (X.vertex G k) else some ((X.vertex G k).add (X.vertex G (k + 1)))

/-- classification of the samples of Y against X: (strictly inside count, strictly outside count) -/
def classify (G : Geo IV3) (X : L) (ps : List IV3) : Nat × Nat :=
  ps.foldl (fun (acc : Nat × Nat) p =>
    if X.isEmptyOrFull then (if X.isFull then (acc.1 + 1, acc.2) else (acc.1, acc.2 + 1))
    else if onBoundary G X p then acc
    else if X.containsPoint G p then (acc.1 + 1, acc.2) else (acc.1, acc.2 + 1)) (0, 0)

/-! ### rel -/

def bstr (l : List Bool) : String := String.ofList (l.map fun b => if b then 'T' else 'F')

structure Combo where
  c1 : Bool
  c2 : Bool
  i1 : Bool
  i2 : Bool
  n1 : Bool
  n2 : Bool
  b1 : Option Int
  b2 : Option Int
  nestable : Bool

def hasSharedEdge (s : Scan) (n m : Nat) : Bool :=
  s.shared.any fun p =>
    s.shared.any fun q =>
      q.1 == (p.1 + 1) % n && (q.2 == (p.2 + 1) % m || (q.2 + 1) % m == p.2)

def modelCombo (G : Geo IV3) (s : Scan) (X Y : L) : Combo :=
  let sw := s.swap
  let c1 := containsWith G s X Y
  let c2 := containsWith G sw Y X
  let i1 := intersectsWith G s X Y
  let i2 := intersectsWith G sw Y X
  let cb := !(X.isEmpty || Y.isEmpty)
  { c1 := c1, c2 := c2, i1 := i1, i2 := i2
    n1 := containsNested G X Y, n2 := containsNested G Y X
    b1 := if cb then some (compareBoundaryWith G s X Y) else none
    b2 := if cb then some (compareBoundaryWith G sw Y X) else none
    nestable := !s.crossing && !hasSharedEdge s X.vs.size Y.vs.size && (c1 || c2 || !i1) }

def showB (o : Option Int) : String := match o with | some v => toString v | none => "x"

/-- the model's token; `n` part copied from the implementation when not applicable -/
def Combo.show (c : Combo) (implN : String) : String :=
  let cs := bstr [c.c1, c.c2, c.i1, c.i2]
  let ns := if c.nestable then bstr [c.n1, c.n2] else implN
  cs ++ "/" ++ cs ++ "/" ++ ns ++ "/" ++ showB c.b1 ++ "," ++ showB c.b2

structure GoCombo where
  c : List Bool    -- c1 c2 i1 i2
  p : List Bool
  n : List Bool
  nraw : String

def parseBools? (s : String) : Option (List Bool) :=
  s.toList.mapM fun ch => if ch == 'T' then some true else if ch == 'F' then some false else none

def parseGoCombo? (t : String) : Option GoCombo :=
  match t.splitOn "/" with
  | [c, p, n, _] => do
    let c ← parseBools? c; let p ← parseBools? p; let nn ← parseBools? n
    if c.length == 4 && p.length == 4 && nn.length == 2 then pure ⟨c, p, nn, n⟩ else none
  | _ => none

def g (l : List Bool) (i : Nat) : Bool := l.getD i false

/-- the laws evaluated on the implementation's answers; combos in the order AB, aB, Ab, ab -/
def lawFailures (self : List Bool) (emptyFlags : List Bool) (cs : List GoCombo) (nestable : List Bool) : List String :=
  match cs with
  | [ab, nab, anb, nanb] =>
    let sym := [ab, nab, anb, nanb].any fun k => g k.c 2 != g k.c 3
    let poly := [ab, nab, anb, nanb].any fun k => k.c != k.p
    -- self: (contains, intersects) for A, ¬A, B, ¬B
    let refl := (List.range 4).any fun k =>
      !(g self (2 * k)) || (g self (2 * k + 1) == g emptyFlags k)
    -- X.Intersects(Y) = ¬ (¬X).Contains(Y):   i1(X,Y) vs c1(¬X,Y);   Y.Intersects(X) = ¬(¬Y).Contains(X): i2(X,Y) vs c2(X,¬Y)
    let ic :=
      g ab.c 2 == g nab.c 0 || g nab.c 2 == g ab.c 0 || g anb.c 2 == g nanb.c 0 || g nanb.c 2 == g anb.c 0 ||
      g ab.c 3 == g anb.c 1 || g anb.c 3 == g ab.c 1 || g nab.c 3 == g nanb.c 1 || g nanb.c 3 == g nab.c 1
    -- X.Contains(Y) = (¬Y).Contains(¬X):  c1(X,Y) vs c2(¬X,¬Y);  c2(X,Y) vs c1(¬X,¬Y)
    let cc :=
      g ab.c 0 != g nanb.c 1 || g ab.c 1 != g nanb.c 0 || g nab.c 0 != g anb.c 1 || g nab.c 1 != g anb.c 0
    let nest := (List.zip [ab, nab, anb, nanb] nestable).any fun (k, ok) =>
      ok && (g k.n 0 != g k.c 0 || g k.n 1 != g k.c 1)
    (if sym then ["sym"] else []) ++ (if refl then ["refl"] else []) ++ (if ic then ["int-compl"] else []) ++
    (if cc then ["con-compl"] else []) ++ (if poly then ["poly"] else []) ++ (if nest then ["nested"] else [])
  | _ => ["arity"]

/-- point-set soundness of the implementation's answers for the pair (X,Y);
    (inX, outX) = counts of Y-samples strictly inside / outside X, (inY, outY) = X-samples vs Y -/
def soundFailures (tag : String) (crossing : Bool) (k : GoCombo) (yInX yOutX xInY xOutY : Nat) : List String :=
  let con (claim : Bool) (subIn subOut supIn : Nat) (nm : String) : List String :=
    -- claim: SUP contains SUB.  subOut = SUB-samples strictly outside SUP, supIn = SUP-samples strictly inside SUB
    let _ := subIn
    if claim && (crossing || subOut > 0 || supIn > 0) then ["sound-con:" ++ tag ++ nm] else []
  let dis (claim : Bool) : List String :=
    if claim && (crossing || yInX > 0 || xInY > 0) then ["sound-dis:" ++ tag] else []
  con (g k.c 0) yInX yOutX xInY "" ++ con (g k.c 1) xInY xOutY yInX "'" ++ dis (!(g k.c 2)) ++ dis (!(g k.c 3))

def handleRel (a b : String) (res : List String) : Option String := do
  let ta ← parseLoop? a
  let tb ← parseLoop? b
  let va := ta.verts
  let vb := tb.verts
  let (G, e) := mkGeo [va, vb]
  let A := mkLoop G e va
  let B := mkLoop G e vb
  let nA := A.invert
  let nB := B.invert
  let n := A.vs.size
  let m := B.vs.size
  let s := scanFast G A B
  let sNA := s.revA n
  let sNB := s.revB m
  let sNN := sNA.revB m
  -- model-internal consistency (cheap): the scan shortcuts and the origin flag of the reversed loops
  let small := n * m ≤ 4096
  let scanOK := !small ||
    (scan G A B == s && (scan G nA B).crossing == sNA.crossing && (scan G A nB).crossing == sNB.crossing &&
     (scan G nA B).shared.all (sNA.shared.contains ·) && (scan G A nB).shared.all (sNB.shared.contains ·) &&
     (scan G nA nB).shared.all (sNN.shared.contains ·) && (scan G nA nB).shared.length == sNN.shared.length)
  let oiOK := (n < 3 || (Loop.init G nA.vs).originInside == nA.originInside) &&
              (m < 3 || (Loop.init G nB.vs).originInside == nB.originInside)
  let mAB := modelCombo G s A B
  let mNAB := modelCombo G sNA nA B
  let mANB := modelCombo G sNB A nB
  let mNANB := modelCombo G sNN nA nB
  let oi := "oi:" ++ bstr [A.originInside, nA.originInside, B.originInside, nB.originInside]
  let selfM := "self:" ++ bstr [true, !A.isEmpty, true, !nA.isEmpty, true, !B.isEmpty, true, !nB.isEmpty]
  match res with
  | [goi, gself, t1, t2, t3, t4, st] =>
    let combos := [t1, t2, t3, t4].mapM parseGoCombo?
    match combos with
    | none => pure "bad rel-combo"
    | some cs =>
      let nraw (i : Nat) : String := (cs.getD i ⟨[], [], [], ""⟩).nraw
      let model := [oi, selfM, mAB.show (nraw 0), mNAB.show (nraw 1), mANB.show (nraw 2), mNANB.show (nraw 3), st]
      let selfB := (parseBools? (gself.drop 5).toString).getD []
      let laws := lawFailures selfB [A.isEmpty, nA.isEmpty, B.isEmpty, nB.isEmpty] cs
                    [mAB.nestable, mNAB.nestable, mANB.nestable, mNANB.nestable]
      -- soundness samples (only for ordinary loops)
      let cap := if n * m ≤ 20000 then 4096 else max 16 (60000 / (n + m))
      let sb := samples G B cap
      let sa := samples G A cap
      let (bInA, bOutA) := classify G A sb
      let (aInB, aOutB) := classify G B sa
      -- for inverted loops inside/outside swap (samples on the boundary were skipped)
      let sound :=
        soundFailures "AB" s.crossing (cs.getD 0 ⟨[], [], [], ""⟩) bInA bOutA aInB aOutB ++
        soundFailures "aB" s.crossing (cs.getD 1 ⟨[], [], [], ""⟩) bOutA bInA aInB aOutB ++
        soundFailures "Ab" s.crossing (cs.getD 2 ⟨[], [], [], ""⟩) bInA bOutA aOutB aInB ++
        soundFailures "ab" s.crossing (cs.getD 3 ⟨[], [], [], ""⟩) bOutA bInA aOutB aInB
      let internal := (if scanOK then [] else ["MODEL-scan-inconsistent"]) ++ (if oiOK then [] else ["origin-invert"])
      let fails := laws ++ sound ++ internal
      let _ := goi
      pure (verdictP model res (if fails.isEmpty then none else some (",".intercalate fails)))
  | _ => pure "bad rel-arity"

/-! ### nest -/

def parseNatList? (s : String) : Option (List Nat) := parseList? parseNat? s
def parseIntList? (s : String) : Option (List Int) := parseList? parseInt? s
def showNats (l : List Nat) : String := showList toString l
def showInts (l : List Int) : String := showList toString l

def field? (pre : String) (t : String) : Option String :=
  if t.startsWith pre then some (t.drop pre.length).toString else none

/-- exact `contains` between all loops of a family: table[i][j] = loop i contains loop j -/
def containsTable (G : Geo IV3) (ls : Array L) : Array (Array Bool) :=
  ls.map fun a => ls.map fun b => contains G a b

def handleNest (args res : List String) : Option String := do
  let toks ← args.mapM parseLoop?
  let vss := toks.map (·.verts)
  let (G, e) := mkGeo vss
  let ls : Array L := (vss.map (mkLoop G e)).toArray
  let k := ls.size
  let cn (i j : Nat) : Bool := containsNested G (ls.getD i default) (ls.getD j default)
  let r := S2.Nesting.initNested cn (List.range k)
  let ord := r.map (·.1)
  let dep := r.map (·.2)
  match res with
  | [gord, gdep, ghole, gpar, glast, gval] =>
    let parsed := do
      let o ← (field? "ord:" gord).bind parseNatList?
      let d ← (field? "dep:" gdep).bind parseNatList?
      let h ← (field? "hole:" ghole).bind parseBools?
      pure (o, d, h)
    match parsed with
    | none => pure "bad nest-fields"
    | some (go, gd, gh) =>
      -- model tokens: order and depths from the nesting model; parent / lastDescendant from the
      -- implementation's own depth list
      let par := (List.range gd.length).map fun i => (S2.Nesting.parentGo gd i).1
      let last := (List.range gd.length).map fun i => S2.Nesting.lastDescendant gd i
      let model := ["ord:" ++ showNats ord, "dep:" ++ showNats dep,
                    "hole:" ++ bstr (dep.map S2.Nesting.isHole),
                    "par:" ++ showInts par, "last:" ++ showNats last, "val:ok"]
      -- property on the implementation's answer
      let tbl := containsTable G ls
      let c (i j : Nat) : Bool := (tbl.getD i #[]).getD j false
      let perm := go.length == k && (List.range k).all fun i => go.contains i
      let fails : List String :=
        if !perm || gd.length != k || gh.length != k then ["not-a-permutation"] else
        let cnt (pos : Nat) : Nat :=
          let x := go.getD pos 0
          ((List.range k).filter fun y => y != x && c y x).length
        let depthBad := (List.range k).any fun pos => gd.getD pos 0 != cnt pos
        let holeBad := (List.range k).any fun pos => gh.getD pos false != (cnt pos % 2 == 1)
        let preBad := (List.range k).any fun pos =>
          let x := go.getD pos 0
          let lastp := S2.Nesting.lastDescendant gd pos
          (List.range k).any fun q => q != pos && (c x (go.getD q 0) != (decide (pos < q) && decide (q ≤ lastp)))
        (if depthBad then ["depth"] else []) ++ (if holeBad then ["hole"] else []) ++
        (if preBad then ["preorder"] else []) ++ (if gval != "val:ok" then ["validate"] else [])
      let _ := (gpar, glast)
      pure (verdictP model res (if fails.isEmpty then none else some (",".intercalate fails)))
  | _ => pure "bad nest-arity"

/-! ### prel -/

def parsePoly? (s : String) : Option (List LoopTok) :=
  if s == "-" then some [] else (s.splitOn "|").mapM parseLoop?

structure PStruct where
  ord : List Nat
  dep : List Nat
  inv : Int

def parseStruct? (s : String) : Option PStruct :=
  match s.splitOn ",dep:" with
  | [o, rest] =>
    match rest.splitOn ",inv:" with
    | [d, i] => do
      let o ← (field? "ord:" o).bind parseNatList?
      let d ← parseNatList? d
      let i ← parseInt? i
      pure ⟨o, d, i⟩
    | _ => none
  | _ => none

abbrev PG := Relate.Polygon IV3

def buildPoly (ls : Array L) (ord dep : List Nat) : PG :=
  ⟨(List.zip ord dep).map fun (i, d) => { (ls.getD i default) with depth := d }⟩

def fullLoopL (G : Geo IV3) (e : Int) : L := mkLoop G e (LoopTok.full.verts)

/-- depths of a polygon = exact containment counts among its own loops, and pre-order -/
def polyNestOK (G : Geo IV3) (P : PG) : Bool :=
  let ls := P.loops.toArray
  let k := ls.size
  let tbl := containsTable G ls
  let c (i j : Nat) : Bool := (tbl.getD i #[]).getD j false
  let deps := P.loops.map (·.depth)
  (List.range k).all fun pos =>
    deps.getD pos 0 == ((List.range k).filter fun y => y != pos && c y pos).length &&
    (let lastp := S2.Nesting.lastDescendant deps pos
     (List.range k).all fun q => q == pos || (c pos q == (decide (pos < q) && decide (q ≤ lastp))))

def handlePrel (a b : String) (res : List String) : Option String := do
  let tp ← parsePoly? a
  let tq ← parsePoly? b
  let vp := tp.map (·.verts)
  let vq := tq.map (·.verts)
  let (G, e) := mkGeo (vp ++ vq)
  let lp : Array L := (vp.map (mkLoop G e)).toArray
  let lq : Array L := (vq.map (mkLoop G e)).toArray
  -- the model's own nesting
  let nestOf (ls : Array L) : List Nat × List Nat :=
    match ls.toList with
    | [l] => if l.isEmpty then ([], []) else ([0], [0])
    | _ =>
      let r := S2.Nesting.initNested (fun i j => containsNested G (ls.getD i default) (ls.getD j default)) (List.range ls.size)
      (r.map (·.1), r.map (·.2))
  let (po, pd) := nestOf lp
  let (qo, qd) := nestOf lq
  let showS (o d : List Nat) (inv : String) : String := "ord:" ++ showNats o ++ ",dep:" ++ showNats d ++ ",inv:" ++ inv
  match res with
  | [sP, sQ, snP, snQ, t1, t2, t3, t4] =>
    -- the complements are taken from the implementation (the choice of the loop to invert uses
    -- TurningAngle, a float computation that is not modelled) and then CHECKED
    let mkInv (ls : Array L) (base : List Nat × List Nat) (tok : String) : Option (PG × Bool) :=
      let body := (tok.drop 2).toString
      if body == "F" then some (⟨[fullLoopL G e]⟩, true)
      else if body == "E" then some (⟨[]⟩, true)
      else do
        let st ← parseStruct? body
        -- st.ord indexes the INPUT loop list; st.inv = position in the original polygon order
        let invInput : Option Nat := if st.inv < 0 then none else base.1[st.inv.toNat]?
        let ls' := match invInput with
          | some i => ls.modify i (·.invert)
          | none => ls
        let P' := buildPoly ls' st.ord st.dep
        pure (P', st.inv ≥ 0 && st.ord.length == ls.size && polyNestOK G P')
    let P := buildPoly lp po pd
    let Q := buildPoly lq qo qd
    match mkInv lp (po, pd) snP, mkInv lq (qo, qd) snQ, [t1, t2, t3, t4].mapM parseBools? with
    | some (nP, okP), some (nQ, okQ), some gs =>
      let mc (X Y : PG) : String := bstr [X.contains G Y, Y.contains G X, X.intersects G Y, Y.intersects G X]
      let model := ["P:" ++ showS po pd "-1", "Q:" ++ showS qo qd "-1", snP, snQ, mc P Q, mc nP Q, mc P nQ, mc nP nQ]
      -- laws on the implementation's answers
      let ab := gs.getD 0 []; let nab := gs.getD 1 []; let anb := gs.getD 2 []; let nanb := gs.getD 3 []
      let sym := gs.any fun k => g k 2 != g k 3
      let ic := g ab 2 == g nab 0 || g nab 2 == g ab 0 || g anb 2 == g nanb 0 || g nanb 2 == g anb 0 ||
                g ab 3 == g anb 1 || g anb 3 == g ab 1 || g nab 3 == g nanb 1 || g nanb 3 == g nab 1
      let cc := g ab 0 != g nanb 1 || g ab 1 != g nanb 0 || g nab 0 != g anb 1 || g nab 1 != g anb 0
      -- point-set soundness on samples of all boundaries
      let allLoops := P.loops ++ Q.loops
      -- witness points: sums of two boundary vertices (chord midpoints of one loop fall inside it,
      -- sums across loops fall into the rings between them); points on any boundary are dropped.
      -- (Boundary samples themselves are useless here: each lies on its own loop.)
      let per := max 1 (24 / (max 1 allLoops.length))
      let verts : List IV3 := (allLoops.flatMap fun l =>
        let n := l.numEdges
        if n == 0 then [] else (List.range per).map fun t => l.vertex G (t * n / per)).take 28
      let va := verts.toArray
      let pts : List IV3 := (List.range va.size).flatMap fun i =>
        (List.range i).filterMap fun j =>
          let p := (va[i]!).add (va[j]!)
          if p.isZero then none else some p
      let pts := pts.filter fun p => !(allLoops.any fun l => onBoundary G l p)
      let cls := pts.map fun p => (P.containsPoint G p, Q.containsPoint G p)
      -- (inP, inQ) ; complements negate
      let snd (k : List Bool) (fx fy : Bool) (tag : String) : List String :=
        let v := cls.map fun (x, y) => (x != fx, y != fy)
        (if g k 0 && v.any (fun (x, y) => y && !x) then ["sound-con:" ++ tag] else []) ++
        (if g k 1 && v.any (fun (x, y) => x && !y) then ["sound-con:" ++ tag ++ "'"] else []) ++
        (if (!(g k 2) || !(g k 3)) && v.any (fun (x, y) => x && y) then ["sound-dis:" ++ tag] else [])
      let fails := (if sym then ["sym"] else []) ++ (if ic then ["int-compl"] else []) ++ (if cc then ["con-compl"] else []) ++
        snd ab false false "PQ" ++ snd nab true false "pQ" ++ snd anb false true "Pq" ++ snd nanb true true "pq" ++
        (if okP then [] else ["invert-nesting:P"]) ++ (if okQ then [] else ["invert-nesting:Q"])
      let _ := (sP, sQ)
      pure (verdictP model res (if fails.isEmpty then none else some (",".intercalate fails)))
    | _, _, _ => pure "bad prel-fields"
  | _ => pure "bad prel-arity"

def handle (op : String) (args res : List String) : Option String :=
  match op, args with
  | "c07const", [] => some (verdict (showV3 originV3) res)
  | "c07ortho", [p] => do
    let v ← parsePt? p
    pure (verdict (showV3 (orthoV3 v)) res)
  | "rel", [a, b] => handleRel a b res
  | "nest", _ => handleNest args res
  | "prel", [a, b] => handlePrel a b res
  | _, _ => none

end Oracle.C07
