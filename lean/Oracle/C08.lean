/-
  Oracle.C08 — judge for closest / furthest edge queries (property C08).

  c08cover <cells> = <covering> <flags>
      model: `S2.EdgeQueryM.initCovering` cell for cell; property: ≤ 6 cells, sorted, every index
      cell inside exactly one covering cell.
  c08eq <min|max> <index> <target> <k> <lim> <err> <int> <in> <out>
      = <path> <inner> <thrsz> <nedges> <cells> <cov> <covflags> <zero> <inf> <all> <intr>
        <opt> <bf> <dO> <dB> <thr> <cons>
      The judge works on the implementation's own outputs: `all` is the edge-by-edge scan (every
      edge's distance through the target's updateDistanceToEdge), `opt` / `bf` the answers of
      FindEdges without / with UseBruteForce.  Expected answers are recomputed from `all` with the
      model's `postProcess` (sort by (distance, shape, edge), de-duplicate, truncate) and the
      soft-float port of ChordAngle.Sub / Add for the MaxError clauses.
  Core-only.
-/
import Oracle.Basic
import S2.EdgeQueryM
namespace Oracle.C08
open Oracle S2 S2.EdgeQueryM

/-! ### chord-angle arithmetic (s1/chordangle.go), bit-exact in the soft-float -/

def fz : F64 := F64.zero false
def quarter : F64 := ⟨0x3FD0000000000000⟩

/-- `ChordAngle.Sub` -/
def caSub (c o : F64) : F64 :=
  if F64.feq o fz then c
  else if F64.le c o then fz
  else
    let x := c * (F64.one - quarter * o)
    let y := o * (F64.one - quarter * c)
    F64.fmax fz (x + y - F64.two * F64.sqrt (x * y))

/-- `ChordAngle.Add` -/
def caAdd (c o : F64) : F64 :=
  if F64.feq o fz then c
  else if F64.ge (c + o) F64.four then F64.four
  else
    let x := c * (F64.one - quarter * o)
    let y := o * (F64.one - quarter * c)
    F64.fmin F64.four (x + y + F64.two * F64.sqrt (x * y))

def isPosInf (x : F64) : Bool := x.isInf && !x.signBit

/-- `minDistance` over float64 chord angles -/
def fMin : DistI F64 where
  less a b := F64.lt a b
  zero := fz
  infinity := F64.inf false
  sub a e := if isPosInf a || F64.lt a fz then a else caSub a e

/-- `maxDistance` -/
def fMax : DistI F64 where
  less a b := F64.gt a b
  zero := F64.four
  infinity := ⟨0xBFF0000000000000⟩   -- NegativeChordAngle = -1
  sub a e := if isPosInf a || F64.lt a fz then a else caAdd a e

/-! ### parsing -/

def canonF (x : F64) : F64 := if x.bits == 0x8000000000000000 then fz else x
def parseD? (s : String) : Option F64 := (parseF64? s).map canonF

def parseRes? (s : String) : Option (Result F64) :=
  match s.splitOn ":" with
  | [d, sh, e] => do
    let d ← parseD? d; let sh ← parseInt? sh; let e ← parseInt? e
    pure ⟨d, sh, e⟩
  | _ => none

def parseResList? (s : String) : Option (List (Result F64)) := parseList? parseRes? s

def parseThr? (s : String) : Option (F64 × Bool × Bool) :=
  match s.splitOn ":" with
  | [t, o, b] => do
    let t ← parseD? t; let o ← parseBool? o; let b ← parseBool? b
    pure (t, o, b)
  | _ => none

def parseIntSet? (s : String) : Option (Option (List Int)) :=
  if s == "?" then some none else (parseList? parseInt? s).map some

def showRes (r : Result F64) : String := s!"{showF64 r.dist}:{r.shape}:{r.edge}"

/-! ### c08cover -/

def showFlags (l : List Bool) : String := if l.isEmpty then "-" else String.join (l.map showBool)

def coverProp (cells cov : List CellID) : Option String :=
  if cov.length > 6 then some "covering-more-than-6-cells"
  else if !(cov.zip (cov.drop 1)).all (fun (a, b) => CellID.rangeMax a < CellID.rangeMin b) then some "covering-not-sorted-disjoint"
  else if !cov.all CellID.isValid then some "covering-invalid-cell"
  else match cells.find? (fun c => (cov.filter (fun p => CellID.rangeMin p ≤ CellID.rangeMin c && CellID.rangeMax c ≤ CellID.rangeMax p)).length != 1) with
    | some c => some ("covering-loses-index-cell:" ++ u64Hex c)
    | none =>
      match cov.find? (fun p => !cells.any (fun c => CellID.rangeMin p ≤ CellID.rangeMin c && CellID.rangeMax c ≤ CellID.rangeMax p)) with
      | some p => some ("covering-cell-without-index-cell:" ++ u64Hex p)
      | none => none

def coverModel (cells : List CellID) : List String :=
  match initCovering cells with
  | some cov => [showList u64Hex (cov.map (·.1)), showFlags (cov.map (·.2))]
  | none => ["fuel"]

def handleCover (cellsTok : String) (res : List String) : Option String := do
  let cells ← parseList? parseU64? cellsTok
  let model := coverModel cells
  let prop : Option String := match res with
    | [c, _] => match parseList? parseU64? c with
      | some cov => coverProp cells cov
      | none => some "unparseable"
    | _ => some "impl-output-arity"
  pure (verdictP model res prop)

/-! ### c08eq -/

structure Case where
  I : DistI F64
  k : Nat              -- effective MaxResults
  kOne : Bool
  lim : F64
  err : F64
  int : Bool
  approx : Bool        -- the target uses MaxError with a positive error (shape-index targets)
  all : List (Result F64)
  intr : List Int

def key (r : Result F64) : Int × Int := (r.shape, r.edge)

def Case.cand (c : Case) : List (Result F64) :=
  if c.lim == c.I.zero then [] else
  (if c.int then c.intr.map (fun s => (⟨c.I.zero, s, -1⟩ : Result F64)) else []) ++
    c.all.filter (fun r => c.I.less r.dist c.lim)

/-- strictly sorted by `Result.less` -/
def sortedBy (I : DistI F64) : List (Result F64) → Bool
  | [] => true
  | [_] => true
  | a :: b :: t => Result.less I a b && sortedBy I (b :: t)

def nodupKeys (rs : List (Result F64)) : Bool :=
  let ks := rs.map key
  ks.eraseDups.length == ks.length

/-- the checks on one answer list `rs` (label = which path) -/
def checkList (c : Case) (label : String) (rs : List (Result F64)) : Option String :=
  let I := c.I
  let cand := c.cand
  let fail (s : String) : Option String := some (label ++ "-" ++ s)
  if c.lim == I.zero then (if rs.isEmpty then none else fail "results-with-zero-limit")
  else if !sortedBy I rs then fail "not-sorted"
  else if !nodupKeys rs then fail "duplicate-edge"
  else if rs.length > c.k then fail "more-than-MaxResults"
  else if rs.any (fun r => !(r.edge == -1) && !(I.less r.dist c.lim)) then fail "result-not-within-limit"
  else if !c.approx then
    -- exact distances
    if rs.any (fun r => !cand.contains r) then
      fail ("result-distance-differs-from-edge-scan:" ++ ((rs.find? (fun r => !cand.contains r)).map showRes).getD "")
    else if c.kOne then
      match rs with
      | [] => if cand.isEmpty then none else fail "empty-but-edges-within-limit"
      | r :: _ =>
        match cand.find? (fun x => I.less x.dist (I.sub r.dist c.err)) with
        | some x => fail ("closer-edge-exists-beyond-MaxError:" ++ showRes x)
        | none => none
    else if c.int && c.intr.length ≥ c.k then
      -- visitContainingShapes is cut at MaxResults shapes: which ones is unspecified
      if rs.length != c.k then fail "count" else
      if rs.any (fun r => r.dist != I.zero) then fail "interior-not-at-zero" else none
    else
      let expect := postProcess I c.k cand
      if rs != expect then fail ("k-best-differs-from-scan:want=" ++ showList showRes (expect.take 3)) else none
  else
    -- approximate distances (shape-index target, MaxError > 0)
    let okOne (r : Result F64) : Bool :=
      if r.edge == -1 then c.int && r.dist == I.zero && c.intr.contains r.shape
      else match c.all.find? (fun a => key a == key r) with
        | some a => !(I.less r.dist a.dist) && !(I.less a.dist (I.sub r.dist c.err))
        | none => false
    if rs.any (fun r => !okOne r) then
      fail ("reported-distance-not-within-MaxError-of-edge:" ++ ((rs.find? (fun r => !okOne r)).map showRes).getD "")
    else
      let candKeys := (cand.map key).eraseDups
      if c.kOne then
        match rs with
        | [] => if cand.isEmpty then none else fail "empty-but-edges-within-limit"
        | r :: _ =>
          match cand.find? (fun x => I.less x.dist (I.sub r.dist c.err)) with
          | some x => fail ("closer-edge-exists-beyond-MaxError:" ++ showRes x)
          | none => none
      else if c.int && c.intr.length ≥ c.k then none
      else if rs.length != min c.k candKeys.length then fail "count"
      else if rs.length == c.k then
        match rs.getLast? with
        | some l =>
          match cand.find? (fun x => !(rs.map key).contains (key x) && I.less x.dist (I.sub l.dist c.err)) with
          | some x => fail ("omitted-edge-better-than-last-beyond-MaxError:" ++ showRes x)
          | none => none
        | none => none
      else none

def checkDistance (c : Case) (label : String) (d : F64) : Option String :=
  let I := c.I
  let cand := c.cand
  if cand.isEmpty then (if d == I.infinity then none else some (label ++ "-not-infinity-on-empty"))
  else if !(I.less d c.lim) && !(d == I.zero && c.int) then some (label ++ "-not-within-limit")
  else if !c.approx && !cand.any (fun x => x.dist == d) then some (label ++ "-is-no-edge-distance")
  else if cand.all (fun x => I.less d x.dist) then some (label ++ "-below-true-optimum")
  else match cand.find? (fun x => I.less x.dist (I.sub d c.err)) with
    | some x => some (label ++ "-not-within-MaxError-of-optimum:" ++ showRes x)
    | none => none

def firstSome : List (Option String) → Option String
  | [] => none
  | some s :: _ => some s
  | none :: t => firstSome t

def handleEq (args res : List String) : Option String :=
  match args, res with
  | [kind, _ispec, tspec, kTok, limTok, errTok, intTok, inTok, outTok],
    [path, _inner, _thrsz, _nedges, cellsTok, covTok, covFlTok, zeroTok, infTok, allTok, intrTok,
     optTok, bfTok, dOTok, dBTok, thrTok, consTok] => do
    let I := if kind == "min" then fMin else fMax
    let k ← parseNat? kTok
    let lim ← if limTok == "-" then some I.infinity else parseD? limTok
    let err ← parseD? errTok
    let int ← parseBool? intTok
    let inS ← parseIntSet? inTok
    let outS ← parseIntSet? outTok
    let cells ← parseList? parseU64? cellsTok
    let cov ← parseList? parseU64? covTok
    let zero ← parseD? zeroTok
    let inf ← parseD? infTok
    let all ← parseResList? allTok
    let intr ← parseList? parseInt? intrTok
    let opt ← parseResList? optTok
    let bf ← parseResList? bfTok
    let dO ← parseD? dOTok
    let dB ← parseD? dBTok
    let thr ← parseList? parseThr? thrTok
    let cons ← parseList? parseThr? consTok
    let isIdx := tspec.startsWith "i:"
    let approx := isIdx && err != I.zero && F64.gt err fz
    let c : Case := { I := I, k := if k == 0 then 2147483647 else k, kOne := k == 1, lim := lim, err := err,
                      int := int, approx := approx, all := all, intr := intr }
    let cand := c.cand
    -- exhaustive optimum without the user's limit (what the threshold tests speak about)
    let candAll := (if int && !intr.isEmpty then [I.zero] else []) ++ all.map (·.dist)
    let best := candAll.foldl (fun b d => if I.less d b then d else b) I.infinity
    let prop := firstSome [
      (if zero != I.zero || inf != I.infinity then some "sentinels" else none),
      checkList c "opt" opt,
      checkList c "bf" bf,
      -- (when at least MaxResults polygons contain the target, WHICH of them visitContainingShapes reports
      --  before it is cut short is unspecified — for shape-index targets it follows Go's map order —
      --  so the two answers may legitimately differ inside the distance-zero tie group)
      (if !approx && !c.kOne && !(int && intr.length ≥ c.k) && opt != bf then some "opt-differs-from-brute-force" else none),
      (if !approx && c.kOne && F64.feq err fz && opt.map (·.dist) != bf.map (·.dist) then some "opt-distance-differs-from-brute-force" else none),
      checkDistance c "Distance-opt" dO,
      checkDistance c "Distance-bf" dB,
      -- threshold tests
      (thr.find? (fun (t, o, _) => o != I.less best t)).map (fun (t, _, _) => "threshold-opt@" ++ showF64 t),
      (thr.find? (fun (t, _, b) => b != I.less best t)).map (fun (t, _, _) => "threshold-bf@" ++ showF64 t),
      (cons.find? (fun (t, o, b) => !(I.less t best) && best != I.infinity && (!o || !b))).map (fun (t, _, _) => "conservative-false-though-within@" ++ showF64 t),
      -- interiors by construction (point targets)
      (match inS with
        | some l => if int && lim != I.zero then
            (l.find? (fun s => !intr.contains s)).map (fun s => s!"interior-missed-shape-{s}") else none
        | none => none),
      (match outS with
        | some l => (l.find? (fun s => intr.contains s)).map (fun s => s!"interior-claimed-for-outside-shape-{s}")
        | none => none),
      (match inS with
        | some (s :: _) => if int && lim != I.zero then
            (if dO != I.zero || dB != I.zero then some s!"inside-shape-{s}-but-distance-not-zero"
             else if (opt.length < c.k && !(opt.any (fun r => r.edge == -1))) || (bf.length < c.k && !(bf.any (fun r => r.edge == -1))) then some "inside-but-no-interior-result"
             else none) else none
        | _ => none),
      (if !int && (opt.any (fun r => r.edge == -1) || bf.any (fun r => r.edge == -1)) then some "interior-result-without-IncludeInteriors" else none),
      -- the covering actually used
      (if path == "O" && !cov.isEmpty then coverProp cells cov else none)
    ]
    let _ := cand
    match prop with
    | some clause => pure ("propfail " ++ clause)
    | none =>
      if path == "O" && !cov.isEmpty then
        let m := coverModel cells
        if m == [covTok, covFlTok] then pure "ok" else pure ("diff cov=" ++ " ".intercalate m)
      else pure "ok"
  | _, _ => none

def handle (op : String) (args res : List String) : Option String :=
  match op, args with
  | "c08cover", [c] => handleCover c res
  | "c08eq", _ =>
    match res with
    | [p] => if p.startsWith "PANIC" then some ("propfail panic " ++ p) else handleEq args res
    | _ => handleEq args res
  | _, _ => none

end Oracle.C08
