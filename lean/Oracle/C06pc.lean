/-
  Oracle.C06pc — handlers comparing the real s2.PaddedCell with `S2.PaddedCellM`.

  c06pcid     <id> <pad>                      PaddedCellFromCellID: fields, Entry/Exit/Center points (bit-exact),
                                              ChildIJ(0..3), Bound, Middle
  c06pcpath   <id> <pad> <path>               chain of PaddedCellFromParentIJ steps from FromCellID(id):
                                              fields/Entry/Exit/Bound of the result AND of FromCellID(result id);
                                              property (on the implementation's output): both agree
  c06pcnext   <id> <pad>                      ExitVertex(id) and EntryVertex(id.Next()); property: equal
  c06pcshrink <id> <pad> <path> <rect:4>      ShrinkToFit; model bit-exact; property: the result is a valid
                                              descendant-or-self of the cell, contains every leaf descendant
                                              whose padded (float) bound meets rect, and is the smallest such
                                              cell up to a padding slack of 2^-45
  path = comma separated `ij` digit pairs (`10,01,11`), `-` = empty.
-/
import Oracle.Basic
import S2.PaddedCellM
namespace Oracle.C06pc
open Oracle S2 S2.CellID S2.Hilbert S2.STUV S2.CellM S2.PaddedCellM

def parseStep? (s : String) : Option (Nat × Nat) :=
  match s.toList with
  | [a, b] =>
    if (a == '0' || a == '1') && (b == '0' || b == '1') then
      some (if a == '1' then 1 else 0, if b == '1' then 1 else 0)
    else none
  | _ => none

def parsePath? (s : String) : Option (List (Nat × Nat)) := parseList? parseStep? s

def showRect (r : Rect2) : List String := [showF64 r.1.1, showF64 r.1.2, showF64 r.2.1, showF64 r.2.2]

def showFields (p : PaddedCell) : List String :=
  [u64Hex p.id, toString p.level, toString p.orientation, toString p.iLo, toString p.jLo]

/-- descend along a path, carrying the float bound; only the very first step can see the preset middle -/
def descend (id : CellID) (pad : F64) (path : List (Nat × Nat)) : PaddedCell × Rect2 :=
  let start := (fromCellID id, boundFromCellID id pad, isFace id)
  let r := path.foldl (fun (st : PaddedCell × Rect2 × Bool) ij =>
    let (p, b, preset) := st
    (fromParentIJ p ij.1 ij.2, boundFromParentIJ b (middle p pad preset) ij.1 ij.2, false)) start
  (r.1, r.2.1)

/-- least `i` in `[lo, hi)` with `P i` (monotone `P`), `hi` if none -/
def leastTrue (P : Nat → Bool) : Nat → Nat → Nat → Nat
  | 0, lo, _ => lo
  | fuel + 1, lo, hi =>
    if lo ≥ hi then lo else
    let mid := (lo + hi) / 2
    if P mid then leastTrue P fuel lo mid else leastTrue P fuel (mid + 1) hi

/-- padded float bound of the leaf column `i`: exactly what `PaddedCellFromCellID(leaf)` stores -/
def leafLo (pad : F64) (i : Nat) : F64 := stToUV (ijToSTMin (Int.ofNat i)) - pad
def leafHi (pad : F64) (i : Nat) : F64 := stToUV (ijToSTMin (Int.ofNat (i + 1))) + pad

/-- range `[a, b)` of the leaf columns in `[lo, lo+size)` whose padded bound meets `[rlo, rhi]` -/
def hitRange (pad : F64) (lo size : Nat) (rlo rhi : F64) : Nat × Nat :=
  let a := leastTrue (fun i => F64.ge (leafHi pad i) rlo) 40 lo (lo + size)
  let b := leastTrue (fun i => !(F64.le (leafLo pad i) rhi)) 40 lo (lo + size)
  (a, b)

def shrinkJudge (p : PaddedCell) (pad : F64) (rect : Rect2) (r : CellID) : Option String :=
  if !isValid r then some "shrinkToFit-result-invalid"
  else if !(contains p.id r) then some "shrinkToFit-result-not-inside-cell"
  else
    let size := sizeIJ p.level
    let (ia, ib) := hitRange pad p.iLo size rect.1.1 rect.1.2
    let (ja, jb) := hitRange pad p.jLo size rect.2.1 rect.2.2
    if ia ≥ ib || ja ≥ jb then none  -- no leaf meets rect (rect empty / out of contract): nothing to contain
    else
      let f := face p.id
      if !(contains r (cellIDFromFaceIJ f ia ja)) || !(contains r (cellIDFromFaceIJ f (ib - 1) (jb - 1))) then
        some "shrinkToFit-misses-intersecting-descendant"
      else
        -- "smallest": even with the padding enlarged by 2^-45 (far more than the 1.5·eps the code adds for the
        -- uvToST error, far less than a leaf width) the intersecting leaves must not fit into ONE child of r
        let pad' := pad + (⟨0x3D20000000000000⟩ : F64)
        let (ia', ib') := hitRange pad' p.iLo size rect.1.1 rect.1.2
        let (ja', jb') := hitRange pad' p.jLo size rect.2.1 rect.2.2
        let l := level r
        if l < 30 && ia' < ib' && ja' < jb' &&
            parent (cellIDFromFaceIJ f ia' ja') (l + 1) == parent (cellIDFromFaceIJ f (ib' - 1) (jb' - 1)) (l + 1) then
          some "shrinkToFit-not-smallest"
        else none

def handle (op : String) (args res : List String) : Option String :=
  match op, args with
  | "c06pcid", [a, b] => do
    let id ← parseU64? a; let pad ← parseF64? b
    let p := fromCellID id
    let cij := (List.range 4).flatMap fun pos => [toString (childIJ p pos).1, toString (childIJ p pos).2]
    let model := showFields p ++ showV3 (entryVertex p) ++ showV3 (exitVertex p) ++ showV3 (center p) ++ cij ++
      showRect (boundFromCellID id pad) ++ showRect (middle p pad (isFace id))
    pure (verdict model res)
  | "c06pcpath", [a, b, c] => do
    let id ← parseU64? a; let pad ← parseF64? b; let path ← parsePath? c
    let (p, bnd) := descend id pad path
    let q := fromCellID p.id
    let model := showFields p ++ showV3 (entryVertex p) ++ showV3 (exitVertex p) ++ showRect bnd ++
      showFields q ++ showV3 (entryVertex q) ++ showV3 (exitVertex q) ++ showRect (boundFromCellID p.id pad)
    let prop : Option String :=
      if res.length != 30 then some "impl-output-arity" else
      let a := res.take 15; let b := res.drop 15
      if a.take 11 != b.take 11 then some "fromParentIJ-chain-differs-from-fromCellID"
      else match (a.drop 11).mapM parseF64?, (b.drop 11).mapM parseF64? with
        | some x, some y =>
          if (x.zip y).all (fun xy => F64.feq xy.1 xy.2) then none
          else some "fromParentIJ-chain-bound-differs-from-fromCellID-bound"
        | _, _ => some "unparseable"
    pure (verdictP model res prop)
  | "c06pcnext", [a, b] => do
    let id ← parseU64? a; let _pad ← parseF64? b
    let model := showV3 (exitVertex (fromCellID id)) ++ showV3 (entryVertex (fromCellID (next id)))
    let prop : Option String :=
      if res.length != 6 then some "impl-output-arity"
      else if res.take 3 != res.drop 3 then some "exitVertex-ne-entryVertex-of-next" else none
    pure (verdictP model res prop)
  | "c06pcshrink", [a, b, c, x0, x1, y0, y1] => do
    let id ← parseU64? a; let pad ← parseF64? b; let path ← parsePath? c
    let x0 ← parseF64? x0; let x1 ← parseF64? x1; let y0 ← parseF64? y0; let y1 ← parseF64? y1
    let rect : Rect2 := ((x0, x1), (y0, y1))
    let (p, _) := descend id pad path
    let model := [u64Hex (shrinkToFit p pad rect)]
    let prop : Option String := match res with
      | [r] => (do let r ← parseU64? r; pure (shrinkJudge p pad rect r)).getD (some "unparseable")
      | _ => some "impl-output-arity"
    pure (verdictP model res prop)
  | _, _ => none

end Oracle.C06pc
