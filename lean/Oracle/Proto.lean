/-
  Oracle.Proto — line protocol helpers.
  A line is  `<op> <arg>… = <impl result>…`  (tokens separated by single blanks).
  uint64 words: 16 lower-case hex digits.  Integers: decimal.  Lists: comma separated, `-` = empty.
  Strings: raw token, `~` = empty string.  Booleans: `T` / `F`.
  Verdict lines printed by the oracle:
    ok                      model output = implementation output (and the property predicate holds)
    diff <model output>     model ≠ implementation, property predicate still holds on the impl output
    propfail <clause> …     the property predicate itself fails on the implementation output
    bad <why>               unparseable line (harness bug)
-/
namespace Oracle

def hexVal? (c : Char) : Option Nat :=
  if '0' ≤ c ∧ c ≤ '9' then some (c.toNat - 48)
  else if 'a' ≤ c ∧ c ≤ 'f' then some (c.toNat - 87)
  else none

def parseHexNat? (s : String) : Option Nat :=
  if s.isEmpty then none else
  s.toList.foldl (fun acc c => match acc, hexVal? c with
    | some a, some v => some (16 * a + v)
    | _, _ => none) (some 0)

def parseU64? (s : String) : Option UInt64 := (parseHexNat? s).map UInt64.ofNat

def hexDigit (n : Nat) : Char := if n < 10 then Char.ofNat (48 + n) else Char.ofNat (87 + n)

def u64Hex (x : UInt64) : String :=
  String.ofList ((List.range 16).map fun k => hexDigit ((x >>> UInt64.ofNat (4 * (15 - k))) &&& 15).toNat)

def parseList? (p : String → Option α) (s : String) : Option (List α) :=
  if s == "-" then some [] else (s.splitOn ",").mapM p

def showList (f : α → String) (l : List α) : String :=
  if l.isEmpty then "-" else ",".intercalate (l.map f)

def parseInt? (s : String) : Option Int := s.toInt?
def parseNat? (s : String) : Option Nat := s.toNat?
def parseBool? (s : String) : Option Bool := if s == "T" then some true else if s == "F" then some false else none
def showBool (b : Bool) : String := if b then "T" else "F"
def parseStr (s : String) : String := if s == "~" then "" else s
def showStr (s : String) : String := if s.isEmpty then "~" else s

/-- compare model output tokens with implementation tokens -/
def verdict (model impl : List String) : String :=
  if model == impl then "ok" else "diff " ++ " ".intercalate model

/-- verdict with an additional property predicate evaluated on the implementation output -/
def verdictP (model impl : List String) (prop : Option String) : String :=
  match prop with
  | some clause => "propfail " ++ clause ++ (if model == impl then "" else " model=" ++ " ".intercalate model)
  | none => verdict model impl

end Oracle
