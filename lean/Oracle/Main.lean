import Oracle.Basic
import Oracle.C01
import Oracle.C11
import Oracle.C06a
import Oracle.C02
import Oracle.C09
import Oracle.C13
import Oracle.C14
import Oracle.C15
import Oracle.C15Usable
import Oracle.C11b
import Oracle.C19
import Oracle.C04
import Oracle.C03
import Oracle.C07
import Oracle.C01pt
import Oracle.C12
import Oracle.C08
import Oracle.C05
import Oracle.C10
import Oracle.C17
import Oracle.C18
import Oracle.C20
import Oracle.C06pc
import Oracle.C04Build
import Oracle.C07Walk
open Oracle

def dispatch (op : String) (args res : List String) : String :=
  if op == "f64" then handleF64 args res
  else if op == "f64ofint" then handleF64Int args res
  else
    let handlers : List (String → List String → List String → Option String) :=
      [Oracle.C01.handle, Oracle.C02.handle, Oracle.C11.handle, Oracle.C06a.handle, Oracle.C09.handle,
       Oracle.C13.handle, Oracle.C14.handle, Oracle.C15.handle, Oracle.C11b.handle, Oracle.C19.handle, Oracle.C04.handle, Oracle.C03.handle, Oracle.C07.handle,
       Oracle.C01pt.handle, Oracle.C12.handle, Oracle.C08.handle, Oracle.C05.handle, Oracle.C10.handle, Oracle.C17.handle, Oracle.C18.handle, Oracle.C20.handle, Oracle.C06pc.handle, Oracle.C04Build.handle, Oracle.C07Walk.handle, Oracle.C15Usable.handle]
    match handlers.findSome? (fun h => h op args res) with
    | some v => v
    | none => "bad unknown-op-or-args " ++ op

def processLine (line : String) : String :=
  let toks := (line.trimAscii.toString.splitOn " ").filter (· != "")
  match toks with
  | [] => "bad empty"
  | op :: rest =>
    let args := rest.takeWhile (· != "=")
    let res := (rest.dropWhile (· != "=")).drop 1
    dispatch op args res

partial def loop (hin : IO.FS.Stream) (hout : IO.FS.Stream) : IO Unit := do
  let line ← hin.getLine
  if line.isEmpty then return ()
  hout.putStrLn (processLine line)
  loop hin hout

def main : IO Unit := do
  let hin ← IO.getStdin
  let hout ← IO.getStdout
  loop hin hout
