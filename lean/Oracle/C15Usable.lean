/-
  Oracle.C15Usable — correspondence + property judge for work package c15usable:

    c15shape <hexbytes> = error | st:<loops> <ne> <nc> <edges> <chains> <positions> <chainedges> <uniq|dup>

  Model: the model decoder `S2.Codec.decodePolygon` on the same bytes; on success the accessor models
  (the record `Oracle.C06a.G.polygon`, i.e. the regenerated accessors of s2/polygon.go) on the state
  `PolygonS.init (decoded loops)` — what S2Proofs/Properties/C15_Usable.lean calls `polygonState` —
  rendered exactly like the harness renders the real accessors of the value `Polygon.Decode` returned.
  `diff` therefore means: the Go value after Decode is not `initEdgesAndIndex` of the model-decoded loops,
  or an accessor disagrees with its model on a decoded value.

  Property predicate (on the implementation's own outputs): `checkUsable` — the executable form of
  `S2Proofs.C15.Usable` (every accessor returns on every in-range argument — a Go panic is "!" —, positions
  name existing chains, chains lie inside `[0, NumEdges]`, the two enumerations agree); and, when the decoded
  loop list is `InitValid` (no 1-vertex loop among ≤ 12 loops, or the full polygon), the whole Shape
  contract `S2.Shapes.checkContract`.
-/
import Oracle.C06a
import Oracle.C15
import S2.Codec
namespace Oracle.C15Usable
open Oracle Oracle.C06a S2 S2.Shapes S2.Codec

def loopCState (l : LoopC) : LoopS := ⟨l.vertices.length, l.originInside, l.depth⟩

def stToken (loops : List LoopC) : String :=
  if loops.isEmpty then "st:-" else
  "st:" ++ ",".intercalate (loops.map fun l =>
    s!"{l.vertices.length}.{l.depth % 2}.{if l.originInside then 1 else 0}")

/-- executable `InitValid` -/
def initValid (loops : List LoopS) : Bool :=
  (match loops with | [l] => l.isFullB | _ => false) || loops.all (fun l => l.n != 1) ||
    decide (loops.length > maxLinearSearchLoops)

/-- first violated clause of `Usable` on the range `[0,ne) × [0,nc)`; `edgesKnown = false` skips the clauses
    that compare edge labels (ambiguous labels) but still requires every call to have returned. -/
def checkUsable {V : Type} [BEq V] (A : ShapeAcc V) (ne nc : Int) (edgesKnown : Bool) : Option String :=
  if ne < 0 || nc < 0 then some "negative-count" else
  let es := natRange ne
  let cs := natRange nc
  let c1 := es.findSome? fun e =>
    match A.chainPosition e with
    | none => some s!"chainPosition-panics:e={e}"
    | some (c, o) =>
      if !(0 ≤ c && c < nc) then some s!"chainPosition-chain-out-of-range:e={e}" else
      if o < 0 then some s!"chainPosition-negative-offset:e={e}" else
      if !edgesKnown then none else
      match A.edge e with
      | none => some s!"edge-panics:e={e}"
      | some _ => none
  match c1 with
  | some m => some m
  | none =>
  cs.findSome? fun i =>
    match A.chain i with
    | none => some s!"chain-panics:i={i}"
    | some (st, len) =>
      if st < 0 || len < 0 || st + len > ne then some s!"chain-outside-edge-range:i={i}" else
      (natRange len).findSome? fun j =>
        if A.chainPosition (st + j) != some (i, j) then some s!"chainPosition(start+j)≠(i,j):i={i},j={j}" else
        if !edgesKnown then none else
        match A.chainEdge i j with
        | none => some s!"chainEdge-panics:i={i},j={j}"
        | some ed => if A.edge (st + j) != some ed then some s!"edge(start+j)≠chainEdge(i,j):i={i},j={j}" else none

def handle (op : String) (args res : List String) : Option String :=
  match op, args with
  | "c15shape", [hex] => do
    let bytes ← Oracle.C15.parseBytes? hex
    match decodePolygon bytes with
    | none =>
      pure (verdictP ["error"] res (if res == ["error"] then none else
        match res with
        | [t] => if t.startsWith "PANIC:" then some ("decode-panic " ++ t) else none
        | _ => none))
    | some (p, _) =>
      let loops := p.loops.map loopCState
      let A := G.polygon (PolygonS.init loops)
      match res with
      | [st, ne, nc, edges, chains, poss, ces, u] =>
        let known := u == "uniq"
        let m := render A
        let mtoks := match m with
          | [mne, mnc, medges, mchains, mposs, mces] =>
            if known then [stToken p.loops, mne, mnc, medges, mchains, mposs, mces, u]
            else [stToken p.loops, mne, mnc, "~", mchains, mposs, "~", u]
          | other => stToken p.loops :: other
        let anyPanic := [ne, nc, edges, chains, poss, ces].any fun t => t.contains '!'
        let prop : Option String :=
          match ne.toInt?, nc.toInt? with
          | some nei, some nci =>
            if anyPanic then some "query-panic" else
            match checkUsable (implAcc nei nci edges chains poss ces) nei nci known with
            | some m => some ("usable:" ++ m)
            | none =>
              if known && initValid loops then
                (checkContract (implAcc nei nci edges chains poss ces) nei nci).map fun m => "contract:" ++ m
              else none
          | _, _ => some "query-panic:NumEdges-or-NumChains"
        pure (verdictP mtoks [st, ne, nc, edges, chains, poss, ces, u] prop)
      | [t] =>
        if t.startsWith "PANIC:" then pure ("propfail decode-panic " ++ t)
        else pure (verdictP [stToken p.loops] res none)
      | _ => pure "propfail impl-output-arity"
  | _, _ => none

end Oracle.C15Usable
