import Oracle.Basic
import S2.CellUnion
namespace Oracle.C11
open Oracle S2 S2.CellID S2.CellUnion

def showID (x : CellID) : String := u64Hex x
def showCU (l : List CellID) : String := showList showID l
def parseCU? (s : String) : Option (List CellID) := parseList? parseU64? s

def handle (op : String) (args res : List String) : Option String :=
  match op, args with
  | "cunorm", [a] => do
    let x ← parseCU? a
    let model := [showCU (normalize x)]
    let prop : Option String := match res with
      | [o] => (do
          let o ← parseCU? o
          pure (if canon o != canon x then some "normalize-changes-leaf-set"
                else if !isNormalizedCU o then some "normalize-output-not-normalized"
                else none)).getD (some "unparseable")
      | _ => some "impl-output-arity"
    pure (verdictP model res prop)
  | "cuvalid", [a] => do
    let x ← parseCU? a
    pure (verdict [showBool (isValidCU x), showBool (isNormalizedCU x)] res)
  | "cucontid", [a, b] => do
    let x ← parseCU? a; let id ← parseU64? b
    let model := [showBool (containsCellID x id), showBool (intersectsCellID x id)]
    let cx := canon x; let ci := canon [id]
    let prop : Option String := match res with
      | [c, i] =>
        if c != showBool (runsSubset ci cx) then some "containsCellID-vs-leaf-sets"
        else if i != showBool (runsMeet ci cx) then some "intersectsCellID-vs-leaf-sets" else none
      | _ => some "impl-output-arity"
    pure (verdictP model res prop)
  | "cubin", [a, b] => do
    let x ← parseCU? a; let y ← parseCU? b
    let u := union [x, y]; let n := intersection x y; let d := difference x y
    let model := [showCU u, showCU n, showCU d, showBool (containsCU x y), showBool (intersectsCU x y)]
    let cx := canon x; let cy := canon y
    let fuel := 4 * (cx.length + cy.length) + 8
    let prop : Option String := match res with
      | [gu, gn, gd, gc, gi] => (do
          let gu ← parseCU? gu; let gn ← parseCU? gn; let gd ← parseCU? gd
          pure (
            if canon gu != canon (x ++ y) then some "union-leaf-set"
            else if !isNormalizedCU gu then some "union-not-normalized"
            else if canon gn != runsInter fuel cx cy then some "intersection-leaf-set"
            else if !isNormalizedCU gn then some "intersection-not-normalized"
            else if canon gd != runsDiff fuel cx cy then some "difference-leaf-set"
            else if !isNormalizedCU gd then some "difference-not-normalized"
            else if gc != showBool (runsSubset cy cx) then some "contains-vs-leaf-sets"
            else if gi != showBool (runsMeet cx cy) then some "intersects-vs-leaf-sets"
            else none)).getD (some "unparseable")
      | _ => some "impl-output-arity"
    pure (verdictP model res prop)
  | "cuunion", [a] => do
    -- CellUnionFromUnion of ONE raw operand, alone and together with an empty union: the result is the normal form of the operand
    let x ← parseCU? a
    let u := union [x]
    let model := [showCU u, showCU u]
    let prop : Option String := match res with
      | [g1, g2] => (do
          let g1 ← parseCU? g1; let g2 ← parseCU? g2
          pure (
            if canon g1 != canon x || canon g2 != canon x then some "union-leaf-set"
            else if !isNormalizedCU g1 || !isNormalizedCU g2 then some "union-not-normalized"
            else none)).getD (some "unparseable")
      | _ => some "impl-output-arity"
    pure (verdictP model res prop)
  | "cucont", [a, b] => do
    -- Contains with an ARBITRARY list of cell ids as argument (duplicates, overlaps, unsorted: Contains only iterates over its
    -- argument; Intersects binary-searches in it and is therefore not asked here); the receiver is normalized.  Judge: leaf sets.
    let x ← parseCU? a; let y ← parseCU? b
    let model := [showBool (containsCU x y)]
    let cx := canon x; let cy := canon y
    let prop : Option String := match res with
      | [gc] => if gc != showBool (runsSubset cy cx) then some "contains-vs-leaf-sets" else none
      | _ => some "impl-output-arity"
    pure (verdictP model res prop)
  | "cuinterid", [a, b] => do
    let x ← parseCU? a; let id ← parseU64? b
    let model := [showCU (intersectionWithCellID x id)]
    let cx := canon x; let ci := canon [id]
    let prop : Option String := match res with
      | [g] => (do
          let g ← parseCU? g
          pure (if canon g != runsInter (4 * cx.length + 8) cx ci then some "intersectionWithCellID-leaf-set" else none)).getD (some "unparseable")
      | _ => some "impl-output-arity"
    pure (verdictP model res prop)
  | "cudenorm", [a, ml, lm] => do
    let x ← parseCU? a; let ml ← parseNat? ml; let lm ← parseNat? lm
    let model := [showCU (denormalize x ml lm)]
    let prop : Option String := match res with
      | [g] => (do
          let g ← parseCU? g
          pure (if canon g != canon x then some "denormalize-leaf-set"
                else if !(g.all fun c => level c ≥ ml && ((level c - ml) % (max lm 1) == 0 || level c == 30)) then some "denormalize-levels"
                else none)).getD (some "unparseable")
      | _ => some "impl-output-arity"
    pure (verdictP model res prop)
  | "culeaves", [a] => do
    let x ← parseCU? a
    let model := [toString (leafCellsCovered x)]
    let prop := if res != [toString (runsCount (canon x))] then some "leafCellsCovered-vs-leaf-set" else none
    pure (verdictP model res prop)
  | "curange", [b, e] => do
    let b ← parseU64? b; let e ← parseU64? e
    let model := [showCU (fromRange b e)]
    let prop : Option String := match res with
      | [g] => (do
          let g ← parseCU? g
          let want := if b == e then [] else [(b.toNat, e.toNat - 2)]
          pure (if canon g != want then some "fromRange-leaf-set"
                else if !isNormalizedCU g then some "fromRange-not-minimal" else none)).getD (some "unparseable")
      | _ => some "impl-output-arity"
    pure (verdictP model res prop)
  | _, _ => none

end Oracle.C11
