import Oracle.Basic
import S2.CellUnion
namespace Oracle.C01
open Oracle S2 S2.CellID S2.Hilbert S2.STUV

def showID (x : CellID) : String := u64Hex x

/-! Exact judge for the neighbour clauses: a cell as an integer box on the cube
    `[-2^30,2^30]^3` (any monotone st→uv map gives the same incidences). -/
def cubeBox (ci : CellID) : (Int × Int) × (Int × Int) × (Int × Int) :=
  let (f, i, j, _) := faceIJOrientation ci
  let sz := sizeIJ (level ci)
  let ilo : Int := 2 * ((i - i % sz : Nat) : Int) - 1073741824
  let ihi : Int := ilo + 2 * sz
  let jlo : Int := 2 * ((j - j % sz : Nat) : Int) - 1073741824
  let jhi : Int := jlo + 2 * sz
  let one : Int := 1073741824
  let u := (ilo, ihi)
  let v := (jlo, jhi)
  let ng (p : Int × Int) : Int × Int := (-p.2, -p.1)
  match f with
  | 0 => ((one, one), u, v)
  | 1 => (ng u, (one, one), v)
  | 2 => (ng u, ng v, (one, one))
  | 3 => ((-one, -one), ng v, ng u)
  | 4 => (v, (-one, -one), ng u)
  | _ => (v, u, (-one, -one))

/-- dimension of the intersection of two boxes: none = disjoint, some d = number of axes with
    positive-length overlap -/
def boxMeet (a b : (Int × Int) × (Int × Int) × (Int × Int)) : Option Nat :=
  let ax (p q : Int × Int) : Option Nat :=
    let lo := max p.1 q.1; let hi := min p.2 q.2
    if lo > hi then none else some (if lo < hi then 1 else 0)
  match ax a.1 b.1, ax a.2.1 b.2.1, ax a.2.2 b.2.2 with
  | some x, some y, some z => some (x + y + z)
  | _, _, _ => none

def nbrOK (ci : CellID) (lvl : Nat) (n : CellID) (needEdge : Bool) : Option String :=
  if !isValid n then some "neighbour-invalid"
  else if level n != lvl then some "neighbour-level"
  else if intersects ci n then some "neighbour-not-disjoint"
  else match boxMeet (cubeBox ci) (cubeBox n) with
    | none => some "neighbour-does-not-touch"
    | some d => if needEdge && d < 1 then some "edge-neighbour-shares-no-edge" else none

def firstSome (l : List (Option String)) : Option String := l.findSome? id

def distinct (l : List CellID) : Bool := l.eraseDups.length == l.length

def handle (op : String) (args res : List String) : Option String :=
  match op, args with
  | "cidv", [a] => do
    let x ← parseU64? a
    pure (verdict [showBool (isValid x)] res)
  | "cid", [a] => do
    let x ← parseU64? a
    let (c0, c1, c2, c3) := children x
    let (f, i, j, o) := faceIJOrientation x
    let (_, si, ti) := faceSiTi x
    let model := [toString (face x), u64Hex (pos x), toString (level x), showBool (isLeaf x), showBool (isFace x),
      u64Hex (lsb x), showID (rangeMin x), showID (rangeMax x),
      showID c0, showID c1, showID c2, showID c3,
      showID (next x), showID (prev x), showID (nextWrap x), showID (prevWrap x),
      showID (childBegin x), showID (childEnd x), toToken x, toStr x,
      toString f, toString i, toString j, toString o, toString si, toString ti,
      toString (distanceFromBegin x), showID (if isFace x then x else immediateParent x)]
    -- property predicates on the implementation's own output
    let prop : Option String :=
      match res with
      | [_, _, lv, _, _, _, rmin, rmax, k0, k1, k2, k3, _, _, _, _, _, _, tok, str, gf, gi, gj, _, _, _, _, _] =>
        (do
          let lv ← parseNat? lv
          let rmin ← parseU64? rmin; let rmax ← parseU64? rmax
          let k0 ← parseU64? k0; let k1 ← parseU64? k1; let k2 ← parseU64? k2; let k3 ← parseU64? k3
          let gf ← parseNat? gf; let gi ← parseNat? gi; let gj ← parseNat? gj
          pure (
            if lv < 30 && !(rangeMin k0 == rmin && rangeMax k3 == rmax &&
                 rangeMax k0 + 2 == rangeMin k1 && rangeMax k1 + 2 == rangeMin k2 && rangeMax k2 + 2 == rangeMin k3 &&
                 [k0,k1,k2,k3].all (fun k => isValid k && level k == lv + 1 && parent k lv == x))
            then some "children-do-not-partition-range"
            else if fromToken tok != x then some "token-roundtrip"
            else if fromStr str != x then some "string-roundtrip"
            else if !(contains x (cellIDFromFaceIJ gf gi gj)) then some "faceij-not-in-cell"
            else none)).getD (some "unparseable-impl-output")
      | _ => some "impl-output-arity"
    pure (verdictP model res prop)
  | "cidpar", [a, l] => do
    let x ← parseU64? a; let l ← parseNat? l
    let p := parent x l
    let prop := if !(isValid p && level p == l && contains p x) then some "parent-level-or-containment" else none
    let model := [showID p, toString (childPosition x (max l 1))]
    let implOK := res.head? == some (showID p)
    pure (if implOK then verdictP model res none else
      -- judge the implementation's parent
      match res.head? >>= parseU64? with
      | some gp => verdictP model res (if !(isValid gp && level gp == l && contains gp x) then some "parent-level-or-containment" else prop)
      | none => "bad")
  | "cidchl", [a, l] => do
    let x ← parseU64? a; let l ← parseNat? l
    pure (verdict [showID (childBeginAtLevel x l), showID (childEndAtLevel x l)] res)
  | "cidpair", [a, b] => do
    let x ← parseU64? a; let y ← parseU64? b
    let cal := match commonAncestorLevel x y with | some l => toString l | none => "none"
    let model := [showBool (contains x y), showBool (intersects x y), cal]
    -- nested-or-disjoint law judged on the implementation output
    let prop := match res with
      | [c, i, _] => if c == "T" && i == "F" then some "contains-without-intersects" else none
      | _ => some "impl-output-arity"
    pure (verdictP model res prop)
  | "cidtile", [a, b] => do
    let x ← parseU64? a; let y ← parseU64? b
    pure (verdict [showID (maxTile x y)] res)
  | "cidadv", [a, s] => do
    let x ← parseU64? a; let s ← parseInt? s
    let model := [showID (advance x s), showID (advanceWrap x s)]
    let prop := match res with
      | [_, w] => (do let w ← parseU64? w
                      pure (if !(isValid w && level w == level x) then some "advancewrap-invalid" else none)).getD (some "unparseable")
      | _ => some "impl-output-arity"
    pure (verdictP model res prop)
  | "cidfpl", [f, p, l] => do
    let f ← parseNat? f; let p ← parseU64? p; let l ← parseNat? l
    pure (verdict [showID (fromFacePosLevel f p l)] res)
  | "cidtok", [s] => pure (verdict [showID (fromToken (parseStr s))] res)
  | "cidstr", [s] => pure (verdict [showID (fromStr (parseStr s))] res)
  | "cidfij", [f, i, j] => do
    let f ← parseNat? f; let i ← parseNat? i; let j ← parseNat? j
    let id := cellIDFromFaceIJ f i j
    let (f', i', j', _) := faceIJOrientation id
    let prop := if !(f' == f && i' == i && j' == j && isValid id && isLeaf id) then some "faceij-roundtrip" else none
    pure (verdictP [showID id] res prop)
  | "cidnbr", [a, vl, l] => do
    let x ← parseU64? a; let vl ← parseInt? vl; let l ← parseNat? l
    let en := edgeNeighbors x
    let vn := if vl < 0 then [] else vertexNeighbors x vl.toNat
    let an := allNeighbors x l
    let model := [showList showID en, showList showID vn, showList showID an]
    let prop : Option String := match res with
      | [e, v, al] => (do
          let e ← parseList? parseU64? e; let v ← parseList? parseU64? v; let al ← parseList? parseU64? al
          pure (firstSome [
            if e.length != 4 then some "edge-neighbours-count" else none,
            if !distinct e then some "edge-neighbours-not-distinct" else none,
            firstSome (e.map fun n => nbrOK x (level x) n true),
            -- vertex neighbours: all at `l`, pairwise distinct, all share one point
            if vl ≥ 0 && !(v.length == 3 || v.length == 4) then some "vertex-neighbours-count" else none,
            if !distinct v then some "vertex-neighbours-not-distinct" else none,
            firstSome (v.map fun n => if !(isValid n && level n == vl.toNat) then some "vertex-neighbour-level" else none),
            if vl ≥ 0 && !(v.contains (parent x vl.toNat)) then some "vertex-neighbours-miss-own-ancestor" else none,
            firstSome (v.map fun n => firstSome (v.map fun m =>
              if boxMeet (cubeBox n) (cubeBox m) == none then some "vertex-neighbours-do-not-touch" else none)),
            if l ≥ level x then firstSome (al.map fun n => nbrOK x l n false) else none,
            if l ≥ level x && l ≤ 30 && al.isEmpty then some "all-neighbours-empty" else none]))
          |>.getD (some "unparseable")
      | _ => some "impl-output-arity"
    pure (verdictP model res prop)
  | _, _ => none

end Oracle.C01
