/-
  Oracle.C12Judge — EXACT judge for the cell distance claims of C12 (core-only).

  Every finite float64 is a dyadic rational, the cell's uv bounds are floats, so the cell
  (a spherical quadrilateral bounded by four great circles) has exactly representable
  (unnormalised) vertices `(u,v,1)` and edge-plane normals.  All incidence decisions (point in cell,
  closest feature = edge interior / vertex, edges cross / touch) are SIGN tests of integer
  polynomials and are decided exactly.  A distance is then `2 − 2·cos` with
  `cos = N / sqrt(D)` or `sqrt((D − M)/D)` for integers N, D, M; it is enclosed in a fixed-point
  interval of width `2^-K` by one integer square root.

  A target point is treated as a DIRECTION (its length is irrelevant).
-/
import S2.F64
import S2.STUV
import S2.Exact
import S2.CellM
namespace Oracle.C12J
open S2 S2.Exact S2.CellM

/-- fixed-point scale of the enclosures -/
def K : Nat := 220
def oneK : Int := 2 ^ K
/-- enclosure `[lo, hi]` of `value · 2^K` -/
abbrev Iv := Int × Int

def ivMax (a b : Iv) : Iv := (max a.1 b.1, max a.2 b.2)
def ivMin (a b : Iv) : Iv := (min a.1 b.1, min a.2 b.2)

/-- index of the lowest set bit of a positive natural -/
def lowBit (n : Nat) : Nat := (n ^^^ (n - 1)).log2

/-- strip the common power of two of a vector (every use below is invariant under positive scaling) -/
def reduce (v : IV3) : IV3 :=
  let ts := [v.x, v.y, v.z].filterMap fun c => if c == 0 then none else some (lowBit c.natAbs)
  match ts with
  | [] => v
  | t :: rest =>
    let g := rest.foldl min t
    if g == 0 then v else ⟨v.x / (2 ^ g : Nat), v.y / (2 ^ g : Nat), v.z / (2 ^ g : Nat)⟩

/-- exact integer direction of a finite float vector (scaled by a positive power of two) -/
def vecOf (v : V3) : IV3 :=
  let es := [v.x, v.y, v.z].filterMap fun c => if c.isZero then none else some c.expo
  match es with
  | [] => ⟨0, 0, 0⟩
  | e0 :: rest =>
    let e := rest.foldl min e0
    let atE (c : F64) : Int := if c.isZero then 0 else c.toIntAt e
    reduce ⟨atE v.x, atE v.y, atE v.z⟩

def finiteV (v : V3) : Bool := v.x.isFinite && v.y.isFinite && v.z.isFinite
def nonzeroV (v : V3) : Bool := !(v.x.isZero && v.y.isZero && v.z.isZero)

/-- enclosure of `sqrt(num/den) · 2^K` for `num ≥ 0`, `den > 0` -/
def sqrtRatio (num den : Int) : Iv :=
  if num ≤ 0 then (0, 0) else
  let x : Nat := (num.natAbs * 4 ^ K) / den.natAbs
  let r := F64.isqrt x
  -- guard against an under-converged Newton iteration: make the bracket true by construction
  let r := if r * r > x then r - 1 else r
  let hi := if (r + 1) * (r + 1) > x then r + 1 else r + 2
  ((r : Int), (hi : Int))

/-- enclosure of `cos ∠(p, a)` -/
def cosPair (p a : IV3) : Iv :=
  let n := p.dot a
  let d := p.norm2 * a.norm2
  if d == 0 then (-oneK, oneK) else
  let (lo, hi) := sqrtRatio (n * n) d
  let hi := min hi oneK
  let lo := min lo oneK
  if n ≥ 0 then (lo, hi) else (-hi, -lo)

/-- enclosure of the cosine of the distance from direction `p` to the great-circle segment `ab`
    (shorter arc; `a`, `b` not antipodal).  `interior` tells which feature is closest. -/
def segCos (p a b : IV3) : Iv × Bool :=
  let n := reduce (a.cross b)
  if n.isZero then (cosPair p a, false)
  else if det3 a p n ≥ 0 && det3 p b n ≥ 0 then
    let m := p.dot n
    let d := p.norm2 * n.norm2
    if d == 0 then ((-oneK, oneK), true) else
    let (lo, hi) := sqrtRatio (d - m * m) d
    ((min lo oneK, min hi oneK), true)
  else (ivMax (cosPair p a) (cosPair p b), false)

/-- chord² = 2 − 2·cos -/
def chordOfCos (c : Iv) : Iv := (max 0 (2 * oneK - 2 * c.2), max 0 (2 * oneK - 2 * c.1))

/-- a convex spherical quadrilateral: CCW vertices and inward edge-plane normals (edge k = v k → v (k+1)) -/
structure Quad where
  v : Array IV3
  n : Array IV3
deriving Inhabited

def quadOfCell (c : Cell) : Quad :=
  { v := #[vecOf (vertexRaw c 0), vecOf (vertexRaw c 1), vecOf (vertexRaw c 2), vecOf (vertexRaw c 3)],
    n := #[vecOf (edgeRaw c 0), vecOf (edgeRaw c 1), vecOf (edgeRaw c 2), vecOf (edgeRaw c 3)] }

def Quad.antipode (q : Quad) : Quad := { v := q.v.map IV3.neg, n := q.n.map IV3.neg }

/-- exact closed containment of a direction -/
def Quad.has (q : Quad) (p : IV3) : Bool := !p.isZero && q.n.all fun n => p.dot n ≥ 0

/-- cos of the distance from p to the boundary; also the index of the closest edge and whether interior -/
def Quad.bdryCos (q : Quad) (p : IV3) : Iv :=
  (List.range 4).foldl (fun acc k => ivMax acc (segCos p q.v[k]! q.v[(k + 1) % 4]!).1) (-oneK, -oneK)

def Quad.bdryDist (q : Quad) (p : IV3) : Iv := chordOfCos (q.bdryCos p)
def Quad.dist (q : Quad) (p : IV3) : Iv := if q.has p then (0, 0) else q.bdryDist p
def four : Int := 4 * oneK
def Quad.maxDist (q : Quad) (p : IV3) : Iv :=
  let d := q.dist p.neg
  (four - d.2, four - d.1)

/-! ### segments against quads -/

/-- proper crossing of the arcs ab and cd: the four orientations agree and are non-zero -/
def properCross (a b c d : IV3) : Bool :=
  let s1 := sgn (det3 a c b)
  let s2 := sgn (det3 c b d)
  let s3 := sgn (det3 b d a)
  let s4 := sgn (det3 d a c)
  s1 != 0 && s1 == s2 && s2 == s3 && s3 == s4

/-- x lies on the closed arc ab -/
def onSeg (x a b : IV3) : Bool :=
  let n := a.cross b
  if n.isZero then (x.cross a).isZero && x.dot a > 0
  else det3 a b x == 0 && det3 a x n ≥ 0 && det3 x b n ≥ 0

/-- the arc ab meets the quad (exact): an endpoint inside, a proper crossing, or a vertex on the arc -/
def Quad.meetsSeg (q : Quad) (a b : IV3) : Bool :=
  q.has a || q.has b ||
  (List.range 4).any fun k =>
    properCross a b q.v[k]! q.v[(k + 1) % 4]! || onSeg q.v[k]! a b

def Quad.segDist (q : Quad) (a b : IV3) : Iv :=
  if q.meetsSeg a b then (0, 0) else
  let d := ivMin (q.dist a) (q.dist b)
  (List.range 4).foldl (fun acc k => ivMin acc (chordOfCos (segCos q.v[k]! a b).1)) d

def Quad.segMaxDist (q : Quad) (a b : IV3) : Iv :=
  let d := q.segDist a.neg b.neg
  (four - d.2, four - d.1)

/-! ### quad against quad -/

def Quad.meets (q r : Quad) : Bool :=
  q.v.any r.has || r.v.any q.has ||
  (List.range 4).any fun k => (List.range 4).any fun l =>
    properCross q.v[k]! q.v[(k + 1) % 4]! r.v[l]! r.v[(l + 1) % 4]!

def Quad.quadDist (q r : Quad) : Iv :=
  if q.meets r then (0, 0) else
  (List.range 4).foldl (fun acc k => (List.range 4).foldl (fun acc l =>
      let d1 := chordOfCos (segCos q.v[k]! r.v[l]! r.v[(l + 1) % 4]!).1
      let d2 := chordOfCos (segCos r.v[k]! q.v[l]! q.v[(l + 1) % 4]!).1
      ivMin acc (ivMin d1 d2)) acc) (four, four)

def Quad.quadMaxDist (q r : Quad) : Iv :=
  let d := q.quadDist r.antipode
  (four - d.2, four - d.1)

/-! ### comparing a reported chord angle with the truth -/

/-- enclosure of a finite non-negative float at scale 2^K -/
def ivOfF64 (x : F64) : Iv :=
  let (m, e) := x.toDyadic
  let s : Int := e + K
  if s ≥ 0 then (m * 2 ^ s.toNat, m * 2 ^ s.toNat)
  else
    let d : Int := 2 ^ (-s).toNat
    (m / d, -((-m) / d))    -- floor, ceil (Int `/` rounds toward −∞ for positive divisor)

/-- Documented error of a reported squared chord length `c` (upper bound, at scale 2^K):
      eps·((2.5+2√3)a + 8.5a² + (2+2√3/3+6.5)b) + (23+16/√3)eps²   (minUpdateInteriorDistanceMaxError, a = sin θ, b = min(1,c/2))
    + 4.5·eps·c + 16·eps²                                              (s1.ChordAngle.MaxPointError)
    + 2·τ·a + τ²            (τ = 1e-15 rad for c ≤ 1 (θ ≤ π/3), 1e-12 rad otherwise: the tolerance of s2/cell_test.go) -/
def tol (c : Int) : Int :=
  let c := max c 0
  let b := min oneK (c / 2)
  let a : Int := (F64.isqrt (b * (2 * oneK - b)).natAbs : Int) + 1
  let e52 : Int := 2 ^ 52
  let t1 := (6 * a + 10 * b + 5 * c) / e52 + 1
  let t2 := (9 * a * a) / (oneK * e52) + 1
  let t3 := (50 * oneK) / (e52 * e52) + 1
  let tauDen : Int := if c ≤ oneK then 1000000000000000 else 1000000000000
  let t4 := (2 * a) / tauDen + 1 + oneK / (tauDen * tauDen) + 1
  t1 + t2 + t3 + t4

/-- classification of a reported value against the true enclosure -/
inductive Cmp | within | tooBig | tooSmall | invalid
deriving BEq, Repr

def compareChord (r : F64) (t : Iv) : Cmp :=
  if r.isNaN || r.isInf || (r.signBit && !r.isZero) then .invalid else
  let (rlo, rhi) := ivOfF64 r
  let e := tol (max rhi t.2)
  if rlo > t.2 + e then .tooBig
  else if rhi < t.1 - e then .tooSmall
  else .within

end Oracle.C12J

/-! ### tiny exact dyadic arithmetic (value = m · 2^e) -/
namespace Oracle.C12J
open S2
structure Dy where
  m : Int
  e : Int
deriving Inhabited

namespace Dy
def ofF64 (x : F64) : Dy := let (m, e) := x.toDyadic; ⟨m, e⟩
def mul (a b : Dy) : Dy := ⟨a.m * b.m, a.e + b.e⟩
def neg (a : Dy) : Dy := ⟨-a.m, a.e⟩
def add (a b : Dy) : Dy :=
  let e := min a.e b.e
  ⟨a.m * 2 ^ (a.e - e).toNat + b.m * 2 ^ (b.e - e).toNat, e⟩
def sub (a b : Dy) : Dy := add a (neg b)
def sign (a : Dy) : Int := Int.sign a.m
def pow2 (k : Int) : Dy := ⟨1, k⟩
end Dy
end Oracle.C12J
