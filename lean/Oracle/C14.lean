/-
  Oracle.C14 — replays the schedule forced by harness/c14.go on the protocol model `S2.Protocol`
  (regenerated instruction list) and compares the event tokens and the end tokens.
  line:  c14 <scenario> <N> <schedule|-> = <events…> answers=… applies=… race=… outcome=… [racefn=…]
  Scenarios run `calls` successive maybeApplyUpdates (one per Iterator() call of the query), each
  followed by reads; a schedule entry releases one worker from its schedule point and runs it to its
  next schedule point / end / a blocked Lock; a waiter that becomes unblocked runs on by itself.
  The property predicate (on the implementation's own output): answers=Y, race∈{N,-}, outcome=ok.
  Event tokens are compared only for the scenarios whose number of Iterator() calls per worker is
  modelled exactly (idx-cpq, idx-ceq: one call); for the others only the end tokens are judged.
-/
import Oracle.Proto
import S2.Protocol
import S2.Generated.ProtocolIR
namespace Oracle.C14
open Oracle S2.Protocol

/-- the program of a worker: `calls` × (schedule point 0 is the first instruction of the generated
    list when hooks are present) maybeApplyUpdates, then one read -/
def workerProg (calls : Nat) : Prog :=
  (List.replicate calls S2.Generated.ProtocolIR.maybeApplyUpdates).flatten ++ [.readCells]

structure W where
  started : Bool := false

def stateTok (c : Cfg) (i : Nat) (started : Bool) : String :=
  if !started then "NS" else
  let t := c.th i
  if t.k.isEmpty then "DONE"
  else match t.k with
    | .sched k :: _ => "P" ++ toString k
    | .lock :: _ => if c.sh.owner.isSome then "BLOCKED" else "RUN"
    | _ => "RUN"

/-- run thread i until it is at a schedule point (having moved), finished, or blocked -/
partial def runWorker (i : Nat) (c : Cfg) (moved : Bool) (fuel : Nat := 10000) : Cfg :=
  if fuel == 0 then c else
  match (c.th i).k with
  | [] => c
  | .sched _ :: _ =>
    if moved then c else
    match stepThread i c with
    | some c' => runWorker i c' true (fuel - 1)
    | none => c
  | .readCells :: _ | _ =>
    match stepThread i c with
    | some c' => runWorker i c' true (fuel - 1)
    | none => c

/-- ids `j` named as side effects `+j@…` in an implementation event token -/
def wokenIn (tok : String) : List Nat :=
  ((tok.splitOn "+").drop 1).filterMap fun part => ((part.splitOn "@").headD "").toNat?

/-- after a step, let every blocked-but-now-free waiter run on.  WHICH waiter gets the mutex is not
    determined by the protocol (Go's mutex hand-off): the model follows the implementation's choice
    (`hint` = the workers the implementation's event token reports as moved), provided it is a legal
    one — the worker is indeed waiting at `lock` and the mutex is free — and otherwise takes the
    lowest id. -/
partial def settle (n : Nat) (c : Cfg) (started : Nat → Bool) (hint : List Nat) (fuel : Nat := 64) : Cfg :=
  if fuel == 0 then c else
  let eligible := fun j => started j && (match (c.th j).k with | .lock :: _ => c.sh.owner.isNone | _ => false)
  match (hint.find? eligible).orElse (fun _ => (List.range n).find? eligible) with
  | some j => settle n (runWorker j c false) started hint (fuel - 1)
  | none => c

def hasHooks : Bool := S2.Generated.ProtocolIR.maybeApplyUpdates.any (fun i => match i with | .sched _ => true | _ => false)

def endTok (res : List String) (key : String) : Option String :=
  (res.find? (·.startsWith (key ++ "="))).map (fun s => (s.drop (key.length + 1)).toString)

def callsOf (scenario : String) : Option Nat :=
  if scenario.startsWith "idx-cpq" || scenario.startsWith "idx-ceq" then some 1 else none

/-- replay of the schedule on the model; returns event tokens and the number of effective +
    no-op applications (= workers that passed schedule point 2) -/
def replay (n : Nat) (calls : Nat) (pending : Bool) (sched : List Nat) (impl : List String) : List String × Nat := Id.run do
  let mut c := init (workerProg calls) pending
  let mut started : List Nat := []
  let mut evs : List String := []
  for i in sched do
    let isStarted := fun j => started.contains j
    let before := (List.range n).map fun j => stateTok c j (isStarted j)
    let st := stateTok c i (isStarted i)
    if st == "DONE" || st == "BLOCKED" then
      evs := evs ++ [toString i ++ ":skip"]
    else
      if !(isStarted i) then
        started := started ++ [i]
        -- a new worker runs up to its first schedule point
        match (c.th i).k with
        | .sched _ :: _ => pure ()
        | _ => c := runWorker i c false
      else
        c := runWorker i c false
      let st2 := started
      c := settle n c (fun j => st2.contains j) (wokenIn (impl.getD evs.length ""))
      let after := (List.range n).map fun j => stateTok c j (st2.contains j)
      let mut tok := toString i ++ ":" ++ (after.getD i "?")
      for j in List.range n do
        if j != i && before.getD j "" != after.getD j "" && after.getD j "" != "NS" then
          tok := tok ++ "+" ++ toString j ++ "@" ++ (after.getD j "?")
      evs := evs ++ [tok]
  return (evs, c.sh.applied)

def handle (op : String) (args res : List String) : Option String :=
  match op, args with
  | "c14", [scenario, nS, schedS] => do
    let n ← nS.toNat?
    let sched ← if schedS == "-" then some [] else (schedS.splitOn ",").mapM (·.toNat?)
    let prop : Option String :=
      match endTok res "answers", endTok res "race", endTok res "outcome" with
      | some a, some r, some o =>
        if o != "ok" then some ("outcome-" ++ o)
        else if r == "Y" then some "data-race"
        else if a != "Y" then some ("answers-" ++ a)
        else none
      | _, _, _ => some "missing-end-tokens"
    -- event comparison only where the model is exact and the hooks are in the regenerated IR
    let exact := hasHooks && !(scenario.startsWith "stress-") && !(scenario.endsWith "-late")
    match callsOf scenario, exact with
    | some calls, true =>
      let pending := !(scenario.endsWith "-built")
      let implAll := res.filter fun t => !(t.contains '=') && !(t.startsWith "~")
      let (evs, _) := replay n calls pending sched implAll
      let implEvs := implAll.take evs.length
      pure (verdictP evs implEvs prop)
    | _, _ => pure (match prop with | some p => "propfail " ++ p | none => "ok")
  | _, _ => none

end Oracle.C14
